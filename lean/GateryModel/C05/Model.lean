/-!
# C05 — conditional scopes and assignments: program AST, sequential interpreter, frontend model

Three things live here (core Lean only, the driver links against this file):

* a **program AST** (`Prog`) for the fragment of the gatery frontend the property is about:
  declarations, assignments to a whole signal / static slice / bit / dynamic bit / dynamic part /
  dynamic slice (nested selections allowed), reads of the same, operators,
  `IF (c) {…}`, `ELSE {…}`, the macro `ELSEIF (c) {…}` and the two-scope form `ELSE IF (c) {…}`,
  arbitrary nesting, `BitDefault` declarations (`UIntDefault` asserts in the frontend and is rejected by the model, too);
* `run` — the **specification**: an ordinary sequential interpreter over concrete values
  (a branch that is not taken is *skipped*);
* `build` — the **model of the code as written**: it follows, call by call, what the frontend does
  when the same program text is compiled against gatery:
  `ConditionalScope`'s constructors / destructor (`frontend/ConditionalScope.cpp:39-145`: thread-local
  `m_lastCondition`, `m_lastConditionOnEntry`, `m_combinedelseChainConditon`, `s_nextId` (incl. the destructor's `s_nextId != m_id + 1` test),
  `m_fullCondition = condition ∧ parent.m_fullCondition`), `ElementarySignal::m_initialScopeId`
  (`frontend/Signal.cpp:66-70`), `Bit::assign` / `BaseBitVector::assign`
  (`frontend/Bit.cpp:276-297`, `frontend/BitVector.cpp:398-462`: the `scope->getId() > m_initialScopeId`
  test and `mux(fullCondition; old, new)`), `BitVectorSlice::assign`, `BitVectorSliceStatic/Dynamic::
  readPort/assignLocal` (`frontend/BitVectorSlice.cpp:25-181`: Rewire read-modify-write, Mux-of-Rewires
  for dynamic offsets), `Node_Default` (`frontend/Bit.cpp:147-156`; `hlim/postprocessing/
  DefaultValueResolution.cpp` is represented by its outcome on the accepted programs, see `stepDefault`), and produces a netlist (`Array Node`, every node refers to older nodes);
  `evalNodes` evaluates the netlist for one input valuation.

Node identity matters (the destructor compares node ports), therefore the netlist keeps one entry per
created node and "port" = index into the array (all modelled nodes have one output).

Deviations from the literal call sequence that cannot be observed through values or identity:
nodes are appended in topological order (the C++ code sometimes creates the consumer before the
producer, e.g. `BitVectorSliceStatic::readPort` creates the Rewire before asking its parent);
`Node_Signal`s that only decorate (the signal node every `Bit`/`UInt` object owns, `setName`) are
represented by the variable's `driver` field, not by nodes; `BaseBitVector::readPort`'s cache is not
modelled (a cached port and a fresh Rewire of the same driver carry the same value and `UInt` ports are
never conditions).
-/
namespace Gatery.C05

/-- concrete (fully defined) value, LSB first; a `Bit` is a list of length 1 -/
abbrev Val := List Bool

def natOfBits : Val → Nat
  | [] => 0
  | b :: r => b.toNat + 2 * natOfBits r

def bitsOfNat : Nat → Nat → Val
  | 0, _ => []
  | w+1, n => (n % 2 == 1) :: bitsOfNat w (n / 2)

/-- two's complement value -/
def intOfBits (v : Val) : Int :=
  if v.getLast?.getD false then (natOfBits v : Int) - (2 ^ v.length : Nat) else natOfBits v

/-- expansion policy of a signal read port (`Expansion::zero / one / sign`) -/
inductive Pol where
  | zero | one | sign
  deriving DecidableEq, Repr, Inhabited

/-- `Node_Rewire::setPadTo(w, …)`: extend at the MSB side with zeros / ones / copies of the MSB -/
def padTo (p : Pol) (w : Nat) (v : Val) : Val :=
  v ++ List.replicate (w - v.length) (match p with | .zero => false | .one => true | .sign => v.getLast?.getD false)

/-- value of a `Bit` used as a condition -/
def truthy (v : Val) : Bool := v.head?.getD false

inductive Ty where
  | bit
  | uint (w : Nat)
  deriving DecidableEq, Repr, Inhabited

def Ty.width : Ty → Nat
  | .bit => 1
  | .uint w => w

inductive Op1 where
  | not            -- `!`/`~` on Bit, `~` on UInt
  deriving DecidableEq, Repr

inductive Op2 where
  | and | or | xor     -- Bit×Bit→Bit, UInt w×UInt w→UInt w
  | add | sub          -- UInt w×UInt w→UInt w (wrap around)
  | eq | ne | lt       -- UInt w×UInt w→Bit
  | slt                -- SInt w×SInt w→Bit (signed); only created for integer-literal variables (C05/ModelX.lean)
  deriving DecidableEq, Repr

/-- operator semantics; shared by the interpreter and by the netlist evaluation (operators are property C03's business) -/
def Op1.sem : Op1 → Val → Val
  | .not, a => a.map (!·)

def Op2.sem : Op2 → Val → Val → Val
  | .and, a, b => List.zipWith (· && ·) a b
  | .or, a, b => List.zipWith (· || ·) a b
  | .xor, a, b => List.zipWith (fun x y => x != y) a b
  | .add, a, b => bitsOfNat a.length (natOfBits a + natOfBits b)
  | .sub, a, b => bitsOfNat a.length (natOfBits a + 2 ^ a.length - natOfBits b)
  | .eq, a, b => [a == b]
  | .ne, a, b => [a != b]
  | .lt, a, b => [decide (natOfBits a < natOfBits b)]
  | .slt, a, b => [decide (intOfBits a < intOfBits b)]

def Op2.resTy : Op2 → Ty → Ty → Option Ty
  | .and, a, b | .or, a, b | .xor, a, b => if a = b then some a else none
  | .add, .uint w, .uint w' | .sub, .uint w, .uint w' => if w = w' then some (.uint w) else none
  | .eq, .uint w, .uint w' | .ne, .uint w, .uint w' | .lt, .uint w, .uint w' => if w = w' then some .bit else none
  | _, _, _ => none

/-- `gtry::Selection` (frontend/BitVectorSlice.h:45-63) -/
structure Selection where
  start : Int
  width : Int
  untilEnd : Bool
  deriving DecidableEq, Repr

/-- the factory functions of `Selection` (frontend/BitVector.cpp:35-91), as written in the program text -/
inductive SelForm where
  | all                               -- Selection::All()
  | from (start : Int)                -- Selection::From(start)
  | range (start stop : Int)          -- Selection::Range(start, end)            end exclusive
  | rangeIncl (start stop : Int)      -- Selection::RangeIncl(start, endIncl)
  | slice (off size : Nat)            -- Selection::Slice(offset, size)
  | symbol (idx : Int) (sw : Nat)     -- Selection::Symbol(idx, symbolWidth)
  deriving DecidableEq, Repr

def SelForm.toSelection : SelForm → Selection
  | .all => ⟨0, 0, true⟩
  | .from s => ⟨s, 0, true⟩
  | .range s e => ⟨s, e - s, false⟩
  | .rangeIncl s e => ⟨s, e - s + 1, false⟩
  | .slice o n => ⟨o, n, false⟩
  | .symbol i w => ⟨i * w, w, false⟩

/-- `BitVectorSliceStatic::BitVectorSliceStatic(const Selection&, BitWidth parentW, …)` (frontend/BitVectorSlice.cpp:52-69):
    a negative start and a negative width count from the top of the parent. `none`: the `size_t` result would wrap around
    (negative offset or width) - outside the model. -/
def Selection.resolve (s : Selection) (W : Nat) : Option (Nat × Nat) :=
  let off : Int := if s.start ≥ 0 then s.start else s.start + W
  let w : Int := if s.untilEnd then W - off else if s.width ≥ 0 then s.width else s.width + W
  if 0 ≤ off ∧ 0 ≤ w then some (off.toNat, w.toNat) else none

/-- one selection step applied to a `UInt` -/
inductive Sel where
  | slice (off w : Nat)          -- `x(off, w_b)`            → UInt w      (BitVectorSliceStatic)
  | bit (i : Nat)                -- `x[i]`                   → Bit         (BitVectorSliceStatic (i,1) + makeItABit)
  | dynBit (idx : Nat)           -- `x[idx]`, idx a UInt var → Bit         (BitVectorSliceDynamic, mul 1, width 1)
  | dynPart (idx parts : Nat)    -- `x.part(parts, idx)`     → UInt (W/parts)
  | dynSlice (idx w : Nat)       -- `x(idx, w_b)`            → UInt w      (offset = idx, 2^idxWidth options)
  | sel (f : SelForm)            -- `x(Selection::…)`        → UInt w      (BitVectorSliceStatic from a `Selection`)
  deriving DecidableEq, Repr

inductive Expr where
  | const (ty : Ty) (v : Val)
  | read (x : Nat) (p : List Sel)      -- signal `x` (index in declaration order) followed by selections
  | op1 (o : Op1) (a : Expr)
  | op2 (o : Op2) (a b : Expr)
  deriving Repr

/-- kind of an integer-literal variable: `UInt` with policy zero / `SInt` (policy sign) / `UInt` with policy one -/
inductive IKind where
  | u0 | s | u1
  deriving DecidableEq, Repr, Inhabited

/-- statements about width-less, policy-carrying variables (own index space); semantics in C05/ModelX.lean -/
inductive IStmt where
  | declLit (k : IKind) (v : Int)        -- `UInt x = 5;` / `SInt x{-3};`
  | declExt (k : IKind) (e : Expr)       -- `UInt x = zext(e);` / `UInt x = oext(e);`
  | declCopy (y : Nat)                   -- `UInt x = y;`
  | assignLit (x : Nat) (v : Int)        -- `x = 200;`
  | assignVar (x y : Nat)                -- `x = y;`
  | declCmp (o : Op2) (x y : Nat)        -- `Bit t = (x == y);` (t is an ordinary signal)
  | reg (e : Expr)                       -- `auto t = reg(e);`        clocked: the register's ENABLE input is the observed effect
  | memW (addr d : Expr)                 -- `mem[addr] = d;`          clocked: the write port's wrEnable input is the observed effect
  | dfltAssign (x : Nat) (d : Val)       -- `x = BitDefault(d);` on an existing Bit: a further default on an already assigned / defaulted signal
  | resetAssign (x : Nat) (e : Expr)     -- `x.resetNode(); x = e;`   the vector is re-created (all alias caches dropped) and re-initialised
  deriving Repr

/-- statement list in continuation form (last argument = the statements that follow) -/
inductive Prog where
  | done
  | decl (ty : Ty) (init : Expr) (k : Prog)             -- `Bit v = e;` / `UInt v = e;`
  | declDefault (ty : Ty) (d : Val) (k : Prog)          -- `Bit v = BitDefault(d);` / `UInt v = UIntDefault(d);`
  | assign (x : Nat) (p : List Sel) (e : Expr) (k : Prog)
  | ifS (c : Expr) (body : Prog) (k : Prog)             -- `IF (c) { body }`
  | elseS (body : Prog) (k : Prog)                      -- `ELSE { body }`
  | elseifS (c : Expr) (body : Prog) (k : Prog)         -- `ELSEIF (c) { body }`      one scope (macro)
  | elseIf2 (c : Expr) (body : Prog) (k : Prog)         -- `ELSE IF (c) { body }`     ELSE scope around an IF scope
  | istmt (s : IStmt) (k : Prog)                        -- integer-literal variables, registers, memory writes: outside `run` / `build`, see `runX` / `buildX`
  | enif (c : Expr) (body : Prog) (k : Prog)            -- `ENIF (c) { body }` (EnableScope): see `runX` / `buildX`
  deriving Repr

/-! ## Specification: the sequential interpreter -/

def extract (l : Val) (off w : Nat) : Val := (l.drop off).take w

/-- replace the `w` elements at `off` by `new` -/
def splice (cur : Val) (off w : Nat) (new : Val) : Val := cur.take off ++ new ++ cur.drop (off + w)

/-- (offset, width) a selection addresses inside the value `cur`; `none`: dynamic index out of range -/
def selPos (env : List Val) (cur : Val) : Sel → Option (Nat × Nat)
  | .slice off w => some (off, w)
  | .bit i => some (i, 1)
  | .dynBit idx => do
      let iv ← env[idx]?
      if natOfBits iv < min cur.length (2 ^ iv.length) then some (natOfBits iv, 1) else none
  | .dynPart idx parts => do
      let iv ← env[idx]?
      let w := cur.length / parts
      if natOfBits iv < parts then some (natOfBits iv * w, w) else none
  | .dynSlice idx w => do
      let iv ← env[idx]?
      some (natOfBits iv, w)
  | .sel f => f.toSelection.resolve cur.length

def readPath (env : List Val) : Val → List Sel → Option Val
  | cur, [] => some cur
  | cur, s :: r => do
      let (off, w) ← selPos env cur s
      readPath env (extract cur off w) r

def writePath (env : List Val) : Val → List Sel → Val → Option Val
  | _, [], v => some v
  | cur, s :: r, v => do
      let (off, w) ← selPos env cur s
      let sub ← writePath env (extract cur off w) r v
      some (splice cur off w sub)

def evalE (env : List Val) : Expr → Option Val
  | .const _ v => some v
  | .read x p => do
      let cur ← env[x]?
      readPath env cur p
  | .op1 o a => do
      let va ← evalE env a
      some (o.sem va)
  | .op2 o a b => do
      let va ← evalE env a
      let vb ← evalE env b
      some (o.sem va vb)

/-- run a block body and drop its local variables afterwards -/
@[inline] def dropLocals (n : Nat) (r : Option (List Val)) : Option (List Val) := r.map (·.take n)

/--
Sequential interpreter. `env` = values of the live variables in declaration order,
`chain` = `some t` directly after an `IF`/`ELSEIF`/`ELSE IF` (t = "one of the branches of the chain so far was taken"),
`none` otherwise (an `ELSE…` there is not a program of the class; the interpreter returns `none`).
`none` is also returned when an *executed* dynamic index is out of range.
-/
def run : Prog → List Val → Option Bool → Option (List Val)
  | .done, env, _ => some env
  | .decl _ init k, env, _ => do
      let v ← evalE env init
      run k (env ++ [v]) none
  | .declDefault _ d k, env, _ => run k (env ++ [d]) none
  | .assign x p e k, env, _ => do
      let v ← evalE env e
      let cur ← env[x]?
      let nv ← writePath env cur p v
      run k (env.set x nv) none
  | .ifS c body k, env, _ => do
      let vc ← evalE env c
      let env' ← if truthy vc then dropLocals env.length (run body env none) else some env
      run k env' (some (truthy vc))
  | .elseS body k, env, ch => do
      let taken ← ch
      let env' ← if taken then some env else dropLocals env.length (run body env none)
      run k env' none
  | .elseifS c body k, env, ch => do
      let taken ← ch
      if taken then run k env (some true)
      else do
        let vc ← evalE env c
        let env' ← if truthy vc then dropLocals env.length (run body env none) else some env
        run k env' (some (truthy vc))
  | .elseIf2 c body k, env, ch => do
      let taken ← ch
      if taken then run k env (some true)
      else do
        let vc ← evalE env c
        let env' ← if truthy vc then dropLocals env.length (run body env none) else some env
        run k env' (some (truthy vc))
  | .istmt _ _, _, _ => none     -- integer-literal variables, registers, memory writes: see `runX` (C05/ModelX.lean)
  | .enif _ _ _, _, _ => none    -- enable scopes: see `runX`

/-! ## The netlist -/

inductive Node where
  | input (i : Nat)                                  -- input pin `i`
  | const (v : Val)                                  -- Node_Constant
  | sig (a : Nat)                                    -- Node_Signal
  | not (a : Nat)                                    -- Node_Logic NOT   (created by ConditionalScope)
  | and (a b : Nat)                                  -- Node_Logic AND   (created by ConditionalScope)
  | or (a b : Nat)                                   -- Node_Logic OR    (created by ConditionalScope)
  | mux (sel : Nat) (ins : List Nat)                 -- Node_Multiplexer
  | rewire (ins : List Nat) (ranges : List (Nat × Nat × Nat))   -- Node_Rewire: ranges (input index, offset, width), LSB first
  | op1 (o : Op1) (a : Nat)                          -- operator nodes of user expressions
  | op2 (o : Op2) (a b : Nat)
  | dflt (d : Nat)                                   -- Node_Default whose signal input is the declared variable itself (resolved: see `build`)
  | pad (a : Nat) (w : Nat) (p : Pol)                -- Node_Rewire::setPadTo (only created for integer-literal variables, C05/ModelX.lean)
  deriving Repr, Inhabited

abbrev Nodes := Array Node

def mkNode (ns : Nodes) (n : Node) : Nodes × Nat := (ns.push n, ns.size)

/-- value of one node given the values of all older nodes -/
def nodeSem (ρ : List Val) (vs : Array Val) : Node → Val
  | .input i => ρ.getD i []
  | .const v => v
  | .sig a => vs.getD a []
  | .not a => [!truthy (vs.getD a [])]
  | .and a b => [truthy (vs.getD a []) && truthy (vs.getD b [])]
  | .or a b => [truthy (vs.getD a []) || truthy (vs.getD b [])]
  | .mux s ins =>
      -- selector out of range: the simulator yields "undefined"; the model yields [] (never relied upon:
      -- the theorems only use in-range selections, everything else is masked by a conditional mux)
      match ins[natOfBits (vs.getD s [])]? with
      | some j => vs.getD j []
      | none => []
  | .rewire ins ranges => ranges.flatMap fun r => extract (vs.getD (ins.getD r.1 0) []) r.2.1 r.2.2
  | .op1 o a => o.sem (vs.getD a [])
  | .op2 o a b => o.sem (vs.getD a []) (vs.getD b [])
  | .dflt d => vs.getD d []
  | .pad a w p => padTo p w (vs.getD a [])

/-- values of all nodes under the input valuation `ρ` -/
def evalNodes (ρ : List Val) (ns : Nodes) : Array Val :=
  ns.foldl (fun vs n => vs.push (nodeSem ρ vs n)) #[]

def valAt (ρ : List Val) (ns : Nodes) (i : Nat) : Val := (evalNodes ρ ns).getD i []

/-! ## The frontend model -/

/-- a live frontend signal object (`Bit` / `UInt`) -/
structure Sig where
  ty : Ty
  /-- what `rawDriver()` returns: the port driving the object's own signal node -/
  driver : Nat
  /-- `ElementarySignal::m_initialScopeId` (0 = declared outside every scope) -/
  initScope : Nat
  /-- declared through `BitDefault` / `UIntDefault` (its first driver is a `Node_Default`) -/
  dflt : Bool := false
  deriving Repr, Inhabited

/-- a `ConditionalScope` object on the C++ stack -/
structure Scope where
  id : Nat                       -- m_id
  cond : Nat                     -- m_condition
  full : Nat                     -- m_fullCondition
  onEntry : Option Nat           -- m_lastConditionOnEntry
  combined : Option Nat          -- m_combinedelseChainConditon
  deriving Repr, Inhabited

structure BState where
  nodes : Nodes
  sigs : List Sig
  /-- innermost first: `m_currentScope`, then the `m_parentScope` chain -/
  scopes : List Scope
  /-- thread-local `ConditionalScope::m_lastCondition` (`none` = null node) -/
  lastCond : Option Nat
  /-- thread-local `ConditionalScope::s_nextId` -/
  nextId : Nat
  deriving Repr, Inhabited

def curScopeId (B : BState) : Nat := (B.scopes.head?.map (·.id)).getD 0

/-- geometry of a selection on a `UInt` of static width `W` -/
inductive SelG where
  | stat (off w : Nat) (ty : Ty)
  | dyn (idxPort mul w n : Nat) (ty : Ty)

def idxOf (sigs : List Sig) (idx : Nat) : Option (Nat × Nat) := do
  let s ← sigs[idx]?
  match s.ty with
  | .uint iw => if 1 ≤ iw then some (s.driver, iw) else none
  | .bit => none

/-- static checks the frontend performs (`HCL_DESIGNCHECK`) or that keep every Rewire in bounds -/
def selGeom (sigs : List Sig) (W : Nat) : Sel → Option SelG
  | .slice off w => if off + w ≤ W ∧ off < W then some (.stat off w (.uint w)) else none
  | .bit i => if i < W then some (.stat i 1 .bit) else none
  | .dynBit idx => do
      let (ip, iw) ← idxOf sigs idx
      -- BitVector.cpp:247: maxOffset = min(size()-1, idx.width().last())
      if 1 ≤ W then some (.dyn ip 1 1 (min W (2 ^ iw)) .bit) else none
  | .dynPart idx parts => do
      let (ip, _) ← idxOf sigs idx
      -- BitVector.h:318-324: partW = width()/parts, maxOffset = parts-1, offsetMul = partW
      -- BitWidth::operator/ : HCL_DESIGNCHECK(l.divisibleBy(r))
      if 1 ≤ parts ∧ W % parts = 0 ∧ 1 ≤ W / parts then some (.dyn ip (W / parts) (W / parts) parts (.uint (W / parts))) else none
  | .dynSlice idx w => do
      let (ip, iw) ← idxOf sigs idx
      -- BitVector.h:344-350: maxOffset = offset.width().last(), offsetMul = 1
      if 2 ^ iw - 1 + w ≤ W ∧ 1 ≤ w then some (.dyn ip 1 w (2 ^ iw) (.uint w)) else none
  | .sel f => do
      let (off, w) ← f.toSelection.resolve W
      -- readPort: HCL_DESIGNCHECK(m_offset + m_width <= width); assignLocal: HCL_ASSERT(rangeOffset < totalWidth)
      if off + w ≤ W ∧ off < W then some (.stat off w (.uint w)) else none

/-- `replaceSelection(rangeOffset, rangeWidth, totalWidth)` (BitVectorSlice.cpp:27-39) -/
def replaceSelection (off w total : Nat) : List (Nat × Nat × Nat) :=
  [(0, 0, off), (1, 0, min w (total - off))] ++
    (if total > off + w then [(0, off + w, total - (off + w))] else [])

/-- the `n` Rewire nodes `setExtract(i*mul, w)` of `BitVectorSliceDynamic::readPort` (i = start … start+n-1) -/
def mkExtracts (cur mul w : Nat) : Nat → Nat → Nodes → Nodes × List Nat
  | _, 0, ns => (ns, [])
  | i, n+1, ns =>
      let (ns, e) := mkNode ns (.rewire [cur] [(0, i * mul, w)])
      let (ns, es) := mkExtracts cur mul w (i+1) n ns
      (ns, e :: es)

/-- `BitVectorSlice::readPort` along a selection path (root first) -/
def readPathB (sigs : List Sig) : Nodes → Nat → Ty → List Sel → Option (Nodes × Nat × Ty)
  | ns, cur, ty, [] => some (ns, cur, ty)
  | ns, cur, ty, s :: r =>
      match ty with
      | .bit => none
      | .uint W => do
          match ← selGeom sigs W s with
          | .stat off w t =>
              let (ns, rw) := mkNode ns (.rewire [cur] [(0, off, w)])
              readPathB sigs ns rw t r
          | .dyn ip mul w n t =>
              let (ns, es) := mkExtracts cur mul w 0 n ns
              let (ns, m) := mkNode ns (.mux ip es)
              readPathB sigs ns m t r

/-- the per-option loop of `BitVectorSliceDynamic::assignLocal`; `child ns extract` builds the nested assignment -/
def assignOpts (child : Nodes → Nat → Option (Nodes × Nat)) (cur curW mul w : Nat) :
    Nat → Nat → Nodes → Option (Nodes × List Nat)
  | _, 0, ns => some (ns, [])
  | i, n+1, ns => do
      let (ns, ex) := mkNode ns (.rewire [cur] [(0, i * mul, w)])
      let (ns, ch) ← child ns ex
      let (ns, rw) := mkNode ns (.rewire [cur, ch] (replaceSelection (i * mul) w curW))
      let (ns, rs) ← assignOpts child cur curW mul w (i+1) n ns
      some (ns, rw :: rs)

/-- `BitVectorSlice::assign(current, next)` along a selection path (root first); `curW` = width of `cur` -/
def assignPathB (sigs : List Sig) (next : Nat) : List Sel → Nodes → Nat → Nat → Option (Nodes × Nat)
  | [], ns, _, _ => some (ns, next)
  | s :: r, ns, cur, curW => do
      match ← selGeom sigs curW s with
      | .stat off w _ =>
          let (ns, ex) := mkNode ns (.rewire [cur] [(0, off, w)])
          let (ns, ch) ← assignPathB sigs next r ns ex w
          let (ns, rw) := mkNode ns (.rewire [cur, ch] (replaceSelection off w curW))
          some (ns, rw)
      | .dyn ip mul w n _ =>
          let (ns, rs) ← assignOpts (fun ns ex => assignPathB sigs next r ns ex w) cur curW mul w 0 n ns
          let (ns, m) := mkNode ns (.mux ip rs)
          some (ns, m)

/-- static type of `x` followed by the path -/
def pathTy (sigs : List Sig) : Ty → List Sel → Option Ty
  | ty, [] => some ty
  | .bit, _ :: _ => none
  | .uint W, s :: r => do
      match ← selGeom sigs W s with
      | .stat _ _ t => pathTy sigs t r
      | .dyn _ _ _ _ t => pathTy sigs t r

/-- evaluate an expression through the frontend: creates nodes, returns the port and its static type -/
def buildExpr (sigs : List Sig) : Nodes → Expr → Option (Nodes × Nat × Ty)
  | ns, .const ty v =>
      if v.length = ty.width then
        let (ns, i) := mkNode ns (.const v)
        some (ns, i, ty)
      else none
  | ns, .read x p => do
      let s ← sigs[x]?
      readPathB sigs ns s.driver s.ty p
  | ns, .op1 o a => do
      let (ns, ia, ta) ← buildExpr sigs ns a
      let (ns, i) := mkNode ns (.op1 o ia)
      some (ns, i, ta)
  | ns, .op2 o a b => do
      let (ns, ia, ta) ← buildExpr sigs ns a
      let (ns, ib, tb) ← buildExpr sigs ns b
      let t ← o.resTy ta tb
      let (ns, i) := mkNode ns (.op2 o ia ib)
      some (ns, i, t)

/-- `BaseScope()` + `ConditionalScope::setCondition` (ConditionalScope.cpp:123-145) -/
def pushScope (B : BState) (cond : Nat) (onEntry combined : Option Nat) : BState :=
  match B.scopes with
  | [] =>
      { B with scopes := [{ id := B.nextId, cond := cond, full := cond, onEntry := onEntry, combined := combined }],
               nextId := B.nextId + 1 }
  | parent :: _ =>
      let (ns, a) := mkNode B.nodes (.and cond parent.full)
      let (ns, s) := mkNode ns (.sig a)      -- SPAM_SIGNAL_NODES
      { B with nodes := ns,
               scopes := { id := B.nextId, cond := cond, full := s, onEntry := onEntry, combined := combined } :: B.scopes,
               nextId := B.nextId + 1 }

/-- end of the block (locals die: keep the first `nsigs` signals), `~ConditionalScope` (ConditionalScope.cpp:93-111), `~BaseScope` -/
def popScope (B : BState) (nsigs : Nat) : Option BState :=
  match B.scopes with
  | [] => none
  | s :: rest =>
      let B := { B with scopes := rest, sigs := B.sigs.take nsigs }
      match s.combined with
      | some c => some { B with lastCond := some c }
      | none =>
          match s.onEntry, B.lastCond with
          | some l, some lc =>
              -- `m_lastConditionOnEntry && s_nextId != m_id + 1`: a scope was opened (and closed) inside this ELSE
              -- (until commit ac19c14 the test compared ports: `m_lastConditionOnEntry != m_lastCondition`, see C05/Historical.lean)
              if B.nextId ≠ s.id + 1 then
                -- "special case for ELSEIF to catch the condition of the IF scope in the ELSE dtor"
                let (ns, o) := mkNode B.nodes (.or lc l)
                some { B with nodes := ns, lastCond := some o }
              else some { B with lastCond := some s.cond }
          | _, _ => some { B with lastCond := some s.cond }

/-- `ConditionalScope(ElseCase)` (ConditionalScope.cpp:47-65) -/
def pushElse (B : BState) (l : Nat) : BState :=
  let (ns, inv) := mkNode B.nodes (.not l)
  let (ns, sg) := mkNode ns (.sig inv)      -- SPAM_SIGNAL_NODES
  pushScope { B with nodes := ns } sg (some l) none

/-- the conditional multiplexer of `Bit::assign` / `BaseBitVector::assign` -/
def condMux (B : BState) (ns : Nodes) (s : Sig) (isBit : Bool) (inn : Nat) : Nodes × Nat :=
  match B.scopes with
  | [] => (ns, inn)
  | sc :: _ =>
      if sc.id > s.initScope then
        if isBit then
          let (ns, si) := mkNode ns (.sig s.driver)          -- Bit.cpp:284-285 `signal_in`
          mkNode ns (.mux sc.full [si, inn])
        else mkNode ns (.mux sc.full [s.driver, inn])
      else (ns, inn)

def Ty.isBit : Ty → Bool
  | .bit => true
  | .uint _ => false

/-- `Bit v = e;` / `UInt v = e;` -/
def stepDecl (B : BState) (ty : Ty) (init : Expr) : Option BState := do
  let (ns, i, t) ← buildExpr B.sigs B.nodes init
  if t = ty then
    some { B with nodes := ns, sigs := B.sigs ++ [{ ty := ty, driver := i, initScope := curScopeId B }] }
  else none

/--
`Bit v = BitDefault(d)`: v's own (still undriven) signal node feeds input 0 of a `Node_Default`, the constant `d` feeds input 1 and
the `Node_Default` drives v (Bit.cpp:147-156). `DefaultValueResolution` keeps the default iff the cone of input 0 leads back to the
`Node_Default` itself. That is the case as long as v is only ever assigned through a conditional multiplexer or a read-modify-write
(both keep the old driver as an operand); `stepAssign` rejects the remaining case (whole, unconditional assignment), so the model can
evaluate the node as its default input.
Only `Bit` has a usable default: `UInt v = UIntDefault(..)` asserts (`BaseBitVector(const BaseBitVectorDefault&)` reads the not yet
created node, BitVector.cpp:151-154, 471).
-/
def stepDefault (B : BState) (ty : Ty) (d : Val) : Option BState :=
  if d.length = ty.width ∧ ty = .bit then
    let (ns, c) := mkNode B.nodes (.const d)
    let (ns, dn) := mkNode ns (.dflt c)
    some { B with nodes := ns, sigs := B.sigs ++ [{ ty := ty, driver := dn, initScope := curScopeId B, dflt := true }] }
  else none

/-- `x<path> = e;`  (Bit.cpp:276-297, BitVector.cpp:398-462) -/
def stepAssign (B : BState) (x : Nat) (p : List Sel) (e : Expr) : Option BState := do
  let (ns, rhs, t) ← buildExpr B.sigs B.nodes e
  let s ← B.sigs[x]?
  let tt ← pathTy B.sigs s.ty p
  if tt = t ∧ ¬ (s.dflt = true ∧ p = [] ∧ curScopeId B ≤ s.initScope) then do
    let (ns, inn) ← assignPathB B.sigs rhs p ns s.driver s.ty.width
    let (ns, inn) := condMux B ns s tt.isBit inn
    some { B with nodes := ns, sigs := B.sigs.set x { s with driver := inn } }
  else none

/-- `IF (c)`: the argument is evaluated, then `ConditionalScope(const Bit&)` (ConditionalScope.cpp:41-45) -/
def openIf (B : BState) (c : Expr) : Option BState := do
  let (ns, ci, t) ← buildExpr B.sigs B.nodes c
  if t = .bit then some (pushScope { B with nodes := ns } ci none none) else none

/-- `ELSE` -/
def openElse (B : BState) : Option BState := do
  let l ← B.lastCond
  some (pushElse B l)

/-- `ELSEIF (c)`: the argument is evaluated, then `ConditionalScope(ElseCase, const Bit&)` (ConditionalScope.cpp:67-83) -/
def openElseIf (B : BState) (c : Expr) : Option BState := do
  let (ns, ci, t) ← buildExpr B.sigs B.nodes c
  let l ← B.lastCond
  if t = .bit then
    let (ns, o) := mkNode ns (.or l ci)
    let (ns, inv) := mkNode ns (.not l)
    let (ns, an) := mkNode ns (.and ci inv)
    some (pushScope { B with nodes := ns } an none (some o))
  else none

/--
The frontend executing the program text. `none` = the frontend throws / the program is outside what the model covers
(type or width mismatch, slice out of bounds, `ELSE` with a null `m_lastCondition`, `UIntDefault`, unconditional overwrite of a
defaulted signal).
-/
def build : Prog → BState → Option BState
  | .done, B => some B
  | .decl ty init k, B => do
      let B1 ← stepDecl B ty init
      build k B1
  | .declDefault ty d k, B => do
      let B1 ← stepDefault B ty d
      build k B1
  | .assign x p e k, B => do
      let B1 ← stepAssign B x p e
      build k B1
  | .ifS c body k, B => do
      let B1 ← openIf B c
      let B2 ← build body B1
      let B3 ← popScope B2 B.sigs.length
      build k B3
  | .elseS body k, B => do
      let B1 ← openElse B
      let B2 ← build body B1
      let B3 ← popScope B2 B.sigs.length
      build k B3
  | .elseifS c body k, B => do
      let B1 ← openElseIf B c
      let B2 ← build body B1
      let B3 ← popScope B2 B.sigs.length
      build k B3
  | .elseIf2 c body k, B => do
      -- `ELSE IF (c) body` = `else {…} if (ConditionalScope{ElseCase{}}) if (ConditionalScope{c}) body`
      let l ← B.lastCond
      let B1 := pushElse B l
      let B2 ← openIf B1 c
      let B3 ← build body B2
      let B4 ← popScope B3 B.sigs.length
      let B5 ← popScope B4 B.sigs.length
      build k B5
  | .istmt _ _, _ => none        -- integer-literal variables, registers, memory writes: see `buildX` (C05/ModelX.lean)
  | .enif _ _ _, _ => none       -- enable scopes: see `buildX`

/-- the design before the first statement: one input pin per entry of `ins`, each read into a variable (`UInt v = pinIn(w)`) -/
def initState (ins : List Ty) : BState :=
  { nodes := ((List.range ins.length).map Node.input).toArray,
    sigs := (List.range ins.length).zipWith (fun i ty => { ty := ty, driver := i, initScope := 0 }) ins,
    scopes := [], lastCond := none, nextId := 1 }

/-- input valuations of the right shape -/
def typedEnv (tys : List Ty) (env : List Val) : Prop := env.map List.length = tys.map Ty.width

instance (tys : List Ty) (env : List Val) : Decidable (typedEnv tys env) := by unfold typedEnv; infer_instance

/-- final value of every variable of the built design under the valuation `ρ` -/
def outputs (ρ : List Val) (B : BState) : List Val :=
  let vs := evalNodes ρ B.nodes
  B.sigs.map fun s => vs.getD s.driver []

end Gatery.C05
