import GateryModel.C05.Model
/-!
# C05 — width-less, policy-carrying variables (integer literals)

`UInt x = 5;`, `SInt s{-3};`, `UInt o = oext(e);` create vectors whose width is inferred and that carry an expansion policy
(`Expansion::zero / sign / one`). Assigning a wider value later *grows* the variable (`BaseBitVector::assign`,
frontend/BitVector.cpp:387-455, `incrementWidth`); inside a conditional scope the old value is first padded to the new width
with the variable's policy (lines 410-427) and then multiplexed with the new value; a narrower value is padded to the variable's
width with the *incoming* port's policy (`in.expand`, line 397). Binary operators pad each operand to the wider width with the
operand's own policy (`NormalizedWidthOperands`, frontend/Signal.h).

These variables live in their own index space (`IStmt`, Model.lean). `buildX` extends `build` (same step functions, same scope
handling) by the statements about them; `runX` extends `run` with the sequential semantics **on integers**: an integer variable
holds an integer (`ival`: unsigned for policy zero, two's complement for `SInt`, "bits followed by infinitely many ones" for
policy one), an assignment stores the literal's / the other variable's integer, a skipped branch changes nothing. The static width
is a frontend matter only: the design's final bits are compared with the interpreter's integer through `ival`.

**Enable scopes, registers, memory writes.** `ENIF (c) { … }` constructs an `EnableScope` (frontend/EnableScope.cpp): its
accumulated condition is `c ∧ parent.m_fullEnableCondition`; every `ConditionalScope` owns one, too, set up with the conditional
scope's full condition (`m_enScope.setup(m_fullCondition)`, ConditionalScope.cpp:144). `reg(e)` connects the register's ENABLE input
and `mem[a] = d` the write port's wrEnable input to `EnableScope::get()->getFullEnableCondition()` (Reg.cpp:51-53, Memory.h:90-93);
assignments are *not* affected by enable scopes. The model keeps the enable-scope stack (`XState.ens`) next to the conditional-scope
stack and records, per `reg` / `memW` statement, the port that drives the enable input (`XState.obs`; a constant one if no enable scope
is open). Sequential semantics (`runX`): a register / memory word is updated in a clock cycle iff every enclosing `IF` / `ELSE…` branch
is taken and every enclosing `ENIF` condition holds; the interpreter records that Boolean per statement (false for statements inside
skipped blocks). What the register stores over time is property C04's business, not modelled here.

Outside this model (rejected by `buildX`): a narrower value whose policy differs from the variable's (its meaning depends on the
static width), mixed kinds in one comparison or assignment, `<` on policy-one variables, `UInt` literals < 1.

Proof status: `C05_sequential` (Properties/C05.lean) is about `build` / `run`, which reject `IStmt`; this file is tied to the code by
the correspondence check, plus two theorems in `C05/LemmasX.lean` (`ival_padTo`, `assignInt_conditional`) about the padding the
frontend inserts and the conditional assignment.
-/
namespace Gatery.C05

def IKind.pol : IKind → Pol
  | .u0 => .zero
  | .s => .sign
  | .u1 => .one

/-- policy of an integer literal assigned to a variable of this kind (`UInt::operator=(Int)`: zero, `SInt::operator=(Int)`: sign) -/
def IKind.litPol : IKind → Pol
  | .s => .sign
  | _ => .zero

def bitLenF : Nat → Nat → Nat
  | 0, _ => 0
  | f+1, n => if n = 0 then 0 else 1 + bitLenF f (n / 2)

/-- number of bits of `n` (0 for 0) -/
def bitLen (n : Nat) : Nat := bitLenF n n

/-- width the frontend infers for a literal (BitVector.cpp:347-375: `Log2C(v+1)`, `Log2C(v+1)+1`, `Log2C(~v+1)+1`) -/
def litWidth (k : IKind) (v : Int) : Option Nat :=
  match k with
  | .s => some (if v ≥ 0 then bitLen v.toNat + 1 else bitLen (-v - 1).toNat + 1)
  | _ => if v ≥ 1 then some (bitLen v.toNat) else none

/-- `sim::parseBitVector(uint64_t(value), width)` -/
def litBits (v : Int) (w : Nat) : Val := bitsOfNat w (v % (2 ^ w : Nat)).toNat

/-- the integer an integer-variable's bits stand for -/
def ival (k : IKind) (v : Val) : Int :=
  match k with
  | .u0 => natOfBits v
  | .s => intOfBits v
  | .u1 => (natOfBits v : Int) - (2 ^ v.length : Nat)

/-! ## sequential semantics on integers -/

abbrev IVal := IKind × Val

def cmpSpec (o : Op2) (k : IKind) (a b : Val) : Option Val :=
  match o, k with
  | .eq, _ => some [decide (ival k a = ival k b)]
  | .ne, _ => some [decide (ival k a ≠ ival k b)]
  | .lt, .u0 => some [decide (ival k a < ival k b)]
  | .lt, .s => some [decide (ival k a < ival k b)]
  | _, _ => none

def stepIrun (env : List Val) (ienv : List IVal) : IStmt → Option (List Val × List IVal)
  | .declLit k v => do
      let w ← litWidth k v
      some (env, ienv ++ [(k, litBits v w)])
  | .declExt k e => do
      let v ← evalE env e
      some (env, ienv ++ [(k, v)])
  | .declCopy y => do
      let iv ← ienv[y]?
      some (env, ienv ++ [iv])
  | .assignLit x v => do
      let (k, _) ← ienv[x]?
      let w ← litWidth k v
      some (env, ienv.set x (k, litBits v w))
  | .assignVar x y => do
      let (kx, _) ← ienv[x]?
      let (ky, vy) ← ienv[y]?
      if kx = ky then some (env, ienv.set x (kx, vy)) else none
  | .declCmp o x y => do
      let (kx, vx) ← ienv[x]?
      let (ky, vy) ← ienv[y]?
      if kx = ky then do
        let r ← cmpSpec o kx vx vy
        some (env ++ [r], ienv)
      else none
  | .reg _ | .memW _ _ => none     -- handled by `runX`
  | .dfltAssign x _ => do
      -- a default only applies where nothing was assigned: the signal already has a value (declaration, earlier default), so nothing changes
      let _ ← env[x]?
      some (env, ienv)
  | .resetAssign x e => do
      -- sequential semantics: the variable simply takes the new value (alias caches are not part of it - that is the point)
      let v ← evalE env e
      let _ ← env[x]?
      some (env.set x v, ienv)

/-- interpreter state: ordinary variables, integer variables, and the "update happens" flag of every `reg` / `memW` statement met so far
    (in program text order, skipped blocks included) -/
structure RS where
  env : List Val
  ienv : List IVal
  obs : List Bool
  deriving Repr, Inhabited

mutual
/-- number of `reg` / `memW` statements in a program text -/
def countObs : Prog → Nat
  | .done => 0
  | .decl _ _ k | .declDefault _ _ k | .assign _ _ _ k => countObs k
  | .ifS _ b k | .elseS b k | .elseifS _ b k | .elseIf2 _ b k | .enif _ b k => countObs b + countObs k
  | .istmt s k => (match s with | .reg _ | .memW _ _ => 1 | _ => 0) + countObs k
end

/-- a block that is not executed: nothing changes, its registers / memory writes do not update -/
def skipBlock (body : Prog) (s : RS) : RS := { s with obs := s.obs ++ List.replicate (countObs body) false }

/-- end of an executed block: its local variables die -/
def endBlock (outer : RS) (r : Option RS) : Option RS :=
  r.map fun s => { s with env := s.env.take outer.env.length, ienv := s.ienv.take outer.ienv.length }

/-- `run` extended by integer variables, enable scopes, registers and memory writes. `en` = conjunction of the conditions of the
    enclosing `ENIF` scopes (the enclosing `IF` conditions are true whenever a statement is executed at all). -/
def runX : Prog → RS → Bool → Option Bool → Option RS
  | .done, s, _, _ => some s
  | .decl _ init k, s, en, _ => do
      let v ← evalE s.env init
      runX k { s with env := s.env ++ [v] } en none
  | .declDefault _ d k, s, en, _ => runX k { s with env := s.env ++ [d] } en none
  | .assign x p e k, s, en, _ => do
      let v ← evalE s.env e
      let cur ← s.env[x]?
      let nv ← writePath s.env cur p v
      runX k { s with env := s.env.set x nv } en none
  | .ifS c body k, s, en, _ => do
      let vc ← evalE s.env c
      let s' ← if truthy vc then endBlock s (runX body s en none) else some (skipBlock body s)
      runX k s' en (some (truthy vc))
  | .elseS body k, s, en, ch => do
      let taken ← ch
      let s' ← if taken then some (skipBlock body s) else endBlock s (runX body s en none)
      runX k s' en none
  | .elseifS c body k, s, en, ch => do
      let taken ← ch
      if taken then runX k (skipBlock body s) en (some true)
      else do
        let vc ← evalE s.env c
        let s' ← if truthy vc then endBlock s (runX body s en none) else some (skipBlock body s)
        runX k s' en (some (truthy vc))
  | .elseIf2 c body k, s, en, ch => do
      let taken ← ch
      if taken then runX k (skipBlock body s) en (some true)
      else do
        let vc ← evalE s.env c
        let s' ← if truthy vc then endBlock s (runX body s en none) else some (skipBlock body s)
        runX k s' en (some (truthy vc))
  | .enif c body k, s, en, _ => do
      -- the block itself is executed (assignments are not gated by enable scopes); clocked updates inside need `c`, too
      let vc ← evalE s.env c
      let s' ← endBlock s (runX body s (en && truthy vc) none)
      runX k s' en none
  | .istmt st k, s, en, _ =>
      match st with
      | .reg _ | .memW _ _ => runX k { s with obs := s.obs ++ [en] } en none
      | _ => do
          let (env', ienv') ← stepIrun s.env s.ienv st
          runX k { s with env := env', ienv := ienv' } en none

/-! ## the frontend -/

/-- a live width-less frontend vector -/
structure ISig where
  kind : IKind
  /-- `m_width` (grows) -/
  width : Nat
  driver : Nat
  initScope : Nat
  deriving Repr, Inhabited

/-- an `EnableScope` object (its own or the one a `ConditionalScope` carries) -/
structure EnS where
  cond : Nat      -- m_enableCondition
  full : Nat      -- m_fullEnableCondition
  deriving Repr, Inhabited

structure XState where
  core : BState
  ivars : List ISig
  /-- enable-scope stack, innermost first (`EnableScope::m_currentScope` and the `m_parentScope` chain) -/
  ens : List EnS := []
  /-- per `reg` / `memW` statement so far: the port driving the ENABLE / wrEnable input -/
  obs : List Nat := []
  deriving Repr, Inhabited

/-- `EnableScope::setEnable(cond, checkParent = true)` (EnableScope.cpp:52-66): `full = cond ∧ parent.full` -/
def pushEn (ns : Nodes) (ens : List EnS) (cond : Nat) : Nodes × List EnS :=
  match ens with
  | [] => (ns, [{ cond := cond, full := cond }])
  | p :: _ =>
      let (ns, a) := mkNode ns (.and cond p.full)
      (ns, { cond := cond, full := a } :: ens)

/-- the `EnableScope` member of the `ConditionalScope` that was just constructed: `m_enScope.setup(m_fullCondition)` -/
def pushEnTop (X : XState) : XState :=
  match X.core.scopes with
  | [] => X
  | sc :: _ =>
      let (ns, ens) := pushEn X.core.nodes X.ens sc.full
      { X with core := { X.core with nodes := ns }, ens := ens }

/-- the enable a clocked node created now gets (`EnableScope::get()`; none: always enabled, modelled as a constant one) -/
def curEnable (X : XState) : XState × Nat :=
  match X.ens with
  | e :: _ => (X, e.full)
  | [] =>
      let (ns, c) := mkNode X.core.nodes (.const [true])
      ({ X with core := { X.core with nodes := ns } }, c)

/-- `BaseBitVector::assign(SignalReadPort in)` (BitVector.cpp:387-455) on a width-less vector: `inn` has width `wi`, policy `pi` -/
def assignInt (X : XState) (x : Nat) (inn wi : Nat) (pi : Pol) : Option XState := do
  let s ← X.ivars[x]?
  let B := X.core
  if wi < s.width ∧ pi ≠ s.kind.pol then none     -- meaning depends on the static width: outside the model
  else
    -- `if (!incrementWidth) in = in.expand(width(), BITVEC)`
    let (ns, inn) := if wi < s.width then mkNode B.nodes (.pad inn s.width pi) else (B.nodes, inn)
    let (ns, inn) :=
      match B.scopes with
      | sc :: _ =>
          if sc.id > s.initScope then
            -- `if (incrementWidth) { rewire->setPadTo(in.width(), m_expansionPolicy) … oldSignal = rewire }`
            let (ns, old) := if wi > s.width then mkNode ns (.pad s.driver wi s.kind.pol) else (ns, s.driver)
            mkNode ns (.mux sc.full [old, inn])
          else (ns, inn)
      | [] => (ns, inn)
    some { X with core := { B with nodes := ns },
                  ivars := X.ivars.set x { s with width := max wi s.width, driver := inn } }

/-- a new vector constructed from a port: `createNode(in.width(), in.expansionPolicy)`, unconditional connect -/
def declInt (X : XState) (k : IKind) (port w : Nat) : XState :=
  { X with ivars := X.ivars ++ [{ kind := k, width := w, driver := port, initScope := curScopeId X.core }] }

def stepI (X : XState) : IStmt → Option XState
  | .declLit k v => do
      -- only `UInt x = lit` (policy zero) and `SInt x{lit}` (policy sign) exist
      if k = .u1 then none else
      let w ← litWidth k v
      let (ns, c) := mkNode X.core.nodes (.const (litBits v w))
      some (declInt { X with core := { X.core with nodes := ns } } k c w)
  | .declExt k e => do
      -- `UInt x = zext(e)` / `UInt x = oext(e)` (no width change): the read port of `e` with the policy attached
      if k = .s then none else
      let (ns, i, t) ← buildExpr X.core.sigs X.core.nodes e
      match t with
      | .uint w => if 1 ≤ w then some (declInt { X with core := { X.core with nodes := ns } } k i w) else none
      | .bit => none
  | .declCopy y => do
      let s ← X.ivars[y]?
      some (declInt X s.kind s.driver s.width)
  | .assignLit x v => do
      let s ← X.ivars[x]?
      let w ← litWidth s.kind v
      let (ns, c) := mkNode X.core.nodes (.const (litBits v w))
      assignInt { X with core := { X.core with nodes := ns } } x c w s.kind.litPol
  | .assignVar x y => do
      let sx ← X.ivars[x]?
      let sy ← X.ivars[y]?
      if sx.kind = sy.kind then assignInt X x sy.driver sy.width sy.kind.pol else none
  | .declCmp o x y => do
      let sx ← X.ivars[x]?
      let sy ← X.ivars[y]?
      if sx.kind ≠ sy.kind then none else
      let o' ← (match o, sx.kind with
        | .eq, _ => some Op2.eq
        | .ne, _ => some Op2.ne
        | .lt, .u0 => some Op2.lt
        | .lt, .s => some Op2.slt
        | _, _ => none)
      -- NormalizedWidthOperands: each operand is padded to the wider width with its own policy
      let w := max sx.width sy.width
      let ns := X.core.nodes
      let (ns, a) := if sx.width < w then mkNode ns (.pad sx.driver w sx.kind.pol) else (ns, sx.driver)
      let (ns, b) := if sy.width < w then mkNode ns (.pad sy.driver w sy.kind.pol) else (ns, sy.driver)
      let (ns, r) := mkNode ns (.op2 o' a b)
      let B := X.core
      some { X with core := { B with nodes := ns, sigs := B.sigs ++ [{ ty := .bit, driver := r, initScope := curScopeId B }] } }
  | .dfltAssign x d => do
      -- `Bit::operator=(const BitDefault&)` (Bit.cpp:147-156): Node_Default(in = current driver, default = d), then an ordinary (conditional)
      -- assignment of that node. DefaultValueResolution visits the Node_Defaults in creation order: the signal's first default (if it was
      -- declared through one) is resolved to its default value first, after which the cone of this node's input no longer leads back to
      -- itself - it is replaced by its input: a no-op (`Node.sig`).
      let s ← X.core.sigs[x]?
      if s.ty = .bit ∧ d.length = 1 then
        let (ns, _) := mkNode X.core.nodes (.const d)
        let (ns, dn) := mkNode ns (.sig s.driver)
        let (ns, inn) := condMux X.core ns s true dn
        some { X with core := { X.core with nodes := ns, sigs := X.core.sigs.set x { s with driver := inn } } }
      else none
  | .resetAssign x e => do
      -- `x.resetNode()` (BitVector.cpp:238-254): node, width, policy and every alias cache are dropped, `m_initialScopeId` becomes the
      -- current scope; `x = e` then creates a fresh node driven by `e` without a multiplexer. Re-creating a variable that was declared
      -- outside the current conditional scope is not a sequential assignment (the C++ object is rebound whatever the condition): rejected,
      -- as are a width change and defaulted signals. The right-hand side is evaluated before the reset (it may read `x`).
      let (ns, i, t) ← buildExpr X.core.sigs X.core.nodes e
      let s ← X.core.sigs[x]?
      if t = s.ty ∧ ¬ t.isBit ∧ s.initScope = curScopeId X.core ∧ s.dflt = false then
        some { X with core := { X.core with nodes := ns, sigs := X.core.sigs.set x { s with driver := i } } }
      else none
  | .reg e => do
      -- `reg(e)`: Node_Register, ENABLE ← EnableScope::get()->getFullEnableCondition()
      let (ns, _, _) ← buildExpr X.core.sigs X.core.nodes e
      let (X, en) := curEnable { X with core := { X.core with nodes := ns } }
      some { X with obs := X.obs ++ [en] }
  | .memW addr d => do
      -- `Memory<UInt> mem(2^aw, w_b); mem[addr] = d;`: Node_MemPort, wrEnable ← full enable
      let (ns, _, ta) ← buildExpr X.core.sigs X.core.nodes addr
      let (ns, _, td) ← buildExpr X.core.sigs ns d
      match ta, td with
      | .uint aw, .uint w =>
          if 1 ≤ aw ∧ aw ≤ 4 ∧ 1 ≤ w then
            let (X, en) := curEnable { X with core := { X.core with nodes := ns } }
            some { X with obs := X.obs ++ [en] }
          else none
      | _, _ => none

/-- end of a conditional scope's block: `~ConditionalScope` (with its `EnableScope` member) -/
def popX (X : XState) (nsigs nivars : Nat) : Option XState := do
  let B ← popScope X.core nsigs
  some { X with core := B, ivars := X.ivars.take nivars, ens := X.ens.drop 1 }

/-- `build` extended by the integer-variable statements -/
def buildX : Prog → XState → Option XState
  | .done, X => some X
  | .decl ty init k, X => do
      let B1 ← stepDecl X.core ty init
      buildX k { X with core := B1 }
  | .declDefault ty d k, X => do
      let B1 ← stepDefault X.core ty d
      buildX k { X with core := B1 }
  | .assign x p e k, X => do
      let B1 ← stepAssign X.core x p e
      buildX k { X with core := B1 }
  | .ifS c body k, X => do
      let B1 ← openIf X.core c
      let X2 ← buildX body (pushEnTop { X with core := B1 })
      let X3 ← popX X2 X.core.sigs.length X.ivars.length
      buildX k X3
  | .elseS body k, X => do
      let B1 ← openElse X.core
      let X2 ← buildX body (pushEnTop { X with core := B1 })
      let X3 ← popX X2 X.core.sigs.length X.ivars.length
      buildX k X3
  | .elseifS c body k, X => do
      let B1 ← openElseIf X.core c
      let X2 ← buildX body (pushEnTop { X with core := B1 })
      let X3 ← popX X2 X.core.sigs.length X.ivars.length
      buildX k X3
  | .elseIf2 c body k, X => do
      let l ← X.core.lastCond
      let X1 := pushEnTop { X with core := pushElse X.core l }
      let B2 ← openIf X1.core c
      let X3 ← buildX body (pushEnTop { X1 with core := B2 })
      let X4 ← popX X3 X.core.sigs.length X.ivars.length
      let X5 ← popX X4 X.core.sigs.length X.ivars.length
      buildX k X5
  | .istmt s k, X => do
      let X1 ← stepI X s
      buildX k X1
  | .enif c body k, X => do
      -- `ENIF (c) body` = `if (gtry::EnableScope ___enableScope{c}) {} else body`: no conditional scope, no multiplexers
      let (ns, ci, t) ← buildExpr X.core.sigs X.core.nodes c
      if t = .bit then do
        let (ns, ens) := pushEn ns X.ens ci
        let X2 ← buildX body { X with core := { X.core with nodes := ns }, ens := ens }
        buildX k { X2 with core := { X2.core with sigs := X2.core.sigs.take X.core.sigs.length }, ivars := X2.ivars.take X.ivars.length,
                           ens := X2.ens.drop 1 }
      else none

def initX (ins : List Ty) : XState := { core := initState ins, ivars := [] }

/-- value of the enable inputs of all `reg` / `memW` statements -/
def outputsObs (ρ : List Val) (X : XState) : List Bool :=
  let vs := evalNodes ρ X.core.nodes
  X.obs.map fun p => truthy (vs.getD p [])

/-- final bits of every integer variable of the built design -/
def outputsI (ρ : List Val) (X : XState) : List (IKind × Val) :=
  let vs := evalNodes ρ X.core.nodes
  X.ivars.map fun s => (s.kind, vs.getD s.driver [])

end Gatery.C05
