import GateryModel.C05.Model
/-!
# C05 — width-less, policy-carrying variables (integer literals)

`UInt x = 5;`, `SInt s{-3};`, `UInt o = oext(e);` create vectors whose width is inferred and that carry an expansion policy
(`Expansion::zero / sign / one`). Assigning a wider value later *grows* the variable (`BaseBitVector::assign`,
frontend/BitVector.cpp:387-455, `incrementWidth`); inside a conditional scope the old value is first padded to the new width
with the variable's policy (lines 410-427) and then multiplexed with the new value; a narrower value is padded to the variable's
width with the *incoming* port's policy (`in.expand`, line 397). Binary operators pad each operand to the wider width with the
operand's own policy (`NormalizedWidthOperands`, frontend/Signal.h).

These variables live in their own index space (`IStmt`, Model.lean). `buildX` extends `build` (same step functions, same scope
handling) by the statements about them; `runX` extends `run` with the sequential semantics **on integers**: an integer variable
holds an integer (`ival`: unsigned for policy zero, two's complement for `SInt`, "bits followed by infinitely many ones" for
policy one), an assignment stores the literal's / the other variable's integer, a skipped branch changes nothing. The static width
is a frontend matter only: the design's final bits are compared with the interpreter's integer through `ival`.

Outside this model (rejected by `buildX`): a narrower value whose policy differs from the variable's (its meaning depends on the
static width), mixed kinds in one comparison or assignment, `<` on policy-one variables, `UInt` literals < 1.

Proof status: `C05_sequential` (Properties/C05.lean) is about `build` / `run`, which reject `IStmt`; this file is tied to the code by
the correspondence check, plus two theorems in `C05/LemmasX.lean` (`ival_padTo`, `assignInt_conditional`) about the padding the
frontend inserts and the conditional assignment.
-/
namespace Gatery.C05

def IKind.pol : IKind → Pol
  | .u0 => .zero
  | .s => .sign
  | .u1 => .one

/-- policy of an integer literal assigned to a variable of this kind (`UInt::operator=(Int)`: zero, `SInt::operator=(Int)`: sign) -/
def IKind.litPol : IKind → Pol
  | .s => .sign
  | _ => .zero

def bitLenF : Nat → Nat → Nat
  | 0, _ => 0
  | f+1, n => if n = 0 then 0 else 1 + bitLenF f (n / 2)

/-- number of bits of `n` (0 for 0) -/
def bitLen (n : Nat) : Nat := bitLenF n n

/-- width the frontend infers for a literal (BitVector.cpp:347-375: `Log2C(v+1)`, `Log2C(v+1)+1`, `Log2C(~v+1)+1`) -/
def litWidth (k : IKind) (v : Int) : Option Nat :=
  match k with
  | .s => some (if v ≥ 0 then bitLen v.toNat + 1 else bitLen (-v - 1).toNat + 1)
  | _ => if v ≥ 1 then some (bitLen v.toNat) else none

/-- `sim::parseBitVector(uint64_t(value), width)` -/
def litBits (v : Int) (w : Nat) : Val := bitsOfNat w (v % (2 ^ w : Nat)).toNat

/-- the integer an integer-variable's bits stand for -/
def ival (k : IKind) (v : Val) : Int :=
  match k with
  | .u0 => natOfBits v
  | .s => intOfBits v
  | .u1 => (natOfBits v : Int) - (2 ^ v.length : Nat)

/-! ## sequential semantics on integers -/

abbrev IVal := IKind × Val

def cmpSpec (o : Op2) (k : IKind) (a b : Val) : Option Val :=
  match o, k with
  | .eq, _ => some [decide (ival k a = ival k b)]
  | .ne, _ => some [decide (ival k a ≠ ival k b)]
  | .lt, .u0 => some [decide (ival k a < ival k b)]
  | .lt, .s => some [decide (ival k a < ival k b)]
  | _, _ => none

def stepIrun (env : List Val) (ienv : List IVal) : IStmt → Option (List Val × List IVal)
  | .declLit k v => do
      let w ← litWidth k v
      some (env, ienv ++ [(k, litBits v w)])
  | .declExt k e => do
      let v ← evalE env e
      some (env, ienv ++ [(k, v)])
  | .declCopy y => do
      let iv ← ienv[y]?
      some (env, ienv ++ [iv])
  | .assignLit x v => do
      let (k, _) ← ienv[x]?
      let w ← litWidth k v
      some (env, ienv.set x (k, litBits v w))
  | .assignVar x y => do
      let (kx, _) ← ienv[x]?
      let (ky, vy) ← ienv[y]?
      if kx = ky then some (env, ienv.set x (kx, vy)) else none
  | .declCmp o x y => do
      let (kx, vx) ← ienv[x]?
      let (ky, vy) ← ienv[y]?
      if kx = ky then do
        let r ← cmpSpec o kx vx vy
        some (env ++ [r], ienv)
      else none

@[inline] def dropLocalsX (n m : Nat) (r : Option (List Val × List IVal)) : Option (List Val × List IVal) :=
  r.map fun (e, i) => (e.take n, i.take m)

/-- `run` extended by the integer-variable statements (same chain bookkeeping) -/
def runX : Prog → List Val → List IVal → Option Bool → Option (List Val × List IVal)
  | .done, env, ienv, _ => some (env, ienv)
  | .decl _ init k, env, ienv, _ => do
      let v ← evalE env init
      runX k (env ++ [v]) ienv none
  | .declDefault _ d k, env, ienv, _ => runX k (env ++ [d]) ienv none
  | .assign x p e k, env, ienv, _ => do
      let v ← evalE env e
      let cur ← env[x]?
      let nv ← writePath env cur p v
      runX k (env.set x nv) ienv none
  | .ifS c body k, env, ienv, _ => do
      let vc ← evalE env c
      let (env', ienv') ← if truthy vc then dropLocalsX env.length ienv.length (runX body env ienv none) else some (env, ienv)
      runX k env' ienv' (some (truthy vc))
  | .elseS body k, env, ienv, ch => do
      let taken ← ch
      let (env', ienv') ← if taken then some (env, ienv) else dropLocalsX env.length ienv.length (runX body env ienv none)
      runX k env' ienv' none
  | .elseifS c body k, env, ienv, ch => do
      let taken ← ch
      if taken then runX k env ienv (some true)
      else do
        let vc ← evalE env c
        let (env', ienv') ← if truthy vc then dropLocalsX env.length ienv.length (runX body env ienv none) else some (env, ienv)
        runX k env' ienv' (some (truthy vc))
  | .elseIf2 c body k, env, ienv, ch => do
      let taken ← ch
      if taken then runX k env ienv (some true)
      else do
        let vc ← evalE env c
        let (env', ienv') ← if truthy vc then dropLocalsX env.length ienv.length (runX body env ienv none) else some (env, ienv)
        runX k env' ienv' (some (truthy vc))
  | .istmt s k, env, ienv, _ => do
      let (env', ienv') ← stepIrun env ienv s
      runX k env' ienv' none

/-! ## the frontend -/

/-- a live width-less frontend vector -/
structure ISig where
  kind : IKind
  /-- `m_width` (grows) -/
  width : Nat
  driver : Nat
  initScope : Nat
  deriving Repr, Inhabited

structure XState where
  core : BState
  ivars : List ISig
  deriving Repr, Inhabited

/-- `BaseBitVector::assign(SignalReadPort in)` (BitVector.cpp:387-455) on a width-less vector: `inn` has width `wi`, policy `pi` -/
def assignInt (X : XState) (x : Nat) (inn wi : Nat) (pi : Pol) : Option XState := do
  let s ← X.ivars[x]?
  let B := X.core
  if wi < s.width ∧ pi ≠ s.kind.pol then none     -- meaning depends on the static width: outside the model
  else
    -- `if (!incrementWidth) in = in.expand(width(), BITVEC)`
    let (ns, inn) := if wi < s.width then mkNode B.nodes (.pad inn s.width pi) else (B.nodes, inn)
    let (ns, inn) :=
      match B.scopes with
      | sc :: _ =>
          if sc.id > s.initScope then
            -- `if (incrementWidth) { rewire->setPadTo(in.width(), m_expansionPolicy) … oldSignal = rewire }`
            let (ns, old) := if wi > s.width then mkNode ns (.pad s.driver wi s.kind.pol) else (ns, s.driver)
            mkNode ns (.mux sc.full [old, inn])
          else (ns, inn)
      | [] => (ns, inn)
    some { core := { B with nodes := ns },
           ivars := X.ivars.set x { s with width := max wi s.width, driver := inn } }

/-- a new vector constructed from a port: `createNode(in.width(), in.expansionPolicy)`, unconditional connect -/
def declInt (X : XState) (k : IKind) (port w : Nat) : XState :=
  { X with ivars := X.ivars ++ [{ kind := k, width := w, driver := port, initScope := curScopeId X.core }] }

def stepI (X : XState) : IStmt → Option XState
  | .declLit k v => do
      -- only `UInt x = lit` (policy zero) and `SInt x{lit}` (policy sign) exist
      if k = .u1 then none else
      let w ← litWidth k v
      let (ns, c) := mkNode X.core.nodes (.const (litBits v w))
      some (declInt { X with core := { X.core with nodes := ns } } k c w)
  | .declExt k e => do
      -- `UInt x = zext(e)` / `UInt x = oext(e)` (no width change): the read port of `e` with the policy attached
      if k = .s then none else
      let (ns, i, t) ← buildExpr X.core.sigs X.core.nodes e
      match t with
      | .uint w => if 1 ≤ w then some (declInt { X with core := { X.core with nodes := ns } } k i w) else none
      | .bit => none
  | .declCopy y => do
      let s ← X.ivars[y]?
      some (declInt X s.kind s.driver s.width)
  | .assignLit x v => do
      let s ← X.ivars[x]?
      let w ← litWidth s.kind v
      let (ns, c) := mkNode X.core.nodes (.const (litBits v w))
      assignInt { X with core := { X.core with nodes := ns } } x c w s.kind.litPol
  | .assignVar x y => do
      let sx ← X.ivars[x]?
      let sy ← X.ivars[y]?
      if sx.kind = sy.kind then assignInt X x sy.driver sy.width sy.kind.pol else none
  | .declCmp o x y => do
      let sx ← X.ivars[x]?
      let sy ← X.ivars[y]?
      if sx.kind ≠ sy.kind then none else
      let o' ← (match o, sx.kind with
        | .eq, _ => some Op2.eq
        | .ne, _ => some Op2.ne
        | .lt, .u0 => some Op2.lt
        | .lt, .s => some Op2.slt
        | _, _ => none)
      -- NormalizedWidthOperands: each operand is padded to the wider width with its own policy
      let w := max sx.width sy.width
      let ns := X.core.nodes
      let (ns, a) := if sx.width < w then mkNode ns (.pad sx.driver w sx.kind.pol) else (ns, sx.driver)
      let (ns, b) := if sy.width < w then mkNode ns (.pad sy.driver w sy.kind.pol) else (ns, sy.driver)
      let (ns, r) := mkNode ns (.op2 o' a b)
      let B := X.core
      some { X with core := { B with nodes := ns, sigs := B.sigs ++ [{ ty := .bit, driver := r, initScope := curScopeId B }] } }

def popX (X : XState) (nsigs nivars : Nat) : Option XState := do
  let B ← popScope X.core nsigs
  some { core := B, ivars := X.ivars.take nivars }

/-- `build` extended by the integer-variable statements -/
def buildX : Prog → XState → Option XState
  | .done, X => some X
  | .decl ty init k, X => do
      let B1 ← stepDecl X.core ty init
      buildX k { X with core := B1 }
  | .declDefault ty d k, X => do
      let B1 ← stepDefault X.core ty d
      buildX k { X with core := B1 }
  | .assign x p e k, X => do
      let B1 ← stepAssign X.core x p e
      buildX k { X with core := B1 }
  | .ifS c body k, X => do
      let B1 ← openIf X.core c
      let X2 ← buildX body { X with core := B1 }
      let X3 ← popX X2 X.core.sigs.length X.ivars.length
      buildX k X3
  | .elseS body k, X => do
      let B1 ← openElse X.core
      let X2 ← buildX body { X with core := B1 }
      let X3 ← popX X2 X.core.sigs.length X.ivars.length
      buildX k X3
  | .elseifS c body k, X => do
      let B1 ← openElseIf X.core c
      let X2 ← buildX body { X with core := B1 }
      let X3 ← popX X2 X.core.sigs.length X.ivars.length
      buildX k X3
  | .elseIf2 c body k, X => do
      let l ← X.core.lastCond
      let B2 ← openIf (pushElse X.core l) c
      let X3 ← buildX body { X with core := B2 }
      let X4 ← popX X3 X.core.sigs.length X.ivars.length
      let X5 ← popX X4 X.core.sigs.length X.ivars.length
      buildX k X5
  | .istmt s k, X => do
      let X1 ← stepI X s
      buildX k X1

def initX (ins : List Ty) : XState := { core := initState ins, ivars := [] }

/-- final bits of every integer variable of the built design -/
def outputsI (ρ : List Val) (X : XState) : List (IKind × Val) :=
  let vs := evalNodes ρ X.core.nodes
  X.ivars.map fun s => (s.kind, vs.getD s.driver [])

end Gatery.C05
