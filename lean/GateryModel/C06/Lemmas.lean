import GateryModel.C06.Model
/-!
# C06 — lemmas about `regS`, `delayN`, holding circuits, Mealy machines and register trees (core Lean only)
-/
namespace Gatery.C06

variable {α β γ ι : Type}

@[simp] theorem regS_zero (en : Stream Bool) (r : α) (s : Stream α) : regS en r s 0 = r := rfl
theorem regS_succ (en : Stream Bool) (r : α) (s : Stream α) (t : Nat) :
    regS en r s (t + 1) = if en t then s t else regS en r s t := rfl

@[simp] theorem cnt_zero (en : Stream Bool) : cnt en 0 = 0 := rfl
theorem cnt_succ (en : Stream Bool) (t : Nat) : cnt en (t + 1) = cnt en t + (if en t then 1 else 0) := rfl

theorem cnt_true (t : Nat) : cnt (fun _ => true) t = t := by
  induction t with
  | zero => rfl
  | succ t ih => simp [cnt_succ, ih]

theorem regS_const (en : Stream Bool) (c : α) (t : Nat) : regS en c (fun _ => c) t = c := by
  induction t with
  | zero => rfl
  | succ t ih => simp [regS_succ, ih]

/-- moving registers from all inputs of a combinational function to its output (vector form) -/
theorem retime_forward_vec (f : (ι → α) → β) (en : Stream Bool) (r : ι → α) (xs : ι → Stream α) (t : Nat) :
    regS en (f r) (fun u => f (fun i => xs i u)) t = f (fun i => regS en (r i) (xs i) t) := by
  induction t with
  | zero => rfl
  | succ t ih =>
    by_cases h : en t
    · simp [regS_succ, h]
    · simp [regS_succ, h, ih]

theorem retime_forward2 (f : α → β → γ) (en : Stream Bool) (ra : α) (rb : β) (a : Stream α) (b : Stream β) (t : Nat) :
    regS en (f ra rb) (fun u => f (a u) (b u)) t = f (regS en ra a t) (regS en rb b t) := by
  induction t with
  | zero => rfl
  | succ t ih =>
    by_cases h : en t
    · simp [regS_succ, h]
    · simp [regS_succ, h, ih]

/-- two registers whose data inputs agree from the cycle in which `k` enabled edges have passed agree once `k+1` enabled
edges have passed, whatever their reset values -/
theorem regS_agree (en : Stream Bool) (k : Nat) (s s' : Stream α) (r r' : α)
    (h : ∀ u, k ≤ cnt en u → s u = s' u) : ∀ t, k + 1 ≤ cnt en t → regS en r s t = regS en r' s' t := by
  intro t
  induction t with
  | zero => intro hc; simp at hc
  | succ t ih =>
    intro hc
    by_cases he : en t
    · have : k ≤ cnt en t := by simp [cnt_succ, he] at hc; omega
      simp [regS_succ, he, h t this]
    · have : k + 1 ≤ cnt en t := by simpa [cnt_succ, he] using hc
      simp [regS_succ, he, ih this]

/-! ### holding circuit -/

theorem holdReg_eq (e : Stream Bool) (r : α) (a : Stream α) (t : Nat) : holdReg e r a t = regS e r a t := by
  induction t with
  | zero => rfl
  | succ t ih => simp [holdReg, regS_succ, ih]

/-- the holding circuit shows, combinationally, what the register it replaces will show in the next cycle -/
theorem hold_eq (e : Stream Bool) (r : α) (a : Stream α) (t : Nat) : hold e r a t = regS e r a (t + 1) := by
  simp [hold, regS_succ, holdReg_eq]

theorem retime_forward_split_vec (f : (ι → α) → β) (en : Stream Bool) (e : ι → Stream Bool)
    (himp : ∀ i t, e i t = true → en t = true) (r : ι → α) (xs : ι → Stream α) (t : Nat) :
    regS en (f r) (fun u => f (fun i => hold (e i) (r i) (xs i) u)) t = f (fun i => regS (e i) (r i) (xs i) t) := by
  induction t with
  | zero => rfl
  | succ t ih =>
    by_cases h : en t
    · rw [regS_succ]; simp only [h, if_true]
      congr 1; funext i; exact hold_eq _ _ _ _
    · have he : ∀ i, e i t = false := by
        intro i
        cases hh : e i t with
        | false => rfl
        | true => exact absurd (himp i t hh) h
      have hr : (fun i => regS (e i) (r i) (xs i) (t + 1)) = (fun i => regS (e i) (r i) (xs i) t) := by
        funext i; simp [regS_succ, he i]
      rw [regS_succ, hr]; simp [h, ih]

/-! ### backward retiming -/

theorem delayedReset_eq (en : Stream Bool) (t : Nat) : delayedReset en t = decide (1 ≤ cnt en t) := by
  induction t with
  | zero => rfl
  | succ t ih =>
    by_cases h : en t
    · simp [delayedReset, regS_succ, cnt_succ, h]
    · have : delayedReset en (t + 1) = delayedReset en t := by simp [delayedReset, regS_succ, h]
      rw [this, ih]; simp [cnt_succ, h]

theorem retime_backward_vec (f : (ι → α) → β) (en : Stream Bool) (r0 : β) (r : ι → α) (xs : ι → Stream α) (t : Nat) :
    regS en r0 (fun u => f (fun i => xs i u)) t
      = if delayedReset en t then f (fun i => regS en (r i) (xs i) t) else r0 := by
  induction t with
  | zero => rfl
  | succ t ih =>
    by_cases h : en t
    · simp [regS_succ, h, delayedReset]
    · have hd : delayedReset en (t + 1) = delayedReset en t := by simp [delayedReset, regS_succ, h]
      rw [hd, regS_succ]; simp only [h]
      rw [ih]; simp [regS_succ, h]

/-! ### delay lines -/

theorem delayN_true (r : α) (n : Nat) (s : Stream α) (t : Nat) : delayN (fun _ => true) r n s (t + n) = s t := by
  induction n generalizing t with
  | zero => rfl
  | succ n ih =>
    show regS _ r (delayN _ r n s) (t + n + 1) = s t
    rw [regS_succ]; simp [ih]

theorem delayN_add (en : Stream Bool) (r : α) (m n : Nat) (s : Stream α) :
    delayN en r (m + n) s = delayN en r m (delayN en r n s) := by
  induction m with
  | zero => simp [delayN]
  | succ m ih =>
    have : m + 1 + n = (m + n) + 1 := by omega
    rw [this]; simp [delayN, ih]

/-! ### Mealy machines -/

section mealy
variable {σ ο : Type}

theorem Mealy.state_succ (m : Mealy σ ι ο) (en : Stream Bool) (xs : Stream ι) (t : Nat) :
    m.state en xs (t + 1) = if en t then m.next (m.state en xs t) (xs t) else m.state en xs t := rfl

/-- invariant of state-advancing retiming: the twin's state, stepped once with the value its input register shows, is the
advanced machine's state on the undelayed input -/
theorem Mealy.advance_inv (m : Mealy σ ι ο) (en : Stream Bool) (r : ι) (xs : Stream ι) (t : Nat) :
    m.next (m.state en (regS en r xs) t) (regS en r xs t) = (m.advance r).state en xs t := by
  induction t with
  | zero => rfl
  | succ t ih =>
    by_cases h : en t
    · rw [Mealy.state_succ, Mealy.state_succ]; simp only [h, if_true]
      rw [ih]; simp [regS_succ, h, Mealy.advance]
    · rw [Mealy.state_succ, Mealy.state_succ]; simp only [h]
      rw [← ih]; simp [regS_succ, h]

theorem Mealy.retime_advanced (m : Mealy σ ι ο) (en : Stream Bool) (r : ι) (xs : Stream ι) (t : Nat) :
    m.run en (regS en r xs) t = regS en (m.out m.init r) ((m.advance r).run en xs) t := by
  induction t with
  | zero => rfl
  | succ t ih =>
    by_cases h : en t
    · simp only [Mealy.run, regS_succ, Mealy.state_succ, h, if_true]
      rw [Mealy.advance_inv]; rfl
    · have : m.run en (regS en r xs) (t + 1) = m.run en (regS en r xs) t := by
        simp [Mealy.run, regS_succ, Mealy.state_succ, h]
      rw [this, ih]; simp [regS_succ, h]

/-- what `retimeForwardToOutput` does (state registers keep their reset value): the output register shows the region's output
computed from the delayed input *and the delayed state* -/
theorem Mealy.retime_gatery (m : Mealy σ ι ο) (en : Stream Bool) (r : ι) (xs : Stream ι) (t : Nat) :
    regS en (m.out m.init r) (m.run en xs) t = m.out (regS en m.init (m.state en xs) t) (regS en r xs t) :=
  retime_forward2 m.out en m.init r (m.state en xs) xs t

/-- a state that does not depend on the inputs evolves identically whatever the input stream is -/
theorem Mealy.state_autonomous (m : Mealy σ ι ο) (step : σ → σ) (hs : ∀ s x, m.next s x = step s)
    (en : Stream Bool) (xs ys : Stream ι) (t : Nat) : m.state en xs t = m.state en ys t := by
  induction t with
  | zero => rfl
  | succ t ih => simp [Mealy.state_succ, hs, ih]

theorem Mealy.state_fixed (m : Mealy σ ι ο) (hs : ∀ s x, m.next s x = s) (en : Stream Bool) (xs : Stream ι) (t : Nat) :
    m.state en xs t = m.init := by
  induction t with
  | zero => rfl
  | succ t ih => simp [Mealy.state_succ, hs, ih]

/-- inputs consumed at enabled edges before cycle `t` -/
def hist (en : Stream Bool) (xs : Stream ι) : Nat → List ι
  | 0 => []
  | t + 1 => if en t then hist en xs t ++ [xs t] else hist en xs t

theorem hist_length (en : Stream Bool) (xs : Stream ι) (t : Nat) : (hist en xs t).length = cnt en t := by
  induction t with
  | zero => rfl
  | succ t ih =>
    by_cases h : en t
    · simp [hist, cnt_succ, h, ih]
    · simp [hist, cnt_succ, h, ih]

theorem Mealy.state_eq_foldl (m : Mealy σ ι ο) (en : Stream Bool) (xs : Stream ι) (t : Nat) :
    m.state en xs t = (hist en xs t).foldl m.next m.init := by
  induction t with
  | zero => rfl
  | succ t ih =>
    by_cases h : en t
    · simp [Mealy.state_succ, hist, h, ih, List.foldl_append]
    · simp [Mealy.state_succ, hist, h, ih]

/-- finite memory (feed-forward registers only): after `k` consumed inputs the state does not depend on where it started -/
def Mealy.Forgets (m : Mealy σ ι ο) (k : Nat) : Prop :=
  ∀ (s s' : σ) (ws : List ι), ws.length = k → ws.foldl m.next s = ws.foldl m.next s'

theorem Mealy.forgets_ge (m : Mealy σ ι ο) (k : Nat) (h : m.Forgets k) (ws : List ι) (hk : k ≤ ws.length) (s s' : σ) :
    ws.foldl m.next s = ws.foldl m.next s' := by
  have hsplit := List.take_append_drop (ws.length - k) ws
  rw [← hsplit, List.foldl_append, List.foldl_append]
  apply h
  simp [List.length_drop]; omega

theorem Mealy.retime_filled (m : Mealy σ ι ο) (k : Nat) (hf : m.Forgets k) (en : Stream Bool) (r : ι) (xs : Stream ι)
    (t : Nat) (ht : k + 1 ≤ cnt en t) :
    m.run en (regS en r xs) t = regS en (m.out m.init r) (m.run en xs) t := by
  rw [Mealy.retime_advanced]
  apply regS_agree en k _ _ _ _ _ t ht
  intro u hu
  simp only [Mealy.run]
  rw [Mealy.state_eq_foldl, Mealy.state_eq_foldl]
  have : (hist en xs u).foldl (m.advance r).next (m.advance r).init = (hist en xs u).foldl m.next m.init :=
    Mealy.forgets_ge m k hf _ (by rw [hist_length]; exact hu) _ _
  simp only [Mealy.advance] at this ⊢
  rw [this]

end mealy

/-! ### register trees -/

namespace Ckt

theorem comb_noInp (ρ ρ' : ι → α) : ∀ c : Ckt ι α, c.NoInp → c.comb ρ = c.comb ρ'
  | inp _, h => h.elim
  | const _, _ => rfl
  | op1 f a, h => by simp [comb, comb_noInp ρ ρ' a h]
  | op2 f a b, h => by simp [comb, comb_noInp ρ ρ' a h.1, comb_noInp ρ ρ' b h.2]
  | reg _ d, h => by simpa [comb] using comb_noInp ρ ρ' d h

theorem eval_noInp (en : Stream Bool) (r : ι → α) (xs : ι → Stream α) (ρ : ι → α) :
    ∀ c : Ckt ι α, c.NoInp → c.ResetOK r → ∀ t, c.eval en xs t = c.comb ρ
  | inp _, h, _, _ => h.elim
  | const _, _, _, _ => rfl
  | op1 f a, h, hr, t => by simp [eval, comb, eval_noInp en r xs ρ a h hr t]
  | op2 f a b, h, hr, t => by simp [eval, comb, eval_noInp en r xs ρ a h.1 hr.1 t, eval_noInp en r xs ρ b h.2 hr.2 t]
  | reg r0 d, h, hr, t => by
    have hd : eval en xs d = fun _ => d.comb ρ := funext (eval_noInp en r xs ρ d h hr.2)
    have h0 : r0 = d.comb ρ := by rw [hr.1]; exact comb_noInp r ρ d h
    simp only [eval, comb, hd, h0]
    exact regS_const en _ t

theorem eval_noInp_filled (en : Stream Bool) (xs : ι → Stream α) (ρ : ι → α) :
    ∀ c : Ckt ι α, c.NoInp → ∀ t, c.depth ≤ cnt en t → c.eval en xs t = c.comb ρ
  | inp _, h, _, _ => h.elim
  | const _, _, _, _ => rfl
  | op1 f a, h, t, hd => by simp [eval, comb, eval_noInp_filled en xs ρ a h t hd]
  | op2 f a b, h, t, hd => by
    have h1 : a.depth ≤ cnt en t := Nat.le_trans (Nat.le_max_left _ _) hd
    have h2 : b.depth ≤ cnt en t := Nat.le_trans (Nat.le_max_right _ _) hd
    simp [eval, comb, eval_noInp_filled en xs ρ a h.1 t h1, eval_noInp_filled en xs ρ b h.2 t h2]
  | reg r0 d, h, t, hd => by
    have := regS_agree en d.depth (eval en xs d) (fun _ => d.comb ρ) r0 (d.comb ρ)
      (fun u hu => eval_noInp_filled en xs ρ d h u hu) t hd
    simp only [eval, comb, this]
    exact regS_const en _ t

/-- exact version: with the reset-value rule the balanced tree equals its hint-free function on the delayed inputs in
every cycle -/
theorem eval_bal (en : Stream Bool) (r : ι → α) (xs : ι → Stream α) :
    ∀ (c : Ckt ι α) (n : Nat), c.Bal n → c.ResetOK r → ∀ t,
      c.eval en xs t = c.comb (fun i => delayN en (r i) n (xs i) t)
  | inp i, n, hb, _, t => by
    have : n = 0 := hb
    subst this; rfl
  | const _, _, _, _, _ => rfl
  | op1 f a, n, hb, hr, t => by simp [eval, comb, eval_bal en r xs a n hb hr t]
  | op2 f a b, n, hb, hr, t => by
    simp [eval, comb, eval_bal en r xs a n hb.1 hr.1 t, eval_bal en r xs b n hb.2 hr.2 t]
  | reg r0 d, n, hb, hr, t => by
    rcases hb with ⟨m, hn, hbm⟩ | hni
    · subst hn
      have hd : eval en xs d = fun u => d.comb (fun i => delayN en (r i) m (xs i) u) :=
        funext (eval_bal en r xs d m hbm hr.2)
      simp only [eval, comb, hd, hr.1]
      exact retime_forward_vec (fun ρ => d.comb ρ) en r (fun i => delayN en (r i) m (xs i)) t
    · exact eval_noInp en r xs _ (reg r0 d) hni hr t

/-- filled version: whatever the reset values are, once `depth` enabled edges have passed -/
theorem eval_bal_filled (en : Stream Bool) (r : ι → α) (xs : ι → Stream α) :
    ∀ (c : Ckt ι α) (n : Nat), c.Bal n → ∀ t, c.depth ≤ cnt en t →
      c.eval en xs t = c.comb (fun i => delayN en (r i) n (xs i) t)
  | inp i, n, hb, t, _ => by
    have : n = 0 := hb
    subst this; rfl
  | const _, _, _, _, _ => rfl
  | op1 f a, n, hb, t, hd => by simp [eval, comb, eval_bal_filled en r xs a n hb t hd]
  | op2 f a b, n, hb, t, hd => by
    have h1 : a.depth ≤ cnt en t := Nat.le_trans (Nat.le_max_left _ _) hd
    have h2 : b.depth ≤ cnt en t := Nat.le_trans (Nat.le_max_right _ _) hd
    simp [eval, comb, eval_bal_filled en r xs a n hb.1 t h1, eval_bal_filled en r xs b n hb.2 t h2]
  | reg r0 d, n, hb, t, hd => by
    rcases hb with ⟨m, hn, hbm⟩ | hni
    · subst hn
      have := regS_agree en d.depth (eval en xs d) (fun u => d.comb (fun i => delayN en (r i) m (xs i) u)) r0 (d.comb r)
        (fun u hu => eval_bal_filled en r xs d m hbm u hu) t hd
      simp only [eval, comb, this]
      exact retime_forward_vec (fun ρ => d.comb ρ) en r (fun i => delayN en (r i) m (xs i)) t
    · exact eval_noInp_filled en xs _ (reg r0 d) hni t hd

/-! latency computation is sound for `Bal` -/

theorem join_exact {a b : Lat} {n : Nat} (h : a.join b = .exact n) :
    (a = .exact n ∨ a = .any) ∧ (b = .exact n ∨ b = .any) := by
  cases a <;> cases b <;> simp [Lat.join] at h ⊢
  · exact h
  · exact h
  · rename_i x y
    by_cases hxy : x = y
    · simp [hxy] at h; subst hxy; subst h; simp
    · simp [hxy] at h

theorem join_any {a b : Lat} (h : a.join b = .any) : a = .any ∧ b = .any := by
  cases a <;> cases b <;> simp [Lat.join] at h ⊢
  rename_i x y
  by_cases hxy : x = y <;> simp [hxy] at h

theorem latency_any_noInp : ∀ c : Ckt ι α, c.latency = .any → c.NoInp
  | inp _, h => by simp [latency] at h
  | const _, _ => trivial
  | op1 _ a, h => latency_any_noInp a h
  | op2 _ a b, h => by
    have := join_any h
    exact ⟨latency_any_noInp a this.1, latency_any_noInp b this.2⟩
  | reg _ d, h => by
    have : d.latency = .any := by
      cases hd : d.latency <;> simp [latency, Lat.succ, hd] at h ⊢
    exact latency_any_noInp d this

theorem bal_of_noInp : ∀ (c : Ckt ι α) (n : Nat), c.NoInp → c.Bal n
  | inp _, _, h => h.elim
  | const _, _, _ => trivial
  | op1 _ a, n, h => bal_of_noInp a n h
  | op2 _ a b, n, h => ⟨bal_of_noInp a n h.1, bal_of_noInp b n h.2⟩
  | reg _ _, _, h => Or.inr h

theorem latency_sound : ∀ (c : Ckt ι α) (n : Nat), c.latency = .exact n → c.Bal n
  | inp _, n, h => by
    simp [latency] at h; exact h.symm
  | const _, _, h => by simp [latency] at h
  | op1 _ a, n, h => latency_sound a n h
  | op2 _ a b, n, h => by
    have := join_exact h
    refine ⟨?_, ?_⟩
    · rcases this.1 with h1 | h1
      · exact latency_sound a n h1
      · exact bal_of_noInp a n (latency_any_noInp a h1)
    · rcases this.2 with h1 | h1
      · exact latency_sound b n h1
      · exact bal_of_noInp b n (latency_any_noInp b h1)
  | reg _ d, n, h => by
    cases hd : d.latency with
    | any => simp [latency, Lat.succ, hd] at h
    | conflict => simp [latency, Lat.succ, hd] at h
    | exact m =>
      simp [latency, Lat.succ, hd] at h
      exact Or.inl ⟨m, h.symm, latency_sound d m hd⟩

/-! composition of stages -/

theorem noInp_subst {κ : Type} (σ : ι → Ckt κ α) : ∀ c : Ckt ι α, c.NoInp → (c.subst σ).NoInp
  | inp _, h => h.elim
  | const _, _ => trivial
  | op1 _ a, h => noInp_subst σ a h
  | op2 _ a b, h => ⟨noInp_subst σ a h.1, noInp_subst σ b h.2⟩
  | reg _ d, h => noInp_subst σ d h

theorem bal_subst {κ : Type} (σ : ι → Ckt κ α) (m : Nat) (hσ : ∀ i, (σ i).Bal m) :
    ∀ (c : Ckt ι α) (n : Nat), c.Bal n → (c.subst σ).Bal (n + m)
  | inp i, n, h => by
    have : n = 0 := h
    subst this; simpa [subst] using hσ i
  | const _, _, _ => trivial
  | op1 _ a, n, h => bal_subst σ m hσ a n h
  | op2 _ a b, n, h => ⟨bal_subst σ m hσ a n h.1, bal_subst σ m hσ b n h.2⟩
  | reg _ d, n, h => by
    rcases h with ⟨k, hn, hk⟩ | hni
    · exact Or.inl ⟨k + m, by omega, bal_subst σ m hσ d k hk⟩
    · exact Or.inr (noInp_subst σ d hni)

theorem eval_subst {κ : Type} (en : Stream Bool) (σ : ι → Ckt κ α) (xs : κ → Stream α) :
    ∀ c : Ckt ι α, (c.subst σ).eval en xs = c.eval en (fun i => (σ i).eval en xs)
  | inp _ => rfl
  | const _ => rfl
  | op1 f a => by simp [subst, eval, eval_subst en σ xs a]
  | op2 f a b => by simp [subst, eval, eval_subst en σ xs a, eval_subst en σ xs b]
  | reg r d => by simp [subst, eval, eval_subst en σ xs d]

end Ckt
end Gatery.C06
