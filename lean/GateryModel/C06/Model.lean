/-!
# C06 — model of register retiming (stream level and register-graph level)

Anchors (gatery, /repo/source/gatery):
* `hlim/coreNodes/Node_Register.cpp:69-103`   `simulateEvaluate/simulateAdvance`: a register shows its reset value first and
  afterwards, at every clock edge, takes its data input iff its enable is high  →  `regS`.
* `hlim/RegisterRetiming.cpp:728-947`  `retimeForwardToOutput`: registers on every signal entering the area are removed
  (bypassed, :896-936), one register per output leaving the area is created (:831-876) with the common enable condition
  (:841) and with reset value = value of that output in a power-on simulation (:858-865), i.e. `f` applied to the old reset
  values; registers whose enable has a residual term are replaced by a holding circuit (`buildHoldingCircuit`, :686-725)  →  `hold`.
* `hlim/RegisterRetiming.cpp:1556-1841` `retimeBackwardtoOutput`: the register behind the area is removed (:1830), one register
  per signal entering the area is created (:1721-1772); if the old reset value is not reproduced by the new reset values a
  multiplexer driven by a "delayed reset" register (:1643-1674, :1685-1706) shows the old reset value until the first enabled edge.
* `hlim/supportNodes/Node_RegSpawner.cpp:52-101` `spawnForward`: one more register on *every* signal of the group, all with the
  group's enable and the signal's reset value  →  `delayN`.
* `hlim/postprocessing/Retiming.cpp:147-184` `annihilateNegativeRegisters`: consumers of a negative register that is driven by a
  register are rewired to that register's data input  →  `negOf`.

Time is counted in clock cycles; `s t` is the value of a signal in cycle `t` (sampled before edge `t`); cycle 0 is the cycle in
which all registers show their reset value.
-/
namespace Gatery.C06

/-- A signal: one value per clock cycle. -/
abbrev Stream (α : Type) := Nat → α

/-- Register with enable `en`, reset / initial value `r`, data input `s` (Node_Register::simulateAdvance). -/
def regS {α : Type} (en : Stream Bool) (r : α) (s : Stream α) : Stream α
  | 0 => r
  | t + 1 => if en t then s t else regS en r s t

/-- Number of enabled clock edges before cycle `t`. -/
def cnt (en : Stream Bool) : Nat → Nat
  | 0 => 0
  | t + 1 => cnt en t + (if en t then 1 else 0)

/-- `n` registers in series, all with enable `en` and reset value `r`: what a register spawner puts on one signal of its group
after `n` stages were spawned, and what the reference twin puts on each group input. -/
def delayN {α : Type} (en : Stream Bool) (r : α) : Nat → Stream α → Stream α
  | 0, s => s
  | n + 1, s => regS en r (delayN en r n s)

/-- Holding circuit (`buildHoldingCircuit`): a multiplexer selected by the register's own enable `e` that passes the
data input through while `e` is high and otherwise shows a register (no enable, reset value `r`) fed by the multiplexer output. -/
def holdReg {α : Type} (e : Stream Bool) (r : α) (a : Stream α) : Stream α
  | 0 => r
  | t + 1 => if e t then a t else holdReg e r a t

def hold {α : Type} (e : Stream Bool) (r : α) (a : Stream α) : Stream α :=
  fun t => if e t then a t else holdReg e r a t

/-- The "delayed reset" register of backward retiming: reset value 0, data input constant 1, enable `en`. -/
def delayedReset (en : Stream Bool) : Stream Bool := regS en false (fun _ => true)

/-! ## Negative registers -/

/-- A register node as a pair (description, output stream): the negative register is resolved against the description. -/
structure RegNode (α : Type) where
  en : Stream Bool
  rst : α
  data : Stream α

def RegNode.out {α : Type} (R : RegNode α) : Stream α := regS R.en R.rst R.data

/-- `annihilateNegativeRegisters`: what the consumers of `negativeReg(R)` see after resolution: the data input of `R`. -/
def negOf {α : Type} (R : RegNode α) : Stream α := R.data

/-! ## Stalled Mealy machine: a region with internal registers -/

/-- A region with internal (anchored) registers. All internal enables imply the pipeline enable `en`, so the state advances at
most at enabled edges (`next` may keep parts of the state when a stricter internal enable is low). -/
structure Mealy (σ ι ο : Type) where
  init : σ
  next : σ → ι → σ
  out : σ → ι → ο

def Mealy.state {σ ι ο : Type} (m : Mealy σ ι ο) (en : Stream Bool) (xs : Stream ι) : Stream σ
  | 0 => m.init
  | t + 1 => if en t then m.next (m.state en xs t) (xs t) else m.state en xs t

def Mealy.run {σ ι ο : Type} (m : Mealy σ ι ο) (en : Stream Bool) (xs : Stream ι) : Stream ο :=
  fun t => m.out (m.state en xs t) (xs t)

/-- The same machine started one step later: what a retiming that also advances the state registers would produce. -/
def Mealy.advance {σ ι ο : Type} (m : Mealy σ ι ο) (r : ι) : Mealy σ ι ο := { m with init := m.next m.init r }

/-! ## Register graphs (feed-forward): expression trees with registers

A DAG is represented by its unfolding (sharing does not matter for the semantics). `inp i` is an input of the balance group,
`const` a value that does not change over time, `op1/op2` combinational nodes with an arbitrary function, `reg r d` a register
with reset value `r`; all registers of the tree have the same enable (the group's stall condition). -/
inductive Ckt (ι α : Type) where
  | inp : ι → Ckt ι α
  | const : α → Ckt ι α
  | op1 : (α → α) → Ckt ι α → Ckt ι α
  | op2 : (α → α → α) → Ckt ι α → Ckt ι α → Ckt ι α
  | reg : α → Ckt ι α → Ckt ι α

namespace Ckt
variable {ι α : Type}

/-- cycle-accurate semantics -/
def eval (en : Stream Bool) (xs : ι → Stream α) : Ckt ι α → Stream α
  | inp i => xs i
  | const c => fun _ => c
  | op1 f a => fun t => f (eval en xs a t)
  | op2 f a b => fun t => f (eval en xs a t) (eval en xs b t)
  | reg r d => regS en r (eval en xs d)

/-- the hint-free function `F`: all registers removed -/
def comb (ρ : ι → α) : Ckt ι α → α
  | inp i => ρ i
  | const c => c
  | op1 f a => f (comb ρ a)
  | op2 f a b => f (comb ρ a) (comb ρ b)
  | reg _ d => comb ρ d

/-- no group input below this node -/
def NoInp : Ckt ι α → Prop
  | inp _ => False
  | const _ => True
  | op1 _ a => NoInp a
  | op2 _ a b => NoInp a ∧ NoInp b
  | reg _ d => NoInp d

/-- every path from a group input to the root passes exactly `n` registers (registers over input-free subtrees are free) -/
def Bal : Nat → Ckt ι α → Prop
  | n, inp _ => n = 0
  | _, const _ => True
  | n, op1 _ a => Bal n a
  | n, op2 _ a b => Bal n a ∧ Bal n b
  | n, reg _ d => (∃ m, n = m + 1 ∧ Bal m d) ∨ NoInp d

/-- reset-value rule of `retimeForwardToOutput`: every register's reset value is the value its data input takes when all
group inputs show their reset values `r` -/
def ResetOK (r : ι → α) : Ckt ι α → Prop
  | inp _ => True
  | const _ => True
  | op1 _ a => ResetOK r a
  | op2 _ a b => ResetOK r a ∧ ResetOK r b
  | reg r0 d => r0 = comb r d ∧ ResetOK r d

/-- register depth (longest path) -/
def depth : Ckt ι α → Nat
  | inp _ => 0
  | const _ => 0
  | op1 _ a => depth a
  | op2 _ a b => max (depth a) (depth b)
  | reg _ d => depth d + 1

/-- substitute circuits for the inputs (composition of pipeline stages) -/
def subst {κ : Type} (σ : ι → Ckt κ α) : Ckt ι α → Ckt κ α
  | inp i => σ i
  | const c => const c
  | op1 f a => op1 f (subst σ a)
  | op2 f a b => op2 f (subst σ a) (subst σ b)
  | reg r d => reg r (subst σ d)

end Ckt

/-- Result of the latency computation: no group input reaches the node (`any`), all paths from group inputs have `n`
registers (`exact n`), or two paths disagree (`conflict`). -/
inductive Lat where
  | any : Lat
  | exact : Nat → Lat
  | conflict : Lat
  deriving DecidableEq, Repr

def Lat.join : Lat → Lat → Lat
  | .any, l => l
  | l, .any => l
  | .exact a, .exact b => if a = b then .exact a else .conflict
  | _, _ => .conflict

def Lat.succ : Lat → Lat
  | .any => .any
  | .exact n => .exact (n + 1)
  | .conflict => .conflict

/-- `latency`: register count from the balance group's inputs to the root, defined only if all paths agree. -/
def Ckt.latency {ι α : Type} : Ckt ι α → Lat
  | .inp _ => .exact 0
  | .const _ => .any
  | .op1 _ a => a.latency
  | .op2 _ a b => a.latency.join b.latency
  | .reg _ d => d.latency.succ

def Lat.toString : Lat → String
  | .any => "any"
  | .exact n => s!"{n}"
  | .conflict => "conflict"

end Gatery.C06
