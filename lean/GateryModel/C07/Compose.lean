import GateryModel.C07.Hazard
/-!
# C07 — composition: what the data pin of a read port shows after the whole memory post-processing, against `ArrMem`
-/
namespace Gatery.C07

variable {D : Type}

theorem after_append (dflt : D) (cs1 : List (List (Op D))) : ∀ (cs2 : List (List (Op D))) (m : ArrMem D),
    ArrMem.after dflt m (cs1 ++ cs2) = ArrMem.after dflt (ArrMem.after dflt m cs1) cs2 := by
  induction cs1 with
  | nil => intro _ _; rfl
  | cons c cs ih => intro cs2 m; simp only [List.cons_append, ArrMem.after]; exact ih cs2 _

/-- the outputs of cycle `t` of a run are the port outputs on the contents after the first `t` cycles -/
theorem run_getElem? (dflt : D) (cs : List (List (Op D))) : ∀ (m : ArrMem D) (t : Nat),
    (ArrMem.run dflt m cs)[t]? = cs[t]?.map fun c => (ArrMem.ports dflt (ArrMem.after dflt m (cs.take t)) c).2 := by
  induction cs with
  | nil => intro m t; simp [ArrMem.run]
  | cons c cs ih =>
    intro m t
    cases t with
    | zero => simp [ArrMem.run, ArrMem.after]
    | succ t => simp only [ArrMem.run, List.getElem?_cons_succ, List.take_succ_cons, ArrMem.after]; exact ih _ t

theorem observe_getElem? (dflt : D) (L : Nat) (m : ArrMem D) (cs : List (List (Op D))) (t : Nat) :
    (ArrMem.observe dflt L m cs)[t + L]? = ((ArrMem.run dflt m cs)[t]?).map some := by
  unfold ArrMem.observe
  rw [List.getElem?_append_right (by simp)]
  simp

/-- the first `T` cycles of a design with one read port between the write ports `Wb` (declared before it) and `Wa` (after it) -/
def cyclesUpTo (Wb Wa : Nat → List (WIn D)) (ra : Nat → Nat) (T : Nat) : List (List (Op D)) :=
  (List.range' 0 T).map fun s => cycleOps (Wb s) (ra s) (Wa s)

theorem take_cyclesUpTo (Wb Wa : Nat → List (WIn D)) (ra : Nat → Nat) (T t : Nat) (h : t ≤ T) :
    (cyclesUpTo Wb Wa ra T).take t = cyclesUpTo Wb Wa ra t := by
  unfold cyclesUpTo
  rw [← List.map_take, List.take_range'_of_length_ge h]

theorem getElem?_cyclesUpTo (Wb Wa : Nat → List (WIn D)) (ra : Nat → Nat) (T t : Nat) (h : t < T) :
    (cyclesUpTo Wb Wa ra T)[t]? = some (cycleOps (Wb t) (ra t) (Wa t)) := by
  unfold cyclesUpTo
  simp [h]

/-- the data pin after post-processing: hazard-corrected read-first read, then the read-before-write muxes of the write
ports declared before the read port.  (The muxes of `convertToReadBeforeWrite` sit behind the `K` read-data registers after
retiming, their conflict/data inputs delayed by the same `K` registers: evaluated on the values of the issue cycle.) -/
def postOut (dflt : D) (k : Nat) (m0 : List D) (gw : Nat → List (WIn D)) (ga : Nat → Nat) (gs : Nat → StageSig D) (gr : Nat → D)
    (Wb Wa : Nat → List (WIn D)) (ra : Nat → Nat) (t : Nat) : D :=
  rbwNet (hazardOut dflt k m0 gw ga gs gr (fun s => Wb s ++ Wa s) ra (t + (k + 1))) (ra t) true (Wb t)

theorem rbwNet_forwardW (rd : D) (a : Nat) (ws : List (WIn D)) : rbwNet rd a true ws = forwardW a ws rd := by
  unfold rbwNet forwardW
  congr 1
  funext out w
  simp

theorem postOut_eq (dflt : D) (k : Nat) (m0 : List D) (gw : Nat → List (WIn D)) (ga : Nat → Nat) (gs : Nat → StageSig D)
    (gr : Nat → D) (Wb Wa : Nat → List (WIn D)) (ra : Nat → Nat) (t T : Nat) (hT : t < T) (ha : ra t < m0.length) :
    (ArrMem.observe dflt (k + 1) ⟨m0⟩ (cyclesUpTo Wb Wa ra T))[t + (k + 1)]?
      = some (some [postOut dflt k m0 gw ga gs gr Wb Wa ra t]) := by
  rw [observe_getElem?, run_getElem?, getElem?_cyclesUpTo Wb Wa ra T t hT, take_cyclesUpTo Wb Wa ra T t (by omega)]
  simp only [Option.map_some, cyclesUpTo]
  rw [contents_eq_after dflt m0 Wb Wa ra t m0, ports_cycleOps]
  simp only
  unfold postOut
  rw [hazardOut_eq dflt k m0 gw ga gs gr _ ra t ha, rbwNet_forwardW, contents_eq_commitRange]
  rw [forwardW_eq dflt (ra t) (Wb t) _ (by rw [length_commitRange]; exact ha)]

end Gatery.C07
