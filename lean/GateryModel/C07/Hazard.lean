import GateryModel.C07.Rewrites
/-!
# C07 — the read-modify-write hazard bypass (`ReadModifyWriteHazardLogicBuilder::build`, hlim/RegisterRetiming.cpp:1843-2102)

Situation after `MemoryGroup::attemptRegisterRetiming` (MemoryDetector.cpp:575-712): pulling the `K` read-latency registers
back to the read port delayed *all* write ports of the memory by `K` cycles (RegisterRetiming.cpp:1512-1523: the write ports
are retimed together so that their mutual order is kept) and `ensureNotEnabledFirstCycles` (MemoryDetector.cpp:417-566)
keeps their enables low during the first `K` cycles.  The read ports are read-first (they were moved to the top of the
order chain by `convertToReadBeforeWrite`, and :695-701 detaches them).  The builder (non-memory mode, `useMemory = false`,
i.e. `K ≤ 2` in `MemoryGroup`, but the construction is generic in `K`) adds per read port

* an address shift register `rdPortAddrShiftReg[0..K)` (:1950-1954),
* `K` stages; stage `i` compares `rdPortAddrShiftReg[i]` with the (delayed) address of every write port, in write order, and
  or-s the conflict / muxes the override data (:1958-1984, `buildConflictDetection` :2151, `buildConflictOr` :2332,
  `buildConflictMux` :2345; a null node is wired through), then registers conflict and override data (:1988-1993),
* a final mux `conflict ? override : read data` behind the `K` read data registers (:2061-2068).

Signals are functions of the clock cycle; a register is `reg`.  Registers built by `createRegister` without reset value
(:2126-2149 with an empty `resetValue`) start with arbitrary content (`g…` parameters).  Register enables
(`rdPort.enableInputDriver`) are absent: frontend read ports have no enable and the harness registers have none.
One data word (no byte enables: `enableMaskInputDriver = {}` in MemoryDetector.cpp:681).
-/
namespace Gatery.C07

variable {D : Type}

/-- a register: power-on content `g`, then the input of the previous cycle -/
def reg {α : Type} (g : α) (x : Nat → α) : Nat → α
  | 0 => g
  | s + 1 => x s

/-- `k` registers in a row; `g j` is the power-on content of the `j`-th -/
def regs {α : Type} (g : Nat → α) : Nat → (Nat → α) → (Nat → α)
  | 0, x => x
  | k + 1, x => reg (g k) (regs g k x)

theorem regs_shift {α : Type} (g : Nat → α) (x : Nat → α) (k : Nat) : ∀ s, regs g k x (s + k) = x s := by
  induction k with
  | zero => intro s; rfl
  | succ k ih => intro s; show reg (g k) (regs g k x) (s + k + 1) = x s; exact ih s

/-- the write ports as the physical memory sees them: delayed by `K`, disabled during the first `K` cycles
(`gw` = whatever the delay registers hold at power-on) -/
def physW (K : Nat) (gw : Nat → List (WIn D)) (W : Nat → List (WIn D)) : Nat → List (WIn D) :=
  fun s => if s < K then (gw s).map (fun w => { w with en := false }) else W (s - K)

/-- contents of a memory whose write ports see the stream `W` (write ports commit in write order) -/
def contents (m0 : List D) (W : Nat → List (WIn D)) : Nat → List D
  | 0 => m0
  | s + 1 => commitW (contents m0 W s) (W s)

/-- per-word signals between the stages: `none` = no node built yet (null `NodePort`), else (conflict, override data) -/
abbrev StageSig (D : Type) := Option (Bool × D)

/-- the combinational part of one stage at one point in time: the loop over the write ports :1962-1984 -/
def stageComb (rdAddr : Nat) (ws : List (WIn D)) (inp : StageSig D) : StageSig D :=
  ws.foldl (fun cur w =>
    let c := decide (rdAddr = w.addr) && w.en            -- buildConflictDetection(rdAddr, {}, wrAddr, wrEn)
    match cur with
    | none => some (c, w.data)                            -- buildConflictOr / buildConflictMux wire through
    | some (cf, ov) => some (cf || c, if c = true then w.data else ov)) inp

/-- the address shift register -/
def addrSR (ga : Nat → Nat) (ra : Nat → Nat) (i : Nat) : Nat → Nat := regs ga i ra

/-- output of the combinational part of stage `i` at cycle `s`; its input is the registered output of stage `i-1` -/
def stageOut (ga : Nat → Nat) (gs : Nat → StageSig D) (ra : Nat → Nat) (W' : Nat → List (WIn D)) : Nat → Nat → StageSig D
  | 0, s => stageComb (addrSR ga ra 0 s) (W' s) none
  | i + 1, s => stageComb (addrSR ga ra (i + 1) s) (W' s) (reg (gs i) (stageOut ga gs ra W' i) s)

/-- final mux :2061-2068 -/
def sel (o : StageSig D) (base : D) : D :=
  match o with
  | some (true, ov) => ov
  | _ => base

/-- the read data pin of a read port after the builder ran, `K = k + 1` -/
def hazardOut (dflt : D) (k : Nat) (m0 : List D) (gw : Nat → List (WIn D)) (ga : Nat → Nat) (gs : Nat → StageSig D) (gr : Nat → D)
    (W : Nat → List (WIn D)) (ra : Nat → Nat) : Nat → D :=
  let W' := physW (k + 1) gw W
  let raw : Nat → D := fun s => (contents m0 W' s).getD (ra s) dflt      -- read-first read of the physical memory
  fun s => sel (reg (gs k) (stageOut ga gs ra W' k) s) (regs gr (k + 1) raw s)

/-! ### proof -/

/-- forwarding over the write ports of one cycle -/
def forwardW (a : Nat) (ws : List (WIn D)) (base : D) : D :=
  ws.foldl (fun out w => if (decide (a = w.addr) && w.en) = true then w.data else out) base

theorem sel_stageComb (a : Nat) (ws : List (WIn D)) : ∀ (inp : StageSig D) (base : D),
    sel (stageComb a ws inp) base = forwardW a ws (sel inp base) := by
  induction ws with
  | nil => intro inp base; rfl
  | cons w ws ih =>
    intro inp base
    simp only [stageComb, forwardW, List.foldl_cons] at ih ⊢
    rw [ih]
    congr 1
    cases inp with
    | none => cases h : (decide (a = w.addr) && w.en) <;> simp [sel, h]
    | some p =>
      obtain ⟨cf, ov⟩ := p
      cases h : (decide (a = w.addr) && w.en) <;> cases cf <;> simp [sel, h]

theorem forwardW_eq (dflt : D) (a : Nat) (ws : List (WIn D)) : ∀ (m : List D), a < m.length →
    forwardW a ws (m.getD a dflt) = (commitW m ws).getD a dflt := by
  induction ws with
  | nil => intro m _; rfl
  | cons w ws ih =>
    intro m ha
    simp only [forwardW, commitW, List.foldl_cons] at ih ⊢
    have : (if (decide (a = w.addr) && w.en) = true then w.data else m.getD a dflt)
        = (ArrMem.write ⟨m⟩ w.addr w.en w.data).cells.getD a dflt := by
      unfold ArrMem.write
      cases w.en
      · simp
      · simp only [Bool.and_true, decide_eq_true_eq, if_true, getD_set]
        by_cases h : a = w.addr
        · subst h; simp [ha]
        · simp [h, Ne.symm h]
    rw [this]
    exact ih _ (by rw [length_write]; exact ha)

theorem length_commitW (ws : List (WIn D)) : ∀ (m : List D), (commitW m ws).length = m.length := by
  induction ws with
  | nil => intro m; rfl
  | cons w ws ih => intro m; simp only [commitW, List.foldl_cons] at ih ⊢; rw [ih, length_write]

theorem length_contents (m0 : List D) (W : Nat → List (WIn D)) : ∀ s, (contents m0 W s).length = m0.length := by
  intro s
  induction s with
  | zero => rfl
  | succ s ih => simp only [contents]; rw [length_commitW, ih]

/-- committing `k` consecutive cycles of a write stream -/
def commitRange (W' : Nat → List (WIn D)) (t : Nat) (m : List D) : Nat → List D
  | 0 => m
  | k + 1 => commitW (commitRange W' t m k) (W' (t + k))

theorem contents_add (m0 : List D) (W' : Nat → List (WIn D)) (t k : Nat) :
    contents m0 W' (t + k) = commitRange W' t (contents m0 W' t) k := by
  induction k with
  | zero => rfl
  | succ k ih => show commitW (contents m0 W' (t + k)) (W' (t + k)) = _; rw [ih]; rfl

theorem length_commitRange (W' : Nat → List (WIn D)) (t : Nat) (m : List D) (k : Nat) : (commitRange W' t m k).length = m.length := by
  induction k with
  | zero => rfl
  | succ k ih => simp only [commitRange]; rw [length_commitW, ih]

/-- **pipeline invariant**: what leaves the combinational part of stage `i` at cycle `t + i` is the forwarding of the read
issued at `t` over the writes the physical memory performs in cycles `t … t+i` (the in-flight write queue) -/
theorem stageOut_spec (dflt : D) (ga : Nat → Nat) (gs : Nat → StageSig D) (ra : Nat → Nat) (W' : Nat → List (WIn D))
    (m : List D) (t : Nat) (ha : ra t < m.length) : ∀ i,
    sel (stageOut ga gs ra W' i (t + i)) (m.getD (ra t) dflt) = (commitRange W' t m (i + 1)).getD (ra t) dflt := by
  intro i
  induction i with
  | zero =>
    simp only [stageOut, addrSR, regs, Nat.add_zero, commitRange]
    rw [sel_stageComb]
    exact forwardW_eq dflt (ra t) (W' t) m ha
  | succ i ih =>
    have hA : addrSR ga ra (i + 1) (t + (i + 1)) = ra t := regs_shift ga ra (i + 1) t
    simp only [stageOut]
    rw [hA, sel_stageComb]
    show forwardW (ra t) (W' (t + (i + 1))) (sel (stageOut ga gs ra W' i (t + i)) (m.getD (ra t) dflt)) = _
    rw [ih]
    exact forwardW_eq dflt (ra t) (W' (t + (i + 1))) _ (by rw [length_commitRange]; exact ha)

theorem commitW_disabled (ws : List (WIn D)) : ∀ (m : List D), commitW m (ws.map fun w => { w with en := false }) = m := by
  induction ws with
  | nil => intro m; rfl
  | cons w ws ih => intro m; simp only [List.map_cons, commitW, List.foldl_cons, ArrMem.write] at ih ⊢; exact ih m

/-- during the first `K` cycles the physical memory keeps its initial contents -/
theorem contents_phys_init (m0 : List D) (K : Nat) (gw W : Nat → List (WIn D)) : ∀ s, s ≤ K → contents m0 (physW K gw W) s = m0 := by
  intro s
  induction s with
  | zero => intro _; rfl
  | succ s ih =>
    intro hs
    have hlt : s < K := by omega
    simp only [contents, physW, hlt, if_true]
    rw [ih (by omega)]
    exact commitW_disabled _ _

/-- **the physical memory lags the logical one by exactly `K` cycles** -/
theorem contents_phys (m0 : List D) (K : Nat) (gw W : Nat → List (WIn D)) : ∀ t,
    contents m0 (physW K gw W) (t + K) = contents m0 W t := by
  intro t
  induction t with
  | zero => simp only [Nat.zero_add]; exact contents_phys_init m0 K gw W K (Nat.le_refl K)
  | succ t ih =>
    have : t + 1 + K = (t + K) + 1 := by omega
    rw [this]
    simp only [contents]
    rw [ih]
    have h1 : ¬ (t + K < K) := by omega
    simp [physW, h1]

end Gatery.C07

namespace Gatery.C07

variable {D : Type}

/-- **hazard bypass**: `K = k+1` cycles after a read was issued the data pin shows what a read-first array read returns at
the time of issue — although the physical memory had not yet seen the last `K` cycles of writes at that time -/
theorem hazardOut_eq (dflt : D) (k : Nat) (m0 : List D) (gw : Nat → List (WIn D)) (ga : Nat → Nat) (gs : Nat → StageSig D)
    (gr : Nat → D) (W : Nat → List (WIn D)) (ra : Nat → Nat) (t : Nat) (ha : ra t < m0.length) :
    hazardOut dflt k m0 gw ga gs gr W ra (t + (k + 1)) = (contents m0 W t).getD (ra t) dflt := by
  have e1 : t + (k + 1) = (t + k) + 1 := by omega
  simp only [hazardOut]
  rw [regs_shift]
  rw [e1]
  show sel (stageOut ga gs ra (physW (k + 1) gw W) k (t + k)) _ = _
  rw [stageOut_spec dflt ga gs ra (physW (k + 1) gw W) _ t (by rw [length_contents]; exact ha) k]
  rw [← contents_add, contents_phys]

/-- the ports of one cycle as `ArrMem` operations: the writes `wb` declared before the read port, the read, the writes `wa` after it -/
def WIn.op (w : WIn D) : Op D := .wr w.addr w.en w.data

def cycleOps (wb : List (WIn D)) (a : Nat) (wa : List (WIn D)) : List (Op D) := wb.map WIn.op ++ [.rd a] ++ wa.map WIn.op

theorem ports_writes (dflt : D) (ws : List (WIn D)) : ∀ (m : ArrMem D) (rest : List (Op D)),
    ArrMem.ports dflt m (ws.map WIn.op ++ rest) = ArrMem.ports dflt ⟨commitW m.cells ws⟩ rest := by
  induction ws with
  | nil => intro m rest; rfl
  | cons w ws ih =>
    intro m rest
    simp only [List.map_cons, List.cons_append, WIn.op, ArrMem.ports, commitW, List.foldl_cons] at ih ⊢
    exact ih _ rest

theorem ports_writes_only (dflt : D) (ws : List (WIn D)) (m : ArrMem D) :
    ArrMem.ports dflt m (ws.map WIn.op) = (⟨commitW m.cells ws⟩, []) := by
  have := ports_writes dflt ws m []
  simpa [ArrMem.ports] using this

theorem ports_cycleOps (dflt : D) (wb wa : List (WIn D)) (a : Nat) (m : ArrMem D) :
    ArrMem.ports dflt m (cycleOps wb a wa) = (⟨commitW m.cells (wb ++ wa)⟩, [(commitW m.cells wb).getD a dflt]) := by
  unfold cycleOps
  rw [List.append_assoc, ports_writes]
  simp only [List.cons_append, List.nil_append, ArrMem.ports, ArrMem.read]
  rw [ports_writes_only]
  simp [commitW, List.foldl_append]

/-- the logical contents are what `ArrMem` holds after `t` cycles -/
theorem contents_eq_after (dflt : D) (m0 : List D) (Wb Wa : Nat → List (WIn D)) (ra : Nat → Nat) : ∀ (t : Nat) (m : List D),
    ArrMem.after dflt ⟨m⟩ ((List.range' 0 t).map fun s => cycleOps (Wb s) (ra s) (Wa s))
      = ⟨commitRange (fun s => Wb s ++ Wa s) 0 m t⟩ := by
  intro t
  induction t with
  | zero => intro m; rfl
  | succ t ih =>
    intro m
    rw [List.range'_concat, List.map_append]
    have after_append : ∀ (cs1 cs2 : List (List (Op D))) (m : ArrMem D),
        ArrMem.after dflt m (cs1 ++ cs2) = ArrMem.after dflt (ArrMem.after dflt m cs1) cs2 := by
      intro cs1
      induction cs1 with
      | nil => intro _ _; rfl
      | cons c cs ih' => intro cs2 m; simp only [List.cons_append, ArrMem.after]; exact ih' cs2 _
    rw [after_append, ih]
    simp only [List.map_cons, List.map_nil, ArrMem.after, Nat.one_mul, Nat.zero_add, commitRange]
    rw [ports_cycleOps]

theorem contents_eq_commitRange (m0 : List D) (W : Nat → List (WIn D)) (t : Nat) : contents m0 W t = commitRange W 0 m0 t := by
  have := contents_add m0 W 0 t
  simpa [contents] using this

end Gatery.C07
