/-!
# C07 — model of `Node_MemPort` / `Node_Memory` simulation semantics and the array specification `ArrMem`

Anchors (all under /repo/source/gatery):
* `hlim/supportNodes/Node_MemPort.cpp:168-310`  `simulateEvaluate` — asynchronous read, forwarding loop over the
  write ports this port is ordered after, latching of address / data / write enable of a write port;
* `hlim/supportNodes/Node_MemPort.cpp:312-337`  `simulateAdvance` — commit of the latched write at the clock edge;
* `hlim/supportNodes/Node_Memory.cpp:163-170`   `simulatePowerOn` — contents at power-on.

Granularity. The real memory is a flat bit array of `depth * bitWidth` bits and a port with address `a` touches the bits
`[a*bitWidth, (a+1)*bitWidth)` (all ports of a frontend memory have the same width; mixed widths are rejected by the
simulator, MemPort.cpp:253).  The model keeps one word `D` per address; `D` is abstract (the driver instantiates it with
0/1/x strings), the only operations the simulator applies to whole words are "make undefined" (`clearRange`), copy and
`mergeUndefinedSelection` (`WordOps`).  `index >= memSize` (MemPort.cpp:237) is `a >= depth`, and the write index
`(a*bitWidth) % memSize` (MemPort.cpp:332) is word `a % depth` (`index_word`).
-/
namespace Gatery.C07

/-- the two whole-word operations of the simulator besides copying -/
structure WordOps (D : Type) where
  undef : D
  merge : D → D → D      -- sim::mergeUndefinedSelection (BitVectorState.h:334)

/-- four-state address bus: value and defined planes as returned by `extractNonStraddling` -/
structure Addr where
  val : Nat
  defd : Nat
  deriving DecidableEq, Repr

/-- four-state single bit (enable inputs). An unconnected enable is `⟨true, true⟩` (MemPort.cpp:176-181, 300). -/
structure TBit where
  val : Bool
  defd : Bool
  deriving DecidableEq, Repr

def TBit.one : TBit := ⟨true, true⟩

structure Cfg where
  depth : Nat      -- memSize / bitWidth
  aw : Nat         -- width of the address bus of every port (Log2C(depth), MemPort.cpp:72-77)
  deriving Repr

def mask (aw : Nat) : Nat := 2 ^ aw - 1

/-- `utils::isMaskSet(addressDefined, 0, width)` -/
def Addr.full (aw : Nat) (a : Addr) : Bool := a.defd &&& mask aw == mask aw

/-- a fully defined address -/
def Addr.ofNat (aw : Nat) (n : Nat) : Addr := ⟨n, mask aw⟩

/-- the inputs of one port in one clock cycle (values right before the clock edge) -/
inductive PortIn (D : Type) where
  | rd (en : TBit) (addr : Addr)
  | wr (en wrEn : TBit) (addr : Addr) (data : D)

/-- `Internal::{address, wrData, wrEnable}` of a write port (MemPort.cpp:285-309) -/
structure Latch (D : Type) where
  addr : Addr
  data : D
  wrEn : Bool

variable {D : Type}

/-- MemPort.cpp:260-261 `addressesCanCollide` -/
def canCollide (w r : Addr) : Bool :=
  let common := w.defd &&& r.defd
  (w.val &&& common) == (r.val &&& common)

/-- one iteration of the override loop, MemPort.cpp:246-279 -/
def forward (ops : WordOps D) (aw : Nat) (ra : Addr) (out : D) (l : Latch D) : D :=
  if l.wrEn then
    if !l.addr.full aw then ops.undef                                  -- :268-270
    else if canCollide l.addr ra then
      if l.addr.full aw && ra.full aw then l.data                      -- :273-274 addressesWillCollide
      else ops.merge out l.data                                        -- :276
    else out
  else out

/-- the plain memory read, MemPort.cpp:207-242 with `UndefinedReadAddrBehavior::UNDEFINED` (the default, Node_Memory.h:143) -/
def memRead (ops : WordOps D) (cfg : Cfg) (mem : List D) (ra : Addr) : D :=
  if ra.full cfg.aw then
    if ra.val < cfg.depth then mem.getD ra.val ops.undef else ops.undef   -- :236-241
  else ops.undef                                                           -- :232

/-- asynchronous read of a port that is ordered after the write ports `prev`
(latches listed in declaration order, i.e. `getPrevWritePorts()` reversed: the loop at :246 runs from the farthest to the nearest) -/
def evalRead (ops : WordOps D) (cfg : Cfg) (mem : List D) (prev : List (Latch D)) (en : TBit) (ra : Addr) : D :=
  if !en.val || !en.defd then ops.undef                                -- :190-191
  else prev.foldl (forward ops cfg.aw ra) (memRead ops cfg mem ra)

/-- what a write port latches, MemPort.cpp:285-309 -/
def evalWrite (ops : WordOps D) (en wrEn : TBit) (addr : Addr) (data : D) : Latch D :=
  let doWrite := (en.val || !en.defd) && (wrEn.val || !wrEn.defd)     -- :297-302
  let writingDefined := en.defd && wrEn.defd                           -- :298,303
  { addr := addr, data := if writingDefined then data else ops.undef, wrEn := doWrite }

/-- evaluation of all ports of a memory in declaration order (the `orderAfter` chain makes every port depend on its
predecessor, Node_MemPort::connectMemory :47-57, so this is the order the simulator evaluates them in).
`prev` = latches of the write ports declared so far. Result: all latches, outputs of the read ports in declaration order. -/
def evalPorts (ops : WordOps D) (cfg : Cfg) (mem : List D) : List (Latch D) → List (PortIn D) → List (Latch D) × List D
  | prev, [] => (prev, [])
  | prev, .rd en a :: ps =>
      let r := evalPorts ops cfg mem prev ps
      (r.1, evalRead ops cfg mem prev en a :: r.2)
  | prev, .wr en we a d :: ps => evalPorts ops cfg mem (prev ++ [evalWrite ops en we a d]) ps

/-- `simulateAdvance` of one write port, MemPort.cpp:317-336 -/
def commit (ops : WordOps D) (cfg : Cfg) (mem : List D) (l : Latch D) : List D :=
  if l.wrEn then
    if !l.addr.full cfg.aw then mem.map (fun _ => ops.undef)           -- :325-327
    else mem.set (l.addr.val % cfg.depth) l.data                       -- :332-333
  else mem

/-- clock edge: the clocked nodes advance in circuit (= creation = declaration) order, ReferenceSimulator.cpp:210-216, 866 -/
def advance (ops : WordOps D) (cfg : Cfg) (mem : List D) (ls : List (Latch D)) : List D :=
  ls.foldl (commit ops cfg) mem

/-- one clock cycle of a memory with all its ports: read-port outputs before the edge, contents after the edge -/
def cycle (ops : WordOps D) (cfg : Cfg) (mem : List D) (ports : List (PortIn D)) : List D × List D :=
  let r := evalPorts ops cfg mem [] ports
  (advance ops cfg mem r.1, r.2)

/-- a run: per cycle the read-port outputs (asynchronous, i.e. latency 0) -/
def run (ops : WordOps D) (cfg : Cfg) : List D → List (List (PortIn D)) → List (List D)
  | _, [] => []
  | mem, c :: cs => let r := cycle ops cfg mem c; r.2 :: run ops cfg r.1 cs

/-- Contents at power-on: `Node_Memory::simulatePowerOn` (Node_Memory.cpp:163-170) copies the declared power-on state iff
`requiresPowerOnInitialization()` (:185-204): a memory without write port (ROM) is always initialised, a memory with write ports
iff the clock of its write ports has the register attribute `initializeMemory` (Clock.cpp:209-216: it follows `initializeRegs`
unless `ClockConfig::initializeMemory` is given explicitly); otherwise every bit is undefined.  (A declared state without any
defined bit is "not initialised" as well, :187 — the same contents.) -/
def powerOn (ops : WordOps D) (declared : List D) (isRom initializeMemory : Bool) : List D :=
  if isRom || initializeMemory then declared else declared.map (fun _ => ops.undef)

/-- `L` registers behind a signal: the value `L` cycles ago, `none` while the registers still hold their power-on content -/
def delayed {α : Type} (L : Nat) (xs : List α) : List (Option α) := List.replicate L none ++ xs.map some

theorem index_word (a depth w : Nat) : (a * w) % (depth * w) = (a % depth) * w := Nat.mul_mod_mul_right w a depth

end Gatery.C07
