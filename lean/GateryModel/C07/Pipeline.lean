/-!
# C07 — the read-latency pipeline with per-stage enables

In the frontend the declared read latency `L` of a memory is realised by `L` registers behind the (asynchronous) read port;
each of them may sit under its own `ENIF` scope (hlim `Node_Register` with an `ENABLE` input: the register keeps its value
while the enable is low, coreNodes/Node_Register.cpp `simulateAdvance`).  `pipeStep` is one clock edge of such a chain:
stage `k` loads the value of stage `k-1` (stage 0: the read data) iff its enable is high, otherwise it holds.
Registers are listed first stage first; the data pin shows the last one.
-/
namespace Gatery.C07

variable {α : Type}

/-- one clock edge: `prev` = value in front of the first listed stage -/
def pipeStep (prev : α) : List α → List Bool → List α
  | [], _ => []
  | r :: rs, [] => prev :: pipeStep r rs []                       -- a stage without enable input always loads
  | r :: rs, e :: es => (if e then prev else r) :: pipeStep r rs es

/-- the data pin: the last stage (`dflt` for latency 0 is never used: latency 0 has no pipeline) -/
def pipeOut (dflt : α) (regs : List α) : α := regs.getLastD dflt

/-- a run: per cycle (stage enables, read data); returns the register contents afterwards -/
def pipeRun : List α → List (List Bool × α) → List α
  | regs, [] => regs
  | regs, (es, x) :: cs => pipeRun (pipeStep x regs es) cs

/-- the pin values seen in every cycle of a run (sampled before the edge) -/
def pipeTrace (dflt : α) : List α → List (List Bool × α) → List α
  | _, [] => []
  | regs, (es, x) :: cs => pipeOut dflt regs :: pipeTrace dflt (pipeStep x regs es) cs

theorem length_pipeStep (regs : List α) : ∀ (es : List Bool) (p : α), (pipeStep p regs es).length = regs.length := by
  induction regs with
  | nil => intro es p; cases es <;> rfl
  | cons r rs ih => intro es p; cases es with
    | nil => simp [pipeStep, ih]
    | cons e es => simp [pipeStep, ih]

/-- a stage whose enable is low holds its value -/
theorem pipeStep_hold (prev : α) (regs : List α) (es : List Bool) (k : Nat) (hk : es[k]? = some false) :
    (pipeStep prev regs es)[k]? = regs[k]? := by
  induction regs generalizing prev es k with
  | nil => cases es <;> simp [pipeStep]
  | cons r rs ih =>
    cases es with
    | nil => simp at hk
    | cons e es =>
      cases k with
      | zero => simp at hk; subst hk; simp [pipeStep]
      | succ k => simp at hk; simp only [pipeStep, List.getElem?_cons_succ]; exact ih r es k hk

/-- a stage whose enable is high (or that has no enable) takes the value in front of it -/
theorem pipeStep_load (prev : α) (regs : List α) (es : List Bool) (k : Nat) (hk : es[k]? ≠ some false) (hlt : k < regs.length) :
    (pipeStep prev regs es)[k]? = if k = 0 then some prev else regs[k - 1]? := by
  induction regs generalizing prev es k with
  | nil => simp at hlt
  | cons r rs ih =>
    cases k with
    | zero =>
      cases es with
      | nil => simp [pipeStep]
      | cons e es => cases e <;> simp_all [pipeStep]
    | succ k =>
      have hlt' : k < rs.length := by simpa using hlt
      cases es with
      | nil =>
        simp only [pipeStep, List.getElem?_cons_succ]
        rw [ih r [] k (by simp) hlt']
        cases k <;> simp
      | cons e es =>
        simp only [pipeStep, List.getElem?_cons_succ]
        rw [ih r es k (by simpa using hk) hlt']
        cases k <;> simp

/-- all stages enabled: a plain shift register -/
theorem pipeStep_all (regs : List α) : ∀ (p : α), pipeStep p regs [] = (p :: regs).take regs.length := by
  induction regs with
  | nil => intro p; rfl
  | cons r rs ih => intro p; simp [pipeStep, ih]

theorem pipeStep_uniform_true (regs : List α) : ∀ (p : α), pipeStep p regs (List.replicate regs.length true) = (p :: regs).take regs.length := by
  induction regs with
  | nil => intro p; rfl
  | cons r rs ih => intro p; simp [pipeStep, List.replicate_succ, ih]

theorem pipeStep_uniform_false (regs : List α) : ∀ (p : α), pipeStep p regs (List.replicate regs.length false) = regs := by
  induction regs with
  | nil => intro p; rfl
  | cons r rs ih => intro p; simp [pipeStep, List.replicate_succ, ih]

/-- **one enable for all stages** (what a block ram read enable is): after any run the registers hold the read data of the
last `L` cycles in which the enable was high, newest first — the pipeline is a shift register over the enabled cycles only -/
theorem pipeRun_uniform (cs : List (Bool × α)) : ∀ (regs : List α),
    pipeRun regs (cs.map fun c => (List.replicate regs.length c.1, c.2))
      = (((cs.filter (·.1)).map (·.2)).reverse ++ regs).take regs.length := by
  induction cs with
  | nil => intro regs; simp [pipeRun]
  | cons c cs ih =>
    intro regs
    obtain ⟨e, x⟩ := c
    simp only [List.map_cons, pipeRun]
    cases e with
    | false =>
      rw [pipeStep_uniform_false]
      simpa using ih regs
    | true =>
      rw [pipeStep_uniform_true]
      have hl : ((x :: regs).take regs.length).length = regs.length := by simp
      have := ih ((x :: regs).take regs.length)
      rw [hl] at this
      rw [this]
      simp only [List.filter_cons, if_true, List.map_cons, List.reverse_cons, List.append_assoc, List.singleton_append]
      -- taking `L` of `ys ++ take L (x :: regs)` = taking `L` of `ys ++ x :: regs`
      generalize ((cs.filter (·.1)).map (·.2)).reverse = ys
      rw [List.take_append, List.take_append, List.take_take]
      congr 2
      omega

/-- without any enable the pipeline is the plain `L`-cycle delay of the specification -/
theorem pipeRun_plain (xs : List α) (regs : List α) :
    pipeRun regs (xs.map fun x => (([] : List Bool), x)) = (xs.reverse ++ regs).take regs.length := by
  induction xs generalizing regs with
  | nil => simp [pipeRun]
  | cons x xs ih =>
    simp only [List.map_cons, pipeRun]
    rw [pipeStep_all regs x]
    have hl : ((x :: regs).take regs.length).length = regs.length := by simp
    have := ih ((x :: regs).take regs.length)
    rw [hl] at this
    rw [this]
    simp only [List.reverse_cons, List.append_assoc, List.singleton_append]
    generalize xs.reverse = ys
    rw [List.take_append, List.take_append, List.take_take]
    congr 2
    omega

end Gatery.C07
