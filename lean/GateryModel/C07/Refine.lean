import GateryModel.C07.Model
import GateryModel.C07.Spec
/-!
# C07 — the MemPort model refines `ArrMem` on defined, in-range controls
-/
namespace Gatery.C07

variable {D : Type}

/-- the port inputs a two-valued operation puts on the pins: enables defined, address fully defined;
a frontend port has no `enable` input (Memory.h:64-98) and an optional `wrEnable` -/
def PortIn.ofOp (aw : Nat) : Op D → PortIn D
  | .rd a => .rd TBit.one (Addr.ofNat aw a)
  | .wr a en d => .wr TBit.one ⟨en, true⟩ (Addr.ofNat aw a) d

/-- the latch a defined write leaves -/
def Latch.ofWr (aw : Nat) (a : Nat) (en : Bool) (d : D) : Latch D := ⟨Addr.ofNat aw a, d, en⟩

theorem full_ofNat (aw n : Nat) : (Addr.ofNat aw n).full aw = true := by
  simp [Addr.full, Addr.ofNat]

theorem and_mask_of_lt {a aw : Nat} (h : a < 2 ^ aw) : a &&& mask aw = a := by
  unfold mask
  rw [Nat.and_two_pow_sub_one_eq_mod, Nat.mod_eq_of_lt h]

theorem canCollide_ofNat {aw a b : Nat} (ha : a < 2 ^ aw) (hb : b < 2 ^ aw) :
    canCollide (Addr.ofNat aw a) (Addr.ofNat aw b) = decide (a = b) := by
  simp only [canCollide, Addr.ofNat, Nat.and_self, and_mask_of_lt ha, and_mask_of_lt hb]
  by_cases h : a = b <;> simp [h]

theorem evalWrite_ofOp (ops : WordOps D) (aw a : Nat) (en : Bool) (d : D) :
    evalWrite ops TBit.one ⟨en, true⟩ (Addr.ofNat aw a) d = Latch.ofWr aw a en d := by
  simp [evalWrite, TBit.one, Latch.ofWr]

theorem forward_ofWr (ops : WordOps D) {aw a b : Nat} (ha : a < 2 ^ aw) (hb : b < 2 ^ aw) (out d : D) (en : Bool) :
    forward ops aw (Addr.ofNat aw a) out (Latch.ofWr aw b en d) = if en = true ∧ b = a then d else out := by
  simp only [forward, Latch.ofWr, full_ofNat, canCollide_ofNat hb ha]
  cases en <;> simp
  
theorem commit_ofWr (ops : WordOps D) (cfg : Cfg) (m : List D) {b : Nat} (hb : b < cfg.depth) (d : D) (en : Bool) :
    commit ops cfg m (Latch.ofWr cfg.aw b en d) = (ArrMem.write ⟨m⟩ b en d).cells := by
  have hv : (Addr.ofNat cfg.aw b).val % cfg.depth = b := by simp [Addr.ofNat, Nat.mod_eq_of_lt hb]
  simp only [commit, Latch.ofWr, full_ofNat, ArrMem.write, hv]
  cases en <;> simp

theorem getD_set (m : List D) (a b : Nat) (d u : D) :
    (m.set b d).getD a u = if b = a ∧ b < m.length then d else m.getD a u := by
  simp only [List.getD_eq_getElem?_getD, List.getElem?_set]
  by_cases h : b = a
  · subst h
    by_cases hl : b < m.length
    · simp [hl]
    · simp [hl]
  · simp [h]

theorem length_write (m : ArrMem D) (a : Nat) (en : Bool) (d : D) : (m.write a en d).cells.length = m.cells.length := by
  unfold ArrMem.write; cases en <;> simp

/-- one step of the forwarding loop = reading after the write has been committed -/
theorem forward_eq_read_write (ops : WordOps D) (cfg : Cfg) (m : List D) {a b : Nat}
    (hle : cfg.depth ≤ 2 ^ cfg.aw) (hlen : m.length = cfg.depth) (ha : a < cfg.depth) (hb : b < cfg.depth) (d : D) (en : Bool) :
    forward ops cfg.aw (Addr.ofNat cfg.aw a) (m.getD a ops.undef) (Latch.ofWr cfg.aw b en d)
      = (commit ops cfg m (Latch.ofWr cfg.aw b en d)).getD a ops.undef := by
  rw [forward_ofWr ops (Nat.lt_of_lt_of_le ha hle) (Nat.lt_of_lt_of_le hb hle), commit_ofWr ops cfg m hb]
  unfold ArrMem.write
  cases en
  · simp
  · simp only [true_and, if_true, getD_set, hlen, hb, and_true]

/-- defined latches with in-range addresses -/
def LatchOk (cfg : Cfg) (l : Latch D) : Prop := ∃ b en d, b < cfg.depth ∧ l = Latch.ofWr cfg.aw b en d

theorem length_commit (ops : WordOps D) (cfg : Cfg) (m : List D) (l : Latch D) : (commit ops cfg m l).length = m.length := by
  unfold commit
  split
  · split <;> simp
  · rfl

theorem length_advance (ops : WordOps D) (cfg : Cfg) (ls : List (Latch D)) : ∀ (m : List D), (advance ops cfg m ls).length = m.length := by
  induction ls with
  | nil => intro m; rfl
  | cons l ls ih => intro m; simp only [advance, List.foldl_cons] at ih ⊢; rw [ih, length_commit]

/-- **the forwarding loop computes the read of the array in which the earlier writes of the cycle already happened** -/
theorem forward_fold (ops : WordOps D) (cfg : Cfg) (hle : cfg.depth ≤ 2 ^ cfg.aw) {a : Nat} (ha : a < cfg.depth)
    (prev : List (Latch D)) : ∀ (m : List D), m.length = cfg.depth → (∀ l ∈ prev, LatchOk cfg l) →
    prev.foldl (forward ops cfg.aw (Addr.ofNat cfg.aw a)) (m.getD a ops.undef) = (advance ops cfg m prev).getD a ops.undef := by
  induction prev with
  | nil => intro m _ _; rfl
  | cons l ls ih =>
    intro m hlen hok
    obtain ⟨b, en, d, hb, rfl⟩ := hok l (by simp)
    simp only [List.foldl_cons, advance]
    rw [forward_eq_read_write ops cfg m hle hlen ha hb]
    exact ih _ (by rw [length_commit, hlen]) (fun l hl => hok l (by simp [hl]))

theorem memRead_ofNat (ops : WordOps D) (cfg : Cfg) (m : List D) {a : Nat} (ha : a < cfg.depth) :
    memRead ops cfg m (Addr.ofNat cfg.aw a) = m.getD a ops.undef := by
  have hv : (Addr.ofNat cfg.aw a).val = a := rfl
  simp only [memRead, full_ofNat, hv, ha, if_true]

theorem evalRead_eq (ops : WordOps D) (cfg : Cfg) (hle : cfg.depth ≤ 2 ^ cfg.aw) {a : Nat} (ha : a < cfg.depth)
    (prev : List (Latch D)) (m : List D) (hlen : m.length = cfg.depth) (hok : ∀ l ∈ prev, LatchOk cfg l) :
    evalRead ops cfg m prev TBit.one (Addr.ofNat cfg.aw a) = ArrMem.read ops.undef ⟨advance ops cfg m prev⟩ a := by
  simp only [evalRead, TBit.one, Bool.not_true, Bool.or_self, Bool.false_eq_true, if_false, ArrMem.read]
  rw [memRead_ofNat ops cfg m ha]
  exact forward_fold ops cfg hle ha prev m hlen hok

/-- all ports of a cycle, generalised over the write ports already evaluated -/
theorem evalPorts_refines (ops : WordOps D) (cfg : Cfg) (hle : cfg.depth ≤ 2 ^ cfg.aw) (m : List D) (hlen : m.length = cfg.depth)
    (ps : List (Op D)) : ∀ (prev : List (Latch D)), (∀ l ∈ prev, LatchOk cfg l) → (∀ o ∈ ps, o.inRange cfg.depth) →
    let r := evalPorts ops cfg m prev (ps.map (PortIn.ofOp cfg.aw))
    let s := ArrMem.ports ops.undef ⟨advance ops cfg m prev⟩ ps
    advance ops cfg m r.1 = s.1.cells ∧ r.2 = s.2 := by
  induction ps with
  | nil => intro prev _ _; exact ⟨rfl, rfl⟩
  | cons o ps ih =>
    intro prev hok hin
    have hin' : ∀ o ∈ ps, o.inRange cfg.depth := fun o ho => hin o (by simp [ho])
    cases o with
    | rd a =>
      have ha : a < cfg.depth := hin (.rd a) (by simp)
      have := ih prev hok hin'
      simp only [List.map_cons, PortIn.ofOp, evalPorts, ArrMem.ports] at this ⊢
      refine ⟨this.1, ?_⟩
      rw [evalRead_eq ops cfg hle ha prev m hlen hok, this.2]
    | wr a en d =>
      have ha : a < cfg.depth := hin (.wr a en d) (by simp)
      have hok' : ∀ l ∈ prev ++ [Latch.ofWr cfg.aw a en d], LatchOk cfg l := by
        intro l hl
        rcases List.mem_append.mp hl with h | h
        · exact hok l h
        · simp at h; exact ⟨a, en, d, ha, h⟩
      have := ih (prev ++ [Latch.ofWr cfg.aw a en d]) hok' hin'
      simp only [List.map_cons, PortIn.ofOp, evalPorts, ArrMem.ports, evalWrite_ofOp] at this ⊢
      have hadv : advance ops cfg m (prev ++ [Latch.ofWr cfg.aw a en d])
          = (ArrMem.write ⟨advance ops cfg m prev⟩ a en d).cells := by
        simp only [advance, List.foldl_append, List.foldl_cons, List.foldl_nil]
        exact commit_ofWr ops cfg _ ha d en
      rw [hadv] at this
      exact this

theorem cycle_refines (ops : WordOps D) (cfg : Cfg) (hle : cfg.depth ≤ 2 ^ cfg.aw) (m : List D) (hlen : m.length = cfg.depth)
    (ps : List (Op D)) (hin : ∀ o ∈ ps, o.inRange cfg.depth) :
    cycle ops cfg m (ps.map (PortIn.ofOp cfg.aw)) = ((ArrMem.ports ops.undef ⟨m⟩ ps).1.cells, (ArrMem.ports ops.undef ⟨m⟩ ps).2) := by
  have := evalPorts_refines ops cfg hle m hlen ps [] (by simp) hin
  simp only [advance, List.foldl_nil] at this
  simp only [cycle, advance]
  rw [← this.1, ← this.2]

theorem length_ports (dflt : D) (ps : List (Op D)) : ∀ (m : ArrMem D), (ArrMem.ports dflt m ps).1.cells.length = m.cells.length := by
  induction ps with
  | nil => intro m; rfl
  | cons o ps ih =>
    intro m
    cases o with
    | rd a => simp only [ArrMem.ports]; exact ih m
    | wr a en d => simp only [ArrMem.ports]; rw [ih, length_write]

theorem run_refines (ops : WordOps D) (cfg : Cfg) (hle : cfg.depth ≤ 2 ^ cfg.aw)
    (cs : List (List (Op D))) : ∀ (m : List D), m.length = cfg.depth → (∀ c ∈ cs, ∀ o ∈ c, o.inRange cfg.depth) →
    run ops cfg m (cs.map (List.map (PortIn.ofOp cfg.aw))) = ArrMem.run ops.undef ⟨m⟩ cs := by
  induction cs with
  | nil => intro m _ _; rfl
  | cons c cs ih =>
    intro m hlen hin
    simp only [List.map_cons, run, ArrMem.run]
    rw [cycle_refines ops cfg hle m hlen c (hin c (by simp))]
    simp only
    rw [ih _ (by rw [length_ports]; exact hlen) (fun c' hc' => hin c' (by simp [hc']))]

end Gatery.C07
