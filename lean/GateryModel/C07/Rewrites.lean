import GateryModel.C07.Refine
/-!
# C07 — the two explicit rewrites of `MemoryGroup` (hlim/postprocessing/MemoryDetector.cpp)

* `convertToReadBeforeWrite` (:252-341): every read port is pushed to the top of the `orderAfter` chain; for each write port
  it passes a `mux(addrEq ∧ rdEn ∧ wrEn; previous read data, wrData)` is put behind the read data, the nearest write port
  ending up outermost (the consumers of the *port output* are rewired, :309, :327-328, so the second mux is inserted in
  front of input 0 of the first).
* `resolveWriteOrder` (:344-413): for every write port `wp1` (in `m_writePorts` = declaration order) the chain above it is
  walked; each write port `wp2` met gets `wrEnable := (addr1 ≠ addr2 ∨ ¬wrEn1) ∧ wrEn2` (:370-400), everything ordered after
  `wp1` is re-attached to `wp2` (:404-407) and `wp1` moves up (:410).

Both nets are modelled on two-valued controls (Compare/Logic nodes on defined inputs); data words are arbitrary.
-/
namespace Gatery.C07

variable {D : Type}

/-- the inputs of a write port in one cycle, two-valued; `en` is the `wrEnable` input (`true` if unconnected) -/
structure WIn (D : Type) where
  addr : Nat
  en : Bool
  data : D

def WIn.latch (aw : Nat) (w : WIn D) : Latch D := Latch.ofWr aw w.addr w.en w.data

/-- the mux chain of `convertToReadBeforeWrite`: `rd` is the output of the read port itself, `ws` the write ports it has been
moved past so far, in declaration order (the last one is the nearest = the first one passed = the outermost mux) -/
def rbwNet (rd : D) (ra : Nat) (rdEn : Bool) (ws : List (WIn D)) : D :=
  ws.foldl (fun out w => if (decide (ra = w.addr) && rdEn && w.en) = true then w.data else out) rd

/-- any intermediate state of the while loop (:263-339): the port is still ordered after `ws1` and has been moved past `ws2` -/
theorem rbwNet_eq (ops : WordOps D) (cfg : Cfg) (hle : cfg.depth ≤ 2 ^ cfg.aw) (mem : List D) {a : Nat} (ha : a < cfg.depth)
    (rdEn : Bool) (ws1 ws2 : List (WIn D)) (h2 : ∀ w ∈ ws2, w.addr < cfg.depth) :
    rbwNet (evalRead ops cfg mem (ws1.map (WIn.latch cfg.aw)) ⟨rdEn, true⟩ (Addr.ofNat cfg.aw a)) a rdEn ws2
      = evalRead ops cfg mem ((ws1 ++ ws2).map (WIn.latch cfg.aw)) ⟨rdEn, true⟩ (Addr.ofNat cfg.aw a) := by
  cases rdEn with
  | false =>
    simp only [evalRead, rbwNet, Bool.not_false, Bool.true_or, if_true, Bool.and_false, Bool.false_and, Bool.false_eq_true, if_false]
    induction ws2 with
    | nil => rfl
    | cons w ws ih => simp only [List.foldl_cons]; exact ih (fun w hw => h2 w (by simp [hw]))
  | true =>
    simp only [evalRead, Bool.not_true, Bool.or_self, Bool.false_eq_true, if_false, List.map_append, List.foldl_append, rbwNet]
    generalize List.foldl (forward ops cfg.aw (Addr.ofNat cfg.aw a)) (memRead ops cfg mem (Addr.ofNat cfg.aw a))
      (List.map (WIn.latch cfg.aw) ws1) = x
    induction ws2 generalizing x with
    | nil => rfl
    | cons w ws ih =>
      simp only [List.foldl_cons, List.map_cons]
      have hw : w.addr < cfg.depth := h2 w (by simp)
      have : forward ops cfg.aw (Addr.ofNat cfg.aw a) x (WIn.latch cfg.aw w)
          = (if (decide (a = w.addr) && true && w.en) = true then w.data else x) := by
        unfold WIn.latch
        rw [forward_ofWr ops (Nat.lt_of_lt_of_le ha hle) (Nat.lt_of_lt_of_le hw hle)]
        by_cases h : a = w.addr <;> cases hen : w.en <;> simp [h, eq_comm]
      rw [this]
      exact ih (fun w hw => h2 w (by simp [hw])) _

/-! ## resolveWriteOrder -/

/-- `orderAfter` pointers between the write ports (index = position in `m_writePorts`); read ports at the top of a chain
end the walk (:357-360) and are not represented -/
abbrev Pred := Nat → Option Nat

/-- the chain the frontend builds: every port is ordered after the previous one (Node_MemPort::connectMemory) -/
def initPred : Pred := fun j => if j = 0 then none else some (j - 1)

/-- the `while` loop (:354-411) for `wp1 = k`; emits the pairs `(wp1, wp2)` for which disable logic is built.
`fuel` only bounds the walk (a chain has at most `n` links). -/
def walk : Nat → Nat → Pred → List (Nat × Nat) × Pred
  | 0, _, pred => ([], pred)
  | fuel + 1, k, pred =>
    match pred k with
    | none => ([], pred)
    | some p =>
      let pred' : Pred := fun j => if j = k then pred p else if pred j = some k then some p else pred j   -- :404-410
      let r := walk fuel k pred'
      ((k, p) :: r.1, r.2)

/-- the outer `for (auto &wp1 : m_writePorts)` -/
def scheduleFrom (n : Nat) (ks : List Nat) (st : List (Nat × Nat) × Pred) : List (Nat × Nat) × Pred :=
  ks.foldl (fun acc k => let r := walk (n + 1) k acc.2; (acc.1 ++ r.1, r.2)) st

def schedule (n : Nat) : List (Nat × Nat) := (scheduleFrom n (List.range n) ([], initPred)).1

/-- the logic of :370-400 for the pair `(wp1, wp2) = kp`, on the enables as they are at that moment -/
def applyPair (ws : Nat → WIn D) (kp : Nat × Nat) : Nat → WIn D :=
  fun j => if j = kp.2 then
      { ws kp.2 with en := (decide ((ws kp.1).addr ≠ (ws kp.2).addr) || !(ws kp.1).en) && (ws kp.2).en }
    else ws j

/-- the write ports after `resolveWriteOrder` -/
def resolveWriteOrder (n : Nat) (ws : Nat → WIn D) : Nat → WIn D := (schedule n).foldl applyPair ws

/-- committing write ports in list order (what the simulator does at the clock edge, `advance`) -/
def commitW (m : List D) (ws : List (WIn D)) : List D := ws.foldl (fun m w => (ArrMem.write ⟨m⟩ w.addr w.en w.data).cells) m

def portList (n : Nat) (ws : Nat → WIn D) : List (WIn D) := (List.range n).map ws

/-- state of the pointers before `wp1 = k` is processed (`k ≥ 1`) -/
def predAt (k : Nat) : Pred := fun j => if j = k then some 0 else if k < j then some (j - 1) else none

theorem initPred_eq : initPred = predAt 1 := by
  funext j
  unfold initPred predAt
  by_cases h0 : j = 0
  · subst h0; simp
  · by_cases h1 : j = 1
    · subst h1; simp
    · have : 1 < j := by omega
      simp [h0, h1, this]

theorem walk_zero (fuel : Nat) : walk fuel 0 initPred = ([], initPred) := by
  cases fuel with
  | zero => rfl
  | succ f => simp [walk, initPred]

theorem walk_some (f k p : Nat) (pred : Pred) (h : pred k = some p) :
    walk (f + 1) k pred = ((k, p) :: (walk f k (fun j => if j = k then pred p else if pred j = some k then some p else pred j)).1,
      (walk f k (fun j => if j = k then pred p else if pred j = some k then some p else pred j)).2) := by
  rw [walk]; simp only [h]

theorem walk_none (f k : Nat) (pred : Pred) (h : pred k = none) : walk (f + 1) k pred = ([], pred) := by
  rw [walk]; simp only [h]

theorem walk_predAt (fuel k : Nat) (hk : 1 ≤ k) : walk (fuel + 2) k (predAt k) = ([(k, 0)], predAt (k + 1)) := by
  have h0 : predAt k k = some 0 := by simp [predAt]
  have hp : (fun j => if j = k then predAt k 0 else if predAt k j = some k then some 0 else predAt k j) = predAt (k + 1) := by
    funext j
    unfold predAt
    by_cases h1 : j = k
    · subst h1
      have : ¬ (0 = j) := by omega
      have h2 : ¬ (j < 0) := by omega
      have h3 : ¬ (j = j + 1) := by omega
      have h4 : ¬ (j + 1 < j) := by omega
      simp [this, h3, h4]
    · by_cases h2 : j = k + 1
      · subst h2
        have : k < k + 1 := by omega
        simp [this]
      · by_cases h3 : k < j
        · have h4 : k + 1 < j := by omega
          have h5 : ¬ (j - 1 = k) := by omega
          simp [h1, h2, h3, h4, h5]
        · have h4 : ¬ (k + 1 < j) := by omega
          simp [h1, h2, h3, h4]
  have hn : predAt (k + 1) k = none := by
    unfold predAt
    have h3 : ¬ (k = k + 1) := by omega
    have h4 : ¬ (k + 1 < k) := by omega
    simp [h3, h4]
  rw [walk_some (fuel + 1) k 0 (predAt k) h0, hp, walk_none fuel k _ hn]

theorem scheduleFrom_succ (n : Nat) (hn : 1 ≤ n) : ∀ (m : Nat), m ≤ n →
    scheduleFrom n (List.range (m + 1)) ([], initPred) = ((List.range m).map (fun i => (i + 1, 0)), predAt (m + 1)) := by
  intro m
  induction m with
  | zero =>
    intro _
    simp only [scheduleFrom, List.range_succ, List.range_zero, List.nil_append, List.foldl_cons, List.foldl_nil, walk_zero,
      List.append_nil, List.map_nil]
    rw [initPred_eq]
  | succ m ih =>
    intro hm
    rw [List.range_succ, scheduleFrom, List.foldl_append]
    have := ih (by omega)
    rw [scheduleFrom] at this
    rw [this]
    simp only [List.foldl_cons, List.foldl_nil]
    obtain ⟨f, hf⟩ : ∃ f, n + 1 = f + 2 := ⟨n - 1, by omega⟩
    rw [hf, walk_predAt f (m + 1) (by omega)]
    simp [List.range_succ]

/-- **what the loop does, for every number of write ports**: only the first write port ever gets disable logic -/
theorem schedule_eq (n : Nat) : schedule n = (List.range (n - 1)).map (fun i => (i + 1, 0)) := by
  cases n with
  | zero => rfl
  | succ m =>
    unfold schedule
    rw [scheduleFrom_succ (m + 1) (by omega) m (by omega)]
    simp

/-- folding the pairs `(i+1, 0)`: ports other than the first keep their enable, the first one is and-ed with every pair term -/
theorem foldl_applyPair (l : List Nat) : ∀ (ws : Nat → WIn D),
    (l.map (fun i => (i + 1, 0))).foldl applyPair ws
      = fun j => if j = 0 then { ws 0 with en := (l.all fun i => decide ((ws (i + 1)).addr ≠ (ws 0).addr) || !(ws (i + 1)).en) && (ws 0).en }
                 else ws j := by
  induction l with
  | nil => intro ws; funext j; by_cases h : j = 0 <;> simp [h]
  | cons i l ih =>
    intro ws
    simp only [List.map_cons, List.foldl_cons]
    rw [ih]
    funext j
    by_cases h : j = 0
    · subst h
      simp only [applyPair, if_true, List.all_cons]
      have hne : ¬ (i + 1 = 0) := by omega
      have hne' : ∀ x : Nat, ¬ (x + 1 = 0) := by intro x; omega
      simp only [hne, hne', if_false]
      cases (ws 0).en <;> simp [Bool.and_comm, Bool.and_assoc, Bool.and_left_comm]
    · simp [applyPair, h]

theorem resolveWriteOrder_eq (n : Nat) (ws : Nat → WIn D) :
    resolveWriteOrder n ws = fun j => if j = 0 then
        { ws 0 with en := ((List.range (n - 1)).all fun i => decide ((ws (i + 1)).addr ≠ (ws 0).addr) || !(ws (i + 1)).en) && (ws 0).en }
      else ws j := by
  unfold resolveWriteOrder
  rw [schedule_eq, foldl_applyPair]

/-- a write that is followed by an enabled write to the same address does not matter -/
theorem commitW_shadow (rest : List (WIn D)) (a : Nat) : ∀ (m m' : List D), m.length = m'.length →
    (∀ i, i ≠ a → m[i]? = m'[i]?) → (∃ w ∈ rest, w.en = true ∧ w.addr = a) → commitW m rest = commitW m' rest := by
  induction rest with
  | nil => intro _ _ _ _ h; obtain ⟨w, hw, _⟩ := h; cases hw
  | cons w ws ih =>
    intro m m' hlen hag hex
    simp only [commitW, List.foldl_cons]
    by_cases hw : w.en = true ∧ w.addr = a
    · have : (ArrMem.write ⟨m⟩ w.addr w.en w.data).cells = (ArrMem.write ⟨m'⟩ w.addr w.en w.data).cells := by
        simp only [ArrMem.write, hw.1, if_true, hw.2]
        apply List.ext_getElem?
        intro i
        by_cases hi : i = a
        · subst hi; simp [List.getElem?_set, hlen]
        · simp only [List.getElem?_set]; simp [Ne.symm hi, hag i hi]
      rw [this]
    · have hex' : ∃ w' ∈ ws, w'.en = true ∧ w'.addr = a := by
        obtain ⟨w', hw', h'⟩ := hex
        rcases List.mem_cons.mp hw' with rfl | h
        · exact absurd h' hw
        · exact ⟨w', h, h'⟩
      apply ih _ _ _ _ hex'
      · rw [length_write, length_write]; exact hlen
      · intro i hi
        unfold ArrMem.write
        cases w.en
        · simpa using hag i hi
        · simp only [if_true, List.getElem?_set, hlen]
          by_cases h : w.addr = i <;> simp [h, hag i hi]

theorem commitW_disable_shadowed (m : List D) (w : WIn D) (rest : List (WIn D))
    (h : ∃ w' ∈ rest, w'.en = true ∧ w'.addr = w.addr) :
    commitW m ({ w with en := false } :: rest) = commitW m (w :: rest) := by
  simp only [commitW, List.foldl_cons]
  apply commitW_shadow rest w.addr _ _ _ _ h
  · rw [length_write, length_write]
  · intro i hi
    unfold ArrMem.write
    cases w.en
    · rfl
    · simp only [if_true, List.getElem?_set, Bool.false_eq_true, if_false]
      simp [Ne.symm hi]

theorem portList_succ (n : Nat) (ws : Nat → WIn D) : portList (n + 1) ws = ws 0 :: (List.range n).map (fun i => ws (i + 1)) := by
  unfold portList
  rw [List.range_succ_eq_map]
  simp [List.map_map, Function.comp_def]

/-- **resolveWriteOrder does not change what the memory holds after the clock edge** (write ports committing in declaration
order, any number of write ports, any addresses, enables, data) -/
theorem resolveWriteOrder_commit (n : Nat) (ws : Nat → WIn D) (m : List D) :
    commitW m (portList n (resolveWriteOrder n ws)) = commitW m (portList n ws) := by
  cases n with
  | zero => rfl
  | succ n =>
    rw [resolveWriteOrder_eq, portList_succ, portList_succ]
    simp only [if_true, Nat.add_sub_cancel]
    have hne : ∀ i : Nat, ¬ (i + 1 = 0) := by intro i; omega
    simp only [hne, if_false]
    cases hall : (List.range n).all fun i => decide ((ws (i + 1)).addr ≠ (ws 0).addr) || !(ws (i + 1)).en with
    | true => simp
    | false =>
      simp only [Bool.false_and]
      obtain ⟨i, hi, hc⟩ := List.all_eq_false.mp hall
      apply commitW_disable_shadowed
      refine ⟨ws (i + 1), List.mem_map.mpr ⟨i, hi, rfl⟩, ?_⟩
      simp at hc
      exact ⟨hc.2, hc.1⟩

/-- two enabled write ports collide -/
def Collide (a b : WIn D) : Prop := a.en = true ∧ b.en = true ∧ a.addr = b.addr

instance (a b : WIn D) : Decidable (Collide a b) := by unfold Collide; infer_instance

/-- **with two write ports** the rewritten ports never collide, so the result no longer depends on the commit order -/
theorem resolveWriteOrder_two_conflict_free (ws : Nat → WIn D) :
    ¬ Collide (resolveWriteOrder 2 ws 0) (resolveWriteOrder 2 ws 1) := by
  rw [resolveWriteOrder_eq]
  simp only [Collide, if_true]
  intro ⟨h0, h1, ha⟩
  simp [List.range_succ] at h0 h1 ha
  rcases h0.1 with h | h
  · exact h ha.symm
  · simp [h] at h1

end Gatery.C07
