/-!
# C07 — the specification: a memory is an array, ports act in declaration order

`ArrMem` is what the property statement promises: an array of words; within one clock cycle the ports act in the order
they were declared (a read declared after a write to the same address sees the new data, a later write wins); a write takes
effect only if enabled; the contents after the last port are the contents of the next cycle; a read port with declared
latency `L` delivers at cycle `t + L` the word it addressed at cycle `t`.
The promise is for addresses `< depth` (on non-power-of-two depths an out-of-range read gives undefined and an
out-of-range write wraps in the implementation: outside the statement).
-/
namespace Gatery.C07

/-- what one port does in one cycle, two-valued controls -/
inductive Op (D : Type) where
  | rd (a : Nat)
  | wr (a : Nat) (en : Bool) (d : D)

structure ArrMem (D : Type) where
  cells : List D
  deriving DecidableEq, Repr

variable {D : Type}

/-- array read; `dflt` only matters out of range -/
def ArrMem.read (dflt : D) (m : ArrMem D) (a : Nat) : D := m.cells.getD a dflt

def ArrMem.write (m : ArrMem D) (a : Nat) (en : Bool) (d : D) : ArrMem D := if en then ⟨m.cells.set a d⟩ else m

/-- the ports of one cycle in declaration order: contents afterwards and the words the read ports addressed -/
def ArrMem.ports (dflt : D) : ArrMem D → List (Op D) → ArrMem D × List D
  | m, [] => (m, [])
  | m, .rd a :: ps => let r := ArrMem.ports dflt m ps; (r.1, m.read dflt a :: r.2)
  | m, .wr a en d :: ps => ArrMem.ports dflt (m.write a en d) ps

/-- per cycle, the words addressed by the read ports -/
def ArrMem.run (dflt : D) : ArrMem D → List (List (Op D)) → List (List D)
  | _, [] => []
  | m, c :: cs => let r := ArrMem.ports dflt m c; r.2 :: ArrMem.run dflt r.1 cs

/-- contents after a number of cycles -/
def ArrMem.after (dflt : D) : ArrMem D → List (List (Op D)) → ArrMem D
  | m, [] => m
  | m, c :: cs => ArrMem.after dflt (ArrMem.ports dflt m c).1 cs

/-- what the data pins show with declared read latency `L`: `none` = not promised yet (first `L` cycles) -/
def ArrMem.observe (dflt : D) (L : Nat) (m : ArrMem D) (cs : List (List (Op D))) : List (Option (List D)) :=
  List.replicate L none ++ (ArrMem.run dflt m cs).map some

/-- the array at power-on: the declared initial contents are present iff the memory is initialised at power-on (ROMs always are,
RAMs iff the write clock's `initializeMemory` is set); an uninitialised word promises nothing (`dflt` = undefined) -/
def ArrMem.init (dflt : D) (declared : List D) (initialised : Bool) : ArrMem D :=
  ⟨if initialised then declared else List.replicate declared.length dflt⟩

/-- all addresses of a cycle are in range -/
def Op.inRange (depth : Nat) : Op D → Prop
  | .rd a => a < depth
  | .wr a _ _ => a < depth

instance (depth : Nat) (o : Op D) : Decidable (o.inRange depth) := by cases o <;> simp [Op.inRange] <;> infer_instance

end Gatery.C07
