import GateryModel.C08.Mono
/-!
# C08 — the multiplexer, `evalNode_mono`, `evalNode_compat`, and the lift to combinational netlists
-/
namespace Gatery.Nodes
open BV4

/-! ## Multiplexer -/

theorem B4.eq_of_def_val {a b : B4} (ha : a.isDef = true) (hb : b.isDef = true) (hv : a.val = b.val) : a = b := by
  cases a <;> cases b <;> simp_all [B4.isDef, B4.val]

/-- a defined merged bit is the bit of *every* data input -/
theorem mergeBit_def' {data : Ins} {b : Nat} (h : (mergeBit data b).isDef = true) :
    ∀ o, o ∈ data → optBit o b = mergeBit data b := by
  cases data with
  | nil => simp [mergeBit, B4.isDef] at h
  | cons d0 rest =>
    unfold mergeBit at h ⊢
    dsimp only at h ⊢
    by_cases hc : ((optBit d0 b).isDef && rest.all (fun o => (optBit o b).isDef && (optBit o b).val == (optBit d0 b).val)) = true
    · simp only [hc, if_true] at h ⊢
      simp only [Bool.and_eq_true, List.all_eq_true, beq_iff_eq] at hc
      intro o ho
      cases ho with
      | head => rfl
      | tail _ hmem =>
        have := hc.2 o hmem
        exact B4.eq_of_def_val this.1 hc.1 this.2
    · simp only [hc] at h
      simp [B4.isDef] at h

theorem mergeBit_def {data : Ins} {b : Nat} (h : (mergeBit data b).isDef = true) :
    ∀ o, o ∈ data → ∃ u, o = some u ∧ u.bit b = mergeBit data b := by
  intro o ho
  have := mergeBit_def' h o ho
  cases o with
  | none => rw [← this] at h; simp [optBit, B4.isDef] at h
  | some u => exact ⟨u, rfl, this⟩

theorem length_evalMux (w : Nat) (ins : Ins) : (evalMux w ins).length = w := by
  unfold evalMux
  split
  · simp
  · simp
  · split
    · split <;> simp
    · dsimp only; split
      · simp
      · exact length_copyIn _ _

theorem toNat_lt (v : BV4) : v.toNat < 2 ^ v.length := by
  induction v with
  | nil => simp [toNat]
  | cons b bs ih =>
    simp only [toNat, List.length_cons, Nat.pow_succ]
    split <;> omega

theorem insCompat_getD {a b : Ins} (h : InsCompat a b) (k : Nat) : optCompat (a.getD k none) (b.getD k none) :=
  forall₂_getD h none none trivial k

theorem mem_of_getD_some {l : Ins} {k : Nat} {u : BV4} (h : l.getD k none = some u) : some u ∈ l := by
  rw [List.getD_eq_getElem?_getD] at h
  cases hk : l[k]? with
  | none => simp [hk] at h
  | some o =>
    simp [hk] at h
    subst h
    exact List.mem_of_getElem? hk

theorem copyIn_compat (w : Nat) {a b : Option BV4} (h : optCompat a b) : compat (copyIn w a) (copyIn w b) := by
  cases a <;> cases b <;> simp_all [optCompat, copyIn]
  · exact compat_refl _
  · refine ⟨by simp, fun i => ?_⟩
    rw [bit_tab, bit_tab]
    by_cases hi : i < w <;> simp [hi, h.2 i, B4.compat_refl]

theorem eq_of_compat_of_allDef {u v : BV4} (h : compat u v) (hu : u.allDef = true) (hv : v.allDef = true) : u = v := by
  apply ext_bit h.1
  intro i hi
  exact B4.eq_of_compat_of_def (h.2 i) ((allDef_iff_bit u).mp hu i hi) ((allDef_iff_bit v).mp hv i (h.1 ▸ hi))

theorem optCompat_none_inv {o : Option BV4} (h : optCompat none o) : o = none := by
  cases o <;> simp_all [optCompat]
theorem optCompat_some_inv {u : BV4} {o : Option BV4} (h : optCompat (some u) o) : ∃ v, o = some v ∧ compat u v := by
  cases o with
  | none => exact h.elim
  | some v => exact ⟨v, rfl, h⟩


/-! ### the largest value an undefined selector may stand for -/

theorem le_cons {a b : B4} {u v : BV4} (h : (a :: u) ⊑ (b :: v)) : B4.le a b ∧ u ⊑ v := by
  refine ⟨by simpa using h.2 0, ?_, fun i => by simpa using h.2 (i + 1)⟩
  have := h.1; simp at this; exact this

theorem toNat_le_maxNat (v : BV4) : v.toNat ≤ v.maxNat := by
  induction v with
  | nil => simp [toNat, maxNat]
  | cons b bs ih => cases b <;> simp [toNat, maxNat] <;> omega

/-- refining a vector can only lower the largest value it may stand for -/
theorem maxNat_anti {u v : BV4} (h : u ⊑ v) : v.maxNat ≤ u.maxNat := by
  induction u generalizing v with
  | nil =>
    have : v = [] := List.eq_nil_of_length_eq_zero (by have := h.1; simp at this; omega)
    subst this; simp [maxNat]
  | cons a u ih =>
    cases v with
    | nil => have := h.1; simp at this
    | cons b v =>
      obtain ⟨hab, huv⟩ := le_cons h
      have := ih huv
      cases a <;> cases b <;> simp [B4.le] at hab <;> simp [maxNat] <;> omega

/-- merged (some selector bit undefined) against selected (refined selector defined and in range) -/
theorem merge_le_select (w : Nat) {data data' : Ins} (hd : InsLe data data') (s : Nat) (hs : s < data.length) :
    tab w (mergeBit data) ⊑ copyIn w (data'.getD s none) := by
  refine ⟨by simp [length_copyIn], fun i => ?_⟩
  rw [bit_tab]
  by_cases hi : i < w
  · simp only [hi, if_true]
    by_cases hdef : (mergeBit data i).isDef = true
    · have hmem : data.getD s none ∈ data := by
        rw [List.getD_eq_getElem?_getD, List.getElem?_eq_getElem hs]; simp
      obtain ⟨u, hu, hbit⟩ := mergeBit_def hdef _ hmem
      have hk := insLe_getD hd s
      rw [hu] at hk
      obtain ⟨u', hu', hle⟩ := optLe_some_inv hk
      rw [hu']
      simp only [copyIn, bit_tab, hi, if_true]
      rw [← hbit]; exact hle.2 i
    · have : mergeBit data i = .x := by cases hm : mergeBit data i <;> simp_all [B4.isDef]
      rw [this]; exact B4.x_le _
  · simp only [hi, if_false]; exact B4.x_le _

/-- merging more defined inputs gives a more defined merge -/
theorem merge_le_merge (w : Nat) {data data' : Ins} (hd : InsLe data data') :
    tab w (mergeBit data) ⊑ tab w (mergeBit data') := by
  have hlen := forall₂_length hd
  apply tab_le
  intro i _
  by_cases hdef : (mergeBit data i).isDef = true
  · -- every input of the refined list carries the same defined bit
    have hall := mergeBit_def' hdef
    have hall' : ∀ o', o' ∈ data' → optBit o' i = mergeBit data i := by
      intro o' ho'
      obtain ⟨k, hk, hget⟩ := List.getElem_of_mem ho'
      have hk2 : k < data.length := by omega
      have hle' := forall₂_getD hd none none trivial k
      rw [List.getD_eq_getElem?_getD, List.getD_eq_getElem?_getD, List.getElem?_eq_getElem hk, List.getElem?_eq_getElem hk2] at hle'
      simp only [Option.getD_some] at hle'
      have h0 := hall data[k] (List.getElem_mem hk2)
      rw [hget] at hle'
      cases hdk : data[k] with
      | none => rw [hdk] at h0; rw [← h0] at hdef; simp [optBit, B4.isDef] at hdef
      | some v =>
        rw [hdk] at hle' h0
        obtain ⟨v', rfl, hle2⟩ := optLe_some_inv hle'
        have := hle2.2 i
        simp only [optBit] at h0 ⊢
        rw [h0] at this
        exact (B4.eq_of_le_of_isDef this hdef).symm
    cases data' with
    | nil =>
      cases data with
      | nil => simp [mergeBit, B4.isDef] at hdef
      | cons _ _ => simp at hlen
    | cons d0' rest' =>
      have h0 := hall' d0' (List.mem_cons_self ..)
      have : mergeBit (d0' :: rest') i = mergeBit data i := by
        conv => lhs; unfold mergeBit
        dsimp only
        have hcond : ((optBit d0' i).isDef && rest'.all (fun o => (optBit o i).isDef && (optBit o i).val == (optBit d0' i).val)) = true := by
          simp only [Bool.and_eq_true, List.all_eq_true, beq_iff_eq]
          refine ⟨by rw [h0]; exact hdef, fun o' ho' => ?_⟩
          have := hall' o' (List.mem_cons_of_mem _ ho')
          rw [this, h0]; exact ⟨hdef, rfl⟩
        rw [if_pos hcond, h0]
      rw [this]; exact B4.le_refl _
  · have : mergeBit data i = .x := by cases hm : mergeBit data i <;> simp_all [B4.isDef]
    rw [this]; exact B4.x_le _

/-- **the multiplexer is monotone** (`Node_Multiplexer.cpp:37-137` with the range test on the largest possible selector):
    an undefined selector that may address nothing gives an undefined output, otherwise the merge of all inputs refines to
    every in-range selection and to every merge of refined inputs -/
theorem evalMux_mono (w : Nat) {a b : Ins} (h : InsLe a b) : evalMux w a ⊑ evalMux w b := by
  cases a with
  | nil => rw [forall2_nil_inv h]; exact le_refl _
  | cons s data =>
    obtain ⟨s', data', rfl, hs, hd⟩ := forall2_cons_inv h
    cases s with
    | none => rw [optLe_none_inv hs]; simp [evalMux]; exact le_refl _
    | some sel =>
      obtain ⟨sel', rfl, hsel⟩ := optLe_some_inv hs
      have hlen := forall₂_length hd
      simp only [evalMux]
      by_cases h1 : sel.allDef = true
      · have := eq_of_le_of_allDef hsel h1
        subst this
        simp only [h1, Bool.not_true, Bool.false_eq_true, if_false, hlen]
        split
        · exact le_refl _
        · exact copyIn_mono w (insLe_getD hd _)
      · simp only [h1, Bool.not_false, if_true]
        by_cases hr : sel.maxNat ≥ data.length
        · rw [if_pos hr]
          have := length_evalMux w (some sel' :: data')
          simp only [evalMux] at this
          exact undef_le this
        · rw [if_neg hr]
          have hmax := maxNat_anti hsel
          by_cases h2 : sel'.allDef = true
          · simp only [h2, Bool.not_true, Bool.false_eq_true, if_false]
            have hlt : sel'.toNat < data.length := by have := toNat_le_maxNat sel'; omega
            rw [if_neg (by omega)]
            exact merge_le_select w hd _ hlt
          · simp only [h2, Bool.not_false, if_true]
            rw [if_neg (by omega)]
            exact merge_le_merge w hd

/-- special case kept under its old name: every selector value addresses an input -/
theorem evalMux_mono_inrange (w : Nat) {sel sel' : BV4} {data data' : Ins} (hs : sel ⊑ sel') (hd : InsLe data data')
    (_hr : 2 ^ sel.length ≤ data.length) :
    evalMux w (some sel :: data) ⊑ evalMux w (some sel' :: data') :=
  evalMux_mono w (.cons hs hd)

/-! ## all node kinds -/

/-- **every core node is monotone**: more defined inputs give a result that is at least as defined and agrees on every bit
    that was already defined -/
theorem evalNode_mono (k : NodeKind) (w : Nat) {a b : Ins} (h : InsLe a b) :
    evalNode k w a ⊑ evalNode k w b := by
  cases k with
  | logic op => exact evalLogic_mono op w h
  | arith op => exact evalArith_mono op w h
  | compare op ty => exact evalCompare_mono op h
  | shift d f => exact evalShift_mono d f w h
  | rewire rs => exact evalRewire_mono rs h
  | mux => exact evalMux_mono w h
  | prio => exact evalPrio_mono w h
  | const v => exact le_refl _

/-- compatible inputs (no contradicting defined bits) give compatible outputs: both refine to the value at the join -/
theorem evalNode_compat (k : NodeKind) (w : Nat) {a b : Ins} (h : InsCompat a b) :
    compat (evalNode k w a) (evalNode k w b) :=
  compat_of_le_le (evalNode_mono k w (insLe_join_left h)) (evalNode_mono k w (insLe_join_right h))

theorem evalMux_compat (w : Nat) {a b : Ins} (h : InsCompat a b) : compat (evalMux w a) (evalMux w b) :=
  evalNode_compat .mux w h

/-- the tristate pin (`Node_Pin.cpp:52-83`) as well -/
theorem evalTristate_compat (w : Nat) {a b : Ins} (h : InsCompat a b) : compat (evalTristate w a) (evalTristate w b) :=
  compat_of_le_le (evalTristate_mono w (insLe_join_left h)) (evalTristate_mono w (insLe_join_right h))

/-! ## combinational netlists -/

abbrev ValsCompat (a b : Vals) : Prop := Forall2 optCompat a b
abbrev EnvCompat (a b : Env) : Prop := Forall2 BV4.compat a b
abbrev ValsLe (a b : Vals) : Prop := Forall2 optLe a b
abbrev EnvLe (a b : Env) : Prop := Forall2 BV4.le a b

theorem gather_compat {v v' : Vals} (h : ValsCompat v v') (ins : List (Option Nat)) :
    InsCompat (gather v ins) (gather v' ins) := by
  unfold gather
  induction ins with
  | nil => exact .nil
  | cons o t ih =>
    refine .cons ?_ ih
    cases o with
    | none => trivial
    | some j => exact forall₂_getD h none none trivial j

theorem gather_le {v v' : Vals} (h : ValsLe v v') (ins : List (Option Nat)) :
    InsLe (gather v ins) (gather v' ins) := by
  unfold gather
  induction ins with
  | nil => exact .nil
  | cons o t ih =>
    refine .cons ?_ ih
    cases o with
    | none => trivial
    | some j => exact forall₂_getD h none none trivial j

theorem evalNetNode_compat {env env' : Env} (he : EnvCompat env env') {v v' : Vals} (h : ValsCompat v v') (n : NetNode) :
    optCompat (evalNetNode env v n) (evalNetNode env' v' n) := by
  unfold evalNetNode
  cases n.kind with
  | input k => exact forall₂_getD he _ _ (compat_refl _) k
  | signal => exact forall₂_getD (gather_compat h n.ins) none none trivial 0
  | node k ty => exact evalNode_compat k n.w (gather_compat h n.ins)
  | tristate k =>
    have hg := gather_compat h n.ins
    exact evalTristate_compat n.w
      (.cons (forall₂_getD hg none none trivial 0) (.cons (forall₂_getD hg none none trivial 1)
        (.cons (forall₂_getD he _ _ (compat_refl _) k) .nil)))

theorem evalNetFrom_compat {env env' : Env} (he : EnvCompat env env') (net : List NetNode) {v v' : Vals} (h : ValsCompat v v') :
    ValsCompat (evalNetFrom env net v) (evalNetFrom env' net v') := by
  induction net generalizing v v' with
  | nil => exact h
  | cons n ns ih =>
    simp only [evalNetFrom]
    exact ih (forall₂_append h (.cons (evalNetNode_compat he h n) .nil))

theorem evalNetNode_mono {env env' : Env} (he : EnvLe env env') {v v' : Vals} (h : ValsLe v v') (n : NetNode) :
    optLe (evalNetNode env v n) (evalNetNode env' v' n) := by
  unfold evalNetNode
  cases n.kind with
  | input k => exact forall₂_getD he _ _ (le_refl _) k
  | signal => exact forall₂_getD (gather_le h n.ins) none none trivial 0
  | node k ty => exact evalNode_mono k n.w (gather_le h n.ins)
  | tristate k =>
    have hg := gather_le h n.ins
    exact evalTristate_mono n.w
      (.cons (forall₂_getD hg none none trivial 0) (.cons (forall₂_getD hg none none trivial 1)
        (.cons (forall₂_getD he _ _ (le_refl _) k) .nil)))

/-- **every combinational netlist is monotone**: refining the stimulus refines the value of every node -/
theorem evalNetFrom_mono {env env' : Env} (he : EnvLe env env') (net : List NetNode)
    {v v' : Vals} (h : ValsLe v v') : ValsLe (evalNetFrom env net v) (evalNetFrom env' net v') := by
  induction net generalizing v v' with
  | nil => exact h
  | cons n ns ih =>
    simp only [evalNetFrom]
    exact ih (forall₂_append h (.cons (evalNetNode_mono he h n) .nil))

end Gatery.Nodes
