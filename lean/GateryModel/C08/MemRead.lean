import GateryModel.C08.Compat
/-!
# C08 — the asynchronous read of a memory port (`Node_MemPort::simulateEvaluate`, read part)

`/repo/source/gatery/hlim/supportNodes/Node_MemPort.cpp:168-242`:
* read enable absent = enabled; enable `0` or undefined, or an address without state → all undefined (`:188-190`);
* address fully defined → the addressed word, all undefined beyond the memory (`:232-240`);
* address with undefined bits, `UndefinedReadAddrBehavior::EXACT` → loop over `allPossibleUndefinedValues`: a candidate beyond the memory
  makes the result all undefined (also if it is the very first one), otherwise the first candidate word is copied and every further one merged with
  `mergeUndefinedSelection` (a bit stays defined only if it is defined and equal in all candidate words); the early exit
  "nothing defined any more" does not change the result (`:206-228`);
* address with undefined bits, default behaviour → all undefined (`:229-231`).

The read is total: since `8407a61` the `EXACT` loop also terminates regularly when already the smallest candidate lies beyond
the memory (it used to trip `HCL_ASSERT(first == false)`).

Not modelled: the forwarding of pending writes of earlier write ports of the same cycle (`:244-279`); the harness stream `mem`
uses memories without write ports.  Core Lean only.
-/
namespace Gatery.Nodes
open BV4

/-- `utils::allPossibleUndefinedValues(value, defined, mask)`: every number the address may stand for -/
def candidates : BV4 → List Nat
  | [] => [0]
  | b :: bs =>
    let r := candidates bs
    match b with
    | .f => r.map (2 * ·)
    | .t => r.map (2 * · + 1)
    | .x => r.map (2 * ·) ++ r.map (2 * · + 1)

/-- word `k` of the memory contents (`state.copyRange(out, state, intOffset + k*w, w)`) -/
def memWord (w : Nat) (mem : List BV4) (k : Nat) : Option BV4 := some (tab w (mem.getD k []).bit)

/-- the optional read enable: absent = enabled; `0` and undefined disable the (asynchronous) read (`:174-179, 188`) -/
def readEnabled : Option BV4 → Bool
  | none => true
  | some e => e.bit 0 == .t

/-- the read data for an enabled port with address `a` (`:191-240`) -/
def memReadCore (exact : Bool) (w : Nat) (mem : List BV4) (a : BV4) : BV4 :=
  if a.allDef then
    (if a.toNat ≥ mem.length then undef w else tab w (mem.getD a.toNat []).bit)
  else if exact then
    (if (candidates a).any (· ≥ mem.length) then undef w else tab w (mergeBit ((candidates a).map (memWord w mem))))
  else undef w

/-- the read data of an asynchronous read port.  `exact`: `UndefinedReadAddrBehavior::EXACT`; `w`: word width;
    `mem`: the words; `en`: the optional read enable (one bit); `addr`: the address input -/
def memRead (exact : Bool) (w : Nat) (mem : List BV4) (en : Option BV4) (addr : Option BV4) : BV4 :=
  match addr with
  | none => undef w
  | some a => if readEnabled en then memReadCore exact w mem a else undef w

/-! ## facts about candidates -/

theorem candidates_ne_nil (a : BV4) : candidates a ≠ [] := by
  induction a with
  | nil => simp [candidates]
  | cons b bs ih => cases b <;> simp [candidates, ih]

/-- the value of every full concretisation of the address is a candidate -/
theorem toNat_mem_candidates {a a' : BV4} (h : a ⊑ a') (hd : a'.allDef = true) : a'.toNat ∈ candidates a := by
  induction a generalizing a' with
  | nil =>
    have : a' = [] := List.eq_nil_of_length_eq_zero (by have := h.1; simp at this; omega)
    subst this; simp [candidates, toNat]
  | cons b bs ih =>
    cases a' with
    | nil => have := h.1; simp at this
    | cons b' bs' =>
      obtain ⟨hb, hbs⟩ := le_cons h
      simp only [allDef, List.all_cons, Bool.and_eq_true] at hd
      have := ih hbs hd.2
      have hd1 := hd.1
      cases b <;> cases b' <;> simp [B4.le, B4.isDef] at hb hd1 <;>
        simp only [candidates, toNat, List.mem_map, List.mem_append, reduceCtorEq, if_false, if_true]
      · exact ⟨_, this, by omega⟩
      · exact ⟨_, this, by omega⟩
      · exact Or.inl ⟨_, this, by omega⟩
      · exact Or.inr ⟨_, this, by omega⟩

/-- refining the address can only remove candidates -/
theorem candidates_subset {a a' : BV4} (h : a ⊑ a') : ∀ k, k ∈ candidates a' → k ∈ candidates a := by
  induction a generalizing a' with
  | nil =>
    have : a' = [] := List.eq_nil_of_length_eq_zero (by have := h.1; simp at this; omega)
    subst this; intro k hk; exact hk
  | cons b bs ih =>
    cases a' with
    | nil => have := h.1; simp at this
    | cons b' bs' =>
      obtain ⟨hb, hbs⟩ := le_cons h
      have := ih hbs
      intro k hk
      cases b <;> cases b' <;> simp [B4.le] at hb <;>
        simp only [candidates, List.mem_map, List.mem_append] at hk ⊢
      · obtain ⟨j, hj, rfl⟩ := hk; exact ⟨j, this j hj, rfl⟩
      · obtain ⟨j, hj, rfl⟩ := hk; exact ⟨j, this j hj, rfl⟩
      · obtain ⟨j, hj, rfl⟩ := hk; exact Or.inl ⟨j, this j hj, rfl⟩
      · obtain ⟨j, hj, rfl⟩ := hk; exact Or.inr ⟨j, this j hj, rfl⟩
      · rcases hk with ⟨j, hj, rfl⟩ | ⟨j, hj, rfl⟩
        · exact Or.inl ⟨j, this j hj, rfl⟩
        · exact Or.inr ⟨j, this j hj, rfl⟩

/-- a merge over a non-empty list whose elements all carry the same defined bit is that bit -/
theorem mergeBit_eq_of_all {data : Ins} {i : Nat} {v : B4} (hne : data ≠ []) (hv : v.isDef = true)
    (h : ∀ o, o ∈ data → optBit o i = v) : mergeBit data i = v := by
  cases data with
  | nil => exact absurd rfl hne
  | cons d0 rest =>
    have h0 := h d0 (List.mem_cons_self ..)
    unfold mergeBit
    dsimp only
    have hcond : ((optBit d0 i).isDef && rest.all (fun o => (optBit o i).isDef && (optBit o i).val == (optBit d0 i).val)) = true := by
      simp only [Bool.and_eq_true, List.all_eq_true, beq_iff_eq]
      refine ⟨by rw [h0]; exact hv, fun o ho => ?_⟩
      have := h o (List.mem_cons_of_mem _ ho)
      rw [this, h0]; exact ⟨hv, rfl⟩
    rw [if_pos hcond, h0]

theorem length_memReadCore (exact : Bool) (w : Nat) (mem : List BV4) (a : BV4) : (memReadCore exact w mem a).length = w := by
  unfold memReadCore
  split
  · split <;> simp
  · split
    · split <;> simp
    · simp

theorem length_memRead (exact : Bool) (w : Nat) (mem : List BV4) (en addr : Option BV4) :
    (memRead exact w mem en addr).length = w := by
  unfold memRead
  split
  · simp
  · split
    · exact length_memReadCore _ _ _ _
    · simp

theorem readEnabled_mono {en en' : Option BV4} (he : optLe en en') (h : readEnabled en = true) : readEnabled en' = true := by
  cases en with
  | none => rw [optLe_none_inv he]; rfl
  | some e =>
    obtain ⟨e', rfl, hee⟩ := optLe_some_inv he
    have hb := hee.2 0
    simp only [readEnabled, beq_iff_eq] at h ⊢
    rw [h] at hb
    simpa [B4.le, eq_comm] using hb

/-- the contents of two memories, word by word -/
abbrev MemLe (m m' : List BV4) : Prop := Forall2 BV4.le m m'

theorem memLe_getD {m m' : List BV4} (h : MemLe m m') (k : Nat) : (m.getD k []) ⊑ (m'.getD k []) :=
  forall₂_getD h [] [] (le_refl _) k

theorem memReadCore_mono (exact : Bool) (w : Nat) {mem mem' : List BV4} {a a' : BV4} (hm : MemLe mem mem') (hle : a ⊑ a') :
    memReadCore exact w mem a ⊑ memReadCore exact w mem' a' := by
  have hlen := forall₂_length hm
  unfold memReadCore
  by_cases hd : a.allDef = true
  · have := eq_of_le_of_allDef hle hd
    subst this
    simp only [hd, if_true, hlen]
    split
    · exact le_refl _
    · exact tab_le fun i _ => (memLe_getD hm _).2 i
  · simp only [hd, Bool.false_eq_true, if_false]
    have hlen' := length_memReadCore exact w mem' a'
    unfold memReadCore at hlen'
    cases exact with
    | false => simp only [Bool.false_eq_true, if_false] at hlen' ⊢; exact undef_le hlen'
    | true =>
      simp only [if_true] at hlen' ⊢
      by_cases hoob : (candidates a).any (· ≥ mem.length) = true
      · rw [if_pos hoob]; exact undef_le hlen'
      · rw [if_neg hoob]
        have hin : ∀ k, k ∈ candidates a → k < mem.length := by
          intro k hk
          simp only [List.any_eq_true, decide_eq_true_eq, not_exists, not_and] at hoob
          have := hoob k hk; omega
        -- a defined merged bit is the bit of every candidate word
        have hbit : ∀ i, (mergeBit ((candidates a).map (memWord w mem)) i).isDef = true → ∀ k, k ∈ candidates a →
            (tab w (mem.getD k []).bit).bit i = mergeBit ((candidates a).map (memWord w mem)) i := by
          intro i hdef k hk
          have := mergeBit_def' hdef (memWord w mem k) (List.mem_map.mpr ⟨k, hk, rfl⟩)
          simpa [memWord, optBit] using this
        by_cases hd' : a'.allDef = true
        · -- the refined address is fully defined: one of the candidates, in range
          have hk := toNat_mem_candidates hle hd'
          simp only [hd', if_true]
          rw [if_neg (by have := hin _ hk; omega)]
          refine ⟨by simp, fun i => ?_⟩
          rw [bit_tab]
          by_cases hi : i < w
          · simp only [hi, if_true]
            by_cases hdef : (mergeBit ((candidates a).map (memWord w mem)) i).isDef = true
            · rw [← hbit i hdef _ hk, bit_tab, bit_tab, if_pos hi, if_pos hi]
              exact (memLe_getD hm _).2 i
            · have : mergeBit ((candidates a).map (memWord w mem)) i = .x := by
                cases hmm : mergeBit ((candidates a).map (memWord w mem)) i <;> simp_all [B4.isDef]
              rw [this]; exact B4.x_le _
          · simp only [hi, if_false]; exact B4.x_le _
        · -- still undefined bits: fewer candidates, all in range, more defined words
          simp only [hd', Bool.false_eq_true, if_false]
          have hsub := candidates_subset hle
          have hoob' : ¬ ((candidates a').any (· ≥ mem'.length) = true) := by
            simp only [List.any_eq_true, decide_eq_true_eq, not_exists, not_and]
            intro k hk
            have := hin k (hsub k hk); omega
          rw [if_neg hoob']
          apply tab_le
          intro i hi
          by_cases hdef : (mergeBit ((candidates a).map (memWord w mem)) i).isDef = true
          · have : mergeBit ((candidates a').map (memWord w mem')) i = mergeBit ((candidates a).map (memWord w mem)) i := by
              apply mergeBit_eq_of_all (by simp [candidates_ne_nil]) hdef
              intro o ho
              obtain ⟨k, hk, rfl⟩ := List.mem_map.mp ho
              have h1 := hbit i hdef k (hsub k hk)
              simp only [memWord, optBit, bit_tab, if_pos hi] at h1 ⊢
              have h2 := (memLe_getD hm k).2 i
              rw [h1] at h2
              exact (B4.eq_of_le_of_isDef h2 hdef).symm
            rw [this]; exact B4.le_refl _
          · have : mergeBit ((candidates a).map (memWord w mem)) i = .x := by
              cases hmm : mergeBit ((candidates a).map (memWord w mem)) i <;> simp_all [B4.isDef]
            rw [this]; exact B4.x_le _

/-- **the asynchronous memory read is monotone** in the address, the contents and the enable — for every memory size (also
    not a power of two), word width, address width and both undefined-address behaviours -/
theorem memRead_mono (exact : Bool) (w : Nat) {mem mem' : List BV4} {en en' addr addr' : Option BV4}
    (hm : MemLe mem mem') (he : optLe en en') (ha : optLe addr addr') :
    memRead exact w mem en addr ⊑ memRead exact w mem' en' addr' := by
  cases addr with
  | none => rw [optLe_none_inv ha]; simp [memRead]; exact le_refl _
  | some a =>
    obtain ⟨a', rfl, hle⟩ := optLe_some_inv ha
    unfold memRead
    by_cases h : readEnabled en = true
    · simp only [h, readEnabled_mono he h, if_true]
      exact memReadCore_mono exact w hm hle
    · simp only [h, Bool.false_eq_true, if_false]
      split
      · exact undef_le (length_memReadCore _ _ _ _)
      · exact le_refl _

end Gatery.Nodes
