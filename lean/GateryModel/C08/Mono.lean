import GateryModel.C08.Order
/-!
# C08 — every core node is monotone in the refinement order (the multiplexer: compatible)

`ins ⊑ ins' → evalNode k w ins ⊑ evalNode k w ins'` for Logic, Arithmetic, Compare, Shift, Rewire,
PriorityConditional, Constant — case by case over the definedness rules of `Nodes.lean`.

`Node_Multiplexer` is **not** monotone in general: with an undefined selector bit it merges *all* data inputs
(`Node_Multiplexer.cpp:49-87`), with a defined out-of-range selector it yields undefined (`:96-99`); so
`sel = x1`, three equal inputs `1` gives `1`, the concretisation `sel = 11` gives `x`.  It is monotone when every
selector value is in range, and it always preserves *compatibility*, which is what the property needs.
-/
namespace Gatery.Nodes
open BV4

/-! ## Logic -/

theorem logicBit_mono (op : LogicOp) {l l' r r' : B4} (hl : B4.le l l') (hr : B4.le r r') :
    B4.le (logicBit op l r) (logicBit op l' r') := by
  cases op <;> cases l <;> cases l' <;> cases r <;> cases r' <;>
    first
    | (simp [B4.le] at hl; done)
    | (simp [B4.le] at hr; done)
    | decide

theorem evalLogic_mono (op : LogicOp) (w : Nat) {a b : Ins} (h : InsLe a b) : evalLogic op w a ⊑ evalLogic op w b := by
  unfold evalLogic
  apply tab_le
  intro i _
  apply logicBit_mono
  · exact inBit_le h 0 i
  · by_cases hn : op = .NOT
    · simp [hn, B4.le_refl]
    · simp [hn]; exact inBit_le h 1 i

/-! ## all-or-nothing nodes: Arithmetic, Compare -/

theorem inDefined_eq {a b : Option BV4} (h : optLe a b) (hd : inDefined a = true) : a = b := by
  cases a <;> cases b <;> simp_all [optLe, inDefined]
  exact eq_of_le_of_allDef h hd

theorem ins_eq_of_all_defined {a b : Ins} (h : InsLe a b) (hd : a.all inDefined = true) : a = b := by
  induction h with
  | nil => rfl
  | cons hab _ ih =>
    simp only [List.all_cons, Bool.and_eq_true] at hd
    rw [inDefined_eq hab hd.1, ih hd.2]

@[simp] theorem length_ofNat (w n : Nat) : (ofNat w n).length = w := by
  induction w generalizing n with
  | zero => rfl
  | succ k ih => simp [ofNat, ih]

@[simp] theorem length_ofInt (w : Nat) (z : Int) : (ofInt w z).length = w := by simp [ofInt]

theorem length_evalArith (op : ArithOp) (w : Nat) (ins : Ins) : (evalArith op w ins).length = w := by
  unfold evalArith
  split
  · split
    · simp
    · split
      · dsimp only; split <;> simp
      · dsimp only; split <;> simp
  · simp

theorem evalArith_mono (op : ArithOp) (w : Nat) {a b : Ins} (h : InsLe a b) : evalArith op w a ⊑ evalArith op w b := by
  by_cases hd : a.all inDefined = true
  · rw [ins_eq_of_all_defined h hd]; exact le_refl _
  · have : evalArith op w a = undef w := by simp [evalArith, hd]
    rw [this]
    exact undef_le (length_evalArith op w b)

theorem length_evalCompare (op : CmpOp) (ins : Ins) : (evalCompare op ins).length = 1 := by
  unfold evalCompare
  split
  · split
    · simp
    · split <;> simp
  · simp

theorem evalCompare_mono (op : CmpOp) {a b : Ins} (h : InsLe a b) : evalCompare op a ⊑ evalCompare op b := by
  -- the inputs are `[some u, some v]` on both sides or the result is `[x]` on the left
  by_cases hshape : ∃ u v, a = [some u, some v]
  · obtain ⟨u, v, rfl⟩ := hshape
    cases h with
    | cons h1 h2 =>
      cases h2 with
      | cons h3 h4 =>
        cases h4
        rename_i o1 o2
        cases o1 <;> cases o2 <;> simp [optLe] at h1 h3
        rename_i u' v'
        have hl1 := h1.1; have hl2 := h3.1
        simp only [evalCompare]
        by_cases hz : u.length = 0 ∧ v.length = 0
        · have hz' : u'.length = 0 ∧ v'.length = 0 := by omega
          simp [hz, hz']
          exact le_refl _
        · have hz' : ¬ (u'.length = 0 ∧ v'.length = 0) := by omega
          simp only [hz, hz', if_false]
          by_cases hd : (u.allDef && v.allDef) = true
          · simp only [Bool.and_eq_true] at hd
            rw [← eq_of_le_of_allDef h1 hd.1, ← eq_of_le_of_allDef h3 hd.2]
            exact le_refl _
          · simp only [hd]
            apply undef_le (w := 1)
            split <;> simp
  · have : evalCompare op a = [.x] := by
      unfold evalCompare
      split
      · rename_i u v
        exact absurd ⟨u, v, rfl⟩ hshape
      · rfl
    rw [this]
    exact undef_le (w := 1) (length_evalCompare op b)

/-! ## Shift -/

theorem length_evalShift (d : Dir) (f : Fill) (w : Nat) (ins : Ins) : (evalShift d f w ins).length = w := by
  unfold evalShift
  split
  · simp
  · split
    · simp
    · simp only []
      split
      · simp
      · split <;> simp

theorem shiftFill_mono (d : Dir) (f : Fill) (w : Nat) {a b : Ins} (h : InsLe a b) :
    B4.le (shiftFill d f w a) (shiftFill d f w b) := by
  unfold shiftFill
  cases f <;> simp [B4.le_refl]
  split
  · exact B4.le_refl _
  · cases d <;> simp [inBit_le h]

theorem evalShift_mono (d : Dir) (f : Fill) (w : Nat) {a b : Ins} (h : InsLe a b) :
    evalShift d f w a ⊑ evalShift d f w b := by
  have hamt := insLe_getD h 1
  unfold evalShift
  cases ha : a.getD 1 none with
  | none =>
    simp only []
    exact undef_le (by have := length_evalShift d f w b; unfold evalShift at this; exact this)
  | some amt =>
    cases hb : b.getD 1 none with
    | none => rw [ha, hb] at hamt; exact hamt.elim
    | some amt' =>
      rw [ha, hb] at hamt
      have hamt : amt ⊑ amt' := hamt
      simp only []
      by_cases hd : amt.allDef = true
      · have heq := eq_of_le_of_allDef hamt hd
        subst heq
        simp only [hd, Bool.not_true, Bool.false_eq_true, if_false]
        split
        · exact replicate_le (shiftFill_mono d f w h)
        · cases d
          · simp only []
            apply tab_le; intro i _
            split
            · split
              · exact inBit_le h 0 _
              · exact shiftFill_mono _ f w h
            · exact inBit_le h 0 _
          · simp only []
            apply tab_le; intro i _
            split
            · exact inBit_le h 0 _
            · split
              · exact inBit_le h 0 _
              · exact shiftFill_mono _ f w h
      · simp only [hd, Bool.not_false, if_true]
        have := length_evalShift d f w b
        unfold evalShift at this
        simp only [hb] at this
        exact undef_le this

/-! ## Rewire -/

theorem evalRange_mono (r : Range) {a b : Ins} (h : InsLe a b) : evalRange a r ⊑ evalRange b r := by
  unfold evalRange
  cases r.src with
  | input idx off => exact tab_le fun i _ => inBit_le h idx _
  | zero => exact le_refl _
  | one => exact le_refl _
  | undef => exact le_refl _

theorem evalRewire_mono (rs : List Range) {a b : Ins} (h : InsLe a b) : evalRewire rs a ⊑ evalRewire rs b := by
  unfold evalRewire
  induction rs with
  | nil => exact le_refl _
  | cons r t ih => simp only [List.flatMap_cons]; exact append_le (evalRange_mono r h) ih

/-! ## PriorityConditional -/

theorem length_copyIn (w : Nat) (o : Option BV4) : (copyIn w o).length = w := by cases o <;> simp [copyIn]

theorem copyIn_mono (w : Nat) {a b : Option BV4} (h : optLe a b) : copyIn w a ⊑ copyIn w b := by
  cases a <;> cases b <;> simp_all [optLe, copyIn]
  · exact le_refl _
  · exact tab_le fun i _ => h.2 i

theorem length_prioGo (w : Nat) (d : Option BV4) (l : Ins) : (prioGo w d l).length = w := by
  induction l using prioGo.induct <;> simp_all [prioGo, length_copyIn]

theorem forall2_cons_inv {α β : Type} {R : α → β → Prop} {a : α} {l : List α} {m : List β} (h : Forall2 R (a :: l) m) :
    ∃ b l', m = b :: l' ∧ R a b ∧ Forall2 R l l' := by
  cases h with
  | cons h1 h2 => exact ⟨_, _, rfl, h1, h2⟩

theorem forall2_nil_inv {α β : Type} {R : α → β → Prop} {m : List β} (h : Forall2 R ([] : List α) m) : m = [] := by
  cases h; rfl

theorem optLe_none_inv {o : Option BV4} (h : optLe none o) : o = none := by
  cases o <;> simp_all [optLe]
theorem optLe_some_inv {u : BV4} {o : Option BV4} (h : optLe (some u) o) : ∃ v, o = some v ∧ u ⊑ v := by
  cases o with
  | none => exact h.elim
  | some v => exact ⟨v, rfl, h⟩

theorem prioGo_mono (w : Nat) {d d' : Option BV4} (hd : optLe d d') {a b : Ins} (h : InsLe a b) :
    prioGo w d a ⊑ prioGo w d' b := by
  induction a using prioGo.induct generalizing b with
  | case1 v rest =>      -- condition without state
    obtain ⟨c', m, rfl, h1, h2⟩ := forall2_cons_inv h
    obtain ⟨v', rest', rfl, _, _⟩ := forall2_cons_inv h2
    rw [optLe_none_inv h1]
    simp [prioGo]; exact le_refl _
  | case2 v rest cb hx =>   -- condition undefined
    simp only [prioGo, hx]
    exact undef_le (length_prioGo w d' _)
  | case3 v rest cb ht =>   -- condition 1
    obtain ⟨c', m, rfl, h1, h2⟩ := forall2_cons_inv h
    obtain ⟨v', rest', rfl, h3, _⟩ := forall2_cons_inv h2
    obtain ⟨cb', rfl, hc⟩ := optLe_some_inv h1
    have : cb'.bit 0 = .t := by
      have := hc.2 0; rw [ht] at this; simpa [B4.le, eq_comm] using this
    simp only [prioGo, ht, this]
    exact copyIn_mono w h3
  | case4 v rest cb hf ih =>   -- condition 0
    obtain ⟨c', m, rfl, h1, h2⟩ := forall2_cons_inv h
    obtain ⟨v', rest', rfl, h3, h4⟩ := forall2_cons_inv h2
    obtain ⟨cb', rfl, hc⟩ := optLe_some_inv h1
    have : cb'.bit 0 = .f := by
      have := hc.2 0; rw [hf] at this; simpa [B4.le, eq_comm] using this
    simp only [prioGo, hf, this]
    exact ih h4
  | case5 l hl =>        -- fewer than two entries left: the default
    have : prioGo w d l = copyIn w d := by
      unfold prioGo
      split
      · rename_i c v rest; exact absurd rfl (hl c v rest)
      · rfl
    rw [this]
    have hb : prioGo w d' b = copyIn w d' := by
      unfold prioGo
      split
      · rename_i c v rest
        cases h with
        | cons h1 h2 =>
          cases h2 with
          | cons h3 h4 => exact absurd rfl (hl _ _ _)
      · rfl
    rw [hb]
    exact copyIn_mono w hd

/-! ## tristate pin -/

theorem length_evalTristate (w : Nat) (ins : Ins) : (evalTristate w ins).length = w := by
  unfold evalTristate
  split
  · exact length_copyIn _ _
  · split
    · simp
    · exact length_copyIn _ _
    · exact length_copyIn _ _

/-- an undefined output enable gives an undefined read-back; a defined one selects the driven data or the external value -/
theorem evalTristate_mono (w : Nat) {a b : Ins} (h : InsLe a b) : evalTristate w a ⊑ evalTristate w b := by
  have h0 := insLe_getD h 0
  have h1 := insLe_getD h 1
  have h2 := insLe_getD h 2
  unfold evalTristate
  cases ha : a.getD 1 none with
  | none =>
    rw [ha] at h1
    rw [optLe_none_inv h1]
    exact copyIn_mono w h0
  | some en =>
    rw [ha] at h1
    obtain ⟨en', hb, hle⟩ := optLe_some_inv h1
    rw [hb]
    simp only []
    have hbit := hle.2 0
    cases he : en.bit 0 with
    | x =>
      simp only []
      have := length_evalTristate w b
      unfold evalTristate at this
      rw [hb] at this
      exact undef_le this
    | t =>
      rw [he] at hbit
      have : en'.bit 0 = .t := by simpa [B4.le, eq_comm] using hbit
      rw [this]
      exact copyIn_mono w h0
    | f =>
      rw [he] at hbit
      have : en'.bit 0 = .f := by simpa [B4.le, eq_comm] using hbit
      rw [this]
      exact copyIn_mono w h2

theorem evalPrio_mono (w : Nat) {a b : Ins} (h : InsLe a b) : evalPrio w a ⊑ evalPrio w b := by
  unfold evalPrio
  cases h with
  | nil => exact le_refl _
  | cons h1 h2 => exact prioGo_mono w h1 h2

end Gatery.Nodes
