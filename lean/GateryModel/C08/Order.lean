import GateryModel.Nodes.Netlist
/-!
# C08 — the refinement order and the compatibility relation on bits, vectors, inputs, value lists

`a ⊑ b`  : `b` is at least as defined as `a` and agrees with it on the defined bits.
`compat` : no bit is defined in both with different values (⇔ a common refinement exists).
-/
namespace Gatery.Nodes
open BV4

namespace B4

theorem le_refl (a : B4) : le a a := Or.inr rfl
theorem x_le (a : B4) : le .x a := Or.inl rfl
theorem le_trans {a b c : B4} (h1 : le a b) (h2 : le b c) : le a c := by
  cases a <;> cases b <;> cases c <;> simp_all [le]
theorem eq_of_le_of_isDef {a b : B4} (h : le a b) (hd : a.isDef = true) : a = b := by
  cases a <;> cases b <;> simp_all [le, isDef]
theorem isDef_of_le {a b : B4} (h : le a b) (hd : a.isDef = true) : b.isDef = true := by
  cases a <;> cases b <;> simp_all [le, isDef]

theorem compat_refl (a : B4) : compat a a := Or.inr (Or.inr rfl)
theorem compat_symm {a b : B4} (h : compat a b) : compat b a := by
  cases a <;> cases b <;> simp_all [compat]
theorem compat_of_le {a b : B4} (h : le a b) : compat a b := by
  cases a <;> cases b <;> simp_all [compat, le]
theorem compat_of_le_le {a b m : B4} (h1 : le a m) (h2 : le b m) : compat a b := by
  cases a <;> cases b <;> cases m <;> simp_all [compat, le]
theorem compat_x_left (a : B4) : compat .x a := Or.inl rfl
theorem compat_x_right (a : B4) : compat a .x := Or.inr (Or.inl rfl)
/-- the property in its plainest form: two compatible defined bits are equal -/
theorem eq_of_compat_of_def {a b : B4} (h : compat a b) (ha : a.isDef = true) (hb : b.isDef = true) : a = b := by
  cases a <;> cases b <;> simp_all [compat, isDef]

/-- least common refinement of two compatible bits -/
def join (a b : B4) : B4 := if a = .x then b else a
theorem le_join_left {a b : B4} (_h : compat a b) : le a (join a b) := by
  cases a <;> cases b <;> simp_all [le, join]
theorem le_join_right {a b : B4} (h : compat a b) : le b (join a b) := by
  cases a <;> cases b <;> simp_all [compat, le, join]

end B4

namespace BV4

@[simp] theorem bit_nil (i : Nat) : bit [] i = .x := by simp [bit]
@[simp] theorem bit_cons_zero (b : B4) (v : BV4) : bit (b :: v) 0 = b := by simp [bit]
@[simp] theorem bit_cons_succ (b : B4) (v : BV4) (i : Nat) : bit (b :: v) (i+1) = bit v i := by simp [bit]
theorem bit_of_ge (v : BV4) (i : Nat) (h : v.length ≤ i) : v.bit i = .x := by
  simp [bit, List.getD_eq_getElem?_getD, List.getElem?_eq_none h]
theorem bit_of_lt (v : BV4) (i : Nat) (h : i < v.length) : v.bit i = v[i] := by
  simp [bit, List.getD_eq_getElem?_getD, List.getElem?_eq_getElem h]

@[simp] theorem length_tab (w : Nat) (f : Nat → B4) : (tab w f).length = w := by simp [tab]
theorem bit_tab (w : Nat) (f : Nat → B4) (i : Nat) : (tab w f).bit i = if i < w then f i else .x := by
  by_cases h : i < w
  · simp [bit, tab, List.getD_eq_getElem?_getD, h]
  · simp [bit, tab, List.getD_eq_getElem?_getD, h]
@[simp] theorem length_undef (w : Nat) : (undef w).length = w := by simp [undef]
theorem bit_replicate (w : Nat) (b : B4) (i : Nat) : bit (List.replicate w b) i = if i < w then b else .x := by
  by_cases h : i < w
  · simp [bit, List.getD_eq_getElem?_getD, h, List.getElem?_replicate]
  · simp [bit, List.getD_eq_getElem?_getD, h, List.getElem?_replicate]
@[simp] theorem bit_undef (w i : Nat) : (undef w).bit i = .x := by
  simp [undef, bit_replicate]
theorem bit_append (u v : BV4) (i : Nat) : (u ++ v).bit i = if i < u.length then u.bit i else v.bit (i - u.length) := by
  by_cases h : i < u.length
  · simp [bit, List.getD_eq_getElem?_getD, h, List.getElem?_append_left]
  · simp [bit, List.getD_eq_getElem?_getD, h, List.getElem?_append_right (Nat.le_of_not_lt h)]

/-- extensionality through `bit` -/
theorem ext_bit {u v : BV4} (hl : u.length = v.length) (h : ∀ i, i < u.length → u.bit i = v.bit i) : u = v := by
  apply List.ext_getElem hl
  intro i h1 h2
  have := h i h1
  rw [bit_of_lt u i h1, bit_of_lt v i h2] at this
  exact this

theorem tab_bit_self (v : BV4) : tab v.length v.bit = v := by
  apply ext_bit (by simp)
  intro i hi
  rw [bit_tab]; simp at hi; simp [hi]

theorem le_refl (u : BV4) : u ⊑ u := ⟨rfl, fun _ => B4.le_refl _⟩
theorem le_trans {u v z : BV4} (h1 : u ⊑ v) (h2 : v ⊑ z) : u ⊑ z :=
  ⟨h1.1.trans h2.1, fun i => B4.le_trans (h1.2 i) (h2.2 i)⟩
theorem undef_le {v : BV4} {w : Nat} (h : v.length = w) : undef w ⊑ v :=
  ⟨by simp [h], fun i => by simp [B4.x_le]⟩
theorem tab_le {w : Nat} {f g : Nat → B4} (h : ∀ i, i < w → B4.le (f i) (g i)) : tab w f ⊑ tab w g := by
  refine ⟨by simp, fun i => ?_⟩
  rw [bit_tab, bit_tab]
  by_cases hi : i < w
  · simp [hi, h i hi]
  · simp [hi, B4.le_refl]
theorem replicate_le {w : Nat} {a b : B4} (h : B4.le a b) : List.replicate w a ⊑ List.replicate w b := by
  refine ⟨by simp, fun i => ?_⟩
  rw [bit_replicate, bit_replicate]
  by_cases hi : i < w <;> simp [hi, h, B4.le_refl]
theorem append_le {u u' v v' : BV4} (h1 : u ⊑ u') (h2 : v ⊑ v') : (u ++ v) ⊑ (u' ++ v') := by
  refine ⟨by simp [h1.1, h2.1], fun i => ?_⟩
  rw [bit_append, bit_append, ← h1.1]
  by_cases hi : i < u.length
  · simp [hi, h1.2 i]
  · simp [hi, h2.2 _]

theorem allDef_iff_bit (u : BV4) : u.allDef = true ↔ ∀ i, i < u.length → (u.bit i).isDef = true := by
  induction u with
  | nil => simp [allDef]
  | cons b bs ih =>
    simp only [allDef, List.all_cons, Bool.and_eq_true, List.length_cons] at *
    constructor
    · intro ⟨hb, hbs⟩ i hi
      cases i with
      | zero => simpa using hb
      | succ j => simpa using (ih.mp hbs) j (by omega)
    · intro h
      refine ⟨by simpa using h 0 (by omega), ih.mpr fun i hi => ?_⟩
      simpa using h (i+1) (by omega)

theorem eq_of_le_of_allDef {u v : BV4} (h : u ⊑ v) (hd : u.allDef = true) : u = v := by
  apply ext_bit h.1
  intro i hi
  exact B4.eq_of_le_of_isDef (h.2 i) ((allDef_iff_bit u).mp hd i hi)

theorem allDef_of_le {u v : BV4} (h : u ⊑ v) (hd : u.allDef = true) : v.allDef = true := by
  rw [← eq_of_le_of_allDef h hd]; exact hd

theorem compat_refl (u : BV4) : compat u u := ⟨rfl, fun _ => B4.compat_refl _⟩
theorem compat_symm {u v : BV4} (h : compat u v) : compat v u := ⟨h.1.symm, fun i => B4.compat_symm (h.2 i)⟩
theorem compat_of_le {u v : BV4} (h : u ⊑ v) : compat u v := ⟨h.1, fun i => B4.compat_of_le (h.2 i)⟩
theorem compat_of_le_le {u v m : BV4} (h1 : u ⊑ m) (h2 : v ⊑ m) : compat u v :=
  ⟨h1.1.trans h2.1.symm, fun i => B4.compat_of_le_le (h1.2 i) (h2.2 i)⟩
theorem compat_undef_left {v : BV4} {w : Nat} (h : v.length = w) : compat (undef w) v :=
  compat_of_le (undef_le h)
theorem compat_undef_right {v : BV4} {w : Nat} (h : v.length = w) : compat v (undef w) :=
  compat_symm (compat_undef_left h)

def join (u v : BV4) : BV4 := tab u.length fun i => B4.join (u.bit i) (v.bit i)
theorem le_join_left {u v : BV4} (h : compat u v) : u ⊑ join u v := by
  refine ⟨by simp [join], fun i => ?_⟩
  simp only [join, bit_tab]
  by_cases hi : i < u.length
  · simp [hi, B4.le_join_left (h.2 i)]
  · simp [hi, bit_of_ge u i (Nat.le_of_not_lt hi), B4.le_refl]
theorem le_join_right {u v : BV4} (h : compat u v) : v ⊑ join u v := by
  refine ⟨by simp [join, h.1], fun i => ?_⟩
  simp only [join, bit_tab]
  by_cases hi : i < u.length
  · simp [hi, B4.le_join_right (h.2 i)]
  · simp [hi, bit_of_ge v i (by have := h.1; omega), B4.le_refl]

end BV4

/-! ## inputs of a node and value lists of a netlist -/

/-- two lists related element by element (core Lean has no `Forall2`) -/
inductive Forall2 {α β : Type} (R : α → β → Prop) : List α → List β → Prop
  | nil : Forall2 R [] []
  | cons {a b l l'} : R a b → Forall2 R l l' → Forall2 R (a :: l) (b :: l')

def optLe : Option BV4 → Option BV4 → Prop
  | none, none => True
  | some u, some v => u ⊑ v
  | _, _ => False

def optCompat : Option BV4 → Option BV4 → Prop
  | none, none => True
  | some u, some v => BV4.compat u v
  | _, _ => False

/-- pointwise refinement of the inputs of a node (same connectivity) -/
abbrev InsLe (a b : Ins) : Prop := Forall2 optLe a b
abbrev InsCompat (a b : Ins) : Prop := Forall2 optCompat a b

theorem optLe_refl (o : Option BV4) : optLe o o := by cases o <;> simp [optLe, BV4.le_refl]
theorem optCompat_refl (o : Option BV4) : optCompat o o := by cases o <;> simp [optCompat, BV4.compat_refl]
theorem optCompat_symm {a b : Option BV4} (h : optCompat a b) : optCompat b a := by
  cases a <;> cases b <;> simp_all [optCompat]
  exact BV4.compat_symm h
theorem optCompat_of_le {a b : Option BV4} (h : optLe a b) : optCompat a b := by
  cases a <;> cases b <;> simp_all [optCompat, optLe]
  exact BV4.compat_of_le h

def optJoin : Option BV4 → Option BV4 → Option BV4
  | some u, some v => some (BV4.join u v)
  | a, _ => a

theorem optLe_join_left {a b : Option BV4} (h : optCompat a b) : optLe a (optJoin a b) := by
  cases a <;> cases b <;> simp_all [optCompat, optLe, optJoin]
  exact BV4.le_join_left h
theorem optLe_join_right {a b : Option BV4} (h : optCompat a b) : optLe b (optJoin a b) := by
  cases a <;> cases b <;> simp_all [optCompat, optLe, optJoin]
  exact BV4.le_join_right h

section forall2
variable {α β : Type} {R : α → β → Prop}

theorem forall₂_length {l : List α} {l' : List β} (h : Forall2 R l l') : l.length = l'.length := by
  induction h with
  | nil => rfl
  | cons _ _ ih => simp [ih]

theorem forall₂_getD {l : List α} {l' : List β} (h : Forall2 R l l') (d : α) (d' : β) (hd : R d d') (k : Nat) :
    R (l.getD k d) (l'.getD k d') := by
  induction h generalizing k with
  | nil => simpa using hd
  | cons hab _ ih =>
    cases k with
    | zero => simpa using hab
    | succ j => simpa using ih j

theorem forall₂_append {a b : List α} {a' b' : List β} (h1 : Forall2 R a a') (h2 : Forall2 R b b') :
    Forall2 R (a ++ b) (a' ++ b') := by
  induction h1 with
  | nil => simpa using h2
  | cons hab _ ih => exact Forall2.cons hab ih

theorem forall₂_refl {R : α → α → Prop} (hr : ∀ a, R a a) (l : List α) : Forall2 R l l := by
  induction l with
  | nil => exact .nil
  | cons a t ih => exact .cons (hr a) ih

theorem forall₂_map {γ δ : Type} {S : γ → δ → Prop} {l : List α} {l' : List β} (f : α → γ) (g : β → δ)
    (h : Forall2 R l l') (hf : ∀ a b, R a b → S (f a) (g b)) : Forall2 S (l.map f) (l'.map g) := by
  induction h with
  | nil => exact .nil
  | cons hab _ ih => exact .cons (hf _ _ hab) ih

theorem forall₂_zip_join {S T : α → α → Prop} (j : α → α → α) {l l' : List α} (h : Forall2 S l l')
    (hj : ∀ a b, S a b → T a (j a b)) : Forall2 T l (List.zipWith j l l') := by
  induction h with
  | nil => exact .nil
  | cons hab _ ih => exact .cons (hj _ _ hab) ih

theorem forall₂_zip_join' {S T : α → α → Prop} (j : α → α → α) {l l' : List α} (h : Forall2 S l l')
    (hj : ∀ a b, S a b → T b (j a b)) : Forall2 T l' (List.zipWith j l l') := by
  induction h with
  | nil => exact .nil
  | cons hab _ ih => exact .cons (hj _ _ hab) ih

theorem forall₂_symm {S : α → α → Prop} (hs : ∀ a b, S a b → S b a) {l l' : List α} (h : Forall2 S l l') :
    Forall2 S l' l := by
  induction h with
  | nil => exact .nil
  | cons hab _ ih => exact .cons (hs _ _ hab) ih

end forall2

theorem insLe_getD {a b : Ins} (h : InsLe a b) (k : Nat) : optLe (a.getD k none) (b.getD k none) :=
  forall₂_getD h none none trivial k

theorem inBit_le {a b : Ins} (h : InsLe a b) (k i : Nat) : B4.le (inBit a k i) (inBit b k i) := by
  have := insLe_getD h k
  unfold inBit
  cases ha : a.getD k none <;> cases hb : b.getD k none <;> simp_all [optLe]
  · exact B4.le_refl _
  · exact this.2 i

/-- a common refinement of two compatible input lists -/
def insJoin (a b : Ins) : Ins := List.zipWith optJoin a b
theorem insLe_join_left {a b : Ins} (h : InsCompat a b) : InsLe a (insJoin a b) :=
  forall₂_zip_join optJoin h fun _ _ => optLe_join_left
theorem insLe_join_right {a b : Ins} (h : InsCompat a b) : InsLe b (insJoin a b) :=
  forall₂_zip_join' optJoin h fun _ _ => optLe_join_right

end Gatery.Nodes
