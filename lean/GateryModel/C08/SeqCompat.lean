import GateryModel.C08.Compat
import GateryModel.Nodes.Seq
/-!
# C08 over time — registers and clocked netlists never contradict their concretisations

`regEdge` (Nodes/Seq.lean, `Node_Register::simulateAdvance`) maps compatible data / reset value / enable / old values to compatible
new values (an undefined enable poisons the register: everything is compatible with all-undefined), so by induction over the stimulus
two runs of one clocked netlist under compatible stimuli and compatible initial register contents are compatible at every node at
every cycle.
-/
namespace Gatery.C01
open Gatery.Nodes BV4


/-- every register value has the width of its register -/
def StateWF (regs : List RegDecl) (st : List BV4) : Prop := Forall2 (fun r v => v.length = r.w) regs st

theorem length_regNext (w : Nat) (d en : Option BV4) (old : BV4) (ho : old.length = w) : (regNext w d en old).length = w := by
  unfold regNext
  split
  · exact length_copyIn w d
  · split
    · exact length_undef w
    · exact length_copyIn w d
    · exact ho

theorem length_regEdge (w : Nat) (d rst en : Option BV4) (r : Bool) (old : BV4) (ho : old.length = w) :
    (regEdge w d rst en r old).length = w := by
  unfold regEdge
  split
  · exact length_copyIn w _
  · exact length_regNext w d en old ho

theorem nextState_wf (regs : List RegDecl) (vals : Vals) (rs : Bool) (st : List BV4) (h : StateWF regs st) :
    StateWF regs (nextState regs vals rs st) := by
  unfold nextState
  induction h with
  | nil => exact .nil
  | cons hab _ ih => exact .cons (length_regEdge _ _ _ _ _ _ hab) ih

theorem bit_compat_of_compat {u v : BV4} (h : BV4.compat u v) (i : Nat) : B4.compat (u.bit i) (v.bit i) := h.2 i

theorem regNext_compat (w : Nat) {d d' en en' : Option BV4} {old old' : BV4} (hd : optCompat d d') (he : optCompat en en')
    (ho : BV4.compat old old') (hl : old.length = w) : BV4.compat (regNext w d en old) (regNext w d' en' old') := by
  have hl' : old'.length = w := ho.1 ▸ hl
  have hcd := copyIn_compat w hd
  cases en with
  | none =>
    cases en' with
    | none => exact hcd
    | some e' => simp [optCompat] at he
  | some e =>
    cases en' with
    | none => simp [optCompat] at he
    | some e' =>
      have hb : B4.compat (e.bit 0) (e'.bit 0) := he.2 0
      simp only [regNext]
      cases h1 : e.bit 0 <;> cases h2 : e'.bit 0 <;> simp only [h1, h2, B4.compat] at hb ⊢
      all_goals first
        | exact hcd
        | exact ho
        | exact compat_undef_left (by first | exact length_copyIn _ _ | exact hl' | exact length_undef _)
        | exact compat_undef_right (by first | exact length_copyIn _ _ | exact hl | exact length_undef _)
        | (simp at hb)

theorem regEdge_compat (w : Nat) {d d' rst rst' en en' : Option BV4} {old old' : BV4} (r : Bool) (hd : optCompat d d')
    (hr : optCompat rst rst') (he : optCompat en en') (ho : BV4.compat old old') (hl : old.length = w) :
    BV4.compat (regEdge w d rst en r old) (regEdge w d' rst' en' r old') := by
  cases r with
  | false => simpa [regEdge] using regNext_compat w hd he ho hl
  | true =>
    cases rst with
    | none =>
      cases rst' with
      | none => simpa [regEdge] using regNext_compat w hd he ho hl
      | some _ => simp [optCompat] at hr
    | some a =>
      cases rst' with
      | none => simp [optCompat] at hr
      | some b => simpa [regEdge] using copyIn_compat w hr

theorem look_compat {v v' : Vals} (h : ValsCompat v v') (o : Option Nat) : optCompat (look v o) (look v' o) := by
  cases o with
  | none => simp [look, optCompat]
  | some j => exact forall₂_getD h none none (by simp [optCompat]) j

theorem nextState_compat (regs : List RegDecl) {vals vals' : Vals} (hv : ValsCompat vals vals') (rs : Bool) {st st' : List BV4}
    (hs : EnvCompat st st') (hw : StateWF regs st) : EnvCompat (nextState regs vals rs st) (nextState regs vals' rs st') := by
  unfold nextState
  induction hw generalizing st' with
  | nil => cases hs; exact .nil
  | @cons r v regs sts hab _ ih =>
    cases hs with
    | cons hvv hrest =>
      exact .cons (regEdge_compat r.w rs (look_compat hv _) (look_compat hv _) (look_compat hv _) hvv hab) (ih hrest)

theorem envCompat_symm {a b : Env} (h : EnvCompat a b) : EnvCompat b a := by
  induction h with
  | nil => exact .nil
  | cons hab _ ih => exact .cons (BV4.compat_symm hab) ih

theorem valsCompat_symm {a b : Vals} (h : ValsCompat a b) : ValsCompat b a := by
  induction h with
  | nil => exact .nil
  | cons hab _ ih => exact .cons (optCompat_symm hab) ih

/-- stimuli that agree up to undefined bits (same reset pattern) -/
def StimCompat : List Cycle → List Cycle → Prop := Forall2 fun c c' => EnvCompat c.1 c'.1 ∧ c.2 = c'.2


/-- **C08 for clocked netlists, any number of cycles.** -/
theorem seqRun_compat (c : SeqNet) (stim stim' : List Cycle) (hs : StimCompat stim stim') (st st' : List BV4)
    (hst : EnvCompat st st') (hw : StateWF c.regs st) :
    Forall2 ValsCompat (seqRun c stim st) (seqRun c stim' st') := by
  induction hs generalizing st st' with
  | nil => exact .nil
  | @cons cy cy' rest rest' hcc _ ih =>
    obtain ⟨pins, rs⟩ := cy
    obtain ⟨pins', rs'⟩ := cy'
    obtain ⟨hp, hrs⟩ := hcc
    simp only at hp hrs
    subst hrs
    have cv : ValsCompat (evalNet (pins ++ st) c.nodes) (evalNet (pins' ++ st') c.nodes) :=
      evalNetFrom_compat (forall₂_append hp hst) c.nodes .nil
    simp only [seqRun]
    exact .cons cv (ih _ _ (nextState_compat c.regs cv rs hst hw) (nextState_wf _ _ _ _ hw))

end Gatery.C01
