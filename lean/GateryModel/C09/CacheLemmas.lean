import GateryModel.C09.DrvLemmas
/-! Preservation of `CacheInv`: `Clock::m_clockedNodesCache` is empty or holds exactly the registered (node, port) pairs. -/
namespace Gatery.C09

abbrev K (s : State) : Prop := CacheInv s.nclocks s.clocked s.cache

theorem cache_detach {nc : Nat} {clocked cache : Nat → List NodePort} (hK : CacheInv nc clocked cache) (c : Nat) (l : List NodePort) :
    CacheInv nc (upd clocked c l) (upd cache c []) := by
  intro c' hc'
  simp only [upd_apply]
  split
  · exact Or.inl rfl
  · exact hK c' hc'

theorem cache_attach {nc : Nat} {cd ca : Nat → List NodePort} (hK : CacheInv nc cd ca) (c : Nat) (x : NodePort)
    (hnot : c < nc → x ∉ cd c) :
    CacheInv nc (upd cd c (setInsert (cd c) x)) (upd ca c (if ca c = [] then [] else ca c ++ [x])) := by
  intro c' hc'
  simp only [upd_apply]
  split
  · rename_i e
    subst e
    have hnot := hnot hc'
    split
    · exact Or.inl rfl
    · rename_i hne
      rcases hK c' hc' with h0 | ⟨hn, hsub, hsup⟩
      · exact absurd h0 hne
      · right
        have hins : setInsert (cd c') x = cd c' ++ [x] := by unfold setInsert; rw [if_neg hnot]
        rw [hins]
        refine ⟨?_, ?_, ?_⟩
        · rw [List.nodup_append]
          refine ⟨hn, by simp, ?_⟩
          intro a ha b hb
          have : b = x := by simpa using hb
          subst this
          intro e; subst e
          exact hnot (hsub _ ha)
        · intro y hy
          rcases List.mem_append.mp hy with h3 | h3
          · exact List.mem_append_left _ (hsub y h3)
          · exact List.mem_append_right _ h3
        · intro y hy
          rcases List.mem_append.mp hy with h3 | h3
          · exact List.mem_append_left _ (hsup y h3)
          · exact List.mem_append_right _ h3
  · exact hK c' hc'

theorem detachClock_cache {s s' : State} {h p : Nat} (hK : K s) (hr : detachClock s h p = .ok s') : K s' := by
  unfold detachClock at hr
  split at hr
  · cases hr
  split at hr
  · have e : s = s' := by injection hr
    subst e; exact hK
  · rename_i c hc
    split at hr
    · cases hr
    have e := Except.ok.inj hr
    subst e
    exact cache_detach hK c _

theorem detachRange_cache {h : Nat} (ps : List Nat) {s s' : State} (hK : K s) (hr : detachRange s h ps = .ok s') : K s' := by
  induction ps generalizing s with
  | nil => have e : s = s' := by injection hr
           subst e; exact hK
  | cons p ps ih =>
    obtain ⟨s1, h1, h2⟩ := bind_ok.mp hr
    exact ih (detachClock_cache hK h1) h2

theorem drainClock_cache {c : Nat} (fuel : Nat) {s s' : State} (hK : K s) (hr : drainClock fuel s c = .ok s') : K s' := by
  induction fuel generalizing s with
  | zero =>
    unfold drainClock at hr
    split at hr
    · have e : s = s' := by injection hr
      subst e; exact hK
    · cases hr
  | succ f ih =>
    unfold drainClock at hr
    split at hr
    · have e : s = s' := by injection hr
      subst e; exact hK
    · obtain ⟨s1, h1, h2⟩ := bind_ok.mp hr
      exact ih (detachClock_cache hK h1) h2

theorem attachClock_cache {s s' : State} {h p : Nat} {c : Option Nat} (hC : C s) (hK : K s)
    (hr : attachClock s h p c = .ok s') : K s' := by
  unfold attachClock at hr
  split at hr
  · cases hr
  split at hr
  · cases hr
  split at hr
  · have e : s = s' := by injection hr
    subst e; exact hK
  obtain ⟨s1, h1, h2⟩ := bind_ok.mp hr
  have hK1 := detachClock_cache hK h1
  obtain ⟨cd, ck, ca, rfl, hC1, _, _, hnone, _⟩ := detachClock_spec hC h1
  cases c with
  | none =>
    simp only at h2
    have e := Except.ok.inj h2
    subst e
    exact hK1
  | some c =>
    simp only at h2
    have e := Except.ok.inj h2
    subst e
    refine cache_attach hK1 c ⟨h, p⟩ ?_
    intro hcn hm
    have := (hC1.2 c hcn _ hm).2.2.2
    simp only at this
    rw [hnone] at this; cases this

theorem addClock_cache {s s' : State} {h : Nat} {c : Option Nat} (hC : C s) (hK : K s) (hr : addClock s h c = .ok s') : K s' := by
  unfold addClock at hr
  split at hr
  · cases hr
  simp only at hr
  exact attachClock_cache
    (s := { s with numClk := upd s.numClk h (s.numClk h + 1), clk := upd2 s.clk h (s.numClk h) none }) (clock_grow hC h) hK hr

theorem newclock_cache {nc : Nat} {clocked cache : Nat → List NodePort} (hK : CacheInv nc clocked cache) :
    CacheInv (nc + 1) (upd clocked nc []) (upd cache nc []) := by
  intro c hc
  simp only [upd_apply]
  split
  · exact Or.inl rfl
  · exact hK c (by omega)

/-! the sorted view is a permutation of the set -/

theorem insertNP_perm (key : Nat → Nat) (e : NodePort) (l : List NodePort) : (insertNP key e l).Perm (e :: l) := by
  induction l with
  | nil => exact List.Perm.refl _
  | cons x xs ih =>
    unfold insertNP
    split
    · exact List.Perm.refl _
    · exact (List.Perm.cons x ih).trans (List.Perm.swap e x xs)

theorem sortNP_perm (key : Nat → Nat) (l : List NodePort) : (sortNP key l).Perm l := by
  unfold sortNP
  suffices h : ∀ (l acc : List NodePort), (l.foldl (fun acc e => insertNP key e acc) acc).Perm (l ++ acc) by
    simpa using h l []
  intro l
  induction l with
  | nil => intro acc; exact List.Perm.refl _
  | cons x xs ih =>
    intro acc
    refine (ih _).trans ?_
    refine (List.Perm.append_left xs (insertNP_perm key x acc)).trans ?_
    exact List.perm_middle

theorem clocked_nodup {size : Nat} {alive : Nat → Bool} {numClk : Nat → Nat} {clk : Nat → Nat → Option Nat}
    {nc : Nat} {clocked : Nat → List NodePort}
    (hC : ClockInv size alive numClk clk nc clocked) (c : Nat) (hc : c < nc) : (clocked c).Nodup := by
  rw [List.nodup_iff_count]
  intro a
  by_cases ha : a ∈ clocked c
  · cases a
    obtain ⟨h1, h2, h3, h4⟩ := hC.2 c hc _ ha
    have := (hC.1 _ h1 h2 _ h3 c h4).2
    simp only at this
    omega
  · rw [List.count_eq_zero.mpr ha]; omega

theorem cache_fill {nc : Nat} {clocked cache : Nat → List NodePort} (hK : CacheInv nc clocked cache) (c : Nat) (l : List NodePort)
    (hp : l.Perm (clocked c)) (hn : c < nc → (clocked c).Nodup) : CacheInv nc clocked (upd cache c l) := by
  intro c' hc'
  simp only [upd_apply]
  split
  · rename_i e; subst e
    exact Or.inr ⟨hp.nodup_iff.mpr (hn hc'), fun x hx => hp.mem_iff.mp hx, fun x hx => hp.mem_iff.mpr hx⟩
  · exact hK c' hc'

theorem getClockedNodes_cache {s s' : State} {c : Nat} (hC : C s) (hK : K s) (hr : getClockedNodes s c = .ok s') :
    K s' ∧ ∃ ca, s' = { s with cache := ca } := by
  unfold getClockedNodes at hr
  split at hr
  · cases hr
  rename_i hg
  obtain ⟨hc, _⟩ := Classical.not_not.mp hg
  split at hr
  · have e := Except.ok.inj hr
    subst e
    exact ⟨cache_fill hK c _ (sortNP_perm s.nid (s.clocked c)) (fun hc' => clocked_nodup hC c hc'), _, rfl⟩
  · have e := Except.ok.inj hr
    subst e
    exact ⟨hK, s.cache, rfl⟩

theorem destroyClock_cache {s s' : State} {c : Nat} (hK : K s) (hr : destroyClock s c = .ok s') : K s' := by
  unfold destroyClock at hr
  split at hr
  · cases hr
  obtain ⟨s1, h1, h2⟩ := bind_ok.mp hr
  have := drainClock_cache _ hK h1
  have e := Except.ok.inj h2
  subst e
  exact this

theorem setLogicDriver_cache {s s' : State} {k c d : Nat} (hC : C s) (hK : K s) (hr : setLogicDriver s k c d = .ok s') : K s' := by
  unfold setLogicDriver at hr
  split at hr
  · cases hr
  split at hr
  · cases hr
  split at hr
  · cases hr
  obtain ⟨s1, h1, h2⟩ := bind_ok.mp hr
  have step1 : C s1 ∧ K s1 := by
    cases hold : s.drv k c with
    | none =>
      rw [hold] at h1
      have e : s = s1 := by injection h1
      subst e; exact ⟨hC, hK⟩
    | some old =>
      rw [hold] at h1
      simp only at h1
      have hK1 := attachClock_cache hC hK h1
      obtain ⟨cd1, ck1, ca1, rfl, hC1, _⟩ := attachClock_spec hC h1
      exact ⟨hC1, hK1⟩
  exact attachClock_cache (s := { s1 with drv := upd2 s1.drv k c (some d) }) step1.1 step1.2 h2

end Gatery.C09
