import GateryModel.C09.RegLemmas
/-! Preservation of `DriverInv` (the clock's logic clock / reset driver slots point to registered driver nodes). -/
namespace Gatery.C09

abbrev D (s : State) : Prop := DriverInv s.size s.alive s.dk s.numClk s.clk s.nclocks s.calive s.drv

/-! frames of the raw clock primitives -/

theorem detachClock_frame {s s' : State} {h p : Nat} (hr : detachClock s h p = .ok s') :
    ∃ cd ck ca, s' = { s with clocked := cd, clk := ck, cache := ca } ∧ (∀ x y, ¬ (x = h ∧ y = p) → ck x y = s.clk x y) ∧ ck h p = none ∧
      s.live h ∧ p < s.numClk h := by
  unfold detachClock at hr
  split at hr
  · cases hr
  rename_i hg
  obtain ⟨hl, hp⟩ := Classical.not_not.mp hg
  split at hr
  · rename_i hn
    have e : s = s' := by injection hr
    subst e
    exact ⟨s.clocked, s.clk, s.cache, rfl, fun _ _ _ => rfl, hn, hl, hp⟩
  · split at hr
    · cases hr
    have e := Except.ok.inj hr
    subst e
    exact ⟨_, _, _, rfl, fun x y hxy => by simp [upd2_apply, hxy], by simp [upd2_apply], hl, hp⟩

theorem attachClock_frame {s s' : State} {h p : Nat} {c : Option Nat} (hr : attachClock s h p c = .ok s') :
    ∃ cd ck ca, s' = { s with clocked := cd, clk := ck, cache := ca } ∧ (∀ x y, ¬ (x = h ∧ y = p) → ck x y = s.clk x y) ∧ ck h p = c ∧
      s.live h ∧ p < s.numClk h := by
  unfold attachClock at hr
  split at hr
  · cases hr
  rename_i hg
  obtain ⟨hl, hp⟩ := Classical.not_not.mp hg
  split at hr
  · cases hr
  split at hr
  · rename_i heq
    have e : s = s' := by injection hr
    subst e
    exact ⟨s.clocked, s.clk, s.cache, rfl, fun _ _ _ => rfl, heq, hl, hp⟩
  obtain ⟨s1, h1, h2⟩ := bind_ok.mp hr
  obtain ⟨cd, ck, ca, rfl, hfr, _, _, _⟩ := detachClock_frame h1
  cases c with
  | none =>
    simp only at h2
    have e := Except.ok.inj h2
    subst e
    exact ⟨_, _, _, rfl, fun x y hxy => by simp [upd2_apply, hxy, hfr x y hxy], by simp [upd2_apply], hl, hp⟩
  | some c =>
    simp only at h2
    have e := Except.ok.inj h2
    subst e
    exact ⟨_, _, _, rfl, fun x y hxy => by simp [upd2_apply, hxy, hfr x y hxy], by simp [upd2_apply], hl, hp⟩

theorem detachRange_frame {h : Nat} (ps : List Nat) {s s' : State} (hr : detachRange s h ps = .ok s') :
    ∃ cd ck ca, s' = { s with clocked := cd, clk := ck, cache := ca } ∧ (∀ x y, x ≠ h → ck x y = s.clk x y) := by
  induction ps generalizing s with
  | nil =>
    have e : s = s' := by injection hr
    subst e; exact ⟨s.clocked, s.clk, s.cache, rfl, fun _ _ _ => rfl⟩
  | cons p ps ih =>
    obtain ⟨s1, h1, h2⟩ := bind_ok.mp hr
    obtain ⟨cd1, ck1, ca1, rfl, hfr1, _⟩ := detachClock_frame h1
    obtain ⟨cd, ck, ca, rfl, hfr⟩ := ih (s := { s with clocked := cd1, clk := ck1, cache := ca1 }) h2
    exact ⟨cd, ck, ca, rfl, fun x y hx => by rw [hfr x y hx]; exact hfr1 x y (fun e => hx e.1)⟩

/-- changing the clock port of a node that no live clock names as its driver keeps `DriverInv` -/
theorem di_clk_other {size : Nat} {alive : Nat → Bool} {dk numClk : Nat → Nat} {clk ck : Nat → Nat → Option Nat}
    {nc : Nat} {cal : Nat → Bool} {drv : Nat → Nat → Option Nat}
    (hD : DriverInv size alive dk numClk clk nc cal drv) (h : Nat)
    (hfr : ∀ x y, x ≠ h → ck x y = clk x y)
    (hns : ∀ c, c < nc → cal c = true → ∀ k, k < 3 → k ≠ 0 → drv k c ≠ some h) :
    DriverInv size alive dk numClk ck nc cal drv := by
  intro c hc hcal k hk hk0 d hd
  obtain ⟨a, b, e, f, g⟩ := hD c hc hcal k hk hk0 d hd
  have : d ≠ h := fun e1 => hns c hc hcal k hk hk0 (by rw [← e1]; exact hd)
  exact ⟨a, b, e, f, by rw [hfr d 0 this]; exact g⟩

/-- an ordinary node (`dk = 0`) is nobody's driver -/
theorem notslot_of_dk0 {size : Nat} {alive : Nat → Bool} {dk numClk : Nat → Nat} {clk : Nat → Nat → Option Nat}
    {nc : Nat} {cal : Nat → Bool} {drv : Nat → Nat → Option Nat}
    (hD : DriverInv size alive dk numClk clk nc cal drv) (h : Nat) (h0 : dk h = 0) :
    ∀ c, c < nc → cal c = true → ∀ k, k < 3 → k ≠ 0 → drv k c ≠ some h := by
  intro c hc hcal k hk hk0 e
  have := (hD c hc hcal k hk hk0 h e).2.2.1
  omega

/-- a node without side effects (unbound driver node, or not a driver node at all) is nobody's driver -/
theorem notslot_of_unbound {size : Nat} {alive : Nat → Bool} {dk numClk : Nat → Nat} {clk : Nat → Nat → Option Nat}
    {nc : Nat} {cal : Nat → Bool} {drv : Nat → Nat → Option Nat}
    (hD : DriverInv size alive dk numClk clk nc cal drv) (h : Nat) (h0 : ¬ (dk h ≠ 0 ∧ clk h 0 ≠ none)) :
    ∀ c, c < nc → cal c = true → ∀ k, k < 3 → k ≠ 0 → drv k c ≠ some h := by
  intro c hc hcal k hk hk0 e
  obtain ⟨_, _, e1, _, e2⟩ := hD c hc hcal k hk hk0 h e
  apply h0
  exact ⟨by omega, by rw [e2]; simp⟩

theorem create_di {size : Nat} {alive : Nat → Bool} {dk numClk : Nat → Nat} {clk : Nat → Nat → Option Nat}
    {nc : Nat} {cal : Nat → Bool} {drv : Nat → Nat → Option Nat}
    (hD : DriverInv size alive dk numClk clk nc cal drv) (k' n : Nat) :
    DriverInv (size + 1) (upd alive size true) (upd dk size k') (upd numClk size n) (clearFrom clk size 0 none) nc cal drv := by
  intro c hc hcal k hk hk0 d hd
  obtain ⟨a, b, e, f, g⟩ := hD c hc hcal k hk hk0 d hd
  have hne : d ≠ size := by omega
  refine ⟨by omega, ?_, ?_, ?_, ?_⟩
  · rw [upd_apply, if_neg hne]; exact b
  · rw [upd_apply, if_neg hne]; exact e
  · rw [upd_apply, if_neg hne]; exact f
  · rw [clearFrom_apply, if_neg (fun e1 => hne e1.1)]; exact g

theorem free_di {size : Nat} {alive : Nat → Bool} {dk numClk : Nat → Nat} {clk : Nat → Nat → Option Nat}
    {nc : Nat} {cal : Nat → Bool} {drv : Nat → Nat → Option Nat}
    (hD : DriverInv size alive dk numClk clk nc cal drv) (h : Nat)
    (hns : ∀ c, c < nc → cal c = true → ∀ k, k < 3 → k ≠ 0 → drv k c ≠ some h) :
    DriverInv size (upd alive h false) dk numClk clk nc cal drv := by
  intro c hc hcal k hk hk0 d hd
  obtain ⟨a, b, e, f, g⟩ := hD c hc hcal k hk hk0 d hd
  have : d ≠ h := fun e1 => hns c hc hcal k hk hk0 (by rw [← e1]; exact hd)
  exact ⟨a, by rw [upd_apply, if_neg this]; exact b, e, f, g⟩

theorem grow_di {size : Nat} {alive : Nat → Bool} {dk numClk nk : Nat → Nat} {clk ck : Nat → Nat → Option Nat}
    {nc : Nat} {cal : Nat → Bool} {drv : Nat → Nat → Option Nat}
    (hD : DriverInv size alive dk numClk clk nc cal drv) (h : Nat) (h0 : dk h = 0)
    (hn : ∀ x, x ≠ h → nk x = numClk x) (hfr : ∀ x y, x ≠ h → ck x y = clk x y) :
    DriverInv size alive dk nk ck nc cal drv := by
  intro c hc hcal k hk hk0 d hd
  obtain ⟨a, b, e, f, g⟩ := hD c hc hcal k hk hk0 d hd
  have : d ≠ h := fun e1 => by rw [e1] at e; omega
  exact ⟨a, b, e, by rw [hn d this]; exact f, by rw [hfr d 0 this]; exact g⟩

theorem newclock_di {size : Nat} {alive : Nat → Bool} {dk numClk : Nat → Nat} {clk : Nat → Nat → Option Nat}
    {nc : Nat} {cal : Nat → Bool} {drv : Nat → Nat → Option Nat}
    (hD : DriverInv size alive dk numClk clk nc cal drv) :
    DriverInv size alive dk numClk clk (nc + 1) (upd cal nc true) (fun k c => if c = nc then none else drv k c) := by
  intro c hc hcal k hk hk0 d hd
  simp only at hd
  split at hd
  · cases hd
  · rename_i hne
    rw [upd_apply, if_neg hne] at hcal
    exact hD c (by omega) hcal k hk hk0 d hd

/-- `~Clock`: every detach concerns a node attached to the dying clock `c0`; the drivers of the other clocks are attached elsewhere -/
theorem drainClock_di {c0 : Nat} (fuel : Nat) {s s' : State} (hC : C s)
    (hD : DriverInv s.size s.alive s.dk s.numClk s.clk s.nclocks (upd s.calive c0 false) s.drv)
    (hc0 : c0 < s.nclocks) (hr : drainClock fuel s c0 = .ok s') :
    DriverInv s'.size s'.alive s'.dk s'.numClk s'.clk s'.nclocks (upd s'.calive c0 false) s'.drv := by
  induction fuel generalizing s with
  | zero =>
    unfold drainClock at hr
    split at hr
    · have e : s = s' := by injection hr
      subst e; exact hD
    · cases hr
  | succ f ih =>
    unfold drainClock at hr
    split at hr
    · have e : s = s' := by injection hr
      subst e; exact hD
    · rename_i x xs hx
      obtain ⟨s1, h1, h2⟩ := bind_ok.mp hr
      have hxm : x ∈ s.clocked c0 := by rw [hx]; exact List.mem_cons_self
      obtain ⟨_, _, _, hxc⟩ := hC.2 c0 hc0 x hxm
      obtain ⟨cd1, ck1, ca1, e1, hC1, _⟩ := detachClock_spec hC h1
      obtain ⟨cd1', ck1', ca1', e1', hfr, _⟩ := detachClock_frame h1
      subst e1
      have hck : ck1 = ck1' := by injection e1'
      subst hck
      apply ih (s := { s with clocked := cd1, clk := ck1, cache := ca1 }) hC1 _ hc0 h2
      intro c hc hcal k hk hk0 d hd
      obtain ⟨a, b, e, f, g⟩ := hD c hc hcal k hk hk0 d hd
      refine ⟨a, b, e, f, ?_⟩
      show ck1 d 0 = some c
      rw [hfr d 0 ?_]
      · exact g
      · intro ⟨e2, e3⟩
        rw [← e2, ← e3, g] at hxc
        injection hxc with hxc
        rw [hxc, upd_apply, if_pos rfl] at hcal
        cases hcal

theorem destroyClock_di {s s' : State} {c : Nat} (hC : C s) (hD : D s) (hr : destroyClock s c = .ok s') : D s' := by
  unfold destroyClock at hr
  split at hr
  · cases hr
  rename_i hg
  obtain ⟨hc, _⟩ := Classical.not_not.mp hg
  obtain ⟨s1, h1, h2⟩ := bind_ok.mp hr
  have hD0 : DriverInv s.size s.alive s.dk s.numClk s.clk s.nclocks (upd s.calive c false) s.drv := by
    intro c1 hc1 hcal k hk hk0 d hd
    rw [upd_apply] at hcal
    split at hcal
    · cases hcal
    · exact hD c1 hc1 hcal k hk hk0 d hd
  have := drainClock_di _ hC hD0 hc h1
  have e := Except.ok.inj h2
  subst e
  exact this

/-- `Clock::setLogicClockDriver` / `setLogicResetDriver` -/
theorem setLogicDriver_spec {s s' : State} {k c d : Nat} (hC : C s) (hA : CA s) (hD : D s) (hr : setLogicDriver s k c d = .ok s') :
    ∃ cd ck ca dv, s' = { s with clocked := cd, clk := ck, cache := ca, drv := dv } ∧
      ClockInv s.size s.alive s.numClk ck s.nclocks cd ∧ CAInv s.size s.alive s.numClk ck s.calive ∧
      DriverInv s.size s.alive s.dk s.numClk ck s.nclocks s.calive dv := by
  unfold setLogicDriver at hr
  split at hr
  · cases hr
  rename_i hg
  obtain ⟨hk, hk0, hc, hcal⟩ := Classical.not_not.mp hg
  split at hr
  · cases hr
  rename_i hg2
  obtain ⟨hl, hdk, hnc⟩ := Classical.not_not.mp hg2
  split at hr
  · cases hr
  rename_i hg3
  have huniq : ∀ c2, c2 < s.nclocks → s.calive c2 = true → c2 ≠ c → s.drv k c2 ≠ some d := Classical.not_not.mp hg3
  obtain ⟨s1, h1, h2⟩ := bind_ok.mp hr
  -- step 1: release the previous driver; invariant for all clocks but `c`
  have step1 : ∃ cd1 ck1 ca1, s1 = { s with clocked := cd1, clk := ck1, cache := ca1 } ∧
      ClockInv s.size s.alive s.numClk ck1 s.nclocks cd1 ∧ CAInv s.size s.alive s.numClk ck1 s.calive ∧
      (∀ x y, (∀ o, s.drv k c = some o → x ≠ o) → ck1 x y = s.clk x y) := by
    cases hold : s.drv k c with
    | none =>
      rw [hold] at h1
      have e : s = s1 := by injection h1
      subst e
      exact ⟨s.clocked, s.clk, s.cache, rfl, hC, hA, fun _ _ _ => rfl⟩
    | some old =>
      rw [hold] at h1
      simp only at h1
      obtain ⟨cd1, ck1, ca1, e1, hC1, hprov⟩ := attachClock_spec hC h1
      obtain ⟨cd1', ck1', ca1', e1', hfr, _⟩ := attachClock_frame h1
      subst e1
      have hck : ck1 = ck1' := by injection e1'
      subst hck
      refine ⟨cd1, ck1, ca1, rfl, hC1, ca_mono hA hprov, ?_⟩
      intro x y hx
      exact hfr x y (fun e => hx old rfl e.1)
  obtain ⟨cd1, ck1, ca1, rfl, hC1, hA1, hfr1⟩ := step1
  -- step 2: store and attach the new driver
  obtain ⟨cd2, ck2, ca2, e2, hC2, hprov2⟩ := attachClock_spec
    (s := { s with clocked := cd1, clk := ck1, cache := ca1, drv := upd2 s.drv k c (some d) }) hC1 h2
  obtain ⟨cd2', ck2', ca2', e2', hfr2, hset, _⟩ := attachClock_frame h2
  subst e2
  have hck : ck2 = ck2' := by injection e2'
  subst hck
  refine ⟨cd2, ck2, ca2, _, rfl, hC2, ca_mono hA1 hprov2, ?_⟩
  intro c1 hc1 hcal1 k1 hk1 hk10 d1 hd1
  replace hd1 : upd2 s.drv k c (some d) k1 c1 = some d1 := hd1
  rw [upd2_apply] at hd1
  split at hd1
  · rename_i heq
    obtain ⟨e3, e4⟩ := heq
    have e5 : d = d1 := by injection hd1
    subst e3; subst e4; subst e5
    exact ⟨hl.1, hl.2, hdk, hnc, hset⟩
  · rename_i hne
    obtain ⟨a, b, e, f, g⟩ := hD c1 hc1 hcal1 k1 hk1 hk10 d1 hd1
    refine ⟨a, b, e, f, ?_⟩
    -- d1 is neither the new driver `d` nor the released one
    have hnd : d1 ≠ d := by
      intro e6
      by_cases hkk : k1 = k
      · subst hkk
        by_cases hcc : c1 = c
        · exact hne ⟨rfl, hcc⟩
        · exact huniq c1 hc1 hcal1 hcc (by rw [← e6]; exact hd1)
      · rw [e6, hdk] at e; exact hkk e.symm
    have hno : ∀ o, s.drv k c = some o → d1 ≠ o := by
      intro o ho e6
      obtain ⟨_, _, e7, _, g7⟩ := hD c hc hcal k hk hk0 o ho
      rw [← e6] at e7 g7
      rw [g] at g7
      injection g7 with g7
      rw [e] at e7
      exact hne ⟨e7, g7⟩
    show ck2 d1 0 = some c1
    have e9 : ck2 d1 0 = ck1 d1 0 := hfr2 d1 0 (fun e8 => hnd e8.1)
    exact (e9.trans (hfr1 d1 0 hno)).trans g


def NotSlot (s : State) (h : Nat) : Prop :=
  ∀ c, c < s.nclocks → s.calive c = true → ∀ k, k < 3 → k ≠ 0 → s.drv k c ≠ some h

/-- all driver slots of live clocks point below `b` -/
def SB (b : Nat) (s : State) : Prop :=
  ∀ c, c < s.nclocks → s.calive c = true → ∀ k, k < 3 → k ≠ 0 → ∀ d, s.drv k c = some d → d < b

theorem notSlot_of_SB {b : Nat} {s : State} (h : Nat) (hS : SB b s) (hb : b ≤ h) : NotSlot s h := by
  intro c hc hcal k hk hk0 e
  have := hS c hc hcal k hk hk0 h e
  omega

theorem attachClock_di {s s' : State} {h p : Nat} {c : Option Nat} (hD : D s) (hns : NotSlot s h)
    (hr : attachClock s h p c = .ok s') : D s' := by
  obtain ⟨cd, ck, ca, rfl, hfr, _⟩ := attachClock_frame hr
  exact di_clk_other hD h (fun x y hx => hfr x y (fun e => hx e.1)) hns

theorem detachClock_di {s s' : State} {h p : Nat} (hD : D s) (hns : NotSlot s h)
    (hr : detachClock s h p = .ok s') : D s' := by
  obtain ⟨cd, ck, ca, rfl, hfr, _⟩ := detachClock_frame hr
  exact di_clk_other hD h (fun x y hx => hfr x y (fun e => hx e.1)) hns

theorem addClock_di {s s' : State} {h : Nat} {c : Option Nat} (hD : D s) (h0 : s.dk h = 0)
    (hr : addClock s h c = .ok s') : D s' := by
  unfold addClock at hr
  split at hr
  · cases hr
  simp only at hr
  obtain ⟨cd, ck, ca, rfl, hfr, _⟩ := attachClock_frame hr
  refine grow_di hD h h0 (fun x hx => by simp [upd_apply, hx]) ?_
  intro x y hx
  have e1 : ck x y = upd2 s.clk h (s.numClk h) none x y := hfr x y (fun e => hx e.1)
  show ck x y = s.clk x y
  rw [e1, upd2_apply, if_neg (fun e => hx e.1)]

theorem SB_of_D {s : State} (hD : D s) : SB s.size s := by
  intro c hc hcal k hk hk0 d hd
  exact (hD c hc hcal k hk hk0 d hd).1

end Gatery.C09
