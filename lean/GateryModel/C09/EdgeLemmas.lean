import GateryModel.C09.ListLemmas
/-! Preservation of the edge invariant by the `NodeIO` operations. -/
namespace Gatery.C09

abbrev E (s : State) : Prop := EdgeInv s.size s.alive s.numIn s.inp s.numOut s.conns

theorem disconnect_spec {s s' : State} {h i : Nat} (hE : E s) (hr : disconnectInput s h i = .ok s') :
    ∃ ip c, s' = { s with conns := c, inp := ip } ∧
      EdgeInv s.size s.alive s.numIn ip s.numOut c ∧
      s.live h ∧ i < s.numIn h ∧
      ip h i = none ∧ (∀ x y, ¬ (x = h ∧ y = i) → ip x y = s.inp x y) ∧
      (∀ d o, s.inp h i ≠ some ⟨d, o⟩ → c d o = s.conns d o) ∧
      (∀ d o, s.inp h i = some ⟨d, o⟩ → (c d o).length + 1 = (s.conns d o).length) ∧
      (∀ d o y, y ∈ c d o → y ∈ s.conns d o) := by
  unfold disconnectInput at hr
  split at hr
  · cases hr
  · rename_i hg
    have hg : s.live h ∧ i < s.numIn h := Classical.not_not.mp hg
    obtain ⟨hl, hi⟩ := hg
    split at hr
    · -- unconnected
      rename_i hn
      cases hr
      exact ⟨s.inp, s.conns, rfl, hE, hl, hi, hn, fun _ _ _ => rfl, fun _ _ _ => rfl,
        (fun d o e => by rw [hn] at e; cases e), fun _ _ _ hy => hy⟩
    · rename_i d hd
      split at hr
      · cases hr
      · rename_i hv
        have hv : s.validOut d := Classical.not_not.mp hv
        simp only at hr
        split at hr
        · cases hr
        · rename_i hk
          cases hr
          obtain ⟨hfwd, hbwd⟩ := hE
          have hG := hfwd h hl.1 hl.2 i hi d hd
          obtain ⟨hds, hda, hdp, hcnt⟩ := hG
          have hmem : (⟨h, i⟩ : NodePort) ∈ s.conns d.node d.port := List.count_pos_iff.mp (by omega)
          refine ⟨_, _, rfl, ⟨?_, ?_⟩, hl, hi, ?_, ?_, ?_, ?_, ?_⟩
          · -- forward
            intro h' hs' ha' i' hi' d' hd'
            rw [upd2_apply] at hd'
            split at hd'
            · cases hd'
            · rename_i hne
              obtain ⟨a, b, c, e⟩ := hfwd h' hs' ha' i' hi' d' hd'
              refine ⟨a, b, c, ?_⟩
              rw [upd2_apply]
              split
              · rename_i heq
                obtain ⟨e1, e2⟩ := heq
                have : (⟨h', i'⟩ : NodePort) ≠ ⟨h, i⟩ := by
                  intro e3; injection e3 with e4 e5; exact hne ⟨e4, e5⟩
                rw [count_eraseSwap_ne _ _ _ hmem this, ← e1, ← e2]; exact e
              · exact e
          · -- backward
            intro d' hs' ha' o' ho' c hc
            rw [upd2_apply] at hc
            split at hc
            · rename_i heq
              obtain ⟨e1, e2⟩ := heq
              have := (mem_eraseSwap _ _ c hcnt).mp hc
              obtain ⟨hc1, hc2⟩ := this
              subst e1; subst e2
              obtain ⟨a, b, c', e⟩ := hbwd d.node hs' ha' d.port ho' c hc1
              refine ⟨a, b, c', ?_⟩
              rw [upd2_apply, if_neg]
              · exact e
              · intro ⟨e3, e4⟩; apply hc2; cases c; simp_all
            · rename_i hne
              obtain ⟨a, b, c', e⟩ := hbwd d' hs' ha' o' ho' c hc
              refine ⟨a, b, c', ?_⟩
              rw [upd2_apply, if_neg]
              · exact e
              · intro ⟨e3, e4⟩
                rw [e3, e4, hd] at e
                injection e with e; apply hne; rw [e]; exact ⟨rfl, rfl⟩
          · simp [upd2_apply]
          · intro x y hxy; simp [upd2_apply, hxy]
          · intro d' o' hne
            rw [upd2_apply, if_neg]
            intro ⟨e1, e2⟩; apply hne; rw [hd, e1, e2]
          · intro d' o' he
            rw [hd] at he; injection he with he; subst he
            simp only [upd2_apply, and_self, if_true]
            dsimp only at hmem ⊢
            rw [length_eraseSwap _ _ (List.ne_nil_of_mem hmem)]
            have := List.length_pos_of_mem hmem
            omega
          · intro d' o' y hy
            rw [upd2_apply] at hy
            split at hy
            · rename_i heq; rw [heq.1, heq.2]; exact mem_of_mem_eraseSwap _ _ _ hy
            · exact hy


theorem attach_edge {size : Nat} {alive : Nat → Bool} {numIn : Nat → Nat} {inp : Nat → Nat → Option NodePort}
    {numOut : Nat → Nat} {conns : Nat → Nat → List NodePort}
    (hE : EdgeInv size alive numIn inp numOut conns) (h i : Nat) (hs : h < size) (ha : alive h = true)
    (hi : i < numIn h) (hn : inp h i = none) (d : NodePort)
    (hd : d.node < size ∧ alive d.node = true ∧ d.port < numOut d.node) :
    EdgeInv size alive numIn (upd2 inp h i (some d)) numOut
      (upd2 conns d.node d.port (conns d.node d.port ++ [⟨h, i⟩])) := by
  obtain ⟨hfwd, hbwd⟩ := hE
  have hnot : (⟨h, i⟩ : NodePort) ∉ conns d.node d.port := by
    intro hm
    have := (hbwd d.node hd.1 hd.2.1 d.port hd.2.2 _ hm).2.2.2
    simp only at this
    rw [hn] at this; cases this
  constructor
  · intro h' hs' ha' i' hi' d' hd'
    rw [upd2_apply] at hd'
    split at hd'
    · rename_i heq
      cases hd'
      obtain ⟨e1, e2⟩ := heq
      subst e1; subst e2
      refine ⟨hd.1, hd.2.1, hd.2.2, ?_⟩
      simp only [upd2_apply, and_self, if_true, List.count_append, List.count_singleton, beq_self_eq_true]
      have := List.count_eq_zero.mpr hnot
      omega
    · rename_i hne
      obtain ⟨a, b, c, e⟩ := hfwd h' hs' ha' i' hi' d' hd'
      refine ⟨a, b, c, ?_⟩
      rw [upd2_apply]
      split
      · rename_i heq
        rw [List.count_append, List.count_singleton, ← heq.1, ← heq.2, e]
        have : ((⟨h, i⟩ : NodePort) == ⟨h', i'⟩) = false := by
          apply beq_false_of_ne; intro e3; injection e3 with e4 e5; exact hne ⟨e4.symm, e5.symm⟩
        simp [this]
      · exact e
  · intro d' hs' ha' o' ho' c hc
    rw [upd2_apply] at hc
    split at hc
    · rename_i heq
      obtain ⟨e1, e2⟩ := heq
      subst e1; subst e2
      rcases List.mem_append.mp hc with hc | hc
      · obtain ⟨a, b, c', e⟩ := hbwd d.node hs' ha' d.port ho' c hc
        refine ⟨a, b, c', ?_⟩
        rw [upd2_apply, if_neg]
        · exact e
        · intro ⟨e3, e4⟩; rw [e3, e4, hn] at e; cases e
      · have : c = ⟨h, i⟩ := by simpa using hc
        subst this
        exact ⟨hs, ha, hi, by simp [upd2_apply]⟩
    · rename_i hne
      obtain ⟨a, b, c', e⟩ := hbwd d' hs' ha' o' ho' c hc
      refine ⟨a, b, c', ?_⟩
      rw [upd2_apply, if_neg]
      · exact e
      · intro ⟨e3, e4⟩; rw [e3, e4, hn] at e; cases e

theorem upd2_self {α : Type} (f : Nat → Nat → α) (k j : Nat) (v : α) (h : f k j = v) : upd2 f k j v = f := by
  funext x y; rw [upd2_apply]; split
  · rename_i e; rw [e.1, e.2, h]
  · rfl

theorem connect_spec {s s' : State} {h i : Nat} {d : Option NodePort} (hE : E s) (hr : connectInput s h i d = .ok s') :
    ∃ ip c, s' = { s with conns := c, inp := ip } ∧
      EdgeInv s.size s.alive s.numIn ip s.numOut c ∧
      s.live h ∧ i < s.numIn h ∧ (∀ x ∈ d, s.validOut x) ∧
      ip h i = d ∧ (∀ x y, ¬ (x = h ∧ y = i) → ip x y = s.inp x y) ∧
      (∀ dn o, s.inp h i = some ⟨dn, o⟩ → d ≠ some ⟨dn, o⟩ → (c dn o).length + 1 = (s.conns dn o).length) := by
  unfold connectInput at hr
  split at hr
  · cases hr
  rename_i hg
  obtain ⟨hl, hi⟩ := Classical.not_not.mp hg
  split at hr
  · cases hr
  rename_i hv
  have hv : ∀ x ∈ d, s.validOut x := Classical.not_not.mp hv
  split at hr
  · rename_i heq
    cases hr
    refine ⟨s.inp, s.conns, rfl, hE, hl, hi, hv, heq, fun _ _ _ => rfl, ?_⟩
    intro dn o e1 e2; rw [← heq] at e2; exact absurd e1 e2
  rename_i hne
  split at hr
  · -- currently unconnected
    rename_i hn
    cases hr
    cases d with
    | none => exact absurd hn hne
    | some d =>
      have hvd := hv d rfl
      refine ⟨_, _, rfl, attach_edge hE h i hl.1 hl.2 hi hn d ⟨hvd.1.1, hvd.1.2, hvd.2⟩, hl, hi, hv, by simp [upd2_apply],
        fun x y hxy => by simp [upd2_apply, hxy], ?_⟩
      intro dn o e; rw [hn] at e; cases e
  · rename_i d0 hd0
    obtain ⟨s1, h1, h2⟩ := bind_ok.mp hr
    obtain ⟨ip, c, rfl, hE1, _, _, hnone, hoth, hcoth, hclen, _⟩ := disconnect_spec hE h1
    cases h2
    cases d with
    | none =>
      refine ⟨ip, c, ?_, hE1, hl, hi, hv, hnone, hoth, ?_⟩
      · show ({ s with conns := c, inp := upd2 ip h i none } : State) = _
        rw [upd2_self ip h i none hnone]
      · intro dn o e _; exact hclen dn o e
    | some d =>
      have hvd := hv d rfl
      refine ⟨_, _, rfl, attach_edge hE1 h i hl.1 hl.2 hi hnone d ⟨hvd.1.1, hvd.1.2, hvd.2⟩, hl, hi, hv, by simp [upd2_apply],
        fun x y hxy => by simp [upd2_apply, hxy, hoth x y hxy], ?_⟩
      intro dn o e1 e2
      rw [upd2_apply, if_neg]
      · exact hclen dn o e1
      · intro ⟨e3, e4⟩; apply e2; cases d; simp_all


/-! ### loops over disconnectInput -/

theorem disconnectRange_spec {h : Nat} (is : List Nat) {s s' : State} (hE : E s) (hr : disconnectRange s h is = .ok s') :
    ∃ ip c, s' = { s with conns := c, inp := ip } ∧
      EdgeInv s.size s.alive s.numIn ip s.numOut c ∧
      (∀ x y, ip x y = none ∨ ip x y = s.inp x y) ∧ (∀ i ∈ is, ip h i = none) ∧
      (∀ d o y, y ∈ c d o → y ∈ s.conns d o) := by
  induction is generalizing s with
  | nil =>
    have e : s = s' := by injection hr
    subst e; exact ⟨s.inp, s.conns, rfl, hE, fun _ _ => Or.inr rfl, by simp, fun _ _ _ hy => hy⟩
  | cons i is ih =>
    obtain ⟨s1, h1, h2⟩ := bind_ok.mp hr
    obtain ⟨ip1, c1, rfl, hE1, _, _, hnone, hoth, _, _, hmem1⟩ := disconnect_spec hE h1
    obtain ⟨ip, c, rfl, hE2, hmon, hz, hmem⟩ := ih (s := { s with conns := c1, inp := ip1 }) hE1 h2
    refine ⟨ip, c, rfl, hE2, ?_, ?_, fun d o y hy => hmem1 d o y (hmem d o y hy)⟩
    · intro x y
      rcases hmon x y with e | e
      · exact Or.inl e
      · by_cases hxy : x = h ∧ y = i
        · left; rw [e]; rw [hxy.1, hxy.2]; exact hnone
        · right; rw [e]; exact hoth x y hxy
    · intro j hj
      rcases List.mem_cons.mp hj with e | e
      · subst e
        rcases hmon h j with e | e
        · exact e
        · rw [e]; exact hnone
      · exact hz j e

theorem truncIn_edge {size : Nat} {alive : Nat → Bool} {numIn : Nat → Nat} {inp : Nat → Nat → Option NodePort}
    {numOut : Nat → Nat} {conns : Nat → Nat → List NodePort}
    (hE : EdgeInv size alive numIn inp numOut conns) (h n : Nat)
    (hz : ∀ i, n ≤ i → i < numIn h → inp h i = none) :
    EdgeInv size alive (upd numIn h n) (clearFrom inp h (min n (numIn h)) none) numOut conns := by
  obtain ⟨hfwd, hbwd⟩ := hE
  constructor
  · intro h' hs' ha' i' hi' d' hd'
    rw [clearFrom_apply] at hd'
    split at hd'
    · cases hd'
    · rename_i hne
      rw [upd_apply] at hi'
      have hi'' : i' < numIn h' := by
        split at hi'
        · rename_i e; subst e
          have : ¬ min n (numIn h') ≤ i' := fun e2 => hne ⟨rfl, e2⟩
          omega
        · exact hi'
      exact hfwd h' hs' ha' i' hi'' d' hd'
  · intro d' hs' ha' o' ho' c hc
    obtain ⟨a, b, c', e⟩ := hbwd d' hs' ha' o' ho' c hc
    have hlt : c.node = h → c.port < n := by
      intro e1
      apply Classical.byContradiction; intro hge
      have := hz c.port (by omega) (by rw [← e1]; exact c')
      rw [← e1, e] at this; cases this
    refine ⟨a, b, ?_, ?_⟩
    · rw [upd_apply]; split
      · rename_i e1; exact hlt e1
      · exact c'
    · rw [clearFrom_apply, if_neg]
      · exact e
      · intro ⟨e1, e2⟩
        have := hlt e1
        rw [e1] at c'
        omega

theorem resizeInputs_spec {s s' : State} {h n : Nat} (hE : E s) (hr : resizeInputs s h n = .ok s') :
    ∃ ip c ni, s' = { s with conns := c, inp := ip, numIn := ni } ∧
      EdgeInv s.size s.alive ni ip s.numOut c ∧ s.live h ∧
      ni h = n ∧ (∀ x, x ≠ h → ni x = s.numIn x) ∧
      (∀ d o y, y ∈ c d o → y ∈ s.conns d o) := by
  unfold resizeInputs at hr
  split at hr
  · cases hr
  rename_i hl
  have hl : s.live h := Classical.not_not.mp hl
  obtain ⟨s1, h1, h2⟩ := bind_ok.mp hr
  obtain ⟨ip, c, rfl, hE1, _, hz, hmem⟩ := disconnectRange_spec _ hE h1
  cases h2
  refine ⟨_, c, _, rfl, truncIn_edge hE1 h n ?_, hl, by simp, fun x hx => by simp [upd_apply, hx], hmem⟩
  intro i h1 h2
  apply hz
  rw [List.mem_range'_1]
  show n ≤ i ∧ i < n + (s.numIn h - n)
  have : i < s.numIn h := h2
  omega

theorem drainOutput_spec {h o : Nat} (fuel : Nat) {s s' : State} (hE : E s) (hr : drainOutput fuel s h o = .ok s') :
    ∃ ip c, s' = { s with conns := c, inp := ip } ∧
      EdgeInv s.size s.alive s.numIn ip s.numOut c ∧ c h o = [] ∧
      (∀ d o y, y ∈ c d o → y ∈ s.conns d o) := by
  induction fuel generalizing s with
  | zero =>
    unfold drainOutput at hr
    split at hr
    · rename_i he
      have e : s = s' := by injection hr
      subst e; exact ⟨s.inp, s.conns, rfl, hE, he, fun _ _ _ hy => hy⟩
    · cases hr
  | succ f ih =>
    unfold drainOutput at hr
    split at hr
    · rename_i he
      have e : s = s' := by injection hr
      subst e; exact ⟨s.inp, s.conns, rfl, hE, he, fun _ _ _ hy => hy⟩
    · obtain ⟨s1, h1, h2⟩ := bind_ok.mp hr
      obtain ⟨ip1, c1, rfl, hE1, _, _, _, _, _, _, hmem1⟩ := disconnect_spec hE h1
      obtain ⟨ip, c, rfl, hE2, hz, hmem⟩ := ih (s := { s with conns := c1, inp := ip1 }) hE1 h2
      exact ⟨ip, c, rfl, hE2, hz, fun d o y hy => hmem1 d o y (hmem d o y hy)⟩

theorem drainRange_spec {h : Nat} (os : List Nat) {s s' : State} (hE : E s) (hr : drainRange s h os = .ok s') :
    ∃ ip c, s' = { s with conns := c, inp := ip } ∧
      EdgeInv s.size s.alive s.numIn ip s.numOut c ∧ (∀ o ∈ os, c h o = []) ∧
      (∀ d o y, y ∈ c d o → y ∈ s.conns d o) := by
  induction os generalizing s with
  | nil =>
    have e : s = s' := by injection hr
    subst e; exact ⟨s.inp, s.conns, rfl, hE, by simp, fun _ _ _ hy => hy⟩
  | cons o os ih =>
    obtain ⟨s1, h1, h2⟩ := bind_ok.mp hr
    obtain ⟨ip1, c1, rfl, hE1, hz1, hmem1⟩ := drainOutput_spec _ hE h1
    obtain ⟨ip, c, rfl, hE2, hz, hmem⟩ := ih (s := { s with conns := c1, inp := ip1 }) hE1 h2
    refine ⟨ip, c, rfl, hE2, ?_, fun d o y hy => hmem1 d o y (hmem d o y hy)⟩
    intro j hj
    rcases List.mem_cons.mp hj with e | e
    · subst e
      apply List.eq_nil_iff_forall_not_mem.mpr
      intro y hy
      have := hmem h j y hy
      simp only at this
      rw [hz1] at this; cases this
    · exact hz j e

theorem truncOut_edge {size : Nat} {alive : Nat → Bool} {numIn : Nat → Nat} {inp : Nat → Nat → Option NodePort}
    {numOut : Nat → Nat} {conns : Nat → Nat → List NodePort}
    (hE : EdgeInv size alive numIn inp numOut conns) (h n : Nat)
    (hz : ∀ o, n ≤ o → o < numOut h → conns h o = []) :
    EdgeInv size alive numIn inp (upd numOut h n) (clearFrom conns h (min n (numOut h)) []) := by
  obtain ⟨hfwd, hbwd⟩ := hE
  constructor
  · intro h' hs' ha' i' hi' d' hd'
    obtain ⟨a, b, c', e⟩ := hfwd h' hs' ha' i' hi' d' hd'
    have hlt : d'.node = h → d'.port < n := by
      intro e1
      apply Classical.byContradiction; intro hge
      have := hz d'.port (by omega) (by rw [← e1]; exact c')
      rw [← e1] at this; rw [this] at e; simp at e
    refine ⟨a, b, ?_, ?_⟩
    · rw [upd_apply]; split
      · rename_i e1; exact hlt e1
      · exact c'
    · rw [clearFrom_apply, if_neg]
      · exact e
      · intro ⟨e1, e2⟩
        have := hlt e1
        rw [e1] at c'
        omega
  · intro d' hs' ha' o' ho' c hc
    rw [clearFrom_apply] at hc
    split at hc
    · cases hc
    · rename_i hne
      rw [upd_apply] at ho'
      have ho'' : o' < numOut d' := by
        split at ho'
        · rename_i e; subst e
          have : ¬ min n (numOut d') ≤ o' := fun e2 => hne ⟨rfl, e2⟩
          omega
        · exact ho'
      exact hbwd d' hs' ha' o' ho'' c hc

theorem resizeOutputs_spec {s s' : State} {h n : Nat} (hE : E s) (hr : resizeOutputs s h n = .ok s') :
    ∃ ip c no ct, s' = { s with conns := c, inp := ip, numOut := no, ctype := ct } ∧
      EdgeInv s.size s.alive s.numIn ip no c ∧ s.live h ∧
      no h = n ∧ (∀ x, x ≠ h → no x = s.numOut x) := by
  unfold resizeOutputs at hr
  split at hr
  · cases hr
  rename_i hl
  have hl : s.live h := Classical.not_not.mp hl
  obtain ⟨s1, h1, h2⟩ := bind_ok.mp hr
  obtain ⟨ip, c, rfl, hE1, hz, hmem⟩ := drainRange_spec _ hE h1
  cases h2
  refine ⟨ip, _, _, _, rfl, truncOut_edge hE1 h n ?_, hl, by simp, fun x hx => by simp [upd_apply, hx]⟩
  intro i h1 h2
  apply hz
  rw [List.mem_range'_1]
  show n ≤ i ∧ i < n + (s.numOut h - n)
  have : i < s.numOut h := h2
  omega

theorem bypassLoop_spec {h o : Nat} {src : Option NodePort} (fuel : Nat) {s s' : State} (hE : E s)
    (hr : bypassLoop fuel s h o src = .ok s') :
    ∃ ip c, s' = { s with conns := c, inp := ip } ∧
      EdgeInv s.size s.alive s.numIn ip s.numOut c ∧ c h o = [] := by
  induction fuel generalizing s with
  | zero =>
    unfold bypassLoop at hr
    split at hr
    · rename_i he
      have e : s = s' := by injection hr
      subst e; exact ⟨s.inp, s.conns, rfl, hE, he⟩
    · cases hr
  | succ f ih =>
    unfold bypassLoop at hr
    split at hr
    · rename_i he
      have e : s = s' := by injection hr
      subst e; exact ⟨s.inp, s.conns, rfl, hE, he⟩
    · obtain ⟨s1, h1, h2⟩ := bind_ok.mp hr
      obtain ⟨ip1, c1, rfl, hE1, _⟩ := connect_spec hE h1
      obtain ⟨ip, c, rfl, hE2, hz⟩ := ih (s := { s with conns := c1, inp := ip1 }) hE1 h2
      exact ⟨ip, c, rfl, hE2, hz⟩

theorem free_edge {size : Nat} {alive : Nat → Bool} {numIn : Nat → Nat} {inp : Nat → Nat → Option NodePort}
    {numOut : Nat → Nat} {conns : Nat → Nat → List NodePort}
    (hE : EdgeInv size alive numIn inp numOut conns) (h : Nat) (h1 : numIn h = 0) (h2 : numOut h = 0) :
    EdgeInv size (upd alive h false) numIn inp numOut conns := by
  obtain ⟨hfwd, hbwd⟩ := hE
  constructor
  · intro h' hs' ha' i' hi' d' hd'
    rw [upd_apply] at ha'
    split at ha'
    · cases ha'
    · obtain ⟨a, b, c', e⟩ := hfwd h' hs' ha' i' hi' d' hd'
      refine ⟨a, ?_, c', e⟩
      rw [upd_apply, if_neg]
      · exact b
      · intro e1; rw [e1, h2] at c'; omega
  · intro d' hs' ha' o' ho' c hc
    rw [upd_apply] at ha'
    split at ha'
    · cases ha'
    · obtain ⟨a, b, c', e⟩ := hbwd d' hs' ha' o' ho' c hc
      refine ⟨a, ?_, c', e⟩
      rw [upd_apply, if_neg]
      · exact b
      · intro e1; rw [e1, h1] at c'; omega

theorem create_edge {size : Nat} {alive : Nat → Bool} {numIn : Nat → Nat} {inp : Nat → Nat → Option NodePort}
    {numOut : Nat → Nat} {conns : Nat → Nat → List NodePort}
    (hE : EdgeInv size alive numIn inp numOut conns) (nIn nOut : Nat) :
    EdgeInv (size + 1) (upd alive size true) (upd numIn size nIn) (clearFrom inp size 0 none)
      (upd numOut size nOut) (clearFrom conns size 0 []) := by
  obtain ⟨hfwd, hbwd⟩ := hE
  constructor
  · intro h' hs' ha' i' hi' d' hd'
    rw [clearFrom_apply] at hd'
    split at hd'
    · cases hd'
    · rename_i hne
      have hne' : h' ≠ size := fun e => hne ⟨e, Nat.zero_le _⟩
      rw [upd_apply, if_neg hne'] at ha' hi'
      obtain ⟨a, b, c', e⟩ := hfwd h' (by omega) ha' i' hi' d' hd'
      have : d'.node ≠ size := by omega
      refine ⟨by omega, by rw [upd_apply, if_neg this]; exact b, by rw [upd_apply, if_neg this]; exact c', ?_⟩
      rw [clearFrom_apply, if_neg (fun e => this e.1)]; exact e
  · intro d' hs' ha' o' ho' c hc
    rw [clearFrom_apply] at hc
    split at hc
    · cases hc
    · rename_i hne
      have hne' : d' ≠ size := fun e => hne ⟨e, Nat.zero_le _⟩
      rw [upd_apply, if_neg hne'] at ha' ho'
      obtain ⟨a, b, c', e⟩ := hbwd d' (by omega) ha' o' ho' c hc
      have : c.node ≠ size := by omega
      refine ⟨by omega, by rw [upd_apply, if_neg this]; exact b, by rw [upd_apply, if_neg this]; exact c', ?_⟩
      rw [clearFrom_apply, if_neg (fun e => this e.1)]; exact e

end Gatery.C09
