import GateryModel.C09.EdgeLemmas
import GateryModel.C09.CacheLemmas
/-! `Inv` is preserved by every operation; reachable states satisfy it. -/
namespace Gatery.C09

theorem inv_init : Inv State.init := by
  refine ⟨⟨⟨?_, ?_⟩, ⟨?_, ?_⟩, ⟨?_, ?_⟩, ⟨?_, ?_⟩, ?_, ?_, ?_⟩, ?_, ?_, ?_⟩ <;> simp [State.init, CAInv, DriverInv, CacheInv]

theorem setType_spec {s s' : State} {h o : Nat} {t : CType} (hr : setOutputConnectionType s h o t = .ok s') :
    ∃ ct, s' = { s with ctype := ct } := by
  unfold setOutputConnectionType at hr
  split at hr
  · cases hr
  split at hr
  · split at hr
    · cases hr
    · exact ⟨_, (Except.ok.inj hr).symm⟩
  · exact ⟨s.ctype, (Except.ok.inj hr).symm⟩

theorem destroyNode_spec {s s' : State} {h : Nat} (hI : GInv s) (hr : destroyNode s h = .ok s') :
    GInv s' ∧ s'.size = s.size ∧ s'.alive = upd s.alive h false ∧ s'.order = s.order ∧ s.live h := by
  unfold destroyNode at hr
  split at hr
  · cases hr
  rename_i hl
  have hl : s.live h := Classical.not_not.mp hl
  split at hr
  · cases hr
  split at hr
  · cases hr
  rename_i hunb
  obtain ⟨hE, hG, hC, hId, hA, hD, hK⟩ := hI
  have hns := notslot_of_unbound hD h hunb
  obtain ⟨s1, h1, hr⟩ := bind_ok.mp hr
  obtain ⟨gn, gr, rfl, hG1, _, hgr⟩ := moveToGroup_spec hG h1
  obtain ⟨s2, h2, hr⟩ := bind_ok.mp hr
  have hK1 := detachRange_cache (s := { s with gnodes := gn, grp := gr }) _ hK h2
  obtain ⟨cd, ck, ca, rfl, hC1, hmon, hck⟩ := detachRange_spec (s := { s with gnodes := gn, grp := gr }) _ hC h2
  have hD1 : DriverInv s.size s.alive s.dk s.numClk ck s.nclocks s.calive s.drv := by
    obtain ⟨cd', ck', ca', e', hfr⟩ := detachRange_frame (s := { s with gnodes := gn, grp := gr }) _ h2
    have hck' : ck = ck' := by injection e'
    subst hck'
    exact di_clk_other hD h hfr hns
  have hA1 : CAInv s.size s.alive s.numClk ck s.calive := ca_mono hA (fun x y v e => by
    rcases hmon x y with e1 | e1
    · rw [e1] at e; cases e
    · left; rw [← e1]; exact e)
  obtain ⟨s3, h3, hr⟩ := bind_ok.mp hr
  obtain ⟨ip, c, ni, rfl, hE1, _, hni, _, _⟩ :=
    resizeInputs_spec (s := { s with gnodes := gn, grp := gr, clocked := cd, clk := ck, cache := ca }) hE h3
  obtain ⟨s4, h4, hr⟩ := bind_ok.mp hr
  obtain ⟨ip2, c2, no, ct, rfl, hE2, _, hno, _⟩ :=
    resizeOutputs_spec (s := { s with gnodes := gn, grp := gr, clocked := cd, clk := ck, cache := ca, conns := c, inp := ip, numIn := ni }) hE1 h4
  have e := Except.ok.inj hr
  subst e
  refine ⟨⟨free_edge hE2 h hni hno, free_group hG1 h hgr, free_clock hC1 h ?_, free_id hId h, free_ca hA1 h, free_di hD1 h hns, hK1⟩, rfl, rfl, rfl, hl⟩
  intro p hp
  exact hck p (List.mem_range.mpr hp)

theorem eraseNode_inv {s s' : State} {idx : Nat} (hI : Inv s) (hr : eraseNode s idx = .ok s') : Inv s' := by
  unfold eraseNode at hr
  split at hr
  · cases hr
  rename_i h hh
  obtain ⟨s1, h1, hr⟩ := bind_ok.mp hr
  obtain ⟨hG1, e1, e2, e3, _⟩ := destroyNode_spec hI.1 h1
  have e := Except.ok.inj hr
  subst e
  refine ⟨hG1, ?_⟩
  show OrderInv s1.size s1.alive (eraseSwap s1.order idx)
  rw [e1, e2, e3]
  exact erase_order hI.2 idx h hh

theorem eraseLoop_inv {σ α : Type} (W : Nat) (f : σ → α → σ × Bool) (J : σ → List α → Prop)
    (hstep : ∀ st v i (hi : i < v.length), J st v →
      (if (f st v[i]).2 = true then J (f st v[i]).1 (eraseSwap v i) else J (f st v[i]).1 v)) :
    ∀ fuel st i v vis st' v' vis', J st v → eraseLoop W f fuel st i v vis = some (st', v', vis') → J st' v' := by
  intro fuel
  induction fuel with
  | zero =>
    intro st i v vis st' v' vis' hJ hr
    unfold eraseLoop at hr
    split at hr
    · cases hr
    · cases hr; exact hJ
  | succ n ih =>
    intro st i v vis st' v' vis' hJ hr
    unfold eraseLoop at hr
    split at hr
    · rename_i hi
      have := hstep st v i hi hJ
      simp only at hr
      split at hr
      · rename_i hd
        rw [if_pos hd] at this
        exact ih _ _ _ _ _ _ _ this hr
      · rename_i hd
        rw [if_neg hd] at this
        exact ih _ _ _ _ _ _ _ this hr
    · cases hr; exact hJ

theorem cull_inv {s s' : State} (hI : Inv s) (hr : cullOrphanedSignalNodes s = .ok s') : Inv s' := by
  unfold cullOrphanedSignalNodes at hr
  let J : Res State → List Nat → Prop := fun r v => ∀ st, r = .ok st → GInv st ∧ OrderInv st.size st.alive v
  have hstep : ∀ (st : Res State) (v : List Nat) (i : Nat) (hi : i < v.length), J st v →
      (if (cullVisit st v[i]).2 = true then J (cullVisit st v[i]).1 (eraseSwap v i) else J (cullVisit st v[i]).1 v) := by
    intro st v i hi hJ
    cases st with
    | error e => simp [cullVisit, J]
    | ok s0 =>
      obtain ⟨hG0, hO0⟩ := hJ s0 rfl
      unfold cullVisit
      simp only
      split
      · simp only [if_true]
        intro st hst
        obtain ⟨hG1, e1, e2, _, _⟩ := destroyNode_spec hG0 hst
        refine ⟨hG1, ?_⟩
        rw [e1, e2]
        exact erase_order hO0 i v[i] (List.getElem?_eq_getElem hi)
      · simp only [Bool.false_eq_true, if_false]
        intro st hst
        have := Except.ok.inj hst
        subst this
        exact ⟨hG0, hO0⟩
  split at hr
  · cases hr
  · cases hr
  · rename_i s1 v vis heq
    have := eraseLoop_inv (2 ^ 64) cullVisit J hstep _ _ _ _ _ _ _ _ (fun st hst => by
      have := Except.ok.inj hst; subst this; exact ⟨hI.1, hI.2⟩) heq
    obtain ⟨hG1, hO1⟩ := this s1 rfl
    have e := Except.ok.inj hr
    subst e
    exact ⟨hG1, hO1⟩

theorem signalConnect_spec {s s' : State} {h : Nat} {d : Option NodePort} (hE : E s) (hr : signalConnect s h d = .ok s') :
    ∃ ip c ct, s' = { s with conns := c, inp := ip, ctype := ct } ∧ EdgeInv s.size s.alive s.numIn ip s.numOut c := by
  unfold signalConnect at hr
  split at hr
  · cases hr
  split at hr
  · cases hr
  split at hr
  · obtain ⟨ip, c, rfl, h1, _⟩ := connect_spec hE hr
    exact ⟨ip, c, s.ctype, rfl, h1⟩
  · split at hr
    · split at hr
      · obtain ⟨ip, c, rfl, h1, _⟩ := connect_spec hE hr
        exact ⟨ip, c, s.ctype, rfl, h1⟩
      · cases hr
    · obtain ⟨s1, h1, hr⟩ := bind_ok.mp hr
      obtain ⟨ct, rfl⟩ := setType_spec h1
      obtain ⟨ip, c, rfl, h2, _⟩ := connect_spec (s := { s with ctype := ct }) hE hr
      exact ⟨ip, c, ct, rfl, h2⟩


/-! ### cloning, copySubnet, clock destruction -/

/-- the part of `inv_step` that the composite operations below are built from -/
theorem prim_inv {s s' : State} (hI : Inv s) :
    (∀ sig a b c k, Inv (createNode s sig a b c k)) ∧
    (∀ h g, moveToGroup s h g = .ok s' → Inv s') ∧
    (∀ h i d, connectInput s h i d = .ok s' → Inv s') ∧
    (∀ h p c, NotSlot s h → attachClock s h p c = .ok s' → Inv s') ∧
    Inv (createClock s) := by
  obtain ⟨⟨hE, hG, hC, hId, hA, hD, hK⟩, hO⟩ := hI
  refine ⟨?_, ?_, ?_, ?_, ?_⟩
  · intro sig a b c k
    exact ⟨⟨create_edge hE a b, create_group hG, create_clock hC c, create_id hId, create_ca hA c, create_di hD k c, hK⟩, create_order hO⟩
  · intro h g hr
    obtain ⟨gn, gr, rfl, h1, _⟩ := moveToGroup_spec hG hr
    exact ⟨⟨hE, h1, hC, hId, hA, hD, hK⟩, hO⟩
  · intro h i d hr
    obtain ⟨ip, c, rfl, h1, _⟩ := connect_spec hE hr
    exact ⟨⟨h1, hG, hC, hId, hA, hD, hK⟩, hO⟩
  · intro h p c hns hr
    have hD1 := attachClock_di hD hns hr
    have hK1 := attachClock_cache hC hK hr
    obtain ⟨cd, ck, ca, rfl, h1, hprov⟩ := attachClock_spec hC hr
    exact ⟨⟨hE, hG, h1, hId, ca_mono hA hprov, hD1, hK1⟩, hO⟩
  · exact ⟨⟨hE, hG, newclock_clock hC, hId, newclock_ca hA _, newclock_di hD, newclock_cache hK⟩, hO⟩

theorem cloneNode_inv {s s' : State} {src : Nat} (hI : Inv s) (hr : cloneNode s src = .ok s') : Inv s' := by
  unfold cloneNode at hr
  split at hr
  · cases hr
  simp only at hr
  have h1 : Inv (createNode s (s.isSig src) (s.numIn src) (s.numOut src) (s.numClk src) (s.dk src)) := (prim_inv (s' := s) hI).1 _ _ _ _ _
  -- changing output types does not touch anything the invariant mentions
  have h2 : Inv { createNode s (s.isSig src) (s.numIn src) (s.numOut src) (s.numClk src) (s.dk src) with
      ctype := fun x y => if x = s.size then s.ctype src y
        else (createNode s (s.isSig src) (s.numIn src) (s.numOut src) (s.numClk src) (s.dk src)).ctype x y } := h1
  exact (prim_inv h2).2.1 _ _ hr

theorem fresh_id {size : Nat} {alive : Nat → Bool} {nid : Nat → Nat} {nextId : Nat}
    (hI : IdInv size alive nid nextId) (h : Nat) : IdInv size alive (upd nid h nextId) (nextId + 1) := by
  obtain ⟨h1, h2⟩ := hI
  constructor
  · intro x hs ha
    rw [upd_apply]; split
    · omega
    · have := h1 x hs ha; omega
  · intro x hs ha k hk hka e
    simp only [upd_apply] at e
    by_cases e1 : x = h <;> by_cases e2 : k = h
    · omega
    · rw [if_pos e1, if_neg e2] at e; have := h1 k hk hka; omega
    · rw [if_neg e1, if_pos e2] at e; have := h1 x hs ha; omega
    · rw [if_neg e1, if_neg e2] at e; exact h2 x hs ha k hk hka e

theorem setFreshId_inv {s : State} (h : Nat) (hI : Inv s) : Inv (setFreshId s h) := by
  obtain ⟨⟨hE, hG, hC, hId, hA, hD, hK⟩, hO⟩ := hI
  exact ⟨⟨hE, hG, hC, fresh_id hId h, hA, hD, hK⟩, hO⟩

theorem foldRes_pres {α : Type} (P : State → Prop) (f : State → α → Res State)
    (hf : ∀ s a s', P s → f s a = .ok s' → P s') :
    ∀ (l : List α) (s s' : State), P s → foldRes f s l = .ok s' → P s' := by
  intro l
  induction l with
  | nil => intro s s' hI hr; have e := Except.ok.inj hr; subst e; exact hI
  | cons a l ih =>
    intro s s' hI hr
    obtain ⟨s1, h1, h2⟩ := bind_ok.mp hr
    exact ih s1 s' (hf s a s1 hI h1) h2

/-- the clone is a new handle; clocks and their driver slots are untouched -/
theorem cloneNode_frame {s s' : State} {src : Nat} (hI : Inv s) (hr : cloneNode s src = .ok s') :
    s'.size = s.size + 1 ∧ s'.drv = s.drv ∧ s'.nclocks = s.nclocks ∧ s'.calive = s.calive := by
  unfold cloneNode at hr
  split at hr
  · cases hr
  simp only at hr
  have hG : G { createNode s (s.isSig src) (s.numIn src) (s.numOut src) (s.numClk src) (s.dk src) with
      ctype := fun x y => if x = s.size then s.ctype src y
        else (createNode s (s.isSig src) (s.numIn src) (s.numOut src) (s.numClk src) (s.dk src)).ctype x y } :=
    ((prim_inv (s' := s) hI).1 (s.isSig src) (s.numIn src) (s.numOut src) (s.numClk src) (s.dk src)).1.2.1
  obtain ⟨gn, gr, rfl, _⟩ := moveToGroup_spec hG hr
  exact ⟨rfl, rfl, rfl, rfl⟩

/-- what `copySubnet` maintains: the invariant, and every driver slot still points to a node that existed before the call -/
def CopyP (b : Nat) (s : State) : Prop := Inv s ∧ SB b s ∧ b ≤ s.size

theorem copyScan_inv (inputs : List NodePort) (b : Nat) :
    ∀ (fuel : Nat) (s : State) (op : List NodePort) (closed : List Nat) (m : List (Nat × Nat)) (s' : State) (m' : List (Nat × Nat)),
      CopyP b s → (∀ e ∈ m, b ≤ e.2) → copyScan inputs fuel s op closed m = .ok (s', m') →
      CopyP b s' ∧ (∀ e ∈ m', b ≤ e.2) := by
  intro fuel
  induction fuel with
  | zero =>
    intro s op closed m s' m' hI hm hr
    unfold copyScan at hr
    split at hr
    · have e := Except.ok.inj hr
      injection e with e1 e2; subst e1; subst e2; exact ⟨hI, hm⟩
    · cases hr
  | succ n ih =>
    intro s op closed m s' m' hI hm hr
    unfold copyScan at hr
    split at hr
    · have e := Except.ok.inj hr
      injection e with e1 e2; subst e1; subst e2; exact ⟨hI, hm⟩
    · split at hr
      · exact ih _ _ _ _ _ _ hI hm hr
      · obtain ⟨s1, h1, h2⟩ := bind_ok.mp hr
        obtain ⟨hInv, hSB, hb⟩ := hI
        obtain ⟨e1, e2, e3, e4⟩ := cloneNode_frame hInv h1
        refine ih _ _ _ _ _ _ ⟨cloneNode_inv hInv h1, ?_, by omega⟩ ?_ h2
        · intro c hc hcal k hk hk0 d hd
          rw [e2] at hd; rw [e3] at hc; rw [e4] at hcal
          exact hSB c hc hcal k hk hk0 d hd
        · intro e he
          rcases List.mem_append.mp he with h3 | h3
          · exact hm e h3
          · have h4 : e.2 = s.size := by
              have := List.mem_singleton.mp h3
              rw [this]
            rw [h4]; exact hb

theorem foldl_setFreshId_inv (b : Nat) (l : List (Nat × Nat)) :
    ∀ (s : State), CopyP b s → CopyP b (l.foldl (fun s e => setFreshId s e.2) s) := by
  induction l with
  | nil => intro s hI; exact hI
  | cons a l ih => intro s hI; exact ih _ ⟨setFreshId_inv a.2 hI.1, hI.2.1, hI.2.2⟩

theorem mem_insertByKey (key : Nat → Nat) (e x : Nat × Nat) (l : List (Nat × Nat)) :
    x ∈ insertByKey key e l → x = e ∨ x ∈ l := by
  induction l with
  | nil => intro h; simp [insertByKey] at h; exact Or.inl h
  | cons y ys ih =>
    intro h
    unfold insertByKey at h
    split at h
    · rcases List.mem_cons.mp h with h1 | h1
      · exact Or.inl h1
      · exact Or.inr h1
    · rcases List.mem_cons.mp h with h1 | h1
      · exact Or.inr (by rw [h1]; exact List.mem_cons_self)
      · rcases ih h1 with h2 | h2
        · exact Or.inl h2
        · exact Or.inr (List.mem_cons_of_mem _ h2)

theorem mem_sortByKey (key : Nat → Nat) (l : List (Nat × Nat)) (x : Nat × Nat) : x ∈ sortByKey key l → x ∈ l := by
  unfold sortByKey
  suffices h : ∀ (l acc : List (Nat × Nat)), x ∈ l.foldl (fun acc e => insertByKey key e acc) acc → x ∈ acc ∨ x ∈ l by
    intro hx
    rcases h l [] hx with h1 | h1
    · cases h1
    · exact h1
  intro l
  induction l with
  | nil => intro acc h; exact Or.inl h
  | cons y ys ih =>
    intro acc h
    rcases ih _ h with h1 | h1
    · rcases mem_insertByKey key y x acc h1 with h2 | h2
      · exact Or.inr (by rw [h2]; exact List.mem_cons_self)
      · exact Or.inl h2
    · exact Or.inr (List.mem_cons_of_mem _ h1)

theorem copyReconnect_inv (b : Nat) (m : List (Nat × Nat)) (cc : Bool) (s : State) (e : Nat × Nat) (s' : State) (he : b ≤ e.2)
    (hI : CopyP b s) (hr : copyReconnect m cc s e = .ok s') : CopyP b s' := by
  obtain ⟨old, new⟩ := e
  unfold copyReconnect at hr
  simp only at hr
  obtain ⟨s1, h1, h2⟩ := bind_ok.mp hr
  have hI1 : CopyP b s1 := by
    refine foldRes_pres (CopyP b) _ ?_ _ _ _ hI h1
    intro s0 i s0' hI0 hr0
    try simp only at hr0
    split at hr0
    · have e := Except.ok.inj hr0; subst e; exact hI0
    · split at hr0
      · have e := Except.ok.inj hr0; subst e; exact hI0
      · obtain ⟨ip, c, e1, _⟩ := connect_spec hI0.1.1.1 hr0
        refine ⟨(prim_inv hI0.1).2.2.1 _ _ _ hr0, ?_, ?_⟩
        · subst e1; exact hI0.2.1
        · subst e1; exact hI0.2.2
  refine foldRes_pres (CopyP b) _ ?_ _ _ _ hI1 h2
  intro s0 p s0' hI0 hr0
  try simp only at hr0
  split at hr0
  · have e := Except.ok.inj hr0; subst e; exact hI0
  · have hSBc : SB b (createClock s0) := by
      intro c hc hcal k hk hk0 d hd
      simp only [createClock] at hd hc hcal
      split at hd
      · cases hd
      · rename_i hne
        rw [upd_apply, if_neg hne] at hcal
        exact hI0.2.1 c (by omega) hcal k hk hk0 d hd
    split at hr0
    · have hIc : Inv (createClock s0) := (prim_inv (s' := s0) hI0.1).2.2.2.2
      obtain ⟨cd, ck, ca, e1, _⟩ := attachClock_frame hr0
      refine ⟨(prim_inv (s' := s0') hIc).2.2.2.1 _ _ _ (notSlot_of_SB new hSBc he) hr0, ?_, ?_⟩
      · subst e1; exact hSBc
      · subst e1; exact hI0.2.2
    · obtain ⟨cd, ck, ca, e1, _⟩ := attachClock_frame hr0
      refine ⟨(prim_inv hI0.1).2.2.2.1 _ _ _ (notSlot_of_SB new hI0.2.1 he) hr0, ?_, ?_⟩
      · subst e1; exact hI0.2.1
      · subst e1; exact hI0.2.2

theorem copySubnet_inv {s s' : State} {ins outs : List NodePort} {cc : Bool} (hI : Inv s)
    (hr : copySubnet s ins outs cc = .ok s') : Inv s' := by
  unfold copySubnet at hr
  split at hr
  · cases hr
  simp only at hr
  obtain ⟨⟨s1, m⟩, h1, h2⟩ := bind_ok.mp hr
  have h0 : CopyP s.size s := ⟨hI, SB_of_D hI.1.2.2.2.2.2.1, Nat.le_refl _⟩
  obtain ⟨hI1, hm⟩ := copyScan_inv ins s.size _ _ _ _ _ _ _ h0 (by simp) h1
  simp only at h2
  have hP := foldl_setFreshId_inv s.size (sortByKey s1.nid m) s1 hI1
  -- every clone is reconnected with the bound of its handle
  suffices h : ∀ (l : List (Nat × Nat)) (t t' : State), (∀ e ∈ l, s.size ≤ e.2) → CopyP s.size t →
      foldRes (copyReconnect m cc) t l = .ok t' → CopyP s.size t' from
    (h _ _ _ (fun e he => hm e (mem_sortByKey _ _ _ he)) hP h2).1
  intro l
  induction l with
  | nil => intro t t' _ hI hr; have e := Except.ok.inj hr; subst e; exact hI
  | cons a l ih =>
    intro t t' hl hI hr
    obtain ⟨t1, h3, h4⟩ := bind_ok.mp hr
    exact ih t1 t' (fun e he => hl e (List.mem_cons_of_mem _ he))
      (copyReconnect_inv s.size m cc t a t1 (hl a List.mem_cons_self) hI h3) h4

theorem destroyClock_inv {s s' : State} {c : Nat} (hI : Inv s) (hr : destroyClock s c = .ok s') : Inv s' := by
  obtain ⟨⟨hE, hG, hC, hId, hA, hD, hK⟩, hO⟩ := hI
  have hD1 := destroyClock_di hC hD hr
  have hK1 := destroyClock_cache hK hr
  unfold destroyClock at hr
  split at hr
  · cases hr
  obtain ⟨s1, h1, h2⟩ := bind_ok.mp hr
  obtain ⟨cd, ck, ca, rfl, hC1, hz, hmon⟩ := drainClock_spec _ hC h1
  have e := Except.ok.inj h2
  subst e
  have hA1 : CAInv s.size s.alive s.numClk ck s.calive := ca_mono hA (fun x y v e => by
    rcases hmon x y with e1 | e1
    · rw [e1] at e; cases e
    · left; rw [← e1]; exact e)
  exact ⟨⟨hE, hG, hC1, hId, killclock_ca hA1 hC1 c hz, hD1, hK1⟩, hO⟩

theorem typedConnect_spec {s s' : State} {cls h i : Nat} {d : Option NodePort} (hE : E s) (hr : typedConnect s cls h i d = .ok s') :
    ∃ ip c ct, s' = { s with conns := c, inp := ip, ctype := ct } ∧ EdgeInv s.size s.alive s.numIn ip s.numOut c := by
  unfold typedConnect at hr
  split at hr
  · cases hr
  obtain ⟨s1, h1, hr⟩ := bind_ok.mp hr
  obtain ⟨ip, c, rfl, hE1, _⟩ := connect_spec hE h1
  obtain ⟨t, _, hr⟩ := bind_ok.mp hr
  obtain ⟨ct, rfl⟩ := setType_spec hr
  exact ⟨ip, c, ct, rfl, hE1⟩

/-- every operation preserves the invariant -/
theorem inv_step {s s' : State} (op : Op) (hI : Inv s) (hr : step s op = .ok s') : Inv s' := by
  obtain ⟨⟨hE, hG, hC, hId, hA, hD, hK⟩, hO⟩ := hI
  cases op with
  | createNode sig a b c k =>
    have e := Except.ok.inj hr
    subst e
    exact ⟨⟨create_edge hE a b, create_group hG, create_clock hC c, create_id hId, create_ca hA c, create_di hD k c, hK⟩, create_order hO⟩
  | createGroup =>
    have e := Except.ok.inj hr
    subst e
    exact ⟨⟨hE, newgroup_group hG, hC, hId, hA, hD, hK⟩, hO⟩
  | createClock =>
    have e := Except.ok.inj hr
    subst e
    exact ⟨⟨hE, hG, newclock_clock hC, hId, newclock_ca hA _, newclock_di hD, newclock_cache hK⟩, hO⟩
  | connect h i d =>
    obtain ⟨ip, c, rfl, h1, _⟩ := connect_spec hE hr
    exact ⟨⟨h1, hG, hC, hId, hA, hD, hK⟩, hO⟩
  | disconnect h i =>
    obtain ⟨ip, c, rfl, h1, _⟩ := disconnect_spec hE hr
    exact ⟨⟨h1, hG, hC, hId, hA, hD, hK⟩, hO⟩
  | signalConnect h d =>
    obtain ⟨ip, c, ct, rfl, h1⟩ := signalConnect_spec hE hr
    exact ⟨⟨h1, hG, hC, hId, hA, hD, hK⟩, hO⟩
  | resizeInputs h n =>
    obtain ⟨ip, c, ni, rfl, h1, _⟩ := resizeInputs_spec hE hr
    exact ⟨⟨h1, hG, hC, hId, hA, hD, hK⟩, hO⟩
  | resizeOutputs h n =>
    obtain ⟨ip, c, no, ct, rfl, h1, _⟩ := resizeOutputs_spec hE hr
    exact ⟨⟨h1, hG, hC, hId, hA, hD, hK⟩, hO⟩
  | bypass h o i =>
    simp only [step] at hr
    unfold bypassOutputToInput at hr
    split at hr
    · cases hr
    split at hr
    · cases hr
    split at hr
    · cases hr
    obtain ⟨ip, c, rfl, h1, _⟩ := bypassLoop_spec _ hE hr
    exact ⟨⟨h1, hG, hC, hId, hA, hD, hK⟩, hO⟩
  | setType h o t =>
    obtain ⟨ct, rfl⟩ := setType_spec hr
    exact ⟨⟨hE, hG, hC, hId, hA, hD, hK⟩, hO⟩
  | moveToGroup h g =>
    obtain ⟨gn, gr, rfl, h1, _⟩ := moveToGroup_spec hG hr
    exact ⟨⟨hE, h1, hC, hId, hA, hD, hK⟩, hO⟩
  | attachClock h p c =>
    simp only [step] at hr
    split at hr
    · cases hr
    rename_i h0
    have h0 : s.dk h = 0 := Classical.not_not.mp h0
    have hD1 := attachClock_di hD (notslot_of_dk0 hD h h0) hr
    have hK1 := attachClock_cache hC hK hr
    obtain ⟨cd, ck, ca, rfl, h1, hprov⟩ := attachClock_spec hC hr
    exact ⟨⟨hE, hG, h1, hId, ca_mono hA hprov, hD1, hK1⟩, hO⟩
  | detachClock h p =>
    simp only [step] at hr
    split at hr
    · cases hr
    rename_i h0
    have h0 : s.dk h = 0 := Classical.not_not.mp h0
    have hD1 := detachClock_di hD (notslot_of_dk0 hD h h0) hr
    have hK1 := detachClock_cache hK hr
    obtain ⟨cd, ck, ca, rfl, h1, _, _, _, hmon⟩ := detachClock_spec hC hr
    have hA1 : CAInv s.size s.alive s.numClk ck s.calive := ca_mono hA (fun x y v e => by
      rcases hmon x y with e1 | e1
      · rw [e1] at e; cases e
      · left; rw [← e1]; exact e)
    exact ⟨⟨hE, hG, h1, hId, hA1, hD1, hK1⟩, hO⟩
  | addClock h c =>
    simp only [step] at hr
    split at hr
    · cases hr
    rename_i h0
    have h0 : s.dk h = 0 := Classical.not_not.mp h0
    have hD1 := addClock_di hD h0 hr
    have hK1 := addClock_cache hC hK hr
    obtain ⟨cd, ck, ca, nk, rfl, h1, hprov, hnk, _⟩ := addClock_spec hC hr
    exact ⟨⟨hE, hG, h1, hId, grow_ca hA h hprov hnk, hD1, hK1⟩, hO⟩
  | addRef h =>
    simp only [step] at hr
    unfold addRef at hr
    split at hr
    · cases hr
    · have e := Except.ok.inj hr
      subst e
      exact ⟨⟨hE, hG, hC, hId, hA, hD, hK⟩, hO⟩
  | removeRef h =>
    simp only [step] at hr
    unfold removeRef at hr
    split at hr
    · cases hr
    · split at hr
      · cases hr
      · have e := Except.ok.inj hr
        subst e
        exact ⟨⟨hE, hG, hC, hId, hA, hD, hK⟩, hO⟩
  | eraseNode idx => exact eraseNode_inv ⟨⟨hE, hG, hC, hId, hA, hD, hK⟩, hO⟩ hr
  | cullOrphanedSignals => exact cull_inv ⟨⟨hE, hG, hC, hId, hA, hD, hK⟩, hO⟩ hr
  | cloneNode src => exact cloneNode_inv ⟨⟨hE, hG, hC, hId, hA, hD, hK⟩, hO⟩ hr
  | copySubnet ins outs cc => exact copySubnet_inv ⟨⟨hE, hG, hC, hId, hA, hD, hK⟩, hO⟩ hr
  | destroyClock c => exact destroyClock_inv ⟨⟨hE, hG, hC, hId, hA, hD, hK⟩, hO⟩ hr
  | setLogicDriver k c d =>
    have hK1 := setLogicDriver_cache hC hK hr
    obtain ⟨cd, ck, ca, dv, rfl, h1, h2, h3⟩ := setLogicDriver_spec hC hA hD hr
    exact ⟨⟨hE, hG, h1, hId, h2, h3, hK1⟩, hO⟩
  | getClockedNodes c =>
    obtain ⟨hK1, ca, rfl⟩ := getClockedNodes_cache hC hK hr
    exact ⟨⟨hE, hG, hC, hId, hA, hD, hK1⟩, hO⟩
  | typedConnect cls h i d =>
    obtain ⟨ip, c, ct, rfl, h1⟩ := typedConnect_spec hE hr
    exact ⟨⟨h1, hG, hC, hId, hA, hD, hK⟩, hO⟩

/-- … and so does an operation that throws (the half-done typed connect included) -/
theorem inv_afterThrow {s : State} (op : Op) (hI : Inv s) : Inv (afterThrow s op) := by
  cases op
  case typedConnect cls h i d =>
    simp only [afterThrow]
    split
    · rename_i s1 h1; exact inv_step (.connect h i d) hI h1
    · exact hI
  all_goals exact hI

theorem inv_run (ops : List Op) : ∀ {s s' : State}, Inv s → run s ops = .ok s' → Inv s' := by
  induction ops with
  | nil => intro s s' hI hr; have e := Except.ok.inj hr; subst e; exact hI
  | cons op ops ih =>
    intro s s' hI hr
    unfold run at hr
    split at hr
    · rename_i s1 h1; exact ih (inv_step op hI h1) hr
    · exact ih (inv_afterThrow op hI) hr
    · cases hr

end Gatery.C09
