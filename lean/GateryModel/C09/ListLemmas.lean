import GateryModel.C09.Model
/-! List facts about the swap-with-back erase, `Except.bind`, function updates. Core Lean only. -/
namespace Gatery.C09

theorem eraseSwap_perm {α : Type} (l : List α) (i : Nat) (hi : i < l.length) :
    (eraseSwap l i).Perm (l.eraseIdx i) := by
  unfold eraseSwap
  cases hl : l.getLast? with
  | none =>
    have : l = [] := by simpa using hl
    subst this; simp at hi
  | some b =>
    obtain ⟨ys, rfl⟩ := List.getLast?_eq_some_iff.mp hl
    simp only
    by_cases h1 : i < ys.length
    · rw [List.set_append, if_pos h1, List.dropLast_concat, List.eraseIdx_append_of_lt_length h1,
        List.set_eq_take_append_cons_drop, if_pos h1, List.eraseIdx_eq_take_drop_succ, List.append_assoc]
      exact List.Perm.append_left _ (List.perm_append_singleton b _).symm
    · have h2 : i = ys.length := by simp at hi; omega
      subst h2
      rw [List.set_append, if_neg (Nat.lt_irrefl _), Nat.sub_self, List.eraseIdx_append_of_length_le (Nat.le_refl _), Nat.sub_self]
      simp

theorem eraseSwap_idxOf_perm {α : Type} [DecidableEq α] (l : List α) (x : α) (hx : x ∈ l) :
    (eraseSwap l (l.idxOf x)).Perm (l.erase x) := by
  rw [List.erase_eq_eraseIdx_of_idxOf rfl]
  exact eraseSwap_perm l _ (List.idxOf_lt_length_iff.mpr hx)

theorem idxOf_ne_length_iff {α : Type} [DecidableEq α] (l : List α) (x : α) : l.idxOf x ≠ l.length ↔ x ∈ l := by
  constructor
  · intro h
    by_cases hx : x ∈ l
    · exact hx
    · exact absurd (List.idxOf_eq_length hx) h
  · intro hx h
    have := List.idxOf_lt_length_iff.mpr hx
    omega

theorem count_eraseSwap_self {α : Type} [DecidableEq α] (l : List α) (x : α) (hx : l.count x = 1) :
    (eraseSwap l (l.idxOf x)).count x = 0 := by
  have hm : x ∈ l := List.count_pos_iff.mp (by omega)
  rw [(eraseSwap_idxOf_perm l x hm).count_eq, List.count_erase_self]; omega

theorem count_eraseSwap_ne {α : Type} [DecidableEq α] (l : List α) (x y : α) (hx : x ∈ l) (hne : y ≠ x) :
    (eraseSwap l (l.idxOf x)).count y = l.count y := by
  rw [(eraseSwap_idxOf_perm l x hx).count_eq, List.count_erase_of_ne hne]

theorem mem_eraseSwap {α : Type} [DecidableEq α] (l : List α) (x y : α) (hx : l.count x = 1) :
    y ∈ eraseSwap l (l.idxOf x) ↔ (y ∈ l ∧ y ≠ x) := by
  have hm : x ∈ l := List.count_pos_iff.mp (by omega)
  constructor
  · intro h
    have h1 : y ∈ l.erase x := (eraseSwap_idxOf_perm l x hm).mem_iff.mp h
    refine ⟨List.mem_of_mem_erase h1, ?_⟩
    intro e; subst e
    have := count_eraseSwap_self l y hx
    have h2 := List.count_pos_iff.mpr h
    omega
  · intro ⟨h1, h2⟩
    exact (eraseSwap_idxOf_perm l x hm).mem_iff.mpr ((List.mem_erase_of_ne h2).mpr h1)

theorem mem_of_mem_eraseSwap {α : Type} (l : List α) (i : Nat) (y : α) (h : y ∈ eraseSwap l i) : y ∈ l := by
  unfold eraseSwap at h
  cases hl : l.getLast? with
  | none => simpa [hl] using h
  | some b =>
    rw [hl] at h
    have h1 := List.dropLast_subset _ h
    obtain ⟨ys, rfl⟩ := List.getLast?_eq_some_iff.mp hl
    rcases List.mem_or_eq_of_mem_set h1 with h2 | h2
    · exact h2
    · subst h2; simp

theorem nodup_eraseSwap {α : Type} (l : List α) (i : Nat) (hi : i < l.length) (h : l.Nodup) : (eraseSwap l i).Nodup :=
  (eraseSwap_perm l i hi).nodup_iff.mpr (h.eraseIdx i)

theorem mem_eraseSwap_idx {α : Type} [DecidableEq α] (l : List α) (i : Nat) (hi : i < l.length) (h : l.Nodup) (y : α) :
    y ∈ eraseSwap l i ↔ (y ∈ l ∧ y ≠ l[i]) := by
  have e : l.idxOf l[i] = i := h.idxOf_getElem i hi
  have hc : l.count l[i] = 1 := by rw [h.count]; simp
  have := mem_eraseSwap l l[i] y hc
  rwa [e] at this

theorem length_eraseSwap {α : Type} (l : List α) (i : Nat) (hl : l ≠ []) : (eraseSwap l i).length = l.length - 1 := by
  unfold eraseSwap
  cases h : l.getLast? with
  | none => simp at h; exact absurd h hl
  | some b => simp

/-! Except -/
theorem bind_ok {α β : Type} {x : Res α} {f : α → Res β} {b : β} :
    x.bind f = .ok b ↔ ∃ a, x = .ok a ∧ f a = .ok b := by
  cases x <;> simp [Except.bind]

@[simp] theorem upd_same {α : Type} (f : Nat → α) (k : Nat) (v : α) : upd f k v k = v := by simp [upd]
theorem upd_ne {α : Type} (f : Nat → α) (k x : Nat) (v : α) (h : x ≠ k) : upd f k v x = f x := by simp [upd, h]
theorem upd_apply {α : Type} (f : Nat → α) (k x : Nat) (v : α) : upd f k v x = if x = k then v else f x := rfl
theorem upd2_apply {α : Type} (f : Nat → Nat → α) (k j x y : Nat) (v : α) :
    upd2 f k j v x y = if x = k ∧ y = j then v else f x y := rfl
theorem clearFrom_apply {α : Type} (f : Nat → Nat → α) (k n x y : Nat) (v : α) :
    clearFrom f k n v x y = if x = k ∧ n ≤ y then v else f x y := rfl

end Gatery.C09
