import GateryModel.C09.TypeLemmas
/-! The in-place erase loop visits every element exactly once; `bypassOutputToInput` terminates unless self-driven;
internal assertions are unreachable under the invariant. -/
namespace Gatery.C09

/-- survivors recorded in a visit log -/
def kept {α : Type} (vis : List (α × Bool)) : List α := (vis.filter (fun x => !x.2)).map Prod.fst

theorem kept_append_false {α : Type} (vis : List (α × Bool)) (x : α) : kept (vis ++ [(x, false)]) = kept vis ++ [x] := by
  simp [kept, List.filter_append]
theorem kept_append_true {α : Type} (vis : List (α × Bool)) (x : α) : kept (vis ++ [(x, true)]) = kept vis := by
  simp [kept, List.filter_append]

theorem take_eraseSwap {α : Type} (v : List α) (i : Nat) (hi : i < v.length) : (eraseSwap v i).take i = v.take i := by
  unfold eraseSwap
  cases hl : v.getLast? with
  | none => rfl
  | some b =>
    simp only
    rw [List.dropLast_eq_take, List.take_take, List.length_set, Nat.min_eq_left (by omega), List.take_set_of_le (Nat.le_refl _)]

theorem drop_eraseSwap_perm {α : Type} (v : List α) (i : Nat) (hi : i < v.length) :
    ((eraseSwap v i).drop i).Perm (v.drop (i + 1)) := by
  have h1 := eraseSwap_perm v i hi
  rw [← List.take_append_drop i (eraseSwap v i), take_eraseSwap v i hi, List.eraseIdx_eq_take_drop_succ] at h1
  exact (List.perm_append_left_iff _).mp h1

theorem dec_inc (W i : Nat) (h : i < W) : ((i + W - 1) % W + 1) % W = i := by
  by_cases h0 : i = 0
  · subst h0
    have : (0 + W - 1) % W = W - 1 := by rw [Nat.zero_add]; exact Nat.mod_eq_of_lt (by omega)
    rw [this, show W - 1 + 1 = W by omega, Nat.mod_self]
  · have : (i + W - 1) % W = i - 1 := by
      rw [show i + W - 1 = (i - 1) + W by omega, Nat.add_mod_right]; exact Nat.mod_eq_of_lt (by omega)
    rw [this, show i - 1 + 1 = i by omega]; exact Nat.mod_eq_of_lt h

theorem eraseLoop_visits_aux {σ α : Type} (W : Nat) (f : σ → α → σ × Bool) (v0 : List α) :
    ∀ fuel st i v vis, i ≤ v.length → v.length < W → fuel = v.length - i →
      (v.take i).Perm (kept vis) → (vis.map Prod.fst ++ v.drop i).Perm v0 →
      ∃ st' v' vis', eraseLoop W f fuel st i v vis = some (st', v', vis') ∧
        v'.Perm (kept vis') ∧ (vis'.map Prod.fst).Perm v0 := by
  intro fuel
  induction fuel with
  | zero =>
    intro st i v vis hi hW hf h1 h2
    have : i = v.length := by omega
    subst this
    refine ⟨st, v, vis, ?_, ?_, ?_⟩
    · unfold eraseLoop; rw [if_neg (Nat.lt_irrefl _)]
    · rwa [List.take_of_length_le (Nat.le_refl _)] at h1
    · rwa [List.drop_of_length_le (Nat.le_refl _), List.append_nil] at h2
  | succ n ih =>
    intro st i v vis hi hW hf h1 h2
    have hlt : i < v.length := by omega
    unfold eraseLoop
    rw [dif_pos hlt]
    simp only
    have hdrop : v.drop i = v[i] :: v.drop (i + 1) := List.drop_eq_getElem_cons hlt
    split
    · -- erased
      rw [dec_inc W i (by omega)]
      have hne : v ≠ [] := by intro e; rw [e] at hlt; simp at hlt
      apply ih
      · rw [length_eraseSwap _ _ hne]; omega
      · rw [length_eraseSwap _ _ hne]; omega
      · rw [length_eraseSwap _ _ hne]; omega
      · rw [take_eraseSwap v i hlt, kept_append_true]
        exact h1
      · rw [List.map_append, List.append_assoc]
        rw [hdrop] at h2
        refine List.Perm.trans ?_ h2
        apply List.Perm.append_left
        simp only [List.map_cons, List.map_nil, List.singleton_append]
        exact List.Perm.cons _ (drop_eraseSwap_perm v i hlt)
    · -- kept
      rw [Nat.mod_eq_of_lt (by omega)]
      apply ih
      · omega
      · exact hW
      · omega
      · rw [List.take_succ_eq_append_getElem hlt, kept_append_false]
        exact List.Perm.append_right [v[i]] h1
      · rw [List.map_append, List.append_assoc]
        rw [hdrop] at h2
        simpa using h2

/-- The erase idiom (`v[i] = move(v.back()); v.pop_back(); i--;` inside `for (…; i < v.size(); i++)`) terminates after exactly
`v.size()` iterations and visits every element of the original vector exactly once (the visit log is a permutation of the vector);
the vector left over is a permutation of the visited elements that were not erased. -/
theorem eraseLoop_visits {σ α : Type} (W : Nat) (f : σ → α → σ × Bool) (st : σ) (v : List α) (hW : v.length < W) :
    ∃ st' v' vis, eraseLoop W f v.length st 0 v [] = some (st', v', vis) ∧
      (vis.map Prod.fst).Perm v ∧ v'.Perm (kept vis) :=
  let ⟨st', v', vis, h1, h2, h3⟩ :=
    eraseLoop_visits_aux W f v v.length st 0 v [] (Nat.zero_le _) hW rfl (by simp [kept]) (by simp)
  ⟨st', v', vis, h1, h3, h2⟩

/-! ### bypassOutputToInput -/

/-- if the bypassed input is driven by the very output that is being bypassed, every iteration leaves the graph unchanged -/
theorem bypassLoop_self_diverges {s : State} {h o i : Nat} (hE : E s) (hl : s.live h) (hi : i < s.numIn h)
    (hself : s.inp h i = some ⟨h, o⟩) (fuel : Nat) :
    bypassLoop fuel s h o (some ⟨h, o⟩) = .error .diverge := by
  obtain ⟨hfwd, hbwd⟩ := hE
  obtain ⟨_, _, ho, hcnt⟩ := hfwd h hl.1 hl.2 i hi _ hself
  simp only at ho hcnt
  have hmem : (⟨h, i⟩ : NodePort) ∈ s.conns h o := List.count_pos_iff.mp (by omega)
  induction fuel with
  | zero =>
    unfold bypassLoop
    rw [if_neg (List.ne_nil_of_mem hmem)]
  | succ n ih =>
    unfold bypassLoop
    cases hc : s.conns h o with
    | nil => rw [hc] at hmem; cases hmem
    | cons p ps =>
      simp only
      have hp : p ∈ s.conns h o := by rw [hc]; exact List.mem_cons_self
      obtain ⟨a, b, c, d⟩ := hbwd h hl.1 hl.2 o ho p hp
      have : connectInput s p.node p.port (some ⟨h, o⟩) = .ok s := by
        unfold connectInput
        rw [if_neg (fun hn => hn ⟨⟨a, b⟩, c⟩)]
        rw [if_neg (fun hn => hn (by intro x hx; cases hx; exact ⟨hl, ho⟩))]
        rw [if_pos d]
      rw [this]
      exact ih

theorem bypassLoop_terminates {h o : Nat} {src : Option NodePort} (hsrc : src ≠ some ⟨h, o⟩) :
    ∀ (n : Nat) (s : State), E s → s.live h → o < s.numOut h → (∀ x ∈ src, s.validOut x) → (s.conns h o).length = n →
      ∃ s', bypassLoop n s h o src = .ok s' := by
  intro n
  induction n with
  | zero =>
    intro s hE hl ho hs hlen
    refine ⟨s, ?_⟩
    unfold bypassLoop
    rw [if_pos (List.eq_nil_of_length_eq_zero hlen)]
  | succ n ih =>
    intro s hE hl ho hs hlen
    unfold bypassLoop
    cases hc : s.conns h o with
    | nil => rw [hc] at hlen; simp at hlen
    | cons p ps =>
      simp only
      have hp : p ∈ s.conns h o := by rw [hc]; exact List.mem_cons_self
      obtain ⟨a, b, c, d⟩ := hE.2 h hl.1 hl.2 o ho p hp
      -- connectInput succeeds
      have hfw := hE.1 p.node a b p.port c _ d
      simp only at hfw
      have hm : (p : NodePort) ∈ s.conns h o := hp
      have hok : ∃ s1, connectInput s p.node p.port src = .ok s1 := by
        unfold connectInput
        rw [if_neg (fun hn => hn ⟨⟨a, b⟩, c⟩)]
        rw [if_neg (fun hn => hn hs)]
        rw [if_neg (by rw [d]; exact fun e => hsrc e.symm)]
        rw [d]
        simp only
        have hd : ∃ s0, disconnectInput s p.node p.port = .ok s0 := by
          unfold disconnectInput
          rw [if_neg (fun hn => hn ⟨⟨a, b⟩, c⟩), d]
          simp only
          rw [if_neg (fun hn => hn ⟨hl, ho⟩)]
          have : (s.conns h o).idxOf p ≠ (s.conns h o).length := (idxOf_ne_length_iff _ _).mpr hm
          rw [if_neg (by cases p; exact this)]
          exact ⟨_, rfl⟩
        obtain ⟨s0, h0⟩ := hd
        rw [h0]
        exact ⟨_, rfl⟩
      obtain ⟨s1, h1⟩ := hok
      rw [h1]
      obtain ⟨ip, c1, rfl, hE1, _, _, _, _, _, hlen1⟩ := connect_spec hE h1
      have := hlen1 h o d hsrc
      simp only [Except.bind]
      apply ih
      · exact hE1
      · exact hl
      · exact ho
      · exact hs
      · show (c1 h o).length = n
        omega

/-- internal assertion of `disconnectInput` (`HCL_ASSERT(it != end)`) cannot fire on a well-formed graph -/
theorem disconnect_total {s : State} {h i : Nat} (hE : E s) (hl : s.live h) (hi : i < s.numIn h) :
    ∃ s', disconnectInput s h i = .ok s' := by
  unfold disconnectInput
  rw [if_neg (fun hn => hn ⟨hl, hi⟩)]
  cases hd : s.inp h i with
  | none => exact ⟨s, rfl⟩
  | some d =>
    simp only
    obtain ⟨a, b, c, e⟩ := hE.1 h hl.1 hl.2 i hi d hd
    rw [if_neg (fun hn => hn ⟨⟨a, b⟩, c⟩)]
    have hm : (⟨h, i⟩ : NodePort) ∈ s.conns d.node d.port := List.count_pos_iff.mp (by omega)
    rw [if_neg ((idxOf_ne_length_iff _ _).mpr hm)]
    exact ⟨_, rfl⟩

end Gatery.C09
