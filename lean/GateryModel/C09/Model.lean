/-!
# C09 — model of the hlim circuit graph bookkeeping

Pure state + operations for the doubly linked graph kept by
`/repo/source/gatery/hlim/{NodeIO.cpp,Node.cpp,NodeGroup.cpp,Circuit.cpp,Circuit.h,Clock.cpp}`.

Representation.  A node *handle* (`Nat`) stands for the address of a `BaseNode`; handles are never
reused (`size` = number of handles handed out so far), a destroyed node keeps its handle with
`alive = false`, so a dangling pointer is a handle that is not alive.  The state is a
struct of total functions indexed by handle (and port); everything outside `h < size`, `i < numIn h`,
… is "does not exist" and is never read by an operation whose C++ precondition holds.

Operations return `Except Err State`:
* `.assert`  – the real code throws (`HCL_ASSERT…` ⇒ `InternalError`),
* `.abort`   – the real code calls `exit(1)` (`HCL_ASSERT_NOTHROW`),
* `.ub`      – the call has undefined behaviour in C++ (unchecked index / dangling pointer): outside every
               C++ precondition; callers never do this, the harness never generates it,
* `.diverge` – a `while` loop of the real code does not terminate (fuel exhausted).
-/
namespace Gatery.C09

/-- `hlim::NodePort` (NodePort.h:38): a node pointer (handle) and a port index. -/
structure NodePort where
  node : Nat
  port : Nat
deriving DecidableEq, Repr, Inhabited

/-- `hlim::ConnectionType` (ConnectionType.h:48): `type` (0 BOOL, 1 BITVEC, 2 DEPENDENCY) and `width`. -/
structure CType where
  kind : Nat
  width : Nat
deriving DecidableEq, Repr

/-- default constructed `ConnectionType`: BITVEC of width 0 -/
instance : Inhabited CType := ⟨⟨1, 0⟩⟩

inductive Err where
  | assert | abort | ub | diverge
deriving DecidableEq, Repr

abbrev Res := Except Err

/-- pointwise update of a function of one index -/
def upd {α : Type} (f : Nat → α) (k : Nat) (v : α) : Nat → α := fun x => if x = k then v else f x
/-- pointwise update of a function of two indices -/
def upd2 {α : Type} (f : Nat → Nat → α) (k j : Nat) (v : α) : Nat → Nat → α :=
  fun x y => if x = k ∧ y = j then v else f x y
/-- reset of a whole row `k` from column `n` on -/
def clearFrom {α : Type} (f : Nat → Nat → α) (k n : Nat) (v : α) : Nat → Nat → α :=
  fun x y => if x = k ∧ n ≤ y then v else f x y

/--
Swap-with-back erase of position `i`:
* `std::swap(*it, outPort.connections.back()); outPort.connections.pop_back();`  (NodeIO.cpp:143-144)
* `*it = m_nodeGroup->m_nodes.back(); m_nodeGroup->m_nodes.pop_back();`            (Node.cpp:106-107)
* `if (i+1 != m_nodes.size()) m_nodes[i] = std::move(m_nodes.back()); m_nodes.pop_back();` (Circuit.cpp:403-405, 442-444,
  466-468, 490-492, 1046-1048, 1607-1609)
all three leave the vector `set i back` without its last element.
-/
def eraseSwap {α : Type} (l : List α) (i : Nat) : List α :=
  match l.getLast? with
  | none => l
  | some b => (l.set i b).dropLast

structure State where
  /-- number of node handles handed out so far -/
  size : Nat
  alive : Nat → Bool
  /-- `BaseNode::m_nodeId` -/
  nid : Nat → Nat
  /-- node is a `Node_Signal` (only distinction the modelled passes make) -/
  isSig : Nat → Bool
  /-- `BaseNode::m_refCounter` (NodePtr handles) -/
  refs : Nat → Nat
  /-- `NodeIO::m_inputPorts.size()` / `m_inputPorts[i]` (`none` = `{nullptr, INV_PORT}`) -/
  numIn : Nat → Nat
  inp : Nat → Nat → Option NodePort
  /-- `NodeIO::m_outputPorts.size()` / `[o].connections` / `[o].connectionType` -/
  numOut : Nat → Nat
  conns : Nat → Nat → List NodePort
  ctype : Nat → Nat → CType
  /-- `BaseNode::m_nodeGroup` -/
  grp : Nat → Option Nat
  /-- `BaseNode::m_clocks.size()` / `m_clocks[p]` -/
  numClk : Nat → Nat
  clk : Nat → Nat → Option Nat
  /-- node groups of the circuit (index = creation order, 0 = root), `NodeGroup::m_nodes` -/
  ngroups : Nat
  gnodes : Nat → List Nat
  /-- clocks of the circuit, `Clock::m_clockedNodes` (a set; kept as a duplicate-free list) -/
  nclocks : Nat
  clocked : Nat → List NodePort
  /-- `Clock::m_clockedNodesCache` (`[]` = not built): filled and sorted by `getClockedNodes()` when empty (Clock.cpp:94-103), appended
  to by `attachClock` iff non-empty (Node.cpp:146-147), cleared by `detachClock` (Node.cpp:157) -/
  cache : Nat → List NodePort
  /-- the clock object has not been destroyed (`Clock::~Clock`, Clock.cpp:41-45) -/
  calive : Nat → Bool
  /-- node class as far as clocks care: 0 ordinary, 1 `Node_Signal2Clk`, 2 `Node_Signal2Rst` -/
  dk : Nat → Nat
  /-- `Clock::m_clockDriver` (`drv 1 c`) and `Clock::m_resetDriver` (`drv 2 c`), Clock.h:153-155 -/
  drv : Nat → Nat → Option Nat
  /-- `Circuit::m_nodes` (storage order) -/
  order : List Nat
  /-- `Circuit::m_nextNodeId` -/
  nextId : Nat

/-- `Circuit::Circuit` (Circuit.cpp:81-88): no nodes, no clocks, the root group. -/
def State.init : State where
  size := 0
  alive := fun _ => false
  nid := fun _ => 0
  isSig := fun _ => false
  refs := fun _ => 0
  numIn := fun _ => 0
  inp := fun _ _ => none
  numOut := fun _ => 0
  conns := fun _ _ => []
  ctype := fun _ _ => default
  grp := fun _ => none
  numClk := fun _ => 0
  clk := fun _ _ => none
  ngroups := 1
  gnodes := fun _ => []
  nclocks := 0
  clocked := fun _ => []
  cache := fun _ => []
  calive := fun _ => false
  dk := fun _ => 0
  drv := fun _ _ => none
  order := []
  nextId := 0

/-! ## The invariant (decidable) -/

/-- both directions of every data edge agree (property: "each input's driver lists that input exactly once among
its consumers and vice versa", "nothing refers to a destroyed node") -/
def EdgeInv (size : Nat) (alive : Nat → Bool) (numIn : Nat → Nat) (inp : Nat → Nat → Option NodePort)
    (numOut : Nat → Nat) (conns : Nat → Nat → List NodePort) : Prop :=
  (∀ h, h < size → alive h = true → ∀ i, i < numIn h → ∀ d ∈ inp h i,
      d.node < size ∧ alive d.node = true ∧ d.port < numOut d.node ∧ (conns d.node d.port).count ⟨h, i⟩ = 1) ∧
  (∀ d, d < size → alive d = true → ∀ o, o < numOut d → ∀ c ∈ conns d o,
      c.node < size ∧ alive c.node = true ∧ c.port < numIn c.node ∧ inp c.node c.port = some ⟨d, o⟩)

/-- group membership: `m_nodeGroup` and `NodeGroup::m_nodes` agree, each listed node is listed once -/
def GroupInv (size : Nat) (alive : Nat → Bool) (grp : Nat → Option Nat) (ngroups : Nat) (gnodes : Nat → List Nat) : Prop :=
  (∀ h, h < size → alive h = true → ∀ g ∈ grp h, g < ngroups ∧ (gnodes g).count h = 1) ∧
  (∀ g, g < ngroups → ∀ h ∈ gnodes g, h < size ∧ alive h = true ∧ grp h = some g)

/-- clocked ⇔ registered with its clock -/
def ClockInv (size : Nat) (alive : Nat → Bool) (numClk : Nat → Nat) (clk : Nat → Nat → Option Nat)
    (nclocks : Nat) (clocked : Nat → List NodePort) : Prop :=
  (∀ h, h < size → alive h = true → ∀ p, p < numClk h → ∀ c ∈ clk h p, c < nclocks ∧ (clocked c).count ⟨h, p⟩ = 1) ∧
  (∀ c, c < nclocks → ∀ x ∈ clocked c, x.node < size ∧ alive x.node = true ∧ x.port < numClk x.node ∧ clk x.node x.port = some c)

/-- no clock port refers to a destroyed clock -/
def CAInv (size : Nat) (alive : Nat → Bool) (numClk : Nat → Nat) (clk : Nat → Nat → Option Nat) (calive : Nat → Bool) : Prop :=
  ∀ h, h < size → alive h = true → ∀ p, p < numClk h → ∀ c ∈ clk h p, calive c = true

/-- the logic clock / reset driver a (live) clock reports is a live `Node_Signal2Clk` / `Node_Signal2Rst` whose clock port 0 is attached
to that very clock (and hence, by `ClockInv`, registered in its `m_clockedNodes`) -/
def DriverInv (size : Nat) (alive : Nat → Bool) (dk : Nat → Nat) (numClk : Nat → Nat) (clk : Nat → Nat → Option Nat)
    (nclocks : Nat) (calive : Nat → Bool) (drv : Nat → Nat → Option Nat) : Prop :=
  ∀ c, c < nclocks → calive c = true → ∀ k, k < 3 → k ≠ 0 → ∀ d ∈ drv k c,
    d < size ∧ alive d = true ∧ dk d = k ∧ 0 < numClk d ∧ clk d 0 = some c

/-- the sorted view handed out by `Clock::getClockedNodes()` is either not built or holds exactly the registered (node, port) pairs,
each once -/
def CacheInv (nclocks : Nat) (clocked cache : Nat → List NodePort) : Prop :=
  ∀ c, c < nclocks → cache c = [] ∨ ((cache c).Nodup ∧ (∀ x ∈ cache c, x ∈ clocked c) ∧ (∀ x ∈ clocked c, x ∈ cache c))

/-- node ids are unique among live nodes and below the allocation counter -/
def IdInv (size : Nat) (alive : Nat → Bool) (nid : Nat → Nat) (nextId : Nat) : Prop :=
  (∀ h, h < size → alive h = true → nid h < nextId) ∧
  (∀ h, h < size → alive h = true → ∀ k, k < size → alive k = true → nid h = nid k → h = k)

/-- the circuit's node vector holds exactly the live nodes, each once; nothing beyond `size` is alive -/
def OrderInv (size : Nat) (alive : Nat → Bool) (order : List Nat) : Prop :=
  order.Nodup ∧ (∀ h ∈ order, h < size ∧ alive h = true) ∧ (∀ h, h < size → alive h = true → h ∈ order)

/-- everything except the storage vector (what holds *during* a pass that is rearranging `m_nodes`) -/
def GInv (s : State) : Prop :=
  EdgeInv s.size s.alive s.numIn s.inp s.numOut s.conns ∧
  GroupInv s.size s.alive s.grp s.ngroups s.gnodes ∧
  ClockInv s.size s.alive s.numClk s.clk s.nclocks s.clocked ∧
  IdInv s.size s.alive s.nid s.nextId ∧
  CAInv s.size s.alive s.numClk s.clk s.calive ∧
  DriverInv s.size s.alive s.dk s.numClk s.clk s.nclocks s.calive s.drv ∧
  CacheInv s.nclocks s.clocked s.cache

/-- the well-formedness invariant of property C09 -/
def Inv (s : State) : Prop := GInv s ∧ OrderInv s.size s.alive s.order

set_option synthInstance.maxSize 2048
instance (size alive numIn inp numOut conns) : Decidable (EdgeInv size alive numIn inp numOut conns) := by
  unfold EdgeInv; infer_instance
instance (size alive grp ngroups gnodes) : Decidable (GroupInv size alive grp ngroups gnodes) := by
  unfold GroupInv; infer_instance
instance (size alive numClk clk nclocks clocked) : Decidable (ClockInv size alive numClk clk nclocks clocked) := by
  unfold ClockInv; infer_instance
instance (size alive nid nextId) : Decidable (IdInv size alive nid nextId) := by
  unfold IdInv; infer_instance
instance (size alive numClk clk calive) : Decidable (CAInv size alive numClk clk calive) := by
  unfold CAInv; infer_instance
instance (size alive dk numClk clk nclocks calive drv) : Decidable (DriverInv size alive dk numClk clk nclocks calive drv) := by
  unfold DriverInv; infer_instance
instance (nclocks clocked cache) : Decidable (CacheInv nclocks clocked cache) := by
  unfold CacheInv; infer_instance
instance (size alive order) : Decidable (OrderInv size alive order) := by
  unfold OrderInv; infer_instance
instance (s : State) : Decidable (GInv s) := by unfold GInv; infer_instance
instance (s : State) : Decidable (Inv s) := by unfold Inv; infer_instance

/-! ## NodeIO (NodeIO.cpp) -/

/-- a node pointer that may be dereferenced (points to a node that has been created and not destroyed) -/
def State.live (s : State) (h : Nat) : Prop := h < s.size ∧ s.alive h = true
instance (s : State) (h) : Decidable (s.live h) := by unfold State.live; infer_instance

/-- a node pointer that may be dereferenced and a port index that is in range of its output vector -/
def State.validOut (s : State) (d : NodePort) : Prop := s.live d.node ∧ d.port < s.numOut d.node
instance (s : State) (d) : Decidable (s.validOut d) := by unfold State.validOut; infer_instance

/-- `NodeIO::disconnectInput` (NodeIO.cpp:130-149) -/
def disconnectInput (s : State) (h i : Nat) : Res State :=
  if ¬ (s.live h ∧ i < s.numIn h) then .error .ub else
  match s.inp h i with
  | none => .ok s
  | some d =>
    if ¬ s.validOut d then .error .ub else
    let l := s.conns d.node d.port
    let k := l.idxOf ⟨h, i⟩                 -- std::find
    if k = l.length then .error .assert     -- HCL_ASSERT(it != outPort.connections.end())
    else .ok { s with conns := upd2 s.conns d.node d.port (eraseSwap l k), inp := upd2 s.inp h i none }

/-- second half of `connectInput` (NodeIO.cpp:123-127): store the driver, append to its consumer list -/
def attachInput (s : State) (h i : Nat) (d : Option NodePort) : State :=
  match d with
  | none => { s with inp := upd2 s.inp h i none }
  | some d => { s with inp := upd2 s.inp h i (some d),
                       conns := upd2 s.conns d.node d.port (s.conns d.node d.port ++ [⟨h, i⟩]) }

/-- `NodeIO::connectInput` = `rewireInput` (NodeIO.cpp:114-128) -/
def connectInput (s : State) (h i : Nat) (d : Option NodePort) : Res State :=
  if ¬ (s.live h ∧ i < s.numIn h) then .error .ub else
  if ¬ (∀ x ∈ d, s.validOut x) then .error .ub else
  if s.inp h i = d then .ok s else
  match s.inp h i with
  | none => .ok (attachInput s h i d)
  | some _ => (disconnectInput s h i).bind fun s1 => .ok (attachInput s1 h i d)

/-- `for (auto i : utils::Range(num, m_inputPorts.size())) disconnectInput(i);` -/
def disconnectRange (s : State) (h : Nat) : List Nat → Res State
  | [] => .ok s
  | i :: is => (disconnectInput s h i).bind fun s1 => disconnectRange s1 h is

/-- `NodeIO::resizeInputs` (NodeIO.cpp:151-157) -/
def resizeInputs (s : State) (h n : Nat) : Res State :=
  if ¬ s.live h then .error .ub else
  (disconnectRange s h (List.range' n (s.numIn h - n))).bind fun s1 =>
    .ok { s1 with numIn := upd s1.numIn h n, inp := clearFrom s1.inp h (min n (s.numIn h)) none }

/-- `while (!m_outputPorts[i].connections.empty()) { auto &con = ….front(); con.node->disconnectInput(con.port); }`
(NodeIO.cpp:163-166) -/
def drainOutput : Nat → State → Nat → Nat → Res State
  | 0, s, h, o => if s.conns h o = [] then .ok s else .error .diverge
  | fuel + 1, s, h, o =>
    match s.conns h o with
    | [] => .ok s
    | c :: _ => (disconnectInput s c.node c.port).bind fun s1 => drainOutput fuel s1 h o

def drainRange (s : State) (h : Nat) : List Nat → Res State
  | [] => .ok s
  | o :: os => (drainOutput (s.conns h o).length s h o).bind fun s1 => drainRange s1 h os

/-- `NodeIO::resizeOutputs` (NodeIO.cpp:159-169) -/
def resizeOutputs (s : State) (h n : Nat) : Res State :=
  if ¬ s.live h then .error .ub else
  (drainRange s h (List.range' n (s.numOut h - n))).bind fun s1 =>
    .ok { s1 with
          numOut := upd s1.numOut h n
          conns := clearFrom s1.conns h (min n (s.numOut h)) []
          ctype := clearFrom s1.ctype h (min n (s.numOut h)) default }

/-- loop of `NodeIO::bypassOutputToInput` (NodeIO.cpp:175-178) -/
def bypassLoop : Nat → State → Nat → Nat → Option NodePort → Res State
  | 0, s, h, o, _ => if s.conns h o = [] then .ok s else .error .diverge
  | fuel + 1, s, h, o, src =>
    match s.conns h o with
    | [] => .ok s
    | p :: _ => (connectInput s p.node p.port src).bind fun s1 => bypassLoop fuel s1 h o src

/-- `NodeIO::bypassOutputToInput` (NodeIO.cpp:171-179); `BaseNode::bypassOutputToInput` (Node.cpp:85-96) additionally
appends the node's comment to the driver's, which is not graph state. `getDriver` asserts the input index. -/
def bypassOutputToInput (s : State) (h o i : Nat) : Res State :=
  if ¬ s.live h then .error .ub else
  if ¬ i < s.numIn h then .error .assert else
  if ¬ o < s.numOut h then .error .ub else
  bypassLoop (s.conns h o).length s h o (s.inp h i)

/-- `NodeIO::setOutputConnectionType` (NodeIO.cpp:100-106) -/
def setOutputConnectionType (s : State) (h o : Nat) (t : CType) : Res State :=
  if ¬ (s.live h ∧ o < s.numOut h) then .error .ub else
  if s.ctype h o ≠ t then
    if s.conns h o ≠ [] then .error .assert
    else .ok { s with ctype := upd2 s.ctype h o t }
  else .ok s

/-- `Node_Signal::connectInput` (Node_Signal.cpp:35-46): adopts the driver's type while nobody listens, afterwards insists on it -/
def signalConnect (s : State) (h : Nat) (d : Option NodePort) : Res State :=
  if ¬ (s.live h ∧ 0 < s.numIn h ∧ 0 < s.numOut h) then .error .ub else
  if ¬ (∀ x ∈ d, s.validOut x) then .error .ub else
  match d with
  | none => connectInput s h 0 none
  | some x =>
    if s.conns h 0 ≠ [] then
      if s.ctype x.node x.port = s.ctype h 0 then connectInput s h 0 d else .error .assert
    else (setOutputConnectionType s h 0 (s.ctype x.node x.port)).bind fun s1 => connectInput s1 h 0 d

/-- `Node_Arithmetic::updateConnectionType` (Node_Arithmetic.cpp:44-64): the first connected operand gives the type, every further one
widens it (`max`) and must have the same interpretation; nothing connected: the type stays -/
def desiredArith (s : State) (h : Nat) : Res CType :=
  let r : Res (Option CType) := (List.range (s.numIn h)).foldl (fun (acc : Res (Option CType)) i =>
    acc.bind fun a =>
      match s.inp h i with
      | none => .ok a
      | some d =>
        let t := s.ctype d.node d.port
        match a with
        | none => .ok (some t)
        | some a => if a.kind = t.kind then .ok (some ⟨a.kind, max a.width t.width⟩) else .error .assert) (.ok none)
  r.bind fun a => .ok (a.getD (s.ctype h 0))

/-- `Node_Logic::updateConnectionType` for a binary operator (Node_Logic.cpp:242-262) -/
def desiredLogic (s : State) (h : Nat) : Res CType :=
  match s.inp h 0, s.inp h 1 with
  | some l, some r =>
    if s.ctype l.node l.port = s.ctype r.node r.port then .ok (s.ctype l.node l.port) else .error .assert
  | some l, none => .ok (s.ctype l.node l.port)
  | none, some r => .ok (s.ctype r.node r.port)
  | none, none => .ok (s.ctype h 0)

/-- `Node_Arithmetic::connectInput` (`cls = 1`, Node_Arithmetic.cpp:38-42) / `Node_Logic::connectInput` (`cls = 2`, Node_Logic.cpp:32-36):
**first** `NodeIO::connectInput`, **then** `updateConnectionType()` → `setOutputConnectionType(0, desired)`. If the second half throws
(operand interpretations differ, or the output type would change under attached consumers) the operand stays connected: see
`afterThrow`. -/
def typedConnect (s : State) (cls h i : Nat) (d : Option NodePort) : Res State :=
  if ¬ (s.live h ∧ 0 < s.numOut h ∧ (cls = 2 → 2 ≤ s.numIn h)) then .error .ub else
  (connectInput s h i d).bind fun s1 =>
    (if cls = 1 then desiredArith s1 h else if cls = 2 then desiredLogic s1 h else .ok (s1.ctype h 0)).bind fun t =>
      setOutputConnectionType s1 h 0 t

/-! ## BaseNode (Node.cpp) -/

/-- `BaseNode::moveToGroup` (Node.cpp:98-113) -/
def moveToGroup (s : State) (h : Nat) (g : Option Nat) : Res State :=
  if ¬ s.live h then .error .ub else
  if ¬ (∀ x ∈ g, x < s.ngroups) then .error .ub else
  if g = s.grp h then .ok s else
  let s1 : Res State :=
    match s.grp h with
    | none => .ok s
    | some og =>
      let l := s.gnodes og
      let k := l.idxOf h
      if k = l.length then .error .assert else .ok { s with gnodes := upd s.gnodes og (eraseSwap l k) }
  s1.bind fun s1 =>
    match g with
    | none => .ok { s1 with grp := upd s1.grp h none }
    | some ng => .ok { s1 with grp := upd s1.grp h (some ng), gnodes := upd s1.gnodes ng (s1.gnodes ng ++ [h]) }

/-- `BaseNode::detachClock` (Node.cpp:151-160); `UnstableSet::erase` -/
def detachClock (s : State) (h p : Nat) : Res State :=
  if ¬ (s.live h ∧ p < s.numClk h) then .error .ub else
  match s.clk h p with
  | none => .ok s
  | some c =>
    if ¬ c < s.nclocks then .error .ub else
    .ok { s with clocked := upd s.clocked c ((s.clocked c).erase ⟨h, p⟩), clk := upd2 s.clk h p none,
                 cache := upd s.cache c [] }

/-- `set.emplace(x)` -/
def setInsert (l : List NodePort) (x : NodePort) : List NodePort := if x ∈ l then l else l ++ [x]

/-- `BaseNode::attachClock` (Node.cpp:137-149) -/
def attachClock (s : State) (h p : Nat) (c : Option Nat) : Res State :=
  if ¬ (s.live h ∧ p < s.numClk h) then .error .ub else
  if ¬ (∀ x ∈ c, x < s.nclocks ∧ s.calive x = true) then .error .ub else
  if s.clk h p = c then .ok s else
  (detachClock s h p).bind fun s1 =>
    match c with
    | none => .ok { s1 with clk := upd2 s1.clk h p none }
    | some c => .ok { s1 with clk := upd2 s1.clk h p (some c), clocked := upd s1.clocked c (setInsert (s1.clocked c) ⟨h, p⟩),
                              cache := upd s1.cache c (if s1.cache c = [] then [] else s1.cache c ++ [⟨h, p⟩]) }

/-- `BaseNode::addClock` (Node.cpp:131-135) -/
def addClock (s : State) (h : Nat) (c : Option Nat) : Res State :=
  if ¬ s.live h then .error .ub else
  let p := s.numClk h
  attachClock { s with numClk := upd s.numClk h (p + 1), clk := upd2 s.clk h p none } h p c

def detachRange (s : State) (h : Nat) : List Nat → Res State
  | [] => .ok s
  | p :: ps => (detachClock s h p).bind fun s1 => detachRange s1 h ps

/-- `NodePtr` constructor / destructor: `addRef`, `removeRef` (Node.h:81-82) -/
def addRef (s : State) (h : Nat) : Res State :=
  if ¬ s.live h then .error .ub else .ok { s with refs := upd s.refs h (s.refs h + 1) }
def removeRef (s : State) (h : Nat) : Res State :=
  if ¬ s.live h then .error .ub else
  if s.refs h = 0 then .error .assert else .ok { s with refs := upd s.refs h (s.refs h - 1) }

/-- `delete node`: `~BaseNode` (Node.cpp:42-48: refcount assertion, `moveToGroup(nullptr)`, detach every clock) followed by
`~NodeIO` (NodeIO.cpp:31-35: `resizeInputs(0); resizeOutputs(0);`), then the storage is released. -/
def destroyNode (s : State) (h : Nat) : Res State :=
  if ¬ s.live h then .error .ub else
  if s.refs h ≠ 0 then .error .abort else
  -- a `Node_Signal2Clk/Rst` that is bound to a clock `hasSideEffects()`; nobody deletes such a node (its clock would keep a dangling
  -- `m_clockDriver`): modelled as a precondition of `delete`
  if s.dk h ≠ 0 ∧ s.clk h 0 ≠ none then .error .ub else
  (moveToGroup s h none).bind fun s1 =>
  (detachRange s1 h (List.range (s1.numClk h))).bind fun s2 =>
  (resizeInputs s2 h 0).bind fun s3 =>
  (resizeOutputs s3 h 0).bind fun s4 =>
  .ok { s4 with alive := upd s4.alive h false }

/-! ## Circuit (Circuit.h / Circuit.cpp) -/

/-- `Circuit::createNode<T>(…)` (Circuit.h:223-228) with `BaseNode(numInputs, numOutputs)` (Node.cpp:36-40):
fresh storage, ports unconnected, no group, `nClk` null clock ports, next id. Returns the new handle `s.size`. -/
def createNode (s : State) (sig : Bool) (nIn nOut nClk : Nat) (k : Nat := 0) : State :=
  let h := s.size
  { s with
    size := h + 1
    alive := upd s.alive h true
    nid := upd s.nid h s.nextId
    nextId := s.nextId + 1
    isSig := upd s.isSig h sig
    dk := upd s.dk h k
    refs := upd s.refs h 0
    numIn := upd s.numIn h nIn
    inp := clearFrom s.inp h 0 none
    numOut := upd s.numOut h nOut
    conns := clearFrom s.conns h 0 []
    ctype := clearFrom s.ctype h 0 default
    grp := upd s.grp h none
    numClk := upd s.numClk h nClk
    clk := clearFrom s.clk h 0 none
    order := s.order ++ [h] }

/-- `NodeGroup::addChildNodeGroup` as far as the graph is concerned: a new empty group -/
def createGroup (s : State) : State :=
  { s with ngroups := s.ngroups + 1, gnodes := upd s.gnodes s.ngroups [] }

/-- `Circuit::createClock` : a new clock nobody is attached to -/
def createClock (s : State) : State :=
  { s with nclocks := s.nclocks + 1, clocked := upd s.clocked s.nclocks [], cache := upd s.cache s.nclocks [],
           calive := upd s.calive s.nclocks true,
           drv := fun k c => if c = s.nclocks then none else s.drv k c }

/-- insertion sort by `StableCompare<NodePort>` (StableContainers.cpp:30-41): node id, then port -/
def insertNP (key : Nat → Nat) (e : NodePort) : List NodePort → List NodePort
  | [] => [e]
  | x :: xs => if key e.node < key x.node ∨ (key e.node = key x.node ∧ e.port < x.port) then e :: x :: xs else x :: insertNP key e xs
def sortNP (key : Nat → Nat) (l : List NodePort) : List NodePort := l.foldl (fun acc e => insertNP key e acc) []

/-- `Clock::getClockedNodes()` (Clock.cpp:94-103): builds the cache from the set when it is empty (`std::sort` with a total order on
distinct entries: the result does not depend on the set's iteration order) -/
def getClockedNodes (s : State) (c : Nat) : Res State :=
  if ¬ (c < s.nclocks ∧ s.calive c = true) then .error .ub else
  if s.cache c = [] then .ok { s with cache := upd s.cache c (sortNP s.nid (s.clocked c)) } else .ok s

/-- `Clock::setLogicClockDriver` (`k = 1`, Clock.cpp:165-171) / `Clock::setLogicResetDriver` (`k = 2`, Clock.cpp:173-179):
the previous driver node is released (`setClock(nullptr)` = `attachClock(nullptr, 0)`), the new one stored and attached.
C++ preconditions: `driver` points to a live node of the right class; a driver node serves one clock only (the frontend creates a
fresh node for every override). -/
def setLogicDriver (s : State) (k c d : Nat) : Res State :=
  if ¬ (k < 3 ∧ k ≠ 0 ∧ c < s.nclocks ∧ s.calive c = true) then .error .ub else
  if ¬ (s.live d ∧ s.dk d = k ∧ 0 < s.numClk d) then .error .ub else
  if ¬ (∀ c2, c2 < s.nclocks → s.calive c2 = true → c2 ≠ c → s.drv k c2 ≠ some d) then .error .ub else
  let s1 : Res State :=
    match s.drv k c with
    | none => .ok s
    | some old => attachClock s old 0 none
  s1.bind fun s1 => attachClock { s1 with drv := upd2 s1.drv k c (some d) } d 0 (some c)

/-- `while (!m_clockedNodes.empty()) m_clockedNodes.anyOrder().begin()->node->detachClock(…port);` (Clock.cpp:43-44); the set is
unordered, the model takes the entries in list order (every order ends in the same state) -/
def drainClock : Nat → State → Nat → Res State
  | 0, s, c => if s.clocked c = [] then .ok s else .error .diverge
  | fuel + 1, s, c =>
    match s.clocked c with
    | [] => .ok s
    | x :: _ => (detachClock s x.node x.port).bind fun s1 => drainClock fuel s1 c

/-- `Clock::~Clock` (Clock.cpp:41-45) of a clock that is not owned by the circuit -/
def destroyClock (s : State) (c : Nat) : Res State :=
  if ¬ (c < s.nclocks ∧ s.calive c = true) then .error .ub else
  (drainClock (s.clocked c).length s c).bind fun s1 => .ok { s1 with calive := upd s1.calive c false }

/-- `Circuit::createUnconnectedClone(src)` (Circuit.cpp:177-184) with `BaseNode::copyBaseToClone` (Node.cpp:217-229): a new node with
the same number of input / output / clock ports, the same output types, nothing connected, **no clock attached**
(`copy->m_clocks.resize(m_clocks.size())`), placed in the root group, next id. Returns the handle `s.size`. -/
def cloneNode (s : State) (src : Nat) : Res State :=
  if ¬ s.live src then .error .ub else
  let h := s.size
  let s1 := createNode s (s.isSig src) (s.numIn src) (s.numOut src) (s.numClk src) (s.dk src)
  let s2 := { s1 with ctype := fun x y => if x = h then s.ctype src y else s1.ctype x y }
  moveToGroup s2 h (some 0)

/-- `node->setId(m_nextNodeId++, {})` (Circuit.cpp:135) -/
def setFreshId (s : State) (h : Nat) : State :=
  { s with nid := upd s.nid h s.nextId, nextId := s.nextId + 1 }

def foldRes {α : Type} (f : State → α → Res State) : State → List α → Res State
  | s, [] => .ok s
  | s, a :: l => (f s a).bind fun s1 => foldRes f s1 l

/-- stable insertion sort of (source, clone) pairs by a key of the source (iteration order of `StableMap<BaseNode*, …>` / of the
sorted `sortedNodes` vector: ascending node id) -/
def insertByKey (key : Nat → Nat) (e : Nat × Nat) : List (Nat × Nat) → List (Nat × Nat)
  | [] => [e]
  | x :: xs => if key e.1 < key x.1 then e :: x :: xs else x :: insertByKey key e xs
def sortByKey (key : Nat → Nat) (l : List (Nat × Nat)) : List (Nat × Nat) := l.foldl (fun acc e => insertByKey key e acc) []

def lookupMap (m : List (Nat × Nat)) (k : Nat) : Option Nat := (m.find? fun e => e.1 = k).map (·.2)

/-- scan phase of `Circuit::copySubnet` (Circuit.cpp:114-130): `openList` is a stack (head of the list = `back()`), `closed` the
closed list, `m` the map source → clone in creation order -/
def copyScan (inputs : List NodePort) : Nat → State → List NodePort → List Nat → List (Nat × Nat) → Res (State × List (Nat × Nat))
  | 0, s, op, _, m => if op = [] then .ok (s, m) else .error .diverge
  | fuel + 1, s, op, closed, m =>
    match op with
    | [] => .ok (s, m)
    | np :: rest =>
      if np.node ∈ closed then copyScan inputs fuel s rest closed m else
      (cloneNode s np.node).bind fun s1 =>
        let pushed := (List.range (s.numIn np.node)).foldl (fun (acc : List NodePort) i =>
          match s.inp np.node i with
          | none => acc
          | some d => if (⟨np.node, i⟩ : NodePort) ∈ inputs then acc else d :: acc) rest
        copyScan inputs fuel s1 pushed (np.node :: closed) (m ++ [(np.node, s.size)])

/-- reconnecting one clone (Circuit.cpp:156-172). NB: `lazyCreateClockNetwork` looks a clock up in `mapSrc2Dst_clocks` but nothing
is ever inserted there, so with `copyClocks` every clocked port gets a clock object of its own (as written). -/
def copyReconnect (m : List (Nat × Nat)) (copyClocks : Bool) (s : State) (e : Nat × Nat) : Res State :=
  let (old, new) := e
  (foldRes (fun s i =>
      match s.inp old i with
      | none => .ok s
      | some d =>
        match lookupMap m d.node with
        | none => .ok s
        | some dn => connectInput s new i (some ⟨dn, d.port⟩)) s (List.range (s.numIn old))).bind fun s1 =>
  foldRes (fun s p =>
      match s.clk old p with
      | none => .ok s
      | some c =>
        if copyClocks then attachClock (createClock s) new p (some s.nclocks)
        else attachClock s new p (some c)) s1 (List.range (s1.numClk old))

/-- `Circuit::copySubnet(subnetInputs, subnetOutputs, mapSrc2Dst, copyClocks)` (Circuit.cpp:102-174). `outputs` in the iteration order
of the `StableSet` (node id, port). -/
def copySubnet (s : State) (inputs outputs : List NodePort) (copyClocks : Bool) : Res State :=
  if ¬ (∀ o ∈ outputs, s.live o.node) then .error .ub else
  let fuel := outputs.length + (List.range s.size).foldl (fun a h => a + s.numIn h) 0 + 1
  (copyScan inputs fuel s outputs.reverse [] []).bind fun (s1, m) =>
    let byId := sortByKey s1.nid m
    let s2 := byId.foldl (fun s e => setFreshId s e.2) s1
    foldRes (copyReconnect m copyClocks) s2 byId


/-- the erase idiom applied to position `idx` of `m_nodes` (Circuit.cpp:403-405 etc.): the move assignment into the
`unique_ptr` deletes the node that was stored there. -/
def eraseNode (s : State) (idx : Nat) : Res State :=
  match s.order[idx]? with
  | none => .error .ub
  | some h => (destroyNode s h).bind fun s1 => .ok { s1 with order := eraseSwap s1.order idx }

/-- `BaseNode::isOrphaned` (Node.cpp:51-60) -/
def isOrphaned (s : State) (h : Nat) : Bool :=
  (List.range (s.numIn h)).all (fun i => (s.inp h i).isNone) &&
  (List.range (s.numOut h)).all (fun o => (s.conns h o).isEmpty)

/--
The in-place erase loop of the cull passes, generically:
```
for (size_t i = 0; i < v.size(); i++) {          // `unsigned i` in removeNoOps / removeDisabledWritePorts
    if (visit(v[i])) {                           // may change the graph state `st`
        if (i+1 != v.size()) v[i] = std::move(v.back());
        v.pop_back();
        i--;                                     // wraps around at i = 0 …
    }
}                                                // … and is undone by the `i++`
```
`W` is the modulus of the index type (2^64 for `size_t`, 2^32 for `unsigned`). One unit of fuel per iteration.
The third component records every visited element with the decision taken.
-/
def eraseLoop {σ α : Type} (W : Nat) (f : σ → α → σ × Bool) :
    Nat → σ → Nat → List α → List (α × Bool) → Option (σ × List α × List (α × Bool))
  | 0, st, i, v, vis => if i < v.length then none else some (st, v, vis)
  | fuel + 1, st, i, v, vis =>
    if h : i < v.length then
      let r := f st v[i]
      if r.2 then eraseLoop W f fuel r.1 ((((i + W - 1) % W) + 1) % W) (eraseSwap v i) (vis ++ [(v[i], true)])
      else eraseLoop W f fuel r.1 ((i + 1) % W) v (vis ++ [(v[i], false)])
    else some (st, v, vis)

/-- body of `Circuit::cullOrphanedSignalNodes` (Circuit.cpp:455-472) for one element -/
def cullVisit (r : Res State) (h : Nat) : Res State × Bool :=
  match r with
  | .error e => (.error e, false)
  | .ok s =>
    if s.isSig h = true ∧ s.refs h = 0 ∧ isOrphaned s h = true then (destroyNode s h, true) else (.ok s, false)

/-- `Circuit::cullOrphanedSignalNodes` (Circuit.cpp:455-472) -/
def cullOrphanedSignalNodes (s : State) : Res State :=
  match eraseLoop (2 ^ 64) cullVisit s.order.length (.ok s) 0 s.order [] with
  | none => .error .diverge
  | some (.error e, _, _) => .error e
  | some (.ok s1, v, _) => .ok { s1 with order := v }

/-- two-state property: a connection that exists before and after still sees the output type it was made for ("an output's
connection type does not change while consumers are attached", the promise of `setOutputConnectionType`) -/
def TypeStable (prev cur : State) : Prop :=
  ∀ h, h < cur.size → cur.alive h = true → h < prev.size → prev.alive h = true →
    ∀ i, i < cur.numIn h → i < prev.numIn h → ∀ d ∈ cur.inp h i, prev.inp h i = some d →
      cur.ctype d.node d.port = prev.ctype d.node d.port
instance (prev cur : State) : Decidable (TypeStable prev cur) := by unfold TypeStable; infer_instance

/-! ## Operation language -/

inductive Op where
  | createNode (sig : Bool) (nIn nOut nClk : Nat) (dk : Nat := 0)
  | createGroup
  | createClock
  | connect (h i : Nat) (d : Option NodePort)
  | disconnect (h i : Nat)
  | signalConnect (h : Nat) (d : Option NodePort)
  | resizeInputs (h n : Nat)
  | resizeOutputs (h n : Nat)
  | bypass (h o i : Nat)
  | setType (h o : Nat) (t : CType)
  | moveToGroup (h : Nat) (g : Option Nat)
  | attachClock (h p : Nat) (c : Option Nat)
  | detachClock (h p : Nat)
  | addClock (h : Nat) (c : Option Nat)
  | addRef (h : Nat)
  | removeRef (h : Nat)
  | eraseNode (idx : Nat)
  | cullOrphanedSignals
  | cloneNode (src : Nat)
  | copySubnet (inputs outputs : List NodePort) (copyClocks : Bool)
  | destroyClock (c : Nat)
  | setLogicDriver (k c d : Nat)
  | getClockedNodes (c : Nat)
  | typedConnect (cls h i : Nat) (d : Option NodePort)
deriving Repr

def step (s : State) : Op → Res State
  | .createNode sig a b c k => .ok (createNode s sig a b c k)
  | .createGroup => .ok (createGroup s)
  | .createClock => .ok (createClock s)
  | .connect h i d => connectInput s h i d
  | .disconnect h i => disconnectInput s h i
  | .signalConnect h d => signalConnect s h d
  | .resizeInputs h n => resizeInputs s h n
  | .resizeOutputs h n => resizeOutputs s h n
  | .bypass h o i => bypassOutputToInput s h o i
  | .setType h o t => setOutputConnectionType s h o t
  | .moveToGroup h g => moveToGroup s h g
  -- the clock port of a `Node_Signal2Clk/Rst` is managed by `Clock::setLogic…Driver` only (precondition of these calls)
  | .attachClock h p c => if s.dk h ≠ 0 then .error .ub else attachClock s h p c
  | .detachClock h p => if s.dk h ≠ 0 then .error .ub else detachClock s h p
  | .addClock h c => if s.dk h ≠ 0 then .error .ub else addClock s h c
  | .addRef h => addRef s h
  | .removeRef h => removeRef s h
  | .eraseNode idx => eraseNode s idx
  | .cullOrphanedSignals => cullOrphanedSignalNodes s
  | .cloneNode src => cloneNode s src
  | .copySubnet ins outs cc => copySubnet s ins outs cc
  | .destroyClock c => destroyClock s c
  | .setLogicDriver k c d => setLogicDriver s k c d
  | .getClockedNodes c => getClockedNodes s c
  | .typedConnect cls h i d => typedConnect s cls h i d

/-- the state an operation leaves behind when it throws: all modelled operations check their guards before the first mutation, except
the typed `connectInput` of arithmetic / logic nodes, which has already connected the operand when `updateConnectionType` throws -/
def afterThrow (s : State) : Op → State
  | .typedConnect _ h i d =>
    match connectInput s h i d with
    | .ok s1 => s1
    | .error _ => s
  | _ => s

/-- run a history; an operation that throws leaves `afterThrow` behind and the history continues, exactly like a caller that catches
the exception; `.ub/.abort/.diverge` end it. -/
def run (s : State) : List Op → Res State
  | [] => .ok s
  | op :: ops =>
    match step s op with
    | .ok s1 => run s1 ops
    | .error .assert => run (afterThrow s op) ops
    | .error e => .error e

end Gatery.C09
