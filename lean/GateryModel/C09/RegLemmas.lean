import GateryModel.C09.ListLemmas
/-! Preservation of the group / clock / id / storage-order invariants. -/
namespace Gatery.C09

theorem upd_upd {α : Type} (f : Nat → α) (k : Nat) (v w : α) : upd (upd f k v) k w = upd f k w := by
  funext x; simp only [upd_apply]; split <;> rfl

theorem upd_self {α : Type} (f : Nat → α) (k : Nat) (v : α) (h : f k = v) : upd f k v = f := by
  funext x; rw [upd_apply]; split
  · rename_i e; rw [e, h]
  · rfl

/-! ### groups -/

theorem group_remove {size : Nat} {alive : Nat → Bool} {grp : Nat → Option Nat} {ng : Nat} {gn : Nat → List Nat}
    (hG : GroupInv size alive grp ng gn) (h og : Nat) (hs : h < size) (ha : alive h = true) (hg : grp h = some og) :
    GroupInv size alive (upd grp h none) ng (upd gn og (eraseSwap (gn og) ((gn og).idxOf h))) := by
  obtain ⟨hfwd, hbwd⟩ := hG
  obtain ⟨hog, hcnt⟩ := hfwd h hs ha og hg
  have hmem : h ∈ gn og := List.count_pos_iff.mp (by omega)
  constructor
  · intro h' hs' ha' g hg'
    rw [upd_apply] at hg'
    split at hg'
    · cases hg'
    · rename_i hne
      obtain ⟨a, b⟩ := hfwd h' hs' ha' g hg'
      refine ⟨a, ?_⟩
      rw [upd_apply]; split
      · rename_i e; rw [count_eraseSwap_ne _ _ _ hmem hne, ← e]; exact b
      · exact b
  · intro g hg' h' hh'
    rw [upd_apply] at hh'
    split at hh'
    · rename_i e
      obtain ⟨m1, m2⟩ := (mem_eraseSwap _ _ h' hcnt).mp hh'
      subst e
      obtain ⟨a, b, c⟩ := hbwd g hg' h' m1
      exact ⟨a, b, by rw [upd_apply, if_neg m2]; exact c⟩
    · rename_i hne
      obtain ⟨a, b, c⟩ := hbwd g hg' h' hh'
      refine ⟨a, b, ?_⟩
      rw [upd_apply, if_neg]
      · exact c
      · intro e; rw [e, hg] at c; injection c with c; exact hne c.symm

theorem group_add {size : Nat} {alive : Nat → Bool} {grp : Nat → Option Nat} {ng : Nat} {gn : Nat → List Nat}
    (hG : GroupInv size alive grp ng gn) (h g : Nat) (hs : h < size) (ha : alive h = true) (hn : grp h = none)
    (hg : g < ng) :
    GroupInv size alive (upd grp h (some g)) ng (upd gn g (gn g ++ [h])) := by
  obtain ⟨hfwd, hbwd⟩ := hG
  have hnot : h ∉ gn g := by
    intro hm
    have := (hbwd g hg h hm).2.2
    rw [hn] at this; cases this
  constructor
  · intro h' hs' ha' g' hg'
    rw [upd_apply] at hg'
    split at hg'
    · rename_i e
      cases hg'
      subst e
      refine ⟨hg, ?_⟩
      simp only [upd_same, List.count_append, List.count_singleton, beq_self_eq_true, if_true]
      have := List.count_eq_zero.mpr hnot
      omega
    · rename_i hne
      obtain ⟨a, b⟩ := hfwd h' hs' ha' g' hg'
      refine ⟨a, ?_⟩
      rw [upd_apply]; split
      · rename_i e
        rw [List.count_append, List.count_singleton, ← e, b]
        have : (h == h') = false := beq_false_of_ne (fun e => hne e.symm)
        simp [this]
      · exact b
  · intro g' hg' h' hh'
    rw [upd_apply] at hh'
    split at hh'
    · rename_i e
      subst e
      rcases List.mem_append.mp hh' with hm | hm
      · obtain ⟨a, b, c⟩ := hbwd g' hg' h' hm
        refine ⟨a, b, ?_⟩
        rw [upd_apply, if_neg]
        · exact c
        · intro e; rw [e, hn] at c; cases c
      · have : h' = h := by simpa using hm
        subst this
        exact ⟨hs, ha, by simp⟩
    · rename_i hne
      obtain ⟨a, b, c⟩ := hbwd g' hg' h' hh'
      refine ⟨a, b, ?_⟩
      rw [upd_apply, if_neg]
      · exact c
      · intro e; rw [e, hn] at c; cases c

abbrev G (s : State) : Prop := GroupInv s.size s.alive s.grp s.ngroups s.gnodes

theorem moveToGroup_spec {s s' : State} {h : Nat} {g : Option Nat} (hG : G s) (hr : moveToGroup s h g = .ok s') :
    ∃ gn gr, s' = { s with gnodes := gn, grp := gr } ∧
      GroupInv s.size s.alive gr s.ngroups gn ∧ s.live h ∧ gr h = g := by
  unfold moveToGroup at hr
  split at hr
  · cases hr
  rename_i hl
  have hl : s.live h := Classical.not_not.mp hl
  split at hr
  · cases hr
  rename_i hv
  have hv : ∀ x ∈ g, x < s.ngroups := Classical.not_not.mp hv
  split at hr
  · rename_i e
    have e2 : s = s' := by injection hr
    subst e2
    exact ⟨s.gnodes, s.grp, rfl, hG, hl, e.symm⟩
  rename_i hne
  obtain ⟨s1, h1, h2⟩ := bind_ok.mp hr
  cases hgo : s.grp h with
  | none =>
    rw [hgo] at h1
    simp only at h1
    have e2 : s = s1 := by injection h1
    subst e2
    cases g with
    | none => exact absurd hgo.symm hne
    | some ng =>
      simp only at h2
      have e3 := Except.ok.inj h2
      subst e3
      exact ⟨_, _, rfl, group_add hG h ng hl.1 hl.2 hgo (hv ng rfl), hl, by simp⟩
  | some og =>
    rw [hgo] at h1
    simp only at h1
    split at h1
    · cases h1
    have e2 := Except.ok.inj h1
    subst e2
    have hR := group_remove hG h og hl.1 hl.2 hgo
    cases g with
    | none =>
      simp only at h2
      have e3 := Except.ok.inj h2
      subst e3
      exact ⟨_, _, rfl, hR, hl, by simp⟩
    | some ng =>
      simp only at h2
      have e3 := Except.ok.inj h2
      subst e3
      have hA := group_add hR h ng hl.1 hl.2 (by simp) (hv ng rfl)
      rw [upd_upd] at hA
      exact ⟨_, _, rfl, hA, hl, by simp⟩

theorem free_group {size : Nat} {alive : Nat → Bool} {grp : Nat → Option Nat} {ng : Nat} {gn : Nat → List Nat}
    (hG : GroupInv size alive grp ng gn) (h : Nat) (hn : grp h = none) :
    GroupInv size (upd alive h false) grp ng gn := by
  obtain ⟨hfwd, hbwd⟩ := hG
  constructor
  · intro h' hs' ha' g hg'
    rw [upd_apply] at ha'
    split at ha'
    · cases ha'
    · exact hfwd h' hs' ha' g hg'
  · intro g hg' h' hh'
    obtain ⟨a, b, c⟩ := hbwd g hg' h' hh'
    refine ⟨a, ?_, c⟩
    rw [upd_apply, if_neg]
    · exact b
    · intro e; rw [e, hn] at c; cases c

theorem create_group {size : Nat} {alive : Nat → Bool} {grp : Nat → Option Nat} {ng : Nat} {gn : Nat → List Nat}
    (hG : GroupInv size alive grp ng gn) :
    GroupInv (size + 1) (upd alive size true) (upd grp size none) ng gn := by
  obtain ⟨hfwd, hbwd⟩ := hG
  constructor
  · intro h' hs' ha' g hg'
    rw [upd_apply] at hg'
    split at hg'
    · cases hg'
    · rename_i hne
      rw [upd_apply, if_neg hne] at ha'
      exact hfwd h' (by omega) ha' g hg'
  · intro g hg' h' hh'
    obtain ⟨a, b, c⟩ := hbwd g hg' h' hh'
    have : h' ≠ size := by omega
    exact ⟨by omega, by rw [upd_apply, if_neg this]; exact b, by rw [upd_apply, if_neg this]; exact c⟩

theorem newgroup_group {size : Nat} {alive : Nat → Bool} {grp : Nat → Option Nat} {ng : Nat} {gn : Nat → List Nat}
    (hG : GroupInv size alive grp ng gn) :
    GroupInv size alive grp (ng + 1) (upd gn ng []) := by
  obtain ⟨hfwd, hbwd⟩ := hG
  constructor
  · intro h' hs' ha' g hg'
    obtain ⟨a, b⟩ := hfwd h' hs' ha' g hg'
    refine ⟨by omega, ?_⟩
    rw [upd_apply, if_neg (by omega)]; exact b
  · intro g hg' h' hh'
    rw [upd_apply] at hh'
    split at hh'
    · cases hh'
    · rename_i hne
      exact hbwd g (by omega) h' hh'

/-! ### clocks -/

theorem clock_remove {size : Nat} {alive : Nat → Bool} {numClk : Nat → Nat} {clk : Nat → Nat → Option Nat}
    {nc : Nat} {clocked : Nat → List NodePort}
    (hC : ClockInv size alive numClk clk nc clocked) (h p c : Nat) (hs : h < size) (ha : alive h = true)
    (hp : p < numClk h) (hc : clk h p = some c) :
    ClockInv size alive numClk (upd2 clk h p none) nc (upd clocked c ((clocked c).erase ⟨h, p⟩)) := by
  obtain ⟨hfwd, hbwd⟩ := hC
  obtain ⟨hcn, hcnt⟩ := hfwd h hs ha p hp c hc
  constructor
  · intro h' hs' ha' p' hp' c' hc'
    rw [upd2_apply] at hc'
    split at hc'
    · cases hc'
    · rename_i hne
      obtain ⟨a, b⟩ := hfwd h' hs' ha' p' hp' c' hc'
      refine ⟨a, ?_⟩
      rw [upd_apply]; split
      · rename_i e
        have : (⟨h', p'⟩ : NodePort) ≠ ⟨h, p⟩ := by
          intro e3; injection e3 with e4 e5; exact hne ⟨e4, e5⟩
        rw [List.count_erase_of_ne this, ← e]; exact b
      · exact b
  · intro c' hc' x hx
    rw [upd_apply] at hx
    split at hx
    · rename_i e
      subst e
      have hx1 : x ∈ clocked c' := List.mem_of_mem_erase hx
      have hx2 : x ≠ ⟨h, p⟩ := by
        intro e; subst e
        have h0 : ((clocked c').erase ⟨h, p⟩).count ⟨h, p⟩ = 0 := by rw [List.count_erase_self]; omega
        exact (List.count_eq_zero.mp h0) hx
      obtain ⟨a, b, c2, d⟩ := hbwd c' hc' x hx1
      refine ⟨a, b, c2, ?_⟩
      rw [upd2_apply, if_neg]
      · exact d
      · intro ⟨e1, e2⟩; apply hx2; cases x; simp_all
    · rename_i hne
      obtain ⟨a, b, c2, d⟩ := hbwd c' hc' x hx
      refine ⟨a, b, c2, ?_⟩
      rw [upd2_apply, if_neg]
      · exact d
      · intro ⟨e1, e2⟩; rw [e1, e2, hc] at d; injection d with d; exact hne d.symm

theorem clock_add {size : Nat} {alive : Nat → Bool} {numClk : Nat → Nat} {clk : Nat → Nat → Option Nat}
    {nc : Nat} {clocked : Nat → List NodePort}
    (hC : ClockInv size alive numClk clk nc clocked) (h p c : Nat) (hs : h < size) (ha : alive h = true)
    (hp : p < numClk h) (hn : clk h p = none) (hc : c < nc) :
    ClockInv size alive numClk (upd2 clk h p (some c)) nc (upd clocked c (setInsert (clocked c) ⟨h, p⟩)) := by
  obtain ⟨hfwd, hbwd⟩ := hC
  have hnot : (⟨h, p⟩ : NodePort) ∉ clocked c := by
    intro hm
    have := (hbwd c hc _ hm).2.2.2
    simp only at this
    rw [hn] at this; cases this
  have hins : setInsert (clocked c) ⟨h, p⟩ = clocked c ++ [⟨h, p⟩] := by
    unfold setInsert; rw [if_neg hnot]
  rw [hins]
  constructor
  · intro h' hs' ha' p' hp' c' hc'
    rw [upd2_apply] at hc'
    split at hc'
    · rename_i heq
      cases hc'
      obtain ⟨e1, e2⟩ := heq
      subst e1; subst e2
      refine ⟨hc, ?_⟩
      simp only [upd_same, List.count_append, List.count_singleton, beq_self_eq_true, if_true]
      have := List.count_eq_zero.mpr hnot
      omega
    · rename_i hne
      obtain ⟨a, b⟩ := hfwd h' hs' ha' p' hp' c' hc'
      refine ⟨a, ?_⟩
      rw [upd_apply]; split
      · rename_i e
        rw [List.count_append, List.count_singleton, ← e, b]
        have : ((⟨h, p⟩ : NodePort) == ⟨h', p'⟩) = false := by
          apply beq_false_of_ne; intro e3; injection e3 with e4 e5; exact hne ⟨e4.symm, e5.symm⟩
        simp [this]
      · exact b
  · intro c' hc' x hx
    rw [upd_apply] at hx
    split at hx
    · rename_i e
      subst e
      rcases List.mem_append.mp hx with hm | hm
      · obtain ⟨a, b, c2, d⟩ := hbwd c' hc' x hm
        refine ⟨a, b, c2, ?_⟩
        rw [upd2_apply, if_neg]
        · exact d
        · intro ⟨e1, e2⟩; rw [e1, e2, hn] at d; cases d
      · have : x = ⟨h, p⟩ := by simpa using hm
        subst this
        exact ⟨hs, ha, hp, by simp [upd2_apply]⟩
    · rename_i hne
      obtain ⟨a, b, c2, d⟩ := hbwd c' hc' x hx
      refine ⟨a, b, c2, ?_⟩
      rw [upd2_apply, if_neg]
      · exact d
      · intro ⟨e1, e2⟩; rw [e1, e2, hn] at d; cases d

abbrev C (s : State) : Prop := ClockInv s.size s.alive s.numClk s.clk s.nclocks s.clocked

theorem upd2_self' {α : Type} (f : Nat → Nat → α) (k j : Nat) (v : α) (h : f k j = v) : upd2 f k j v = f := by
  funext x y; rw [upd2_apply]; split
  · rename_i e; rw [e.1, e.2, h]
  · rfl

theorem upd2_upd2 {α : Type} (f : Nat → Nat → α) (k j : Nat) (v w : α) : upd2 (upd2 f k j v) k j w = upd2 f k j w := by
  funext x y; simp only [upd2_apply]; split <;> rfl

theorem detachClock_spec {s s' : State} {h p : Nat} (hC : C s) (hr : detachClock s h p = .ok s') :
    ∃ cd ck ca, s' = { s with clocked := cd, clk := ck, cache := ca } ∧
      ClockInv s.size s.alive s.numClk ck s.nclocks cd ∧ s.live h ∧ p < s.numClk h ∧ ck h p = none ∧
      (∀ x y, ck x y = none ∨ ck x y = s.clk x y) := by
  unfold detachClock at hr
  split at hr
  · cases hr
  rename_i hg
  obtain ⟨hl, hp⟩ := Classical.not_not.mp hg
  split at hr
  · rename_i hn
    have e : s = s' := by injection hr
    subst e
    exact ⟨s.clocked, s.clk, s.cache, rfl, hC, hl, hp, hn, fun _ _ => Or.inr rfl⟩
  · rename_i c hc
    split at hr
    · cases hr
    have e := Except.ok.inj hr
    subst e
    refine ⟨_, _, _, rfl, clock_remove hC h p c hl.1 hl.2 hp hc, hl, hp, by simp [upd2_apply], ?_⟩
    intro x y
    rw [upd2_apply]; split
    · exact Or.inl rfl
    · exact Or.inr rfl

theorem attachClock_spec {s s' : State} {h p : Nat} {c : Option Nat} (hC : C s) (hr : attachClock s h p c = .ok s') :
    ∃ cd ck ca, s' = { s with clocked := cd, clk := ck, cache := ca } ∧
      ClockInv s.size s.alive s.numClk ck s.nclocks cd ∧
      (∀ x y v, ck x y = some v → s.clk x y = some v ∨ s.calive v = true) := by
  unfold attachClock at hr
  split at hr
  · cases hr
  rename_i hg
  obtain ⟨hl, hp⟩ := Classical.not_not.mp hg
  split at hr
  · cases hr
  rename_i hv
  have hv : ∀ x ∈ c, x < s.nclocks ∧ s.calive x = true := Classical.not_not.mp hv
  split at hr
  · have e : s = s' := by injection hr
    subst e
    exact ⟨s.clocked, s.clk, s.cache, rfl, hC, fun _ _ _ e => Or.inl e⟩
  obtain ⟨s1, h1, h2⟩ := bind_ok.mp hr
  obtain ⟨cd, ck, ca, rfl, hC1, _, _, hnone, hmon⟩ := detachClock_spec hC h1
  have hprov : ∀ x y v, ck x y = some v → s.clk x y = some v := by
    intro x y v e
    rcases hmon x y with e1 | e1
    · rw [e1] at e; cases e
    · rw [← e1]; exact e
  cases c with
  | none =>
    simp only at h2
    have e := Except.ok.inj h2
    subst e
    refine ⟨cd, ck, ca, ?_, hC1, fun x y v e => Or.inl (hprov x y v e)⟩
    show ({ s with clocked := cd, clk := upd2 ck h p none, cache := ca } : State) = _
    rw [upd2_self' ck h p none hnone]
  | some c =>
    simp only at h2
    have e := Except.ok.inj h2
    subst e
    refine ⟨_, _, _, rfl, clock_add hC1 h p c hl.1 hl.2 hp hnone (hv c rfl).1, ?_⟩
    intro x y v e
    rw [upd2_apply] at e
    split at e
    · injection e with e; subst e; exact Or.inr (hv c rfl).2
    · exact Or.inl (hprov x y v e)

theorem clock_grow {size : Nat} {alive : Nat → Bool} {numClk : Nat → Nat} {clk : Nat → Nat → Option Nat}
    {nc : Nat} {clocked : Nat → List NodePort}
    (hC : ClockInv size alive numClk clk nc clocked) (h : Nat) :
    ClockInv size alive (upd numClk h (numClk h + 1)) (upd2 clk h (numClk h) none) nc clocked := by
  obtain ⟨hfwd, hbwd⟩ := hC
  constructor
  · intro h' hs' ha' p' hp' c' hc'
    rw [upd2_apply] at hc'
    split at hc'
    · cases hc'
    · rename_i hne
      have : p' < numClk h' := by
        rw [upd_apply] at hp'
        split at hp'
        · rename_i e; subst e
          have : p' ≠ numClk h' := fun e => hne ⟨rfl, e⟩
          omega
        · exact hp'
      exact hfwd h' hs' ha' p' this c' hc'
  · intro c' hc' x hx
    obtain ⟨a, b, c2, d⟩ := hbwd c' hc' x hx
    refine ⟨a, b, ?_, ?_⟩
    · rw [upd_apply]; split
      · rename_i e; rw [e] at c2; omega
      · exact c2
    · rw [upd2_apply, if_neg]
      · exact d
      · intro ⟨e1, e2⟩; rw [e1] at c2; omega

theorem addClock_spec {s s' : State} {h : Nat} {c : Option Nat} (hC : C s) (hr : addClock s h c = .ok s') :
    ∃ cd ck ca nk, s' = { s with clocked := cd, clk := ck, cache := ca, numClk := nk } ∧
      ClockInv s.size s.alive nk ck s.nclocks cd ∧
      (∀ x y v, ck x y = some v → (s.clk x y = some v ∧ ¬ (x = h ∧ y = s.numClk h)) ∨ s.calive v = true) ∧
      (∀ x, nk x = s.numClk x ∨ (x = h ∧ nk x = s.numClk x + 1 )) ∧ s.live h := by
  unfold addClock at hr
  split at hr
  · cases hr
  rename_i hl
  have hl : s.live h := Classical.not_not.mp hl
  simp only at hr
  have hC1 := clock_grow hC h
  obtain ⟨cd, ck, ca, e, hC2, hprov⟩ := attachClock_spec
    (s := { s with numClk := upd s.numClk h (s.numClk h + 1), clk := upd2 s.clk h (s.numClk h) none }) hC1 hr
  refine ⟨cd, ck, ca, _, e, hC2, ?_, ?_, hl⟩
  · intro x y v e1
    rcases hprov x y v e1 with e2 | e2
    · left
      simp only [upd2_apply] at e2
      split at e2
      · cases e2
      · rename_i hne; exact ⟨e2, hne⟩
    · exact Or.inr e2
  · intro x
    simp only [upd_apply]
    by_cases e : x = h
    · right; simp [e]
    · left; simp [e]

theorem detachRange_spec {h : Nat} (ps : List Nat) {s s' : State} (hC : C s) (hr : detachRange s h ps = .ok s') :
    ∃ cd ck ca, s' = { s with clocked := cd, clk := ck, cache := ca } ∧
      ClockInv s.size s.alive s.numClk ck s.nclocks cd ∧
      (∀ x y, ck x y = none ∨ ck x y = s.clk x y) ∧ (∀ p ∈ ps, ck h p = none) := by
  induction ps generalizing s with
  | nil =>
    have e : s = s' := by injection hr
    subst e; exact ⟨s.clocked, s.clk, s.cache, rfl, hC, fun _ _ => Or.inr rfl, by simp⟩
  | cons p ps ih =>
    obtain ⟨s1, h1, h2⟩ := bind_ok.mp hr
    obtain ⟨cd1, ck1, ca1, rfl, hC1, _, _, hnone, hmon1⟩ := detachClock_spec hC h1
    obtain ⟨cd, ck, ca, rfl, hC2, hmon, hz⟩ := ih (s := { s with clocked := cd1, clk := ck1, cache := ca1 }) hC1 h2
    refine ⟨cd, ck, ca, rfl, hC2, ?_, ?_⟩
    · intro x y
      rcases hmon x y with e | e
      · exact Or.inl e
      · rcases hmon1 x y with e1 | e1
        · left; rw [e]; exact e1
        · right; rw [e]; exact e1
    · intro q hq
      rcases List.mem_cons.mp hq with e | e
      · subst e
        rcases hmon h q with e | e
        · exact e
        · rw [e]; exact hnone
      · exact hz q e

theorem free_clock {size : Nat} {alive : Nat → Bool} {numClk : Nat → Nat} {clk : Nat → Nat → Option Nat}
    {nc : Nat} {clocked : Nat → List NodePort}
    (hC : ClockInv size alive numClk clk nc clocked) (h : Nat) (hn : ∀ p, p < numClk h → clk h p = none) :
    ClockInv size (upd alive h false) numClk clk nc clocked := by
  obtain ⟨hfwd, hbwd⟩ := hC
  constructor
  · intro h' hs' ha' p' hp' c' hc'
    rw [upd_apply] at ha'
    split at ha'
    · cases ha'
    · exact hfwd h' hs' ha' p' hp' c' hc'
  · intro c' hc' x hx
    obtain ⟨a, b, c2, d⟩ := hbwd c' hc' x hx
    refine ⟨a, ?_, c2, d⟩
    rw [upd_apply, if_neg]
    · exact b
    · intro e; rw [e] at c2 d; rw [hn _ c2] at d; cases d

theorem create_clock {size : Nat} {alive : Nat → Bool} {numClk : Nat → Nat} {clk : Nat → Nat → Option Nat}
    {nc : Nat} {clocked : Nat → List NodePort}
    (hC : ClockInv size alive numClk clk nc clocked) (n : Nat) :
    ClockInv (size + 1) (upd alive size true) (upd numClk size n) (clearFrom clk size 0 none) nc clocked := by
  obtain ⟨hfwd, hbwd⟩ := hC
  constructor
  · intro h' hs' ha' p' hp' c' hc'
    rw [clearFrom_apply] at hc'
    split at hc'
    · cases hc'
    · rename_i hne
      have hne' : h' ≠ size := fun e => hne ⟨e, Nat.zero_le _⟩
      rw [upd_apply, if_neg hne'] at ha' hp'
      exact hfwd h' (by omega) ha' p' hp' c' hc'
  · intro c' hc' x hx
    obtain ⟨a, b, c2, d⟩ := hbwd c' hc' x hx
    have : x.node ≠ size := by omega
    refine ⟨by omega, by rw [upd_apply, if_neg this]; exact b, by rw [upd_apply, if_neg this]; exact c2, ?_⟩
    rw [clearFrom_apply, if_neg (fun e => this e.1)]; exact d

theorem newclock_clock {size : Nat} {alive : Nat → Bool} {numClk : Nat → Nat} {clk : Nat → Nat → Option Nat}
    {nc : Nat} {clocked : Nat → List NodePort}
    (hC : ClockInv size alive numClk clk nc clocked) :
    ClockInv size alive numClk clk (nc + 1) (upd clocked nc []) := by
  obtain ⟨hfwd, hbwd⟩ := hC
  constructor
  · intro h' hs' ha' p' hp' c' hc'
    obtain ⟨a, b⟩ := hfwd h' hs' ha' p' hp' c' hc'
    refine ⟨by omega, ?_⟩
    rw [upd_apply, if_neg (by omega)]; exact b
  · intro c' hc' x hx
    rw [upd_apply] at hx
    split at hx
    · cases hx
    · rename_i hne
      exact hbwd c' (by omega) x hx

/-! ### ids, storage order -/

theorem create_id {size : Nat} {alive : Nat → Bool} {nid : Nat → Nat} {nextId : Nat}
    (hI : IdInv size alive nid nextId) :
    IdInv (size + 1) (upd alive size true) (upd nid size nextId) (nextId + 1) := by
  obtain ⟨h1, h2⟩ := hI
  constructor
  · intro h hs ha
    rw [upd_apply]; split
    · omega
    · rename_i hne
      rw [upd_apply, if_neg hne] at ha
      have := h1 h (by omega) ha
      omega
  · intro h hs ha k hk hka e
    simp only [upd_apply] at ha hka e
    by_cases e1 : h = size <;> by_cases e2 : k = size
    · omega
    · rw [if_pos e1, if_neg e2] at e; rw [if_neg e2] at hka
      have := h1 k (by omega) hka; omega
    · rw [if_neg e1, if_pos e2] at e; rw [if_neg e1] at ha
      have := h1 h (by omega) ha; omega
    · rw [if_neg e1, if_neg e2] at e; rw [if_neg e1] at ha; rw [if_neg e2] at hka
      exact h2 h (by omega) ha k (by omega) hka e

theorem free_id {size : Nat} {alive : Nat → Bool} {nid : Nat → Nat} {nextId : Nat}
    (hI : IdInv size alive nid nextId) (h : Nat) :
    IdInv size (upd alive h false) nid nextId := by
  obtain ⟨h1, h2⟩ := hI
  have key : ∀ x, upd alive h false x = true → alive x = true := by
    intro x hx; rw [upd_apply] at hx; split at hx
    · cases hx
    · exact hx
  exact ⟨fun x hs ha => h1 x hs (key x ha), fun x hs ha k hk hka e => h2 x hs (key x ha) k hk (key k hka) e⟩

theorem create_order {size : Nat} {alive : Nat → Bool} {order : List Nat}
    (hO : OrderInv size alive order) :
    OrderInv (size + 1) (upd alive size true) (order ++ [size]) := by
  obtain ⟨h1, h2, h3⟩ := hO
  refine ⟨?_, ?_, ?_⟩
  · rw [List.nodup_append]
    refine ⟨h1, by simp, ?_⟩
    intro a ha b hb
    have := (h2 a ha).1
    have : b = size := by simpa using hb
    omega
  · intro h hh
    rcases List.mem_append.mp hh with hm | hm
    · obtain ⟨a, b⟩ := h2 h hm
      exact ⟨by omega, by rw [upd_apply, if_neg (by omega)]; exact b⟩
    · have : h = size := by simpa using hm
      subst this; exact ⟨by omega, by simp⟩
  · intro h hs ha
    rw [upd_apply] at ha
    split at ha
    · rename_i e; subst e; simp
    · exact List.mem_append_left _ (h3 h (by omega) ha)

theorem erase_order {size : Nat} {alive : Nat → Bool} {order : List Nat}
    (hO : OrderInv size alive order) (idx h : Nat) (hi : order[idx]? = some h) :
    OrderInv size (upd alive h false) (eraseSwap order idx) := by
  obtain ⟨h1, h2, h3⟩ := hO
  obtain ⟨hlt, hget⟩ := List.getElem?_eq_some_iff.mp hi
  have hmem := mem_eraseSwap_idx order idx hlt h1
  refine ⟨nodup_eraseSwap _ _ hlt h1, ?_, ?_⟩
  · intro x hx
    obtain ⟨a, b⟩ := (hmem x).mp hx
    rw [hget] at b
    obtain ⟨c, d⟩ := h2 x a
    exact ⟨c, by rw [upd_apply, if_neg b]; exact d⟩
  · intro x hs ha
    rw [upd_apply] at ha
    split at ha
    · cases ha
    · rename_i hne
      exact (hmem x).mpr ⟨h3 x hs ha, by rw [hget]; exact hne⟩


/-! ### no clock port refers to a destroyed clock -/

abbrev CA (s : State) : Prop := CAInv s.size s.alive s.numClk s.clk s.calive

theorem ca_mono {size : Nat} {alive : Nat → Bool} {numClk : Nat → Nat} {clk ck : Nat → Nat → Option Nat} {calive : Nat → Bool}
    (hA : CAInv size alive numClk clk calive)
    (hp : ∀ x y v, ck x y = some v → clk x y = some v ∨ calive v = true) : CAInv size alive numClk ck calive := by
  intro h hs ha p hpp c hc
  rcases hp h p c hc with e | e
  · exact hA h hs ha p hpp c e
  · exact e

theorem free_ca {size : Nat} {alive : Nat → Bool} {numClk : Nat → Nat} {clk : Nat → Nat → Option Nat} {calive : Nat → Bool}
    (hA : CAInv size alive numClk clk calive) (h : Nat) : CAInv size (upd alive h false) numClk clk calive := by
  intro x hs ha p hp c hc
  rw [upd_apply] at ha
  split at ha
  · cases ha
  · exact hA x hs ha p hp c hc

theorem create_ca {size : Nat} {alive : Nat → Bool} {numClk : Nat → Nat} {clk : Nat → Nat → Option Nat} {calive : Nat → Bool}
    (hA : CAInv size alive numClk clk calive) (n : Nat) :
    CAInv (size + 1) (upd alive size true) (upd numClk size n) (clearFrom clk size 0 none) calive := by
  intro x hs ha p hp c hc
  rw [clearFrom_apply] at hc
  split at hc
  · cases hc
  · rename_i hne
    have hne' : x ≠ size := fun e => hne ⟨e, Nat.zero_le _⟩
    rw [upd_apply, if_neg hne'] at ha hp
    exact hA x (by omega) ha p hp c hc

theorem grow_ca {size : Nat} {alive : Nat → Bool} {numClk nk : Nat → Nat} {clk ck : Nat → Nat → Option Nat} {calive : Nat → Bool}
    (hA : CAInv size alive numClk clk calive) (h : Nat)
    (hp : ∀ x y v, ck x y = some v → (clk x y = some v ∧ ¬ (x = h ∧ y = numClk h)) ∨ calive v = true)
    (hn : ∀ x, nk x = numClk x ∨ (x = h ∧ nk x = numClk x + 1)) : CAInv size alive nk ck calive := by
  intro x hs ha p hpp c hc
  rcases hp x p c hc with ⟨e, hne⟩ | e
  · rcases hn x with e1 | ⟨e1, e2⟩
    · exact hA x hs ha p (by omega) c e
    · have : p ≠ numClk x := fun e3 => hne ⟨e1, by rw [e3, e1]⟩
      exact hA x hs ha p (by omega) c e
  · exact e

theorem newclock_ca {size : Nat} {alive : Nat → Bool} {numClk : Nat → Nat} {clk : Nat → Nat → Option Nat} {calive : Nat → Bool}
    (hA : CAInv size alive numClk clk calive) (nc : Nat) : CAInv size alive numClk clk (upd calive nc true) := by
  intro x hs ha p hp c hc
  rw [upd_apply]; split
  · rfl
  · exact hA x hs ha p hp c hc

theorem killclock_ca {size : Nat} {alive : Nat → Bool} {numClk : Nat → Nat} {clk : Nat → Nat → Option Nat} {calive : Nat → Bool}
    {nc : Nat} {cd : Nat → List NodePort}
    (hA : CAInv size alive numClk clk calive) (hC : ClockInv size alive numClk clk nc cd) (c : Nat) (he : cd c = []) :
    CAInv size alive numClk clk (upd calive c false) := by
  intro x hs ha p hp v hv
  rw [upd_apply]; split
  · rename_i e
    subst e
    have := (hC.1 x hs ha p hp v hv).2
    rw [he] at this; simp at this
  · exact hA x hs ha p hp v hv

theorem drainClock_spec {c : Nat} (fuel : Nat) {s s' : State} (hC : C s) (hr : drainClock fuel s c = .ok s') :
    ∃ cd ck ca, s' = { s with clocked := cd, clk := ck, cache := ca } ∧
      ClockInv s.size s.alive s.numClk ck s.nclocks cd ∧ cd c = [] ∧
      (∀ x y, ck x y = none ∨ ck x y = s.clk x y) := by
  induction fuel generalizing s with
  | zero =>
    unfold drainClock at hr
    split at hr
    · rename_i he
      have e : s = s' := by injection hr
      subst e; exact ⟨s.clocked, s.clk, s.cache, rfl, hC, he, fun _ _ => Or.inr rfl⟩
    · cases hr
  | succ f ih =>
    unfold drainClock at hr
    split at hr
    · rename_i he
      have e : s = s' := by injection hr
      subst e; exact ⟨s.clocked, s.clk, s.cache, rfl, hC, he, fun _ _ => Or.inr rfl⟩
    · obtain ⟨s1, h1, h2⟩ := bind_ok.mp hr
      obtain ⟨cd1, ck1, ca1, rfl, hC1, _, _, _, hmon1⟩ := detachClock_spec hC h1
      obtain ⟨cd, ck, ca, rfl, hC2, hz, hmon⟩ := ih (s := { s with clocked := cd1, clk := ck1, cache := ca1 }) hC1 h2
      refine ⟨cd, ck, ca, rfl, hC2, hz, ?_⟩
      intro x y
      rcases hmon x y with e | e
      · exact Or.inl e
      · rcases hmon1 x y with e1 | e1
        · left; rw [e]; exact e1
        · right; rw [e]; exact e1

end Gatery.C09
