import GateryModel.C09.Model
/-!
# C09 — the part of the property that is evaluated, not proved: tabulated graphs, type/width agreement

`PGraph` is the tabulated (finite, printable) form of a `State`; the driver parses the implementation's dump into it, turns it
into a `State` and evaluates the decidable `Inv` of `Model.lean` on it.  `typeViolations` is the decidable reading of
"connected ports agree in type and width wherever the consumer requires it" for the core node kinds.
-/
namespace Gatery.C09

/-- handle used for a pointer that does not belong to a live object of the circuit (printed `?` by the harness) -/
def deadHandle : Nat := 1000000000

structure PNode where
  h : Nat
  id : Nat
  sig : Bool
  dk : Nat := 0
  refs : Nat
  grp : Option Nat
  ins : Array (Option NodePort)
  outs : Array (CType × List NodePort)
  clks : Array (Option Nat)
deriving Inhabited

structure PGraph where
  size : Nat := 0
  order : List Nat := []
  nodes : Array PNode := #[]            -- sorted by handle
  groups : Array (List Nat) := #[]
  clocks : Array (List NodePort) := #[]
  caches : Array (List NodePort) := #[]   -- Clock::m_clockedNodesCache, in order
  calive : Array Bool := #[]              -- clock object still exists
  cdrv : Array (Option Nat) := #[]        -- Clock::m_clockDriver
  rdrv : Array (Option Nat) := #[]        -- Clock::m_resetDriver
  nextId : Nat := 0
deriving Inhabited

def PGraph.toState (g : PGraph) : State :=
  let tab : Array (Option PNode) := g.nodes.foldl (fun t n => if n.h < t.size then t.set! n.h (some n) else t) (Array.replicate g.size none)
  let nd (h : Nat) : Option PNode := (tab.getD h none)
  { size := g.size
    alive := fun h => (nd h).isSome
    nid := fun h => match nd h with | some n => n.id | none => 0
    isSig := fun h => match nd h with | some n => n.sig | none => false
    refs := fun h => match nd h with | some n => n.refs | none => 0
    numIn := fun h => match nd h with | some n => n.ins.size | none => 0
    inp := fun h i => match nd h with | some n => n.ins.getD i none | none => none
    numOut := fun h => match nd h with | some n => n.outs.size | none => 0
    conns := fun h o => match nd h with | some n => (n.outs.getD o (default, [])).2 | none => []
    ctype := fun h o => match nd h with | some n => (n.outs.getD o (default, [])).1 | none => default
    grp := fun h => match nd h with | some n => n.grp | none => none
    numClk := fun h => match nd h with | some n => n.clks.size | none => 0
    clk := fun h p => match nd h with | some n => n.clks.getD p none | none => none
    ngroups := g.groups.size
    gnodes := fun x => g.groups.getD x []
    nclocks := g.clocks.size
    clocked := fun x => g.clocks.getD x []
    cache := fun x => g.caches.getD x []
    calive := fun x => g.calive.getD x false
    dk := fun h => match nd h with | some n => n.dk | none => 0
    drv := fun k c => if k = 1 then g.cdrv.getD c none else if k = 2 then g.rdrv.getD c none else none
    order := g.order
    nextId := g.nextId }

def tabulate (s : State) : PGraph :=
  { size := s.size
    order := s.order
    nodes := (List.range s.size).foldl (fun a h =>
      if s.alive h then
        a.push { h := h, id := s.nid h, sig := s.isSig h, dk := s.dk h, refs := s.refs h, grp := s.grp h,
                 ins := ((List.range (s.numIn h)).map (s.inp h)).toArray,
                 outs := ((List.range (s.numOut h)).map fun o => (s.ctype h o, s.conns h o)).toArray,
                 clks := ((List.range (s.numClk h)).map (s.clk h)).toArray }
      else a) #[]
    groups := ((List.range s.ngroups).map s.gnodes).toArray
    clocks := ((List.range s.nclocks).map s.clocked).toArray
    caches := ((List.range s.nclocks).map s.cache).toArray
    calive := ((List.range s.nclocks).map s.calive).toArray
    cdrv := ((List.range s.nclocks).map (s.drv 1)).toArray
    rdrv := ((List.range s.nclocks).map (s.drv 2)).toArray
    nextId := s.nextId }

/-- every live node belongs to a group (required of complete designs; `Circuit::createNode` alone leaves the group unset) -/
def AllGrouped (s : State) : Prop := ∀ h, h < s.size → s.alive h = true → (s.grp h).isSome = true
instance (s : State) : Decidable (AllGrouped s) := by unfold AllGrouped; infer_instance

/-- The node-group tree (`NodeGroup::m_parent`, `m_children`), evaluated on the dumps (not part of the proved model):
every child slot holds a group of this circuit whose parent pointer points back; every group except the root has a parent that lists
it exactly once (so every group is listed exactly once overall); following parent pointers reaches the root (no cycles).
`tree[g] = (parent, child slots)`, a null or foreign pointer is `deadHandle`. -/
def groupTreeViolations (tree : Array (Option Nat × List Nat)) : List String := Id.run do
  let n := tree.size
  let mut v : List String := []
  for g in [0:n] do
    let (par, ch) := tree.getD g (none, [])
    for c in ch do
      if c ≥ n then v := v ++ [s!"group{g}:child-slot-null-or-foreign"]
      else if (tree.getD c (none, [])).1 != some g then v := v ++ [s!"group{g}:child{c}-parent-not-back"]
    match par with
    | none => if g != 0 then v := v ++ [s!"group{g}:no-parent"]
    | some p =>
      if g == 0 then v := v ++ ["root-has-parent"]
      else if p ≥ n then v := v ++ [s!"group{g}:parent-dangling"]
      else if ((tree.getD p (none, [])).2.count g) != 1 then v := v ++ [s!"group{g}:listed-{((tree.getD p (none, [])).2.count g)}-times-by-parent"]
    -- no cycle: the root is reached within n steps
    let mut cur := g
    let mut ok := false
    for _ in [0:n + 1] do
      if cur == 0 then ok := true
      else
        match (tree.getD cur (none, [])).1 with
        | some p => cur := if p < n then p else cur
        | none => pure ()
    if !ok then v := v ++ [s!"group{g}:does-not-reach-root"]
  return v

/-- node kinds whose inputs carry a type requirement -/
inductive NKind where
  | sig | logic | arith | cmp | mux | reg | shift | prio
  | rewire (ranges : List (Nat × Nat × Nat × Nat))   -- (subwidth, source (0 = INPUT), inputIdx, inputOffset)
  | other
deriving Repr

def boolT : CType := ⟨0, 1⟩

/-- violated requirements of one node, given the type of the driver of every input (`none` = unconnected) and the output types -/
def nodeTypeViolations (k : NKind) (ins : List (Option CType)) (outs : List CType) : List String :=
  let out0 := outs.getD 0 default
  let same (i : Nat) (t : CType) : List String :=
    match ins.getD i none with
    | some d => if d = t then [] else [s!"in{i}:{d.kind}/{d.width}≠{t.kind}/{t.width}"]
    | none => []
  let idx := List.range ins.length
  match k with
  | .sig => same 0 out0
  | .logic => (idx.map fun i => same i out0).flatten
  | .arith => (idx.map fun i => same i out0).flatten
  | .shift => same 0 out0
  | .mux => ((idx.filter (· ≥ 1)).map fun i => same i out0).flatten
  | .reg => same 0 out0 ++ same 1 out0 ++ same 2 boolT
  | .cmp =>
    (match ins.getD 0 none, ins.getD 1 none with
     | some a, some b => if a = b then [] else [s!"cmp operands {a.kind}/{a.width}≠{b.kind}/{b.width}"]
     | _, _ => []) ++ (if out0 = boolT then [] else ["cmp output not BOOL"])
  | .prio => (idx.map fun i => if i = 0 ∨ i % 2 = 0 then same i out0 else same i boolT).flatten
  | .rewire ranges =>
    (ranges.map fun (sub, src, ix, off) =>
      if src = 0 then
        match ins.getD ix none with
        | some d => if off + sub ≤ d.width then [] else [s!"rewire range {off}+{sub}>{d.width} of in{ix}"]
        | none => []
      else []).flatten ++
    (if (ranges.map (·.1)).foldl (· + ·) 0 = out0.width then [] else ["rewire output width ≠ sum of ranges"])
  | .other => []

end Gatery.C09
