import GateryModel.C09.InvLemmas
/-! An output's connection type cannot change under an attached consumer. -/
namespace Gatery.C09

theorem setType_attached_stable {s s' : State} {h o : Nat} {t : CType} (hE : E s) (hr : setOutputConnectionType s h o t = .ok s') :
    ∀ h' i d, h' < s.size → s.alive h' = true → i < s.numIn h' → s.inp h' i = some d →
      s'.ctype d.node d.port = s.ctype d.node d.port := by
  intro h' i d hs ha hi hd
  unfold setOutputConnectionType at hr
  split at hr
  · cases hr
  split at hr
  · split at hr
    · cases hr
    · rename_i hempty
      have hempty : s.conns h o = [] := Classical.not_not.mp hempty
      have e := Except.ok.inj hr
      subst e
      show upd2 s.ctype h o t d.node d.port = _
      rw [upd2_apply, if_neg]
      intro ⟨e1, e2⟩
      have := (hE.1 h' hs ha i hi d hd).2.2.2
      rw [e1, e2, hempty] at this
      simp at this
  · have e := Except.ok.inj hr
    subst e; rfl

/-- typed `connectInput` of an arithmetic / logic node: whatever it does to the node's own output type, every connection that exists
afterwards sees the same driver type as before the call -/
theorem typedConnect_stable {s s' : State} {cls h i : Nat} {d : Option NodePort} (hE : E s)
    (hr : typedConnect s cls h i d = .ok s') :
    ∀ h' i' d', h' < s'.size → s'.alive h' = true → i' < s'.numIn h' → s'.inp h' i' = some d' →
      s'.ctype d'.node d'.port = s.ctype d'.node d'.port := by
  unfold typedConnect at hr
  split at hr
  · cases hr
  obtain ⟨s1, h1, hr⟩ := bind_ok.mp hr
  obtain ⟨ip, c, rfl, hE1, _⟩ := connect_spec hE h1
  obtain ⟨t, _, hr⟩ := bind_ok.mp hr
  intro h' i' d' hs ha hi hd
  obtain ⟨ct, e⟩ := setType_spec hr
  have := setType_attached_stable (s := { s with conns := c, inp := ip }) hE1 hr h' i' d'
    (by rw [e] at hs; exact hs) (by rw [e] at ha; exact ha) (by rw [e] at hi; exact hi) (by rw [e] at hd; exact hd)
  exact this

end Gatery.C09
