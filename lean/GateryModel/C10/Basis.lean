/-!
# C10 — basis for the translated stable comparators

Keys of gatery's `StableSet/StableMap` are pointers to objects that carry an id (`BaseNode`, `Clock`, `NodeGroup`) or small
structs around such pointers (`NodePort`, `RefCtdNodePort`, `vhdl::NodeInternalStorageSignal`, `vhdl::RegisterConfig`).
An object is modelled as `(id, addr)`: `addr` is the memory address — an *arbitrary tag* that a stable comparator has to ignore.
`nullptr` is `none`.

The C++ bodies are translated (tools/translate_stablecompare.py → `Gen/StableCompare.lean`) into the monad `M = Option`:
`none` means *the C++ code would dereference a null pointer* (`p->getId()` on `nullptr`), so that "the comparator is defined on
every pair of keys" is a theorem and not an assumption.
-/
namespace Gatery.C10

/-- a heap object with an id (`BaseNode`, `Clock`, `NodeGroup`, …); `addr` = its address (arbitrary tag) -/
structure Obj where
  id : Nat
  addr : Nat
deriving DecidableEq, Repr

/-- `T*` ; `nullptr = none` -/
abbrev Ptr := Option Obj

/-- `hlim::NodePort` / `hlim::RefCtdNodePort` (hlim/NodePort.h:34-44, 52-64): `{ BaseNode *node; size_t port; }` -/
structure NodePort where
  node : Ptr
  port : Nat
deriving DecidableEq, Repr

/-- `vhdl::NodeInternalStorageSignal` (export/vhdl/NamespaceScope.h:40-46) -/
structure StorageSignal where
  node : Ptr
  signalIdx : Nat
deriving DecidableEq, Repr

/-- `vhdl::RegisterConfig` (export/vhdl/Process.h:79-90); enums and the bool as numbers -/
structure RegisterConfig where
  clock : Ptr
  reset : Ptr
  triggerEvent : Nat
  resetType : Nat
  resetHighActive : Nat
deriving DecidableEq, Repr

/-- evaluation with undefined behaviour: `none` = null dereference -/
abbrev M := Option

/-- `p == nullptr` -/
def isNull (p : Ptr) : M Bool := some p.isNone
/-- `p != nullptr` -/
def notNull (p : Ptr) : M Bool := some p.isSome
/-- `p->getId()` — undefined on `nullptr` -/
def getId (p : Ptr) : M Nat := p.map (·.id)
/-- `a < b` on integers -/
def ltM (a b : M Nat) : M Bool := a.bind fun x => b.bind fun y => some (decide (x < y))
/-- `a > b` on integers -/
def gtM (a b : M Nat) : M Bool := a.bind fun x => b.bind fun y => some (decide (x > y))
/-- `if (c) return t; … e` -/
def ifM (c : M Bool) (t e : M Bool) : M Bool := c.bind fun b => if b then t else e

/-- lexicographic order on `List Nat` (a proper prefix is smaller): the *stable keys* are compared with it -/
def lexLt : List Nat → List Nat → Bool
  | [], [] => false
  | [], _ :: _ => true
  | _ :: _, [] => false
  | a :: as, b :: bs => decide (a < b) || (a == b && lexLt as bs)

/-- a pointer as a number that does not depend on the address: `nullptr ↦ 0`, object with id `i ↦ i+1` -/
def Ptr.code : Ptr → Nat
  | none => 0
  | some o => o.id + 1

/-- stable key of a pointer key (`BaseNode*`, `Clock*`, `NodeGroup*`, `Node_Pin*`, `Node_MultiDriver*`) -/
def skeyPtr (p : Ptr) : List Nat := [p.code]
/-- stable key of a `NodePort`: all ports of the null node are equivalent -/
def skeyNodePort (k : NodePort) : List Nat :=
  match k.node with
  | none => [0]
  | some o => [o.id + 1, k.port]
def skeyStorageSignal (k : StorageSignal) : List Nat :=
  match k.node with
  | none => [0]
  | some o => [o.id + 1, k.signalIdx]
def skeyRegisterConfig (k : RegisterConfig) : List Nat :=
  [k.clock.code, k.reset.code, k.triggerEvent, k.resetType, k.resetHighActive]

/-- re-assignment of addresses: every object gets the address `f o` -/
def Obj.retag (f : Obj → Nat) (o : Obj) : Obj := { o with addr := f o }
def Ptr.retag (f : Obj → Nat) (p : Ptr) : Ptr := p.map (Obj.retag f)
def NodePort.retag (f : Obj → Nat) (k : NodePort) : NodePort := { k with node := Ptr.retag f k.node }
def StorageSignal.retag (f : Obj → Nat) (k : StorageSignal) : StorageSignal := { k with node := Ptr.retag f k.node }
def RegisterConfig.retag (f : Obj → Nat) (k : RegisterConfig) : RegisterConfig :=
  { k with clock := Ptr.retag f k.clock, reset := Ptr.retag f k.reset }

end Gatery.C10
