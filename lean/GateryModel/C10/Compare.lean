import GateryModel.C10.Order
import GateryModel.Gen.StableCompare
/-!
# C10 — the translated comparators are lexicographic comparisons of address-free keys

For every comparator `cmpX` of `Gen/StableCompare.lean` (generated from the C++ text):
`cmpX a b = some (lexLt (skeyX a) (skeyX b))` — it is defined on all pairs (never dereferences `nullptr`) and equals the
lexicographic comparison of the stable keys, which do not mention `addr`. `lexLt ∘ skey` is a `StrictOrderOn … skey`.
-/
namespace Gatery.C10
open Gatery.Gen.StableCompare

/-! ## `lexLt` is a strict total order on `List Nat` -/

theorem lexLt_irrefl : ∀ a : List Nat, lexLt a a = false
  | [] => rfl
  | x :: xs => by simp [lexLt, lexLt_irrefl xs]

theorem lexLt_trans : ∀ a b c : List Nat, lexLt a b = true → lexLt b c = true → lexLt a c = true
  | [], [], _ => by intro h; simp [lexLt] at h
  | [], _ :: _, [] => by intro _ h; simp [lexLt] at h
  | [], _ :: _, _ :: _ => by intros; simp [lexLt]
  | _ :: _, [], _ => by intro h; simp [lexLt] at h
  | _ :: _, _ :: _, [] => by intro _ h; simp [lexLt] at h
  | x :: xs, y :: ys, z :: zs => by
    intro h1 h2
    simp only [lexLt, Bool.or_eq_true, decide_eq_true_eq, Bool.and_eq_true, beq_iff_eq] at h1 h2 ⊢
    rcases h1 with h1 | ⟨e1, h1⟩
    · rcases h2 with h2 | ⟨e2, _⟩
      · exact Or.inl (by omega)
      · exact Or.inl (by omega)
    · rcases h2 with h2 | ⟨e2, h2⟩
      · exact Or.inl (by omega)
      · exact Or.inr ⟨by omega, lexLt_trans xs ys zs h1 h2⟩

theorem lexLt_tri : ∀ a b : List Nat, lexLt a b = true ∨ lexLt b a = true ∨ a = b
  | [], [] => Or.inr (Or.inr rfl)
  | [], _ :: _ => Or.inl rfl
  | _ :: _, [] => Or.inr (Or.inl rfl)
  | x :: xs, y :: ys => by
    simp only [lexLt, Bool.or_eq_true, decide_eq_true_eq, Bool.and_eq_true, beq_iff_eq, List.cons.injEq]
    rcases Nat.lt_trichotomy x y with h | h | h
    · exact Or.inl (Or.inl h)
    · rcases lexLt_tri xs ys with t | t | t
      · exact Or.inl (Or.inr ⟨h, t⟩)
      · exact Or.inr (Or.inl (Or.inr ⟨h.symm, t⟩))
      · exact Or.inr (Or.inr ⟨h, t⟩)
    · exact Or.inr (Or.inl (Or.inl h))

/-- comparing address-free keys lexicographically is a strict order, total modulo the key, that sees only the key -/
theorem strictOrderOn_lex {α : Type} (skey : α → List Nat) : StrictOrderOn (fun a b => lexLt (skey a) (skey b)) skey where
  irrefl a := lexLt_irrefl _
  trans a b c := lexLt_trans _ _ _
  tri a b := lexLt_tri _ _
  congr a a' b b' e1 e2 := by simp only [e1, e2]

/-! ## specifications of the translated comparators -/

theorem stableCompareWithId_spec (a b : Ptr) : stableCompareWithId a b = some (lexLt (skeyPtr a) (skeyPtr b)) := by
  cases a <;> cases b <;>
    simp [stableCompareWithId, ifM, isNull, notNull, getId, ltM, skeyPtr, Ptr.code, lexLt]

theorem cmpNodePtr_spec (a b : Ptr) : cmpNodePtr a b = some (lexLt (skeyPtr a) (skeyPtr b)) := stableCompareWithId_spec a b
theorem cmpClockPtr_spec (a b : Ptr) : cmpClockPtr a b = some (lexLt (skeyPtr a) (skeyPtr b)) := stableCompareWithId_spec a b
theorem cmpNodeGroupPtr_spec (a b : Ptr) : cmpNodeGroupPtr a b = some (lexLt (skeyPtr a) (skeyPtr b)) := stableCompareWithId_spec a b
theorem cmpNodePinPtr_spec (a b : Ptr) : cmpNodePinPtr a b = some (lexLt (skeyPtr a) (skeyPtr b)) := stableCompareWithId_spec a b
theorem cmpMultiDriverPtr_spec (a b : Ptr) : cmpMultiDriverPtr a b = some (lexLt (skeyPtr a) (skeyPtr b)) := stableCompareWithId_spec a b

theorem cmpNodePort_spec (a b : NodePort) : cmpNodePort a b = some (lexLt (skeyNodePort a) (skeyNodePort b)) := by
  obtain ⟨an, ap⟩ := a
  obtain ⟨bn, bp⟩ := b
  cases an <;> cases bn <;>
    simp [cmpNodePort, ifM, isNull, notNull, getId, ltM, gtM, skeyNodePort, lexLt]
  rename_i x y
  by_cases h1 : x.id < y.id
  · simp [h1]
  · by_cases h2 : y.id < x.id
    · simp [h1, h2]; omega
    · have : x.id = y.id := by omega
      simp [this]

theorem cmpRefCtdNodePort_spec (a b : NodePort) : cmpRefCtdNodePort a b = some (lexLt (skeyNodePort a) (skeyNodePort b)) := by
  obtain ⟨an, ap⟩ := a
  obtain ⟨bn, bp⟩ := b
  cases an <;> cases bn <;>
    simp [cmpRefCtdNodePort, ifM, isNull, notNull, getId, ltM, gtM, skeyNodePort, lexLt]
  rename_i x y
  by_cases h1 : x.id < y.id
  · simp [h1]
  · by_cases h2 : y.id < x.id
    · simp [h1, h2]; omega
    · have : x.id = y.id := by omega
      simp [this]

theorem cmpStorageSignal_spec (a b : StorageSignal) : cmpStorageSignal a b = some (lexLt (skeyStorageSignal a) (skeyStorageSignal b)) := by
  obtain ⟨an, ap⟩ := a
  obtain ⟨bn, bp⟩ := b
  cases an <;> cases bn <;>
    simp [cmpStorageSignal, ifM, isNull, notNull, getId, ltM, gtM, skeyStorageSignal, lexLt]
  rename_i x y
  by_cases h1 : x.id < y.id
  · simp [h1]
  · by_cases h2 : y.id < x.id
    · simp [h1, h2]; omega
    · have : x.id = y.id := by omega
      simp [this]

/-- one level of a lexicographic `if (a < b) return true; if (b < a) return false; rest` cascade -/
theorem lex_step (x y : Nat) (rest : M Bool) (xs ys : List Nat) (hrest : rest = some (lexLt xs ys)) :
    ifM (some (decide (x < y))) (some true) (ifM (some (decide (y < x))) (some false) rest) = some (lexLt (x :: xs) (y :: ys)) := by
  subst hrest
  by_cases h1 : x < y
  · simp [ifM, lexLt, h1]
  · by_cases h2 : y < x
    · simp [ifM, lexLt, h1, h2]; omega
    · have : x = y := by omega
      simp [ifM, lexLt, this]

theorem code_lt (a b : Ptr) : lexLt (skeyPtr a) (skeyPtr b) = decide (a.code < b.code) := by
  simp [skeyPtr, lexLt]

theorem cmpRegisterConfig_spec (a b : RegisterConfig) :
    cmpRegisterConfig a b = some (lexLt (skeyRegisterConfig a) (skeyRegisterConfig b)) := by
  unfold cmpRegisterConfig skeyRegisterConfig
  simp only [cmpClockPtr_spec, code_lt, ltM, gtM, Option.bind, GT.gt]
  apply lex_step; apply lex_step; apply lex_step; apply lex_step
  simp [lexLt]

/-! ## the Boolean comparators used by the containers -/

/-- the comparator as the container sees it (`true` iff the C++ call returns `true`) -/
def ltOf {α : Type} (cmp : α → α → M Bool) (a b : α) : Bool := cmp a b == some true

theorem ltOf_eq {α : Type} (cmp : α → α → M Bool) (skey : α → List Nat) (spec : ∀ a b, cmp a b = some (lexLt (skey a) (skey b))) :
    ltOf cmp = fun a b => lexLt (skey a) (skey b) := by
  funext a b
  simp only [ltOf, spec]
  cases lexLt (skey a) (skey b) <;> rfl

theorem strictOrderOn_of_spec {α : Type} (cmp : α → α → M Bool) (skey : α → List Nat)
    (spec : ∀ a b, cmp a b = some (lexLt (skey a) (skey b))) : StrictOrderOn (ltOf cmp) skey := by
  rw [ltOf_eq cmp skey spec]; exact strictOrderOn_lex skey

/-! ## stable keys ignore addresses -/

theorem code_retag (f : Obj → Nat) (p : Ptr) : (Ptr.retag f p).code = p.code := by
  cases p <;> simp [Ptr.retag, Ptr.code, Obj.retag]
theorem skeyPtr_retag (f : Obj → Nat) (p : Ptr) : skeyPtr (Ptr.retag f p) = skeyPtr p := by
  simp [skeyPtr, code_retag]
theorem skeyNodePort_retag (f : Obj → Nat) (k : NodePort) : skeyNodePort (k.retag f) = skeyNodePort k := by
  obtain ⟨n, p⟩ := k; cases n <;> simp [skeyNodePort, NodePort.retag, Ptr.retag, Obj.retag]
theorem skeyStorageSignal_retag (f : Obj → Nat) (k : StorageSignal) : skeyStorageSignal (k.retag f) = skeyStorageSignal k := by
  obtain ⟨n, p⟩ := k; cases n <;> simp [skeyStorageSignal, StorageSignal.retag, Ptr.retag, Obj.retag]
theorem skeyRegisterConfig_retag (f : Obj → Nat) (k : RegisterConfig) : skeyRegisterConfig (k.retag f) = skeyRegisterConfig k := by
  simp [skeyRegisterConfig, RegisterConfig.retag, code_retag]

end Gatery.C10
