import GateryModel.C10.Unstable
/-!
# C10 — derived statements used by the property theorems
-/
namespace Gatery.C10

/-- what "stable comparator" means: defined everywhere (no null dereference), a strict order that is total on keys whose
stable keys differ and that sees a key only through its address-free stable key, unchanged by any re-assignment of addresses -/
structure StableComparator {K : Type} (cmp : K → K → M Bool) (skey : K → List Nat) (retag : (Obj → Nat) → K → K) : Prop where
  defined : ∀ a b, cmp a b ≠ none
  order : StrictOrderOn (ltOf cmp) skey
  total : ∀ a b, skey a ≠ skey b → ltOf cmp a b = true ∨ ltOf cmp b a = true
  skey_retag : ∀ f k, skey (retag f k) = skey k
  address_free : ∀ f g a b, cmp (retag f a) (retag g b) = cmp a b

theorem stableComparator_of_spec {K : Type} (cmp : K → K → M Bool) (skey : K → List Nat) (retag : (Obj → Nat) → K → K)
    (spec : ∀ a b, cmp a b = some (lexLt (skey a) (skey b))) (hr : ∀ f k, skey (retag f k) = skey k) :
    StableComparator cmp skey retag where
  defined a b := by rw [spec]; exact Option.some_ne_none _
  order := strictOrderOn_of_spec cmp skey spec
  total a b hne := by
    rcases (strictOrderOn_of_spec cmp skey spec).tri a b with t | t | t
    · exact Or.inl t
    · exact Or.inr t
    · exact absurd t hne
  skey_retag := hr
  address_free f g a b := by rw [spec, spec, hr, hr]

section
variable {K : Type} {lt : K → K → Bool} {skey : K → List Nat}

theorem lt_map_of_skey (h : StrictOrderOn lt skey) (ρ : K → K) (hρ : ∀ k, skey (ρ k) = skey k) (a b : K) :
    lt (ρ a) (ρ b) = lt a b := h.congr _ _ _ _ (hρ a) (hρ b)

theorem fromList_map (h : StrictOrderOn lt skey) (ρ : K → K) (hρ : ∀ k, skey (ρ k) = skey k) (l : List K) :
    fromList lt (l.map ρ) = (fromList lt l).map ρ := by
  rw [fromList_eq_run, fromList_eq_run, ← run_map lt lt ρ (lt_map_of_skey h ρ hρ), List.map_map, List.map_map]
  rfl

theorem keyInjOn_map (ρ : K → K) (hρ : ∀ k, skey (ρ k) = skey k) (l : List K) (hinj : KeyInjOn skey l) : KeyInjOn skey (l.map ρ) := by
  intro a ha b hb e
  obtain ⟨a0, ha0, rfl⟩ := List.mem_map.mp ha
  obtain ⟨b0, hb0, rfl⟩ := List.mem_map.mp hb
  rw [hρ, hρ] at e
  rw [hinj a0 ha0 b0 hb0 e]

theorem keyInjOn_perm {l l' : List K} (hp : l'.Perm l) (hinj : KeyInjOn skey l) : KeyInjOn skey l' :=
  fun a ha b hb e => hinj a (hp.mem_iff.mp ha) b (hp.mem_iff.mp hb) e

/-- container filled in any order from re-addressed copies of the same objects = re-addressed container -/
theorem fromList_perm_map (h : StrictOrderOn lt skey) (ρ : K → K) (hρ : ∀ k, skey (ρ k) = skey k) (l l' : List K)
    (hp : l'.Perm (l.map ρ)) (hinj : KeyInjOn skey l) : fromList lt l' = (fromList lt l).map ρ := by
  rw [← fromList_map h ρ hρ]
  exact fromList_perm h l' (l.map ρ) hp (keyInjOn_perm hp (keyInjOn_map ρ hρ l hinj))

/-- the stable keys of the iterated elements are strictly increasing -/
theorem run_keys_sorted (h : StrictOrderOn lt skey) (hlt : ∀ a b, lt a b = lexLt (skey a) (skey b)) (ops : List (Op K)) :
    ((run lt ops).map skey).Pairwise fun x y => lexLt x y = true := by
  rw [List.pairwise_map]
  exact List.Pairwise.imp (fun {a b} hab => by rw [← hlt]; exact hab) (run_sorted h ops)

end

end Gatery.C10
