/-!
# C10 — ordered containers over an abstract comparator

`std::set<K, Cmp>` / `std::map<K, V, Cmp>` are modelled by their *contract*: the elements are kept sorted by `Cmp`, two keys are
*equivalent* iff neither is smaller, `insert` does nothing if an equivalent key is present, `erase(key)` removes the
equivalent element, iteration visits the elements in sorted order. (The red-black tree is not modelled; it is libstdc++'s.)

`StrictOrderOn lt key`: `lt` is a strict order that is total modulo `key` and depends on its arguments only through `key`.
For the stable comparators `key` drops the address; for the pointer order of `UnstableSet/Map` it *is* the address.
-/
namespace Gatery.C10

variable {α : Type} {κ : Type}

structure StrictOrderOn (lt : α → α → Bool) (key : α → κ) : Prop where
  irrefl : ∀ a, lt a a = false
  trans : ∀ a b c, lt a b = true → lt b c = true → lt a c = true
  /-- total on keys that differ in `key` -/
  tri : ∀ a b, lt a b = true ∨ lt b a = true ∨ key a = key b
  /-- the result depends on the arguments only through `key` -/
  congr : ∀ a a' b b', key a = key a' → key b = key b' → lt a b = lt a' b'

namespace StrictOrderOn
variable {lt : α → α → Bool} {key : α → κ}

theorem asymm (h : StrictOrderOn lt key) (a b : α) : lt a b = true → lt b a = false := by
  intro hab
  cases hba : lt b a with
  | false => rfl
  | true => have := h.trans a b a hab hba; rw [h.irrefl] at this; cases this

theorem of_key_eq (h : StrictOrderOn lt key) {a b : α} (e : key a = key b) : lt a b = false := by
  rw [h.congr a b b b e rfl]; exact h.irrefl b

/-- equivalence (neither smaller) is equality of `key` -/
theorem equiv_iff (h : StrictOrderOn lt key) (a b : α) : (lt a b = false ∧ lt b a = false) ↔ key a = key b := by
  constructor
  · intro ⟨h1, h2⟩
    rcases h.tri a b with t | t | t
    · rw [h1] at t; cases t
    · rw [h2] at t; cases t
    · exact t
  · intro e; exact ⟨h.of_key_eq e, h.of_key_eq e.symm⟩

end StrictOrderOn

/-- `std::set::insert` / `std::map::insert|emplace|try_emplace`: descend to the position; an equivalent element blocks the insertion -/
def insertSorted (lt : α → α → Bool) (x : α) : List α → List α
  | [] => [x]
  | y :: ys => if lt x y then x :: y :: ys else if lt y x then y :: insertSorted lt x ys else y :: ys

/-- `erase(key)`: removes the element equivalent to `x` -/
def eraseSorted (lt : α → α → Bool) (x : α) (s : List α) : List α := s.filter fun y => lt x y || lt y x

/-- `find(key)` : the element equivalent to `x` -/
def findSorted (lt : α → α → Bool) (x : α) (s : List α) : Option α := s.find? fun y => !lt x y && !lt y x

/-- strictly sorted -/
def Sorted (lt : α → α → Bool) (s : List α) : Prop := s.Pairwise fun a b => lt a b = true

inductive Op (α : Type) where
  | insert (x : α)
  | erase (x : α)

def Op.map {β : Type} (f : α → β) : Op α → Op β
  | .insert x => .insert (f x)
  | .erase x => .erase (f x)

def step (lt : α → α → Bool) (s : List α) : Op α → List α
  | .insert x => insertSorted lt x s
  | .erase x => eraseSorted lt x s

/-- the container after an operation history (iteration order = list order) -/
def run (lt : α → α → Bool) (ops : List (Op α)) : List α := ops.foldl (step lt) []

/-- a container filled from a sequence (`for (x : l) set.insert(x)`, range constructor) -/
def fromList (lt : α → α → Bool) (l : List α) : List α := l.foldl (fun s x => insertSorted lt x s) []

theorem fromList_eq_run (lt : α → α → Bool) (l : List α) : fromList lt l = run lt (l.map Op.insert) := by
  unfold fromList run
  generalize ([] : List α) = s
  induction l generalizing s with
  | nil => rfl
  | cons x xs ih => simp [List.foldl, step, ih]

/-! ## equivariance: the container commutes with every map that preserves the comparator -/

section equivariance
variable {β : Type} (lt : α → α → Bool) (lt' : β → β → Bool) (ρ : α → β)

theorem insertSorted_map (hρ : ∀ a b, lt' (ρ a) (ρ b) = lt a b) (x : α) (s : List α) :
    insertSorted lt' (ρ x) (s.map ρ) = (insertSorted lt x s).map ρ := by
  induction s with
  | nil => rfl
  | cons y ys ih =>
    simp only [List.map, insertSorted, hρ]
    by_cases h1 : lt x y = true
    · simp [h1]
    · by_cases h2 : lt y x = true
      · simp [h1, h2, ih]
      · simp [h1, h2]

theorem eraseSorted_map (hρ : ∀ a b, lt' (ρ a) (ρ b) = lt a b) (x : α) (s : List α) :
    eraseSorted lt' (ρ x) (s.map ρ) = (eraseSorted lt x s).map ρ := by
  unfold eraseSorted
  rw [List.filter_map]
  congr 1
  apply List.filter_congr
  intro y _
  simp [Function.comp, hρ]

theorem run_map (hρ : ∀ a b, lt' (ρ a) (ρ b) = lt a b) (ops : List (Op α)) :
    run lt' (ops.map (Op.map ρ)) = (run lt ops).map ρ := by
  unfold run
  have : ∀ s : List α, List.foldl (step lt') (s.map ρ) (ops.map (Op.map ρ)) = (List.foldl (step lt) s ops).map ρ := by
    induction ops with
    | nil => intro s; rfl
    | cons o os ih =>
      intro s
      simp only [List.map, List.foldl]
      cases o with
      | insert x => simp only [Op.map, step]; rw [insertSorted_map lt lt' ρ hρ]; exact ih _
      | erase x => simp only [Op.map, step]; rw [eraseSorted_map lt lt' ρ hρ]; exact ih _
  exact this []

end equivariance

/-! ## sortedness, membership -/

section sorted
variable {lt : α → α → Bool} {key : α → κ}

theorem mem_insertSorted (x : α) (s : List α) (z : α) : z ∈ insertSorted lt x s → z = x ∨ z ∈ s := by
  induction s with
  | nil => intro h; simp [insertSorted] at h; exact Or.inl h
  | cons y ys ih =>
    unfold insertSorted
    split
    · intro h; simp at h; rcases h with h | h | h
      · exact Or.inl h
      · exact Or.inr (by simp [h])
      · exact Or.inr (by simp [h])
    · split
      · intro h; simp at h; rcases h with h | h
        · exact Or.inr (by simp [h])
        · rcases ih h with h | h
          · exact Or.inl h
          · exact Or.inr (by simp [h])
      · intro h; exact Or.inr h

theorem mem_insertSorted_of_mem (x : α) (s : List α) (z : α) : z ∈ s → z ∈ insertSorted lt x s := by
  induction s with
  | nil => intro h; cases h
  | cons y ys ih =>
    intro h
    unfold insertSorted
    split
    · simp at h ⊢; exact Or.inr h
    · split
      · simp at h ⊢; rcases h with h | h
        · exact Or.inl h
        · exact Or.inr (ih h)
      · exact h

theorem insertSorted_sorted (h : StrictOrderOn lt key) (x : α) (s : List α) (hs : Sorted lt s) : Sorted lt (insertSorted lt x s) := by
  induction s with
  | nil => simp [insertSorted, Sorted]
  | cons y ys ih =>
    unfold Sorted at hs ⊢
    rw [List.pairwise_cons] at hs
    unfold insertSorted
    split
    · rename_i hxy
      rw [List.pairwise_cons]
      refine ⟨?_, List.pairwise_cons.mpr hs⟩
      intro z hz
      simp at hz
      rcases hz with hz | hz
      · rw [hz]; exact hxy
      · exact h.trans _ _ _ hxy (hs.1 z hz)
    · split
      · rename_i _ hyx
        rw [List.pairwise_cons]
        refine ⟨?_, ih hs.2⟩
        intro z hz
        rcases mem_insertSorted x ys z hz with hz | hz
        · rw [hz]; exact hyx
        · exact hs.1 z hz
      · exact List.pairwise_cons.mpr hs

theorem eraseSorted_sorted (x : α) (s : List α) (hs : Sorted lt s) : Sorted lt (eraseSorted lt x s) :=
  List.Pairwise.sublist (List.filter_sublist) hs

theorem run_sorted (h : StrictOrderOn lt key) (ops : List (Op α)) : Sorted lt (run lt ops) := by
  unfold run
  have : ∀ s, Sorted lt s → Sorted lt (List.foldl (step lt) s ops) := by
    induction ops with
    | nil => intro s hs; exact hs
    | cons o os ih =>
      intro s hs
      simp only [List.foldl]
      apply ih
      cases o with
      | insert x => exact insertSorted_sorted h x s hs
      | erase x => exact eraseSorted_sorted x s hs
  exact this [] (by simp [Sorted])

/-- an element equivalent to `x` is present after `insert x` (either `x` itself or the one that blocked it) -/
theorem insertSorted_has (h : StrictOrderOn lt key) (x : α) (s : List α) : ∃ z ∈ insertSorted lt x s, key z = key x := by
  induction s with
  | nil => exact ⟨x, by simp [insertSorted], rfl⟩
  | cons y ys ih =>
    unfold insertSorted
    split
    · exact ⟨x, by simp, rfl⟩
    · split
      · obtain ⟨z, hz, e⟩ := ih
        exact ⟨z, by simp [hz], e⟩
      · rename_i h1 h2
        refine ⟨y, by simp, ?_⟩
        have := (h.equiv_iff x y).mp ⟨by simpa using h1, by simpa using h2⟩
        exact this.symm

/-- two strictly sorted lists with the same members are equal -/
theorem sorted_ext (h : StrictOrderOn lt key) : ∀ (s t : List α), Sorted lt s → Sorted lt t → (∀ z, z ∈ s ↔ z ∈ t) → s = t := by
  intro s
  induction s with
  | nil =>
    intro t _ _ hm
    cases t with
    | nil => rfl
    | cons b _ => exact absurd ((hm b).mpr (by simp)) (by simp)
  | cons a s' ih =>
    intro t hs ht hm
    cases t with
    | nil => exact absurd ((hm a).mp (by simp)) (by simp)
    | cons b t' =>
      unfold Sorted at hs ht
      rw [List.pairwise_cons] at hs ht
      have hab : a = b := by
        have h1 := (hm a).mp (by simp)
        have h2 := (hm b).mpr (by simp)
        simp at h1 h2
        rcases h1 with h1 | h1
        · exact h1
        · rcases h2 with h2 | h2
          · exact h2.symm
          · have := h.asymm _ _ (ht.1 a h1)
            rw [hs.1 b h2] at this; cases this
      subst hab
      congr 1
      apply ih t' hs.2 ht.2
      intro z
      constructor
      · intro hz
        have := (hm z).mp (by simp [hz])
        simp at this
        rcases this with e | e
        · subst e; have := hs.1 z hz; rw [h.irrefl] at this; cases this
        · exact e
      · intro hz
        have := (hm z).mpr (by simp [hz])
        simp at this
        rcases this with e | e
        · subst e; have := ht.1 z hz; rw [h.irrefl] at this; cases this
        · exact e

end sorted

/-! ## permutation invariance of a container filled from a sequence -/

section perm
variable {lt : α → α → Bool} {key : α → κ}

/-- `key` identifies the elements of `l` (ids are unique: two keys with the same id are the same object) -/
def KeyInjOn (key : α → κ) (l : List α) : Prop := ∀ a ∈ l, ∀ b ∈ l, key a = key b → a = b

theorem fromList_sorted (h : StrictOrderOn lt key) (l : List α) : Sorted lt (fromList lt l) := by
  rw [fromList_eq_run]; exact run_sorted h _

theorem foldl_insert_mem (l : List α) : ∀ (s : List α) (z : α),
    z ∈ l.foldl (fun s x => insertSorted lt x s) s → z ∈ s ∨ z ∈ l := by
  induction l with
  | nil => intro s z hz; exact Or.inl hz
  | cons x xs ih =>
    intro s z hz
    simp only [List.foldl] at hz
    rcases ih _ z hz with hz | hz
    · rcases mem_insertSorted x s z hz with e | e
      · exact Or.inr (by simp [e])
      · exact Or.inl e
    · exact Or.inr (by simp [hz])

theorem foldl_insert_keep (l : List α) : ∀ (s : List α) (z : α),
    z ∈ s → z ∈ l.foldl (fun s x => insertSorted lt x s) s := by
  induction l with
  | nil => intro s z hz; exact hz
  | cons x xs ih =>
    intro s z hz
    simp only [List.foldl]
    exact ih _ z (mem_insertSorted_of_mem x s z hz)

theorem foldl_insert_has (h : StrictOrderOn lt key) (l : List α) : ∀ (s : List α) (x : α), x ∈ l →
    ∃ z ∈ l.foldl (fun s x => insertSorted lt x s) s, key z = key x := by
  induction l with
  | nil => intro s x hx; cases hx
  | cons y ys ih =>
    intro s x hx
    simp only [List.foldl]
    simp at hx
    rcases hx with e | hx
    · subst e
      obtain ⟨z, hz, e⟩ := insertSorted_has h x s
      exact ⟨z, foldl_insert_keep ys _ z hz, e⟩
    · exact ih _ x hx

/-- with unique ids the container holds exactly the inserted elements -/
theorem mem_fromList (h : StrictOrderOn lt key) (l : List α) (hinj : KeyInjOn key l) (z : α) : z ∈ fromList lt l ↔ z ∈ l := by
  constructor
  · intro hz
    rcases foldl_insert_mem l [] z hz with e | e
    · cases e
    · exact e
  · intro hz
    obtain ⟨w, hw, e⟩ := foldl_insert_has h l [] z hz
    have hwl : w ∈ l := by
      rcases foldl_insert_mem l [] w hw with e | e
      · cases e
      · exact e
    have := hinj w hwl z hz e
    subst this
    exact hw

/-- iteration order does not depend on the insertion order -/
theorem fromList_perm (h : StrictOrderOn lt key) (l l' : List α) (hp : l.Perm l') (hinj : KeyInjOn key l) :
    fromList lt l = fromList lt l' := by
  have hinj' : KeyInjOn key l' := by
    intro a ha b hb e
    exact hinj a (hp.mem_iff.mpr ha) b (hp.mem_iff.mpr hb) e
  apply sorted_ext h _ _ (fromList_sorted h l) (fromList_sorted h l')
  intro z
  rw [mem_fromList h l hinj, mem_fromList h l' hinj']
  exact hp.mem_iff

/-- `std::sort` contract: the result is a permutation of the input in which no element is smaller than an earlier one -/
def IsSortOf (lt : α → α → Bool) (l r : List α) : Prop := r.Perm l ∧ r.Pairwise fun a b => lt b a = false

/-- with unique ids, *every* result allowed by the `std::sort` contract is the same list: the strictly sorted one -/
theorem sort_unique (h : StrictOrderOn lt key) (l r : List α) (hinj : KeyInjOn key l) (hnd : l.Nodup) (hr : IsSortOf lt l r) :
    r = fromList lt l := by
  obtain ⟨hp, hpw⟩ := hr
  have hndr : r.Nodup := hp.nodup_iff.mpr hnd
  have hs : Sorted lt r := by
    unfold Sorted
    have := List.Pairwise.and hpw hndr
    refine List.Pairwise.imp_of_mem ?_ this
    intro a b ha hb ⟨h1, h2⟩
    rcases h.tri a b with t | t | t
    · exact t
    · rw [h1] at t; cases t
    · exact absurd (hinj a (hp.mem_iff.mp ha) b (hp.mem_iff.mp hb) t) h2
  apply sorted_ext h _ _ hs (fromList_sorted h l)
  intro z
  rw [mem_fromList h l hinj]
  exact hp.mem_iff

end perm

end Gatery.C10
