import GateryModel.C10.Compare
/-!
# C10 — `UnstableSet` / `UnstableMap` used through their public interface (minus `anyOrder()`)

utils/StableContainers.h:64-132: a `std::set<Type>` / `std::map<Key, Value>` with the *default* order (pointer `<`, or the
defaulted `<=>` of `NodePort` = (node address, port)) whose iteration interface is hidden. The model keeps the elements
sorted by an order `lt` that sees the keys only through their *address key* `akey` (`StrictOrderOn lt akey`), and `akey` is
injective (distinct live objects have distinct addresses). Keys `α` are the objects' identities.

Theorem: the observations of every operation history (insert/emplace/try_emplace/operator[], assignment through operator[],
find, erase, contains, size/empty, clear) equal those of an address-free reference map (association list with `=` on
identities); hence two address assignments give the same observations.

Not covered: `anyOrder()` (audited site by site), iterating onwards from the iterator returned by `find` (`++it`), and the
defaulted `operator<=>` of `UnstableMap` (listed by the audit as an order-op).
-/
namespace Gatery.C10
set_option linter.unusedSectionVars false

variable {α V κ : Type} [DecidableEq α]

inductive UOp (α V : Type) where
  /-- `insert({k,v})`, `emplace(k,v)`, `try_emplace(k,v)`, `m[k]` with `v` = default value: no overwrite -/
  | insert (k : α) (v : V)
  /-- `m[k] = v` -/
  | assign (k : α) (v : V)
  | find (k : α)
  | erase (k : α)
  | contains (k : α)
  | size
  | clear

inductive Obs (V : Type) where
  /-- result of insert: (inserted?, value stored under the key afterwards) -/
  | ins (inserted : Bool) (v : Option V)
  | val (v : Option V)
  | count (n : Nat)
  | bool (b : Bool)
  | unit
deriving DecidableEq

/-- order on map entries = order on their keys -/
def ltP (lt : α → α → Bool) (p q : α × V) : Bool := lt p.1 q.1

def findK (lt : α → α → Bool) (k : α) (s : List (α × V)) : Option (α × V) := s.find? fun p => !lt k p.1 && !lt p.1 k
def eraseK (lt : α → α → Bool) (k : α) (s : List (α × V)) : List (α × V) := s.filter fun p => lt k p.1 || lt p.1 k

/-- one operation on the address-ordered container -/
def stepU (lt : α → α → Bool) (s : List (α × V)) : UOp α V → List (α × V) × Obs V
  | .insert k v => match findK lt k s with
      | some p => (s, .ins false (some p.2))
      | none => (insertSorted (ltP lt) (k, v) s, .ins true (some v))
  | .assign k v => (insertSorted (ltP lt) (k, v) (eraseK lt k s), .unit)
  | .find k => (s, .val ((findK lt k s).map (·.2)))
  | .erase k => (eraseK lt k s, .count (if (findK lt k s).isSome then 1 else 0))
  | .contains k => (s, .bool (findK lt k s).isSome)
  | .size => (s, .count s.length)
  | .clear => ([], .unit)

def runU (lt : α → α → Bool) : List (α × V) → List (UOp α V) → List (Obs V)
  | _, [] => []
  | s, o :: os => (stepU lt s o).2 :: runU lt (stepU lt s o).1 os

/-! the address-free reference: association list in insertion order, keys compared with `=` -/

def findR (k : α) (m : List (α × V)) : Option (α × V) := m.find? fun p => decide (p.1 = k)
def eraseR (k : α) (m : List (α × V)) : List (α × V) := m.filter fun p => !decide (p.1 = k)

def stepR (m : List (α × V)) : UOp α V → List (α × V) × Obs V
  | .insert k v => match findR k m with
      | some p => (m, .ins false (some p.2))
      | none => ((k, v) :: m, .ins true (some v))
  | .assign k v => ((k, v) :: eraseR k m, .unit)
  | .find k => (m, .val ((findR k m).map (·.2)))
  | .erase k => (eraseR k m, .count (if (findR k m).isSome then 1 else 0))
  | .contains k => (m, .bool (findR k m).isSome)
  | .size => (m, .count m.length)
  | .clear => ([], .unit)

def runR : List (α × V) → List (UOp α V) → List (Obs V)
  | _, [] => []
  | m, o :: os => (stepR m o).2 :: runR (stepR m o).1 os

/-! ## proofs -/

/-- keys occur at most once -/
def UniqKeys (m : List (α × V)) : Prop := ∀ p ∈ m, ∀ q ∈ m, p.1 = q.1 → p = q

theorem find?_perm {β : Type} (P : β → Bool) {s t : List β} (hp : s.Perm t)
    (hu : ∀ a ∈ s, ∀ b ∈ s, P a = true → P b = true → a = b) : s.find? P = t.find? P := by
  induction hp with
  | nil => rfl
  | cons x _ ih =>
    simp only [List.find?]
    cases P x with
    | true => rfl
    | false => exact ih (fun a ha b hb => hu a (by simp [ha]) b (by simp [hb]))
  | swap x y l =>
    simp only [List.find?]
    cases hx : P x <;> cases hy : P y <;> try rfl
    have := hu y (by simp) x (by simp) hy hx
    rw [this]
  | trans h1 _ ih1 ih2 =>
    rw [ih1 hu]
    exact ih2 (fun a ha b hb => hu a (h1.mem_iff.mpr ha) b (h1.mem_iff.mpr hb))

section
variable {lt : α → α → Bool} {akey : α → κ}

/-- with an injective address key, "equivalent" is "equal" -/
theorem eqv_iff_eq (h : StrictOrderOn lt akey) (hinj : ∀ a b, akey a = akey b → a = b) (a b : α) :
    (!lt a b && !lt b a) = decide (b = a) := by
  by_cases e : b = a
  · subst e; simp [h.irrefl]
  · simp only [e, decide_false]
    rcases h.tri a b with t | t | t
    · simp [t]
    · simp [t]
    · exact absurd (hinj _ _ t).symm e

theorem findK_eq (h : StrictOrderOn lt akey) (hinj : ∀ a b, akey a = akey b → a = b) (k : α) (s : List (α × V)) :
    findK lt k s = s.find? fun p => decide (p.1 = k) := by
  unfold findK; congr 1; funext p; exact eqv_iff_eq h hinj k p.1

theorem eraseK_eq (h : StrictOrderOn lt akey) (hinj : ∀ a b, akey a = akey b → a = b) (k : α) (s : List (α × V)) :
    eraseK lt k s = s.filter fun p => !decide (p.1 = k) := by
  unfold eraseK; congr 1; funext p
  have := eqv_iff_eq h hinj k p.1
  rw [← this]; cases lt k p.1 <;> cases lt p.1 k <;> rfl

theorem insertSorted_perm (lt' : α × V → α × V → Bool) (x : α × V) (s : List (α × V))
    (hne : ∀ y ∈ s, lt' x y = true ∨ lt' y x = true) : (insertSorted lt' x s).Perm (x :: s) := by
  induction s with
  | nil => exact List.Perm.refl _
  | cons y ys ih =>
    unfold insertSorted
    split
    · exact List.Perm.refl _
    · split
      · exact ((ih (fun z hz => hne z (by simp [hz]))).cons y).trans (List.Perm.swap x y ys)
      · rename_i h1 h2
        rcases hne y (by simp) with t | t
        · exact absurd t h1
        · exact absurd t h2

/-- simulation relation between the address-ordered container and the reference map -/
structure Rel (s m : List (α × V)) : Prop where
  perm : s.Perm m
  uniq : UniqKeys m

theorem uniq_of_perm {s m : List (α × V)} (hp : s.Perm m) (hu : UniqKeys m) : UniqKeys s :=
  fun p hp' q hq e => hu p (hp.mem_iff.mp hp') q (hp.mem_iff.mp hq) e

theorem find_rel {s m : List (α × V)} (r : Rel s m) (k : α) :
    (s.find? fun p => decide (p.1 = k)) = findR k m := by
  unfold findR
  apply find?_perm _ r.perm
  intro a ha b hb h1 h2
  simp at h1 h2
  exact uniq_of_perm r.perm r.uniq a ha b hb (h1.trans h2.symm)

theorem uniq_filter {m : List (α × V)} (P : α × V → Bool) (hu : UniqKeys m) : UniqKeys (m.filter P) :=
  fun p hp q hq e => hu p (List.mem_filter.mp hp).1 q (List.mem_filter.mp hq).1 e

theorem uniq_cons {m : List (α × V)} (x : α × V) (hu : UniqKeys m) (hx : ∀ q ∈ m, q.1 ≠ x.1) : UniqKeys (x :: m) := by
  intro p hp q hq e
  simp at hp hq
  rcases hp with hp | hp <;> rcases hq with hq | hq
  · rw [hp, hq]
  · subst hp; exact absurd e.symm (hx q hq)
  · subst hq; exact absurd e (hx p hp)
  · exact hu p hp q hq e

theorem findR_none {m : List (α × V)} {k : α} (hn : findR k m = none) : ∀ q ∈ m, q.1 ≠ k := by
  intro q hq e
  unfold findR at hn
  rw [List.find?_eq_none] at hn
  exact hn q hq (by simp [e])

theorem step_rel (h : StrictOrderOn lt akey) (hinj : ∀ a b, akey a = akey b → a = b) {s m : List (α × V)} (r : Rel s m)
    (o : UOp α V) : (stepU lt s o).2 = (stepR m o).2 ∧ Rel (stepU lt s o).1 (stepR m o).1 := by
  have hf : ∀ k, findK lt k s = findR k m := fun k => (findK_eq h hinj k s).trans (find_rel r k)
  have herase : ∀ k, Rel (eraseK lt k s) (eraseR k m) := by
    intro k
    refine ⟨?_, uniq_filter _ r.uniq⟩
    rw [eraseK_eq h hinj]; exact r.perm.filter _
  have hins : ∀ (k : α) (v : V) (s' m' : List (α × V)), Rel s' m' → (∀ q ∈ m', q.1 ≠ k) →
      Rel (insertSorted (ltP lt) (k, v) s') ((k, v) :: m') := by
    intro k v s' m' r' hn
    refine ⟨?_, uniq_cons _ r'.uniq hn⟩
    refine (insertSorted_perm _ _ _ ?_).trans (r'.perm.cons _)
    intro y hy
    have hne : y.1 ≠ k := hn y (r'.perm.mem_iff.mp hy)
    simp only [ltP]
    rcases h.tri k y.1 with t | t | t
    · exact Or.inl t
    · exact Or.inr t
    · exact absurd (hinj _ _ t).symm hne
  cases o with
  | insert k v =>
    simp only [stepU, stepR, hf k]
    cases hfr : findR k m with
    | some p => exact ⟨rfl, r⟩
    | none => exact ⟨rfl, hins k v s m r (findR_none hfr)⟩
  | assign k v =>
    simp only [stepU, stepR]
    refine ⟨trivial, hins k v _ _ (herase k) ?_⟩
    intro q hq
    have := (List.mem_filter.mp hq).2
    simpa using this
  | find k => simp only [stepU, stepR, hf k]; exact ⟨trivial, r⟩
  | erase k => simp only [stepU, stepR, hf k]; exact ⟨trivial, herase k⟩
  | contains k => simp only [stepU, stepR, hf k]; exact ⟨trivial, r⟩
  | size => simp only [stepU, stepR, r.perm.length_eq]; exact ⟨trivial, r⟩
  | clear => exact ⟨rfl, ⟨List.Perm.refl _, fun p hp => by cases hp⟩⟩

theorem runU_eq_runR (h : StrictOrderOn lt akey) (hinj : ∀ a b, akey a = akey b → a = b) (ops : List (UOp α V)) :
    ∀ (s m : List (α × V)), Rel s m → runU lt s ops = runR m ops := by
  induction ops with
  | nil => intros; rfl
  | cons o os ih =>
    intro s m r
    obtain ⟨h1, h2⟩ := step_rel h hinj r o
    simp only [runU, runR, h1]
    congr 1
    exact ih _ _ h2

end

/-! ## the default orders of the real key types are instances -/

/-- `std::set<T*>`: pointer order = order of the addresses `adr i` of the objects `i` -/
def ptrLt (adr : Nat → Nat) (a b : Nat) : Bool := lexLt [adr a] [adr b]
/-- defaulted `NodePort::operator<=>`: (node address, port) -/
def nodePortDefaultLt (adr : Nat → Nat) (a b : Nat × Nat) : Bool := lexLt [adr a.1, a.2] [adr b.1, b.2]

theorem ptrLt_order (adr : Nat → Nat) : StrictOrderOn (ptrLt adr) (fun a => [adr a]) := strictOrderOn_lex _
theorem nodePortDefaultLt_order (adr : Nat → Nat) : StrictOrderOn (nodePortDefaultLt adr) (fun a : Nat × Nat => [adr a.1, a.2]) :=
  strictOrderOn_lex _

end Gatery.C10
