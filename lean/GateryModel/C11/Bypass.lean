import GateryModel.C11.Erase
import GateryModel.Nodes.Seq
/-!
# C11 — all pass-through nodes at once

`bypass` re-routes, in one sweep over a netlist of any size, every input that is connected through a chain of signal nodes (named
copies, taps, attribute carriers — any number, nested to any depth) to the node at the start of the chain, i.e. it computes the
circuit with all decorations short-circuited (`getNonSignalDriver` for every port).  `bypass_exact`: this changes no value of any
node, for every stimulus, undefined bits included.
-/
namespace Gatery.C11
open Gatery.Nodes BV4

/-- the node a reference to node `j` resolves to, given the resolution table of the nodes before the referencing node -/
def resolveRef (tbl : List Nat) (o : Option Nat) : Option Nat :=
  match o with
  | none => none
  | some j => if j < tbl.length then some (tbl.getD j j) else some j

/-- resolution of the node itself: a signal node driven by an earlier node resolves to what its driver resolves to -/
def resolveSelf (tbl : List Nat) (n : NetNode) : Nat :=
  match n.kind, n.ins with
  | .signal, [some d] => if d < tbl.length then tbl.getD d d else tbl.length
  | _, _ => tbl.length

def bypassFrom (tbl : List Nat) : List NetNode → List NetNode
  | [] => []
  | n :: ns => { n with ins := n.ins.map (resolveRef tbl) } :: bypassFrom (tbl ++ [resolveSelf tbl n]) ns

/-- the netlist with every chain of pass-through nodes short-circuited -/
def bypass (net : List NetNode) : List NetNode := bypassFrom [] net

/-- table invariant: entry `j` points at or before `j`, to a node with the same value -/
def TblInv (tbl : List Nat) (vals : Vals) : Prop :=
  tbl.length = vals.length ∧ ∀ j, j < tbl.length → tbl.getD j j ≤ j ∧ vals.getD (tbl.getD j j) none = vals.getD j none

theorem gather_resolve (tbl : List Nat) (vals : Vals) (h : TblInv tbl vals) (ins : List (Option Nat)) :
    gather vals (ins.map (resolveRef tbl)) = gather vals ins := by
  unfold gather
  rw [List.map_map]
  apply List.map_congr_left
  intro o _
  simp only [Function.comp]
  cases o with
  | none => rfl
  | some j =>
    simp only [resolveRef]
    by_cases hj : j < tbl.length
    · simp only [hj, if_true]
      exact (h.2 j hj).2
    · simp only [hj, if_false]

theorem evalNetNode_resolve (env : Env) (tbl : List Nat) (vals : Vals) (h : TblInv tbl vals) (n : NetNode) :
    evalNetNode env vals { n with ins := n.ins.map (resolveRef tbl) } = evalNetNode env vals n := by
  unfold evalNetNode
  cases n.kind with
  | input k => rfl
  | signal => simp only [gather_resolve tbl vals h]
  | node k ty => simp only [gather_resolve tbl vals h]
  | tristate k => simp only [gather_resolve tbl vals h]

theorem getD_append_lt {α : Type} (l : List α) (x d : α) (j : Nat) (h : j < l.length) : (l ++ [x]).getD j d = l.getD j d := by
  simp [List.getD_eq_getElem?_getD, List.getElem?_append_left h]

theorem getD_append_len {α : Type} (l : List α) (x d : α) : (l ++ [x]).getD l.length d = x := by
  simp [List.getD_eq_getElem?_getD]

theorem tblInv_step (env : Env) (tbl : List Nat) (vals : Vals) (h : TblInv tbl vals) (n : NetNode) :
    TblInv (tbl ++ [resolveSelf tbl n]) (vals ++ [evalNetNode env vals n]) := by
  obtain ⟨hl, hp⟩ := h
  refine ⟨by simp [hl], ?_⟩
  intro j hj
  simp only [List.length_append, List.length_cons, List.length_nil] at hj
  by_cases hlt : j < tbl.length
  · obtain ⟨h1, h2⟩ := hp j hlt
    rw [getD_append_lt tbl _ _ j hlt]
    refine ⟨h1, ?_⟩
    rw [getD_append_lt vals _ _ _ (by omega), getD_append_lt vals _ _ _ (by omega)]
    exact h2
  · have hj' : j = tbl.length := by omega
    subst hj'
    rw [getD_append_len]
    have hself : (vals ++ [evalNetNode env vals n]).getD tbl.length none = evalNetNode env vals n := by
      rw [hl]; exact getD_append_len vals _ _
    rw [hself]
    unfold resolveSelf
    split
    · rename_i d hk hi
      split
      · rename_i hd
        obtain ⟨h1, h2⟩ := hp d hd
        refine ⟨by omega, ?_⟩
        rw [getD_append_lt vals _ _ _ (by omega), h2]
        simp [evalNetNode, hk, hi, gather]
      · refine ⟨Nat.le_refl _, hself⟩
    · exact ⟨Nat.le_refl _, hself⟩

theorem bypassFrom_exact (env : Env) (net : List NetNode) (tbl : List Nat) (vals : Vals) (h : TblInv tbl vals) :
    evalNetFrom env (bypassFrom tbl net) vals = evalNetFrom env net vals := by
  induction net generalizing tbl vals with
  | nil => rfl
  | cons n ns ih =>
    simp only [bypassFrom, evalNetFrom]
    rw [evalNetNode_resolve env tbl vals h n]
    exact ih _ _ (tblInv_step env tbl vals h n)

/-- **All decorations at once.** Short-circuiting every chain of pass-through nodes of a netlist of any size changes no value. -/
theorem bypass_exact (env : Env) (net : List NetNode) : evalNet env (bypass net) = evalNet env net :=
  bypassFrom_exact env net [] [] ⟨rfl, fun _ hj => by simp at hj⟩

theorem bypassFrom_length (tbl : List Nat) (net : List NetNode) : (bypassFrom tbl net).length = net.length := by
  induction net generalizing tbl with
  | nil => rfl
  | cons n ns ih => simp [bypassFrom, ih]

/-! ## clocked netlists: the register ports are short-circuited too -/

def tblFrom (tbl : List Nat) : List NetNode → List Nat
  | [] => tbl
  | n :: ns => tblFrom (tbl ++ [resolveSelf tbl n]) ns

theorem tblInv_final (env : Env) (net : List NetNode) (tbl : List Nat) (vals : Vals) (h : TblInv tbl vals) :
    TblInv (tblFrom tbl net) (evalNetFrom env net vals) := by
  induction net generalizing tbl vals with
  | nil => exact h
  | cons n ns ih => exact ih _ _ (tblInv_step env tbl vals h n)

def bypassReg (tbl : List Nat) (r : RegDecl) : RegDecl :=
  { r with d := resolveRef tbl r.d, rst := resolveRef tbl r.rst, en := resolveRef tbl r.en }

/-- a clocked netlist with every chain of pass-through nodes short-circuited, at node inputs and at register ports -/
def bypassSeq (c : SeqNet) : SeqNet :=
  { nodes := bypass c.nodes, regs := c.regs.map (bypassReg (tblFrom [] c.nodes)) }

theorem look_resolve (tbl : List Nat) (vals : Vals) (h : TblInv tbl vals) (o : Option Nat) :
    look vals (resolveRef tbl o) = look vals o := by
  cases o with
  | none => rfl
  | some j =>
    simp only [resolveRef]
    by_cases hj : j < tbl.length
    · simp only [hj, if_true, look]
      exact (h.2 j hj).2
    · simp only [hj, if_false]

theorem nextState_bypass (tbl : List Nat) (vals : Vals) (h : TblInv tbl vals) (regs : List RegDecl) (rs : Bool) (st : List BV4) :
    nextState (regs.map (bypassReg tbl)) vals rs st = nextState regs vals rs st := by
  unfold nextState
  induction regs generalizing st with
  | nil => rfl
  | cons r rest ih =>
    cases st with
    | nil => rfl
    | cons v vs =>
      simp only [List.map_cons, List.zipWith_cons_cons, ih]
      simp only [bypassReg, look_resolve tbl vals h]

/-- **All decorations at once, over time.** For stimuli of any length, the short-circuited clocked netlist shows exactly the same
    value at every node at every cycle. -/
theorem bypassSeq_exact (c : SeqNet) (stim : List Cycle) (st : List BV4) : seqRun (bypassSeq c) stim st = seqRun c stim st := by
  induction stim generalizing st with
  | nil => rfl
  | cons cyc rest ih =>
    obtain ⟨pins, rs⟩ := cyc
    simp only [seqRun, bypassSeq, bypass_exact]
    have hinv : TblInv (tblFrom [] c.nodes) (evalNet (pins ++ st) c.nodes) :=
      tblInv_final (pins ++ st) c.nodes [] [] ⟨rfl, fun _ hj => by simp at hj⟩
    rw [nextState_bypass _ _ hinv]
    exact congrArg _ (ih _)

end Gatery.C11
