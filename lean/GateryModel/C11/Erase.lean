import GateryModel.C01.Rules2
/-!
# C11 — decorations are identities of the semantics

In the netlist model (`Gatery.Nodes.Netlist`) names, comments, groups (areas/entities) and attributes are not part of a node's
semantics at all: `evalNetNode` reads only `kind`, `w`, `ins`. What a decoration can add to the *graph* is a pass-through node:
a named `Node_Signal`, an attribute or tap node hanging off a signal. This file proves that routing a connection through any number
of such pass-through nodes, or removing them, changes no value of any other node — exactly, including undefined bits.
-/
namespace Gatery.C11
open Gatery.Nodes BV4 Gatery.C01

/-- replacing a node by one that evaluates to the same value in its context leaves the whole evaluation unchanged -/
theorem replace_exact (pre post : List NetNode) (n n' : NetNode)
    (h : ∀ env, evalNetNode env (evalNet env pre) n = evalNetNode env (evalNet env pre) n') (env : Env) :
    evalNet env (pre ++ n :: post) = evalNet env (pre ++ n' :: post) := by
  unfold evalNet
  rw [evalNetFrom_append, evalNetFrom_append]
  simp only [evalNetFrom]
  have := h env
  unfold evalNet at this
  rw [this]

/-- a signal node has the value of its driver -/
theorem signal_value (env : Env) (pre : List NetNode) (s d w : Nat)
    (hs : pre[s]? = some ⟨.signal, w, [some d]⟩) (hd : d < s) :
    (evalNet env pre).getD s none = (evalNet env pre).getD d none := by
  have hsl : s < pre.length := by
    cases h : pre[s]? with
    | none => rw [h] at hs; cases hs
    | some _ => exact (List.getElem?_eq_some_iff.mp h).1
  rw [evalNet_getD env pre s _ hs]
  simp only [evalNetNode, gather, List.map_cons, List.map_nil, List.getD_cons_zero]
  exact evalNet_take_getD env pre s d hd (by omega)

/-- re-route every reference to node `s` to node `d` -/
def reroute (s d : Nat) (ins : List (Option Nat)) : List (Option Nat) := ins.map fun o => if o = some s then some d else o

theorem gather_reroute (vals : Vals) (s d : Nat) (ins : List (Option Nat)) (h : vals.getD s none = vals.getD d none) :
    gather vals (reroute s d ins) = gather vals ins := by
  unfold gather reroute
  rw [List.map_map]
  apply List.map_congr_left
  intro o _
  simp only [Function.comp]
  by_cases ho : o = some s
  · subst ho
    simp only [if_true]
    exact h.symm
  · simp [ho]

/-- **Pass-through signals are transparent.** A consumer connected through a signal node (named or not, whatever its group,
    comment or attributes) computes exactly the value it computes when connected to the signal's driver directly. -/
theorem signal_transparent (pre post : List NetNode) (s d w : Nat) (n : NetNode)
    (hs : pre[s]? = some ⟨.signal, w, [some d]⟩) (hd : d < s) (env : Env) :
    evalNet env (pre ++ n :: post) = evalNet env (pre ++ { n with ins := reroute s d n.ins } :: post) := by
  apply replace_exact
  intro env
  have hv := signal_value env pre s d w hs hd
  unfold evalNetNode
  cases n.kind with
  | input k => rfl
  | signal => simp only [gather_reroute _ s d n.ins hv]
  | node k ty => simp only [gather_reroute _ s d n.ins hv]
  | tristate k => simp only [gather_reroute _ s d n.ins hv]

/-- inserting a pass-through signal after node `d` (a named copy, a tap, an attribute carrier) does not change any existing value:
    the values of the old nodes are a prefix of the new evaluation -/
theorem insert_signal_conservative (net : List NetNode) (d w : Nat) (env : Env) :
    ∃ v, evalNet env (net ++ [⟨.signal, w, [some d]⟩]) = evalNet env net ++ [v] ∧ v = (evalNet env net).getD d none := by
  unfold evalNet
  rw [evalNetFrom_append]
  simp only [evalNetFrom, evalNetNode, gather, List.map_cons, List.map_nil, List.getD_cons_zero]
  exact ⟨_, rfl, rfl⟩

end Gatery.C11
