import GateryModel.C12.Spec
/-!
# C12 — lemmas about the check: `checkValidInputClocks` = pairwise compatibility of all contributions
-/
namespace Gatery.C12

theorem compat_symm {ps : Clk → Clk} {a b : Dom} : compat ps a b → compat ps b a := by
  cases a <;> cases b <;> simp [compat, compatB] <;> intro h <;> exact h.symm

theorem compat_const_left {ps : Clk → Clk} (a : Dom) : compat ps .const a := by
  cases a <;> simp [compat, compatB]

theorem compat_const_right {ps : Clk → Clk} (a : Dom) : compat ps a .const := by
  cases a <;> simp [compat, compatB]

theorem sim_refl {ps : Clk → Clk} (a : Dom) : sim ps a a := by
  cases a <;> simp [sim, simB]

theorem sim_symm {ps : Clk → Clk} {a b : Dom} : sim ps a b → sim ps b a := by
  cases a <;> cases b <;> simp [sim, simB] <;> intro h <;> exact h.symm

theorem sim_trans {ps : Clk → Clk} {a b c : Dom} : sim ps a b → sim ps b c → sim ps a c := by
  cases a <;> cases b <;> cases c <;> simp [sim, simB] <;> intro h1 h2 <;> exact h1.trans h2

theorem compat_sim_right {ps : Clk → Clk} {a b c : Dom} : compat ps a b → sim ps b c → compat ps a c := by
  cases a <;> cases b <;> cases c <;> simp [sim, simB, compat, compatB] <;> intro h1 h2 <;> exact h1.trans h2

theorem compat_sim_left {ps : Clk → Clk} {a b c : Dom} : compat ps a b → sim ps a c → compat ps c b :=
  fun h s => compat_symm (compat_sim_right (compat_symm h) s)

theorem sim_of_compat {ps : Clk → Clk} {a b : Dom} : compat ps a b → a ≠ .const → b ≠ .const → sim ps a b := by
  cases a <;> cases b <;> simp [sim, simB, compat, compatB]

theorem sim_const_left {ps : Clk → Clk} {a : Dom} : sim ps .const a → a = .const := by
  cases a <;> simp [sim, simB]

theorem sim_ne_const {ps : Clk → Clk} {a b : Dom} : sim ps a b → b ≠ .const → a ≠ .const := by
  cases a <;> cases b <;> simp [sim, simB]

/-- what the accumulated state `(clock, numUnknowns)` of the loop demands of a further input -/
def accCompat (ps : Clk → Clk) (acc : Option Clk) (n : Nat) : Dom → Prop
  | .const => True
  | .unknown => n = 0 ∧ acc = none
  | .clock c => n = 0 ∧ (acc = none ∨ acc = some (ps c))

theorem checkLoop_iff (ps : Clk → Clk) : ∀ (l : List Dom) (acc : Option Clk) (n : Nat),
    checkLoop ps acc n l = true ↔
      (l.Pairwise (compat ps) ∧ (∀ x, x ∈ l → accCompat ps acc n x) ∧ n ≤ 1 ∧ (n = 0 ∨ acc = none)) := by
  intro l
  induction l with
  | nil =>
    intro acc n
    cases acc <;> simp [checkLoop] <;> omega
  | cons x r ih =>
    intro acc n
    cases x with
    | const =>
      simp only [checkLoop, ih, List.pairwise_cons, List.mem_cons, forall_eq_or_imp, accCompat]
      constructor
      · rintro ⟨h1, h2, h3⟩
        exact ⟨⟨fun a _ => compat_const_left a, h1⟩, ⟨trivial, h2⟩, h3⟩
      · rintro ⟨⟨_, h1⟩, ⟨_, h2⟩, h3⟩
        exact ⟨h1, h2, h3⟩
    | unknown =>
      simp only [checkLoop, ih, List.pairwise_cons, List.mem_cons, forall_eq_or_imp, accCompat]
      constructor
      · rintro ⟨h1, h2, h3, h4⟩
        have hn : n = 0 := by omega
        have hacc : acc = none := by
          rcases h4 with h4 | h4
          · omega
          · exact h4
        refine ⟨⟨?_, h1⟩, ⟨⟨hn, hacc⟩, ?_⟩, by omega, Or.inl hn⟩
        · intro a ha
          have := h2 a ha
          cases a <;> simp [accCompat] at this
          exact compat_const_right _
        · intro a ha
          have := h2 a ha
          cases a <;> simp [accCompat] at this
          trivial
      · rintro ⟨⟨h0, h1⟩, ⟨⟨hn, hacc⟩, h2⟩, _, _⟩
        refine ⟨h1, ?_, by omega, Or.inr hacc⟩
        intro a ha
        have := h0 a ha
        cases a <;> simp [compat, compatB] at this
        trivial
    | clock c =>
      cases acc with
      | none =>
        simp only [checkLoop, ih, List.pairwise_cons, List.mem_cons, forall_eq_or_imp, accCompat]
        constructor
        · rintro ⟨h1, h2, h3, h4⟩
          have hn : n = 0 := by
            rcases h4 with h4 | h4
            · exact h4
            · cases h4
          refine ⟨⟨?_, h1⟩, ⟨⟨hn, by simp⟩, ?_⟩, h3, by simp⟩
          · intro a ha
            have := h2 a ha
            cases a with
            | const => exact compat_const_right _
            | unknown => simp [accCompat] at this
            | clock c' =>
              simp [accCompat] at this
              simp [compat, compatB, this.2]
          · intro a ha
            have := h2 a ha
            cases a with
            | const => trivial
            | unknown => simp [accCompat] at this
            | clock c' => exact ⟨hn, by simp⟩
        · rintro ⟨⟨h0, h1⟩, ⟨⟨hn, _⟩, h2⟩, h3, _⟩
          refine ⟨h1, ?_, h3, Or.inl hn⟩
          intro a ha
          have := h0 a ha
          cases a with
          | const => trivial
          | unknown => simp [compat, compatB] at this
          | clock c' =>
            simp [compat, compatB] at this
            exact ⟨hn, Or.inr (by rw [this])⟩
      | some q =>
        by_cases hq : q = ps c
        · subst hq
          simp only [checkLoop, ne_eq, not_true_eq_false, if_false, ih, List.pairwise_cons, List.mem_cons, forall_eq_or_imp, accCompat]
          constructor
          · rintro ⟨h1, h2, h3, h4⟩
            have hn : n = 0 := by
              rcases h4 with h4 | h4
              · exact h4
              · cases h4
            refine ⟨⟨?_, h1⟩, ⟨⟨hn, by simp⟩, h2⟩, h3, h4⟩
            intro a ha
            have := h2 a ha
            cases a with
            | const => exact compat_const_right _
            | unknown => simp [accCompat] at this
            | clock c' =>
              simp [accCompat] at this
              simp [compat, compatB, this.2]
          · rintro ⟨⟨_, h1⟩, ⟨_, h2⟩, h3, h4⟩
            exact ⟨h1, h2, h3, h4⟩
        · simp only [checkLoop, ne_eq, hq, not_false_eq_true, if_true, List.pairwise_cons, List.mem_cons, forall_eq_or_imp, accCompat]
          constructor
          · intro h; cases h
          · rintro ⟨_, ⟨⟨_, h⟩, _⟩, _⟩
            rcases h with h | h
            · cases h
            · exact absurd (Option.some.inj h) hq

/-- everything a base-checked node compares: its own clock (if bound) and the domains of all inputs -/
def Node.contribs (n : Node) (D : Nat → Dom) : List Dom :=
  (match n.ownClock with | some b => [Dom.clock b] | none => []) ++ n.inDoms D

theorem accCompat_none (ps : Clk → Clk) (x : Dom) : accCompat ps none 0 x := by
  cases x <;> simp [accCompat]

theorem accCompat_some (ps : Clk → Clk) (b : Clk) (x : Dom) : accCompat ps (some (ps b)) 0 x ↔ compat ps (.clock b) x := by
  cases x <;> simp [accCompat, compat, compatB]

theorem checkLoop_none (ps : Clk → Clk) (l : List Dom) : checkLoop ps none 0 l = true ↔ l.Pairwise (compat ps) := by
  rw [checkLoop_iff]
  constructor
  · exact fun h => h.1
  · exact fun h => ⟨h, fun x _ => accCompat_none ps x, by omega, Or.inl rfl⟩

theorem checkLoop_some (ps : Clk → Clk) (b : Clk) (l : List Dom) :
    checkLoop ps (some (ps b)) 0 l = true ↔ (Dom.clock b :: l).Pairwise (compat ps) := by
  rw [checkLoop_iff, List.pairwise_cons]
  constructor
  · rintro ⟨h1, h2, _⟩
    exact ⟨fun a ha => (accCompat_some ps b a).1 (h2 a ha), h1⟩
  · rintro ⟨h1, h2⟩
    exact ⟨h2, fun a ha => (accCompat_some ps b a).2 (h1 a ha), by omega, Or.inl rfl⟩

/-- `BaseNode::checkValidInputClocks` accepts iff all contributions are pairwise compatible -/
theorem check_base_iff (ps : Clk → Clk) (D : Nat → Dom) (n : Node) (hb : n.baseChecked) :
    n.check ps D = true ↔ (n.contribs D).Pairwise (compat ps) := by
  unfold Node.check Node.contribs Node.ownClock
  cases hk : n.kind with
  | plain c =>
    cases c with
    | none => simp [checkLoop_none]
    | some c =>
      cases c with
      | none => simp [checkLoop_none]
      | some b => simp [checkLoop_some]
  | memPort c =>
    cases c with
    | none => simp [checkLoop_none]
    | some b => simp [checkLoop_some]
  | cdc i o => simp [Node.baseChecked, hk] at hb
  | noCheck c => simp [Node.baseChecked, hk] at hb

theorem pairwise_mem {α : Type} {R : α → α → Prop} (hs : ∀ a b, R a b → R b a) :
    ∀ {l : List α}, l.Pairwise R → ∀ {a b : α}, a ∈ l → b ∈ l → a = b ∨ R a b := by
  intro l
  induction l with
  | nil => intro _ a b ha; cases ha
  | cons x r ih =>
    intro hp a b ha hb
    rw [List.pairwise_cons] at hp
    rcases List.mem_cons.1 ha with ha | ha <;> rcases List.mem_cons.1 hb with hb | hb
    · left; rw [ha, hb]
    · right; rw [ha]; exact hp.1 b hb
    · right; rw [hb]; exact hs _ _ (hp.1 a ha)
    · exact ih hp.2 ha hb

end Gatery.C12
