import GateryModel.C12.LemmasPath
/-!
# C12 — the denotational map `dom` is admissible; admissible maps agree up to pin source on accepted designs;
decidable well-formedness checks used by the driver and the non-vacuity examples
-/
namespace Gatery.C12

theorem firstNonConst_spec : ∀ (l : List Dom),
    (firstNonConst l = .const ∧ ∀ x, x ∈ l → x = .const) ∨ (firstNonConst l ≠ .const ∧ firstNonConst l ∈ l)
  | [] => Or.inl ⟨rfl, fun _ h => by cases h⟩
  | .const :: r => by
    rcases firstNonConst_spec r with ⟨h1, h2⟩ | ⟨h1, h2⟩
    · refine Or.inl ⟨h1, fun x hx => ?_⟩
      rcases List.mem_cons.1 hx with hx | hx
      · exact hx
      · exact h2 x hx
    · exact Or.inr ⟨h1, List.mem_cons_of_mem _ h2⟩
  | .unknown :: r => Or.inr ⟨by simp [firstNonConst], by simp [firstNonConst]⟩
  | .clock c :: r => Or.inr ⟨by simp [firstNonConst], by simp [firstNonConst]⟩

/-- enough fuel: the value of `domF` does not depend on the fuel once it exceeds the rank -/
theorem domF_stable {g : Graph} (hc : g.Closed) {r : Nat → Nat}
    (hr : ∀ p, p < g.ports.size → r p < g.ports.size ∧ ∀ d, d ∈ g.deps p → r d < r p) :
    ∀ n p f₁ f₂, r p < n → r p < f₁ → r p < f₂ → p < g.ports.size → domF g f₁ p = domF g f₂ p := by
  intro n
  induction n with
  | zero => intro p _ _ h; exact absurd h (Nat.not_lt_zero _)
  | succ n ih =>
    intro p f₁ f₂ hn h1 h2 hp
    cases f₁ with
    | zero => exact absurd h1 (Nat.not_lt_zero _)
    | succ a =>
      cases f₂ with
      | zero => exact absurd h2 (Nat.not_lt_zero _)
      | succ b =>
        simp only [domF]
        cases hrel : g.rel p with
        | clock c => cases c <;> rfl
        | inputs ds =>
          simp only
          congr 1
          apply List.map_congr_left
          intro d hd
          have hd' : d ∈ g.deps p := by unfold Graph.deps; rw [hrel]; exact hd
          have := (hr p hp).2 d hd'
          exact ih d a b (by omega) (by omega) (by omega) (dep_lt hc hp hd')

theorem dom_admissible {g : Graph} (hc : g.Closed) (hacyc : g.Acyclic) : Admissible g (dom g) := by
  obtain ⟨r, hr⟩ := hacyc
  intro p hp
  unfold dom
  cases hsz : g.ports.size with
  | zero => rw [hsz] at hp; exact absurd hp (Nat.not_lt_zero _)
  | succ f =>
    simp only [domF]
    cases hrel : g.rel p with
    | clock c => cases c <;> rfl
    | inputs ds =>
      simp only
      have hmap : (ds.filterMap id).map (domF g f) = (g.deps p).map (domF g (f+1)) := by
        unfold Graph.deps; rw [hrel]
        apply List.map_congr_left
        intro d hd
        have hd' : d ∈ g.deps p := by unfold Graph.deps; rw [hrel]; exact hd
        have h1 := (hr p hp).2 d hd'
        have h2 := (hr p hp).1
        exact domF_stable hc hr (r d + 1) d f (f+1) (Nat.lt_succ_self _) (by omega) (by omega) (dep_lt hc hp hd')
      rw [hmap]
      rcases firstNonConst_spec ((g.deps p).map (domF g (f+1))) with ⟨h1, h2⟩ | ⟨h1, h2⟩
      · exact Or.inl ⟨h1, fun d hd => h2 _ (List.mem_map.2 ⟨d, hd, rfl⟩)⟩
      · obtain ⟨d, hd, he⟩ := List.mem_map.1 h2
        exact Or.inr ⟨h1, d, hd, he⟩

/-- in an admissible map every port reached by a source is non-constant (no check needed) -/
theorem reach_ne_const {g : Graph} {D : Nat → Dom} (hc : g.Closed) (ha : Admissible g D) {s p : Nat} (h : Reach g s p) :
    p < g.ports.size → D p ≠ .const := by
  induction h with
  | src hs => intro hp; rw [label_of_adm ha hp hs]; exact label_ne_const hs
  | @step d p _ hd ih =>
    intro hp
    have hdne := ih (dep_lt hc hp hd)
    obtain ⟨ds, hrel, _⟩ := rel_inputs_of_dep hd
    have hadm := ha p hp
    rw [hrel] at hadm
    simp only at hadm
    rcases hadm with ⟨_, hall⟩ | ⟨hne, _⟩
    · exact absurd (hall d hd) hdne
    · exact hne

/-- two admissible maps agree up to pin source wherever the design is accepted under one of them -/
theorem adm_sim {g : Graph} {ps : Clk → Clk} {D₁ D₂ : Nat → Dom} (hc : g.Closed)
    (h1 : Grounded g D₁) (h2 : Grounded g D₂) (hok : ∀ k, k < g.nodes.size → (g.node k).check ps D₁ = true) :
    ∀ p, p < g.ports.size → sim ps (D₁ p) (D₂ p) := by
  intro p hp
  by_cases hne : D₂ p = .const
  · by_cases hne1 : D₁ p = .const
    · rw [hne, hne1]; exact sim_refl _
    · obtain ⟨s, hs, _⟩ := h1.2 p hp hne1
      exact absurd hne (reach_ne_const hc h2.1 hs hp)
  · obtain ⟨s, hs, hl⟩ := h2.2 p hp hne
    rw [← hl]
    exact reach_sim hc h1.1 hok hs hp

theorem reach_lt {g : Graph} (hc : g.Closed) {s p : Nat} (h : Reach g s p) : p < g.ports.size → s < g.ports.size := by
  induction h with
  | src _ => exact id
  | step _ hd ih => exact fun hp => ih (dep_lt hc hp hd)

/-! ### decidable well-formedness -/

theorem closed_of_closedB {g : Graph} (h : g.closedB = true) : g.Closed := by
  unfold Graph.closedB at h
  simp only [Bool.and_eq_true, List.all_eq_true, List.mem_range, decide_eq_true_eq] at h
  refine ⟨h.1, fun k hk d hd => ?_⟩
  have := h.2 k hk (some d) hd
  simpa using this

theorem acyclic_of_rankedB {g : Graph} {r : Nat → Nat} (h : g.rankedB r = true) : g.Acyclic := by
  unfold Graph.rankedB at h
  simp only [List.all_eq_true, List.mem_range, Bool.and_eq_true, decide_eq_true_eq] at h
  exact ⟨r, fun p hp => ⟨(h p hp).1, fun d hd => (h p hp).2 d hd⟩⟩

theorem noUnknown_of_B {g : Graph} (h : g.noUnknownB = true) : g.NoUnknown := by
  unfold Graph.noUnknownB at h
  simp only [List.all_eq_true, List.mem_range, decide_eq_true_eq] at h
  exact h

end Gatery.C12
