import GateryModel.C12.Spec
/-!
# C12 — lemmas about the work-list algorithm: every run (any node order, any retry order) ends in an admissible, total map
-/
namespace Gatery.C12
open Std

/-! ### containers -/

theorem mem_setInsert {x a : Nat} {s : List Nat} : x ∈ setInsert a s ↔ x = a ∨ x ∈ s := by
  unfold setInsert
  split
  · constructor
    · exact Or.inr
    · rintro (h | h)
      · subst h; assumption
      · exact h
  · simp

theorem mem_foldr_setInsert {x : Nat} {l r : List Nat} : x ∈ l.foldr setInsert r ↔ x ∈ l ∨ x ∈ r := by
  induction l with
  | nil => simp
  | cons a t ih => simp [mem_setInsert, ih, or_assoc]

theorem assign_of_some {σ : St} {p : Nat} {v : Dom} (h : (σ.get p).isSome = true) : assign σ p v = σ := by
  simp [assign, h]

theorem assign_get_of_none {σ : St} {p : Nat} {v : Dom} (h : σ.get p = none) (q : Nat) :
    (assign σ p v).get q = if p = q then some v else σ.get q := by
  have hs : (σ.get p).isSome = false := by rw [h]; rfl
  unfold assign
  rw [hs]
  simp [St.get, HashMap.getElem?_insert]

theorem assign_get_other {σ : St} {p q : Nat} {v : Dom} (h : q ≠ p) : (assign σ p v).get q = σ.get q := by
  cases hp : σ.get p with
  | some w => rw [assign_of_some (by simp [hp])]
  | none => rw [assign_get_of_none hp]; simp [Ne.symm h]

theorem assign_get_self_some {σ : St} {p : Nat} {v w : Dom} (h : σ.get p = some w) : (assign σ p v).get p = some w := by
  rw [assign_of_some (by simp [h])]; exact h

theorem assign_get_self_none {σ : St} {p : Nat} {v : Dom} (h : σ.get p = none) : (assign σ p v).get p = some v := by
  rw [assign_get_of_none h]; simp

theorem assign_get_self_isSome (σ : St) (p : Nat) (v : Dom) : ∃ w, (assign σ p v).get p = some w := by
  cases hp : σ.get p with
  | some w => exact ⟨w, assign_get_self_some hp⟩
  | none => exact ⟨v, assign_get_self_none hp⟩

theorem assign_waiting (σ : St) (p : Nat) (v : Dom) (d : Nat) : (assign σ p v).waiting d = σ.waiting d := by
  unfold assign
  split <;> rfl

theorem assign_retry_sub {σ : St} {p : Nat} {v : Dom} {x : Nat} (h : x ∈ σ.retry) : x ∈ (assign σ p v).retry := by
  unfold assign
  split
  · exact h
  · simp only; exact mem_foldr_setInsert.2 (Or.inr h)

theorem assign_retry_wake {σ : St} {p : Nat} {v : Dom} {x : Nat} (hp : σ.get p = none) (h : x ∈ σ.waiting p) :
    x ∈ (assign σ p v).retry := by
  unfold assign
  simp only [hp, Option.isSome_none, Bool.false_eq_true, if_false]
  exact mem_foldr_setInsert.2 (Or.inl h)

theorem addWait_get (σ : St) (d p q : Nat) : (σ.addWait d p).get q = σ.get q := rfl
theorem addWait_retry (σ : St) (d p : Nat) : (σ.addWait d p).retry = σ.retry := rfl

theorem addWait_waiting (σ : St) (d p e : Nat) :
    (σ.addWait d p).waiting e = if d = e then σ.waiting d ++ [p] else σ.waiting e := by
  simp [St.addWait, St.waiting, HashMap.getD_insert]

theorem addWait_waiting_sub {σ : St} {d p e x : Nat} (h : x ∈ σ.waiting e) : x ∈ (σ.addWait d p).waiting e := by
  rw [addWait_waiting]
  split
  · next hde => subst hde; exact List.mem_append_left _ h
  · exact h

theorem addWait_waiting_self (σ : St) (d p : Nat) : p ∈ (σ.addWait d p).waiting d := by
  rw [addWait_waiting]; simp

/-! ### the scan over the dependent inputs -/

theorem get_trichotomy (o : Option Dom) : o = none ∨ o = some .const ∨ ∃ w, o = some w ∧ w ≠ .const := by
  cases o with
  | none => exact Or.inl rfl
  | some w =>
    cases w with
    | const => exact Or.inr (Or.inl rfl)
    | unknown => exact Or.inr (Or.inr ⟨_, rfl, by simp⟩)
    | clock c => exact Or.inr (Or.inr ⟨_, rfl, by simp⟩)

theorem scan_none_cons (p : Nat) (ds : List (Option Nat)) (σ : St) (ac : Bool) :
    scan p (none :: ds) σ ac = scan p ds σ ac := rfl

theorem scan_some_none {p d : Nat} {ds : List (Option Nat)} {σ : St} {ac : Bool} (h : σ.get d = none) :
    scan p (some d :: ds) σ ac = scan p ds (σ.addWait d p) false := by
  simp only [scan, h]

theorem scan_some_const {p d : Nat} {ds : List (Option Nat)} {σ : St} {ac : Bool} (h : σ.get d = some .const) :
    scan p (some d :: ds) σ ac = scan p ds σ ac := by
  simp only [scan, h]

theorem scan_some_nonconst {p d : Nat} {ds : List (Option Nat)} {σ : St} {ac : Bool} {w : Dom} (h : σ.get d = some w)
    (hw : w ≠ .const) : scan p (some d :: ds) σ ac = scan p ds (assign σ p w) false := by
  cases w with
  | const => exact absurd rfl hw
  | unknown => simp only [scan, h]
  | clock c => simp only [scan, h]

theorem scan_get_other (p : Nat) : ∀ (ds : List (Option Nat)) (σ : St) (ac : Bool) (q : Nat), q ≠ p →
    (scan p ds σ ac).1.get q = σ.get q
  | [], _, _, _, _ => rfl
  | none :: ds, σ, ac, q, h => by rw [scan_none_cons]; exact scan_get_other p ds σ ac q h
  | some d :: ds, σ, ac, q, h => by
    rcases get_trichotomy (σ.get d) with hg | hg | ⟨w, hg, hw⟩
    · rw [scan_some_none hg, scan_get_other p ds _ false q h, addWait_get]
    · rw [scan_some_const hg]; exact scan_get_other p ds σ ac q h
    · rw [scan_some_nonconst hg hw, scan_get_other p ds _ false q h, assign_get_other h]

theorem scan_get_self_some (p : Nat) : ∀ (ds : List (Option Nat)) (σ : St) (ac : Bool) (v : Dom), σ.get p = some v →
    (scan p ds σ ac).1.get p = some v
  | [], _, _, _, h => h
  | none :: ds, σ, ac, v, h => by rw [scan_none_cons]; exact scan_get_self_some p ds σ ac v h
  | some d :: ds, σ, ac, v, h => by
    rcases get_trichotomy (σ.get d) with hg | hg | ⟨w, hg, hw⟩
    · rw [scan_some_none hg]; exact scan_get_self_some p ds _ false v (by rw [addWait_get]; exact h)
    · rw [scan_some_const hg]; exact scan_get_self_some p ds σ ac v h
    · rw [scan_some_nonconst hg hw]; exact scan_get_self_some p ds _ false v (assign_get_self_some h)

theorem scan_get_self_new (p : Nat) : ∀ (ds : List (Option Nat)) (σ : St) (ac : Bool) (v : Dom), σ.get p = none →
    (scan p ds σ ac).1.get p = some v → v ≠ .const ∧ ∃ d, some d ∈ ds ∧ σ.get d = some v
  | [], σ, _, v, h, h' => by simp only [scan] at h'; rw [h] at h'; cases h'
  | none :: ds, σ, ac, v, h, h' => by
    rw [scan_none_cons] at h'
    obtain ⟨h1, d, hd, h2⟩ := scan_get_self_new p ds σ ac v h h'
    exact ⟨h1, d, List.mem_cons_of_mem _ hd, h2⟩
  | some d :: ds, σ, ac, v, h, h' => by
    rcases get_trichotomy (σ.get d) with hg | hg | ⟨w, hg, hw⟩
    · rw [scan_some_none hg] at h'
      obtain ⟨h1, d', hd, h2⟩ := scan_get_self_new p ds (σ.addWait d p) false v (by rw [addWait_get]; exact h) h'
      exact ⟨h1, d', List.mem_cons_of_mem _ hd, by rw [addWait_get] at h2; exact h2⟩
    · rw [scan_some_const hg] at h'
      obtain ⟨h1, d', hd, h2⟩ := scan_get_self_new p ds σ ac v h h'
      exact ⟨h1, d', List.mem_cons_of_mem _ hd, h2⟩
    · rw [scan_some_nonconst hg hw] at h'
      have h3 := scan_get_self_some p ds (assign σ p w) false w (assign_get_self_none h)
      rw [h3] at h'
      cases h'
      exact ⟨hw, d, List.mem_cons_self, hg⟩

theorem scan_retry_sub (p : Nat) : ∀ (ds : List (Option Nat)) (σ : St) (ac : Bool) (x : Nat), x ∈ σ.retry →
    x ∈ (scan p ds σ ac).1.retry
  | [], _, _, _, h => h
  | none :: ds, σ, ac, x, h => by rw [scan_none_cons]; exact scan_retry_sub p ds σ ac x h
  | some d :: ds, σ, ac, x, h => by
    rcases get_trichotomy (σ.get d) with hg | hg | ⟨w, hg, hw⟩
    · rw [scan_some_none hg]; exact scan_retry_sub p ds _ false x (by rw [addWait_retry]; exact h)
    · rw [scan_some_const hg]; exact scan_retry_sub p ds σ ac x h
    · rw [scan_some_nonconst hg hw]; exact scan_retry_sub p ds _ false x (assign_retry_sub h)

theorem scan_waiting_sub (p : Nat) : ∀ (ds : List (Option Nat)) (σ : St) (ac : Bool) (e x : Nat), x ∈ σ.waiting e →
    x ∈ (scan p ds σ ac).1.waiting e
  | [], _, _, _, _, h => h
  | none :: ds, σ, ac, e, x, h => by rw [scan_none_cons]; exact scan_waiting_sub p ds σ ac e x h
  | some d :: ds, σ, ac, e, x, h => by
    rcases get_trichotomy (σ.get d) with hg | hg | ⟨w, hg, hw⟩
    · rw [scan_some_none hg]; exact scan_waiting_sub p ds _ false e x (addWait_waiting_sub h)
    · rw [scan_some_const hg]; exact scan_waiting_sub p ds σ ac e x h
    · rw [scan_some_nonconst hg hw]; exact scan_waiting_sub p ds _ false e x (by rw [assign_waiting]; exact h)

theorem scan_wake (p : Nat) : ∀ (ds : List (Option Nat)) (σ : St) (ac : Bool) (x : Nat), σ.get p = none →
    (scan p ds σ ac).1.get p ≠ none → x ∈ σ.waiting p → x ∈ (scan p ds σ ac).1.retry
  | [], σ, _, _, h, h', _ => by simp only [scan] at h'; exact absurd h h'
  | none :: ds, σ, ac, x, h, h', hx => by
    rw [scan_none_cons] at h' ⊢; exact scan_wake p ds σ ac x h h' hx
  | some d :: ds, σ, ac, x, h, h', hx => by
    rcases get_trichotomy (σ.get d) with hg | hg | ⟨w, hg, hw⟩
    · rw [scan_some_none hg] at h' ⊢
      exact scan_wake p ds _ false x (by rw [addWait_get]; exact h) h' (addWait_waiting_sub hx)
    · rw [scan_some_const hg] at h' ⊢; exact scan_wake p ds σ ac x h h' hx
    · rw [scan_some_nonconst hg hw]
      exact scan_retry_sub p ds _ false x (assign_retry_wake h hx)

theorem scan_false (p : Nat) : ∀ (ds : List (Option Nat)) (σ : St), (scan p ds σ false).2 = false
  | [], _ => rfl
  | none :: ds, σ => by rw [scan_none_cons]; exact scan_false p ds σ
  | some d :: ds, σ => by
    rcases get_trichotomy (σ.get d) with hg | hg | ⟨w, hg, hw⟩
    · rw [scan_some_none hg]; exact scan_false p ds _
    · rw [scan_some_const hg]; exact scan_false p ds _
    · rw [scan_some_nonconst hg hw]; exact scan_false p ds _

theorem scan_true (p : Nat) : ∀ (ds : List (Option Nat)) (σ : St) (ac : Bool), (scan p ds σ ac).2 = true →
    ac = true ∧ ∀ d, some d ∈ ds → σ.get d = some .const
  | [], _, ac, h => ⟨h, fun _ hd => by cases hd⟩
  | none :: ds, σ, ac, h => by
    rw [scan_none_cons] at h
    obtain ⟨h1, h2⟩ := scan_true p ds σ ac h
    refine ⟨h1, fun d hd => ?_⟩
    rcases List.mem_cons.1 hd with hd | hd
    · cases hd
    · exact h2 d hd
  | some d :: ds, σ, ac, h => by
    rcases get_trichotomy (σ.get d) with hg | hg | ⟨w, hg, hw⟩
    · rw [scan_some_none hg, scan_false] at h; cases h
    · rw [scan_some_const hg] at h
      obtain ⟨h1, h2⟩ := scan_true p ds σ ac h
      refine ⟨h1, fun d' hd => ?_⟩
      rcases List.mem_cons.1 hd with hd | hd
      · cases hd; exact hg
      · exact h2 d' hd
    · rw [scan_some_nonconst hg hw, scan_false] at h; cases h

theorem scan_pending (p : Nat) : ∀ (ds : List (Option Nat)) (σ : St) (ac : Bool), (scan p ds σ ac).1.get p = none →
    (scan p ds σ ac).2 = false →
    ac = false ∨ ∃ d, some d ∈ ds ∧ (scan p ds σ ac).1.get d = none ∧ p ∈ (scan p ds σ ac).1.waiting d
  | [], _, ac, _, h => Or.inl h
  | none :: ds, σ, ac, h, h' => by
    rw [scan_none_cons] at h h' ⊢
    rcases scan_pending p ds σ ac h h' with h1 | ⟨d, hd, h2⟩
    · exact Or.inl h1
    · exact Or.inr ⟨d, List.mem_cons_of_mem _ hd, h2⟩
  | some d :: ds, σ, ac, h, h' => by
    rcases get_trichotomy (σ.get d) with hg | hg | ⟨w, hg, hw⟩
    · rw [scan_some_none hg] at h ⊢
      refine Or.inr ⟨d, List.mem_cons_self, ?_, scan_waiting_sub p ds _ false d p (addWait_waiting_self σ d p)⟩
      by_cases hdp : d = p
      · subst hdp; exact h
      · rw [scan_get_other p ds _ false d hdp, addWait_get]; exact hg
    · rw [scan_some_const hg] at h h' ⊢
      rcases scan_pending p ds σ ac h h' with h1 | ⟨d', hd, h2⟩
      · exact Or.inl h1
      · exact Or.inr ⟨d', List.mem_cons_of_mem _ hd, h2⟩
    · exfalso
      rw [scan_some_nonconst hg hw] at h
      obtain ⟨u, hu⟩ := assign_get_self_isSome σ p w
      rw [scan_get_self_some p ds _ false u hu] at h
      cases h

theorem scan_settled (p : Nat) : ∀ (ds : List (Option Nat)) (σ : St) (ac : Bool), (scan p ds σ ac).1.get p = none →
    ∀ d, some d ∈ ds → (scan p ds σ ac).1.get d = some .const ∨
      ((scan p ds σ ac).1.get d = none ∧ p ∈ (scan p ds σ ac).1.waiting d)
  | [], _, _, _, _, hd => by cases hd
  | none :: ds, σ, ac, h, d, hd => by
    rw [scan_none_cons] at h ⊢
    rcases List.mem_cons.1 hd with hd | hd
    · cases hd
    · exact scan_settled p ds σ ac h d hd
  | some e :: ds, σ, ac, h, d, hd => by
    rcases get_trichotomy (σ.get e) with hg | hg | ⟨w, hg, hw⟩
    · rw [scan_some_none hg] at h ⊢
      rcases List.mem_cons.1 hd with hd | hd
      · cases hd
        refine Or.inr ⟨?_, scan_waiting_sub p ds _ false e p (addWait_waiting_self σ e p)⟩
        by_cases hep : e = p
        · subst hep; exact h
        · rw [scan_get_other p ds _ false e hep, addWait_get]; exact hg
      · exact scan_settled p ds _ false h d hd
    · rw [scan_some_const hg] at h ⊢
      rcases List.mem_cons.1 hd with hd | hd
      · cases hd
        have hep : e ≠ p := by
          intro hep; subst hep
          rw [scan_get_self_some e ds σ ac .const hg] at h; cases h
        left
        rw [scan_get_other p ds σ ac e hep]; exact hg
      · exact scan_settled p ds σ ac h d hd
    · exfalso
      rw [scan_some_nonconst hg hw] at h
      obtain ⟨u, hu⟩ := assign_get_self_isSome σ p w
      rw [scan_get_self_some p ds _ false u hu] at h
      cases h

/-! ### one work-list step -/

/-- `v` is a legitimate value for port `p` given the (partial) map `get` -/
def Justified (g : Graph) (get : Nat → Option Dom) (p : Nat) (v : Dom) : Prop :=
  match g.rel p with
  | .clock none => v = .unknown
  | .clock (some c) => v = .clock c
  | .inputs _ => (v = .const ∧ ∀ d, d ∈ g.deps p → get d = some .const) ∨ (v ≠ .const ∧ ∃ d, d ∈ g.deps p ∧ get d = some v)

theorem mem_deps {g : Graph} {p : Nat} {ds : List (Option Nat)} (h : g.rel p = .inputs ds) (d : Nat) :
    d ∈ g.deps p ↔ some d ∈ ds := by
  unfold Graph.deps
  rw [h]
  simp

theorem Justified.mono {g : Graph} {get get' : Nat → Option Dom} {p : Nat} {v : Dom}
    (hm : ∀ q w, get q = some w → get' q = some w) (h : Justified g get p v) : Justified g get' p v := by
  unfold Justified at h ⊢
  split at h
  · exact h
  · exact h
  · rcases h with ⟨h1, h2⟩ | ⟨h1, d, hd, h2⟩
    · exact Or.inl ⟨h1, fun d hd => hm _ _ (h2 d hd)⟩
    · exact Or.inr ⟨h1, d, hd, hm _ _ h2⟩

theorem process_get_other (g : Graph) (σ : St) (p q : Nat) (h : q ≠ p) : (process g σ p).get q = σ.get q := by
  unfold process
  split
  · exact assign_get_other h
  · exact assign_get_other h
  · simp only
    split
    · rw [assign_get_other h, scan_get_other p _ _ _ q h]
    · exact scan_get_other p _ _ _ q h

theorem process_get_self_some (g : Graph) (σ : St) (p : Nat) (v : Dom) (h : σ.get p = some v) :
    (process g σ p).get p = some v := by
  unfold process
  split
  · exact assign_get_self_some h
  · exact assign_get_self_some h
  · simp only
    split
    · exact assign_get_self_some (scan_get_self_some p _ _ _ v h)
    · exact scan_get_self_some p _ _ _ v h

theorem process_mono (g : Graph) (σ : St) (p q : Nat) (w : Dom) (h : σ.get q = some w) : (process g σ p).get q = some w := by
  by_cases hq : q = p
  · subst hq; exact process_get_self_some g σ q w h
  · rw [process_get_other g σ p q hq]; exact h

theorem process_justified (g : Graph) (σ : St) (p : Nat) (v : Dom) (h : σ.get p = none)
    (h' : (process g σ p).get p = some v) : Justified g σ.get p v := by
  unfold process at h'
  unfold Justified
  split at h'
  · next hr => rw [hr]; rw [assign_get_self_none h] at h'; cases h'; rfl
  · next c hr => rw [hr]; rw [assign_get_self_none h] at h'; cases h'; rfl
  · next ds hr =>
    rw [hr]
    simp only at h' ⊢
    split at h'
    · next hac =>
      obtain ⟨_, hall⟩ := scan_true p ds σ true hac
      have hnone : (scan p ds σ true).1.get p = none := by
        cases hs : (scan p ds σ true).1.get p with
        | none => rfl
        | some w =>
          obtain ⟨hw, d, hd, hd'⟩ := scan_get_self_new p ds σ true w h hs
          rw [hall d hd] at hd'
          cases hd'
          exact absurd rfl hw
      rw [assign_get_self_none hnone] at h'
      cases h'
      exact Or.inl ⟨rfl, fun d hd => hall d ((mem_deps hr d).1 hd)⟩
    · obtain ⟨hv, d, hd, hd'⟩ := scan_get_self_new p ds σ true v h h'
      exact Or.inr ⟨hv, d, (mem_deps hr d).2 hd, hd'⟩

theorem process_retry_sub (g : Graph) (σ : St) (p x : Nat) (h : x ∈ σ.retry) : x ∈ (process g σ p).retry := by
  unfold process
  split
  · exact assign_retry_sub h
  · exact assign_retry_sub h
  · simp only
    split
    · exact assign_retry_sub (scan_retry_sub p _ _ _ x h)
    · exact scan_retry_sub p _ _ _ x h

theorem process_waiting_sub (g : Graph) (σ : St) (p e x : Nat) (h : x ∈ σ.waiting e) : x ∈ (process g σ p).waiting e := by
  unfold process
  split
  · rw [assign_waiting]; exact h
  · rw [assign_waiting]; exact h
  · simp only
    split
    · rw [assign_waiting]; exact scan_waiting_sub p _ _ _ e x h
    · exact scan_waiting_sub p _ _ _ e x h

theorem process_wake (g : Graph) (σ : St) (p x : Nat) (h : σ.get p = none) (h' : (process g σ p).get p ≠ none)
    (hx : x ∈ σ.waiting p) : x ∈ (process g σ p).retry := by
  unfold process at h' ⊢
  split
  · exact assign_retry_wake h hx
  · exact assign_retry_wake h hx
  · next ds hr =>
    simp only [hr] at h'
    simp only at h' ⊢
    split
    · next hac =>
      cases hs : (scan p ds σ true).1.get p with
      | none => exact assign_retry_wake hs (scan_waiting_sub p ds σ true p x hx)
      | some w => exact assign_retry_sub (scan_wake p ds σ true x h (by rw [hs]; simp) hx)
    · next hac =>
      simp only [hac] at h'
      exact scan_wake p ds σ true x h h' hx

theorem process_pending (g : Graph) (σ : St) (p : Nat) (h : (process g σ p).get p = none) :
    ∃ d, d ∈ g.deps p ∧ (process g σ p).get d = none ∧ p ∈ (process g σ p).waiting d := by
  unfold process at h ⊢
  split
  · next hr =>
    simp only [hr] at h
    obtain ⟨w, hw⟩ := assign_get_self_isSome σ p .unknown
    rw [hw] at h; cases h
  · next c hr =>
    simp only [hr] at h
    obtain ⟨w, hw⟩ := assign_get_self_isSome σ p (.clock c)
    rw [hw] at h; cases h
  · next ds hr =>
    simp only [hr] at h
    simp only at h ⊢
    split
    · next hac =>
      simp only [hac, if_true] at h
      obtain ⟨w, hw⟩ := assign_get_self_isSome (scan p ds σ true).1 p .const
      rw [hw] at h; cases h
    · next hac =>
      simp only [hac] at h
      have hac' : (scan p ds σ true).2 = false := by simpa using hac
      rcases scan_pending p ds σ true h hac' with h1 | ⟨d, hd, h2⟩
      · cases h1
      · exact ⟨d, (mem_deps hr d).2 hd, h2⟩

theorem process_settled (g : Graph) (σ : St) (p : Nat) (h : (process g σ p).get p = none) :
    ∀ d, d ∈ g.deps p → (process g σ p).get d = some .const ∨
      ((process g σ p).get d = none ∧ p ∈ (process g σ p).waiting d) := by
  unfold process at h ⊢
  split
  · next hr =>
    simp only [hr] at h
    obtain ⟨w, hw⟩ := assign_get_self_isSome σ p .unknown
    rw [hw] at h; cases h
  · next c hr =>
    simp only [hr] at h
    obtain ⟨w, hw⟩ := assign_get_self_isSome σ p (.clock c)
    rw [hw] at h; cases h
  · next ds hr =>
    simp only [hr] at h
    simp only at h ⊢
    split
    · next hac =>
      simp only [hac, if_true] at h
      obtain ⟨w, hw⟩ := assign_get_self_isSome (scan p ds σ true).1 p .const
      rw [hw] at h; cases h
    · next hac =>
      simp only [hac] at h
      intro d hd
      exact scan_settled p ds σ true h d ((mem_deps hr d).1 hd)

/-! ### invariants of a run -/

/-- every assigned value is justified by the current map -/
def Just (g : Graph) (σ : St) : Prop := ∀ p v, σ.get p = some v → Justified g σ.get p v

/-- an unassigned port is either queued for retry or registered with an unassigned dependent input -/
def Pending (g : Graph) (σ : St) (p : Nat) : Prop :=
  σ.get p = none → p ∈ σ.retry ∨ ∃ d, d ∈ g.deps p ∧ σ.get d = none ∧ p ∈ σ.waiting d

theorem pop_get (σ : St) (p q : Nat) : (σ.pop p).get q = σ.get q := rfl
theorem pop_waiting (σ : St) (p d : Nat) : (σ.pop p).waiting d = σ.waiting d := rfl
theorem pop_retry {σ : St} {p x : Nat} (h : x ∈ σ.retry) (hx : x ≠ p) : x ∈ (σ.pop p).retry := by
  simp [St.pop, h, hx]

theorem just_process {g : Graph} {σ : St} (p : Nat) (h : Just g σ) : Just g (process g (σ.pop p) p) := by
  intro q v hq
  have hm : ∀ q w, (σ.pop p).get q = some w → (process g (σ.pop p) p).get q = some w :=
    fun q w => process_mono g (σ.pop p) p q w
  by_cases hqp : q = p
  · subst hqp
    cases hs : (σ.pop q).get q with
    | some w =>
      rw [process_get_self_some g _ q w hs] at hq
      cases hq
      exact (h q _ hs).mono hm
    | none => exact (process_justified g _ q v hs hq).mono hm
  · rw [process_get_other g _ p q hqp] at hq
    exact (h q v hq).mono hm

theorem pending_process {g : Graph} {σ : St} (p q : Nat) (h : Pending g σ q) : Pending g (process g (σ.pop p) p) q := by
  intro hq
  by_cases hqp : q = p
  · subst hqp
    exact Or.inr (process_pending g _ q hq)
  · have hq' : σ.get q = none := by rw [process_get_other g _ p q hqp] at hq; exact hq
    rcases h hq' with hr | ⟨d, hd, hdn, hw⟩
    · exact Or.inl (process_retry_sub g _ p q (pop_retry hr hqp))
    · cases hdt : (process g (σ.pop p) p).get d with
      | none => exact Or.inr ⟨d, hd, hdt, process_waiting_sub g _ p d q hw⟩
      | some w =>
        have hdp : d = p := by
          apply Classical.byContradiction
          intro hne
          rw [process_get_other g _ p d hne, pop_get, hdn] at hdt
          cases hdt
        subst hdp
        exact Or.inl (process_wake g _ d q hdn (by rw [hdt]; simp) hw)

/-- an unassigned port that is not queued has only constant or unassigned (and then subscribed) dependent inputs -/
def Settled (g : Graph) (σ : St) (p : Nat) : Prop :=
  σ.get p = none → p ∈ σ.retry ∨ ∀ d, d ∈ g.deps p → σ.get d = some .const ∨ (σ.get d = none ∧ p ∈ σ.waiting d)

theorem settled_process {g : Graph} {σ : St} (p q : Nat) (h : Settled g σ q) : Settled g (process g (σ.pop p) p) q := by
  intro hq
  by_cases hqp : q = p
  · subst hqp
    exact Or.inr (process_settled g _ q hq)
  · have hq' : σ.get q = none := by rw [process_get_other g _ p q hqp] at hq; exact hq
    rcases h hq' with hr | hall
    · exact Or.inl (process_retry_sub g _ p q (pop_retry hr hqp))
    · by_cases hex : ∃ d, d ∈ g.deps q ∧ σ.get d = none ∧ q ∈ σ.waiting d ∧ (process g (σ.pop p) p).get d ≠ none
      · obtain ⟨d, _, hdn, hw, hdt⟩ := hex
        have hdp : d = p := by
          apply Classical.byContradiction
          intro hne
          rw [process_get_other g _ p d hne, pop_get, hdn] at hdt
          exact hdt rfl
        subst hdp
        exact Or.inl (process_wake g _ d q hdn hdt hw)
      · refine Or.inr fun d hd => ?_
        rcases hall d hd with hc | ⟨hdn, hw⟩
        · exact Or.inl (process_mono g _ p d .const hc)
        · right
          refine ⟨?_, process_waiting_sub g _ p d q hw⟩
          apply Classical.byContradiction
          intro hne
          exact hex ⟨d, hd, hdn, hw, hne⟩

/-- every assigned non-constant value is the label of a source that reaches the port over a marker-free path -/
def GroundedSt (g : Graph) (σ : St) : Prop :=
  ∀ p v, σ.get p = some v → v ≠ .const → ∃ s, Reach g s p ∧ g.label s = v

theorem grounded_of_justified {g : Graph} {σ : St} (hg : GroundedSt g σ) {p : Nat} {v : Dom}
    (hj : Justified g σ.get p v) (hv : v ≠ .const) : ∃ s, Reach g s p ∧ g.label s = v := by
  unfold Justified at hj
  split at hj
  · next hr => exact ⟨p, Reach.src ⟨none, hr⟩, by unfold Graph.label; rw [hr]; exact hj.symm⟩
  · next c hr => exact ⟨p, Reach.src ⟨some c, hr⟩, by unfold Graph.label; rw [hr]; exact hj.symm⟩
  · rcases hj with ⟨h1, _⟩ | ⟨_, d, hd, h2⟩
    · exact absurd h1 hv
    · obtain ⟨s, hs, hl⟩ := hg d v h2 hv
      exact ⟨s, Reach.step hs hd, hl⟩

theorem groundedSt_process {g : Graph} {σ : St} (p : Nat) (h : GroundedSt g σ) : GroundedSt g (process g (σ.pop p) p) := by
  intro q v hq hv
  by_cases hqp : q = p
  · subst hqp
    cases hs : (σ.pop q).get q with
    | some w =>
      rw [process_get_self_some g _ q w hs] at hq
      cases hq
      exact h q _ hs hv
    | none =>
      have hj : Justified g σ.get q v := process_justified g (σ.pop q) q v hs hq
      exact grounded_of_justified h hj hv
  · rw [process_get_other g _ p q hqp] at hq
    exact h q v hq hv

/-- invariants along every run: justified values, no lost wake-ups, and the retry set is empty at the end -/
theorem run_inv {g : Graph} {order : List Nat} {σ σ' : St} (hrun : Run g order σ σ') :
    ∀ (S : Nat → Prop), Just g σ → GroundedSt g σ → (∀ p, S p → Pending g σ p ∧ Settled g σ p) →
      Just g σ' ∧ GroundedSt g σ' ∧ σ'.retry = [] ∧ (∀ p, (S p ∨ p ∈ order) → Pending g σ' p ∧ Settled g σ' p) ∧
      (∀ q w, σ.get q = some w → σ'.get q = some w) := by
  induction hrun with
  | done hre =>
    intro S hj hg hp
    refine ⟨hj, hg, hre, ?_, fun _ _ h => h⟩
    rintro p (h | h)
    · exact hp p h
    · cases h
  | @next σ σ' np rest hre _ ih =>
    intro S hj hg hp
    have := ih (fun p => S p ∨ p = np) hj hg (by
      rintro p (h | h)
      · refine ⟨fun hpn => ?_, fun hpn => ?_⟩
        · rcases (hp p h).1 hpn with h1 | h1
          · rw [hre] at h1; cases h1
          · exact Or.inr h1
        · rcases (hp p h).2 hpn with h1 | h1
          · rw [hre] at h1; cases h1
          · exact Or.inr h1
      · subst h; exact ⟨fun _ => Or.inl List.mem_cons_self, fun _ => Or.inl List.mem_cons_self⟩)
    obtain ⟨h1, h1', h2, h3, h4⟩ := this
    refine ⟨h1, h1', h2, ?_, h4⟩
    rintro p (h | h)
    · exact h3 p (Or.inl (Or.inl h))
    · rcases List.mem_cons.1 h with h | h
      · exact h3 p (Or.inl (Or.inr h))
      · exact h3 p (Or.inr h)
  | @pop σ σ' p order _ _ ih =>
    intro S hj hg hp
    obtain ⟨h1, h1', h2, h3, h4⟩ := ih S (just_process p hj) (groundedSt_process p hg)
      (fun q hq => ⟨pending_process p q (hp q hq).1, settled_process p q (hp q hq).2⟩)
    exact ⟨h1, h1', h2, h3, fun q w h => h4 q w (process_mono g _ p q w h)⟩

theorem just_init (g : Graph) : Just g {} := by
  intro p v h
  simp [St.get] at h

theorem groundedSt_init (g : Graph) : GroundedSt g {} := by
  intro p v h
  simp [St.get] at h

/-- **every execution of `inferClockDomains`** — any visiting order that covers all ports, any order of serving the retry
    set, on any closed graph (signal loops included) — ends in a grounded fixed point (ports left unassigned read as
    CONSTANT, as `detectUnguardedCDCCrossings` reads them) -/
theorem run_grounded {g : Graph} {order : List Nat} {σ : St}
    (hcover : ∀ p, p < g.ports.size → p ∈ order) (hrun : Run g order {} σ) : Grounded g σ.total := by
  obtain ⟨hj, hgr, hre, hpend, _⟩ := run_inv hrun (fun _ => False) (just_init g) (groundedSt_init g) (fun _ h => h.elim)
  refine ⟨?_, ?_⟩
  · intro p hp
    cases hv : σ.get p with
    | none =>
      obtain ⟨hpe, hse⟩ := hpend p (Or.inr (hcover p hp))
      have hpt : σ.total p = .const := by simp [St.total, hv]
      rcases hpe hv with h | ⟨d, hd, _, _⟩
      · rw [hre] at h; cases h
      · have hrel : ∃ ds, g.rel p = .inputs ds := by
          unfold Graph.deps at hd
          cases hrl : g.rel p with
          | clock c => simp [hrl] at hd
          | inputs ds => exact ⟨ds, rfl⟩
        obtain ⟨ds, hrl⟩ := hrel
        simp only [hrl, hpt]
        refine Or.inl ⟨by simp, fun d hd => ?_⟩
        rcases hse hv with h | h
        · rw [hre] at h; cases h
        · rcases h d hd with h | ⟨h, _⟩
          · simp [St.total, h]
          · simp [St.total, h]
    | some v =>
      have hjp := hj p v hv
      unfold Justified at hjp
      have hpv : σ.total p = v := by simp [St.total, hv]
      split at hjp
      · next hrl => simp only [hrl, hpv]; exact hjp
      · next c hrl => simp only [hrl, hpv]; exact hjp
      · next ds hrl =>
        simp only [hrl, hpv]
        rcases hjp with ⟨h1, h2⟩ | ⟨h1, d, hd, h2⟩
        · exact Or.inl ⟨h1, fun d hd => by simp [St.total, h2 d hd]⟩
        · exact Or.inr ⟨h1, d, hd, by simp [St.total, h2]⟩
  · intro p _ hne
    cases hv : σ.get p with
    | none => simp [St.total, hv] at hne
    | some v =>
      have hpv : σ.total p = v := by simp [St.total, hv]
      rw [hpv] at hne ⊢
      exact hgr p v hv hne

/-- **every execution of `inferClockDomains`** — any visiting order that covers all ports, any order of serving the retry
    set — assigns every port, and the resulting map is admissible -/
theorem run_total_admissible {g : Graph} {order : List Nat} {σ : St} (hc : g.Closed) (hacyc : g.Acyclic)
    (hcover : ∀ p, p < g.ports.size → p ∈ order) (hrun : Run g order {} σ) :
    (∀ p, p < g.ports.size → σ.get p ≠ none) ∧ Admissible g σ.total := by
  obtain ⟨hj, _, hre, hpend, _⟩ := run_inv hrun (fun _ => False) (just_init g) (groundedSt_init g) (fun _ h => h.elim)
  obtain ⟨r, hr⟩ := hacyc
  have htot : ∀ n p, r p < n → p < g.ports.size → σ.get p ≠ none := by
    intro n
    induction n with
    | zero => intro p h; exact absurd h (Nat.not_lt_zero _)
    | succ n ih =>
      intro p hrp hp hnone
      rcases (hpend p (Or.inr (hcover p hp))).1 hnone with h | ⟨d, hd, hdn, _⟩
      · rw [hre] at h; cases h
      · have hdlt : d < g.ports.size := by
          obtain ⟨ds, hrel, hmem⟩ : ∃ ds, g.rel p = .inputs ds ∧ some d ∈ ds := by
            unfold Graph.deps at hd
            cases hrl : g.rel p with
            | clock c => simp [hrl] at hd
            | inputs ds => simp [hrl] at hd; exact ⟨ds, rfl, hd⟩
          -- dependent inputs are inputs of the owner node
          have : some d ∈ (g.node (g.owner p)).ins := by
            unfold Graph.rel at hrel
            unfold Graph.owner
            generalize g.ports.getD p (0, 0) = no at hrel ⊢
            obtain ⟨n', o⟩ := no
            simp only at hrel ⊢
            unfold Node.rel at hrel
            split at hrel
            · cases hrel; exact hmem
            · cases hrel
            · cases hrel
            · cases hrel
            · split at hrel
              · cases hrel; cases hmem
              · cases hrel; exact List.mem_of_mem_eraseIdx hmem
          exact hc.2 _ (hc.1 p hp) d this
        exact ih d (by have := (hr p hp).2 d hd; omega) hdlt hdn
  have htot' : ∀ p, p < g.ports.size → σ.get p ≠ none := fun p hp => htot (r p + 1) p (Nat.lt_succ_self _) hp
  refine ⟨htot', ?_⟩
  intro p hp
  cases hv : σ.get p with
  | none => exact absurd hv (htot' p hp)
  | some v =>
    have hjp := hj p v hv
    unfold Justified at hjp
    have hpv : σ.total p = v := by simp [St.total, hv]
    split at hjp
    · next hrl => simp only [hrl, hpv]; exact hjp
    · next c hrl => simp only [hrl, hpv]; exact hjp
    · next ds hrl =>
      simp only [hrl, hpv]
      rcases hjp with ⟨h1, h2⟩ | ⟨h1, d, hd, h2⟩
      · exact Or.inl ⟨h1, fun d hd => by simp [St.total, h2 d hd]⟩
      · exact Or.inr ⟨h1, d, hd, by simp [St.total, h2]⟩

/-! ### the executable smallest-first schedule is one of the runs -/

theorem minOf_mem : ∀ (l : List Nat), l ≠ [] → minOf l ∈ l
  | [], h => absurd rfl h
  | [x], _ => by simp [minOf]
  | x :: y :: r, _ => by
    have ih := minOf_mem (y :: r) (by simp)
    simp only [minOf]
    rcases Nat.le_total x (minOf (y :: r)) with h | h
    · rw [Nat.min_eq_left h]; exact List.mem_cons_self
    · rw [Nat.min_eq_right h]; exact List.mem_cons_of_mem _ ih

theorem attemptLoop_run {g : Graph} : ∀ (fuel : Nat) (σ τ : St) (rest : List Nat) (σ' : St),
    attemptLoop g fuel σ = some τ → Run g rest τ σ' → Run g rest σ σ'
  | 0, _, _, _, _, h, _ => by simp [attemptLoop] at h
  | f+1, σ, τ, rest, σ', h, hr => by
    simp only [attemptLoop] at h
    split at h
    · cases h; exact hr
    · next hne =>
      have hne' : σ.retry ≠ [] := by simpa using hne
      exact Run.pop (minOf_mem _ hne') (attemptLoop_run f _ τ rest σ' h hr)

theorem attemptLoop_retry {g : Graph} : ∀ (fuel : Nat) (σ τ : St), attemptLoop g fuel σ = some τ → τ.retry = []
  | 0, _, _, h => by simp [attemptLoop] at h
  | f+1, σ, τ, h => by
    simp only [attemptLoop] at h
    split at h
    · next he => cases h; simpa using he
    · exact attemptLoop_retry f _ τ h

theorem inferFrom_run {g : Graph} (fuel : Nat) : ∀ (order : List Nat) (σ σ' : St), σ.retry = [] →
    inferFrom g fuel order σ = some σ' → Run g order σ σ'
  | [], σ, σ', hre, h => by simp only [inferFrom] at h; cases h; exact Run.done hre
  | np :: rest, σ, σ', hre, h => by
    simp only [inferFrom] at h
    split at h
    · cases h
    · next τ hτ =>
      exact Run.next hre (attemptLoop_run fuel _ τ rest σ' hτ (inferFrom_run fuel rest τ σ' (attemptLoop_retry fuel _ τ hτ) h))

theorem infer_run {g : Graph} {fuel : Nat} {order : List Nat} {σ : St} (h : infer g fuel order = some σ) : Run g order {} σ :=
  inferFrom_run fuel order {} σ rfl h

end Gatery.C12
