import GateryModel.C12.LemmasCheck
/-!
# C12 — lemmas relating an admissible domain map + the per-node check to marker-free paths
-/
namespace Gatery.C12

theorem rel_inputs_of_dep {g : Graph} {p d : Nat} (h : d ∈ g.deps p) : ∃ ds, g.rel p = .inputs ds ∧ some d ∈ ds := by
  unfold Graph.deps at h
  cases hr : g.rel p with
  | clock c => simp [hr] at h
  | inputs ds =>
    simp [hr] at h
    exact ⟨ds, rfl, h⟩

/-- dependent inputs are inputs of the owning node, and only base-checked nodes have input-dependent outputs -/
theorem dep_owner {g : Graph} {p d : Nat} (h : d ∈ g.deps p) :
    some d ∈ (g.node (g.owner p)).ins ∧ (g.node (g.owner p)).baseChecked := by
  obtain ⟨ds, hr, hd⟩ := rel_inputs_of_dep h
  unfold Graph.rel at hr
  unfold Graph.owner
  generalize g.ports.getD p (0, 0) = no at hr ⊢
  obtain ⟨n, o⟩ := no
  simp only at hr ⊢
  unfold Node.rel at hr
  cases hk : (g.node n).kind with
  | plain c =>
    cases c with
    | none =>
      simp [hk] at hr
      subst hr
      exact ⟨hd, by simp [Node.baseChecked, hk]⟩
    | some c => simp [hk] at hr
  | memPort c =>
    simp [hk] at hr
    by_cases ho : o = 2
    · simp [ho] at hr
      subst hr
      cases hd
    · simp [ho] at hr
      subst hr
      exact ⟨List.mem_of_mem_eraseIdx hd, by simp [Node.baseChecked, hk]⟩
  | cdc i oc => simp [hk] at hr
  | noCheck c => simp [hk] at hr

theorem dep_lt {g : Graph} (hc : g.Closed) {p d : Nat} (hp : p < g.ports.size) (h : d ∈ g.deps p) : d < g.ports.size :=
  hc.2 _ (hc.1 p hp) d (dep_owner h).1

theorem reach_source {g : Graph} {s p : Nat} (h : Reach g s p) : g.isSource s := by
  induction h with
  | src hs => exact hs
  | step _ _ ih => exact ih

theorem label_ne_const {g : Graph} {s : Nat} (h : g.isSource s) : g.label s ≠ .const := by
  obtain ⟨c, hc⟩ := h
  unfold Graph.label
  rw [hc]
  cases c <;> simp

theorem label_of_adm {g : Graph} {D : Nat → Dom} (ha : Admissible g D) {s : Nat} (hs : s < g.ports.size)
    (h : g.isSource s) : D s = g.label s := by
  obtain ⟨c, hc⟩ := h
  have := ha s hs
  unfold Graph.label
  rw [hc] at this ⊢
  cases c <;> simpa using this

theorem mem_inDoms {n : Node} {D : Nat → Dom} {d : Nat} (h : some d ∈ n.ins) : D d ∈ n.inDoms D := by
  unfold Node.inDoms
  exact List.mem_map.2 ⟨some d, h, rfl⟩

theorem inDoms_pairwise {ps : Clk → Clk} {D : Nat → Dom} {n : Node} (hb : n.baseChecked) (h : n.check ps D = true) :
    (n.inDoms D).Pairwise (compat ps) := by
  have := (check_base_iff ps D n hb).1 h
  unfold Node.contribs at this
  exact (List.pairwise_append.1 this).2.1

/-- **forward invariant**: if no node is flagged, every port carries (up to pin source) the domain of every source that
    reaches it over a marker-free path -/
theorem reach_sim {g : Graph} {ps : Clk → Clk} {D : Nat → Dom} (hc : g.Closed) (ha : Admissible g D)
    (hok : ∀ k, k < g.nodes.size → (g.node k).check ps D = true) {s p : Nat} (h : Reach g s p) :
    p < g.ports.size → sim ps (D p) (g.label s) := by
  induction h with
  | src hs =>
    intro hp
    rw [label_of_adm ha hp hs]
    exact sim_refl _
  | @step d p hr hd ih =>
    intro hp
    have hdlt := dep_lt hc hp hd
    have hsim := ih hdlt
    have hsrc := label_ne_const (reach_source hr)
    have hdne : D d ≠ .const := sim_ne_const hsim hsrc
    obtain ⟨ds, hrel, _⟩ := rel_inputs_of_dep hd
    have hadm := ha p hp
    rw [hrel] at hadm
    simp only at hadm
    rcases hadm with ⟨_, hall⟩ | ⟨hpne, d0, hd0, hd0eq⟩
    · exact absurd (hall d hd) hdne
    · have ho := dep_owner hd
      have ho0 := dep_owner hd0
      have hpw := inDoms_pairwise (ps := ps) (D := D) ho.2 (hok _ (hc.1 p hp))
      have h1 := pairwise_mem (fun _ _ => compat_symm) hpw (mem_inDoms (D := D) ho0.1) (mem_inDoms (D := D) ho.1)
      have hs0 : sim ps (D d0) (D d) := by
        rcases h1 with h1 | h1
        · rw [h1]; exact sim_refl _
        · exact sim_of_compat h1 (by rw [hd0eq]; exact hpne) hdne
      rw [← hd0eq]
      exact sim_trans hs0 hsim

/-- **backward trace**: every non-constant domain in an admissible map is the label of a source that reaches the port -/
theorem trace_back {g : Graph} {D : Nat → Dom} (hc : g.Closed) (hacyc : g.Acyclic) (ha : Admissible g D) :
    ∀ p, p < g.ports.size → D p ≠ .const → ∃ s, Reach g s p ∧ g.label s = D p := by
  obtain ⟨r, hr⟩ := hacyc
  suffices h : ∀ n p, r p < n → p < g.ports.size → D p ≠ .const → ∃ s, Reach g s p ∧ g.label s = D p from
    fun p hp hne => h (r p + 1) p (Nat.lt_succ_self _) hp hne
  intro n
  induction n with
  | zero => intro p h; exact absurd h (Nat.not_lt_zero _)
  | succ n ih =>
    intro p hrp hp hne
    cases hrel : g.rel p with
    | clock c =>
      have hs : g.isSource p := ⟨c, hrel⟩
      exact ⟨p, Reach.src hs, (label_of_adm ha hp hs).symm⟩
    | inputs ds =>
      have hadm := ha p hp
      rw [hrel] at hadm
      simp only at hadm
      rcases hadm with ⟨h0, _⟩ | ⟨_, d, hd, hdeq⟩
      · exact absurd h0 hne
      · have hrd := (hr p hp).2 d hd
        obtain ⟨s, hs, hl⟩ := ih d (by omega) (dep_lt hc hp hd) (by rw [hdeq]; exact hne)
        exact ⟨s, Reach.step hs hd, by rw [hl, hdeq]⟩

theorem inDoms_getElem? (n : Node) (D : Nat → Dom) (i : Nat) :
    (n.inDoms D)[i]? = (n.ins[i]?).map (inDom D) := by
  unfold Node.inDoms
  simp

/-- a non-constant entry of `inputClocks` comes from a connected input -/
theorem inDoms_nonconst {n : Node} {D : Nat → Dom} {i : Nat} {x : Dom} (h : (n.inDoms D)[i]? = some x) (hx : x ≠ .const) :
    ∃ d, n.ins[i]? = some (some d) ∧ D d = x := by
  rw [inDoms_getElem?] at h
  cases hi : n.ins[i]? with
  | none => simp [hi] at h
  | some o =>
    cases o with
    | none => simp [hi, inDom] at h; exact absurd h.symm hx
    | some d => simp [hi, inDom] at h; exact ⟨d, rfl, h⟩

theorem grounded_of_acyclic {g : Graph} {D : Nat → Dom} (hc : g.Closed) (hacyc : g.Acyclic) (ha : Admissible g D) :
    Grounded g D := ⟨ha, trace_back hc hacyc ha⟩

theorem arrives_of_input {g : Graph} {D : Nat → Dom} (hc : g.Closed) (hg : Grounded g D)
    {k : Nat} (hk : k < g.nodes.size) {i d : Nat} (hi : (g.node k).ins[i]? = some (some d)) (hne : D d ≠ .const) :
    Arrives g (g.node k) i (D d) := by
  have hd : d < g.ports.size := hc.2 k hk d (List.mem_of_getElem? hi)
  obtain ⟨s, hs, hl⟩ := hg.2 d hd hne
  exact ⟨d, s, hi, hs, hl⟩

theorem not_compat_ne_const {ps : Clk → Clk} {a b : Dom} (h : ¬ compat ps a b) : a ≠ .const ∧ b ≠ .const := by
  constructor
  · intro e; subst e; exact h (compat_const_left _)
  · intro e; subst e; exact h (compat_const_right _)

/-- a flagged node exhibits a crossing (groundedness traces the offending domains back to sources) -/
theorem violation_of_flagged {g : Graph} {ps : Clk → Clk} {D : Nat → Dom} (hc : g.Closed)
    (hg : Grounded g D) {k : Nat} (hk : k < g.nodes.size) (hf : (g.node k).check ps D = false) :
    Violation g ps (g.node k) := by
  by_cases hb : (g.node k).baseChecked
  · have hnp : ¬ ((g.node k).contribs D).Pairwise (compat ps) := by
      intro h
      rw [(check_base_iff ps D _ hb).2 h] at hf
      cases hf
    -- a violation among the inputs
    have hmix : ¬ ((g.node k).inDoms D).Pairwise (compat ps) → Violation g ps (g.node k) := by
      intro hn
      rw [List.pairwise_iff_getElem] at hn
      simp only [Classical.not_forall] at hn
      obtain ⟨i, j, hi, hj, hij, hnc⟩ := hn
      have ⟨h1, h2⟩ := not_compat_ne_const hnc
      obtain ⟨d1, hd1, e1⟩ := inDoms_nonconst (List.getElem?_eq_getElem hi) h1
      obtain ⟨d2, hd2, e2⟩ := inDoms_nonconst (List.getElem?_eq_getElem hj) h2
      refine Violation.mix i j (D d1) (D d2) hb (Nat.ne_of_lt hij)
        (arrives_of_input hc hg hk hd1 (by rw [e1]; exact h1))
        (arrives_of_input hc hg hk hd2 (by rw [e2]; exact h2)) ?_
      rw [e1, e2]; exact hnc
    unfold Node.contribs at hnp
    cases hown : (g.node k).ownClock with
    | none =>
      rw [hown] at hnp
      exact hmix (by simpa using hnp)
    | some b =>
      rw [hown] at hnp
      simp only [List.singleton_append, List.pairwise_cons, Classical.not_and_iff_not_or_not, Classical.not_forall] at hnp
      rcases hnp with ⟨x, hx, hnc⟩ | hnp
      · obtain ⟨i, hi⟩ := List.getElem?_of_mem hx
        have ⟨_, h2⟩ := not_compat_ne_const hnc
        obtain ⟨d, hd, e⟩ := inDoms_nonconst hi h2
        refine Violation.sink b i (D d) hown (arrives_of_input hc hg hk hd (by rw [e]; exact h2)) ?_
        rw [e]; exact fun h => hnc (compat_symm h)
      · exact hmix hnp
  · -- not base checked: CDC marker or noCheck
    unfold Node.check at hf
    cases hkind : (g.node k).kind with
    | plain c => simp [Node.baseChecked, hkind] at hb
    | memPort c => simp [Node.baseChecked, hkind] at hb
    | noCheck c => simp [hkind] at hf
    | cdc ic oc =>
      rw [hkind] at hf
      simp only at hf
      have hne : ((g.node k).inDoms D).headD .const ≠ .const := by
        intro e; rw [e] at hf; cases hf
      have h0 : ((g.node k).inDoms D)[0]? = some (((g.node k).inDoms D).headD .const) := by
        cases hl : (g.node k).inDoms D with
        | nil => rw [hl] at hne; simp at hne
        | cons a t => simp
      obtain ⟨d, hd, e⟩ := inDoms_nonconst h0 hne
      refine Violation.marker ic oc (D d) hkind (arrives_of_input hc hg hk hd (by rw [e]; exact hne)) ?_
      rw [e]
      cases hv : ((g.node k).inDoms D).headD .const with
      | const => exact absurd hv hne
      | unknown => simp [compat, compatB]
      | clock c =>
        rw [hv] at hf
        simp only at hf
        simpa [compat, compatB] using hf

theorem baseChecked_of_ownClock {n : Node} {b : Clk} (h : n.ownClock = some b) : n.baseChecked := by
  unfold Node.ownClock at h
  unfold Node.baseChecked
  cases hk : n.kind <;> simp [hk] at h ⊢

/-- if no node is flagged there is no crossing at any node -/
theorem no_violation_of_ok {g : Graph} {ps : Clk → Clk} {D : Nat → Dom} (hc : g.Closed) (ha : Admissible g D)
    (hok : ∀ k, k < g.nodes.size → (g.node k).check ps D = true) {k : Nat} (hk : k < g.nodes.size) :
    ¬ Violation g ps (g.node k) := by
  have hcheck := hok k hk
  have arr : ∀ {i l}, Arrives g (g.node k) i l →
      ∃ d, (g.node k).ins[i]? = some (some d) ∧ sim ps (D d) l ∧ l ≠ .const := by
    rintro i l ⟨d, s, hi, hr, hl⟩
    have hd : d < g.ports.size := hc.2 k hk d (List.mem_of_getElem? hi)
    exact ⟨d, hi, hl ▸ reach_sim hc ha hok hr hd, hl ▸ label_ne_const (reach_source hr)⟩
  intro hv
  cases hv with
  | sink b i l hown harr hnc =>
    obtain ⟨d, hi, hs, _⟩ := arr harr
    have hb := baseChecked_of_ownClock hown
    have hp := (check_base_iff ps D _ hb).1 hcheck
    unfold Node.contribs at hp
    rw [hown] at hp
    simp only [List.singleton_append, List.pairwise_cons] at hp
    have := hp.1 (D d) (mem_inDoms (List.mem_of_getElem? hi))
    exact hnc (compat_symm (compat_sim_right this hs))
  | mix i j l₁ l₂ hb hij h1 h2 hnc =>
    obtain ⟨d1, hi1, hs1, _⟩ := arr h1
    obtain ⟨d2, hi2, hs2, _⟩ := arr h2
    have hp := inDoms_pairwise hb hcheck
    rw [List.pairwise_iff_getElem] at hp
    have e1 : ((g.node k).inDoms D)[i]? = some (D d1) := by rw [inDoms_getElem?, hi1]; rfl
    have e2 : ((g.node k).inDoms D)[j]? = some (D d2) := by rw [inDoms_getElem?, hi2]; rfl
    obtain ⟨hi, e1'⟩ := List.getElem?_eq_some_iff.1 e1
    obtain ⟨hj, e2'⟩ := List.getElem?_eq_some_iff.1 e2
    rcases Nat.lt_or_gt_of_ne hij with hlt | hgt
    · have := hp i j hi hj hlt
      rw [e1', e2'] at this
      exact hnc (compat_sim_left (compat_sim_right this hs2) hs1)
    · have := hp j i hj hi hgt
      rw [e1', e2'] at this
      exact hnc (compat_symm (compat_sim_left (compat_sim_right this hs1) hs2))
  | marker ic oc l hkind harr hnc =>
    obtain ⟨d, hi, hs, hl⟩ := arr harr
    unfold Node.check at hcheck
    rw [hkind] at hcheck
    simp only at hcheck
    have hh : ((g.node k).inDoms D).headD .const = D d := by
      have e : ((g.node k).inDoms D)[0]? = some (D d) := by rw [inDoms_getElem?, hi]; rfl
      cases hl' : (g.node k).inDoms D with
      | nil => rw [hl'] at e; simp at e
      | cons a t => rw [hl'] at e; simp at e; simp [e]
    rw [hh] at hcheck
    cases hv : D d with
    | const => rw [hv] at hs; exact hl (sim_const_left hs)
    | unknown => rw [hv] at hcheck; simp at hcheck
    | clock c =>
      rw [hv] at hcheck hs
      simp only at hcheck
      have hcc : compat ps (.clock c) (.clock ic) := by simpa [compat, compatB] using hcheck
      exact hnc (compat_sim_left hcc hs)

theorem rejects_iff {g : Graph} {ps : Clk → Clk} {D : Nat → Dom} :
    g.rejects ps D = true ↔ ∃ k, k < g.nodes.size ∧ (g.node k).check ps D = false := by
  unfold Graph.rejects Graph.flagged
  simp only [Bool.not_eq_true', List.isEmpty_eq_false_iff_exists_mem, List.mem_filter, List.mem_range,
    Bool.not_eq_eq_eq_not, Bool.not_true]

/-- **the verdict is exactly the path-based notion of a crossing**, for every admissible domain map -/
theorem rejects_iff_crossing {g : Graph} {ps : Clk → Clk} {D : Nat → Dom} (hc : g.Closed)
    (hg : Grounded g D) : g.rejects ps D = true ↔ Crossing g ps := by
  rw [rejects_iff]
  constructor
  · rintro ⟨k, hk, hf⟩
    exact ⟨k, hk, violation_of_flagged hc hg hk hf⟩
  · rintro ⟨k, hk, hv⟩
    apply Classical.byContradiction
    intro hno
    have hok : ∀ k, k < g.nodes.size → (g.node k).check ps D = true := by
      intro k' hk'
      cases hch : (g.node k').check ps D with
      | true => rfl
      | false => exact absurd ⟨k', hk', hch⟩ hno
    exact no_violation_of_ok hc hg.1 hok hk hv

end Gatery.C12
