import GateryModel.C12.LemmasInfer
/-!
# C12 — termination of the `while (!nodePortsToRetry.empty())` loop for every order of serving the retry set

Measure: (number of unassigned ports, size of the retry set), lexicographically.  Taking a port from the retry set shrinks
the set; the set only grows when a port is newly assigned (`assignToCD` returns early otherwise).
-/
namespace Gatery.C12
open Std

/-- every port number the algorithm holds is a real port -/
def InRange (g : Graph) (σ : St) : Prop :=
  (∀ p, p ∈ σ.retry → p < g.ports.size) ∧ (∀ d p, p ∈ σ.waiting d → p < g.ports.size)

def unassigned (g : Graph) (σ : St) : Nat :=
  ((List.range g.ports.size).filter fun p => (σ.get p).isNone).length

def measure (g : Graph) (σ : St) : Nat × Nat := (unassigned g σ, σ.retry.length)

theorem assign_inRange {g : Graph} {σ : St} {p : Nat} {v : Dom} (h : InRange g σ) : InRange g (assign σ p v) := by
  unfold assign
  split
  · exact h
  · refine ⟨fun q hq => ?_, fun d q hq => h.2 d q hq⟩
    rcases mem_foldr_setInsert.1 hq with hq | hq
    · exact h.2 p q hq
    · exact h.1 q hq

theorem addWait_inRange {g : Graph} {σ : St} {d p : Nat} (h : InRange g σ) (hp : p < g.ports.size) :
    InRange g (σ.addWait d p) := by
  refine ⟨h.1, fun e q hq => ?_⟩
  rw [addWait_waiting] at hq
  split at hq
  · rcases List.mem_append.1 hq with hq | hq
    · exact h.2 d q hq
    · simp at hq; rw [hq]; exact hp
  · exact h.2 e q hq

theorem scan_inRange {g : Graph} (p : Nat) (hp : p < g.ports.size) : ∀ (ds : List (Option Nat)) (σ : St) (ac : Bool),
    InRange g σ → InRange g (scan p ds σ ac).1
  | [], _, _, h => h
  | none :: ds, σ, ac, h => by rw [scan_none_cons]; exact scan_inRange p hp ds σ ac h
  | some d :: ds, σ, ac, h => by
    rcases get_trichotomy (σ.get d) with hg | hg | ⟨w, hg, hw⟩
    · rw [scan_some_none hg]; exact scan_inRange p hp ds _ false (addWait_inRange h hp)
    · rw [scan_some_const hg]; exact scan_inRange p hp ds σ ac h
    · rw [scan_some_nonconst hg hw]; exact scan_inRange p hp ds _ false (assign_inRange h)

theorem process_inRange {g : Graph} {σ : St} {p : Nat} (hp : p < g.ports.size) (h : InRange g σ) :
    InRange g (process g σ p) := by
  unfold process
  split
  · exact assign_inRange h
  · exact assign_inRange h
  · simp only
    split
    · exact assign_inRange (scan_inRange p hp _ σ true h)
    · exact scan_inRange p hp _ σ true h

theorem pop_inRange {g : Graph} {σ : St} {p : Nat} (h : InRange g σ) : InRange g (σ.pop p) :=
  ⟨fun q hq => h.1 q (List.mem_filter.1 hq).1, h.2⟩

/-- the retry set is touched only by a new assignment of the processed port -/
theorem scan_retry_eq (p : Nat) : ∀ (ds : List (Option Nat)) (σ : St) (ac : Bool),
    ((σ.get p).isSome = true ∨ (scan p ds σ ac).1.get p = none) → (scan p ds σ ac).1.retry = σ.retry
  | [], _, _, _ => rfl
  | none :: ds, σ, ac, h => by rw [scan_none_cons] at h ⊢; exact scan_retry_eq p ds σ ac h
  | some d :: ds, σ, ac, h => by
    rcases get_trichotomy (σ.get d) with hg | hg | ⟨w, hg, hw⟩
    · rw [scan_some_none hg] at h ⊢
      exact scan_retry_eq p ds _ false h
    · rw [scan_some_const hg] at h ⊢; exact scan_retry_eq p ds σ ac h
    · rw [scan_some_nonconst hg hw] at h ⊢
      cases hs : σ.get p with
      | some u =>
        have hsome : (σ.get p).isSome = true := by rw [hs]; rfl
        rw [assign_of_some hsome]
        exact scan_retry_eq p ds σ false (Or.inl hsome)
      | none =>
        exfalso
        rcases h with h | h
        · rw [hs] at h; cases h
        · rw [scan_get_self_some p ds _ false w (assign_get_self_none hs)] at h; cases h

theorem process_retry_eq (g : Graph) (σ : St) (p : Nat)
    (h : (σ.get p).isSome = true ∨ (process g σ p).get p = none) : (process g σ p).retry = σ.retry := by
  have hassign : ∀ (τ : St) (v : Dom), ((τ.get p).isSome = true ∨ (assign τ p v).get p = none) → (assign τ p v).retry = τ.retry := by
    intro τ v h
    rcases h with h | h
    · rw [assign_of_some h]
    · obtain ⟨w, hw⟩ := assign_get_self_isSome τ p v
      rw [hw] at h; cases h
  unfold process at h ⊢
  split
  · next hr => simp only [hr] at h; exact hassign σ _ h
  · next c hr => simp only [hr] at h; exact hassign σ _ h
  · next ds hr =>
    simp only [hr] at h
    simp only at h ⊢
    split
    · next hac =>
      simp only [hac, if_true] at h
      rcases h with h | h
      · obtain ⟨u, hu⟩ := Option.isSome_iff_exists.1 h
        have h2 := scan_get_self_some p ds σ true u hu
        rw [assign_of_some (by rw [h2]; rfl)]
        exact scan_retry_eq p ds σ true (Or.inl h)
      · obtain ⟨w, hw⟩ := assign_get_self_isSome (scan p ds σ true).1 p .const
        rw [hw] at h; cases h
    · next hac =>
      simp only [hac] at h
      exact scan_retry_eq p ds σ true h

theorem filter_length_lt {α : Type} (f f' : α → Bool) : ∀ (l : List α), (∀ x, x ∈ l → f' x = true → f x = true) →
    (∃ x, x ∈ l ∧ f x = true ∧ f' x = false) → (l.filter f').length < (l.filter f).length
  | [], _, h => by obtain ⟨x, hx, _⟩ := h; cases hx
  | a :: t, hall, hex => by
    have hle : (t.filter f').length ≤ (t.filter f).length := by
      clear hex
      induction t with
      | nil => simp
      | cons b u ih =>
        have hb := hall b (List.mem_cons_of_mem _ List.mem_cons_self)
        have ih' := ih (fun x hx => hall x (by
          rcases List.mem_cons.1 hx with hx | hx
          · rw [hx]; exact List.mem_cons_self
          · exact List.mem_cons_of_mem _ (List.mem_cons_of_mem _ hx)))
        simp only [List.filter_cons]
        cases hfb' : f' b with
        | true => rw [hb hfb']; simp; exact ih'
        | false => cases hfb : f b <;> simp <;> omega
    obtain ⟨x, hx, hfx, hfx'⟩ := hex
    simp only [List.filter_cons]
    rcases List.mem_cons.1 hx with hx | hx
    · subst hx
      rw [hfx, hfx']; simp; omega
    · have ih := filter_length_lt f f' t (fun y hy => hall y (List.mem_cons_of_mem _ hy)) ⟨x, hx, hfx, hfx'⟩
      cases hfa' : f' a with
      | true => rw [hall a List.mem_cons_self hfa']; simp; exact ih
      | false => cases hfa : f a <;> simp <;> omega

theorem filter_length_eq {α : Type} (f f' : α → Bool) (l : List α) (h : ∀ x, x ∈ l → f' x = f x) :
    (l.filter f').length = (l.filter f).length := by
  rw [List.filter_congr h]

/-- **one iteration of the retry loop decreases the measure**, whichever member of the retry set is taken -/
theorem pop_step_decreases {g : Graph} {σ : St} {p : Nat} (hin : InRange g σ) (hp : p ∈ σ.retry) :
    InRange g (process g (σ.pop p) p) ∧
    Prod.Lex (· < ·) (· < ·) (measure g (process g (σ.pop p) p)) (measure g σ) := by
  have hplt := hin.1 p hp
  refine ⟨process_inRange hplt (pop_inRange hin), ?_⟩
  have hpoplen : (σ.pop p).retry.length < σ.retry.length := by
    unfold St.pop
    exact List.length_filter_lt_length_iff_exists.2 ⟨p, hp, by simp⟩
  unfold measure
  by_cases hnew : (σ.get p).isSome = true ∨ (process g (σ.pop p) p).get p = none
  · -- nothing newly assigned: same number of unassigned ports, smaller retry set
    have hre := process_retry_eq g (σ.pop p) p hnew
    have hun : unassigned g (process g (σ.pop p) p) = unassigned g σ := by
      unfold unassigned
      apply filter_length_eq
      intro q _
      by_cases hq : q = p
      · subst hq
        rcases hnew with h | h
        · obtain ⟨u, hu⟩ := Option.isSome_iff_exists.1 h
          rw [process_get_self_some g (σ.pop q) q u hu, hu]
        · rw [h]
          cases hs : σ.get q with
          | none => rfl
          | some u => rw [process_get_self_some g (σ.pop q) q u hs] at h; cases h
      · rw [process_get_other g _ p q hq, pop_get]
    rw [hun, hre]
    exact Prod.Lex.right _ hpoplen
  · -- `p` newly assigned: fewer unassigned ports
    have hnone : σ.get p = none := by
      cases hs : σ.get p with
      | none => rfl
      | some u => exact absurd (Or.inl (by rw [hs]; rfl)) hnew
    have hsome : (process g (σ.pop p) p).get p ≠ none := fun h => hnew (Or.inr h)
    apply Prod.Lex.left
    unfold unassigned
    apply filter_length_lt
    · intro q _ hq
      by_cases hqp : q = p
      · subst hqp; rw [hnone]; rfl
      · rw [process_get_other g _ p q hqp, pop_get] at hq; exact hq
    · refine ⟨p, List.mem_range.2 hplt, by rw [hnone]; rfl, ?_⟩
      cases hs : (process g (σ.pop p) p).get p with
      | none => exact absurd hs hsome
      | some u => rfl

/-- **termination**: from a state whose port numbers are in range there is no infinite sequence of retry steps -/
theorem retry_loop_terminates (g : Graph) :
    WellFounded (fun τ σ : St => InRange g σ ∧ ∃ p, p ∈ σ.retry ∧ τ = process g (σ.pop p) p) := by
  apply Subrelation.wf (r := InvImage (Prod.Lex (· < ·) (· < ·)) (measure g))
  · intro τ σ ⟨hin, p, hp, he⟩
    subst he
    exact (pop_step_decreases hin hp).2
  · exact InvImage.wf _ (Prod.lex Nat.lt_wfRel Nat.lt_wfRel).wf

end Gatery.C12
