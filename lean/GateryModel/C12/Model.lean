import Std
/-!
# C12 — model of gatery's clock-domain-crossing detection

Anchors (all under `/repo/source/gatery`):
* `hlim/postprocessing/CDCDetection.cpp:30-119`  `inferClockDomains` (work list, `undetermined` retry lists)
* `hlim/postprocessing/CDCDetection.cpp:122-145` `detectUnguardedCDCCrossings`
* `hlim/Node.cpp:161-175`  `BaseNode::getOutputClockRelation`
* `hlim/Node.cpp:177-215`  `BaseNode::checkValidInputClocks`
* `hlim/supportNodes/Node_CDC.cpp:101-126`   the CDC marker's overrides
* `hlim/supportNodes/Node_MemPort.cpp:527-543` memory port `getOutputClockRelation`
* `hlim/coreNodes/Node_Register.cpp:33`, `Node_Pin.cpp:31` (`m_clocks.resize(1)`, no overrides: `BaseNode` behaviour)
* `hlim/coreNodes/Node_Signal2Clk.h:46`, `Node_Signal2Rst.h:46` (`checkValidInputClocks` always true)
* `hlim/Clock.cpp:103-127` `inheritsClockPinSource` / `getClockPinSource`
* `hlim/Circuit.cpp:1648-1673` `Circuit::postprocess`: any flagged node ⇒ `HCL_DESIGNCHECK_HINT(false, …)` (DesignError)

The graph is modelled at the granularity the C++ works on: the *vertices of the inference* are output
ports (`NodePort`), numbered in `StableCompare<NodePort>` order (node id, then port); the *check* is per node
on the inferred domains of the drivers of all its input ports.
-/
namespace Gatery.C12

/-- a clock is identified by its position in the circuit's clock list -/
abbrev Clk := Nat

/-- `hlim::SignalClockDomain` (Node.h:63-71): `UNKNOWN`, `CONSTANT`, `CLOCK clk` -/
inductive Dom where
  | unknown
  | const
  | clock (c : Clk)
  deriving DecidableEq, Repr, Inhabited

/-! ## Clock pin sources (hlim/Clock.cpp:103-127) -/

/-- the facts about one `hlim::Clock` that `inheritsClockPinSource` looks at -/
structure ClockInfo where
  parent : Option Clk          -- m_parentClock
  selfDrivenSim : Bool         -- isSelfDriven(true, true)
  selfDrivenExp : Bool         -- isSelfDriven(false, true)
  sameName : Bool              -- m_parentClock->getName() == getName()
  sameFreq : Bool              -- m_parentClock->absoluteFrequency() == absoluteFrequency()
  phaseSync : Bool             -- m_phaseSynchronousWithParent
  deriving Repr, Inhabited

/-- Clock.cpp:103-119 -/
def ClockInfo.inherits (c : ClockInfo) : Bool :=
  c.parent.isSome && c.selfDrivenSim && c.selfDrivenExp && c.sameName && c.sameFreq && c.phaseSync

/-- Clock.cpp:121-127, recursion up the parent chain (fuel = number of clocks; the chain is a tree) -/
def pinSourceF (tbl : Array ClockInfo) : Nat → Clk → Clk
  | 0, c => c
  | f+1, c =>
    match tbl[c]? with
    | none => c
    | some ci =>
      if ci.inherits then
        match ci.parent with
        | some p => pinSourceF tbl f p
        | none => c
      else c

def pinSource (tbl : Array ClockInfo) (c : Clk) : Clk := pinSourceF tbl tbl.size c

/-! ## Nodes, output relations -/

/-- how a node takes part in CDC detection -/
inductive Kind where
  /-- a node that uses `BaseNode::getOutputClockRelation` / `BaseNode::checkValidInputClocks`.
      `none`: `m_clocks` is empty (combinational nodes, constants, signals, memory node);
      `some c`: one clock slot holding `c` (`none` = nullptr): register, pin, clk2signal, … -/
  | plain (clk : Option (Option Clk))
  /-- `Node_MemPort`: base check with its one clock slot; outputs `rdData`(0)/`orderBefore`(1) depend on all inputs
      but `memoryReadDependency`(6), output `memoryWriteDependency`(2) on nothing -/
  | memPort (clk : Option Clk)
  /-- `Node_CDC` with bound INPUT_CLOCK and OUTPUT_CLOCK slot -/
  | cdc (inClk : Clk) (outClk : Option Clk)
  /-- `Node_Signal2Clk` / `Node_Signal2Rst`: base output relation (one clock slot), check always true -/
  | noCheck (clk : Option Clk)
  deriving Repr, Inhabited, DecidableEq

structure Node where
  kind : Kind
  /-- driver (port index) of every input port, `none` = unconnected -/
  ins : List (Option Nat)
  deriving Repr, Inhabited

/-- `OutputClockRelation` (Node.h:52-57): only `dependentClocks[0]` is ever read by the inference, so the model keeps
    either that clock (`clock`) or, if there is none, the drivers of the dependent inputs in port order (`inputs`).
    `isConst()` is `inputs []`. -/
inductive Rel where
  | clock (c : Option Clk)
  | inputs (ds : List (Option Nat))
  deriving Repr, Inhabited, DecidableEq

/-- `getOutputClockRelation(out)` of a node (Node.cpp:161-175, Node_CDC.cpp:101-106, Node_MemPort.cpp:527-543) -/
def Node.rel (n : Node) (out : Nat) : Rel :=
  match n.kind with
  | .plain none => .inputs n.ins
  | .plain (some c) => .clock c
  | .noCheck c => .clock c
  | .cdc _ o => .clock o
  | .memPort _ => if out = 2 then .inputs [] else .inputs (n.ins.eraseIdx 6)

structure Graph where
  nodes : Array Node
  /-- port index ↦ (node index, output port of that node) -/
  ports : Array (Nat × Nat)
  deriving Repr, Inhabited

def Graph.node (g : Graph) (i : Nat) : Node := g.nodes.getD i default
def Graph.owner (g : Graph) (p : Nat) : Nat := (g.ports.getD p (0, 0)).1
def Graph.rel (g : Graph) (p : Nat) : Rel :=
  let (n, o) := g.ports.getD p (0, 0)
  (g.node n).rel o

/-- connected drivers of the dependent inputs of port `p`, in input order -/
def Graph.deps (g : Graph) (p : Nat) : List Nat :=
  match g.rel p with
  | .clock _ => []
  | .inputs ds => ds.filterMap id

/-! ## `inferClockDomains` (CDCDetection.cpp:30-119) -/

/-- the three containers of the algorithm: `domains`, `undetermined`, `nodePortsToRetry` -/
structure St where
  dom : Std.HashMap Nat Dom := {}
  und : Std.HashMap Nat (List Nat) := {}
  retry : List Nat := []

def St.get (σ : St) (p : Nat) : Option Dom := σ.dom[p]?
def St.waiting (σ : St) (d : Nat) : List Nat := σ.und.getD d []

/-- `StableSet::insert` -/
def setInsert (x : Nat) (r : List Nat) : List Nat := if x ∈ r then r else x :: r

/-- `assignToCD` (CDCDetection.cpp:43-52) -/
def assign (σ : St) (p : Nat) (v : Dom) : St :=
  if (σ.get p).isSome then σ
  else { σ with dom := σ.dom.insert p v, retry := (σ.waiting p).foldr setInsert σ.retry }

/-- `undetermined[driver].push_back(np)` -/
def St.addWait (σ : St) (d p : Nat) : St := { σ with und := σ.und.insert d (σ.waiting d ++ [p]) }

/-- the `for (auto i : ocr.dependentInputs)` loop (CDCDetection.cpp:82-104); the Boolean is `allConst` -/
def scan (p : Nat) : List (Option Nat) → St → Bool → St × Bool
  | [], σ, ac => (σ, ac)
  | none :: ds, σ, ac => scan p ds σ ac                                   -- `driver.node == nullptr`: continue
  | some d :: ds, σ, ac =>
    match σ.get d with
    | some .const => scan p ds σ ac
    | some v => scan p ds (assign σ p v) false                            -- UNKNOWN / CLOCK: first one wins
    | none => scan p ds (σ.addWait d p) false                             -- `insertIntoUndetermined` is never reset to false

/-- one iteration of the `while (!nodePortsToRetry.empty())` loop for the popped port `p` (CDCDetection.cpp:71-109).
    `isConst()` (no inputs, no clocks) is the `inputs []` case of the generic branch. -/
def process (g : Graph) (σ : St) (p : Nat) : St :=
  match g.rel p with
  | .clock none => assign σ p .unknown
  | .clock (some c) => assign σ p (.clock c)
  | .inputs ds =>
    let r := scan p ds σ true
    if r.2 then assign r.1 p .const else r.1

def St.pop (σ : St) (p : Nat) : St := { σ with retry := σ.retry.filter (· != p) }

/-- All executions of `inferClockDomains`: `order` is the list of ports in the order the two nested `for` loops
    visit them (node storage order); inside `attemptResolve` *any* member of the retry set may be taken next. -/
inductive Run (g : Graph) : List Nat → St → St → Prop where
  | done {σ : St} : σ.retry = [] → Run g [] σ σ
  | next {σ σ' : St} {np : Nat} {rest : List Nat} :
      σ.retry = [] → Run g rest { σ with retry := [np] } σ' → Run g (np :: rest) σ σ'
  | pop {σ σ' : St} {p : Nat} {order : List Nat} :
      p ∈ σ.retry → Run g order (process g (σ.pop p) p) σ' → Run g order σ σ'

/-- `*nodePortsToRetry.begin()`: smallest element in `StableCompare<NodePort>` order = smallest port index -/
def minOf : List Nat → Nat
  | [] => 0
  | [x] => x
  | x :: r => min x (minOf r)

/-- the `while` loop of `attemptResolve` as the code runs it (smallest element first); `none` = out of fuel -/
def attemptLoop (g : Graph) : Nat → St → Option St
  | 0, _ => none
  | f+1, σ =>
    if σ.retry.isEmpty then some σ
    else
      let p := minOf σ.retry
      attemptLoop g f (process g (σ.pop p) p)

/-- the executable algorithm: ports in `order`, retry set served smallest-first -/
def inferFrom (g : Graph) (fuel : Nat) : List Nat → St → Option St
  | [], σ => some σ
  | np :: rest, σ =>
    match attemptLoop g fuel { σ with retry := [np] } with
    | none => none
    | some σ' => inferFrom g fuel rest σ'

def infer (g : Graph) (fuel : Nat) (order : List Nat) : Option St := inferFrom g fuel order {}

/-- the result map read the way `detectUnguardedCDCCrossings` reads it: missing entry ⇒ CONSTANT (CDCDetection.cpp:134-138) -/
def St.total (σ : St) (p : Nat) : Dom := (σ.get p).getD .const

/-! ## Denotational domain -/

def firstNonConst : List Dom → Dom
  | [] => .const
  | .const :: r => firstNonConst r
  | v :: _ => v

/-- the domain of a port by recursion over the graph: own clock, else the first non-constant dependent input -/
def domF (g : Graph) : Nat → Nat → Dom
  | 0, _ => .const
  | f+1, p =>
    match g.rel p with
    | .clock none => .unknown
    | .clock (some c) => .clock c
    | .inputs ds => firstNonConst ((ds.filterMap id).map (domF g f))

def dom (g : Graph) (p : Nat) : Dom := domF g g.ports.size p

/-! ## The check (`checkValidInputClocks`) -/

/-- the loop of `BaseNode::checkValidInputClocks` (Node.cpp:193-214): `clock` = pin source of the first clock seen,
    `n` = `numUnknowns` -/
def checkLoop (ps : Clk → Clk) : Option Clk → Nat → List Dom → Bool
  | clock, n, [] => !(decide (n > 1) || (decide (n > 0) && clock.isSome))
  | clock, n, .const :: r => checkLoop ps clock n r
  | clock, n, .unknown :: r => checkLoop ps clock (n+1) r
  | none, n, .clock c :: r => checkLoop ps (some (ps c)) n r
  | some q, n, .clock c :: r => if q ≠ ps c then false else checkLoop ps (some q) n r

/-- `inputClocks` as built in `detectUnguardedCDCCrossings` (CDCDetection.cpp:128-140) -/
def inDom (D : Nat → Dom) : Option Nat → Dom
  | none => .const
  | some d => D d

def Node.inDoms (n : Node) (D : Nat → Dom) : List Dom := n.ins.map (inDom D)

/-- `n->checkValidInputClocks(inputClocks)` -/
def Node.check (ps : Clk → Clk) (D : Nat → Dom) (n : Node) : Bool :=
  match n.kind with
  | .plain none => checkLoop ps none 0 (n.inDoms D)
  | .plain (some c) => checkLoop ps (c.map ps) 0 (n.inDoms D)
  | .memPort c => checkLoop ps (c.map ps) 0 (n.inDoms D)
  | .noCheck _ => true
  | .cdc i _ =>
    match (n.inDoms D).headD .const with
    | .const => true
    | .unknown => false
    | .clock c => ps c == ps i

/-- indices of the nodes for which `detectionCallback` is invoked -/
def Graph.flagged (g : Graph) (ps : Clk → Clk) (D : Nat → Dom) : List Nat :=
  (List.range g.nodes.size).filter fun i => !(g.node i).check ps D

/-- `Circuit::postprocess` throws iff some node is flagged -/
def Graph.rejects (g : Graph) (ps : Clk → Clk) (D : Nat → Dom) : Bool := !(g.flagged ps D).isEmpty

end Gatery.C12
