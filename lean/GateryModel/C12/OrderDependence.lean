import GateryModel.C12.LemmasDom
import GateryModel.C12.LemmasInfer
/-!
# C12 — the inferred *map* depends on the node order (only the verdict does not)

`exOD`: port 0 = register on clock 0, port 1 = register on clock 1, port 2 = a gate reading both (inputs in this order).
Visited `0,1,2` the gate gets clock 0 (= `dom`); visited `1,2,0` it gets clock 1: when the gate is tried, input 0 is not yet
known, input 1 is, and "the first known non-constant input wins" (CDCDetection.cpp:87-98); the later retry finds the gate
already assigned (CDCDetection.cpp:44).
-/
namespace Gatery.C12
open Std

def exOD : Graph :=
  { nodes := #[⟨.plain (some (some 0)), []⟩, ⟨.plain (some (some 1)), []⟩, ⟨.plain none, [some 0, some 1]⟩],
    ports := #[(0, 0), (1, 0), (2, 0)] }

theorem exOD_rel0 : exOD.rel 0 = .clock (some 0) := by decide
theorem exOD_rel1 : exOD.rel 1 = .clock (some 1) := by decide
theorem exOD_rel2 : exOD.rel 2 = .inputs [some 0, some 1] := by decide

theorem exOD_infer_120 : ∃ σ, infer exOD 4 [1, 2, 0] = some σ ∧ σ.total 2 = .clock 1 := by
  simp [infer, inferFrom, attemptLoop, minOf, St.pop, process, exOD_rel0, exOD_rel1, exOD_rel2, scan, assign, St.get,
    St.waiting, St.addWait, St.total, setInsert, HashMap.getD_insert, HashMap.getElem_insert, HashMap.mem_insert]

theorem exOD_infer_012 : ∃ σ, infer exOD 4 [0, 1, 2] = some σ ∧ σ.total 2 = .clock 0 := by
  simp [infer, inferFrom, attemptLoop, minOf, St.pop, process, exOD_rel0, exOD_rel1, exOD_rel2, scan, assign, St.get,
    St.waiting, St.total, HashMap.getElem_insert, HashMap.mem_insert]

theorem exOD_dom : dom exOD 2 = .clock 0 := by decide

theorem exOD_wf : exOD.Closed ∧ exOD.Acyclic :=
  ⟨closed_of_closedB (by decide), acyclic_of_rankedB (r := fun p => if p = 2 then 1 else 0) (by decide)⟩

end Gatery.C12
