import GateryModel.C12.Model
/-!
# C12 — specification: crossings as paths

Independent of the inference: which clocked sources can reach which node inputs without passing a register, pin or
crossing marker, and when that constitutes an (unmarked or wrongly marked) clock-domain crossing.
-/
namespace Gatery.C12

/-- the domain a clocked output port (register, pin, CDC marker output, …) emits: its clock, `unknown` if the clock slot is
    empty; `const` for ports that are not sources -/
def Graph.label (g : Graph) (s : Nat) : Dom :=
  match g.rel s with
  | .clock none => .unknown
  | .clock (some c) => .clock c
  | .inputs _ => .const

def Graph.isSource (g : Graph) (s : Nat) : Prop := ∃ c, g.rel s = .clock c

/-- `Reach g s p`: there is a marker-free (and register-free) path from the source port `s` to port `p`, i.e. a chain
    `s = q₀, q₁, …, qₖ = p` in which every `qᵢ₊₁` is a combinational output that depends on an input driven by `qᵢ`.
    (Paths cannot run through a register, pin or marker: their outputs depend on no input.) -/
inductive Reach (g : Graph) (s : Nat) : Nat → Prop where
  | src : g.isSource s → Reach g s s
  | step {d p : Nat} : Reach g s d → d ∈ g.deps p → Reach g s p

/-- two domains may meet: constants meet anything, clocks meet clocks of the same pin source, an unknown domain
    (clocked node without clock) meets nothing, not even another unknown -/
def compatB (ps : Clk → Clk) : Dom → Dom → Bool
  | .const, _ => true
  | _, .const => true
  | .clock a, .clock b => ps a == ps b
  | _, _ => false

def compat (ps : Clk → Clk) (a b : Dom) : Prop := compatB ps a b = true

/-- same domain (an equivalence): used to compare inferred maps -/
def simB (ps : Clk → Clk) : Dom → Dom → Bool
  | .const, .const => true
  | .unknown, .unknown => true
  | .clock a, .clock b => ps a == ps b
  | _, _ => false

def sim (ps : Clk → Clk) (a b : Dom) : Prop := simB ps a b = true

/-- the clock a node is itself bound to, as far as `checkValidInputClocks` looks at it -/
def Node.ownClock (n : Node) : Option Clk :=
  match n.kind with
  | .plain (some (some b)) => some b
  | .memPort (some b) => some b
  | _ => none

/-- nodes checked by `BaseNode::checkValidInputClocks` -/
def Node.baseChecked (n : Node) : Prop :=
  match n.kind with
  | .plain _ => True
  | .memPort _ => True
  | _ => False

/-- the domain `l` of some source arrives at input port `i` of node `n` over a marker-free path -/
def Arrives (g : Graph) (n : Node) (i : Nat) (l : Dom) : Prop :=
  ∃ d s, n.ins[i]? = some (some d) ∧ Reach g s d ∧ g.label s = l

/-- a crossing at node `n` -/
inductive Violation (g : Graph) (ps : Clk → Clk) (n : Node) : Prop where
  /-- a register / pin / memory port of clock `b` is reached by a signal of another domain -/
  | sink (b : Clk) (i : Nat) (l : Dom) : n.ownClock = some b → Arrives g n i l → ¬ compat ps l (.clock b) → Violation g ps n
  /-- signals of two different domains are combined (arrive at two different inputs of one node) -/
  | mix (i j : Nat) (l₁ l₂ : Dom) : n.baseChecked → i ≠ j → Arrives g n i l₁ → Arrives g n j l₂ → ¬ compat ps l₁ l₂ → Violation g ps n
  /-- a crossing marker declared for input clock `ic` is fed from another domain -/
  | marker (ic : Clk) (oc : Option Clk) (l : Dom) : n.kind = .cdc ic oc → Arrives g n 0 l → ¬ compat ps l (.clock ic) → Violation g ps n

/-- the design contains an unmarked or wrongly marked clock-domain crossing -/
def Crossing (g : Graph) (ps : Clk → Clk) : Prop := ∃ k, k < g.nodes.size ∧ Violation g ps (g.node k)

/-! ## Well-formedness of graphs -/

/-- all references are in range -/
def Graph.Closed (g : Graph) : Prop :=
  (∀ p, p < g.ports.size → g.owner p < g.nodes.size) ∧
  (∀ k, k < g.nodes.size → ∀ d, some d ∈ (g.node k).ins → d < g.ports.size)

/-- the dependency relation between ports is acyclic: there is a rank (e.g. the depth) that decreases along `deps`.
    Every finite DAG has such a rank bounded by its size (a topological numbering is one, with `r = id`). -/
def Graph.Acyclic (g : Graph) : Prop :=
  ∃ r : Nat → Nat, ∀ p, p < g.ports.size → r p < g.ports.size ∧ ∀ d, d ∈ g.deps p → r d < r p

/-- `D` is a fixed point of the inference rules: a clocked port has its clock; a combinational port is CONSTANT if all
    its connected dependent inputs are, otherwise it has the domain of *one of* its non-constant dependent inputs. -/
def Admissible (g : Graph) (D : Nat → Dom) : Prop :=
  ∀ p, p < g.ports.size →
    match g.rel p with
    | .clock none => D p = .unknown
    | .clock (some c) => D p = .clock c
    | .inputs _ => (D p = .const ∧ ∀ d, d ∈ g.deps p → D d = .const) ∨ (D p ≠ .const ∧ ∃ d, d ∈ g.deps p ∧ D d = D p)

/-- a fixed point in which, moreover, every non-constant domain really comes from a source over a marker-free path.
    On acyclic graphs every fixed point is grounded (`grounded_of_acyclic`); on graphs with (undriven) signal loops — the
    frontend produces them — a fixed point could justify a domain around a loop, which the algorithm never does. -/
def Grounded (g : Graph) (D : Nat → Dom) : Prop :=
  Admissible g D ∧ ∀ p, p < g.ports.size → D p ≠ .const → ∃ s, Reach g s p ∧ g.label s = D p

/-- every clocked node has its clock bound (what the frontend produces inside a `ClockScope`) -/
def Graph.NoUnknown (g : Graph) : Prop := ∀ p, p < g.ports.size → g.rel p ≠ .clock none

/-! ### decidable versions (used by the driver on every dumped graph and by the non-vacuity examples; soundness in `LemmasDom`) -/

def Graph.closedB (g : Graph) : Bool :=
  (List.range g.ports.size).all (fun p => decide (g.owner p < g.nodes.size)) &&
  (List.range g.nodes.size).all (fun k => (g.node k).ins.all fun o =>
    match o with
    | some d => decide (d < g.ports.size)
    | none => true)

/-- `r` is a rank for `g` -/
def Graph.rankedB (g : Graph) (r : Nat → Nat) : Bool :=
  (List.range g.ports.size).all fun p => decide (r p < g.ports.size) && (g.deps p).all fun d => decide (r d < r p)

def Graph.noUnknownB (g : Graph) : Bool :=
  (List.range g.ports.size).all fun p => decide (g.rel p ≠ .clock none)

end Gatery.C12
