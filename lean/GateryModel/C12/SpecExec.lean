import GateryModel.C12.Spec
/-!
# C12 — executable decision procedure for `Crossing` (used by the driver as the property oracle)

Independent of the inference: for every port the *set* of labels of all sources that reach it over a marker-free path
(union over all dependent inputs — no "first one wins"), then `Violation` evaluated literally.  Not proved equal to
`Crossing`; the driver cross-checks it on every graph against the model verdict, which `verdict_iff_crossing` ties to `Crossing`.
-/
namespace Gatery.C12

/-- depth of every port in the dependency relation (`none` if the relation is cyclic or a reference dangles) -/
def Graph.depths (g : Graph) : Option (Array Nat) := Id.run do
  let n := g.ports.size
  let mut depth : Array Nat := Array.replicate n 0
  for _ in [0:n+1] do
    let mut changed := false
    for p in [0:n] do
      let mut m := 0
      for d in g.deps p do
        let dd := depth.getD d n + 1
        if dd > m then m := dd
      if m > n then m := n
      if m != depth.getD p 0 then
        depth := depth.set! p m
        changed := true
    if !changed then return some depth
  return none

def insertDom (x : Dom) (l : List Dom) : List Dom := if l.contains x then l else x :: l

/-- label sets per port: least fixed point of "a source emits its label, a combinational output collects the labels of
    all its dependent inputs" (ports visited by increasing depth when the graph is acyclic, so two sweeps suffice) -/
def Graph.labelSets (g : Graph) (depth : Option (Array Nat)) : Array (List Dom) := Id.run do
  let n := g.ports.size
  let order := match depth with
    | some dp => (Array.range n).qsort (fun a b => dp.getD a 0 < dp.getD b 0)
    | none => Array.range n
  let mut ls : Array (List Dom) := Array.replicate n []
  for _ in [0:n+2] do
    let mut changed := false
    for p in order do
      match g.rel p with
      | .clock _ =>
        if (ls.getD p []).isEmpty then
          ls := ls.set! p [g.label p]
          changed := true
      | .inputs _ =>
        let old := ls.getD p []
        let mut acc : List Dom := old
        for d in g.deps p do
          for l in ls.getD d [] do
            acc := insertDom l acc
        if acc.length != old.length then
          ls := ls.set! p acc
          changed := true
    if !changed then return ls
  return ls

def isClock : Dom → Bool
  | .clock _ => true
  | _ => false

/-- `Violation g ps (g.node k)` evaluated on label sets. With `clockOnly` only violations between two *clocks* count
    (a genuine crossing between two clock domains); without it also the hazards of unbound clock slots (an `unknown`
    label is compatible with nothing, not even with itself at another input). -/
def Node.violatesB (n : Node) (ps : Clk → Clk) (ls : Array (List Dom)) (clockOnly : Bool := false) : Bool :=
  let bad (l m : Dom) : Bool := !compatB ps l m && (!clockOnly || (isClock l && isClock m))
  let arr : List (List Dom) := n.ins.map fun | none => [] | some d => ls.getD d []
  let base : Bool := match n.kind with | .plain _ => true | .memPort _ => true | _ => false
  let sink : Bool := match n.ownClock with
    | some b => arr.any fun s => s.any fun l => bad l (.clock b)
    | none => false
  let rec mix : List (List Dom) → Bool
    | [] => false
    | s :: rest => (s.any fun l => rest.any fun t => t.any fun m => bad l m) || mix rest
  let marker : Bool := match n.kind with
    | .cdc ic _ => (arr.headD []).any fun l => bad l (.clock ic)
    | _ => false
  sink || (base && mix arr) || marker

def Graph.crossingB (g : Graph) (ps : Clk → Clk) (ls : Array (List Dom)) (clockOnly : Bool := false) : Bool :=
  (List.range g.nodes.size).any fun k => (g.node k).violatesB ps ls clockOnly

end Gatery.C12
