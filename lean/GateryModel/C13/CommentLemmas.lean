import GateryModel.C13.Comments
/-!
# C13 — every line the comment formatters emit is a VHDL comment line (or blank), for every comment text
-/
namespace Gatery.C13.Comments

/-- blanks, then `--` -/
def Good (l : Line) : Prop := ∃ n x, l = indent n ++ '-' :: '-' :: x

theorem commentedLine_good {l : Line} (h : Good l) : commentedLine l = true := by
  obtain ⟨n, x, rfl⟩ := h
  induction n with
  | zero => simp [indent, commentedLine, isBlank]
  | succ n ih =>
    simp only [indent, List.replicate_succ, List.cons_append, commentedLine] at ih ⊢
    simpa [List.dropWhile, isBlank] using ih

theorem Good.append {l : Line} (h : Good l) (s : Line) : Good (l ++ s) := by
  obtain ⟨n, x, rfl⟩ := h
  exact ⟨n, x ++ s, by simp⟩

theorem good_pfx (n : Nat) (s : Line) : Good (indent n ++ pfx ++ s) := ⟨n, ' ' :: s, by simp [pfx]⟩
theorem good_rule (n : Nat) : Good (indent n ++ rule) := ⟨n, List.replicate 46 '-', by simp [rule, List.replicate_succ]⟩
theorem good_hdr (s : Line) : Good (entityHdr ++ s) := ⟨0, _, by simp [indent, entityHdr]; rfl⟩

/-- closed lines are all commented and the open line is `Good` -/
structure Inv (o : Out) : Prop where
  done : ∀ l ∈ o.done, commentedLine l = true
  cur : Good o.cur

/-- closed lines are all commented and so is the open line -/
structure C (o : Out) : Prop where
  done : ∀ l ∈ o.done, commentedLine l = true
  cur : commentedLine o.cur = true

theorem Inv.toC {o : Out} (h : Inv o) : C o := ⟨h.done, commentedLine_good h.cur⟩
theorem C.empty : C {} := ⟨(by intro l hl; cases hl), rfl⟩
theorem C.endl {o : Out} (h : C o) : C o.endl :=
  ⟨by intro l hl; simp only [Out.endl, List.mem_cons] at hl; rcases hl with rfl | hl; exact h.cur; exact h.done l hl, rfl⟩
theorem C.putGood {o : Out} (h : C o) {s : Line} (hg : Good (o.cur ++ s)) : Inv (o.put s) := ⟨h.done, hg⟩
theorem Inv.put {o : Out} (h : Inv o) (s : Line) : Inv (o.put s) := ⟨h.done, h.cur.append s⟩
theorem C.lines {o : Out} (h : C o) : ∀ l ∈ o.lines, commentedLine l = true := by
  intro l hl
  simp only [Out.lines, List.mem_reverse, List.mem_cons] at hl
  rcases hl with rfl | hl
  · exact h.cur
  · exact h.done l hl

theorem copyComment_inv (n : Nat) (cs : List Char) (o : Out) (h : Inv o) : Inv (copyComment (indent n ++ pfx) cs o) := by
  induction cs generalizing o with
  | nil => exact h
  | cons c cs ih =>
    simp only [copyComment]
    split
    · exact ih _ (h.toC.endl.putGood (by simpa [Out.endl] using good_pfx n []))
    · split
      · exact ih o h
      · exact ih _ (h.put _)

theorem entity_commented (entityName comment : List Char) :
    ∀ l ∈ (formatEntityComment {} entityName comment).lines, commentedLine l = true := by
  have h0 : Inv (((({} : Out).put rule).endl.put (entityHdr ++ entityName)).endl.put pfx) :=
    (((C.empty.putGood (good_rule 0)).toC.endl.putGood (good_hdr entityName)).toC.endl).putGood (good_pfx 0 [])
  have h1 := copyComment_inv 0 comment _ h0
  exact (((h1.toC.endl.putGood (good_rule 0)).toC.endl).endl).lines

theorem block_commented (comment : List Char) :
    ∀ l ∈ (formatBlockComment {} comment).lines, commentedLine l = true := by
  unfold formatBlockComment
  split
  · exact C.empty.lines
  · have h0 : Inv ((((({} : Out).put (indent 1)).put rule).endl.put (indent 1)).put pfx) := by
      have a : Inv ((({} : Out).put (indent 1)).put rule) := ⟨(by intro l hl; cases hl), by simpa [Out.put] using good_rule 1⟩
      exact ⟨a.toC.endl.done, by simpa [Out.put, Out.endl] using good_pfx 1 []⟩
    have h1 := copyComment_inv 1 comment _ h0
    have h2 : Inv (((copyComment (indent 1 ++ pfx) comment _).endl.put (indent 1)).put rule) :=
      ⟨h1.toC.endl.done, by simpa [Out.put, Out.endl] using good_rule 1⟩
    exact h2.toC.endl.lines

theorem process_commented (indentation : Nat) (comment : List Char) :
    ∀ l ∈ (formatProcessComment {} indentation comment).lines, commentedLine l = true := by
  unfold formatProcessComment
  split
  · exact C.empty.lines
  · have h0 : Inv ((({} : Out).put (indent indentation)).put pfx) :=
      ⟨(by intro l hl; cases hl), by simpa [Out.put] using good_pfx indentation []⟩
    exact (copyComment_inv indentation comment _ h0).toC.endl.lines

/-- invariant of the lazy-header loop: closed lines commented; the open line is commented, and `Good` once a header was written -/
theorem copyCodeComment_inv (n : Nat) (cs : List Char) (hdr : Bool) (o : Out)
    (hd : ∀ l ∈ o.done, commentedLine l = true) (hc : commentedLine o.cur = true) (hg : hdr = false → Good o.cur) :
    let r := copyCodeComment n cs hdr o
    (∀ l ∈ r.done, commentedLine l = true) ∧ commentedLine r.cur = true := by
  induction cs generalizing hdr o with
  | nil => exact ⟨hd, hc⟩
  | cons c cs ih =>
    simp only [copyCodeComment]
    split
    · exact ih true o hd hc (by simp)
    · split
      · exact ih hdr o hd hc hg
      · split
        · have hgood : Good (((o.endl.put (indent n)).put pfx).put [c]).cur := by
            simpa [Out.endl, Out.put] using good_pfx n [c]
          refine ih false _ ?_ (commentedLine_good hgood) (fun _ => hgood)
          intro l hl
          simp only [Out.endl, Out.put, List.mem_cons] at hl
          rcases hl with rfl | hl
          · exact hc
          · exact hd l hl
        · rename_i hh
          have hg' : Good o.cur := hg (by simpa using hh)
          exact ih false _ hd (commentedLine_good (hg'.append _)) (fun _ => hg'.append _)

theorem code_commented (indentation : Nat) (comment : List Char) :
    ∀ l ∈ (formatCodeComment {} indentation comment).lines, commentedLine l = true := by
  unfold formatCodeComment
  split
  · exact C.empty.lines
  · have h := copyCodeComment_inv indentation comment true {} (by intro l hl; cases hl) rfl (by simp)
    exact (C.endl ⟨h.1, h.2⟩).lines

end Gatery.C13.Comments
