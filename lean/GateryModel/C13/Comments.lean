/-!
# C13 — model of the comment formatters of `DefaultCodeFormatting` (export/vhdl/CodeFormatting.cpp:147-247)

User comments (entity/area comments set with `GroupScope::setComment`, node comments set with `HCL_COMMENT`) are copied into
the VHDL text by four small loops. They are modelled as written, on characters; the output is kept as a list of *lines*
(`std::endl` / `'\n'` closes the current line), the text the C++ writes is `"\n".intercalate lines` (the last line is the
still-open one). `indent n` = `n` copies of `m_indentation = "\t"` (CodeFormatting.cpp:29-33,37).

The property-relevant statement: whatever characters the comment contains, every emitted line is blank or starts (after
blanks) with `--`, i.e. no character of a user comment can be lexed as VHDL code (`*_commented` in `CommentLemmas`).
Assumption made explicit: the only line terminator is `'\n'` (`'\r'` is dropped by the code; VT/FF, which VHDL also treats as
end of line, are passed through and not generated).
-/
namespace Gatery.C13.Comments

abbrev Line := List Char

/-- output under construction: closed lines (most recent first) and the open line -/
structure Out where
  done : List Line := []
  cur : Line := []
  deriving Repr

def Out.put (o : Out) (s : Line) : Out := { o with cur := o.cur ++ s }
/-- `stream << std::endl` -/
def Out.endl (o : Out) : Out := { done := o.cur :: o.done, cur := [] }
def Out.lines (o : Out) : List Line := (o.cur :: o.done).reverse
def Out.text (o : Out) : String := "\n".intercalate (o.lines.map String.ofList)

def indent (n : Nat) : Line := List.replicate n '\t'
/-- the 48 dashes of the separator lines -/
def rule : Line := List.replicate 48 '-'
def pfx : Line := ['-', '-', ' ']
/-- `"--  Entity: "` -/
def entityHdr : Line := ['-', '-', ' ', ' ', 'E', 'n', 't', 'i', 't', 'y', ':', ' ']

/-- the common loop: `'\n'` ↦ endl + `lead`, `'\r'` ↦ nothing, other ↦ the character -/
def copyComment (lead : Line) : List Char → Out → Out
  | [], o => o
  | c :: cs, o =>
    if c = '\n' then copyComment lead cs (o.endl.put lead)
    else if c = '\r' then copyComment lead cs o
    else copyComment lead cs (o.put [c])

/-- `formatEntityComment` (CodeFormatting.cpp:147-167) -/
def formatEntityComment (o : Out) (entityName comment : List Char) : Out :=
  let o := ((o.put rule).endl.put (entityHdr ++ entityName)).endl.put pfx
  let o := copyComment pfx comment o
  ((o.endl.put rule).endl).endl

/-- `formatBlockComment` (CodeFormatting.cpp:169-197) -/
def formatBlockComment (o : Out) (comment : List Char) : Out :=
  if comment.isEmpty then o else
  let o := ((o.put (indent 1)).put rule).endl
  let o := (o.put (indent 1)).put pfx
  let o := copyComment (indent 1 ++ pfx) comment o
  let o := o.endl
  ((o.put (indent 1)).put rule).endl

/-- `formatProcessComment` (CodeFormatting.cpp:199-221) -/
def formatProcessComment (o : Out) (indentation : Nat) (comment : List Char) : Out :=
  if comment.isEmpty then o else
  let o := (o.put (indent indentation)).put pfx
  (copyComment (indent indentation ++ pfx) comment o).endl

/-- loop of `formatCodeComment`: the header (`endl`, indentation, `-- `) is written lazily before the first character of a line -/
def copyCodeComment (indentation : Nat) : List Char → Bool → Out → Out
  | [], _, o => o
  | c :: cs, hdr, o =>
    if c = '\n' then copyCodeComment indentation cs true o
    else if c = '\r' then copyCodeComment indentation cs hdr o
    else if hdr then copyCodeComment indentation cs false (((o.endl.put (indent indentation)).put pfx).put [c])
    else copyCodeComment indentation cs false (o.put [c])

/-- `formatCodeComment` (CodeFormatting.cpp:223-247) -/
def formatCodeComment (o : Out) (indentation : Nat) (comment : List Char) : Out :=
  if comment.isEmpty then o else
  (copyCodeComment indentation comment true o).endl

/-! ## specification -/

def isBlank (c : Char) : Bool := c = ' ' || c = '\t'

/-- a line that a VHDL lexer skips entirely: only blanks, or blanks followed by `--` -/
def commentedLine (l : Line) : Bool :=
  match l.dropWhile isBlank with
  | [] => true
  | '-' :: '-' :: _ => true
  | _ => false

end Gatery.C13.Comments
