import GateryModel.C13.Model
/-!
# C13 — lemmas about the allocator model: identifier shape, injectivity of the duplicate suffix, termination of the retry loop
-/
namespace Gatery.C13

/-! ## characters -/

theorem isAlnumB_upperB (c : Nat) : isAlnumB (upperB c) = isAlnumB c := by
  unfold isAlnumB isLetterB isUpperB isLowerB isDigitB upperB
  rw [Bool.eq_iff_iff]
  split <;> simp only [Bool.or_eq_true, decide_eq_true_eq] <;> omega

theorem isLetterB_upperB (c : Nat) : isLetterB (upperB c) = isLetterB c := by
  unfold isLetterB isUpperB isLowerB upperB
  rw [Bool.eq_iff_iff]
  split <;> simp only [Bool.or_eq_true, decide_eq_true_eq] <;> omega

theorem upperB_eq_us (c : Nat) : (upperB c = 95) ↔ (c = 95) := by
  unfold upperB; split <;> omega

theorem isLetter_alnum {c : Nat} (h : isLetterB c = true) : isAlnumB c = true := by
  simp [isAlnumB, h]

theorem lowerB_digit {c : Nat} (h : isDigitB c = true) : lowerB c = c := by
  unfold isDigitB at h; unfold lowerB; simp at h; split <;> omega

theorem lowerB_us : lowerB 95 = 95 := by decide

/-! ## identifier shape -/

theorem idRest_append {u : Bool} {a b : Name} (ha : idRest u a = true) (hb : idRest false b = true) :
    idRest u (a ++ b) = true := by
  induction a generalizing u with
  | nil => cases u <;> simp_all [idRest]
  | cons c cs ih =>
    simp only [idRest, List.cons_append] at ha ⊢
    split
    · rename_i h; rw [if_pos h] at ha; exact ih ha
    · rename_i h; rw [if_neg h] at ha
      split
      · rename_i h2; rw [if_pos h2] at ha; exact ih ha
      · rename_i h2; rw [if_neg h2] at ha; exact absurd ha (by simp)

theorem idRest_append_us {u : Bool} {a b : Name} (ha : idRest u a = true) :
    idRest u (a ++ 95 :: b) = idRest true b := by
  induction a generalizing u with
  | nil => cases u <;> simp_all [idRest, isAlnumB, isLetterB, isUpperB, isLowerB, isDigitB]
  | cons c cs ih =>
    simp only [idRest, List.cons_append] at ha ⊢
    split
    · rename_i h; rw [if_pos h] at ha; exact ih ha
    · rename_i h; rw [if_neg h] at ha
      split
      · rename_i h2; rw [if_pos h2] at ha; exact ih ha
      · rename_i h2; rw [if_neg h2] at ha; exact absurd ha (by simp)

theorem idRest_of_basic {n : Name} (h : isBasicId n = true) (u : Bool) : idRest u n = true := by
  cases n with
  | nil => simp [isBasicId] at h
  | cons c cs =>
    simp only [isBasicId, Bool.and_eq_true] at h
    simp [idRest, isLetter_alnum h.1, h.2]

theorem isBasicId_append {a b : Name} (ha : isBasicId a = true) (hb : idRest false b = true) :
    isBasicId (a ++ b) = true := by
  cases a with
  | nil => simp [isBasicId] at ha
  | cons c cs =>
    simp only [isBasicId, Bool.and_eq_true, List.cons_append] at ha ⊢
    exact ⟨ha.1, idRest_append ha.2 hb⟩

/-- `q_` ++ n for identifiers `q`, `n` -/
theorem isBasicId_prefix {q n : Name} (hq : isBasicId q = true) (hn : isBasicId n = true) :
    isBasicId (q ++ 95 :: n) = true := by
  cases q with
  | nil => simp [isBasicId] at hq
  | cons c cs =>
    simp only [isBasicId, Bool.and_eq_true, List.cons_append] at hq ⊢
    refine ⟨hq.1, ?_⟩
    rw [idRest_append_us hq.2]
    exact idRest_of_basic hn true

theorem idRest_upper (u : Bool) (n : Name) : idRest u (upper n) = idRest u n := by
  induction n generalizing u with
  | nil => simp [upper, idRest]
  | cons c cs ih =>
    simp only [upper, List.map_cons, idRest] at ih ⊢
    simp only [isAlnumB_upperB, upperB_eq_us, ih]

theorem isBasicId_upper (n : Name) : isBasicId (upper n) = isBasicId n := by
  cases n with
  | nil => simp [upper, isBasicId]
  | cons c cs =>
    have := idRest_upper false cs
    simp only [upper] at this
    simp only [upper, List.map_cons, isBasicId, isLetterB_upperB, this]

/-! ## decimal rendering -/

def allDigits (l : Name) : Prop := ∀ c ∈ l, isDigitB c = true

theorem decF_digits (f n : Nat) : allDigits (decF f n) := by
  induction f generalizing n with
  | zero => intro c hc; simp [decF] at hc
  | succ f ih =>
    intro c hc
    simp only [decF] at hc
    split at hc
    · simp at hc; subst hc; simp [isDigitB]; omega
    · simp at hc
      rcases hc with hc | hc
      · exact ih _ c hc
      · subst hc; simp [isDigitB]; omega

theorem decF_ne_nil (f n : Nat) : decF (f + 1) n ≠ [] := by
  simp only [decF]; split <;> simp

theorem dec_digits (n : Nat) : allDigits (dec n) := decF_digits _ _
theorem dec_ne_nil (n : Nat) : dec n ≠ [] := decF_ne_nil _ _

theorem idRest_digits {l : Name} (h : allDigits l) (hne : l ≠ []) (u : Bool) : idRest u l = true := by
  induction l generalizing u with
  | nil => exact absurd rfl hne
  | cons c cs ih =>
    have hc : isAlnumB c = true := by simp [isAlnumB, h c (List.mem_cons_self)]
    simp only [idRest, hc, if_true]
    cases cs with
    | nil => simp [idRest]
    | cons d ds => exact ih (fun x hx => h x (List.mem_cons_of_mem _ hx)) (by simp) false

theorem lower_digits {l : Name} (h : allDigits l) : lower l = l := by
  induction l with
  | nil => rfl
  | cons c cs ih =>
    simp only [lower, List.map_cons] at ih ⊢
    rw [lowerB_digit (h c List.mem_cons_self), ih (fun x hx => h x (List.mem_cons_of_mem _ hx))]

/-- value of a digit string -/
def undec (l : Name) : Nat := l.foldl (fun a d => 10 * a + (d - 48)) 0

theorem undec_append_single (l : Name) (d : Nat) : undec (l ++ [d]) = 10 * undec l + (d - 48) := by
  simp [undec, List.foldl_append]

theorem undec_decF (f n : Nat) (h : n < f) : undec (decF f n) = n := by
  induction f generalizing n with
  | zero => omega
  | succ f ih =>
    simp only [decF]
    split
    · simp [undec]
    · rw [undec_append_single, ih (n / 10) (by omega)]; omega

theorem dec_inj {a b : Nat} (h : dec a = dec b) : a = b := by
  have ha := undec_decF (a + 1) a (by omega)
  have hb := undec_decF (b + 1) b (by omega)
  unfold dec at h
  rw [h] at ha; omega

/-! ## formatDuplicateName -/

theorem lower_append (a b : Name) : lower (a ++ b) = lower a ++ lower b := by simp [lower]

theorem lower_formatDuplicateName (n : Name) (k : Nat) :
    lower (formatDuplicateName n k) = if k = 0 then lower n else lower n ++ 95 :: dec (k + 1) := by
  unfold formatDuplicateName
  split
  · rfl
  · rw [lower_append]
    have : lower (95 :: dec (k + 1)) = 95 :: dec (k + 1) := by
      have := lower_digits (dec_digits (k + 1))
      simp only [lower, List.map_cons, lowerB_us] at this ⊢
      rw [this]
    rw [this]

/-- different attempts give names that differ even ignoring case -/
theorem lower_formatDuplicateName_inj {n : Name} {a b : Nat}
    (h : lower (formatDuplicateName n a) = lower (formatDuplicateName n b)) : a = b := by
  rw [lower_formatDuplicateName, lower_formatDuplicateName] at h
  by_cases ha : a = 0 <;> by_cases hb : b = 0 <;> simp [ha, hb] at h
  · omega
  · have := dec_inj h; omega

theorem isBasicId_formatDuplicateName {n : Name} (h : isBasicId n = true) (k : Nat) :
    isBasicId (formatDuplicateName n k) = true := by
  unfold formatDuplicateName
  split
  · exact h
  · apply isBasicId_append h
    have hd : idRest true (dec (k + 1)) = true := idRest_digits (dec_digits _) (dec_ne_nil _) true
    simp [idRest, isAlnumB, isLetterB, isUpperB, isLowerB, isDigitB, hd]

/-! ## per-kind decoration keeps the identifier shape -/

theorem orDefault_of_basic {d : Name} (h : isBasicId d = true) (s : String) : orDefault d s = d := by
  cases d with
  | nil => simp [isBasicId] at h
  | cons c cs => simp [orDefault]

theorem isBasicId_initialName (k : Kind) {d : Name} (h : isBasicId d = true) : isBasicId (initialName k d) = true := by
  have pre : ∀ q : Name, isBasicId q = true → ∀ n, isBasicId n = true → isBasicId ((q ++ [95]) ++ n) = true := by
    intro q hq n hn
    have := isBasicId_prefix hq hn
    simpa using this
  cases k with
  | signal t =>
    simp only [initialName, getSignalName, orDefault_of_basic h]
    cases t
    · exact pre (bytes "in") (by decide) d h
    · exact pre (bytes "out") (by decide) d h
    · exact pre (bytes "c_in") (by decide) d h
    · exact pre (bytes "c_out") (by decide) d h
    · exact pre (bytes "r_in") (by decide) d h
    · exact pre (bytes "r_out") (by decide) d h
    · exact h
    · exact pre (bytes "s") (by decide) d h
    · exact pre (bytes "v") (by decide) d h
    · exact pre (bytes "C") (by decide) (upper d) (by rw [isBasicId_upper]; exact h)
  | process c =>
    simp only [initialName, orDefault_of_basic h]
    apply isBasicId_append h
    cases c <;> decide
  | clock => simpa [initialName, orDefault_of_basic h] using h
  | reset => simpa [initialName, orDefault_of_basic h] using h
  | ioPin => simpa [initialName, orDefault_of_basic h] using h
  | package => simpa [initialName, orDefault_of_basic h] using h
  | entity => simpa [initialName, orDefault_of_basic h] using h
  | block => simpa [initialName, orDefault_of_basic h] using h
  | «instance» => simpa [initialName, orDefault_of_basic h] using h

/-! ## the retry loop -/

theorem findFree_spec {used : Name → Bool} {initial : Name} {f k k' : Nat} {n : Name}
    (h : findFree used initial f k = some (k', n)) :
    n = formatDuplicateName initial k' ∧ used (lower n) = false ∧ k ≤ k' := by
  induction f generalizing k with
  | zero => simp [findFree] at h
  | succ f ih =>
    simp only [findFree] at h
    split at h
    · have := ih h; exact ⟨this.1, this.2.1, by omega⟩
    · rename_i hu
      simp at h
      obtain ⟨rfl, rfl⟩ := h
      exact ⟨rfl, by simpa using hu, Nat.le_refl _⟩

/-- Termination: if all names the loop can collide with lie in a list `V`, `V.length + 1` iterations suffice
(every iteration that does not exit removes one more element of `V` from consideration, because different attempts
produce different lower-case names). -/
theorem findFree_total {used : Name → Bool} {initial : Name} (V : List Name) (f k : Nat)
    (hV : ∀ k', k ≤ k' → used (lower (formatDuplicateName initial k')) = true → lower (formatDuplicateName initial k') ∈ V)
    (hf : V.length < f) : (findFree used initial f k).isSome = true := by
  induction f generalizing k V with
  | zero => omega
  | succ f ih =>
    simp only [findFree]
    split
    · rename_i hu
      have hmem := hV k (Nat.le_refl _) hu
      apply ih (V.erase (lower (formatDuplicateName initial k))) (k + 1)
      · intro k' hk' hu'
        have hm := hV k' (by omega) hu'
        have hne : lower (formatDuplicateName initial k') ≠ lower (formatDuplicateName initial k) := by
          intro heq; have := lower_formatDuplicateName_inj heq; omega
        exact (List.mem_erase_of_ne hne).2 hm
      · rw [List.length_erase_of_mem hmem]
        have : 0 < V.length := List.length_pos_of_mem hmem
        omega
    · simp

end Gatery.C13
