import GateryModel.Gen.VhdlKeywords
/-!
# C13 — model of VHDL name allocation (`export/vhdl/NamespaceScope.cpp`, `export/vhdl/CodeFormatting.cpp`)

A *name* is the byte string held by a `std::string` (`List Nat`, every element a byte value). `boost::to_lower_copy` /
`boost::to_upper` run with the global "C" locale of the process, i.e. they map the ASCII letters only (bytes ≥ 128 are
unchanged) — `lowerB` / `upperB`.

Modelled as written:
* `DefaultCodeFormatting::formatDuplicateName` (CodeFormatting.cpp:50-56): attempt 0 ↦ the name itself, attempt k ↦ `name_<k+1>`;
* the per-kind decorations `getSignalName … getInstanceName` (CodeFormatting.cpp:67-144);
* `NamespaceScope` (NamespaceScope.cpp:30-39 constructor inserting the keyword table into *every* scope's `m_namesInUse`;
  :294-301 `isNameInUse` walking the parent chain; :41-64, :90-112, :124-146, :159-181, :193-210, :220-291 the nine
  `allocate*` members, which all consist of the same `do { name = formatDuplicateName(initial, attempt++); lower = to_lower(name); }
  while (isNameInUse(lower));` loop on the per-scope counter `m_nextNameAttempt[initialName]`, then `m_namesInUse.insert(lower)`).

The keyword table is *not* written here: `Gen/VhdlKeywords.lean` is regenerated from the C++ text on every check.

Lean devices that are not in the C++: the retry loop carries a fuel (`visible.length + 1`); `alloc_total` (Lemmas) shows the
fuel is never exhausted, i.e. the loop terminates. The scope tree is given up front as a parent table (`tree[i] = some p`
with `p < i`, as `NamespaceScope(ast, parent)` needs an existing parent); creating a scope only fills its own
`m_namesInUse` with the keywords, so creating all scopes first is observationally the same as creating them lazily.
Not modelled: the `NodePort`/`Clock*`/`Node_Pin*` → declaration maps (`m_nodeNames` …) and their "already allocated"
assertions (harness uses fresh keys), `allocateSupportFileName` (returns the desired name unchanged, "todo" in the code).
-/
namespace Gatery.C13

abbrev Name := List Nat

/-- ASCII bytes of a Lean string (the driver only feeds ASCII). -/
def bytes (s : String) : Name := s.toList.map Char.toNat

def nameToString (n : Name) : String := String.ofList (n.map Char.ofNat)

/-! ## character classes, case mapping -/

def isUpperB (c : Nat) : Bool := decide (65 ≤ c ∧ c ≤ 90)
def isLowerB (c : Nat) : Bool := decide (97 ≤ c ∧ c ≤ 122)
def isLetterB (c : Nat) : Bool := isUpperB c || isLowerB c
def isDigitB (c : Nat) : Bool := decide (48 ≤ c ∧ c ≤ 57)
def isAlnumB (c : Nat) : Bool := isLetterB c || isDigitB c

/-- `std::tolower` in the "C" locale -/
def lowerB (c : Nat) : Nat := if 65 ≤ c ∧ c ≤ 90 then c + 32 else c
/-- `std::toupper` in the "C" locale -/
def upperB (c : Nat) : Nat := if 97 ≤ c ∧ c ≤ 122 then c - 32 else c

/-- `boost::to_lower_copy` -/
def lower (n : Name) : Name := n.map lowerB
/-- `boost::to_upper` -/
def upper (n : Name) : Name := n.map upperB

/-! ## VHDL basic identifiers (IEEE 1076-2008 §15.4.2): `letter { [ underline ] letter_or_digit }`, ASCII letters -/

/-- rest of an identifier; `u` = the previous character was an underline -/
def idRest : Bool → Name → Bool
  | u, [] => !u
  | u, c :: cs => if isAlnumB c then idRest false cs else if c = 95 && !u then idRest true cs else false

def isBasicId : Name → Bool
  | [] => false
  | c :: cs => isLetterB c && idRest false cs

/-! ## VHDL-2008 reserved words (IEEE 1076-2008 §15.10), including the PSL keywords the standard reserves -/

def reserved2008 : List String := [
  "abs", "access", "after", "alias", "all", "and", "architecture", "array", "assert", "assume",
  "assume_guarantee", "attribute",
  "begin", "block", "body", "buffer", "bus",
  "case", "component", "configuration", "constant", "context", "cover",
  "default", "disconnect", "downto",
  "else", "elsif", "end", "entity", "exit",
  "fairness", "file", "for", "force", "function",
  "generate", "generic", "group", "guarded",
  "if", "impure", "in", "inertial", "inout", "is",
  "label", "library", "linkage", "literal", "loop",
  "map", "mod",
  "nand", "new", "next", "nor", "not", "null",
  "of", "on", "open", "or", "others", "out",
  "package", "parameter", "port", "postponed", "procedure", "process", "property", "protected", "pure",
  "range", "record", "register", "reject", "release", "rem", "report", "restrict", "restrict_guarantee",
  "return", "rol", "ror",
  "select", "sequence", "severity", "shared", "signal", "sla", "sll", "sra", "srl", "strong", "subtype",
  "then", "to", "transport", "type",
  "unaffected", "units", "until", "use",
  "variable", "vmode", "vprop", "vunit",
  "wait", "when", "while", "with",
  "xnor", "xor"]

/-- the reserved words as names (all lower case) -/
def reservedNames : List Name := reserved2008.map bytes

/-- reserved in any letter case -/
def isReserved (n : Name) : Bool := reservedNames.contains (lower n)

/-- the table the code inserts into every scope, as names -/
def keywordNames : List Name := Gen.keywordTable.map bytes

/-! ## CodeFormatting -/

/-- decimal digits of `n` (what `%d` prints for a non-negative value); fuel `n+1` always suffices -/
def decF : Nat → Nat → Name
  | 0, _ => []
  | f + 1, n => if n < 10 then [48 + n] else decF f (n / 10) ++ [48 + n % 10]

def dec (n : Nat) : Name := decF (n + 1) n

/-- `DefaultCodeFormatting::formatDuplicateName` (CodeFormatting.cpp:50-56): `boost::format("%s_%d") % name % (attempt+1)` -/
def formatDuplicateName (name : Name) (attempt : Nat) : Name :=
  if attempt = 0 then name else name ++ 95 :: dec (attempt + 1)

/-- `CodeFormatting::SignalType` (CodeFormatting.h:63-74) -/
inductive SigType
  | entityInput | entityOutput | childEntityInput | childEntityOutput | registerInput | registerOutput
  | attributedSignal | localSignal | localVariable | constant
  deriving DecidableEq, Repr

def orDefault (desired : Name) (dflt : String) : Name := if desired.isEmpty then bytes dflt else desired

/-- `DefaultCodeFormatting::getSignalName` (CodeFormatting.cpp:67-87) -/
def getSignalName (desired : Name) (t : SigType) : Name :=
  let i := orDefault desired "unnamed"
  match t with
  | .entityInput => bytes "in_" ++ i
  | .entityOutput => bytes "out_" ++ i
  | .childEntityInput => bytes "c_in_" ++ i
  | .childEntityOutput => bytes "c_out_" ++ i
  | .registerInput => bytes "r_in_" ++ i
  | .registerOutput => bytes "r_out_" ++ i
  | .attributedSignal => i
  | .localSignal => bytes "s_" ++ i
  | .localVariable => bytes "v_" ++ i
  | .constant => bytes "C_" ++ upper i

/-- which `allocate*` member is called -/
inductive Kind
  | signal (t : SigType)      -- allocateName(NodePort, …, SignalType)
  | clock | reset             -- allocateName(Clock*), allocateResetName   (both use getClockName)
  | ioPin                     -- allocateName(Node_Pin*)
  | package | entity          -- root scope only (HCL_ASSERT(m_parent == nullptr))
  | block | process (clocked : Bool) | instance
  deriving DecidableEq, Repr

/-- the `cf.get…Name(desiredName)` call of each `allocate*` (CodeFormatting.cpp:89-144) -/
def initialName (k : Kind) (desired : Name) : Name :=
  match k with
  | .signal t => getSignalName desired t
  | .clock | .reset => orDefault desired "unnamedClock"
  | .ioPin => orDefault desired "unnamedIoPin"
  | .package => orDefault desired "UnnamedPackage"
  | .entity => orDefault desired "UnnamedEntity"
  | .block => orDefault desired "unnamedBlock"
  | .process clocked => orDefault desired "unnamedProcess" ++ bytes (if clocked then "_reg" else "_comb")
  | .instance => orDefault desired "unnamedInstance"

/-! ## NamespaceScope -/

/-- mutable part of one `NamespaceScope` -/
structure ScopeData where
  /-- `m_namesInUse` (lower-cased names; only membership is observable) -/
  inUse : List Name
  /-- `m_nextNameAttempt` -/
  attempts : List (Name × Nat)
  deriving Repr

/-- constructor (NamespaceScope.cpp:30-39): every scope starts with the keyword table -/
def ScopeData.fresh (kw : List Name) : ScopeData := { inUse := kw, attempts := [] }

/-- parent table: `tree[i] = some p` ⇔ scope `i` was constructed with parent `p`; `none` = root (`m_parent == nullptr`) -/
abbrev Tree := List (Option Nat)

/-- parents precede children (a `NamespaceScope` is constructed from an existing parent) -/
def Tree.WF (t : Tree) : Prop := ∀ (i p : Nat), t[i]? = some (some p) → p < i

abbrev State := List ScopeData

def initState (kw : List Name) (t : Tree) : State := t.map (fun _ => ScopeData.fresh kw)

/-- the scope, its parent, … up to the root (`fuel` bounds the walk; `i+1` steps suffice for a well-formed tree) -/
def ancestors (t : Tree) : Nat → Nat → List Nat
  | 0, _ => []
  | f + 1, i => i :: (match t[i]? with
      | some (some p) => ancestors t f p
      | _ => [])

def chain (t : Tree) (i : Nat) : List Nat := ancestors t (i + 1) i

/-- all names `isNameInUse` of scope `i` can find (NamespaceScope.cpp:294-301) -/
def visible (t : Tree) (st : State) (i : Nat) : List Name :=
  (chain t i).flatMap (fun j => match st[j]? with | some s => s.inUse | none => [])

def isNameInUse (t : Tree) (st : State) (i : Nat) (lowerCaseName : Name) : Bool :=
  (visible t st i).contains lowerCaseName

def lookupAttempt (a : List (Name × Nat)) (n : Name) : Nat :=
  match a.find? (fun e => e.1 == n) with
  | some e => e.2
  | none => 0

def setAttempt (a : List (Name × Nat)) (n : Name) (v : Nat) : List (Name × Nat) :=
  (n, v) :: a.filter (fun e => !(e.1 == n))

/-- the `do … while (isNameInUse(lowerCaseName))` loop: returns the attempt that succeeded and the name -/
def findFree (used : Name → Bool) (initial : Name) : Nat → Nat → Option (Nat × Name)
  | 0, _ => none
  | f + 1, k =>
    let name := formatDuplicateName initial k
    if used (lower name) then findFree used initial f (k + 1) else some (k, name)

inductive Res
  | name (n : Name)
  | /-- `HCL_ASSERT` fails (`InternalError`): empty desired name, entity/package name in a non-root scope, no such scope -/
    assertFails
  | /-- Lean device only: fuel of the retry loop exhausted (proved impossible) -/
    loopExhausted
  deriving DecidableEq, Repr

structure Req where
  scope : Nat
  kind : Kind
  desired : Name
  deriving Repr

/-- one `allocate*` call -/
def alloc (t : Tree) (st : State) (r : Req) : State × Res :=
  match st[r.scope]? with
  | none => (st, .assertFails)
  | some sd =>
    if r.desired.isEmpty then (st, .assertFails)                         -- HCL_ASSERT(!desiredName.empty())
    else if (r.kind = .package ∨ r.kind = .entity) ∧ t[r.scope]? ≠ some none then (st, .assertFails)  -- HCL_ASSERT(m_parent == nullptr)
    else
      let initial := initialName r.kind r.desired
      let vis := visible t st r.scope
      match findFree (fun n => vis.contains n) initial (vis.length + 1) (lookupAttempt sd.attempts initial) with
      | none => (st, .loopExhausted)
      | some (k, name) =>
        (st.set r.scope { inUse := lower name :: sd.inUse, attempts := setAttempt sd.attempts initial (k + 1) }, .name name)

/-- a whole request sequence; results in request order -/
def run (t : Tree) : State → List Req → State × List Res
  | st, [] => (st, [])
  | st, r :: rs =>
    let (st1, res) := alloc t st r
    let (st2, out) := run t st1 rs
    (st2, res :: out)

end Gatery.C13
