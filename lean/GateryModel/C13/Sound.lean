import GateryModel.C13.Lemmas
/-!
# C13 — invariant of the allocator over a request sequence
-/
namespace Gatery.C13

/-! ## scope chain -/

/-- `j` is `i` or one of its (transitive) parents -/
inductive Anc (t : Tree) : Nat → Nat → Prop
  | refl (i : Nat) : Anc t i i
  | step {i p j : Nat} : t[i]? = some (some p) → Anc t p j → Anc t i j

theorem self_mem_chain (t : Tree) (i : Nat) : i ∈ chain t i := by
  simp [chain, ancestors]

theorem anc_mem_ancestors {t : Tree} (hwf : t.WF) {i j : Nat} (h : Anc t i j) :
    ∀ f, i < f → j ∈ ancestors t f i := by
  induction h with
  | refl i => intro f hf; cases f with
    | zero => omega
    | succ f => simp [ancestors]
  | step hp _ ih =>
    intro f hf
    cases f with
    | zero => omega
    | succ f =>
      have := hwf _ _ hp
      simp only [ancestors, hp, List.mem_cons]
      exact Or.inr (ih f (by omega))

/-- the fuel of `chain` is enough: for a well-formed parent table `chain` contains every scope `isNameInUse` recurses into -/
theorem chain_complete {t : Tree} (hwf : t.WF) {i j : Nat} (h : Anc t i j) : j ∈ chain t i :=
  anc_mem_ancestors hwf h (i + 1) (by omega)

theorem mem_ancestors_anc {t : Tree} {f i j : Nat} (h : j ∈ ancestors t f i) : Anc t i j := by
  induction f generalizing i with
  | zero => simp [ancestors] at h
  | succ f ih =>
    simp only [ancestors, List.mem_cons] at h
    rcases h with h | h
    · subst h; exact .refl _
    · split at h
      · rename_i p hp; exact .step hp (ih h)
      · simp at h

/-- and nothing else -/
theorem chain_sound {t : Tree} {i j : Nat} (h : j ∈ chain t i) : Anc t i j := mem_ancestors_anc h

/-! ## visibility -/

theorem mem_visible {t : Tree} {st : State} {i j : Nat} {sd : ScopeData} {x : Name}
    (hj : j ∈ chain t i) (hs : st[j]? = some sd) (hx : x ∈ sd.inUse) : x ∈ visible t st i := by
  simp only [visible, List.mem_flatMap]
  exact ⟨j, hj, by simp [hs, hx]⟩

/-- `st'` has every scope of `st` with at least the same names in use -/
@[reducible] def Grows (st st' : State) : Prop :=
  ∀ (j : Nat) (sd : ScopeData), st[j]? = some sd → ∃ sd', st'[j]? = some sd' ∧ ∀ x ∈ sd.inUse, x ∈ sd'.inUse

theorem Grows.refl (st : State) : Grows st st := fun _ sd h => ⟨sd, h, fun _ hx => hx⟩

theorem Grows.trans {a b c : State} (h1 : Grows a b) (h2 : Grows b c) : Grows a c := by
  intro j sd h
  obtain ⟨sd1, hb, hs1⟩ := h1 j sd h
  obtain ⟨sd2, hc, hs2⟩ := h2 j sd1 hb
  exact ⟨sd2, hc, fun x hx => hs2 x (hs1 x hx)⟩

theorem visible_mono {t : Tree} {st st' : State} (hg : Grows st st') {i : Nat} {x : Name}
    (h : x ∈ visible t st i) : x ∈ visible t st' i := by
  simp only [visible, List.mem_flatMap] at h ⊢
  obtain ⟨j, hj, hx⟩ := h
  refine ⟨j, hj, ?_⟩
  split at hx
  · rename_i sd hs
    obtain ⟨sd', hs', hsub⟩ := hg j sd hs
    simp [hs', hsub x hx]
  · simp at hx

/-! ## one allocation -/

/-- every scope holds the keyword table (constructor) -/
@[reducible] def KwInv (kw : List Name) (st : State) : Prop := ∀ (j : Nat) (sd : ScopeData), st[j]? = some sd → ∀ w ∈ kw, w ∈ sd.inUse

theorem kwInv_init (kw : List Name) (t : Tree) : KwInv kw (initState kw t) := by
  intro j sd h w hw
  simp only [initState, List.getElem?_map, Option.map_eq_some_iff] at h
  obtain ⟨_, _, rfl⟩ := h
  exact hw

structure AllocPost (kw : List Name) (t : Tree) (st : State) (r : Req) (st' : State) (res : Res) : Prop where
  noExhaust : res ≠ .loopExhausted
  kw' : KwInv kw st'
  grows : Grows st st'
  named : ∀ n, res = .name n →
    isBasicId n = true ∧ lower n ∉ visible t st r.scope ∧ lower n ∉ kw ∧
    ∃ sd', st'[r.scope]? = some sd' ∧ lower n ∈ sd'.inUse

theorem grows_set {st : State} {i : Nat} {sd sd' : ScopeData} (hs : st[i]? = some sd)
    (hsub : ∀ x ∈ sd.inUse, x ∈ sd'.inUse) : Grows st (st.set i sd') := by
  intro j sdj hj
  by_cases hij : i = j
  · subst hij
    have hlt : i < st.length := by
      rcases Nat.lt_or_ge i st.length with h | h
      · exact h
      · rw [List.getElem?_eq_none h] at hs; cases hs
    refine ⟨sd', by simp [hlt], ?_⟩
    rw [hs] at hj; cases hj; exact hsub
  · exact ⟨sdj, by rw [List.getElem?_set_ne hij]; exact hj, fun _ hx => hx⟩

theorem alloc_post {kw : List Name} {t : Tree} {st st' : State} {res : Res} (hkw : KwInv kw st) (r : Req)
    (hleg : isBasicId r.desired = true) (hal : alloc t st r = (st', res)) :
    AllocPost kw t st r st' res := by
  unfold alloc at hal
  split at hal
  · cases hal; exact ⟨by simp, hkw, Grows.refl _, by intro n h; cases h⟩
  · rename_i sd hsd
    split at hal
    · cases hal; exact ⟨by simp, hkw, Grows.refl _, by intro n h; cases h⟩
    · split at hal
      · cases hal; exact ⟨by simp, hkw, Grows.refl _, by intro n h; cases h⟩
      · -- the loop
        have htot := findFree_total (used := fun n => (visible t st r.scope).contains n)
          (initial := initialName r.kind r.desired) (visible t st r.scope)
          ((visible t st r.scope).length + 1) (lookupAttempt sd.attempts (initialName r.kind r.desired))
          (by intro k' _ h; simpa using h) (by omega)
        simp only [] at hal
        split at hal
        · rename_i hnone; rw [hnone] at htot; simp at htot
        · rename_i k name hsome
          cases hal
          have hspec := findFree_spec hsome
          have hnv : lower name ∉ visible t st r.scope := by simpa using hspec.2.1
          have hgrow : Grows st (st.set r.scope
              { inUse := lower name :: sd.inUse, attempts := setAttempt sd.attempts (initialName r.kind r.desired) (k + 1) }) :=
            grows_set hsd (fun x hx => List.mem_cons_of_mem _ hx)
          have hlt : r.scope < st.length := by
            rcases Nat.lt_or_ge r.scope st.length with h | h
            · exact h
            · rw [List.getElem?_eq_none h] at hsd; cases hsd
          refine ⟨by simp, ?_, hgrow, ?_⟩
          · intro j sdj hj w hw
            by_cases hij : r.scope = j
            · subst hij
              simp [hlt] at hj
              subst hj
              exact List.mem_cons_of_mem _ (hkw _ sd hsd w hw)
            · rw [List.getElem?_set_ne hij] at hj
              exact hkw j sdj hj w hw
          · intro n hn
            cases hn
            refine ⟨?_, hnv, ?_, ?_⟩
            · rw [hspec.1]
              exact isBasicId_formatDuplicateName (isBasicId_initialName _ hleg) _
            · intro hin
              exact hnv (mem_visible (self_mem_chain t r.scope) hsd (hkw _ sd hsd _ hin))
            · exact ⟨{ inUse := lower name :: sd.inUse, attempts := setAttempt sd.attempts (initialName r.kind r.desired) (k + 1) },
                by simp [hlt], List.mem_cons_self⟩

/-! ## request sequences -/

/-- relation between an earlier and a later (request, result) pair -/
def Distinct (t : Tree) (a b : Req × Res) : Prop :=
  ∀ na nb, a.2 = .name na → b.2 = .name nb → a.1.scope ∈ chain t b.1.scope → lower na ≠ lower nb

theorem run_length (t : Tree) (st : State) (reqs : List Req) : (run t st reqs).2.length = reqs.length := by
  induction reqs generalizing st with
  | nil => simp [run]
  | cons r rs ih => simp [run, ih]

theorem run_inv {kw : List Name} {t : Tree} (reqs : List Req) {st : State} (hkw : KwInv kw st)
    (hleg : ∀ r ∈ reqs, isBasicId r.desired = true) :
    let tr := reqs.zip (run t st reqs).2
    List.Pairwise (Distinct t) tr ∧
    (∀ a ∈ tr, a.2 ≠ .loopExhausted) ∧
    (∀ a ∈ tr, ∀ n, a.2 = .name n → isBasicId n = true ∧ lower n ∉ kw ∧ lower n ∉ visible t st a.1.scope) := by
  induction reqs generalizing st with
  | nil => simp [run]
  | cons r rs ih =>
    rcases hal : alloc t st r with ⟨st1, res⟩
    have hp := alloc_post (t := t) hkw r (hleg r List.mem_cons_self) hal
    have ih' := ih (st := st1) hp.kw' (fun r' hr' => hleg r' (List.mem_cons_of_mem _ hr'))
    simp only [run, hal, List.zip_cons_cons, List.pairwise_cons, List.mem_cons, forall_eq_or_imp] at ih' ⊢
    obtain ⟨hpw, hne, hnm⟩ := ih'
    refine ⟨⟨?_, hpw⟩, ⟨hp.noExhaust, hne⟩, ⟨?_, ?_⟩⟩
    · intro b hb na nb hna hnb hch
      obtain ⟨_, _, _, sd', hs', hin⟩ := hp.named na hna
      have := (hnm b hb nb hnb).2.2
      intro heq
      exact this (heq ▸ mem_visible hch hs' hin)
    · intro n hn
      obtain ⟨h1, h2, h3, _⟩ := hp.named n hn
      exact ⟨h1, h3, h2⟩
    · intro a ha n hn
      obtain ⟨h1, h2, h3⟩ := hnm a ha n hn
      exact ⟨h1, h2, fun hv => h3 (visible_mono hp.grows hv)⟩

end Gatery.C13
