import GateryModel.C13.Model
/-!
# C13 — a small VHDL front end for the subset gatery emits, and the static checkers run on real exports

`lexFile` → tokens, `parseFile` → `List DUnit` (packages, package bodies with functions, entities with ports, architectures
with signal/constant/component declarations, processes, blocks, instantiations, sequential statements, expressions),
`checkFile` → list of `Problem`s. Checked (all decidable, all run by the driver on the text the real exporter wrote):

* `illegal-identifier` every word token is a VHDL basic identifier (`isBasicId`);
* `reserved`           a word that is reserved in VHDL-2008 (any letter case) stands where the grammar needs an identifier;
* `duplicate`          two declarations with the same name ignoring case in one declarative region (library `work`: entities
                       and packages; entity+architecture: ports, signals, constants, components, labels; block; process;
                       component: ports; subprogram: parameters and locals; package);
* `undeclared` / `use-before-decl`  every simple name used in an expression, target, sensitivity list or association resolves
                       (innermost region first) to a declaration that textually precedes the use, or to a name made visible by
                       the `use` clauses in force (std_logic_1164, numeric_std: fixed tables; `work.<package>.all`: the package
                       parsed earlier in the same file); instantiated entities/components and named formals likewise;
* `width`              target and value of every assignment, formal and actual of every port association have the same shape
                       (scalar / vector of n elements) whenever both are syntactically evident (`Ty.unknown` otherwise);
                       bit-string literals have their true width (`x"…"` 4 bits per digit, `o"…"` 3, `b"…"`/`"…"` 1, `'c'` scalar)
                       and are compared with the declared width of the assignment target (slices included), of the declared
                       object they initialise (`:= "…"`), of the other operand of a comparison / logical operator / `+` `-`, and of
                       the CASE selector they are a choice of (sub-class literal; `(others => …)` is exempt);
* `var-read-before-write`  in every process, a VARIABLE of that process is assigned on every path before it is read;
* `end-name`           the name repeated after END is the unit's name.

`declaredNames` lists every declared identifier with the kind of position it stands at; the driver uses it to verify that every
user-given name of the design (as the harness reads it back from the circuit that is exported) leaves its trace at the expected
kind of position (`name-lost` otherwise), so that the quantification over names is not vacuous.

Not checked: full VHDL type/overload resolution (a user name that hides a library type or function is not detected — the
generator avoids those names), operand-width agreement *inside* expressions, attribute specifications, generics, external
(vendor) components, configuration/`for … generate`/records/arrays (never emitted for the generated designs).
-/
namespace Gatery.C13.Vhdl
open Gatery.C13

structure Problem where
  what : String
  name : String
  line : Nat
  detail : String := ""
  deriving Repr, BEq

/-! ## lexer -/

inductive Tok
  | word (s : String)    -- identifier or reserved word
  | num (s : String)
  | str (s : String)
  | chr (c : Char)
  | sym (s : String)
  deriving Repr, BEq, Inhabited

structure T where
  tok : Tok
  line : Nat
  deriving Repr, Inhabited

def lcs (s : String) : String := String.ofList (s.toList.map Char.toLower)

def isWordStart (c : Char) : Bool := c.isAlpha || c == '_'
def isWordChar (c : Char) : Bool := c.isAlphanum || c == '_'

def twoCharSyms : List String := ["<=", ":=", "=>", "/=", ">=", "**", "<>", "??"]
def oneCharSyms : List Char := ['(', ')', ';', ':', ',', '.', '&', '+', '-', '*', '/', '=', '<', '>', '|', '\'']

/-- tokens of one line (comments removed) -/
partial def lexLine (line : Nat) (cs : List Char) (acc : Array T) (probs : Array Problem) : Array T × Array Problem :=
  match cs with
  | [] => (acc, probs)
  | c :: rest =>
    if c == ' ' || c == '\t' || c == '\r' then lexLine line rest acc probs
    else if c == '-' && rest.head? == some '-' then (acc, probs)
    else if isWordStart c then
      let w := cs.takeWhile isWordChar
      let after := cs.drop w.length
      -- bit-string literal  x"…" (4 bits per digit)  o"…" (3)  b"…" (1); underscores do not count.
      -- It becomes a string token with one character per *bit*, so that its length is its width.
      let base := (String.ofList w).toLower
      let bitsPerDigit : Option Nat := if base == "x" || base == "ux" || base == "sx" then some 4
        else if base == "o" || base == "uo" || base == "so" then some 3
        else if base == "b" || base == "ub" || base == "sb" then some 1 else none
      match bitsPerDigit, after with
      | some k, '"' :: rest =>
        let body := (rest.takeWhile (· != '"'))
        let digits := body.filter (· != '_')
        lexLine line (rest.drop (body.length + 1)) (acc.push ⟨.str (String.ofList (digits.flatMap fun d => List.replicate k d)), line⟩) probs
      | _, _ => lexLine line after (acc.push ⟨.word (String.ofList w), line⟩) probs
    else if c.isDigit then
      let w := cs.takeWhile isWordChar
      lexLine line (cs.drop w.length) (acc.push ⟨.num (String.ofList w), line⟩) probs
    else if c == '"' then
      let body := rest.takeWhile (· != '"')
      lexLine line (rest.drop (body.length + 1)) (acc.push ⟨.str (String.ofList body), line⟩) probs
    else if c == '\'' then
      -- `'x'` is a character literal (the emitted text never has an attribute or qualified expression of that shape)
      match rest with
      | x :: '\'' :: rest' => lexLine line rest' (acc.push ⟨.chr x, line⟩) probs
      | _ => lexLine line rest (acc.push ⟨.sym "'", line⟩) probs
    else
      let two := String.ofList (cs.take 2)
      if twoCharSyms.contains two then lexLine line (cs.drop 2) (acc.push ⟨.sym two, line⟩) probs
      else if oneCharSyms.contains c then lexLine line rest (acc.push ⟨.sym (String.singleton c), line⟩) probs
      else lexLine line rest acc (probs.push ⟨"lex", String.singleton c, line, "unexpected character"⟩)

def lexFile (lines : Array String) : Array T × Array Problem := Id.run do
  let mut acc : Array T := #[]
  let mut probs : Array Problem := #[]
  let mut i := 0
  for l in lines do
    i := i + 1
    let (a, p) := lexLine i l.toList acc probs
    acc := a; probs := p
  return (acc, probs)

/-! ## AST -/

inductive Expr
  | name (n : String) (line : Nat)
  | call (f : String) (args : List Expr) (line : Nat)      -- f(args): call, conversion or index
  | slice (e : Expr) (hi lo : Option Nat)                    -- e(hi downto lo)
  | str (s : String)
  | chr (c : Char)
  | int (n : Nat)
  | others (e : Expr)                                        -- (others => e)
  | agg (choice : Expr) (e : Expr)                           -- (choice => e)
  | un (op : String) (e : Expr)
  | bin (op : String) (a b : Expr)
  | attr (e : Expr) (a : String)
  | openE
  deriving Repr, Inhabited

inductive Ty
  | scalar
  | vec (n : Nat)
  | unknown
  deriving Repr, BEq, Inhabited

inductive Stmt
  | assign (target : Expr) (isVar : Bool) (rhs : Expr) (line : Nat)
  | ifs (branches : List (Expr × List Stmt)) (els : Option (List Stmt))
  | cases (sel : Expr) (alts : List (Option Expr × List Stmt))
  | ret (e : Expr)
  | assertS (e : Expr)
  deriving Repr, Inhabited

structure Decl where
  name : String
  kind : String        -- port signal variable constant component label entity package function param
  ty : Ty := .unknown
  mode : String := ""
  line : Nat := 0
  init : Option Expr := none      -- `:= expr` of an object declaration
  deriving Repr, Inhabited

structure Iface where   -- entity or component
  name : String
  ports : List Decl
  line : Nat
  deriving Repr, Inhabited

structure ProcessD where
  label : String
  line : Nat
  sens : List Expr
  decls : List Decl
  body : List Stmt
  deriving Repr, Inhabited

inductive Conc
  | proc (p : ProcessD)
  | inst (label : String) (unit : String) (isEntity : Bool) (assocs : List (Expr × Expr)) (line : Nat)
  | block (label : String) (line : Nat) (decls : List Decl) (comps : List Iface) (body : List Conc)
  | assign (s : Stmt)
  deriving Repr, Inhabited

structure FuncD where
  name : String
  line : Nat
  params : List Decl
  decls : List Decl
  body : List Stmt
  hasBody : Bool
  deriving Repr, Inhabited

inductive DUnit
  | library (names : List String)
  | use (path : List String) (line : Nat)
  | entity (i : Iface)
  | arch (name entity : String) (line : Nat) (decls : List Decl) (comps : List Iface) (body : List Conc)
  | package (name : String) (line : Nat) (funcs : List FuncD) (consts : List Decl)
  | packageBody (name : String) (line : Nat) (funcs : List FuncD)
  deriving Repr, Inhabited

/-! ## parser -/

structure PS where
  toks : Array T
  pos : Nat := 0
  probs : Array Problem := #[]

abbrev P := StateT PS (Except String)

def isKw (w : String) : Bool := reserved2008.contains (lcs w)

def peekT : P (Option T) := do let s ← get; return s.toks[s.pos]?
def peekAt (k : Nat) : P (Option T) := do let s ← get; return s.toks[s.pos + k]?
def advance : P Unit := modify fun s => { s with pos := s.pos + 1 }
def curLine : P Nat := do
  let s ← get
  match s.toks[s.pos]? with
  | some t => return t.line
  | none => return (s.toks.back?.map (·.line)).getD 0
def problem (p : Problem) : P Unit := modify fun s => { s with probs := s.probs.push p }

def fail {α} (msg : String) : P α := do
  let l ← curLine
  let t ← peekT
  throw s!"line {l}: {msg}, found {repr (t.map (·.tok))}"

/-- is the next token the reserved word `k` (lower case)? -/
def atKw (k : String) : P Bool := do
  match ← peekT with
  | some ⟨.word w, _⟩ => return lcs w == k
  | _ => return false

def atKwAt (n : Nat) (k : String) : P Bool := do
  match ← peekAt n with
  | some ⟨.word w, _⟩ => return lcs w == k
  | _ => return false

def atSym (x : String) : P Bool := do
  match ← peekT with
  | some ⟨.sym y, _⟩ => return x == y
  | _ => return false

def atSymAt (n : Nat) (x : String) : P Bool := do
  match ← peekAt n with
  | some ⟨.sym y, _⟩ => return x == y
  | _ => return false

def expectKw (k : String) : P Unit := do
  if ← atKw k then advance else fail s!"expected `{k}`"

def expectSym (x : String) : P Unit := do
  if ← atSym x then advance else fail s!"expected `{x}`"

def optKw (k : String) : P Bool := do
  if ← atKw k then advance; return true else return false

/-- an identifier is required here; a reserved word is recorded as a `reserved` problem and then taken as the identifier -/
def ident (ctx : String) : P (String × Nat) := do
  match ← peekT with
  | some ⟨.word w, l⟩ =>
    advance
    if isKw w then problem ⟨"reserved", w, l, s!"reserved word used as {ctx}"⟩
    return (w, l)
  | _ => fail s!"expected identifier ({ctx})"

def binOpsLogical : List String := ["and", "or", "xor", "nand", "nor", "xnor"]
def binOpsShift : List String := ["sll", "srl", "sla", "sra", "rol", "ror"]
def binOpsMul : List String := ["mod", "rem"]

/-- words that may legitimately continue or end an expression; any other reserved word at the start of a primary is a name -/
def natLit (s : String) : Option Nat := s.toNat?

mutual
  partial def parsePrimary : P Expr := do
    match ← peekT with
    | some ⟨.num s, _⟩ => advance; return .int ((natLit s).getD 0)
    | some ⟨.str s, _⟩ => advance; return .str s
    | some ⟨.chr c, _⟩ => advance; return .chr c
    | some ⟨.sym "(", _⟩ =>
      advance
      if (← atKw "others") && (← atSymAt 1 "=>") then
        advance; advance
        let e ← parseExpr
        expectSym ")"
        parsePostfix (.others e)
      else
        let e ← parseExpr
        if ← atSym "=>" then
          advance
          let v ← parseExpr
          expectSym ")"
          parsePostfix (.agg e v)
        else
          expectSym ")"
          parsePostfix e
    | some ⟨.word w, l⟩ =>
      let lw := lcs w
      if lw == "not" || lw == "abs" then
        advance
        let e ← parsePrimary
        return .un lw e
      else if lw == "open" then
        advance; return .openE
      else
        let (n, l') ← ident "name in an expression"
        let _ := l
        parsePostfix (.name n l')
    | some ⟨.sym "-", _⟩ => advance; let e ← parsePrimary; return .un "-" e
    | some ⟨.sym "+", _⟩ => advance; let e ← parsePrimary; return .un "+" e
    | _ => fail "expected expression"

  partial def parsePostfix (e : Expr) : P Expr := do
    if ← atSym "(" then
      advance
      let first ← parseExpr
      if ← atKw "downto" then
        advance
        let lo ← parseExpr
        expectSym ")"
        let toN : Expr → Option Nat := fun x => match x with | .int n => some n | _ => none
        -- `(-1 downto 0)` is a null range: hi = none … handled by the type parser, not here
        parsePostfix (.slice e (toN first) (toN lo))
      else
        let mut args := [first]
        while ← atSym "," do
          advance
          let a ← parseExpr
          args := args ++ [a]
        expectSym ")"
        match e with
        | .name n l => parsePostfix (.call n args l)
        | _ => parsePostfix (.call "?" (e :: args) 0)
    else if ← atSym "'" then
      advance
      match ← peekT with
      | some ⟨.word w, _⟩ => advance; parsePostfix (.attr e (lcs w))
      | _ => fail "expected attribute name"
    else return e

  partial def parseFactor : P Expr := do
    let a ← parsePrimary
    if ← atSym "**" then
      advance
      let b ← parsePrimary
      return .bin "**" a b
    else return a

  partial def parseTerm : P Expr := do
    let mut a ← parseFactor
    repeat
      if ← atSym "*" then advance; let b ← parseFactor; a := .bin "*" a b
      else if ← atSym "/" then advance; let b ← parseFactor; a := .bin "/" a b
      else if ← atKw "mod" then advance; let b ← parseFactor; a := .bin "mod" a b
      else if ← atKw "rem" then advance; let b ← parseFactor; a := .bin "rem" a b
      else break
    return a

  partial def parseSimple : P Expr := do
    let mut a ← parseTerm
    repeat
      if ← atSym "+" then advance; let b ← parseTerm; a := .bin "+" a b
      else if ← atSym "-" then advance; let b ← parseTerm; a := .bin "-" a b
      else if ← atSym "&" then advance; let b ← parseTerm; a := .bin "&" a b
      else break
    return a

  partial def parseShift : P Expr := do
    let a ← parseSimple
    match ← peekT with
    | some ⟨.word w, _⟩ =>
      if binOpsShift.contains (lcs w) then
        advance
        let b ← parseSimple
        return .bin (lcs w) a b
      else return a
    | _ => return a

  partial def parseRelation : P Expr := do
    let a ← parseShift
    match ← peekT with
    | some ⟨.sym s, _⟩ =>
      if ["=", "/=", "<", "<=", ">", ">="].contains s then
        advance
        let b ← parseShift
        return .bin s a b
      else return a
    | _ => return a

  partial def parseExpr : P Expr := do
    let mut a ← parseRelation
    repeat
      match ← peekT with
      | some ⟨.word w, _⟩ =>
        if binOpsLogical.contains (lcs w) then
          advance
          let b ← parseRelation
          a := .bin (lcs w) a b
        else break
      | _ => break
    return a
end

/-- `name [ ( hi downto lo ) ]` with the element count -/
def parseType : P Ty := do
  let (n, _) ← ident "type mark"
  let scalarTypes := ["std_logic", "std_ulogic", "bit", "boolean", "vl_logic"]
  if ← atSym "(" then
    advance
    -- (-1 downto 0) is the null range gatery writes for width 0
    let neg ← (do if ← atSym "-" then advance; return true else return false)
    let hi ← parseExpr
    if !(← optKw "downto") then fail "expected `downto` in a range"
    let lo ← parseExpr
    expectSym ")"
    match hi, lo with
    | .int h, .int l => if neg then return .vec 0 else return .vec (h + 1 - l)
    | _, _ => return .unknown
  else if scalarTypes.contains (lcs n) then return .scalar
  else return .unknown

/-- `name : [mode] type` -/
def parsePortLike (kind : String) : P Decl := do
  let (n, l) ← ident s!"{kind} name"
  expectSym ":"
  let mut mode := ""
  for m in ["inout", "in", "out", "buffer"] do
    if mode == "" && (← atKw m) then advance; mode := m
  let ty ← parseType
  return { name := n, kind := kind, ty := ty, mode := mode, line := l }

def parsePortClause (kind : String) : P (List Decl) := do
  expectSym "("
  let mut ps : List Decl := []
  repeat
    let d ← parsePortLike kind
    ps := ps ++ [d]
    if ← atSym ";" then advance else break
  expectSym ")"
  expectSym ";"
  return ps

def skipToSemicolon : P Unit := do
  repeat
    match ← peekT with
    | some ⟨.sym ";", _⟩ => advance; break
    | some _ => advance
    | none => fail "unexpected end of file"

/-- `SIGNAL|VARIABLE|CONSTANT name : type [:= expr] ;` -/
def parseObjectDecl (kind : String) : P Decl := do
  advance
  let (n, l) ← ident s!"{kind} name"
  expectSym ":"
  let ty ← parseType
  let mut init : Option Expr := none
  if ← atSym ":=" then
    advance
    init := some (← parseExpr)
  expectSym ";"
  return { name := n, kind := kind, ty := ty, line := l, init := init }

mutual
  partial def parseStmts (stop : List String) : P (List Stmt) := do
    let mut out : List Stmt := []
    repeat
      match ← peekT with
      | some ⟨.word w, _⟩ =>
        -- a statement-level reserved word ends the list only when it is not followed by an assignment symbol
        if stop.contains (lcs w) && !((← atSymAt 1 "<=") || (← atSymAt 1 ":=")) then break
        let s ← parseStmt
        out := out ++ [s]
      | _ => break
    return out

  partial def parseStmt : P Stmt := do
    let isAssignNext ← (do return (← atSymAt 1 "<=") || (← atSymAt 1 ":="))
    if (← atKw "if") && !isAssignNext then
      advance
      let c ← parseExpr
      expectKw "then"
      let body ← parseStmts ["elsif", "else", "end"]
      let mut branches := [(c, body)]
      let mut els : Option (List Stmt) := none
      repeat
        if ← atKw "elsif" then
          advance
          let c ← parseExpr
          expectKw "then"
          let b ← parseStmts ["elsif", "else", "end"]
          branches := branches ++ [(c, b)]
        else if ← atKw "else" then
          advance
          let b ← parseStmts ["end"]
          els := some b
        else break
      expectKw "end"; expectKw "if"; expectSym ";"
      return .ifs branches els
    else if (← atKw "case") && !isAssignNext then
      advance
      let sel ← parseExpr
      expectKw "is"
      let mut alts : List (Option Expr × List Stmt) := []
      while ← atKw "when" do
        advance
        let choice ← (do if ← atKw "others" then advance; return none else return some (← parseExpr))
        expectSym "=>"
        let b ← parseStmts ["when", "end"]
        alts := alts ++ [(choice, b)]
      expectKw "end"; expectKw "case"; expectSym ";"
      return .cases sel alts
    else if (← atKw "return") && !isAssignNext then
      advance
      let e ← parseExpr
      expectSym ";"
      return .ret e
    else if (← atKw "assert") && !isAssignNext then
      advance
      let e ← parseExpr
      if ← optKw "report" then let _ ← parseExpr
      if ← optKw "severity" then let _ ← ident "severity level"
      expectSym ";"
      return .assertS e
    else
      let l ← curLine
      let (n, ln) ← ident "assignment target"
      let target ← parsePostfix (.name n ln)
      let isVar ← (do
        if ← atSym ":=" then advance; return true
        else if ← atSym "<=" then advance; return false
        else fail "expected `<=` or `:=`")
      let rhs ← parseExpr
      if ← atKw "when" then
        advance
        let c ← parseExpr
        expectKw "else"
        let e2 ← parseExpr
        expectSym ";"
        return .assign target isVar (.bin "when" rhs (.bin "else" c e2)) l
      expectSym ";"
      return .assign target isVar rhs l
end

def parseAssocs : P (List (Expr × Expr)) := do
  expectSym "("
  let mut out : List (Expr × Expr) := []
  repeat
    let f ← parseExpr
    expectSym "=>"
    let a ← parseExpr
    out := out ++ [(f, a)]
    if ← atSym "," then advance else break
  expectSym ")"
  expectSym ";"
  return out

def parseComponent : P Iface := do
  expectKw "component"
  let (n, l) ← ident "component name"
  let _ ← optKw "is"
  if ← atKw "generic" then
    advance; expectSym "("
    -- generics of vendor components: not emitted for the generated designs
    let mut depth := 1
    while depth > 0 do
      match ← peekT with
      | some ⟨.sym "(", _⟩ => advance; depth := depth + 1
      | some ⟨.sym ")", _⟩ => advance; depth := depth - 1
      | some _ => advance
      | none => fail "eof in generic clause"
    expectSym ";"
  let mut ports : List Decl := []
  if ← atKw "port" then
    advance
    ports ← parsePortClause "port"
  expectKw "end"; expectKw "component"
  if !(← atSym ";") then let _ ← ident "component name after END"
  expectSym ";"
  return { name := n, ports := ports, line := l }

/-- declarations of an architecture / block / process / subprogram -/
partial def parseDecls : P (List Decl × List Iface) := do
  let mut ds : List Decl := []
  let mut cs : List Iface := []
  repeat
    if ← atKw "signal" then let d ← parseObjectDecl "signal"; ds := ds ++ [d]
    else if ← atKw "variable" then let d ← parseObjectDecl "variable"; ds := ds ++ [d]
    else if ← atKw "constant" then let d ← parseObjectDecl "constant"; ds := ds ++ [d]
    else if ← atKw "component" then
      let c ← parseComponent
      cs := cs ++ [c]
      ds := ds ++ [{ name := c.name, kind := "component", line := c.line }]
    else if ← atKw "attribute" then skipToSemicolon
    else break
  return (ds, cs)

partial def parseConcs (endKw : String) : P (List Conc) := do
  let mut out : List Conc := []
  repeat
    if (← atKw "end") && !((← atSymAt 1 ":") || (← atSymAt 1 "<=")) then break
    let _ := endKw
    -- label : …   or   target <= …
    if ← atSymAt 1 ":" then
      let (label, l) ← ident "label"
      expectSym ":"
      if ← atKw "process" then
        advance
        let mut sens : List Expr := []
        if ← atSym "(" then
          advance
          if ← atKw "all" then advance
          else
            repeat
              let e ← parseExpr
              sens := sens ++ [e]
              if ← atSym "," then advance else break
          expectSym ")"
        let _ ← optKw "is"
        let (ds, _) ← parseDecls
        expectKw "begin"
        let body ← parseStmts ["end"]
        expectKw "end"; expectKw "process"
        if !(← atSym ";") then let _ ← ident "process label after END"
        expectSym ";"
        out := out ++ [.proc { label := label, line := l, sens := sens, decls := ds, body := body }]
      else if ← atKw "block" then
        advance
        let _ ← optKw "is"
        let (ds, cs) ← parseDecls
        expectKw "begin"
        let body ← parseConcs "block"
        expectKw "end"; expectKw "block"
        if !(← atSym ";") then let _ ← ident "block label after END"
        expectSym ";"
        out := out ++ [.block label l ds cs body]
      else if ← atKw "entity" then
        advance
        let (lib, _) ← ident "library name"
        let _ := lib
        expectSym "."
        let (u, _) ← ident "entity name"
        expectKw "port"; expectKw "map"
        let as ← parseAssocs
        out := out ++ [.inst label u true as l]
      else
        let _ ← optKw "component"
        let (u, _) ← ident "component name"
        if ← atKw "generic" then fail "generic map (vendor component) is outside the supported subset"
        expectKw "port"; expectKw "map"
        let as ← parseAssocs
        out := out ++ [.inst label u false as l]
    else
      let s ← parseStmt
      out := out ++ [.assign s]
  return out

def parseFunction : P FuncD := do
  expectKw "function"
  let (n, l) ← ident "function name"
  let mut params : List Decl := []
  if ← atSym "(" then
    advance
    repeat
      let _ ← optKw "constant"
      let _ ← optKw "signal"
      let d ← parsePortLike "param"
      params := params ++ [d]
      if ← atSym ";" then advance else break
    expectSym ")"
  expectKw "return"
  let _ ← parseType
  if ← atSym ";" then
    advance
    return { name := n, line := l, params := params, decls := [], body := [], hasBody := false }
  expectKw "is"
  let (ds, _) ← parseDecls
  expectKw "begin"
  let body ← parseStmts ["end"]
  expectKw "end"
  let _ ← optKw "function"
  if !(← atSym ";") then
    let (e, el) ← ident "function name after END"
    if lcs e != lcs n then problem ⟨"end-name", e, el, s!"END {e} closes function {n}"⟩
  expectSym ";"
  return { name := n, line := l, params := params, decls := ds, body := body, hasBody := true }

def endName (unit : String) (what : String) : P Unit := do
  if !(← atSym ";") then
    let (e, el) ← ident s!"{what} name after END"
    if lcs e != lcs unit then problem ⟨"end-name", e, el, s!"END {e} closes {what} {unit}"⟩
  expectSym ";"

partial def parseUnits : P (List DUnit) := do
  let mut out : List DUnit := []
  repeat
    match ← peekT with
    | none => break
    | some _ =>
      if ← atKw "library" then
        advance
        let mut ns : List String := []
        repeat
          let (n, _) ← ident "library name"
          ns := ns ++ [n]
          if ← atSym "," then advance else break
        expectSym ";"
        out := out ++ [.library ns]
      else if ← atKw "use" then
        let l ← curLine
        advance
        let mut path : List String := []
        repeat
          if ← atKw "all" then advance; path := path ++ ["all"]
          else
            let (n, _) ← ident "name in a use clause"
            path := path ++ [n]
          if ← atSym "." then advance else break
        expectSym ";"
        out := out ++ [.use path l]
      else if ← atKw "package" then
        advance
        if ← atKw "body" then
          advance
          let (n, l) ← ident "package name"
          expectKw "is"
          let mut fs : List FuncD := []
          while ← atKw "function" do
            let f ← parseFunction
            fs := fs ++ [f]
          expectKw "end"
          if ← optKw "package" then let _ ← optKw "body"
          endName n "package body"
          out := out ++ [.packageBody n l fs]
        else
          let (n, l) ← ident "package name"
          expectKw "is"
          let mut fs : List FuncD := []
          let mut cs : List Decl := []
          repeat
            if ← atKw "function" then let f ← parseFunction; fs := fs ++ [f]
            else if ← atKw "constant" then let d ← parseObjectDecl "constant"; cs := cs ++ [d]
            else break
          expectKw "end"
          let _ ← optKw "package"
          endName n "package"
          out := out ++ [.package n l fs cs]
      else if ← atKw "entity" then
        advance
        let (n, l) ← ident "entity name"
        expectKw "is"
        let mut ports : List Decl := []
        if ← atKw "port" then
          advance
          ports ← parsePortClause "port"
        expectKw "end"
        let _ ← optKw "entity"
        endName n "entity"
        out := out ++ [.entity { name := n, ports := ports, line := l }]
      else if ← atKw "architecture" then
        advance
        let (n, l) ← ident "architecture name"
        expectKw "of"
        let (e, _) ← ident "entity name"
        expectKw "is"
        let (ds, cs) ← parseDecls
        expectKw "begin"
        let body ← parseConcs "architecture"
        expectKw "end"
        let _ ← optKw "architecture"
        endName n "architecture"
        out := out ++ [.arch n e l ds cs body]
      else fail "expected a design unit"
  return out

def parseFile (toks : Array T) : Except String (List DUnit × Array Problem) :=
  match (parseUnits.run { toks := toks }) with
  | .ok (us, s) => .ok (us, s.probs)
  | .error e => .error e

/-! ## checkers -/

/-- names made visible by `use ieee.std_logic_1164.all` / `use ieee.numeric_std.all` / package `standard` that the emitted text uses -/
def stdNames : List String := ["std_logic", "std_ulogic", "std_logic_vector", "std_ulogic_vector", "bit", "bit_vector", "boolean",
  "integer", "natural", "positive", "true", "false", "to_bit", "to_bitvector", "to_stdlogicvector", "to_stdulogicvector",
  "rising_edge", "falling_edge", "to_x01", "is_x"]
def numericStdNames : List String := ["unsigned", "signed", "resize", "to_integer", "to_unsigned", "to_signed", "shift_left",
  "shift_right", "rotate_left", "rotate_right"]

/-- one declarative region: declarations in textual order -/
structure Region where
  what : String
  decls : List Decl

abbrev Env := List Region     -- innermost first

def lookup (env : Env) (n : String) : Option Decl :=
  env.findSome? fun r => r.decls.find? fun d => lcs d.name == lcs n

/-- `duplicate` problems of one region -/
def dupCheck (what : String) (decls : List Decl) : List Problem := Id.run do
  let mut seen : List Decl := []
  let mut out : List Problem := []
  for d in decls do
    -- subprograms are overloadable
    if d.kind != "function" then
      match seen.find? (fun e => lcs e.name == lcs d.name) with
      | some e =>
        out := out ++ [⟨"duplicate", d.name, d.line,
          s!"{d.kind} `{d.name}` and {e.kind} `{e.name}` (line {e.line}) are homographs (same name ignoring case) in {what}"⟩]
      | none => pure ()
    seen := d :: seen
  return out

partial def exprNames : Expr → List (String × Nat)
  | .name n l => [(n, l)]
  | .call f args l => (if f == "?" then [] else [(f, l)]) ++ (args.map exprNames).flatten
  | .slice e _ _ => exprNames e
  | .others e => exprNames e
  | .agg c e => (match c with | .int _ => [] | c => exprNames c) ++ exprNames e
  | .un _ e => exprNames e
  | .bin _ a b => exprNames a ++ exprNames b
  | .attr e _ => exprNames e
  | _ => []

def vecConv : List String := ["unsigned", "signed", "std_logic_vector", "std_ulogic_vector", "to_stdlogicvector", "to_bitvector",
  "to_stdulogicvector", "portmap_to_stdlogicvector", "portmap_to_unsigned", "bit_vector", "shift_left", "shift_right",
  "rotate_left", "rotate_right"]
def scalarFns : List String := ["bool2stdlogic", "stdlogic2bool", "rising_edge", "falling_edge", "to_bit", "std_logic", "std_ulogic",
  "portmap_to_stdlogic", "portmap_to_stdulogic", "portmap_to_bit", "bit"]

def elems : Ty → Option Nat
  | .scalar => some 1
  | .vec n => some n
  | .unknown => none

/-- shape of an expression where it is syntactically evident -/
partial def typeOf (env : Env) : Expr → Ty
  | .name n _ => match lookup env n with
    | some d => d.ty
    | none => if ["true", "false"].contains (lcs n) then .scalar else .unknown
  | .call f args _ =>
    match lookup env f with
    | some d =>
      if d.kind == "function" || d.kind == "component" || d.kind == "entity" then
        (if scalarFns.contains (lcs f) then .scalar else if vecConv.contains (lcs f) then (match args with | a :: _ => typeOf env a | [] => .unknown) else .unknown)
      else match d.ty with
        | .vec _ => .scalar          -- indexed name
        | _ => .unknown
    | none =>
      let lf := lcs f
      if lf == "resize" then (match args with | [_, .int n] => .vec n | _ => .unknown)
      else if vecConv.contains lf then (match args with | a :: _ => (match typeOf env a with | .vec n => .vec n | _ => .unknown) | [] => .unknown)
      else if scalarFns.contains lf then .scalar
      else .unknown
  | .slice _ (some hi) (some lo) => .vec (hi + 1 - lo)
  | .slice _ _ _ => .unknown
  | .str s => .vec s.length
  | .chr _ => .scalar
  | .int _ => .unknown
  | .others _ => .unknown
  | .agg _ e => (match typeOf env e with | .scalar => .vec 1 | _ => .unknown)
  | .un op e => if op == "not" then typeOf env e else .unknown
  | .bin op a b =>
    let ta := typeOf env a
    let tb := typeOf env b
    if ["=", "/=", "<", "<=", ">", ">="].contains op then .scalar
    else if op == "&" then (match elems ta, elems tb with | some x, some y => .vec (x + y) | _, _ => .unknown)
    else if op == "+" || op == "-" then (match ta, tb with | .vec x, .vec y => .vec (max x y) | _, _ => .unknown)
    else if op == "*" then (match ta, tb with | .vec x, .vec y => .vec (x + y) | _, _ => .unknown)
    else if binOpsLogical.contains op then (if ta == tb then ta else .unknown)
    else if op == "when" then ta
    else .unknown
  | .attr _ a => if a == "event" then .scalar else .unknown
  | .openE => .unknown

def tyStr : Ty → String
  | .scalar => "scalar"
  | .vec n => s!"vector({n})"
  | .unknown => "?"

def widthMismatch (a b : Ty) : Bool :=
  match a, b with
  | .unknown, _ => false
  | _, .unknown => false
  | x, y => x != y

def isLiteral : Expr → Bool
  | .str _ => true
  | .chr _ => true
  | _ => false

def relOps : List String := ["=", "/=", "<", "<=", ">", ">="]

/-- a bit-string / character literal that is an operand of a comparison, a logical operator or `+`/`-` must have the width of
the other operand when that one has an evident width (`width`, sub-class literal) -/
partial def literalOperandProblems (env : Env) (line : Nat) : Expr → List Problem
  | .bin op a b =>
    let here :=
      if (relOps.contains op || binOpsLogical.contains op || op == "+" || op == "-") && (isLiteral a || isLiteral b) then
        let ta := typeOf env a
        let tb := typeOf env b
        if widthMismatch ta tb then
          [⟨"width", "", line, s!"literal operand of `{op}`: left is {tyStr ta}, right is {tyStr tb}"⟩] else []
      else []
    here ++ literalOperandProblems env line a ++ literalOperandProblems env line b
  | .call _ args _ => args.flatMap (literalOperandProblems env line)
  | .slice e _ _ => literalOperandProblems env line e
  | .others e => literalOperandProblems env line e
  | .agg c e => literalOperandProblems env line c ++ literalOperandProblems env line e
  | .un _ e => literalOperandProblems env line e
  | .attr e _ => literalOperandProblems env line e
  | _ => []

/-- initial values of object declarations (`SIGNAL s : T := "…"`, `CONSTANT C : T := x"…"`) must have the declared width -/
def initCheck (what : String) (decls : List Decl) : List Problem :=
  decls.flatMap fun d =>
    match d.init with
    | some e =>
      let te := typeOf [] e
      (if widthMismatch d.ty te then
        [⟨"width", d.name, d.line, s!"{d.kind} `{d.name}` in {what} is {tyStr d.ty}, its initial value is {if isLiteral e then "a literal of " else ""}{tyStr te}"⟩]
       else []) ++ literalOperandProblems [] d.line e
    | none => []

def exprLine (e : Expr) : Nat := ((exprNames e).map (·.2)).head?.getD 0

/-- uses of names in an expression: `undeclared` unless declared in `env` or visible through a use clause -/
def checkUses (env : Env) (visible : List String) (e : Expr) : List Problem :=
  (exprNames e).filterMap fun (n, l) =>
    match lookup env n with
    | some d => if d.line > l then some ⟨"use-before-decl", n, l, s!"`{n}` is declared in line {d.line}"⟩ else none
    | none => if visible.contains (lcs n) then none else some ⟨"undeclared", n, l, s!"`{n}` is not declared"⟩

def baseName : Expr → Option String
  | .name n _ => some n
  | .call f _ _ => some f
  | .slice e _ _ => baseName e
  | _ => none

def isWholeName : Expr → Bool
  | .name _ _ => true
  | _ => false

/-- index expressions of a target are read -/
partial def targetReads : Expr → List Expr
  | .call _ args _ => args
  | .slice e _ _ => targetReads e
  | _ => []

structure Ctx where
  env : Env
  visible : List String
  vars : List String        -- lower-cased names of the VARIABLEs of the current process

def interList (a b : List String) : List String := a.filter b.contains

/-- sequential statements: name uses, assignment widths, variables written before read.
`assigned` = variables definitely assigned so far; returns the new set and the problems -/
partial def checkStmts (c : Ctx) (assigned : List String) (ss : List Stmt) : List String × List Problem :=
  ss.foldl (fun (acc : List String × List Problem) s =>
    let (asg, ps) := acc
    let reads (e : Expr) (asg : List String) : List Problem :=
      checkUses c.env c.visible e ++ literalOperandProblems c.env (exprLine e) e ++
      (exprNames e).filterMap fun (n, l) =>
        if c.vars.contains (lcs n) && !asg.contains (lcs n) then
          some ⟨"var-read-before-write", n, l, s!"variable `{n}` is read before it is assigned in this activation"⟩ else none
    match s with
    | .assign t isVar rhs l =>
      let p1 := reads rhs asg ++ (targetReads t).flatMap (reads · asg)
      let p2 := match baseName t with
        | some b => (match lookup c.env b with
          | some d =>
            (if d.line > l then [⟨"use-before-decl", b, l, s!"`{b}` is declared in line {d.line}"⟩] else []) ++
            (if isVar != (d.kind == "variable") then
              [⟨"assign-kind", b, l, s!"`{b}` is a {d.kind} but is assigned with {if isVar then ":=" else "<="}"⟩] else []) ++
            (if d.kind == "port" && d.mode == "in" then [⟨"assign-kind", b, l, s!"`{b}` is an input port and is assigned"⟩] else [])
          | none => [⟨"undeclared", b, l, s!"assignment target `{b}` is not declared"⟩])
        | none => [⟨"parse", "", l, "unsupported assignment target"⟩]
      let tt := typeOf c.env t
      let tr := typeOf c.env rhs
      let p3 := if widthMismatch tt tr then
          [⟨"width", (baseName t).getD "", l, s!"target is {tyStr tt}, value is {if isLiteral rhs then "a literal of " else ""}{tyStr tr}"⟩] else []
      let asg' := match t, isVar with
        | .name n _, true => lcs n :: asg
        | _, _ => asg
      (asg', ps ++ p1 ++ p2 ++ p3)
    | .ifs branches els =>
      let condPs := branches.flatMap fun (cnd, _) => reads cnd asg
      let results := branches.map fun (_, body) => checkStmts c asg body
      let elsR := els.map (checkStmts c asg)
      let allPs := results.flatMap (·.2) ++ (match elsR with | some r => r.2 | none => [])
      let asg' := match elsR with
        | some r => results.foldl (fun a r => interList a r.1) r.1
        | none => asg
      (asg', ps ++ condPs ++ allPs)
    | .cases sel alts =>
      let selPs := reads sel asg ++ alts.filterMap fun (ch, _) =>
        match ch with
        | some che => if widthMismatch (typeOf c.env sel) (typeOf c.env che) then
            some ⟨"width", "", exprLine sel, s!"CASE selector is {tyStr (typeOf c.env sel)}, choice is a literal of {tyStr (typeOf c.env che)}"⟩ else none
        | none => none
      let results := alts.map fun (_, body) => checkStmts c asg body
      let hasOthers := alts.any fun (ch, _) => ch.isNone
      let asg' := match results, hasOthers with
        | r :: rs, true => rs.foldl (fun a r => interList a r.1) r.1
        | _, _ => asg
      (asg', ps ++ selPs ++ results.flatMap (·.2))
    | .ret e => (asg, ps ++ reads e asg)
    | .assertS e => (asg, ps ++ reads e asg)) (assigned, [])

def lineOfExpr : Expr → Nat
  | .name _ l => l
  | .call _ _ l => l
  | _ => 0

/-- strip a type conversion `T(x)` around a formal/actual: gives the inner name expression -/
def stripConv (env : Env) (e : Expr) : Expr :=
  match e with
  | .call f [a] _ => if (lookup env f).isNone && (vecConv.contains (lcs f) || scalarFns.contains (lcs f)) then a else e
  | e => e

partial def checkConcs (units : List Iface) (c : Ctx) (what : String) (concs : List Conc) : List Problem :=
  concs.flatMap fun k =>
    match k with
    | .proc p =>
      let region : Region := ⟨s!"process {p.label}", p.decls⟩
      let c' : Ctx := { c with env := region :: c.env, vars := (p.decls.filter (·.kind == "variable")).map (lcs ·.name) }
      dupCheck region.what p.decls ++ initCheck region.what p.decls ++
      p.sens.flatMap (checkUses c.env c.visible) ++
      (checkStmts c' [] p.body).2
    | .assign s => (checkStmts { c with vars := [] } [] [s]).2
    | .block label _ ds cs body =>
      let labels := body.filterMap fun b => match b with
        | .proc p => some ({ name := p.label, kind := "label", line := p.line } : Decl)
        | .inst l _ _ _ ln => some { name := l, kind := "label", line := ln }
        | .block l ln _ _ _ => some { name := l, kind := "label", line := ln }
        | .assign _ => none
      let region : Region := ⟨s!"block {label}", ds ++ labels⟩
      dupCheck region.what region.decls ++ initCheck region.what ds ++
      cs.flatMap (fun i => dupCheck s!"component {i.name}" i.ports) ++
      checkConcs (units ++ cs) { c with env := ⟨region.what, ds⟩ :: c.env } region.what body
    | .inst label unit isEntity assocs l =>
      let target : Option Iface :=
        if isEntity then units.reverse.find? (fun i => lcs i.name == lcs unit && i.line < l)
        else units.reverse.find? (fun i => lcs i.name == lcs unit)
      match target with
      | none => [⟨"undeclared", unit, l, s!"instance `{label}` in {what}: {if isEntity then "entity" else "component"} `{unit}` is not declared before this line"⟩]
      | some i =>
        assocs.flatMap fun (f, a) =>
          let fenv : Env := [⟨"formals", i.ports⟩]
          let f' := stripConv fenv f
          let fp := match baseName f' with
            | some fb => (match lookup fenv fb with
              | some _ => []
              | none => [⟨"undeclared", fb, l, s!"`{unit}` has no port `{fb}` (instance `{label}`)"⟩])
            | none => [⟨"parse", "", l, "unsupported formal"⟩]
          let ap := match a with
            | .openE => []
            | a => checkUses c.env c.visible a
          let tf := typeOf fenv f
          let ta := typeOf c.env a
          let wp := if widthMismatch tf ta then
              [⟨"width", (baseName f').getD "", l, s!"port association of instance `{label}`: formal is {tyStr tf}, actual is {tyStr ta}"⟩] else []
          fp ++ ap ++ wp

/-- all checks of one file (the units of one export: `work` is exactly this file) -/
def checkUnits (us : List DUnit) : List Problem := Id.run do
  let mut out : List Problem := []
  let mut lib : List Decl := []            -- primary units of `work`
  let mut entities : List Iface := []
  let mut packages : List (String × List String) := []
  let mut visible : List String := []      -- names visible through the use clauses in force for the next unit
  let mut pendingUse := false
  for u in us do
    match u with
    | .library _ =>
      if !pendingUse then visible := []
      pendingUse := true
    | .use path l =>
      if !pendingUse then visible := []
      pendingUse := true
      match path.map lcs with
      | ["ieee", "std_logic_1164", "all"] => visible := visible ++ stdNames
      | ["ieee", "numeric_std", "all"] => visible := visible ++ numericStdNames
      | ["work", p, "all"] =>
        match packages.find? (·.1 == p) with
        | some (_, ns) => visible := visible ++ ns
        | none => out := out ++ [⟨"undeclared", p, l, s!"package work.{p} is not declared before this use clause"⟩]
      | _ => out := out ++ [⟨"undeclared", ".".intercalate path, l, "use clause refers to an unknown package"⟩]
    | .package n l fs cs =>
      pendingUse := false
      lib := lib ++ [{ name := n, kind := "package", line := l }]
      let decls := fs.map (fun f => ({ name := f.name, kind := "function", line := f.line } : Decl)) ++ cs
      out := out ++ dupCheck s!"package {n}" decls ++ initCheck s!"package {n}" cs
      for f in fs do out := out ++ dupCheck s!"function {f.name}" (f.params ++ f.decls)
      packages := packages ++ [(lcs n, decls.map (lcs ·.name))]
    | .packageBody n l fs =>
      pendingUse := false
      let pk := packages.find? (·.1 == lcs n)
      if pk.isNone then out := out ++ [⟨"undeclared", n, l, s!"package body of undeclared package {n}"⟩]
      let own := (pk.map (·.2)).getD []
      for f in fs do
        let region : Region := ⟨s!"function {f.name}", f.params ++ f.decls⟩
        out := out ++ dupCheck region.what region.decls
        let c : Ctx := { env := [region], visible := visible ++ own ++ stdNames, vars := [] }
        out := out ++ (checkStmts c [] f.body).2
    | .entity i =>
      pendingUse := false
      lib := lib ++ [{ name := i.name, kind := "entity", line := i.line }]
      entities := entities ++ [i]
    | .arch n e l ds cs body =>
      pendingUse := false
      match entities.find? (fun i => lcs i.name == lcs e) with
      | none => out := out ++ [⟨"undeclared", e, l, s!"architecture {n} of undeclared entity {e}"⟩]
      | some ent =>
        let labels := body.filterMap fun b => match b with
          | .proc p => some ({ name := p.label, kind := "label", line := p.line } : Decl)
          | .inst lb _ _ _ ln => some { name := lb, kind := "label", line := ln }
          | .block lb ln _ _ _ => some { name := lb, kind := "label", line := ln }
          | .assign _ => none
        let what := s!"entity/architecture {ent.name}"
        out := out ++ dupCheck what (ent.ports ++ ds ++ labels) ++ initCheck what ds
        for c in cs do out := out ++ dupCheck s!"component {c.name}" c.ports
        let ctx : Ctx := { env := [⟨what, ent.ports ++ ds⟩], visible := visible, vars := [] }
        -- entities analysed so far (without the one being defined: no recursion) + local components
        let others := entities.filter (fun i => lcs i.name != lcs ent.name)
        out := out ++ checkConcs (others ++ cs) ctx what body
  out := dupCheck "library work" lib ++ out
  return out

/-- every word token must be a basic identifier -/
def checkWords (toks : Array T) : List Problem :=
  toks.toList.filterMap fun t =>
    match t.tok with
    | .word w => if isBasicId (bytes w) then none else some ⟨"illegal-identifier", w, t.line, "not a VHDL basic identifier"⟩
    | _ => none

structure FileReport where
  problems : List Problem
  tokens : Nat := 0
  identifiers : Nat := 0
  units : Nat := 0
  processes : Nat := 0
  instances : Nat := 0
  blocks : Nat := 0
  components : Nat := 0
  assignments : Nat := 0
  /-- every declared identifier of the file with the kind of position it stands at:
      entity package port signal variable constant component inst proc block -/
  declared : List (String × String) := []
  parsed : Bool := false

partial def declaredConcs (cs : List Conc) : List (String × String) :=
  cs.flatMap fun c =>
    match c with
    | .proc p => ("proc", p.label) :: p.decls.map (fun d => (d.kind, d.name))
    | .inst l _ _ _ _ => [("inst", l)]
    | .block l _ ds comps body => ("block", l) :: ds.map (fun d => (d.kind, d.name)) ++
        comps.flatMap (fun i => i.ports.map fun d => ("port", d.name)) ++ declaredConcs body
    | .assign _ => []

/-- all declared identifiers of the design units, with their position kind -/
def declaredNames (us : List DUnit) : List (String × String) :=
  us.flatMap fun u =>
    match u with
    | .entity i => ("entity", i.name) :: i.ports.map fun d => ("port", d.name)
    | .arch _ _ _ ds comps body => ds.map (fun d => (d.kind, d.name)) ++
        comps.flatMap (fun i => i.ports.map fun d => ("port", d.name)) ++ declaredConcs body
    | .package n _ _ cs => ("package", n) :: cs.map fun d => ("constant", d.name)
    | _ => []

partial def countStmts : List Stmt → Nat
  | [] => 0
  | s :: ss => (match s with
    | .assign .. => 1
    | .ifs bs e => bs.foldl (fun a b => a + countStmts b.2) 0 + (match e with | some b => countStmts b | none => 0)
    | .cases _ alts => alts.foldl (fun a b => a + countStmts b.2) 0
    | _ => 0) + countStmts ss

partial def countConcs (cs : List Conc) : Nat × Nat × Nat × Nat :=
  cs.foldl (fun (acc : Nat × Nat × Nat × Nat) c =>
    let (p, i, b, a) := acc
    match c with
    | .proc pr => (p + 1, i, b, a + countStmts pr.body)
    | .inst .. => (p, i + 1, b, a)
    | .block _ _ _ _ body => let (p', i', b', a') := countConcs body; (p + p', i + i', b + b' + 1, a + a')
    | .assign _ => (p, i, b, a + 1)) (0, 0, 0, 0)

def checkFile (lines : Array String) : FileReport :=
  let (toks, lexProbs) := lexFile lines
  let words := checkWords toks
  let nIds := (toks.toList.filter fun t => match t.tok with | .word w => !isKw w | _ => false).length
  match parseFile toks with
  | .error e => { problems := lexProbs.toList ++ words ++ [⟨"parse", "", 0, e⟩], tokens := toks.size, identifiers := nIds }
  | .ok (us, pprobs) =>
    let (p, i, b, a, comps) := us.foldl (fun (acc : Nat × Nat × Nat × Nat × Nat) u =>
      match u with
      | .arch _ _ _ _ cs body => let (p, i, b, a) := countConcs body; (acc.1 + p, acc.2.1 + i, acc.2.2.1 + b, acc.2.2.2.1 + a, acc.2.2.2.2 + cs.length)
      | _ => acc) (0, 0, 0, 0, 0)
    { problems := lexProbs.toList ++ words ++ pprobs.toList ++ checkUnits us, tokens := toks.size, identifiers := nIds,
      units := us.length, processes := p, instances := i, blocks := b, components := comps, assignments := a,
      declared := declaredNames us, parsed := true }

end Gatery.C13.Vhdl
