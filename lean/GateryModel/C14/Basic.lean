import GateryModel.C14.Model
/-! Helper lemmas for the soundness proof of `parse false` (the corrected `Conjunction::parseOutput`). -/
namespace Gatery.C14

theorem evalFuel_stable (g : Graph) (hwf : g.WF) (ρ : Nat → Bool) :
    ∀ i f, i < f → evalFuel g ρ f i = evalFuel g ρ (i+1) i := by
  intro i
  induction i using Nat.strongRecOn with
  | _ i ih =>
    intro f hf
    obtain ⟨f', rfl⟩ : ∃ f', f = f' + 1 := ⟨f - 1, by omega⟩
    have key : ∀ c, c < i → evalFuel g ρ f' c = evalFuel g ρ i c := by
      intro c hc
      rw [ih c hc f' (by omega), ih c hc i hc]
    by_cases hsz : i < g.size
    · have hok := hwf i hsz
      simp only [evalFuel, Array.getElem?_eq_getElem hsz]
      cases hn : g[i] with
      | leaf => simp
      | const b => simp
      | not a =>
        cases a with
        | none => simp
        | some c =>
          have hc : c < i := by simpa [hn, CNode.ok, childOk] using hok
          simp [key c hc]
      | sig a =>
        cases a with
        | none => simp
        | some c =>
          have hc : c < i := by simpa [hn, CNode.ok, childOk] using hok
          simp [key c hc]
      | and a b =>
        have hab : childOk i a ∧ childOk i b := by simpa [hn, CNode.ok] using hok
        cases a with
        | none => simp
        | some ca =>
          cases b with
          | none => simp
          | some cb =>
            have hca : ca < i := hab.1
            have hcb : cb < i := hab.2
            simp [key ca hca, key cb hcb]
      | or a b =>
        have hab : childOk i a ∧ childOk i b := by simpa [hn, CNode.ok] using hok
        cases a with
        | none =>
          cases b with
          | none => simp
          | some cb => have hcb : cb < i := hab.2; simp [key cb hcb]
        | some ca =>
          cases b with
          | none => have hca : ca < i := hab.1; simp [key ca hca]
          | some cb =>
            have hca : ca < i := hab.1
            have hcb : cb < i := hab.2
            simp [key ca hca, key cb hcb]
    · simp [evalFuel, Array.getElem?_eq_none (Nat.le_of_not_lt hsz)]

/-- value of an input port: unconnected reads false -/
def evalIn (g : Graph) (ρ : Nat → Bool) : Option Nat → Bool
  | none => false
  | some c => eval g ρ c

/-- unfolding equation for `eval` on well-formed graphs -/
theorem eval_unfold (g : Graph) (hwf : g.WF) (ρ : Nat → Bool) (i : Nat) :
    eval g ρ i =
      match g[i]? with
      | none => false
      | some .leaf => ρ i
      | some (.const b) => b
      | some (.not a) => (match a with | none => false | some c => !(eval g ρ c))
      | some (.sig a) => evalIn g ρ a
      | some (.and a b) => evalIn g ρ a && evalIn g ρ b
      | some (.or a b) => evalIn g ρ a || evalIn g ρ b := by
  have h : ∀ c, c < i → evalFuel g ρ i c = eval g ρ c :=
    fun c hc => evalFuel_stable g hwf ρ c i hc
  rw [show eval g ρ i = evalFuel g ρ (i+1) i from rfl, evalFuel]
  by_cases hsz : i < g.size
  · have hok := hwf i hsz
    simp only [Array.getElem?_eq_getElem hsz]
    cases hn : g[i] with
    | leaf => rfl
    | const b => rfl
    | not a =>
      cases a with
      | none => rfl
      | some c =>
        have hc : c < i := by simpa [hn, CNode.ok, childOk] using hok
        simp only [h c hc]
    | sig a =>
      cases a with
      | none => rfl
      | some c =>
        have hc : c < i := by simpa [hn, CNode.ok, childOk] using hok
        simp only [h c hc, evalIn]
    | and a b =>
      have hab : childOk i a ∧ childOk i b := by simpa [hn, CNode.ok] using hok
      cases a with
      | none => cases b <;> simp [evalIn]
      | some ca =>
        cases b with
        | none => simp only [h ca hab.1, evalIn]
        | some cb => simp only [h ca hab.1, h cb hab.2, evalIn]
    | or a b =>
      have hab : childOk i a ∧ childOk i b := by simpa [hn, CNode.ok] using hok
      cases a with
      | none =>
        cases b with
        | none => simp [evalIn]
        | some cb => simp only [h cb hab.2, evalIn]
      | some ca =>
        cases b with
        | none => simp only [h ca hab.1, evalIn]
        | some cb => simp only [h ca hab.1, h cb hab.2, evalIn]
  · simp [Array.getElem?_eq_none (Nat.le_of_not_lt hsz)]

/-- truth of the literal "port `p` has polarity `neg`"; an unconnected port never satisfies a literal -/
def lit (g : Graph) (ρ : Nat → Bool) (p : Option Nat) (neg : Bool) : Bool :=
  match p with | none => false | some i => eval g ρ i != neg

def idxLt (p : Option Nat) (K : Nat) : Prop := ∀ i, p = some i → i < K

/-- already visited ports *below* `K` are implied by the current conjunction -/
def VisOK (g : Graph) (ρ : Nat → Bool) (K : Nat) (s : St) : Prop :=
  s.undef = false → ∀ e ∈ s.visited, idxLt e.1 K → s.semE g ρ = true → lit g ρ e.1 e.2 = true

/-- an unconnected port in the visited map implies the `undefined` flag -/
def NoneUndef (s : St) : Prop := ∀ n, (none, n) ∈ s.visited → s.undef = true

theorem lookup_mem (s : St) (p : Option Nat) (n : Bool) (h : s.lookup p = some n) :
    (p, n) ∈ s.visited := by
  unfold St.lookup at h
  cases hf : s.visited.find? (·.1 == p) with
  | none => simp [hf] at h
  | some e =>
    simp [hf] at h
    have hm := List.mem_of_find?_eq_some hf
    have hp := List.find?_some hf
    simp at hp
    cases e with
    | mk a b => simp_all

theorem term_mem (s : St) (i : Nat) (n : Bool) (h : s.term? i = some n) :
    ∃ t ∈ s.terms, t.driver = i ∧ t.negated = n := by
  unfold St.term? at h
  cases hf : s.terms.find? (·.driver == i) with
  | none => simp [hf] at h
  | some e =>
    simp [hf] at h
    have hm := List.mem_of_find?_eq_some hf
    have hp := List.find?_some hf
    simp at hp
    exact ⟨e, hm, hp, h⟩

theorem sem_term (g : Graph) (ρ : Nat → Bool) (s : St) (t : Term)
    (hm : t ∈ s.terms) (hs : s.semE g ρ = true) : (eval g ρ t.driver != t.negated) = true := by
  unfold St.semE at hs
  simp only [Bool.and_eq_true, List.all_eq_true] at hs
  exact hs.2 t hm

theorem addTerm_sem (g : Graph) (ρ : Nat → Bool) (s : St) (i : Nat) (neg : Bool) (lld : Nat) :
    (s.addTerm i neg lld).semE g ρ = (s.semE g ρ && (eval g ρ i != neg)) := by
  unfold St.addTerm
  cases ht : s.term? i with
  | none =>
    simp only [St.semE, List.all_cons]
    cases s.contra <;> cases (eval g ρ i != neg) <;> simp
  | some n0 =>
    obtain ⟨t, hm, hd, hn⟩ := term_mem s i n0 ht
    by_cases hs : s.semE g ρ = true
    · have h1 := sem_term g ρ s t hm hs
      rw [hd, hn] at h1
      have hc : s.contra = false := by
        unfold St.semE at hs; simp at hs; exact hs.1
      have hall : s.terms.all (fun t => eval g ρ t.driver != t.negated) = true := by
        unfold St.semE at hs; simp only [Bool.and_eq_true] at hs; exact hs.2
      simp only [St.semE, hc, hall]
      cases hv : eval g ρ i <;> cases n0 <;> cases neg <;> simp_all
    · have hs' : s.semE g ρ = false := by simpa using hs
      simp only [hs', Bool.false_and]
      unfold St.semE at hs' ⊢
      cases hc : s.contra <;> simp_all

theorem addTerm_fields (s : St) (i : Nat) (neg : Bool) (lld : Nat) :
    (s.addTerm i neg lld).visited = s.visited ∧ (s.addTerm i neg lld).undef = s.undef := by
  unfold St.addTerm; cases s.term? i <;> simp

def fuelOK (p : Option Nat) (fuel : Nat) : Prop := 0 < fuel ∧ ∀ i, p = some i → i + 1 < fuel

/-- state after marking `p` visited -/
def St.mark (s : St) (p : Option Nat) (neg : Bool) : St := { s with visited := (p, neg) :: s.visited }

theorem mark_sem (g : Graph) (ρ : Nat → Bool) (s : St) (p : Option Nat) (neg : Bool) :
    (s.mark p neg).semE g ρ = s.semE g ρ := rfl

theorem parseFuel_succ (g : Graph) (fuel : Nat) (p : Option Nat) (neg cd : Bool) (lld : Nat) (s : St) :
    parseFuel false g (fuel+1) p neg cd lld s =
      match s.lookup p with
      | some n0 => if n0 != neg then { s with contra := true } else s
      | none =>
        match p with
        | none => { s.mark p neg with undef := true }
        | some i =>
          match g[i]? with
          | none => (s.mark p neg).addTerm i neg lld
          | some .leaf => (s.mark p neg).addTerm i neg lld
          | some (.or _ _) => (s.mark p neg).addTerm i neg lld
          | some (.const b) => if b != neg then s.mark p neg else { s.mark p neg with contra := true }
          | some (.not a) => parseFuel false g fuel a (!neg) neg (a.getD 0) (s.mark p neg)
          | some (.sig a) => parseFuel false g fuel a neg cd lld (s.mark p neg)
          | some (.and a b) =>
            if cd then parseFuel false g fuel a neg true (a.getD 0) (parseFuel false g fuel b neg true (b.getD 0) (s.mark p neg))
            else (s.mark p neg).addTerm i neg lld := by
  simp only [parseFuel, St.mark]
  cases s.lookup p with
  | some n0 => rfl
  | none =>
    cases p with
    | none => rfl
    | some i =>
      simp only
      cases g[i]? with
      | none => rfl
      | some n => cases n <;> simp

end Gatery.C14
