import GateryModel.C14.Verdicts
/-! `Conjunction::build`: the rebuilt circuit is equivalent to the analysed form. -/
namespace Gatery.C14

/-- `g'` is `g` with nodes appended -/
def Extends (g g' : Graph) : Prop := g.size ≤ g'.size ∧ ∀ i, i < g.size → g'[i]? = g[i]?

theorem Extends.refl (g : Graph) : Extends g g := ⟨Nat.le_refl _, fun _ _ => rfl⟩

theorem Extends.trans {a b c : Graph} (h1 : Extends a b) (h2 : Extends b c) : Extends a c :=
  ⟨Nat.le_trans h1.1 h2.1, fun i hi => by rw [h2.2 i (Nat.lt_of_lt_of_le hi h1.1), h1.2 i hi]⟩

theorem extends_push (g : Graph) (n : CNode) : Extends g (g.push n) :=
  ⟨by simp, fun i hi => by simp [Array.getElem?_push, Nat.ne_of_lt hi]⟩

theorem wf_push (g : Graph) (n : CNode) (hwf : g.WF) (hn : n.ok g.size) : Graph.WF (g.push n) := by
  intro i hi
  simp only [Array.size_push] at hi
  by_cases h : i < g.size
  · have := hwf i h
    simpa [Array.getElem_push, h] using this
  · have : i = g.size := by omega
    subst this
    simpa [Array.getElem_push] using hn

theorem eval_extends (g g' : Graph) (hwf : g.WF) (hwf' : g'.WF) (he : Extends g g') (ρ : Nat → Bool) :
    ∀ i, i < g.size → eval g' ρ i = eval g ρ i := by
  intro i
  induction i using Nat.strongRecOn with
  | _ i ih =>
    intro hi
    rw [eval_unfold g hwf ρ i, eval_unfold g' hwf' ρ i, he.2 i hi]
    have hok := hwf i hi
    rw [Array.getElem?_eq_getElem hi]
    have hin : ∀ a : Option Nat, childOk i a → evalIn g' ρ a = evalIn g ρ a := by
      intro a ha
      cases a with
      | none => rfl
      | some c => exact ih c ha (Nat.lt_trans ha hi)
    cases hn : g[i] with
    | leaf => rfl
    | const b => rfl
    | not a =>
      have hc : childOk i a := by simpa [hn, CNode.ok] using hok
      cases a with
      | none => rfl
      | some c => simp only; rw [ih c hc (Nat.lt_trans hc hi)]
    | sig a =>
      have hc : childOk i a := by simpa [hn, CNode.ok] using hok
      simp only; rw [hin a hc]
    | and a b =>
      have hc : childOk i a ∧ childOk i b := by simpa [hn, CNode.ok] using hok
      simp only; rw [hin a hc.1, hin b hc.2]
    | or a b =>
      have hc : childOk i a ∧ childOk i b := by simpa [hn, CNode.ok] using hok
      simp only; rw [hin a hc.1, hin b hc.2]

/-- value of a node given the values of its inputs in `g` -/
def nodeVal (g : Graph) (ρ : Nat → Bool) (i : Nat) : CNode → Bool
  | .leaf => ρ i
  | .const b => b
  | .not a => (match a with | none => false | some c => !(eval g ρ c))
  | .sig a => evalIn g ρ a
  | .and a b => evalIn g ρ a && evalIn g ρ b
  | .or a b => evalIn g ρ a || evalIn g ρ b

theorem eval_push_last (g : Graph) (n : CNode) (hwf : g.WF) (hn : n.ok g.size) (ρ : Nat → Bool) :
    eval (g.push n) ρ g.size = nodeVal g ρ g.size n := by
  have hwf' := wf_push g n hwf hn
  have he := extends_push g n
  rw [eval_unfold _ hwf' ρ g.size]
  have : (g.push n)[g.size]? = some n := by simp
  rw [this]
  have hin : ∀ a : Option Nat, childOk g.size a → evalIn (g.push n) ρ a = evalIn g ρ a := by
    intro a ha
    cases a with
    | none => rfl
    | some c => exact eval_extends g _ hwf hwf' he ρ c ha
  cases n with
  | leaf => rfl
  | const b => rfl
  | not a =>
    cases a with
    | none => rfl
    | some c =>
      have hc : c < g.size := hn
      simp only [nodeVal]; rw [eval_extends g _ hwf hwf' he ρ c hc]
  | sig a =>
    have hc : childOk g.size a := hn
    simp only [nodeVal]; rw [hin a hc]
  | and a b =>
    have hc : childOk g.size a ∧ childOk g.size b := hn
    simp only [nodeVal]; rw [hin a hc.1, hin b hc.2]
  | or a b =>
    have hc : childOk g.size a ∧ childOk g.size b := hn
    simp only [nodeVal]; rw [hin a hc.1, hin b hc.2]

/-! sorting does not change what the terms mean -/

theorem insertSorted_all (f : Term → Bool) (t : Term) (l : List Term) :
    (insertSorted t l).all f = (f t && l.all f) := by
  induction l with
  | nil => simp [insertSorted]
  | cons u us ih =>
    simp only [insertSorted]
    split
    · simp
    · simp only [List.all_cons, ih]
      cases f t <;> cases f u <;> simp

theorem sortTerms_all (f : Term → Bool) (l : List Term) : (sortTerms l).all f = l.all f := by
  unfold sortTerms
  induction l with
  | nil => rfl
  | cons t ts ih => simp only [List.foldr_cons, insertSorted_all, ih, List.all_cons]

theorem insertSorted_mem (t : Term) (l : List Term) (x : Term) : x ∈ insertSorted t l ↔ x = t ∨ x ∈ l := by
  induction l with
  | nil => simp [insertSorted]
  | cons u us ih =>
    simp only [insertSorted]
    split
    · simp
    · simp only [List.mem_cons, ih]
      constructor
      · rintro (h | h | h)
        · exact Or.inr (Or.inl h)
        · exact Or.inl h
        · exact Or.inr (Or.inr h)
      · rintro (h | h | h)
        · exact Or.inr (Or.inl h)
        · exact Or.inl h
        · exact Or.inr (Or.inr h)

theorem sortTerms_mem (l : List Term) (x : Term) : x ∈ sortTerms l ↔ x ∈ l := by
  unfold sortTerms
  induction l with
  | nil => simp
  | cons t ts ih => simp only [List.foldr_cons, insertSorted_mem, ih, List.mem_cons]

theorem all_congr_mem {α : Type} (l : List α) (f g : α → Bool) (h : ∀ x ∈ l, f x = g x) : l.all f = l.all g := by
  induction l with
  | nil => rfl
  | cons x xs ih =>
    simp only [List.all_cons]
    rw [h x (by simp), ih (fun y hy => h y (List.mem_cons_of_mem _ hy))]

/-- `conjunctionDriver` is inside the graph and equivalent to `driver` -/
def CdrvOK (g : Graph) (l : List Term) : Prop := ∀ t ∈ l, t.cdrv < g.size ∧ ∀ ρ, eval g ρ t.cdrv = eval g ρ t.driver

/-- the literal-building fold of `build` -/
def litStep (acc : Graph × List Nat) (u : Term) : Graph × List Nat :=
  if u.negated then (acc.1.push (.not (some u.cdrv)), acc.2 ++ [acc.1.size]) else (acc.1, acc.2 ++ [u.cdrv])

structure LitInv (g : Graph) (ts : List Term) (acc : Graph × List Nat) : Prop where
  wf : acc.1.WF
  ext : Extends g acc.1
  bound : ∀ l ∈ acc.2, l < acc.1.size
  len : acc.2.length = ts.length
  sem : ∀ ρ, (acc.2.all fun l => eval acc.1 ρ l) = ts.all (fun t => eval g ρ t.driver != t.negated)

theorem litStep_inv (g : Graph) (hwf : g.WF) (ts : List Term) (acc : Graph × List Nat) (u : Term)
    (hu : u.cdrv < g.size ∧ ∀ ρ, eval g ρ u.cdrv = eval g ρ u.driver)
    (h : LitInv g ts acc) : LitInv g (ts ++ [u]) (litStep acc u) := by
  unfold litStep
  have hcd : u.cdrv < acc.1.size := Nat.lt_of_lt_of_le hu.1 h.ext.1
  split
  · rename_i hneg
    have hok : (CNode.not (some u.cdrv)).ok acc.1.size := hcd
    have hwf' := wf_push acc.1 _ h.wf hok
    have hext' := extends_push acc.1 (.not (some u.cdrv))
    refine ⟨hwf', h.ext.trans hext', ?_, by simp [h.len], ?_⟩
    · intro l hl
      simp only [List.mem_append, List.mem_singleton] at hl
      simp only [Array.size_push]
      rcases hl with hl | rfl
      · exact Nat.lt_succ_of_lt (h.bound l hl)
      · exact Nat.lt_succ_self _
    · intro ρ
      simp only [List.all_append, List.all_cons, List.all_nil, Bool.and_true]
      have e1 : (acc.2.all fun l => eval (acc.1.push (.not (some u.cdrv))) ρ l) = (acc.2.all fun l => eval acc.1 ρ l) := by
        apply all_congr_mem
        intro l hl
        exact eval_extends acc.1 _ h.wf hwf' hext' ρ l (h.bound l hl)
      rw [e1, h.sem ρ, eval_push_last acc.1 _ h.wf hok ρ]
      simp only [nodeVal]
      rw [eval_extends g acc.1 hwf h.wf h.ext ρ u.cdrv hu.1, hu.2 ρ, hneg]
      cases eval g ρ u.driver <;> simp
  · rename_i hneg
    have hneg' : u.negated = false := by simpa using hneg
    refine ⟨h.wf, h.ext, ?_, by simp [h.len], ?_⟩
    · intro l hl
      simp only [List.mem_append, List.mem_singleton] at hl
      rcases hl with hl | rfl
      · exact h.bound l hl
      · exact hcd
    · intro ρ
      simp only [List.all_append, List.all_cons, List.all_nil, Bool.and_true]
      rw [h.sem ρ, eval_extends g acc.1 hwf h.wf h.ext ρ u.cdrv hu.1, hu.2 ρ, hneg']
      cases eval g ρ u.driver <;> simp

theorem lits_inv (g : Graph) (hwf : g.WF) (us : List Term) (hcd : CdrvOK g us) :
    ∀ (ts : List Term) (acc : Graph × List Nat), LitInv g ts acc → LitInv g (ts ++ us) (us.foldl litStep acc) := by
  induction us with
  | nil => intro ts acc h; simpa using h
  | cons u us ih =>
    intro ts acc h
    simp only [List.foldl_cons]
    have := ih (fun t ht => hcd t (List.mem_cons_of_mem _ ht)) (ts ++ [u]) _ (litStep_inv g hwf ts acc u (hcd u (by simp)) h)
    simpa using this

/-- the AND-chain fold -/
def andStep (acc : Graph × Option Nat) (l : Nat) : Graph × Option Nat :=
  (acc.1.push (.and acc.2 (some l)), some acc.1.size)

structure AndInv (g0 : Graph) (f : Nat → Bool → Prop) (acc : Graph × Option Nat) : Prop where
  wf : acc.1.WF
  ext : Extends g0 acc.1
  out : ∃ k, acc.2 = some k ∧ k < acc.1.size

theorem and_chain (g0 : Graph) (hwf0 : g0.WF) (ls : List Nat) :
    ∀ (acc : Graph × Option Nat) (k0 : Nat), acc.1.WF → Extends g0 acc.1 → acc.2 = some k0 → k0 < acc.1.size →
      (∀ l ∈ ls, l < g0.size) →
      let r := ls.foldl andStep acc
      r.1.WF ∧ Extends g0 r.1 ∧ (∃ k, r.2 = some k ∧ k < r.1.size ∧
        ∀ ρ, eval r.1 ρ k = (eval acc.1 ρ k0 && ls.all fun l => eval g0 ρ l)) := by
  induction ls with
  | nil =>
    intro acc k0 hwf hext hk hk0 _
    exact ⟨hwf, hext, k0, hk, hk0, fun ρ => by simp⟩
  | cons l ls ih =>
    intro acc k0 hwf hext hk hk0 hb
    simp only [List.foldl_cons]
    have hl : l < acc.1.size := Nat.lt_of_lt_of_le (hb l (by simp)) hext.1
    have hok : (CNode.and acc.2 (some l)).ok acc.1.size := by rw [hk]; exact ⟨hk0, hl⟩
    have hwf' := wf_push acc.1 _ hwf hok
    have hext' := extends_push acc.1 (.and acc.2 (some l))
    obtain ⟨h1, h2, k, h3, h4, h5⟩ := ih (andStep acc l) acc.1.size hwf' (hext.trans hext') rfl (by simp [andStep])
      (fun x hx => hb x (List.mem_cons_of_mem _ hx))
    refine ⟨h1, h2, k, h3, h4, fun ρ => ?_⟩
    rw [h5 ρ]
    simp only [andStep, List.all_cons]
    rw [eval_push_last acc.1 _ hwf hok ρ]
    simp only [nodeVal, hk, evalIn]
    rw [eval_extends g0 acc.1 hwf0 hwf hext ρ l (hb l (by simp))]
    cases eval acc.1 ρ k0 <;> cases eval g0 ρ l <;> simp

def evalPort (g : Graph) (ρ : Nat → Bool) : Option Nat → Bool
  | none => true
  | some k => eval g ρ k

theorem build_eq (g : Graph) (s : St) (allow : Bool) :
    build g s allow =
      match sortTerms s.terms with
      | [] => if allow then (g, none) else (g.push (.const true), some g.size)
      | t :: ts =>
        let lits := (t :: ts).foldl litStep (g, [])
        match lits.2 with
        | [] => (lits.1, none)
        | l0 :: ls => ls.foldl andStep (lits.1, some l0) := by
  unfold build
  cases sortTerms s.terms with
  | nil => rfl
  | cons t ts => rfl

/-- **`build` is equivalent to the analysed form**: the circuit appended by `build` evaluates, under every valuation,
    to the meaning of the (non-contradicting) conjunction; the original nodes are untouched. -/
theorem build_sound (g : Graph) (hwf : g.WF) (s : St) (hc : s.contra = false) (hcd : CdrvOK g s.terms) (allow : Bool) :
    (build g s allow).1.WF ∧ Extends g (build g s allow).1 ∧
    (∀ k, (build g s allow).2 = some k → k < (build g s allow).1.size) ∧
    ∀ ρ, evalPort (build g s allow).1 ρ (build g s allow).2 = s.semE g ρ := by
  rw [build_eq]
  have hsem : ∀ ρ, s.semE g ρ = (sortTerms s.terms).all (fun t => eval g ρ t.driver != t.negated) := by
    intro ρ; simp [St.semE, hc, sortTerms_all]
  have hcds : CdrvOK g (sortTerms s.terms) := fun t ht => hcd t ((sortTerms_mem _ _).mp ht)
  cases hst : sortTerms s.terms with
  | nil =>
    simp only
    cases allow with
    | true => exact ⟨hwf, Extends.refl g, fun k hk => (by cases hk), fun ρ => (by rw [hsem ρ, hst]; rfl)⟩
    | false =>
      simp only [Bool.false_eq_true, if_false]
      have hok : (CNode.const true).ok g.size := trivial
      refine ⟨wf_push g _ hwf hok, extends_push g _, fun k hk => (by cases hk; simp), fun ρ => ?_⟩
      rw [hsem ρ, hst]
      simp only [evalPort, eval_push_last g _ hwf hok ρ]
      rfl
  | cons t ts =>
    simp only
    rw [hst] at hcds hsem
    have hinv := lits_inv g hwf (t :: ts) hcds [] (g, []) ⟨hwf, Extends.refl g, fun l hl => (by cases hl), rfl, fun ρ => rfl⟩
    simp only [List.nil_append] at hinv
    generalize (t :: ts).foldl litStep (g, []) = lits at hinv
    cases hl : lits.2 with
    | nil => have := hinv.len; rw [hl] at this; simp at this
    | cons l0 ls =>
      simp only
      have hb0 : l0 < lits.1.size := hinv.bound l0 (by rw [hl]; simp)
      obtain ⟨h1, h2, k, h3, h4, h5⟩ := and_chain lits.1 hinv.wf ls (lits.1, some l0) l0 hinv.wf (Extends.refl _) rfl hb0
        (fun l hl' => hinv.bound l (by rw [hl]; exact List.mem_cons_of_mem _ hl'))
      refine ⟨h1, hinv.ext.trans h2, fun k' hk' => (by rw [h3] at hk'; cases hk'; exact h4), fun ρ => ?_⟩
      rw [h3]
      simp only [evalPort, h5 ρ, hsem ρ]
      have := hinv.sem ρ
      rw [hl] at this
      simpa using this


theorem addTerm_cdrv (g : Graph) (s : St) (i : Nat) (neg : Bool) (lld : Nat)
    (hl : lld < g.size ∧ ∀ ρ, eval g ρ lld = eval g ρ i) (h : CdrvOK g s.terms) : CdrvOK g (s.addTerm i neg lld).terms := by
  unfold St.addTerm
  cases s.term? i with
  | some n0 => exact h
  | none =>
    intro t ht
    simp only [List.mem_cons] at ht
    rcases ht with rfl | ht
    · exact hl
    · exact h t ht

theorem parseFuel_cdrv (g : Graph) (hwf : g.WF) : ∀ (fuel : Nat) (p : Option Nat) (neg cd : Bool) (lld : Nat) (s : St),
    (∀ i, p = some i → i < g.size ∧ lld < g.size ∧ ∀ ρ, eval g ρ lld = eval g ρ i) →
    CdrvOK g s.terms → CdrvOK g (parseFuel false g fuel p neg cd lld s).terms := by
  intro fuel
  induction fuel with
  | zero => intro p neg cd lld s _ h; exact h
  | succ fuel ih =>
    intro p neg cd lld s hp h
    rw [parseFuel_succ]
    cases s.lookup p with
    | some n0 => simp only; split <;> exact h
    | none =>
      simp only
      cases p with
      | none => exact h
      | some i =>
        simp only
        obtain ⟨hi, hl, hle⟩ := hp i rfl
        have hm : CdrvOK g (s.mark (some i) neg).terms := h
        have hev := fun ρ => eval_unfold g hwf ρ i
        have hok := hwf i hi
        rw [Array.getElem?_eq_getElem hi] at hev ⊢
        cases hn : g[i] with
        | leaf => exact addTerm_cdrv g _ i neg lld ⟨hl, hle⟩ hm
        | or a b => exact addTerm_cdrv g _ i neg lld ⟨hl, hle⟩ hm
        | const b => simp only; split <;> exact hm
        | not a =>
          have hc : childOk i a := by simpa [hn, CNode.ok] using hok
          apply ih _ _ _ _ _ _ hm
          intro c hc'
          subst hc'
          have : c < i := hc
          exact ⟨by omega, by simp; omega, fun ρ => by simp⟩
        | sig a =>
          have hc : childOk i a := by simpa [hn, CNode.ok] using hok
          apply ih _ _ _ _ _ _ hm
          intro c hc'
          subst hc'
          have hci : c < i := hc
          refine ⟨by omega, hl, fun ρ => ?_⟩
          rw [hle ρ, hev ρ, hn]
          rfl
        | and a b =>
          have hc : childOk i a ∧ childOk i b := by simpa [hn, CNode.ok] using hok
          simp only
          split
          · apply ih
            · intro c hc'
              subst hc'
              have : c < i := hc.1
              exact ⟨by omega, by simp; omega, fun ρ => by simp⟩
            · apply ih _ _ _ _ _ _ hm
              intro c hc'
              subst hc'
              have : c < i := hc.2
              exact ⟨by omega, by simp; omega, fun ρ => by simp⟩
          · exact addTerm_cdrv g _ i neg lld ⟨hl, hle⟩ hm

theorem parse_cdrv (g : Graph) (hwf : g.WF) (root : Nat) (hr : root < g.size) :
    CdrvOK g (parse false g (some root)).terms := by
  unfold parse
  apply parseFuel_cdrv g hwf
  · intro i hi; cases hi; exact ⟨hr, by simpa using hr, fun ρ => by simp⟩
  · intro t ht; simp at ht

end Gatery.C14
