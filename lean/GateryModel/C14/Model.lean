/-!
# C14 — model of `gtry::hlim::Conjunction` (hlim/CNF.cpp)

Condition networks are arrays of nodes whose children have smaller indices (what the harness dumps: creation order).
`parse` renders the explicit-stack loop of `Conjunction::parseOutput` (CNF.cpp:37-141) as a recursion that visits
nodes in exactly the order the stack pops them (the AND case pushes input 0 then input 1, so input 1 is explored first).
`bug := true` is the code as it was at the pinned commit (the `Node_Signal` case did not carry `canDescendIntoAnd`,
finding F1); `bug := false` is the code after the fix, which is the code the theorems are about.
-/
namespace Gatery.C14

inductive CNode where
  | leaf                      -- opaque term: pin, undefined constant, any non-AND/NOT logic, …
  | const (b : Bool)          -- defined 1-bit constant
  | not (a : Option Nat)
  | and (a b : Option Nat)
  | sig (a : Option Nat)      -- Node_Signal pass-through
  | or (a b : Option Nat)     -- some other Node_Logic op: a term for the analysis, with real semantics for the truth-table check
  deriving Repr, DecidableEq, BEq

abbrev Graph := Array CNode

def childOk (i : Nat) : Option Nat → Prop
  | none => True
  | some c => c < i

instance (i : Nat) (o : Option Nat) : Decidable (childOk i o) := by cases o <;> simp [childOk] <;> infer_instance

def CNode.ok (i : Nat) : CNode → Prop
  | .leaf => True | .const _ => True
  | .not a => childOk i a | .sig a => childOk i a
  | .and a b => childOk i a ∧ childOk i b
  | .or a b => childOk i a ∧ childOk i b

instance (i : Nat) (n : CNode) : Decidable (n.ok i) := by cases n <;> simp [CNode.ok] <;> infer_instance

/-- children precede parents: the graph is acyclic by construction -/
def Graph.WF (g : Graph) : Prop := ∀ i (h : i < g.size), (g[i]).ok i

def Graph.wfb (g : Graph) : Bool := (List.range g.size).all fun i => match g[i]? with | some n => decide (n.ok i) | none => true

/-- value of node `i` under the valuation `ρ` of the opaque terms; an unconnected input reads `false`
    (only meaningful when the analysis did not flag `undefined`) -/
def evalFuel (g : Graph) (ρ : Nat → Bool) : Nat → Nat → Bool
  | 0, _ => false
  | fuel+1, i =>
    match g[i]? with
    | none => false
    | some .leaf => ρ i
    | some (.const b) => b
    | some (.not a) => match a with | none => false | some c => !(evalFuel g ρ fuel c)
    | some (.sig a) => match a with | none => false | some c => evalFuel g ρ fuel c
    | some (.and a b) =>
      (match a with | none => false | some c => evalFuel g ρ fuel c) &&
      (match b with | none => false | some c => evalFuel g ρ fuel c)
    | some (.or a b) =>
      (match a with | none => false | some c => evalFuel g ρ fuel c) ||
      (match b with | none => false | some c => evalFuel g ρ fuel c)

def eval (g : Graph) (ρ : Nat → Bool) (i : Nat) : Bool := evalFuel g ρ (i+1) i

/-- a term of the conjunction: `driver` (the non-signal driver entering the conjunction), `negated`,
    `cdrv` = `conjunctionDriver` (the last equivalent port before the signal chain, used by `build`) -/
structure Term where
  driver : Nat
  negated : Bool
  cdrv : Nat
  deriving Repr, DecidableEq, BEq

structure St where
  visited : List (Option Nat × Bool) := []     -- `alreadyVisited`: NodePort (none = unconnected) ↦ first polarity
  terms   : List Term := []                    -- `m_terms` (keys = driver, unique)
  undef   : Bool := false                      -- `m_undefined`
  contra  : Bool := false                      -- `m_contradicting`
  deriving Repr

def St.lookup (s : St) (k : Option Nat) : Option Bool := (s.visited.find? (·.1 == k)).map (·.2)
def St.term? (s : St) (k : Nat) : Option Bool := (s.terms.find? (·.driver == k)).map (·.negated)

/-- the `doAddAsTerm` tail of the loop body (CNF.cpp:127-138) -/
def St.addTerm (s : St) (i : Nat) (neg : Bool) (lld : Nat) : St :=
  match s.term? i with
  | some n0 => { s with contra := s.contra || (n0 != neg) }
  | none => { s with terms := ⟨i, neg, lld⟩ :: s.terms }

/-- one `TraceInfo` popped from the stack, together with everything it pushes, explored depth first.
    `p` = signal, `neg` = negated, `cd` = canDescendIntoAnd, `lld` = lastLogicDriver (only meaningful when `p` is connected). -/
def parseFuel (bug : Bool) (g : Graph) : Nat → Option Nat → Bool → Bool → Nat → St → St
  | 0, _, _, _, _, s => s
  | fuel+1, p, neg, cd, lld, s =>
    match s.lookup p with
    | some n0 => if n0 != neg then { s with contra := true } else s
    | none =>
      let s := { s with visited := (p, neg) :: s.visited }
      match p with
      | none => { s with undef := true }
      | some i =>
        match g[i]? with
        | none => s.addTerm i neg lld
        | some .leaf => s.addTerm i neg lld
        | some (.or _ _) => s.addTerm i neg lld
        | some (.const b) => if b != neg then s else { s with contra := true }
        | some (.not a) => parseFuel bug g fuel a (!neg) neg (a.getD 0) s
        | some (.sig a) => parseFuel bug g fuel a neg (if bug then true else cd) lld s
        | some (.and a b) =>
          if cd then
            -- stack: push input 0, push input 1 ⇒ input 1 is popped (and fully explored) first
            let s := parseFuel bug g fuel b neg true (b.getD 0) s
            parseFuel bug g fuel a neg true (a.getD 0) s
          else s.addTerm i neg lld

/-- `Conjunction::parseOutput(root)` -/
def parse (bug : Bool) (g : Graph) (root : Option Nat) : St :=
  parseFuel bug g (g.size + 1) root false true (root.getD 0) {}

/-- what an analysed conjunction means: not contradicting and every term has its polarity -/
def St.semE (g : Graph) (ρ : Nat → Bool) (s : St) : Bool :=
  !s.contra && s.terms.all (fun t => eval g ρ t.driver != t.negated)

/-! ## Verdicts (CNF.cpp:143-216) -/

def St.find (s : St) (k : Nat) : Option Term := s.terms.find? (·.driver == k)

/-- every term of `a` occurs in `b` with the same polarity -/
def termsIn (a b : St) : Bool := a.terms.all fun t => match b.find t.driver with | some u => u.negated == t.negated | none => false

def isEqualTo (a b : St) : Bool :=
  if a.undef || b.undef then false
  else if a.contra || b.contra then a.contra && b.contra
  else if a.terms.length != b.terms.length then false
  else termsIn a b

def isNegationOf (a b : St) : Bool :=
  if a.undef || b.undef then false
  else if a.contra then !b.contra && b.terms.isEmpty
  else if b.contra then !a.contra && a.terms.isEmpty
  else if a.terms.length != b.terms.length then false
  else if a.terms.length != 1 then false
  else (a.terms.all fun t => match b.find t.driver with | some u => u.negated != t.negated | none => false) && a.terms.length > 0

def isSubsetOf (a b : St) : Bool :=
  if a.undef || b.undef then false
  else if a.contra || b.contra then false
  else termsIn a b

/-- `cannotBothBeTrue(other, checkComparisons)`; the comparison branch compares a driver with itself and can never fire -/
def cannotBothBeTrue (a b : St) : Bool :=
  if a.undef || b.undef then false
  else if a.contra || b.contra then true
  else a.terms.any fun t => match b.find t.driver with | some u => u.negated != t.negated | none => false

def intersectTermsWith (a b : St) : St :=
  { a with terms := a.terms.filter fun t => match b.find t.driver with | some u => u.negated == t.negated | none => false }

/-- `removeTerms(other)`; asserts that `other` is a subset -/
def removeTerms (a b : St) : Option St :=
  if termsIn b a then some { a with terms := a.terms.filter fun t => (b.find t.driver).isNone } else none

/-! ## `build` (CNF.cpp:218-277): NOT per negated term, AND chain over the terms sorted by node id -/

def insertSorted (t : Term) : List Term → List Term
  | [] => [t]
  | u :: us => if t.driver ≤ u.driver then t :: u :: us else u :: insertSorted t us

def sortTerms (l : List Term) : List Term := l.foldr insertSorted []

/-- append the nodes `build` creates to the graph; returns the new graph and the output port (`none` = unconnected = constant true) -/
def build (g : Graph) (s : St) (allowUnconnected : Bool) : Graph × Option Nat :=
  match sortTerms s.terms with
  | [] => if allowUnconnected then (g, none) else (g.push (.const true), some g.size)
  | t :: ts =>
    -- first all negations (in sorted order), then the AND chain
    let lits := (t :: ts).foldl (fun (acc : Graph × List Nat) u =>
      if u.negated then (acc.1.push (.not (some u.cdrv)), acc.2 ++ [acc.1.size]) else (acc.1, acc.2 ++ [u.cdrv])) (g, [])
    match lits.2 with
    | [] => (lits.1, none)
    | l0 :: ls => ls.foldl (fun (acc : Graph × Option Nat) l => (acc.1.push (.and acc.2 (some l)), some acc.1.size)) (lits.1, some l0)

end Gatery.C14
