import GateryModel.C14.Basic
/-! Soundness of the corrected `Conjunction::parseOutput`: the analysed form is equivalent to the condition. -/
namespace Gatery.C14

structure Post (g : Graph) (ρ : Nat → Bool) (p : Option Nat) (neg : Bool) (s s' : St) : Prop where
  undef_mono : s.undef = true → s'.undef = true
  undef_none : p = none → s'.undef = true
  none_undef : NoneUndef s → NoneUndef s'
  sem_mono : s'.semE g ρ = true → s.semE g ρ = true
  vis : s'.undef = false → ∀ e ∈ s'.visited,
          e ∈ s.visited ∨ (s'.semE g ρ = true → lit g ρ e.1 e.2 = true)
  sem_eq : s'.undef = false → s'.semE g ρ = (s.semE g ρ && lit g ρ p neg)

theorem visok_of_post {g : Graph} {ρ : Nat → Bool} {p : Option Nat} {neg : Bool} {s s' : St} {K : Nat}
    (hp : Post g ρ p neg s s') (hv : VisOK g ρ K s) : VisOK g ρ K s' := by
  intro hu e he hk hs
  have hu0 : s.undef = false := by
    cases h : s.undef with
    | false => rfl
    | true => have := hp.undef_mono h; simp [hu] at this
  rcases hp.vis hu e he with hold | hnew
  · exact hv hu0 e hold hk (hp.sem_mono hs)
  · exact hnew hs

theorem visok_mark (g : Graph) (ρ : Nat → Bool) (s : St) (i K : Nat) (neg : Bool)
    (hiK : i < K) (hv : VisOK g ρ K s) : VisOK g ρ i (s.mark (some i) neg) := by
  intro hu e he hk hs
  simp only [St.mark, List.mem_cons] at he
  rcases he with rfl | he
  · exact absurd (hk i rfl) (Nat.lt_irrefl i)
  · exact hv hu e he (fun j hj => Nat.lt_trans (hk j hj) hiK) hs

theorem noneundef_mark (s : St) (i : Nat) (neg : Bool) (h : NoneUndef s) : NoneUndef (s.mark (some i) neg) := by
  intro n hn
  simp only [St.mark, List.mem_cons] at hn
  rcases hn with h0 | h0
  · cases h0
  · exact h n h0

/-- lift a `Post` of the state after marking `some i` to a `Post` for node `i` itself -/
theorem post_of_inner {g : Graph} {ρ : Nat → Bool} {i : Nat} {neg : Bool} {p' : Option Nat} {neg' : Bool} {s s' : St}
    (inner : Post g ρ p' neg' (s.mark (some i) neg) s')
    (hl : s'.undef = false → lit g ρ p' neg' = lit g ρ (some i) neg) :
    Post g ρ (some i) neg s s' where
  undef_mono := fun h => inner.undef_mono h
  undef_none := fun h => by cases h
  none_undef := fun h => inner.none_undef (noneundef_mark s i neg h)
  sem_mono := fun h => inner.sem_mono h
  sem_eq := fun hu => by rw [inner.sem_eq hu, mark_sem, hl hu]
  vis := fun hu e he => by
    rcases inner.vis hu e he with hold | hnew
    · simp only [St.mark, List.mem_cons] at hold
      rcases hold with rfl | hold
      · right
        intro hs
        have := inner.sem_eq hu
        rw [hs, mark_sem, hl hu] at this
        have h2 := this.symm
        simp only [Bool.and_eq_true] at h2
        exact h2.2
      · exact Or.inl hold
    · exact Or.inr hnew

/-- a node that becomes a term (or is decided on the spot): new state has `semE' = semE && lit` and the same visited list as the mark -/
theorem post_of_direct {g : Graph} {ρ : Nat → Bool} {i : Nat} {neg : Bool} {s s' : St}
    (hvis : s'.visited = (s.mark (some i) neg).visited) (hund : s'.undef = s.undef)
    (hsem : s'.semE g ρ = (s.semE g ρ && lit g ρ (some i) neg)) :
    Post g ρ (some i) neg s s' where
  undef_mono := fun h => by rw [hund]; exact h
  undef_none := fun h => by cases h
  none_undef := fun h n hn => by
    rw [hvis] at hn; rw [hund]
    simp only [St.mark, List.mem_cons] at hn
    rcases hn with h0 | h0
    · cases h0
    · exact h n h0
  sem_mono := fun h => by rw [hsem] at h; simp only [Bool.and_eq_true] at h; exact h.1
  sem_eq := fun _ => hsem
  vis := fun _ e he => by
    rw [hvis] at he
    simp only [St.mark, List.mem_cons] at he
    rcases he with rfl | he
    · right; intro hs; rw [hsem] at hs; simp only [Bool.and_eq_true] at hs; exact hs.2
    · exact Or.inl he

theorem lit_some (g : Graph) (ρ : Nat → Bool) (i : Nat) (neg : Bool) : lit g ρ (some i) neg = (eval g ρ i != neg) := rfl

theorem parse_post (g : Graph) (hwf : g.WF) (ρ : Nat → Bool) :
    ∀ (fuel : Nat) (p : Option Nat) (neg cd : Bool) (lld : Nat) (s : St) (K : Nat),
      fuelOK p fuel → cd = !neg → idxLt p K → VisOK g ρ K s → NoneUndef s →
      Post g ρ p neg s (parseFuel false g fuel p neg cd lld s) := by
  intro fuel
  induction fuel with
  | zero => intro p neg cd lld s K hf; exact absurd hf.1 (Nat.lt_irrefl 0)
  | succ fuel ih =>
    intro p neg cd lld s K hf hcd hK hv hnu
    rw [parseFuel_succ]
    cases hlk : s.lookup p with
    | some n0 =>
      -- already visited
      have hmem := lookup_mem s p n0 hlk
      simp only
      by_cases hne : (n0 != neg) = true
      · simp only [hne, if_true]
        have hneq : n0 = !neg := by cases n0 <;> cases neg <;> simp_all
        refine ⟨fun h => h, ?_, fun h => h, ?_, ?_, ?_⟩
        · intro hp; subst hp; exact hnu n0 hmem
        · intro h; simp [St.semE] at h
        · intro _ e he; exact Or.inl he
        · intro hu
          have hsf : ({ s with contra := true } : St).semE g ρ = false := by simp [St.semE]
          rw [hsf]
          by_cases hs : s.semE g ρ = true
          · have := hv hu (p, n0) hmem hK hs
            simp only at this
            cases p with
            | none => simp [lit] at this
            | some i =>
              simp only [lit, hneq] at this ⊢
              rw [hs]
              cases h1 : eval g ρ i <;> cases neg <;> simp_all
          · simp only [Bool.not_eq_true] at hs; rw [hs]; rfl
      · have hne' : (n0 != neg) = false := by simpa using hne
        simp only [hne', Bool.false_eq_true, if_false]
        have heq : n0 = neg := by cases n0 <;> cases neg <;> simp_all
        subst heq
        refine ⟨fun h => h, ?_, fun h => h, fun h => h, ?_, ?_⟩
        · intro hp; subst hp; exact hnu n0 hmem
        · intro _ e he; exact Or.inl he
        · intro hu
          by_cases hs : s.semE g ρ = true
          · rw [hs, hv hu (p, n0) hmem hK hs]; rfl
          · simp only [Bool.not_eq_true] at hs; rw [hs]; rfl
    | none =>
      simp only
      cases p with
      | none =>
        simp only
        refine ⟨fun _ => rfl, fun _ => rfl, ?_, ?_, ?_, ?_⟩
        · intro _ n _; rfl
        · intro h; exact h
        · intro hu; simp at hu
        · intro hu; simp at hu
      | some i =>
        simp only
        have hiK : i < K := hK i rfl
        have hif : i < fuel := by have := hf.2 i rfl; omega
        have hv1 : VisOK g ρ i (s.mark (some i) neg) := visok_mark g ρ s i K neg hiK hv
        have hnu1 : NoneUndef (s.mark (some i) neg) := noneundef_mark s i neg hnu
        have term_case : Post g ρ (some i) neg s ((s.mark (some i) neg).addTerm i neg lld) := by
          apply post_of_direct
          · exact (addTerm_fields _ _ _ _).1
          · exact (addTerm_fields _ _ _ _).2
          · rw [addTerm_sem, mark_sem, lit_some]
        have hev := eval_unfold g hwf ρ i
        cases hgi : g[i]? with
        | none => exact term_case
        | some n =>
          have hisz : i < g.size := by
            by_cases hc : i < g.size
            · exact hc
            · rw [Array.getElem?_eq_none (Nat.le_of_not_lt hc)] at hgi
              cases hgi
          have hok : n.ok i := by
            have := hwf i hisz
            rw [Array.getElem?_eq_getElem hisz] at hgi
            cases hgi; exact this
          rw [hgi] at hev
          cases n with
          | leaf => exact term_case
          | or a b => exact term_case
          | const b =>
            simp only
            by_cases hb : (b != neg) = true
            · simp only [hb, if_true]
              apply post_of_direct rfl rfl
              rw [mark_sem, lit_some, hev]
              simp only at hb ⊢
              rw [hb]; simp
            · have hb' : (b != neg) = false := by simpa using hb
              simp only [hb', Bool.false_eq_true, if_false]
              refine post_of_direct (s' := { s.mark (some i) neg with contra := true }) rfl rfl ?_
              rw [lit_some, hev]
              simp only [St.semE, hb']
              simp
          | not a =>
            simp only
            have hca : childOk i a := hok
            have hfa : fuelOK a fuel := ⟨by omega, fun c hc => by subst hc; have : c < i := hca; omega⟩
            have hKa : idxLt a i := fun c hc => by subst hc; exact hca
            have inner := ih a (!neg) neg (a.getD 0) (s.mark (some i) neg) i hfa (by simp) hKa hv1 hnu1
            apply post_of_inner inner
            intro hu
            cases a with
            | none => have := inner.undef_none rfl; rw [hu] at this; cases this
            | some c =>
              simp only [lit_some, hev]
              cases eval g ρ c <;> cases neg <;> rfl
          | sig a =>
            simp only
            have hca : childOk i a := hok
            have hfa : fuelOK a fuel := ⟨by omega, fun c hc => by subst hc; have : c < i := hca; omega⟩
            have hKa : idxLt a i := fun c hc => by subst hc; exact hca
            have inner := ih a neg cd lld (s.mark (some i) neg) i hfa hcd hKa hv1 hnu1
            apply post_of_inner inner
            intro hu
            cases a with
            | none => have := inner.undef_none rfl; rw [hu] at this; cases this
            | some c => simp only [lit_some, hev, evalIn]
          | and a b =>
            simp only
            by_cases hcdt : cd = true
            · simp only [hcdt, if_true]
              have hneg : neg = false := by
                cases neg with
                | false => rfl
                | true => rw [hcdt] at hcd; cases hcd
              subst hneg
              have hcab : childOk i a ∧ childOk i b := hok
              have hfa : fuelOK a fuel := ⟨by omega, fun c hc => by subst hc; have : c < i := hcab.1; omega⟩
              have hfb : fuelOK b fuel := ⟨by omega, fun c hc => by subst hc; have : c < i := hcab.2; omega⟩
              have hKa : idxLt a i := fun c hc => by subst hc; exact hcab.1
              have hKb : idxLt b i := fun c hc => by subst hc; exact hcab.2
              have ib := ih b false true (b.getD 0) (s.mark (some i) false) i hfb (by simp) hKb hv1 hnu1
              have hv2 := visok_of_post ib hv1
              have hnu2 := ib.none_undef hnu1
              have ia := ih a false true (a.getD 0) _ i hfa (by simp) hKa hv2 hnu2
              -- compose the two explorations into one inner Post for the pair
              have hu1_of : ∀ {s2 : St}, s2 = parseFuel false g fuel a false true (a.getD 0) (parseFuel false g fuel b false true (b.getD 0) (s.mark (some i) false)) →
                  s2.undef = false → (parseFuel false g fuel b false true (b.getD 0) (s.mark (some i) false)).undef = false := by
                intro s2 hs2 hu
                cases hh : (parseFuel false g fuel b false true (b.getD 0) (s.mark (some i) false)).undef with
                | false => rfl
                | true => have := ia.undef_mono hh; rw [← hs2, hu] at this; cases this
              refine ⟨fun h => ia.undef_mono (ib.undef_mono h), fun h => (by cases h), fun h => ia.none_undef (ib.none_undef (noneundef_mark s i false h)),
                      fun h => ib.sem_mono (ia.sem_mono h), ?_, ?_⟩
              · -- vis
                intro hu e he
                have hu1 := hu1_of rfl hu
                have hsemeq : (parseFuel false g fuel a false true (a.getD 0) (parseFuel false g fuel b false true (b.getD 0) (s.mark (some i) false))).semE g ρ
                    = (s.semE g ρ && lit g ρ (some i) false) := by
                  rw [ia.sem_eq hu, ib.sem_eq hu1, mark_sem, lit_some, hev]
                  cases a with
                  | none => have := ia.undef_none rfl; rw [hu] at this; cases this
                  | some ca =>
                    cases b with
                    | none => have := ib.undef_none rfl; rw [hu1] at this; cases this
                    | some cb =>
                      simp only [lit_some, evalIn]
                      cases s.semE g ρ <;> cases eval g ρ ca <;> cases eval g ρ cb <;> rfl
                rcases ia.vis hu e he with hold | hnew
                · rcases ib.vis hu1 e hold with hold2 | hnew2
                  · simp only [St.mark, List.mem_cons] at hold2
                    rcases hold2 with rfl | hold2
                    · right; intro hs
                      rw [hsemeq] at hs
                      simp only [Bool.and_eq_true] at hs
                      exact hs.2
                    · exact Or.inl hold2
                  · right; intro hs; exact hnew2 (ia.sem_mono hs)
                · exact Or.inr hnew
              · -- sem_eq
                intro hu
                have hu1 := hu1_of rfl hu
                rw [ia.sem_eq hu, ib.sem_eq hu1, mark_sem, lit_some, hev]
                cases a with
                | none => have := ia.undef_none rfl; rw [hu] at this; cases this
                | some ca =>
                  cases b with
                  | none => have := ib.undef_none rfl; rw [hu1] at this; cases this
                  | some cb =>
                    simp only [lit_some, evalIn]
                    cases s.semE g ρ <;> cases eval g ρ ca <;> cases eval g ρ cb <;> rfl
            · have hcdf : cd = false := by simpa using hcdt
              simp only [hcdf, Bool.false_eq_true, if_false]
              exact term_case

/-- **Soundness of the analysis.** For every well-formed condition DAG, every root inside it and every valuation:
    unless the analysis reports `undefined`, the analysed conjunction is equivalent to the condition. -/
theorem parse_sound (g : Graph) (hwf : g.WF) (root : Nat) (hr : root < g.size) (ρ : Nat → Bool)
    (hu : (parse false g (some root)).undef = false) :
    (parse false g (some root)).semE g ρ = eval g ρ root := by
  have hp := parse_post g hwf ρ (g.size + 1) (some root) false true ((some root).getD 0) {} (root + 1)
    ⟨by omega, fun i hi => by cases hi; omega⟩ (by simp) (fun i hi => by cases hi; omega)
    (fun _ e he => by simp at he) (fun n hn => by simp at hn)
  have := hp.sem_eq hu
  unfold parse
  rw [this]
  simp [St.semE, lit]

end Gatery.C14
