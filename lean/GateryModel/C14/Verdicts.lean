import GateryModel.C14.Sound
/-! Soundness of the verdict functions on analysed conjunctions. -/
namespace Gatery.C14

/-- the keys of `m_terms` are unique (it is a map) -/
def Uniq (s : St) : Prop := (s.terms.map (·.driver)).Nodup

theorem find_some {s : St} {k : Nat} {u : Term} (h : s.find k = some u) : u ∈ s.terms ∧ u.driver = k := by
  unfold St.find at h
  exact ⟨List.mem_of_find?_eq_some h, by have := List.find?_some h; simpa using this⟩

theorem find_of_mem_list (l : List Term) (hu : (l.map (·.driver)).Nodup) {u : Term} (hm : u ∈ l) :
    l.find? (·.driver == u.driver) = some u := by
  induction l with
  | nil => cases hm
  | cons t ts ih =>
    simp only [List.map_cons, List.nodup_cons] at hu
    simp only [List.find?_cons]
    rcases List.mem_cons.mp hm with rfl | hm'
    · simp
    · have hne : t.driver ≠ u.driver := by
        intro e
        apply hu.1
        rw [e]
        exact List.mem_map.mpr ⟨u, hm', rfl⟩
      have : (t.driver == u.driver) = false := by simpa using hne
      simp only [this]
      exact ih hu.2 hm'

theorem find_of_mem {s : St} (hu : Uniq s) {u : Term} (hm : u ∈ s.terms) : s.find u.driver = some u :=
  find_of_mem_list s.terms hu hm

theorem semE_true_iff (g : Graph) (ρ : Nat → Bool) (s : St) :
    s.semE g ρ = true ↔ s.contra = false ∧ ∀ t ∈ s.terms, (eval g ρ t.driver != t.negated) = true := by
  unfold St.semE
  simp only [Bool.and_eq_true, Bool.not_eq_true', List.all_eq_true]

theorem termsIn_spec {a b : St} (h : termsIn a b = true) {t : Term} (ht : t ∈ a.terms) :
    ∃ u ∈ b.terms, u.driver = t.driver ∧ u.negated = t.negated := by
  unfold termsIn at h
  rw [List.all_eq_true] at h
  have := h t ht
  cases hf : b.find t.driver with
  | none => simp [hf] at this
  | some u =>
    simp only [hf, beq_iff_eq] at this
    obtain ⟨hm, hd⟩ := find_some hf
    exact ⟨u, hm, hd, this⟩

/-- `isSubsetOf`: every term of `a` is a term of `b`, hence `b` implies `a`. -/
theorem isSubsetOf_sound (g : Graph) (ρ : Nat → Bool) (a b : St) (h : isSubsetOf a b = true) :
    b.semE g ρ = true → a.semE g ρ = true := by
  unfold isSubsetOf at h
  split at h
  · cases h
  · rename_i hu
    split at h
    · cases h
    · rename_i hc
      simp only [Bool.or_eq_true, not_or, Bool.not_eq_true] at hc
      intro hb
      rw [semE_true_iff] at hb ⊢
      refine ⟨hc.1, fun t ht => ?_⟩
      obtain ⟨u, hm, hd, hn⟩ := termsIn_spec h ht
      have := hb.2 u hm
      rw [hd, hn] at this
      exact this

/-- `cannotBothBeTrue`: a common driver with opposite polarity (or a contradiction) excludes both being true. -/
theorem cannotBothBeTrue_sound (g : Graph) (ρ : Nat → Bool) (a b : St) (h : cannotBothBeTrue a b = true) :
    ¬ (a.semE g ρ = true ∧ b.semE g ρ = true) := by
  unfold cannotBothBeTrue at h
  intro ⟨ha, hb⟩
  rw [semE_true_iff] at ha hb
  split at h
  · cases h
  · split at h
    · rename_i hc
      simp only [Bool.or_eq_true] at hc
      rcases hc with hc | hc
      · rw [ha.1] at hc; cases hc
      · rw [hb.1] at hc; cases hc
    · rw [List.any_eq_true] at h
      obtain ⟨t, ht, hx⟩ := h
      cases hf : b.find t.driver with
      | none => simp [hf] at hx
      | some u =>
        simp only [hf] at hx
        obtain ⟨hm, hd⟩ := find_some hf
        have h1 := ha.2 t ht
        have h2 := hb.2 u hm
        rw [hd] at h2
        cases hv : eval g ρ t.driver <;> cases hn1 : t.negated <;> cases hn2 : u.negated <;> simp_all

theorem length_one {α} (l : List α) (h : l.length = 1) : ∃ x, l = [x] := by
  match l, h with
  | [x], _ => exact ⟨x, rfl⟩

/-- `isNegationOf`: the two conjunctions always have opposite values. -/
theorem isNegationOf_sound (g : Graph) (ρ : Nat → Bool) (a b : St) (h : isNegationOf a b = true) :
    a.semE g ρ = !b.semE g ρ := by
  unfold isNegationOf at h
  split at h
  · cases h
  · split at h
    · rename_i hac
      simp only [Bool.and_eq_true, Bool.not_eq_true', List.isEmpty_iff] at h
      simp [St.semE, hac, h.1, h.2]
    · rename_i hac
      split at h
      · rename_i hbc
        simp only [Bool.and_eq_true, Bool.not_eq_true', List.isEmpty_iff] at h
        simp [St.semE, hbc, h.1, h.2]
      · rename_i hbc
        split at h
        · cases h
        · rename_i hlen
          split at h
          · cases h
          · rename_i hl1
            simp only [bne_iff_ne, ne_eq, Decidable.not_not] at hlen hl1
            simp only [Bool.and_eq_true, List.all_eq_true, decide_eq_true_eq] at h
            obtain ⟨ta, hta⟩ := length_one a.terms hl1
            obtain ⟨tb, htb⟩ := length_one b.terms (by rw [← hlen]; exact hl1)
            have := h.1 ta (by rw [hta]; simp)
            cases hf : b.find ta.driver with
            | none => simp [hf] at this
            | some u =>
              simp only [hf] at this
              obtain ⟨hm, hd⟩ := find_some hf
              rw [htb] at hm
              simp only [List.mem_singleton] at hm
              subst hm
              have hac' : a.contra = false := by simpa using hac
              have hbc' : b.contra = false := by simpa using hbc
              simp only [St.semE, hac', hbc', hta, htb, List.all_cons, List.all_nil, Bool.and_true, Bool.not_false, Bool.true_and, hd]
              cases eval g ρ ta.driver <;> cases hn1 : ta.negated <;> cases hn2 : u.negated <;> simp_all

/-- pigeonhole on duplicate-free lists -/
theorem subset_of_nodup_length (l1 l2 : List Nat) (hn : l1.Nodup) (hs : ∀ x ∈ l1, x ∈ l2) (hl : l2.length ≤ l1.length) :
    ∀ y ∈ l2, y ∈ l1 := by
  induction l1 generalizing l2 with
  | nil =>
    intro y hy
    have : l2 = [] := List.eq_nil_of_length_eq_zero (by simpa using hl)
    rw [this] at hy; cases hy
  | cons x xs ih =>
    simp only [List.nodup_cons] at hn
    have hx : x ∈ l2 := hs x (by simp)
    have hsub : ∀ z ∈ xs, z ∈ l2.erase x := by
      intro z hz
      have hzx : z ≠ x := fun e => hn.1 (e ▸ hz)
      exact (List.mem_erase_of_ne hzx).mpr (hs z (by simp [hz]))
    have hlen : (l2.erase x).length ≤ xs.length := by
      rw [List.length_erase_of_mem hx]
      simp only [List.length_cons] at hl
      omega
    have := ih (l2.erase x) hn.2 hsub hlen
    intro y hy
    by_cases e : y = x
    · simp [e]
    · exact List.mem_cons_of_mem _ (this y ((List.mem_erase_of_ne e).mpr hy))

/-- `isEqualTo`: same terms with the same polarities (both maps, same size), hence the same value. -/
theorem isEqualTo_sound (g : Graph) (ρ : Nat → Bool) (a b : St) (hua : Uniq a) (hub : Uniq b) (h : isEqualTo a b = true) :
    a.semE g ρ = b.semE g ρ := by
  unfold isEqualTo at h
  split at h
  · cases h
  · split at h
    · simp only [Bool.and_eq_true] at h
      simp [St.semE, h.1, h.2]
    · rename_i hc
      simp only [Bool.or_eq_true, not_or, Bool.not_eq_true] at hc
      split at h
      · cases h
      · rename_i hlen
        simp only [bne_iff_ne, ne_eq, Decidable.not_not] at hlen
        -- b's drivers are among a's drivers
        have hback : ∀ y ∈ b.terms.map (·.driver), y ∈ a.terms.map (·.driver) := by
          apply subset_of_nodup_length _ _ hua
          · intro x hx
            obtain ⟨t, ht, rfl⟩ := List.mem_map.mp hx
            obtain ⟨u, hm, hd, _⟩ := termsIn_spec h ht
            exact List.mem_map.mpr ⟨u, hm, hd⟩
          · simp [hlen]
        have hba : ∀ u ∈ b.terms, ∃ t ∈ a.terms, t.driver = u.driver ∧ t.negated = u.negated := by
          intro u hu
          obtain ⟨t, ht, hd⟩ := List.mem_map.mp (hback u.driver (List.mem_map.mpr ⟨u, hu, rfl⟩))
          obtain ⟨u', hm', hd', hn'⟩ := termsIn_spec h ht
          have e1 := find_of_mem hub hm'
          have e2 := find_of_mem hub hu
          rw [hd', hd] at e1
          rw [e2] at e1
          cases e1
          exact ⟨t, ht, hd, hn'.symm⟩
        have hab : ∀ t ∈ a.terms, ∃ u ∈ b.terms, u.driver = t.driver ∧ u.negated = t.negated := fun t ht => termsIn_spec h ht
        -- both directions of the implication
        have e : (a.semE g ρ = true) ↔ (b.semE g ρ = true) := by
          rw [semE_true_iff, semE_true_iff]
          constructor
          · intro ⟨_, hA⟩
            refine ⟨hc.2, fun u hu => ?_⟩
            obtain ⟨t, ht, hd, hn⟩ := hba u hu
            have := hA t ht
            rw [hd, hn] at this; exact this
          · intro ⟨_, hB⟩
            refine ⟨hc.1, fun t ht => ?_⟩
            obtain ⟨u, hu, hd, hn⟩ := hab t ht
            have := hB u hu
            rw [hd, hn] at this; exact this
        cases ha : a.semE g ρ <;> cases hb : b.semE g ρ <;> simp_all

/-! `parse` produces duplicate-free term maps -/

theorem term?_none_not_mem (s : St) (i : Nat) (h : s.term? i = none) : i ∉ s.terms.map (·.driver) := by
  intro hm
  obtain ⟨t, ht, hd⟩ := List.mem_map.mp hm
  unfold St.term? at h
  have : s.terms.find? (·.driver == i) = none := by
    cases hf : s.terms.find? (·.driver == i) with
    | none => rfl
    | some e => simp [hf] at h
  rw [List.find?_eq_none] at this
  have := this t ht
  simp [hd] at this

theorem addTerm_uniq (s : St) (i : Nat) (neg : Bool) (lld : Nat) (h : Uniq s) : Uniq (s.addTerm i neg lld) := by
  unfold St.addTerm
  cases ht : s.term? i with
  | some n0 => exact h
  | none =>
    unfold Uniq at *
    simp only [List.map_cons, List.nodup_cons]
    exact ⟨term?_none_not_mem s i ht, h⟩

theorem parseFuel_uniq (bug : Bool) (g : Graph) : ∀ (fuel : Nat) (p : Option Nat) (neg cd : Bool) (lld : Nat) (s : St),
    Uniq s → Uniq (parseFuel bug g fuel p neg cd lld s) := by
  intro fuel
  induction fuel with
  | zero => intro p neg cd lld s h; exact h
  | succ fuel ih =>
    intro p neg cd lld s h
    simp only [parseFuel]
    cases s.lookup p with
    | some n0 => simp only; split <;> exact h
    | none =>
      simp only
      cases p with
      | none => exact h
      | some i =>
        simp only
        have hm : Uniq { s with visited := (some i, neg) :: s.visited } := h
        cases g[i]? with
        | none => exact addTerm_uniq _ _ _ _ hm
        | some n =>
          cases n with
          | leaf => exact addTerm_uniq _ _ _ _ hm
          | or a b => exact addTerm_uniq _ _ _ _ hm
          | const b => simp only; split <;> exact hm
          | not a => exact ih _ _ _ _ _ hm
          | sig a => exact ih _ _ _ _ _ hm
          | and a b =>
            simp only
            split
            · exact ih _ _ _ _ _ (ih _ _ _ _ _ hm)
            · exact addTerm_uniq _ _ _ _ hm

theorem parse_uniq (bug : Bool) (g : Graph) (root : Option Nat) : Uniq (parse bug g root) :=
  parseFuel_uniq bug g _ _ _ _ _ _ (by simp [Uniq])

end Gatery.C14
