import GateryModel.C15.Arith
import GateryModel.C15.Spec
/-!
# C15 — the FIFO under *stale observations*, with ghost counters

`AState` = the circuit state (`Core`) plus ghost values that the circuit does not have:
unbounded totals `P` (accepted pushes) and `G` (yielded pops), the last observations `oG`, `oP` used by
the push / pop side, the list `hist` of all accepted payloads and the list `out` of all yielded ones.

`astep c a e og op` runs the two side step functions of the model (`coreStep`) with the *environment-chosen*
observations `og`, `op` (the circuit sees them truncated to `k+1` bits).  `Stale` is all that is assumed about
them — what a register chain or a gray-code synchroniser provides:

* the push side sees some value of the pop pointer that is not older than what it saw before and not newer
  than the pointer after this event (`oG ≤ og ≤ G'`), symmetrically for the pop side, and
* the pop side does not see a pointer value covering a word that its memory read cannot see yet.

`Inv` is the inductive invariant; `inv_astep` shows it is preserved by every event.
-/
namespace Gatery.C15
variable {α : Type}

structure Ghost (α : Type) where
  P : Nat
  G : Nat
  oG : Nat
  oP : Nat
  hist : List α
  out : List α
  afLvl : Nat
  aeLvl : Nat

structure AState (α : Type) where
  core : Core α
  g : Ghost α

/-- an item is accepted in this event -/
def accNow (a : AState α) (e : Ev α) : Bool := e.pushClk && pushValid a.core e.pushReq
/-- an item is yielded in this event -/
def yldNow (a : AState α) (e : Ev α) : Bool := e.popClk && popValid a.core e.popReq

def astep (c : Cfg) (a : AState α) (e : Ev α) (og op : Nat) : AState α :=
  { core := coreStep c a.core e (og % c.M) (op % c.M)
    g := { P := a.g.P + (accNow a e).toNat
           G := a.g.G + (yldNow a e).toNat
           oG := if e.pushClk then og else a.g.oG
           oP := if e.popClk then op else a.g.oP
           hist := if accNow a e then a.g.hist ++ [e.data] else a.g.hist
           out := if yldNow a e then a.g.out ++ [a.core.peek] else a.g.out
           afLvl := if e.pushClk then e.afLevel else a.g.afLvl
           aeLvl := if e.popClk then e.aeLevel % c.M else a.g.aeLvl } }

/-- The stale-observation relation. -/
structure Stale (c : Cfg) (a : AState α) (e : Ev α) (og op : Nat) : Prop where
  get_lo : e.pushClk = true → a.g.oG ≤ og
  get_hi : e.pushClk = true → og ≤ a.g.G + (yldNow a e).toNat
  put_lo : e.popClk = true → a.g.oP ≤ op
  put_hi : e.popClk = true → op ≤ a.g.P + (if c.lw ≤ 1 then (accNow a e).toNat else 0)

/-- resets are released -/
def NoRst (e : Ev α) : Prop := e.pushRst = false ∧ e.popRst = false

instance (e : Ev α) : Decidable (NoRst e) := by unfold NoRst; infer_instance

structure Inv (c : Cfg) (a : AState α) : Prop where
  put_eq : a.core.put = a.g.P % c.M
  get_eq : a.core.get = a.g.G % c.M
  oG_le : a.g.oG ≤ a.g.G
  G_le : a.g.G ≤ a.g.oP
  oP_le : a.g.oP ≤ a.g.P
  P_le : a.g.P ≤ a.g.oG + c.N
  full_eq : a.core.full = decide (a.g.P = a.g.oG + c.N)
  empty_eq : a.core.empty = decide (a.g.oP = a.g.G)
  hist_len : a.g.hist.length = a.g.P
  out_eq : a.g.out = a.g.hist.take a.g.G
  mem_len : a.core.mem.length = c.N
  mem_ok : ∀ i, a.g.G ≤ i → i < a.g.P → a.core.mem[i % c.N]? = a.g.hist[i]?
  peek_ok : a.g.G < a.g.oP → some a.core.peek = a.g.hist[a.g.G]?
  af_ok : a.g.afLvl ≤ c.N → a.core.af = false → a.g.P + a.g.afLvl < a.g.G + c.N
  ae_ok : a.core.ae = false → a.g.aeLvl + a.g.G < a.g.P

def ainit (c : Cfg) (x : α) : AState α :=
  { core := (init c x).core
    g := { P := 0, G := 0, oG := 0, oP := 0, hist := [], out := [], afLvl := 0, aeLvl := 0 } }

theorem inv_ainit (c : Cfg) (x : α) : Inv c (ainit c x) := by
  have := c.N_pos
  constructor <;> simp [ainit, init] <;> omega

/-! ### field-wise description of `coreStep` -/

section fields
variable (c : Cfg) (s : Core α) (e : Ev α) (og op : Nat)

theorem coreStep_put (h : e.pushRst = false) :
    (coreStep c s e og op).put = if e.pushClk then putNext c s e.pushReq else s.put := by
  unfold coreStep pushStep popStep; cases e.pushClk <;> cases e.popClk <;> simp [h]

theorem coreStep_get (h : e.popRst = false) :
    (coreStep c s e og op).get = if e.popClk then getNext c s e.popReq else s.get := by
  unfold coreStep pushStep popStep getNext popValid; cases e.pushClk <;> cases e.popClk <;> simp [h]

theorem coreStep_full (h : e.pushRst = false) :
    (coreStep c s e og op).full = if e.pushClk then fullCond c (putNext c s e.pushReq) og else s.full := by
  unfold coreStep pushStep popStep; cases e.pushClk <;> cases e.popClk <;> simp [h]

theorem coreStep_empty (h : e.popRst = false) :
    (coreStep c s e og op).empty = if e.popClk then emptyCond c op (getNext c s e.popReq) else s.empty := by
  unfold coreStep pushStep popStep getNext popValid; cases e.pushClk <;> cases e.popClk <;> simp [h]

theorem coreStep_af (h : e.pushRst = false) :
    (coreStep c s e og op).af =
      if e.pushClk then decide (ptrSub c c.N (e.afLevel % c.M) ≤ ptrSub c (putNext c s e.pushReq) og) else s.af := by
  unfold coreStep pushStep popStep; cases e.pushClk <;> cases e.popClk <;> simp [h]

theorem coreStep_ae (h : e.popRst = false) :
    (coreStep c s e og op).ae =
      if e.popClk then decide (ptrSub c op (getNext c s e.popReq) ≤ e.aeLevel % c.M) else s.ae := by
  unfold coreStep pushStep popStep getNext popValid; cases e.pushClk <;> cases e.popClk <;> simp [h]

theorem coreStep_mem :
    (coreStep c s e og op).mem =
      if (e.pushClk && pushValid s e.pushReq) then s.mem.set (s.put % c.N) e.data else s.mem := by
  unfold coreStep pushStep popStep; cases e.pushClk <;> cases e.popClk <;> simp

theorem coreStep_peek :
    (coreStep c s e og op).peek =
      if e.popClk then
        ((if c.lw ≤ 1 then (coreStep c s e og op).mem else s.mem)[getNext c s e.popReq % c.N]?).getD s.peek
      else s.peek := by
  unfold coreStep pushStep popStep getNext popValid
  cases e.pushClk <;> cases e.popClk <;> simp
  all_goals (split <;> simp)

end fields

/-! ### preservation -/

theorem putNext_eq (c : Cfg) (a : AState α) (e : Ev α) (h : a.core.put = a.g.P % c.M) (hc : e.pushClk = true) :
    putNext c a.core e.pushReq = (a.g.P + (accNow a e).toNat) % c.M := by
  unfold putNext accNow; rw [h, hc, Nat.mod_add_mod]; simp

theorem getNext_eq (c : Cfg) (a : AState α) (e : Ev α) (h : a.core.get = a.g.G % c.M) (hc : e.popClk = true) :
    getNext c a.core e.popReq = (a.g.G + (yldNow a e).toNat) % c.M := by
  unfold getNext yldNow; rw [h, hc, Nat.mod_add_mod]; simp

theorem acc_not_full (c : Cfg) (a : AState α) (e : Ev α) (hi : Inv c a) (h : accNow a e = true) :
    e.pushClk = true ∧ a.g.P ≠ a.g.oG + c.N := by
  unfold accNow pushValid at h
  rw [hi.full_eq] at h
  simp only [Bool.and_eq_true, Bool.not_eq_true', decide_eq_false_iff_not] at h
  exact ⟨h.1, h.2.2⟩

theorem yld_not_empty (c : Cfg) (a : AState α) (e : Ev α) (hi : Inv c a) (h : yldNow a e = true) :
    e.popClk = true ∧ a.g.oP ≠ a.g.G := by
  unfold yldNow popValid at h
  rw [hi.empty_eq] at h
  simp only [Bool.and_eq_true, Bool.not_eq_true', decide_eq_false_iff_not] at h
  exact ⟨h.1, h.2.2⟩

theorem acc_clk (a : AState α) (e : Ev α) (h : e.pushClk = false) : accNow a e = false := by
  unfold accNow; simp [h]
theorem yld_clk (a : AState α) (e : Ev α) (h : e.popClk = false) : yldNow a e = false := by
  unfold yldNow; simp [h]

/-- the memory after the event still holds every live item (and the one written now) -/
theorem mem_ok_step (c : Cfg) (a : AState α) (e : Ev α) (og op : Nat) (hi : Inv c a) :
    ∀ i, a.g.G ≤ i → i < a.g.P + (accNow a e).toNat →
      (coreStep c a.core e (og % c.M) (op % c.M)).mem[i % c.N]? =
        (if accNow a e then a.g.hist ++ [e.data] else a.g.hist)[i]? := by
  intro i h1 h2
  rw [coreStep_mem]
  have hN := c.N_pos
  cases hacc : accNow a e
  · have : (e.pushClk && pushValid a.core e.pushReq) = false := hacc
    simp only [this, Bool.false_eq_true, ↓reduceIte]
    exact hi.mem_ok i h1 (by simpa [hacc] using h2)
  · have hx : (e.pushClk && pushValid a.core e.pushReq) = true := hacc
    obtain ⟨_, hnf⟩ := acc_not_full c a e hi hacc
    simp only [hx, ↓reduceIte]
    rw [hi.put_eq, mod_mod_N]
    simp only [hacc, Bool.toNat_true] at h2
    have hP := hi.P_le; have hoG := hi.oG_le
    by_cases hip : i = a.g.P
    · subst hip
      rw [List.getElem?_set_self (by rw [hi.mem_len]; exact Nat.mod_lt _ hN)]
      rw [← hi.hist_len]; simp
    · have hlt : i < a.g.P := by omega
      have hne : a.g.P % c.N ≠ i % c.N := by
        have := low_ne_of_lt c.N i (a.g.P - i) (by omega) (by omega)
        rwa [show i + (a.g.P - i) = a.g.P by omega] at this
      rw [List.getElem?_set_ne hne, List.getElem?_append_left (by rw [hi.hist_len]; exact hlt)]
      exact hi.mem_ok i h1 hlt

theorem inv_astep (c : Cfg) (a : AState α) (e : Ev α) (og op : Nat)
    (hi : Inv c a) (hr : NoRst e) (hs : Stale c a e og op) : Inv c (astep c a e og op) := by
  obtain ⟨hr1, hr2⟩ := hr
  have hN := c.N_pos
  have hNM := c.N_lt_M
  have hacc := acc_not_full c a e hi
  have hyld := yld_not_empty c a e hi
  have haccN : (accNow a e).toNat ≤ 1 := Bool.toNat_le _
  have hyldN : (yldNow a e).toNat ≤ 1 := Bool.toNat_le _
  have h1 := hi.oG_le; have h2 := hi.G_le; have h3 := hi.oP_le; have h4 := hi.P_le
  have hmem := mem_ok_step c a e og op hi
  -- consequences of accepting / yielding now
  have hA : (accNow a e).toNat = 1 → a.g.P < a.g.oG + c.N := by
    intro h; have := hacc (by cases hh : accNow a e <;> simp_all); omega
  have hY : (yldNow a e).toNat = 1 → a.g.G < a.g.oP := by
    intro h; have := hyld (by cases hh : yldNow a e <;> simp_all); omega
  have hA0 : e.pushClk = false → (accNow a e).toNat = 0 := fun h => by simp [acc_clk a e h]
  have hY0 : e.popClk = false → (yldNow a e).toNat = 0 := fun h => by simp [yld_clk a e h]
  have hputhi : e.popClk = true → op ≤ a.g.P + (accNow a e).toNat := by
    intro h; have := hs.put_hi h; split at this <;> omega
  constructor
  · -- put
    show (coreStep c a.core e _ _).put = (a.g.P + (accNow a e).toNat) % c.M
    rw [coreStep_put _ _ _ _ _ hr1]
    cases hc : e.pushClk
    · simp [hA0 hc, hi.put_eq]
    · simp only [↓reduceIte]; exact putNext_eq c a e hi.put_eq hc
  · show (coreStep c a.core e _ _).get = (a.g.G + (yldNow a e).toNat) % c.M
    rw [coreStep_get _ _ _ _ _ hr2]
    cases hc : e.popClk
    · simp [hY0 hc, hi.get_eq]
    · simp only [↓reduceIte]; exact getNext_eq c a e hi.get_eq hc
  · -- oG' ≤ G'
    show (if e.pushClk then og else a.g.oG) ≤ a.g.G + (yldNow a e).toNat
    cases hc : e.pushClk
    · simp; omega
    · simp only [↓reduceIte]; exact hs.get_hi hc
  · -- G' ≤ oP'
    show a.g.G + (yldNow a e).toNat ≤ (if e.popClk then op else a.g.oP)
    cases hc : e.popClk
    · simp [hY0 hc]; omega
    · simp only [↓reduceIte]; have := hs.put_lo hc; omega
  · -- oP' ≤ P'
    show (if e.popClk then op else a.g.oP) ≤ a.g.P + (accNow a e).toNat
    cases hc : e.popClk
    · simp; omega
    · simp only [↓reduceIte]; exact hputhi hc
  · -- P' ≤ oG' + N
    show a.g.P + (accNow a e).toNat ≤ (if e.pushClk then og else a.g.oG) + c.N
    cases hc : e.pushClk
    · simp [hA0 hc]; omega
    · simp only [↓reduceIte]; have := hs.get_lo hc; omega
  · -- full
    show (coreStep c a.core e _ _).full = decide (a.g.P + (accNow a e).toNat = (if e.pushClk then og else a.g.oG) + c.N)
    rw [coreStep_full _ _ _ _ _ hr1]
    cases hc : e.pushClk
    · simp [hA0 hc, hi.full_eq]
    · simp only [↓reduceIte]
      rw [putNext_eq c a e hi.put_eq hc]
      have := hs.get_lo hc; have := hs.get_hi hc
      exact fullCond_eq c _ _ (by omega) (by omega)
  · -- empty
    show (coreStep c a.core e _ _).empty = decide ((if e.popClk then op else a.g.oP) = a.g.G + (yldNow a e).toNat)
    rw [coreStep_empty _ _ _ _ _ hr2]
    cases hc : e.popClk
    · simp [hY0 hc, hi.empty_eq]
    · simp only [↓reduceIte]
      rw [getNext_eq c a e hi.get_eq hc]
      have := hs.put_lo hc; have := hputhi hc
      exact emptyCond_eq c _ _ (by omega) (by omega)
  · -- hist length
    show (if accNow a e then a.g.hist ++ [e.data] else a.g.hist).length = a.g.P + (accNow a e).toNat
    cases accNow a e <;> simp [hi.hist_len]
  · -- out = take G' hist'
    show (if yldNow a e then a.g.out ++ [a.core.peek] else a.g.out) =
      (if accNow a e then a.g.hist ++ [e.data] else a.g.hist).take (a.g.G + (yldNow a e).toNat)
    have htake : ∀ n, n ≤ a.g.P →
        (if accNow a e then a.g.hist ++ [e.data] else a.g.hist).take n = a.g.hist.take n := by
      intro n hn
      cases accNow a e
      · simp
      · simp only [↓reduceIte]; exact List.take_append_of_le_length (by rw [hi.hist_len]; exact hn)
    cases hy : yldNow a e
    · simp only [Bool.false_eq_true, ↓reduceIte, Bool.toNat_false, Nat.add_zero]
      rw [htake _ (by omega)]; exact hi.out_eq
    · have hlt := hY (by simp [hy])
      simp only [↓reduceIte, Bool.toNat_true]
      rw [htake _ (by omega), List.take_add_one, ← hi.peek_ok hlt, hi.out_eq]; rfl
  · -- mem length
    show (coreStep c a.core e _ _).mem.length = c.N
    rw [coreStep_mem]; split <;> simp [hi.mem_len]
  · -- mem_ok
    intro i hi1 hi2
    exact hmem i (by show a.g.G ≤ i; have : a.g.G + (yldNow a e).toNat ≤ i := hi1; omega) hi2
  · -- peek_ok
    show a.g.G + (yldNow a e).toNat < (if e.popClk then op else a.g.oP) →
      some (coreStep c a.core e _ _).peek = (if accNow a e then a.g.hist ++ [e.data] else a.g.hist)[a.g.G + (yldNow a e).toNat]?
    have hget : ∀ n, n < a.g.P →
        (if accNow a e then a.g.hist ++ [e.data] else a.g.hist)[n]? = a.g.hist[n]? := by
      intro n hn
      cases accNow a e
      · simp
      · simp only [↓reduceIte]; exact List.getElem?_append_left (by rw [hi.hist_len]; exact hn)
    rw [coreStep_peek]
    cases hc : e.popClk
    · simp only [Bool.false_eq_true, ↓reduceIte, hY0 hc, Nat.add_zero]
      intro hlt
      rw [hget _ (by omega)]; exact hi.peek_ok hlt
    · simp only [↓reduceIte]
      intro hlt
      rw [getNext_eq c a e hi.get_eq hc, mod_mod_N]
      have hop := hs.put_hi hc
      have hlen : (if accNow a e then a.g.hist ++ [e.data] else a.g.hist).length = a.g.P + (accNow a e).toNat := by
        cases accNow a e <;> simp [hi.hist_len]
      have hrd : (if c.lw ≤ 1 then (coreStep c a.core e (og % c.M) (op % c.M)).mem else a.core.mem)[(a.g.G + (yldNow a e).toNat) % c.N]? =
          (if accNow a e then a.g.hist ++ [e.data] else a.g.hist)[a.g.G + (yldNow a e).toNat]? := by
        by_cases hb : c.lw ≤ 1
        · simp only [hb, ↓reduceIte] at hop ⊢
          exact hmem _ (by omega) (by omega)
        · simp only [hb, ↓reduceIte] at hop ⊢
          rw [hget _ (by omega)]
          exact hi.mem_ok _ (by omega) (by omega)
      rw [hrd]
      have hin : a.g.G + (yldNow a e).toNat < (if accNow a e then a.g.hist ++ [e.data] else a.g.hist).length := by
        rw [hlen]; have := hputhi hc; omega
      rw [List.getElem?_eq_getElem hin]; simp
  · -- af
    show (if e.pushClk then e.afLevel else a.g.afLvl) ≤ c.N → (coreStep c a.core e _ _).af = false →
      a.g.P + (accNow a e).toNat + (if e.pushClk then e.afLevel else a.g.afLvl) < a.g.G + (yldNow a e).toNat + c.N
    rw [coreStep_af _ _ _ _ _ hr1]
    cases hc : e.pushClk
    · simp only [Bool.false_eq_true, ↓reduceIte, hA0 hc]
      intro hl haf; have := hi.af_ok hl haf; omega
    · simp only [↓reduceIte]
      intro hl haf
      rw [putNext_eq c a e hi.put_eq hc, ptrSub_level c _ hl] at haf
      have := hs.get_lo hc; have := hs.get_hi hc
      rw [ptrSub_eq c _ _ (by omega) (by omega)] at haf
      simp only [decide_eq_false_iff_not] at haf
      omega
  · -- ae
    show (coreStep c a.core e _ _).ae = false →
      (if e.popClk then e.aeLevel % c.M else a.g.aeLvl) + (a.g.G + (yldNow a e).toNat) < a.g.P + (accNow a e).toNat
    rw [coreStep_ae _ _ _ _ _ hr2]
    cases hc : e.popClk
    · simp only [Bool.false_eq_true, ↓reduceIte, hY0 hc]
      intro hae; have := hi.ae_ok hae; omega
    · simp only [↓reduceIte]
      intro hae
      rw [getNext_eq c a e hi.get_eq hc] at hae
      have := hs.put_lo hc; have := hputhi hc
      rw [ptrSub_eq c _ _ (by omega) (by omega)] at hae
      simp only [decide_eq_false_iff_not] at hae
      omega

/-! ### runs of the abstract system -/

/-- an event together with the two observations the environment supplies -/
abbrev OEv (α : Type) := Ev α × Nat × Nat

def arun (c : Cfg) (a : AState α) : List (OEv α) → AState α
  | [] => a
  | (e, og, op) :: es => arun c (astep c a e og op) es

/-- every step of the run has released resets and stale observations -/
def StaleRun (c : Cfg) (a : AState α) : List (OEv α) → Prop
  | [] => True
  | (e, og, op) :: es => NoRst e ∧ Stale c a e og op ∧ StaleRun c (astep c a e og op) es

theorem inv_arun (c : Cfg) (a : AState α) (es : List (OEv α)) (hi : Inv c a) (hs : StaleRun c a es) :
    Inv c (arun c a es) := by
  induction es generalizing a with
  | nil => exact hi
  | cons x es ih =>
    obtain ⟨e, og, op⟩ := x
    obtain ⟨hr, hst, hrest⟩ := hs
    exact ih _ (inv_astep c a e og op hi hr hst) hrest

end Gatery.C15
