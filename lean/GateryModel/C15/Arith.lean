import GateryModel.C15.Model
/-!
# C15 — arithmetic of `(k+1)`-bit pointers against unbounded ghost counters

`a`, `b` are unbounded counters (total pushes / pops, or earlier values of them) with `b ≤ a ≤ b + N`;
the circuit only sees `a % M`, `b % M` with `M = 2N`.  The lemmas show that the circuit's comparisons and
subtractions on the truncated pointers compute the true relations between the unbounded counters.
-/
namespace Gatery.C15

theorem Cfg.N_pos (c : Cfg) : 0 < c.N := Nat.pow_pos (by decide)
theorem Cfg.M_eq (c : Cfg) : c.M = c.N * 2 := by unfold Cfg.M; omega
theorem Cfg.N_lt_M (c : Cfg) : c.N < c.M := by have := c.N_pos; unfold Cfg.M; omega
theorem Cfg.M_pos (c : Cfg) : 0 < c.M := by have := c.N_lt_M; omega

/-- remainder of a number below `2M` -/
theorem mod_two_range (r M : Nat) (h : r < 2 * M) : r % M = if r < M then r else r - M := by
  split
  · exact Nat.mod_eq_of_lt ‹_›
  · rw [Nat.mod_eq_sub_mod (by omega)]
    exact Nat.mod_eq_of_lt (by omega)

theorem mod_mod_N (c : Cfg) (a : Nat) : a % c.M % c.N = a % c.N := by
  rw [c.M_eq]; exact Nat.mod_mul_right_mod a c.N 2

theorem mod_div_N (c : Cfg) (a : Nat) : a % c.M / c.N = a / c.N % 2 := by
  rw [c.M_eq]; exact Nat.mod_mul_right_div_self a c.N 2

/-- two counters less than `N` apart have different low parts -/
theorem low_ne_of_lt (N b d : Nat) (h0 : 0 < d) (h1 : d < N) : (b + d) % N ≠ b % N := by
  intro h
  have := Nat.sub_mod_eq_zero_of_mod_eq h
  rw [Nat.add_sub_cancel_left, Nat.mod_eq_of_lt h1] at this
  omega

/-- the truncated subtraction is the true difference -/
theorem ptrSub_eq (c : Cfg) (a b : Nat) (h1 : b ≤ a) (h2 : a - b < c.M) :
    ptrSub c (a % c.M) (b % c.M) = a - b := by
  unfold ptrSub
  have hM := c.M_pos
  have hb : b % c.M < c.M := Nat.mod_lt _ hM
  obtain ⟨d, rfl⟩ : ∃ d, a = b + d := ⟨a - b, by omega⟩
  have hd : d < c.M := by omega
  have e1 : (b + d) % c.M = (b % c.M + d) % c.M := (Nat.mod_add_mod b c.M d).symm
  rw [e1, mod_two_range (b % c.M + d) c.M (by omega)]
  split
  · have : b % c.M + d + c.M - b % c.M = d + c.M := by omega
    rw [this, Nat.add_mod_right, Nat.mod_eq_of_lt hd]; omega
  · have : b % c.M + d - c.M + c.M - b % c.M = d := by omega
    rw [this, Nat.mod_eq_of_lt hd]; omega

/-- `N - level` as computed at width `k+1` (Fifo.h:208) -/
theorem ptrSub_level (c : Cfg) (lvl : Nat) (h : lvl ≤ c.N) : ptrSub c c.N (lvl % c.M) = c.N - lvl := by
  unfold ptrSub
  have := c.N_lt_M
  have hl : lvl % c.M = lvl := Nat.mod_eq_of_lt (by omega)
  have e : c.N + c.M - lvl = (c.N - lvl) + c.M := by omega
  rw [hl, e, Nat.add_mod_right, Nat.mod_eq_of_lt (by omega)]

private theorem cmp_core (c : Cfg) (a b : Nat) (h1 : b ≤ a) (h2 : a ≤ b + c.N) :
    (a % c.N = b % c.N ↔ (a = b ∨ a = b + c.N)) ∧ (a = b → a / c.N = b / c.N) ∧
    (a = b + c.N → a / c.N = b / c.N + 1) := by
  have hN := c.N_pos
  refine ⟨⟨fun h => ?_, fun h => ?_⟩, fun h => by rw [h], fun h => by rw [h, Nat.add_div_right _ hN]⟩
  · obtain ⟨d, rfl⟩ : ∃ d, a = b + d := ⟨a - b, by omega⟩
    by_cases hd0 : d = 0
    · left; omega
    · by_cases hdN : d = c.N
      · right; omega
      · exact absurd h (low_ne_of_lt c.N b d (by omega) (by omega))
  · rcases h with h | h
    · rw [h]
    · rw [h, Nat.add_mod_right]

/-- Fifo.h:377 decides `a = b + N` -/
theorem fullCond_eq (c : Cfg) (a b : Nat) (h1 : b ≤ a) (h2 : a ≤ b + c.N) :
    fullCond c (a % c.M) (b % c.M) = decide (a = b + c.N) := by
  unfold fullCond
  obtain ⟨hlow, hq0, hqN⟩ := cmp_core c a b h1 h2
  have hN := c.N_pos
  rw [mod_mod_N, mod_mod_N, mod_div_N, mod_div_N]
  by_cases hf : a = b + c.N
  · have := hqN hf
    have hl := hlow.2 (Or.inr hf)
    simp only [hf, decide_true, Bool.and_eq_true, bne_iff_ne, ne_eq, beq_iff_eq]
    rw [hf] at this hl
    exact ⟨by omega, hl⟩
  · simp only [hf, decide_false, Bool.and_eq_false_iff, bne_eq_false_iff_eq, beq_eq_false_iff_ne, ne_eq]
    by_cases he : a = b
    · left; rw [hq0 he]
    · right; intro h; rcases hlow.1 h with h | h <;> contradiction

/-- Fifo.h:403 decides `a = b` -/
theorem emptyCond_eq (c : Cfg) (a b : Nat) (h1 : b ≤ a) (h2 : a ≤ b + c.N) :
    emptyCond c (a % c.M) (b % c.M) = decide (a = b) := by
  unfold emptyCond
  obtain ⟨hlow, hq0, hqN⟩ := cmp_core c a b h1 h2
  have hN := c.N_pos
  rw [mod_mod_N, mod_mod_N, mod_div_N, mod_div_N]
  by_cases he : a = b
  · subst he; simp
  · simp only [he, decide_false, Bool.and_eq_false_iff, beq_eq_false_iff_ne, ne_eq]
    by_cases hf : a = b + c.N
    · left; have := hqN hf; omega
    · right; intro h; rcases hlow.1 h with h | h <;> contradiction

end Gatery.C15
