import GateryModel.C15.Spec
/-!
# C15 — model of `gtry::scl::FifoArray<SigT>` (source/gatery/scl/FifoArray.h)

`2^kf` FIFOs of `N = 2^k` elements behind ONE push port with a selector and ONE pop port with a selector, single
clock.  The circuit (FifoArray.h:171-227) keeps, per FIFO, a put and a get pointer `cat(trick, value)` of `k+1`
bits in two pointer memories (asynchronous read, `initZero`), and the payload in one data memory addressed by
`cat(selector, pointer.value)`; `full`, `empty`, `size` and `peek` are *combinational* functions of the entries
selected in this cycle:

* `empty = isEmpty(put[popSel], get[popSel])`, `size = put[popSel] - get[popSel]`      (FifoArray.h:203-204)
* `peek  = dataMem[cat(popSel, get[popSel].value)]` when `!empty`, don't-care otherwise   (FifoArray.h:206-208)
* `IF(!empty & mustPop) get[popSel] += 1`                                               (FifoArray.h:209-210)
* `full  = isFull(put[pushSel], get[pushSel])`                                           (FifoArray.h:216)
* `IF(mustPush & !full) { dataMem[cat(pushSel, put.value)] = data; put[pushSel] += 1 }`  (FifoArray.h:218-221)

All read ports are created before the write ports, so every read sees the content before the clock edge.
The model keeps one `AQ` (two pointers + its slice of the data memory) per FIFO; the data memory slices are
disjoint because the selector forms the upper address bits.
-/
namespace Gatery.C15
variable {α : Type}

/-- one FIFO of the array: its two pointer-memory entries and its slice of the data memory -/
structure AQ (α : Type) where
  put : Nat
  get : Nat
  mem : List α

/-- inputs of one clock cycle -/
structure AEv (α : Type) where
  rst : Bool := false
  push : Bool
  pushSel : Nat
  data : α
  pop : Bool
  popSel : Nat

/-- what happens to FIFO `q` at a clock edge when it is (or is not) the selected one -/
def qstep (c : Cfg) (q : AQ α) (push : Bool) (d : α) (pop : Bool) : AQ α :=
  let full := fullCond c q.put q.get       -- isFull : value equal & trick differs
  let empty := emptyCond c q.put q.get     -- isEmpty: value equal & trick equal
  { put := if push && !full then (q.put + 1) % c.M else q.put     -- fifoPointer_t::increment
    get := if pop && !empty then (q.get + 1) % c.M else q.get
    mem := if push && !full then q.mem.set (q.put % c.N) d else q.mem }

abbrev ArrState (α : Type) := List (AQ α)

def arrInit (kf : Nat) (c : Cfg) (x : α) : ArrState α :=
  List.replicate (2 ^ kf) { put := 0, get := 0, mem := List.replicate c.N x }

def arrSel (s : ArrState α) (i : Nat) : AQ α := (s[i]?).getD { put := 0, get := 0, mem := [] }

/-- one clock edge of the whole array: only the selected entries of the memories are written -/
def arrStep (c : Cfg) (s : ArrState α) (e : AEv α) : ArrState α :=
  s.mapIdx fun i q => qstep c q (e.push && e.pushSel == i) e.data (e.pop && e.popSel == i)

structure AOut (α : Type) where
  full : Bool
  empty : Bool
  size : Nat
  peek : α      -- meaningful only while `!empty`

def arrOutputs (c : Cfg) (x : α) (s : ArrState α) (e : AEv α) : AOut α :=
  let qp := arrSel s e.pushSel
  let qq := arrSel s e.popSel
  { full := fullCond c qp.put qp.get
    empty := emptyCond c qq.put qq.get
    size := ptrSub c qq.put qq.get
    peek := (qq.mem[qq.get % c.N]?).getD x }

def arrRun (c : Cfg) (s : ArrState α) : List (AEv α) → ArrState α
  | [] => s
  | e :: es => arrRun c (arrStep c s e) es

def arrTrace (c : Cfg) (x : α) (s : ArrState α) : List (AEv α) → List (AEv α × AOut α)
  | [] => []
  | e :: es => (e, arrOutputs c x s e) :: arrTrace c x (arrStep c s e) es

/-! ## specification: `2^kf` independent queues -/

/-- payloads accepted by FIFO `i` -/
def acceptedAt (i : Nat) (tr : List (AEv α × AOut α)) : List α :=
  tr.filterMap fun eo => if eo.1.push && eo.1.pushSel == i && !eo.2.full then some eo.1.data else none

/-- payloads yielded by FIFO `i` -/
def yieldedAt (i : Nat) (tr : List (AEv α × AOut α)) : List α :=
  tr.filterMap fun eo => if eo.1.pop && eo.1.popSel == i && !eo.2.empty then some eo.2.peek else none

/-- online checker used by the driver on the implementation's trace: one abstract queue per FIFO; the laws are
those of the single FIFO, for the SELECTED queue (latency 0: flags are exact functions of the stored state) -/
def acheck [BEq α] (N : Nat) (qs : List (List α)) (e : AEv α) (o : AOut α) : List String × List (List α) :=
  if e.rst then
    -- nothing is held while the reset is asserted (the pointer memories are being initialised): flags and size must say so
    ((if e.push || e.pop then ["array-request-during-reset"] else []) ++
     (if !o.empty then ["array-empty-flag-optimistic"] else []) ++ (if o.size > 0 then ["array-size-optimistic"] else []), qs)
  else
    let qp := (qs[e.pushSel]?).getD []
    let qq := (qs[e.popSel]?).getD []
    let accept := e.push && !o.full
    let yield := e.pop && !o.empty
    let v1 := if accept && qp.length ≥ N then ["array-accept-when-full"] else []
    let v2 := if !o.full && qp.length ≥ N then ["array-full-flag-optimistic"] else []
    let v3 := if yield then
                match qq with
                | [] => ["array-yield-when-empty"]
                | x :: _ => if x == o.peek then [] else ["array-wrong-item"]
              else []
    let v4 := if !o.empty then
                match qq with
                | [] => ["array-empty-flag-optimistic"]
                | x :: _ => if x == o.peek then [] else ["array-wrong-item-exposed"]
              else []
    let v5 := if o.empty && !qq.isEmpty then ["array-not-exposed"] else []
    let v6 := if o.size > qq.length then ["array-size-optimistic"] else []
    -- the requested depth is the depth (a power of two is demanded): a selected FIFO holding fewer items is not full (latency 0)
    let v7 := if o.full && qp.length < N then ["capacity-below-request"] else []
    let qs1 := if yield then qs.modify e.popSel (·.drop 1) else qs
    let qs2 := if accept then qs1.modify e.pushSel (· ++ [e.data]) else qs1
    (v1 ++ v2 ++ v3 ++ v4 ++ v5 ++ v6 ++ v7, qs2)

end Gatery.C15
