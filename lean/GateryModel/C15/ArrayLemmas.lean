import GateryModel.C15.Array
import GateryModel.C15.Lemmas
/-!
# C15 — every FIFO of the `FifoArray` model is the single-FIFO model at latency 1 under the projected schedule

`projEv i e` is what FIFO `i` sees of the array's cycle `e`: a push request iff the push selector points at it, a
pop request iff the pop selector points at it.  `Rel` relates one array entry to a state of the single-clock
`Fifo` model with `lw = lr = 1` (no crossing registers: there the registered flags and the registered peek are
exactly the combinational functions of the pointers that `FifoArray` computes).  `rel_step` / `arr_sim` show the
relation is preserved, `acceptedAt_eq` / `yieldedAt_eq` that the observable traces coincide.  All queue theorems
of the single FIFO (proved from the invariant `Inv`) therefore hold pointwise for the array.
-/
namespace Gatery.C15
variable {α : Type}

/-- the single-FIFO configuration that an array entry behaves like -/
def cfg1 (k : Nat) : Cfg := { k := k, lw := 1, lr := 1 }

/-- the cycle `e` of the array as seen by FIFO `i` -/
def projEv (i : Nat) (e : AEv α) : Ev α :=
  { pushClk := true, popClk := true, pushReq := e.push && e.pushSel == i, data := e.data, afLevel := 0,
    popReq := e.pop && e.popSel == i, aeLevel := 0 }

structure Rel (c : Cfg) (q : AQ α) (st : State α) : Prop where
  put : st.core.put = q.put
  get : st.core.get = q.get
  mem : st.core.mem = q.mem
  putlt : q.put < c.M
  getlt : q.get < c.M
  full : st.core.full = fullCond c q.put q.get
  empty : st.core.empty = emptyCond c q.put q.get
  len : q.mem.length = c.N
  peek : some st.core.peek = q.mem[q.get % c.N]?
  gch : st.getChain = []
  pch : st.putChain = []

theorem rel_init (c : Cfg) (hw : c.lw ≤ 1) (hr : c.lr ≤ 1) (x : α) :
    Rel c { put := 0, get := 0, mem := List.replicate c.N x } (init c x) := by
  have hN := c.N_pos
  have hM := c.M_pos
  have e1 : c.lw - 1 = 0 := by omega
  have e2 : c.lr - 1 = 0 := by omega
  constructor <;> simp [init, fullCond, emptyCond, e1, e2, hM, hN]

theorem rel_step (c : Cfg) (hw : c.lw ≤ 1) (q : AQ α) (st : State α) (r : Rel c q st) (p o : Bool) (d : α) (l1 l2 : Nat) :
    Rel c (qstep c q p d o)
      (step c st { pushClk := true, popClk := true, pushReq := p, data := d, afLevel := l1, popReq := o, aeLevel := l2 }) := by
  have hM := c.M_pos
  have hN := c.N_pos
  have hput := r.put; have hget := r.get; have hmem := r.mem; have hfull := r.full; have hempty := r.empty
  have hpn : putNext c st.core p = (qstep c q p d o).put := by
    simp only [putNext, pushValid, qstep, hput, hfull]
    cases hb : (p && !fullCond c q.put q.get)
    · simp [Nat.mod_eq_of_lt r.putlt]
    · simp
  have hgn : getNext c st.core o = (qstep c q p d o).get := by
    simp only [getNext, popValid, qstep, hget, hempty]
    cases hb : (o && !emptyCond c q.put q.get)
    · simp [Nat.mod_eq_of_lt r.getlt]
    · simp
  have hm : (if pushValid st.core p = true then st.core.mem.set (st.core.put % c.N) d else st.core.mem) = (qstep c q p d o).mem := by
    simp only [pushValid, qstep, hput, hfull, hmem]
  have hlen : (qstep c q p d o).mem.length = c.N := by
    simp only [qstep]; split <;> simp [r.len]
  have hplt : (qstep c q p d o).put < c.M := by
    simp only [qstep]; split
    · exact Nat.mod_lt _ hM
    · exact r.putlt
  have hglt : (qstep c q p d o).get < c.M := by
    simp only [qstep]; split
    · exact Nat.mod_lt _ hM
    · exact r.getlt
  have hidx : (qstep c q p d o).get % c.N < (qstep c q p d o).mem.length := by rw [hlen]; exact Nat.mod_lt _ hN
  have hcore : (step c st { pushClk := true, popClk := true, pushReq := p, data := d, afLevel := l1, popReq := o, aeLevel := l2 }).core =
      coreStep c st.core { pushClk := true, popClk := true, pushReq := p, data := d, afLevel := l1, popReq := o, aeLevel := l2 }
        (getNext c st.core o) (putNext c st.core p) := by
    simp [step, r.gch, r.pch]
  have hmem' : (coreStep c st.core { pushClk := true, popClk := true, pushReq := p, data := d, afLevel := l1, popReq := o, aeLevel := l2 }
        (getNext c st.core o) (putNext c st.core p)).mem = (qstep c q p d o).mem := by
    rw [coreStep_mem]; simpa using hm
  constructor
  · rw [hcore, coreStep_put _ _ _ _ _ rfl]; simpa using hpn
  · rw [hcore, coreStep_get _ _ _ _ _ rfl]; simpa using hgn
  · rw [hcore]; exact hmem'
  · exact hplt
  · exact hglt
  · rw [hcore, coreStep_full _ _ _ _ _ rfl]; simp only [↓reduceIte]; rw [hpn, hgn]
  · rw [hcore, coreStep_empty _ _ _ _ _ rfl]; simp only [↓reduceIte]; rw [hpn, hgn]
  · exact hlen
  · rw [hcore, coreStep_peek]
    simp only [↓reduceIte, hw]
    rw [hmem', hgn, List.getElem?_eq_getElem hidx]; rfl
  · show shiftChain st.getChain _ _ _ _ _ = []
    rw [r.gch]; rfl
  · show shiftChain st.putChain _ _ _ _ _ = []
    rw [r.pch]; rfl

/-- the array is in step with a family of single-FIFO states, one per entry -/
def ArrRel (c : Cfg) (n : Nat) (s : ArrState α) (sts : Nat → State α) : Prop :=
  ∀ i, i < n → ∃ q, s[i]? = some q ∧ Rel c q (sts i)

theorem arrRel_step (c : Cfg) (hw : c.lw ≤ 1) (n : Nat) (s : ArrState α) (sts : Nat → State α) (e : AEv α)
    (h : ArrRel c n s sts) : ArrRel c n (arrStep c s e) (fun i => step c (sts i) (projEv i e)) := by
  intro i hi
  obtain ⟨q, hq, r⟩ := h i hi
  refine ⟨qstep c q (e.push && e.pushSel == i) e.data (e.pop && e.popSel == i), ?_, ?_⟩
  · simp [arrStep, List.getElem?_mapIdx, hq]
  · exact rel_step c hw q (sts i) r _ _ _ 0 0

theorem arrRel_init (kf : Nat) (c : Cfg) (hw : c.lw ≤ 1) (hr : c.lr ≤ 1) (x : α) :
    ArrRel c (2 ^ kf) (arrInit kf c x) (fun _ => init c x) := by
  intro i hi
  exact ⟨_, by simp [arrInit, hi], rel_init c hw hr x⟩

/-- outputs of the array for the selected entries = outputs of the corresponding single FIFOs -/
theorem arrOutputs_eq (c : Cfg) (n : Nat) (x : α) (s : ArrState α) (sts : Nat → State α) (e : AEv α)
    (h : ArrRel c n s sts) :
    (e.pushSel < n → (arrOutputs c x s e).full = (sts e.pushSel).core.full) ∧
    (e.popSel < n → (arrOutputs c x s e).empty = (sts e.popSel).core.empty ∧
                     (arrOutputs c x s e).peek = (sts e.popSel).core.peek) := by
  constructor
  · intro hi
    obtain ⟨q, hq, r⟩ := h _ hi
    simp [arrOutputs, arrSel, hq, r.full]
  · intro hi
    obtain ⟨q, hq, r⟩ := h _ hi
    have := r.peek
    simp only [arrOutputs, arrSel, hq, Option.getD_some, r.empty, true_and]
    rw [← this]; rfl

theorem arr_traces (c : Cfg) (hw : c.lw ≤ 1) (n : Nat) (x : α) (es : List (AEv α)) (s : ArrState α) (sts : Nat → State α)
    (h : ArrRel c n s sts) (i : Nat) (hi : i < n) :
    acceptedAt i (arrTrace c x s es) = accepted (trace c (sts i) (es.map (projEv i))) ∧
    yieldedAt i (arrTrace c x s es) = yielded (trace c (sts i) (es.map (projEv i))) ∧
    ArrRel c n (arrRun c s es) (fun j => run c (sts j) (es.map (projEv j))) := by
  induction es generalizing s sts with
  | nil => exact ⟨rfl, rfl, h⟩
  | cons e es ih =>
    have h' := arrRel_step c hw n s sts e h
    obtain ⟨ih1, ih2, ih3⟩ := ih (arrStep c s e) _ h'
    obtain ⟨ho1, ho2⟩ := arrOutputs_eq c n x s sts e h
    refine ⟨?_, ?_, ih3⟩
    · simp only [arrTrace, acceptedAt, List.filterMap_cons, List.map_cons, trace, accepted]
      have ih1' := ih1; simp only [acceptedAt, accepted] at ih1'
      rw [ih1']
      by_cases hs : e.pushSel = i
      · have hf := ho1 (by omega)
        subst hs
        simp [hf, projEv, outputs, pushValid]
      · have : (e.pushSel == i) = false := by simpa using hs
        simp [this, projEv, outputs, pushValid]
    · simp only [arrTrace, yieldedAt, List.filterMap_cons, List.map_cons, trace, yielded]
      have ih2' := ih2; simp only [yieldedAt, yielded] at ih2'
      rw [ih2']
      by_cases hs : e.popSel = i
      · obtain ⟨he, hp⟩ := ho2 (by omega)
        subst hs
        simp [he, hp, projEv, outputs, popValid]
      · have : (e.popSel == i) = false := by simpa using hs
        simp [this, projEv, outputs, popValid]

theorem wf_proj (k : Nat) (i : Nat) (es : List (AEv α)) : Wf (cfg1 k) (es.map (projEv i)) := by
  apply wf_single
  intro e he
  obtain ⟨a, _, rfl⟩ := List.mem_map.1 he
  exact ⟨rfl, rfl, rfl, rfl⟩

end Gatery.C15
