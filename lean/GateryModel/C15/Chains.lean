import GateryModel.C15.Abstract
/-!
# C15 — the register chains / gray-code synchronisers produce stale observations

`GState` pairs the ghost-instrumented state with *unbounded* copies `gc`, `pc` of the two crossing chains.
`gstep` is `astep` with the observations taken from the ends of these chains; `proj` forgets the ghosts and
truncates the chains to `k+1` bits.  We show

* `proj_gstep`  — erasure: `proj (gstep g e) = step (proj g) e`, i.e. the instrumented system *is* the model;
* `gstale`      — the chain ends satisfy `Stale` (a chain is a descending list of earlier pointer values);
* `ginv_gstep`  — `GInv` (= `Inv` + chain facts) is inductive;
* `live_grun`   — after `lw-1` pop-clock edges everything accepted before is visible to the pop side.
-/
namespace Gatery.C15
variable {α : Type}

/-! ### descending chains -/

/-- `hi ≥ x₀ ≥ x₁ ≥ … ≥ lo` -/
def Desc (hi : Nat) : List Nat → Nat → Prop
  | [], lo => lo ≤ hi
  | x :: t, lo => x ≤ hi ∧ Desc x t lo

theorem Desc.mono_hi {hi hi' lo : Nat} {l : List Nat} (h : hi ≤ hi') (d : Desc hi l lo) : Desc hi' l lo := by
  cases l with
  | nil => exact Nat.le_trans d h
  | cons x t => exact ⟨Nat.le_trans d.1 h, d.2⟩

theorem Desc.lo_le_hi {hi lo : Nat} {l : List Nat} (d : Desc hi l lo) : lo ≤ hi := by
  induction l generalizing hi with
  | nil => exact d
  | cons x t ih => exact Nat.le_trans (ih d.2) d.1

@[simp] theorem obs_nil (s : Nat) : obs [] s = s := rfl
@[simp] theorem obs_single (x s : Nat) : obs [x] s = x := rfl
@[simp] theorem obs_cons_cons (x y s : Nat) (t : List Nat) : obs (x :: y :: t) s = obs (y :: t) s := by
  simp [obs, List.getLast?_cons_cons]

theorem obs_cons_irrel (x : Nat) (t : List Nat) (s s' : Nat) : obs (x :: t) s = obs (x :: t) s' := by
  induction t generalizing x with
  | nil => rfl
  | cons y t ih => simp only [obs_cons_cons]; exact ih y

theorem Desc.obs_ge {hi lo : Nat} {l : List Nat} (d : Desc hi l lo) (s : Nat) (hs : lo ≤ s) : lo ≤ obs l s := by
  induction l generalizing hi with
  | nil => simpa using hs
  | cons x t ih =>
    cases t with
    | nil => exact d.2
    | cons y t => rw [obs_cons_cons]; exact ih d.2

theorem Desc.obs_le {hi lo : Nat} {x : Nat} {t : List Nat} (d : Desc hi (x :: t) lo) (s : Nat) : obs (x :: t) s ≤ hi := by
  induction t generalizing hi x with
  | nil => exact d.1
  | cons y t ih => rw [obs_cons_cons]; exact Nat.le_trans (ih d.2) d.1

theorem Desc.dropLast {hi lo : Nat} {l : List Nat} (d : Desc hi l lo) : Desc hi l.dropLast (obs l hi) := by
  induction l generalizing hi with
  | nil => exact Nat.le_refl _
  | cons x t ih =>
    cases t with
    | nil => exact d.1
    | cons y t =>
      have := ih d.2
      simp only [List.dropLast_cons_cons, obs_cons_cons]
      rw [obs_cons_irrel y t hi x]
      exact ⟨d.1, this⟩

theorem shiftChain_length (ch : List Nat) (s d : Bool) (v : Nat) :
    (shiftChain ch s d false false v).length = ch.length := by
  cases ch with
  | nil => rfl
  | cons h t => cases d <;> simp [shiftChain]

/-- shifting a descending chain whose source moved up keeps it descending; the destination's observation
becomes the old last element if the destination clock ticked -/
theorem Desc.shift {hi hi' lo : Nat} {ch : List Nat} (d : Desc hi ch lo) (hh : hi ≤ hi') (src dst : Bool) :
    Desc hi' (shiftChain ch src dst false false hi') (if dst then obs ch hi' else lo) := by
  cases ch with
  | nil =>
    cases dst
    · exact Nat.le_trans d hh
    · exact Nat.le_refl _
  | cons h t =>
    have hle : h ≤ (if src then hi' else h) := by cases src <;> simp; exact Nat.le_trans d.1 hh
    have hle' : (if src then hi' else h) ≤ hi' := by cases src <;> simp; exact Nat.le_trans d.1 hh
    cases dst
    · simp only [shiftChain, Bool.false_eq_true, ↓reduceIte]
      exact ⟨hle', d.2.mono_hi hle⟩
    · simp only [shiftChain, Bool.false_eq_true, ↓reduceIte]
      refine ⟨hle', ?_⟩
      have d' : Desc (if src then hi' else h) (h :: t) lo := ⟨hle, d.2⟩
      have := d'.dropLast
      rwa [obs_cons_irrel h t _ hi'] at this

theorem map_dropLast (f : Nat → Nat) (l : List Nat) : (l.dropLast).map f = (l.map f).dropLast := by
  induction l with
  | nil => rfl
  | cons x t ih =>
    cases t with
    | nil => rfl
    | cons y t => simp only [List.dropLast_cons_cons, List.map_cons] at ih ⊢; rw [ih]

theorem obs_map (f : Nat → Nat) (x : Nat) (t : List Nat) (s s' : Nat) :
    obs ((x :: t).map f) s = f (obs (x :: t) s') := by
  induction t generalizing x with
  | nil => rfl
  | cons y t ih => simp only [List.map_cons, obs_cons_cons] at ih ⊢; exact ih y

theorem shiftChain_map (f : Nat → Nat) (ch : List Nat) (s d : Bool) (v : Nat) :
    (shiftChain ch s d false false v).map f = shiftChain (ch.map f) s d false false (f v) := by
  cases ch with
  | nil => rfl
  | cons h t =>
    cases s <;> cases d <;> simp [shiftChain]
    all_goals exact map_dropLast f (h :: t)

/-! ### the instrumented system with chains -/

structure GState (α : Type) where
  a : AState α
  gc : List Nat
  pc : List Nat

def gstep (c : Cfg) (g : GState α) (e : Ev α) : GState α :=
  let G' := g.a.g.G + (yldNow g.a e).toNat
  let P' := g.a.g.P + (accNow g.a e).toNat
  { a := astep c g.a e (obs g.gc G') (obs g.pc P')
    gc := shiftChain g.gc e.popClk e.pushClk false false G'
    pc := shiftChain g.pc e.pushClk e.popClk false false P' }

/-- forget the ghosts: this is a state of the model -/
def proj (c : Cfg) (g : GState α) : State α :=
  { core := g.a.core, getChain := g.gc.map (· % c.M), putChain := g.pc.map (· % c.M) }

/-- Events the theorems cover: resets released; a FIFO whose crossing has no register (latency 1) is only
built for a single clock (dual clock forces latency ≥ 4, Fifo.h:264), so both edges coincide in every event. -/
structure WfEv (c : Cfg) (e : Ev α) : Prop where
  norst : NoRst e
  lr1 : c.lr ≤ 1 → e.pushClk = true ∧ e.popClk = true
  lw1 : c.lw ≤ 1 → e.pushClk = true ∧ e.popClk = true

structure GInv (c : Cfg) (g : GState α) : Prop where
  inv : Inv c g.a
  dg : Desc g.a.g.G g.gc g.a.g.oG
  dp : Desc g.a.g.P g.pc g.a.g.oP
  hp : ∀ h t, g.pc = h :: t → h = g.a.g.P
  ep : g.pc = [] → g.a.g.oP = g.a.g.P
  lg : g.gc.length = c.lr - 1
  lp : g.pc.length = c.lw - 1

theorem gstale (c : Cfg) (g : GState α) (e : Ev α) (hg : GInv c g) :
    Stale c g.a e (obs g.gc (g.a.g.G + (yldNow g.a e).toNat)) (obs g.pc (g.a.g.P + (accNow g.a e).toNat)) := by
  have i := hg.inv
  constructor
  · intro _; exact hg.dg.obs_ge _ (by have := i.oG_le; omega)
  · intro _
    cases hgc : g.gc with
    | nil => simp
    | cons x t => have d := hg.dg; rw [hgc] at d; have := d.obs_le (g.a.g.G + (yldNow g.a e).toNat); omega
  · intro _; exact hg.dp.obs_ge _ (by have := i.oP_le; omega)
  · intro _
    cases hpc : g.pc with
    | nil =>
      have : c.lw ≤ 1 := by have := hg.lp; rw [hpc] at this; simp at this; omega
      simp [this]
    | cons x t =>
      have d := hg.dp; rw [hpc] at d
      have := d.obs_le (g.a.g.P + (accNow g.a e).toNat)
      split <;> omega

theorem ginv_gstep (c : Cfg) (g : GState α) (e : Ev α) (hg : GInv c g) (hw : WfEv c e) : GInv c (gstep c g e) := by
  have i := hg.inv
  constructor
  · exact inv_astep c g.a e _ _ i hw.norst (gstale c g e hg)
  · exact hg.dg.shift (Nat.le_add_right _ _) e.popClk e.pushClk
  · exact hg.dp.shift (Nat.le_add_right _ _) e.pushClk e.popClk
  · intro h t hpc
    show h = g.a.g.P + (accNow g.a e).toNat
    cases hpc0 : g.pc with
    | nil => simp [gstep, hpc0, shiftChain] at hpc
    | cons h0 t0 =>
      have h0P := hg.hp h0 t0 hpc0
      simp only [gstep, hpc0, shiftChain, Bool.false_eq_true, ↓reduceIte, List.cons.injEq] at hpc
      cases hc : e.pushClk
      · simp only [hc, Bool.false_eq_true, ↓reduceIte] at hpc
        simp [acc_clk g.a e hc, ← hpc.1, h0P]
      · simp only [hc, ↓reduceIte] at hpc
        exact hpc.1.symm
  · intro hpc
    have hlen : (gstep c g e).pc.length = g.pc.length := shiftChain_length _ _ _ _
    have hnil : g.pc = [] := by
      rw [hpc] at hlen; exact List.eq_nil_of_length_eq_zero hlen.symm
    have hlw : c.lw ≤ 1 := by have := hg.lp; rw [hnil] at this; simp at this; omega
    obtain ⟨_, h2⟩ := hw.lw1 hlw
    show (if e.popClk then obs g.pc (g.a.g.P + (accNow g.a e).toNat) else g.a.g.oP) = g.a.g.P + (accNow g.a e).toNat
    simp [h2, hnil]
  · show (shiftChain g.gc _ _ false false _).length = _
    rw [shiftChain_length]; exact hg.lg
  · show (shiftChain g.pc _ _ false false _).length = _
    rw [shiftChain_length]; exact hg.lp

/-- erasure: on well-formed events the instrumented system steps exactly like the model -/
theorem proj_gstep (c : Cfg) (g : GState α) (e : Ev α) (hg : GInv c g) (hw : WfEv c e) :
    proj c (gstep c g e) = step c (proj c g) e := by
  have i := hg.inv
  obtain ⟨hr1, hr2⟩ := hw.norst
  have hgn : e.popClk = true → getNext c g.a.core e.popReq = (g.a.g.G + (yldNow g.a e).toNat) % c.M :=
    getNext_eq c g.a e i.get_eq
  have hpn : e.pushClk = true → putNext c g.a.core e.pushReq = (g.a.g.P + (accNow g.a e).toNat) % c.M :=
    putNext_eq c g.a e i.put_eq
  -- observations
  have hog : obs (g.gc.map (· % c.M)) (getNext c g.a.core e.popReq) = obs g.gc (g.a.g.G + (yldNow g.a e).toNat) % c.M := by
    cases hgc : g.gc with
    | nil =>
      have : c.lr ≤ 1 := by have := hg.lg; rw [hgc] at this; simp at this; omega
      simp [hgn (hw.lr1 this).2]
    | cons x t => exact obs_map (· % c.M) x t _ _
  have hop : obs (g.pc.map (· % c.M)) (putNext c g.a.core e.pushReq) = obs g.pc (g.a.g.P + (accNow g.a e).toNat) % c.M := by
    cases hpc : g.pc with
    | nil =>
      have : c.lw ≤ 1 := by have := hg.lp; rw [hpc] at this; simp at this; omega
      simp [hpn (hw.lw1 this).1]
    | cons x t => exact obs_map (· % c.M) x t _ _
  -- chains
  have hgc : (shiftChain g.gc e.popClk e.pushClk false false (g.a.g.G + (yldNow g.a e).toNat)).map (· % c.M) =
      shiftChain (g.gc.map (· % c.M)) e.popClk e.pushClk e.popRst e.pushRst (getNext c g.a.core e.popReq) := by
    rw [shiftChain_map, hr1, hr2]
    cases hc : e.popClk
    · cases g.gc <;> simp [shiftChain]
    · rw [hgn hc]
  have hpc : (shiftChain g.pc e.pushClk e.popClk false false (g.a.g.P + (accNow g.a e).toNat)).map (· % c.M) =
      shiftChain (g.pc.map (· % c.M)) e.pushClk e.popClk e.pushRst e.popRst (putNext c g.a.core e.pushReq) := by
    rw [shiftChain_map, hr1, hr2]
    cases hc : e.pushClk
    · cases g.pc <;> simp [shiftChain]
    · rw [hpn hc]
  simp only [proj, gstep, step, astep]
  rw [hog, hop, hgc, hpc]

/-! ### runs -/

def grun (c : Cfg) (g : GState α) : List (Ev α) → GState α
  | [] => g
  | e :: es => grun c (gstep c g e) es

def ginit (c : Cfg) (x : α) : GState α :=
  { a := ainit c x, gc := List.replicate (c.lr - 1) 0, pc := List.replicate (c.lw - 1) 0 }

theorem desc_replicate (n : Nat) : Desc 0 (List.replicate n 0) 0 := by
  induction n with
  | zero => exact Nat.le_refl _
  | succ n ih => exact ⟨Nat.le_refl _, ih⟩

theorem ginv_ginit (c : Cfg) (x : α) : GInv c (ginit c x) := by
  constructor
  · exact inv_ainit c x
  · exact desc_replicate _
  · exact desc_replicate _
  · intro h t hpc
    have : h ∈ List.replicate (c.lw - 1) 0 := by
      show h ∈ (ginit c x).pc; rw [hpc]; exact List.mem_cons_self
    exact (List.mem_replicate.1 this).2
  · intro _; rfl
  · simp [ginit]
  · simp [ginit]

theorem proj_ginit (c : Cfg) (x : α) : proj c (ginit c x) = init c x := by
  simp [proj, ginit, init, ainit]

theorem outputs_proj (c : Cfg) (g : GState α) (e : Ev α) :
    (outputs c (proj c g) e).pushValid = pushValid g.a.core e.pushReq ∧
    (outputs c (proj c g) e).popValid = popValid g.a.core e.popReq ∧
    (outputs c (proj c g) e).peek = g.a.core.peek := ⟨rfl, rfl, rfl⟩

/-- The model run is the projection of the instrumented run; the ghost lists are the accepted / yielded
sequences of the observable trace; the ghost levels are the levels applied at the last edges. -/
theorem grun_spec (c : Cfg) (g : GState α) (es : List (Ev α)) (hg : GInv c g) (hw : ∀ e ∈ es, WfEv c e) :
    GInv c (grun c g es) ∧ proj c (grun c g es) = run c (proj c g) es ∧
    (grun c g es).a.g.hist = g.a.g.hist ++ accepted (trace c (proj c g) es) ∧
    (grun c g es).a.g.out = g.a.g.out ++ yielded (trace c (proj c g) es) ∧
    (grun c g es).a.g.afLvl = lastAf g.a.g.afLvl es ∧
    (grun c g es).a.g.aeLvl = lastAe c.M g.a.g.aeLvl es := by
  induction es generalizing g with
  | nil => simp [grun, run, trace, accepted, yielded, lastAf, lastAe, hg]
  | cons e es ih =>
    have hwe := hw e List.mem_cons_self
    have hg' := ginv_gstep c g e hg hwe
    obtain ⟨h1, h2, h3, h4, h5, h6⟩ := ih (gstep c g e) hg' (fun e' he' => hw e' (List.mem_cons_of_mem _ he'))
    have hp := proj_gstep c g e hg hwe
    rw [hp] at h2 h3 h4
    refine ⟨h1, h2, ?_, ?_, h5, h6⟩
    · show (grun c (gstep c g e) es).a.g.hist = _
      rw [h3]
      show (if accNow g.a e then g.a.g.hist ++ [e.data] else g.a.g.hist) ++ _ = _
      simp only [trace, accepted, List.filterMap_cons, outputs_proj]
      unfold accNow
      cases (e.pushClk && pushValid g.a.core e.pushReq) <;> simp
    · show (grun c (gstep c g e) es).a.g.out = _
      rw [h4]
      show (if yldNow g.a e then g.a.g.out ++ [g.a.core.peek] else g.a.g.out) ++ _ = _
      simp only [trace, yielded, List.filterMap_cons, outputs_proj]
      unfold yldNow
      cases (e.popClk && popValid g.a.core e.popReq) <;> simp

/-! ### liveness -/

/-- the first `m` chain registers already hold a pointer value `≥ p` -/
def Prog (p : Nat) : Nat → List Nat → Prop
  | 0, _ => True
  | _ + 1, [] => True
  | m + 1, x :: t => p ≤ x ∧ Prog p m t

theorem Prog.dropLast {p m : Nat} {l : List Nat} (h : Prog p m l) : Prog p m l.dropLast := by
  induction l generalizing m with
  | nil => exact h
  | cons x t ih =>
    cases m with
    | zero => exact trivial
    | succ m =>
      cases t with
      | nil => exact trivial
      | cons y t => exact ⟨h.1, ih h.2⟩

theorem Prog.obs_ge {p m : Nat} {x : Nat} {t : List Nat} (h : Prog p m (x :: t)) (hm : (x :: t).length ≤ m) (s : Nat) :
    p ≤ obs (x :: t) s := by
  induction t generalizing m x with
  | nil =>
    cases m with
    | zero => simp at hm
    | succ m => exact h.1
  | cons y t ih =>
    cases m with
    | zero => simp at hm
    | succ m =>
      rw [obs_cons_cons]
      exact ih h.2 (by simpa using hm)

/-- Everything accepted up to now (`p ≤ P`) is covered by the pop side's observation after `lw-1` further
pop-clock edges, under any schedule. -/
theorem live_grun (c : Cfg) (g : GState α) (es : List (Ev α)) (p m : Nat) (hg : GInv c g)
    (hw : ∀ e ∈ es, WfEv c e) (hp : p ≤ g.a.g.P)
    (h : p ≤ g.a.g.oP ∨ (Prog p m g.pc ∧ m ≤ g.pc.length ∧ g.pc.length + 1 ≤ m + popTicks es)) :
    p ≤ (grun c g es).a.g.oP := by
  induction es generalizing g m with
  | nil =>
    rcases h with h | ⟨_, hm, hlen⟩
    · exact h
    · simp only [popTicks] at hlen; omega
  | cons e es ih =>
    have hwe := hw e List.mem_cons_self
    have hg' := ginv_gstep c g e hg hwe
    have hw' : ∀ e' ∈ es, WfEv c e' := fun e' he' => hw e' (List.mem_cons_of_mem _ he')
    have hst := gstale c g e hg
    have hP' : p ≤ (gstep c g e).a.g.P := by
      show p ≤ g.a.g.P + (accNow g.a e).toNat; omega
    show p ≤ (grun c (gstep c g e) es).a.g.oP
    rcases h with h | ⟨hpr, hmle, hlen⟩
    · refine ih (gstep c g e) 0 hg' hw' hP' (Or.inl ?_)
      show p ≤ (if e.popClk then _ else g.a.g.oP)
      cases hc : e.popClk
      · simpa using h
      · simp only [↓reduceIte]; have := hst.put_lo hc; omega
    · cases hpc : g.pc with
      | nil =>
        -- latency 1: both clocks tick, the pop side observes the pointer directly
        have hlw : c.lw ≤ 1 := by have := hg.lp; rw [hpc] at this; simp at this; omega
        obtain ⟨_, h2⟩ := hwe.lw1 hlw
        refine ih (gstep c g e) 0 hg' hw' hP' (Or.inl ?_)
        show p ≤ (if e.popClk then obs g.pc (g.a.g.P + (accNow g.a e).toNat) else g.a.g.oP)
        simp [h2, hpc]; omega
      | cons x t =>
        have hxP := hg.hp x t hpc
        rw [hpc] at hpr hlen hmle
        cases hc : e.popClk
        · -- push edge only: the chain tail does not move
          refine ih (gstep c g e) m hg' hw' hP' (Or.inr ⟨?_, ?_, ?_⟩)
          · show Prog p m (shiftChain g.pc e.pushClk e.popClk false false _)
            rw [hpc, hc]
            simp only [shiftChain, Bool.false_eq_true, ↓reduceIte]
            cases m with
            | zero => exact trivial
            | succ m => exact ⟨by cases e.pushClk <;> simp <;> omega, hpr.2⟩
          · show m ≤ (shiftChain g.pc _ _ false false _).length
            rw [shiftChain_length, hpc]; exact hmle
          · show (shiftChain g.pc _ _ false false _).length + 1 ≤ _
            rw [shiftChain_length, hpc]
            simp only [popTicks, hc, Bool.false_eq_true, ↓reduceIte] at hlen
            omega
        · by_cases hm : (x :: t).length ≤ m
          · -- every register already holds ≥ p: this pop edge makes it visible
            refine ih (gstep c g e) 0 hg' hw' hP' (Or.inl ?_)
            show p ≤ (if e.popClk then obs g.pc (g.a.g.P + (accNow g.a e).toNat) else g.a.g.oP)
            rw [hc, hpc]; simp only [↓reduceIte]
            exact hpr.obs_ge hm _
          · refine ih (gstep c g e) (m + 1) hg' hw' hP' (Or.inr ⟨?_, ?_, ?_⟩)
            · show Prog p (m + 1) (shiftChain g.pc e.pushClk e.popClk false false _)
              rw [hpc, hc]
              simp only [shiftChain, Bool.false_eq_true, ↓reduceIte]
              exact ⟨by cases e.pushClk <;> simp <;> omega, hpr.dropLast⟩
            · show m + 1 ≤ (shiftChain g.pc _ _ false false _).length
              rw [shiftChain_length, hpc]; omega
            · show (shiftChain g.pc _ _ false false _).length + 1 ≤ _
              rw [shiftChain_length, hpc]
              simp only [popTicks, hc, ↓reduceIte] at hlen
              omega

end Gatery.C15
