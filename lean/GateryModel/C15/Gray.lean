/-!
# C15 — gray code primitives of the pointer crossing (source/gatery/scl/cdc.cpp:23-39)

`synchronizeGrayCode` (cdc.cpp:66-76) sends `grayEncode(pointer)` through the synchroniser registers and applies
`grayDecode` on the other side; `Model.lean` treats the pair as the identity on pointer values.  This file models
the two functions as the code computes them, on bit vectors written MSB first (the harness protocol's order), and
`Properties/C15.lean` proves the round trip for every width, which justifies that identity.

* `grayEncode val = val ^ (val >> 1)`                         (cdc.cpp:25)
* `grayDecode`: `ret.msb = val.msb; for i = w-2 … 0: ret[i] = ret[i+1] ^ val[i]`   (cdc.cpp:30-36, bit-serial)
-/
namespace Gatery.C15.Gray

/-- a bit vector, most significant bit first -/
abbrev Bits := List Bool

/-- logical shift right by one at fixed width: a zero enters at the msb, the lsb is dropped -/
def shr1 (v : Bits) : Bits := (false :: v).dropLast

/-- bitwise xor of equally wide vectors -/
def xorBits (a b : Bits) : Bits := List.zipWith (fun x y => x != y) a b

/-- `(BVec)(val ^ (val >> 1))` -/
def grayEncode (v : Bits) : Bits := xorBits v (shr1 v)

/-- the loop of `grayDecode`, msb downwards; `prev` = the already decoded bit `ret[i+1]` (`false` above the msb,
so that the first step yields `ret.msb = val.msb`) -/
def decodeFrom (prev : Bool) : Bits → Bits
  | [] => []
  | b :: bs => (prev != b) :: decodeFrom (prev != b) bs

def grayDecode (v : Bits) : Bits := decodeFrom false v

/-- encoder written as a recursion with the neighbouring higher bit carried along -/
def encodeFrom (prev : Bool) : Bits → Bits
  | [] => []
  | b :: bs => (b != prev) :: encodeFrom b bs

theorem shr1_cons (p b : Bool) (bs : Bits) : (p :: b :: bs).dropLast = p :: (b :: bs).dropLast := by
  simp [List.dropLast]

theorem encode_eq_from (p : Bool) (v : Bits) : xorBits v ((p :: v).dropLast) = encodeFrom p v := by
  induction v generalizing p with
  | nil => rfl
  | cons b bs ih =>
    rw [shr1_cons]
    simp only [xorBits, List.zipWith_cons_cons, encodeFrom]
    exact congrArg _ (ih b)

theorem grayEncode_eq (v : Bits) : grayEncode v = encodeFrom false v := encode_eq_from false v

theorem decode_encode_from (p : Bool) (v : Bits) : decodeFrom p (encodeFrom p v) = v := by
  induction v generalizing p with
  | nil => rfl
  | cons b bs ih =>
    simp only [encodeFrom, decodeFrom]
    have : (p != (b != p)) = b := by cases p <;> cases b <;> rfl
    rw [this, ih b]

theorem encode_decode_from (p : Bool) (v : Bits) : encodeFrom p (decodeFrom p v) = v := by
  induction v generalizing p with
  | nil => rfl
  | cons b bs ih =>
    simp only [encodeFrom, decodeFrom]
    have : ((p != b) != p) = b := by cases p <;> cases b <;> rfl
    rw [this, ih (p != b)]

theorem length_encodeFrom (p : Bool) (v : Bits) : (encodeFrom p v).length = v.length := by
  induction v generalizing p with
  | nil => rfl
  | cons b bs ih => simp [encodeFrom, ih]

theorem length_decodeFrom (p : Bool) (v : Bits) : (decodeFrom p v).length = v.length := by
  induction v generalizing p with
  | nil => rfl
  | cons b bs ih => simp [decodeFrom, ih]

end Gatery.C15.Gray
