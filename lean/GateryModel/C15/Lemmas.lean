import GateryModel.C15.Chains
/-!
# C15 — facts about every reachable state of the model, phrased on the observable trace

`reach` packages `grun_spec` for runs from the reset state: the model state after `es` is the projection of an
instrumented state satisfying the invariant whose ghost lists are exactly `accepted` / `yielded` of the trace.
-/
namespace Gatery.C15
variable {α : Type}

/-- all events of a schedule are well formed -/
def Wf (c : Cfg) (es : List (Ev α)) : Prop := ∀ e ∈ es, WfEv c e

theorem Wf.append {c : Cfg} {es1 es2 : List (Ev α)} (h1 : Wf c es1) (h2 : Wf c es2) : Wf c (es1 ++ es2) := by
  intro e he; rcases List.mem_append.1 he with h | h
  · exact h1 e h
  · exact h2 e h

/-- single clock: every event has both edges — any latencies -/
theorem wf_single (c : Cfg) (es : List (Ev α))
    (h : ∀ e ∈ es, e.pushClk = true ∧ e.popClk = true ∧ NoRst e) : Wf c es :=
  fun e he => ⟨(h e he).2.2, fun _ => ⟨(h e he).1, (h e he).2.1⟩, fun _ => ⟨(h e he).1, (h e he).2.1⟩⟩

/-- dual clock (latencies ≥ 2; the library forces ≥ 4): arbitrary interleaving of the two clocks -/
theorem wf_dual (c : Cfg) (es : List (Ev α)) (hw : 2 ≤ c.lw) (hr : 2 ≤ c.lr) (h : ∀ e ∈ es, NoRst e) : Wf c es :=
  fun e he => ⟨h e he, fun h' => by omega, fun h' => by omega⟩

theorem grun_append (c : Cfg) (g : GState α) (es1 es2 : List (Ev α)) :
    grun c g (es1 ++ es2) = grun c (grun c g es1) es2 := by
  induction es1 generalizing g with
  | nil => rfl
  | cons e es ih => exact ih _

structure Reach (c : Cfg) (x : α) (es : List (Ev α)) (g : GState α) : Prop where
  ginv : GInv c g
  st : proj c g = run c (init c x) es
  hist : g.a.g.hist = accepted (trace c (init c x) es)
  out : g.a.g.out = yielded (trace c (init c x) es)
  afl : g.a.g.afLvl = lastAf 0 es
  ael : g.a.g.aeLvl = lastAe c.M 0 es

theorem reach (c : Cfg) (x : α) (es : List (Ev α)) (hw : Wf c es) : Reach c x es (grun c (ginit c x) es) := by
  obtain ⟨h1, h2, h3, h4, h5, h6⟩ := grun_spec c (ginit c x) es (ginv_ginit c x) hw
  rw [proj_ginit] at h2 h3 h4
  exact ⟨h1, h2, by simpa [ginit, ainit] using h3, by simpa [ginit, ainit] using h4, h5, h6⟩

/-- the numbers behind the trace -/
theorem Reach.counts {c : Cfg} {x : α} {es : List (Ev α)} {g : GState α} (r : Reach c x es g) :
    (accepted (trace c (init c x) es)).length = g.a.g.P ∧ (yielded (trace c (init c x) es)).length = g.a.g.G := by
  have i := r.ginv.inv
  refine ⟨by rw [← r.hist, i.hist_len], ?_⟩
  rw [← r.out, i.out_eq, List.length_take, i.hist_len]
  have := i.G_le; have := i.oP_le; omega

theorem Reach.core {c : Cfg} {x : α} {es : List (Ev α)} {g : GState α} (r : Reach c x es g) :
    (run c (init c x) es).core = g.a.core := by rw [← r.st]; rfl

/-! ### the reset state read against an arbitrary almost-full level

Before the first push-clock edge the `af` register holds its reset value '0' and the level input has not been
sampled yet.  `ginitL c x d` is the reset state whose ghost "level the flag refers to" is any `d < N`: the invariant
holds for it, so the reset value is right for every level below the depth (for `level = N` the indication is
constantly true by definition and the reset value '0' is not — the only level for which that is so). -/

def ginitL (c : Cfg) (x : α) (d : Nat) : GState α :=
  { ginit c x with a := { (ginit c x).a with g := { (ginit c x).a.g with afLvl := d } } }

theorem ginv_ginitL (c : Cfg) (x : α) (d : Nat) (hd : d < c.N) : GInv c (ginitL c x d) := by
  have h0 := ginv_ginit c x
  have i0 := h0.inv
  exact { inv := { put_eq := i0.put_eq, get_eq := i0.get_eq, oG_le := i0.oG_le, G_le := i0.G_le, oP_le := i0.oP_le,
                   P_le := i0.P_le, full_eq := i0.full_eq, empty_eq := i0.empty_eq, hist_len := i0.hist_len,
                   out_eq := i0.out_eq, mem_len := i0.mem_len, mem_ok := i0.mem_ok, peek_ok := i0.peek_ok,
                   af_ok := fun _ _ => by show 0 + d < 0 + c.N; omega, ae_ok := i0.ae_ok },
          dg := h0.dg, dp := h0.dp, hp := h0.hp, ep := h0.ep, lg := h0.lg, lp := h0.lp }

theorem proj_ginitL (c : Cfg) (x : α) (d : Nat) : proj c (ginitL c x d) = init c x := proj_ginit c x

end Gatery.C15
