/-!
# C15 — model of `gtry::scl::Fifo<TData>` (source/gatery/scl/Fifo.h)

The model follows the circuit that `Fifo::generate`, `generatePush`, `generatePop` and `generateCdc`
build, register by register:

* `put`, `get`      — the `(k+1)`-bit pointer registers (Fifo.h:367-368, 394-395), depth `N = 2^k`, `M = 2N`;
* `full`, `empty`   — registered functions of the *next* own pointer and the *observed* other pointer
                      (Fifo.h:377, 403);
* `af`, `ae`        — `almostFull(level)` / `almostEmpty(level)` registers (Fifo.h:190, 208-211);
* `peek`            — `reg(mem[get_next.low])` (Fifo.h:400); `mem` — the memory, written at `put.low` when
                      `pushValid` (Fifo.h:371-372);
* `getChain`, `putChain` — the `latency-1` registers between `popGet → pushGet` and `pushPut → popPut`:
  single clock: `reg(…,0)` chain (Fifo.h:321-329); dual clock: `synchronizeGrayCode` (Fifo.h:347-353,
  scl/cdc.cpp:66-70, cdc.h `synchronize`): one input-stage register on the *source* clock followed by
  `latency-2` synchroniser registers on the *destination* clock (gray encode/decode is the identity on values
  in simulation; metastability is outside gatery's simulator and outside this model).

One `step` consumes one *event*: a rising edge of the push clock, of the pop clock, or of both.
A single-clock FIFO is the special case in which every event has both edges.
`pushStep` / `popStep` are the two independent side step functions; the value of the other side's pointer
enters only through the observation arguments `og` / `op`.

Vendor FIFO primitives (scl/arch/xilinx/FifoPattern.cpp) replace this circuit during technology mapping and
are NOT modelled.
-/
namespace Gatery.C15

/-! ## Configuration selection (Fifo.h:217-282, frontend/tech/TechnologyCapabilities.{h,cpp}) -/

/-- `scl::FifoLatency = Option<size_t>` restricted to the constructors a caller can pass. -/
inductive LatReq where
  | dontCare
  | specific (n : Nat)
  | atLeast (n : Nat)
  | atMost (n : Nat)
  deriving Repr, DecidableEq

/-- `Option::resolveToPreferredMinimum` (TechnologyCapabilities.h:229-244). -/
def LatReq.resolve (pref : Nat) : LatReq → Nat
  | .dontCare => pref
  | .specific n => n
  | .atLeast n => max n pref
  | .atMost n => min n pref

/-- `Option::AtLeast(m).mergeWith(other)` (TechnologyCapabilities.h:249-267); `none` = empty optional. -/
def mergeAtLeast (m : Nat) : LatReq → Option LatReq
  | .dontCare => some (.atLeast m)
  | .atLeast v => some (.atLeast (max m v))
  | .atMost v => if v ≥ m then some (.specific (min m v)) else none
  | .specific v => if v ≥ m then some (.specific v) else none

/-- Latency chosen by `finalFifoSelection` + default `FifoCapabilities::select` (preferred minimum 2);
dual clock merges the request with `AtLeast(4)` first and fails the design check if that is impossible
(Fifo.h:257-275).  `none` = `HCL_DESIGNCHECK` fires. -/
def chosenLatency (dual : Bool) (r : LatReq) : Option Nat :=
  if dual then (mergeAtLeast 4 r).map (LatReq.resolve 2) else some (r.resolve 2)

/-- `utils::nextPow2` for `v ≥ 1`, as exponent: the depth chosen for `readDepth.atLeast(minDepth)`. -/
def depthLog (minDepth : Nat) : Nat := if minDepth ≤ 1 then 0 else Nat.log2 (minDepth - 1) + 1

structure Cfg where
  k : Nat     -- address width; depth = 2^k
  lw : Nat    -- latency_writeToEmpty  (= latency_writeToAlmostEmpty)
  lr : Nat    -- latency_readToFull    (= latency_readToAlmostFull)
  deriving Repr

def Cfg.N (c : Cfg) : Nat := 2 ^ c.k
def Cfg.M (c : Cfg) : Nat := 2 * c.N

def mkCfg (minDepth : Nat) (dual : Bool) (r : LatReq) : Option Cfg :=
  (chosenLatency dual r).map fun l => { k := depthLog minDepth, lw := l, lr := l }

/-! ## State -/

/-- Everything except the pointer-crossing registers. -/
structure Core (α : Type) where
  put : Nat
  get : Nat
  full : Bool
  empty : Bool
  af : Bool
  ae : Bool
  peek : α
  mem : List α

/-- One event: which clocks have a rising edge, whether their reset is asserted, and the input pins. -/
structure Ev (α : Type) where
  pushClk : Bool
  popClk : Bool
  pushRst : Bool := false
  popRst : Bool := false
  pushReq : Bool
  data : α
  afLevel : Nat
  popReq : Bool
  aeLevel : Nat

variable {α : Type}

/-- `IF(push) fifo.push(d)` : `m_pushValid = !m_pushFull` under the caller's condition (Fifo.h:155). -/
def pushValid (s : Core α) (req : Bool) : Bool := req && !s.full
/-- `IF(pop) fifo.pop()` : `m_popValid = !m_popEmpty` (Fifo.h:173). -/
def popValid (s : Core α) (req : Bool) : Bool := req && !s.empty

/-- `put += m_pushValid` at width `k+1` (Fifo.h:374) — this, not the register, is what `generatePush` returns. -/
def putNext (c : Cfg) (s : Core α) (req : Bool) : Nat := (s.put + (pushValid s req).toNat) % c.M
/-- `get += m_popValid` (Fifo.h:397). -/
def getNext (c : Cfg) (s : Core α) (req : Bool) : Nat := (s.get + (popValid s req).toNat) % c.M

/-- `a - b` on `(k+1)`-bit vectors (`b < M`). -/
def ptrSub (c : Cfg) (a b : Nat) : Nat := (a + c.M - b) % c.M

/-- `put.msb() != get.msb() & put(0,-1_b) == get(0,-1_b)` (Fifo.h:377); for `p < M` the msb is `p / N`. -/
def fullCond (c : Cfg) (put get : Nat) : Bool := (put / c.N != get / c.N) && (put % c.N == get % c.N)
/-- `put.msb() == get.msb() & put(0,-1_b) == get(0,-1_b)` (Fifo.h:403). -/
def emptyCond (c : Cfg) (put get : Nat) : Bool := (put / c.N == get / c.N) && (put % c.N == get % c.N)

/-- Push clock edge (generatePush, Fifo.h:357-383; almostFull, Fifo.h:197-215). `og` = observed get pointer. -/
def pushStep (c : Cfg) (s : Core α) (rst req : Bool) (d : α) (lvl og : Nat) : Core α :=
  let pn := putNext c s req
  { s with
    put := if rst then 0 else pn
    full := if rst then false else fullCond c pn og
    af := if rst then false else decide (ptrSub c c.N (lvl % c.M) ≤ ptrSub c pn og)
    mem := if pushValid s req then s.mem.set (s.put % c.N) d else s.mem }

/-- Pop clock edge (generatePop, Fifo.h:385-409; almostEmpty, Fifo.h:176-194). `op` = observed put pointer,
`rd` = memory content the read port sees. -/
def popStep (c : Cfg) (s : Core α) (rst req : Bool) (lvl op : Nat) (rd : List α) : Core α :=
  let gn := getNext c s req
  { s with
    get := if rst then 0 else gn
    empty := if rst then true else emptyCond c op gn
    ae := if rst then true else decide (ptrSub c op gn ≤ lvl % c.M)
    peek := (rd[gn % c.N]?).getD s.peek }

/-- Both sides for one event. With `latency_writeToEmpty ≤ 1` the memory keeps its port order (write port
first, Fifo.h:312-314), so the read port sees the word written in the same cycle; otherwise `mem.noConflicts()`
(Fifo.h:302-303) removes the ordering and the read port sees the content before the edge. -/
def coreStep (c : Cfg) (s : Core α) (e : Ev α) (og op : Nat) : Core α :=
  let s1 := if e.pushClk then pushStep c s e.pushRst e.pushReq e.data e.afLevel og else s
  let rd := if c.lw ≤ 1 then s1.mem else s.mem
  if e.popClk then popStep c s1 e.popRst e.popReq e.aeLevel op rd else s1

structure State (α : Type) where
  core : Core α
  getChain : List Nat    -- popGet → pushGet ; head = register nearest the pop side
  putChain : List Nat    -- pushPut → popPut ; head = register nearest the push side

/-- Output of a register chain: its last register, or the source itself when the chain is empty (latency 1). -/
def obs (chain : List Nat) (src : Nat) : Nat := chain.getLast?.getD src

/-- Advance a crossing chain: the head register is clocked by the source clock, the others by the
destination clock (single clock: both always tick, so the whole chain shifts). -/
def shiftChain (chain : List Nat) (srcTick dstTick srcRst dstRst : Bool) (v : Nat) : List Nat :=
  match chain with
  | [] => []
  | h :: t =>
    (if srcTick then (if srcRst then 0 else v) else h) ::
    (if dstTick then (if dstRst then t.map (fun _ => 0) else (h :: t).dropLast) else t)

def step (c : Cfg) (st : State α) (e : Ev α) : State α :=
  let gn := getNext c st.core e.popReq
  let pn := putNext c st.core e.pushReq
  { core := coreStep c st.core e (obs st.getChain gn) (obs st.putChain pn)
    getChain := shiftChain st.getChain e.popClk e.pushClk e.popRst e.pushRst gn
    putChain := shiftChain st.putChain e.pushClk e.popClk e.pushRst e.popRst pn }

/-- Power-on / reset state; `x` = the (undefined) initial content of the memory and the peek register. -/
def init (c : Cfg) (x : α) : State α :=
  { core := { put := 0, get := 0, full := false, empty := true, af := false, ae := true, peek := x,
              mem := List.replicate c.N x }
    getChain := List.replicate (c.lr - 1) 0
    putChain := List.replicate (c.lw - 1) 0 }

/-- Interface values during an event, before the edge. -/
structure Out (α : Type) where
  full : Bool
  pushValid : Bool
  af : Bool
  pushSize : Nat
  empty : Bool
  popValid : Bool
  ae : Bool
  popSize : Nat
  peek : α

def outputs (c : Cfg) (st : State α) (e : Ev α) : Out α :=
  let gn := getNext c st.core e.popReq
  let pn := putNext c st.core e.pushReq
  { full := st.core.full, pushValid := pushValid st.core e.pushReq, af := st.core.af
    pushSize := ptrSub c pn (obs st.getChain gn)
    empty := st.core.empty, popValid := popValid st.core e.popReq, ae := st.core.ae
    popSize := ptrSub c (obs st.putChain pn) gn
    peek := st.core.peek }

def run (c : Cfg) (st : State α) : List (Ev α) → State α
  | [] => st
  | e :: es => run c (step c st e) es

/-- The observable trace: every event paired with the interface values before its edge. -/
def trace (c : Cfg) (st : State α) : List (Ev α) → List (Ev α × Out α)
  | [] => []
  | e :: es => (e, outputs c st e) :: trace c (step c st e) es

/-! ## `strm::fifo` — the ready/valid wrapper (scl/stream/streamFifo.h:121-152), single clock

Modelled and tied to the code by the correspondence harness (`c15 … stream`); the theorems of
`Properties/C15.lean` are about the inner `Fifo` it instantiates. -/

/-- latency handed to the inner `Fifo` (streamFifo.h:146: 0 is replaced by 1, the wrapper adds the bypass) -/
def streamInnerLat : LatReq → LatReq
  | .specific 0 => .specific 1
  | r => r

/-- `fifoLatency == 0` (Option::operator==: only a SPECIFIC value compares equal) -/
def streamFallThrough : LatReq → Bool
  | .specific 0 => true
  | _ => false

structure SOut (α : Type) where
  inReady : Bool
  outValid : Bool
  outData : α

/-- interface values of the wrapper for the given inputs -/
def streamOutputs (fall : Bool) (st : State α) (inValid : Bool) (d : α) : SOut α :=
  let bypass := fall && st.core.empty              -- IF(!valid(ret)) downstream(ret) = downstream(in)
  { inReady := !st.core.full                        -- ready(in) = !instance.full()
    outValid := if bypass then inValid else !st.core.empty
    outData := if bypass then d else st.core.peek }

/-- the event the inner FIFO sees -/
def streamEvent (fall : Bool) (st : State α) (rst inValid : Bool) (d : α) (outReady : Bool) : Ev α :=
  let bypass := fall && st.core.empty
  let v := if bypass && outReady then false else inValid   -- IF(ready(ret)) valid(in) = '0'
  { pushClk := true, popClk := true, pushRst := rst, popRst := rst
    pushReq := v && !st.core.full                            -- IF(transfer(in)) instance.push(..)
    data := d, afLevel := 0
    popReq := !st.core.empty && outReady                     -- pop(): IF(transfer(ret)) fifo.pop()
    aeLevel := 0 }

end Gatery.C15
