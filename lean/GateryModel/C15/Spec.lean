import GateryModel.C15.Model
/-!
# C15 — specification: the FIFO seen as a `List α` queue

Everything here talks only about the *observable trace* (events + interface values), so the same
definitions are evaluated by the driver on the implementation's trace.

* `accepted tr` — the payloads taken over at push-clock edges with `pushValid`, in order;
* `yielded tr`  — the `peek` values handed out at pop-clock edges with `popValid`, in order.

"Loss-free, duplicate-free, order-preserving" = `yielded tr` is a prefix of `accepted tr` at every time
(each accepted item comes out at most once, unchanged, in acceptance order; nothing else comes out), and the
items not yet yielded are `(accepted tr).drop (yielded tr).length` — the abstract queue.
-/
namespace Gatery.C15
variable {α : Type}

def accepted (tr : List (Ev α × Out α)) : List α :=
  tr.filterMap fun eo => if eo.1.pushClk && eo.2.pushValid then some eo.1.data else none

def yielded (tr : List (Ev α × Out α)) : List α :=
  tr.filterMap fun eo => if eo.1.popClk && eo.2.popValid then some eo.2.peek else none

/-- number of items held after the trace -/
def fill (tr : List (Ev α × Out α)) : Nat := (accepted tr).length - (yielded tr).length

/-- the abstract queue after the trace -/
def queue (tr : List (Ev α × Out α)) : List α := (accepted tr).drop (yielded tr).length

/-- number of pop-clock edges in an event list -/
def popTicks : List (Ev α) → Nat
  | [] => 0
  | e :: es => (if e.popClk then 1 else 0) + popTicks es

/-- the almost-full level that the `af` register currently refers to: the one applied at the last push edge -/
def lastAf (d : Nat) : List (Ev α) → Nat
  | [] => d
  | e :: es => lastAf (if e.pushClk then e.afLevel else d) es

/-- the almost-empty level applied at the last pop edge (as a `(k+1)`-bit value) -/
def lastAe (M d : Nat) : List (Ev α) → Nat
  | [] => d
  | e :: es => lastAe M (if e.popClk then e.aeLevel % M else d) es

end Gatery.C15

namespace Gatery.C15
variable {α : Type}

/-! ## The queue specification as an online checker (used by the driver on the implementation's trace)

`qcheck` evaluates the property statement directly on one observed event `(e, o)` against the abstract queue
kept in `QState`.  Each violation kind corresponds to one clause of the property (and to one theorem of
`Properties/C15.lean` which shows the model never triggers it):

* `accept-when-full`        — a push is accepted while `N` items are held                    (`full_of_holding_capacity`)
* `yield-when-empty`        — an item is yielded while none is held                          (`empty_of_holding_none`)
* `wrong-item`              — the yielded item is not the oldest held one                    (`queue_refinement`)
* `exposes-nothing` / `wrong-item-exposed` — `!empty` although nothing is held / `peek` is not the oldest item (`peek_is_head`)
* `valid-without-request`   — `pushValid`/`popValid` without the request
* `af-optimistic` / `ae-optimistic` — the flag is off although the fill level is past the level applied at the
                              flag's last clock edge                                          (`almostFull_not_optimistic`, `almostEmpty_not_optimistic`)
* `not-exposed`             — the oldest held item has seen `lw-1` pop edges after its acceptance and `empty` is still on (`liveness`)
* `push-size-optimistic` / `pop-size-optimistic` — `pushSize` below / `popSize` above the number of items held after the edge
-/
structure QState (α : Type) where
  queue : List (α × Nat) := []   -- held items, oldest first, with the number of pop edges seen since acceptance
  afLvl : Option Nat := none     -- level applied at the last push edge
  aeLvl : Option Nat := none     -- level applied at the last pop edge
  acc : Nat := 0
  yld : Nat := 0
  sinceFree : Option Nat := none  -- push-clock edges since room was last freed (a yield); none = never

/-- `req` = the minimum depth the user REQUESTED, `lr` = latency_readToFull.  `capacity-below-request`: the FIFO shows
`full` (or refuses a push) while holding fewer items than were requested, although the push side has had `lr+2` of its
clock edges to learn about the last yield (or nothing was ever yielded) — the FIFO is smaller than it was built for. -/
def qcheck [BEq α] (N M lw req lr : Nat) (q : QState α) (e : Ev α) (o : Out α) : List String × QState α :=
  -- All flag / level / size outputs are checked in EVERY cycle from power-on, including the cycles in which a reset is
  -- asserted (the queue is empty then; the harness makes no request) and the first cycle after reset release.
  -- While the flag register has not yet seen a non-reset edge of its clock it holds its reset value; it is then read
  -- against the level input applied in the cycle of observation (`afLvl` / `aeLvl` = none).
  let inRst := e.pushRst || e.popRst
  let fill := q.queue.length
  let v0 := if inRst && (o.pushValid || o.popValid) then ["valid-during-reset"] else []
  let v1 := if (o.pushValid && !e.pushReq) || (o.popValid && !e.popReq) then ["valid-without-request"] else []
  let v2 := if e.pushClk && o.pushValid && fill ≥ N then ["accept-when-full"] else []
  let v3 := if e.popClk && o.popValid then
              match q.queue with
              | [] => ["yield-when-empty"]
              | (x, _) :: _ => if x == o.peek then [] else ["wrong-item"]
            else []
  let v4 := if !o.empty then
              match q.queue with
              | [] => ["exposes-nothing"]
              | (x, _) :: _ => if x == o.peek then [] else ["wrong-item-exposed"]
            else []
  let afl := q.afLvl.getD e.afLevel
  -- known corner (its own kind, computed from the stimulus): the level equals the depth — "at most N places free",
  -- constantly true — while the almost-full register has not yet seen a non-reset push-clock edge and still shows its
  -- reset value '0'.  Every other optimistic `af` keeps the kind `af-optimistic`.
  let v5 := if afl ≤ N && !o.af && !(fill + afl < N) then
              (if q.afLvl.isNone && afl == N then ["af-optimistic-level-eq-depth-before-first-push-edge"] else ["af-optimistic"])
            else []
  let ael := q.aeLvl.getD (e.aeLevel % M)
  let v6 := if !o.ae && !(ael < fill) then ["ae-optimistic"] else []
  let v7 := match q.queue with
            | (_, age) :: _ => if o.empty && age + 1 ≥ lw then ["not-exposed"] else []
            | [] => []
  let yields := !inRst && e.popClk && o.popValid
  let accepts := !inRst && e.pushClk && o.pushValid
  -- size outputs (combinational, they already include this cycle's accepted push / pop): the push side must not
  -- under-report, the pop side must not over-report what is held after this edge
  let fillAfter := fill + (if accepts then 1 else 0) - (if yields then 1 else 0)
  let v8 := if o.pushSize < fillAfter then ["push-size-optimistic"] else []
  let v9 := if o.popSize > fillAfter then ["pop-size-optimistic"] else []
  let settled := match q.sinceFree with | none => true | some n => n ≥ lr + 2
  let v10 := if !inRst && fill < req && settled && (o.full || (e.pushReq && !o.pushValid)) then ["capacity-below-request"] else []
  let q1 := if yields then q.queue.drop 1 else q.queue
  let q2 := if e.popClk then q1.map (fun (x, a) => (x, a + 1)) else q1
  let q3 := if accepts then q2 ++ [(e.data, 0)] else q2
  (v0 ++ v1 ++ v2 ++ v3 ++ v4 ++ v5 ++ v6 ++ v7 ++ v8 ++ v9 ++ v10,
   { queue := q3
     sinceFree := if yields then some 0 else (if e.pushClk then q.sinceFree.map (· + 1) else q.sinceFree)
     afLvl := if e.pushClk then (if e.pushRst then none else some e.afLevel) else q.afLvl
     aeLvl := if e.popClk then (if e.popRst then none else some (e.aeLevel % M)) else q.aeLvl
     acc := q.acc + (if accepts then 1 else 0)
     yld := q.yld + (if yields then 1 else 0) })

end Gatery.C15

namespace Gatery.C15
variable {α : Type}

/-- The same queue specification for the ready/valid wrapper `strm::fifo`: `accept` = `in.valid ∧ in.ready`,
`yield` = `out.valid ∧ out.ready`.  With a fall-through FIFO (`fall`) a beat may be accepted and yielded in the
same cycle while nothing is held. `q.queue` ages count clock cycles. -/
def scheck [BEq α] (N lw req lr : Nat) (fall : Bool) (q : QState α) (rst inValid : Bool) (d : α) (outReady : Bool)
    (inReady outValid : Bool) (outData : α) : List String × QState α :=
  if rst then
    -- nothing is held while the reset is asserted: the output must not claim a beat
    ((if inValid then ["valid-during-reset"] else []) ++ (if outValid then ["exposes-nothing"] else []), q)
  else
    let accept := inValid && inReady
    let yield := outValid && outReady
    let direct := fall && q.queue.isEmpty && accept && yield   -- passes straight through
    let v2 := if accept && !direct && q.queue.length ≥ N then ["accept-when-full"] else []
    let v3 := if yield then
                match q.queue with
                | [] => if direct then (if d == outData then [] else ["wrong-item"]) else ["yield-when-empty"]
                | (x, _) :: _ => if x == outData then [] else ["wrong-item"]
              else []
    let v4 := if outValid then
                match q.queue with
                | [] => if fall && inValid then (if d == outData then [] else ["wrong-item-exposed"]) else ["exposes-nothing"]
                | (x, _) :: _ => if x == outData then [] else ["wrong-item-exposed"]
              else []
    let v7 := match q.queue with
              | (_, age) :: _ => if !outValid && age + 1 ≥ lw then ["not-exposed"] else []
              | [] => if fall && inValid && !outValid then ["not-exposed"] else []
    let settled := match q.sinceFree with | none => true | some n => n ≥ lr + 2
    let v8 := if q.queue.length < req && settled && !inReady then ["capacity-below-request"] else []
    let q1 := if yield && !direct then q.queue.drop 1 else q.queue
    let q2 := q1.map (fun (x, a) => (x, a + 1))
    let q3 := if accept && !direct then q2 ++ [(d, 0)] else q2
    (v2 ++ v3 ++ v4 ++ v7 ++ v8,
     { q with queue := q3, sinceFree := (if yield && !direct then some 0 else q.sinceFree.map (· + 1)), acc := q.acc + (if accept then 1 else 0), yld := q.yld + (if yield then 1 else 0) })

end Gatery.C15
