import GateryModel.C15.Spec
/-!
# C15 — model of `gtry::scl::TransactionalFifo<TData>` (source/gatery/scl/TransactionalFifo.h), single clock

A `Fifo` whose push side and pop side each keep a *checkpoint* pointer next to the working pointer:

push side (generatePush, TransactionalFifo.h:119-160), in statement order
  1. `IF(pushValid) { mem[put.low] = data; put += 1 }`
  2. `IF(pushRollback) put = putCheckpoint`                  (discard everything pushed since the last commit — and the push of this cycle)
  3. `IF(pushCommit) { put -= cutoff; putCheckpoint = put }` (commit, optionally dropping the last `cutoff` items)
  `full' = reg(isFull(put, get))`, and the *checkpoint* (after 3) is what the pop side gets to see.
pop side (generatePop, TransactionalFifo.h:162-196)
  1. `IF(popValid) get += 1`
  2. `IF(popRollback) get = getCheckpoint`                   (everything popped since the last commit — and the pop of this cycle — is delivered again)
  3. `IF(popCommit) getCheckpoint = get`
  `peek' = reg(mem[get.low])`, `empty' = reg(isEmpty(put, get))`, and the *checkpoint* (after 3) is what the push side gets to see
  (room is only freed by committed pops).

`commitX()` / `rollbackX()` (TransactionalFifo.h:71-105) each set BOTH strobes (`commit=1, rollback=0` resp. `commit=0,
rollback=1`) under the caller's condition, so when both are requested in one cycle the call that comes later in the
design wins.  The harness calls commit first and rollback second on both sides: `TEv.effective` — rollback wins.

The pointer crossing is the single-clock register chain of `Fifo::generate` (Fifo.h:317-329).  The dual-clock variant
(`generateCDCReqAck`) is NOT modelled.
-/
namespace Gatery.C15
variable {α : Type}

structure TState (α : Type) where
  put : Nat
  putCp : Nat
  get : Nat
  getCp : Nat
  full : Bool
  empty : Bool
  af : Bool             -- almostFull(level)  : reg(pushSize >= N - level, '0')  (inherited, Fifo.h:197-215)
  ae : Bool             -- almostEmpty(level) : reg(popSize <= level, '1')       (inherited, Fifo.h:176-194)
  peek : α
  mem : List α
  getChain : List Nat   -- getCheckpoint → push side (lr-1 registers)
  putChain : List Nat   -- putCheckpoint → pop side  (lw-1 registers)

/-- input pins of one clock cycle -/
structure TEv (α : Type) where
  rst : Bool := false
  pushReq : Bool
  data : α
  pushCommit : Bool       -- IF(pushCommit) fifo.commitPush(cutoff)
  pushRollback : Bool     -- IF(pushRollback) fifo.rollbackPush()      (called after commitPush)
  cutoff : Nat
  afLevel : Nat := 0
  popReq : Bool
  popCommit : Bool        -- IF(popCommit) fifo.commitPop()
  popRollback : Bool      -- IF(popRollback) fifo.rollbackPop()        (called after commitPop)
  aeLevel : Nat := 0

/-- the strobes that reach the circuit: the later call overrides the earlier one -/
def TEv.pc (e : TEv α) : Bool := e.pushCommit && !e.pushRollback
def TEv.pr (e : TEv α) : Bool := e.pushRollback
def TEv.qc (e : TEv α) : Bool := e.popCommit && !e.popRollback
def TEv.qr (e : TEv α) : Bool := e.popRollback

def TState.pushValid (s : TState α) (e : TEv α) : Bool := e.pushReq && !s.full
def TState.popValid (s : TState α) (e : TEv α) : Bool := e.popReq && !s.empty

/-- `put` after statements 1-3 of generatePush -/
def putFinal (c : Cfg) (s : TState α) (e : TEv α) : Nat :=
  let p1 := (s.put + (s.pushValid e).toNat) % c.M
  let p2 := if e.pr then s.putCp else p1
  if e.pc then ptrSub c p2 (e.cutoff % c.M) else p2

def putCpNext (c : Cfg) (s : TState α) (e : TEv α) : Nat := if e.pc then putFinal c s e else s.putCp

/-- `get` after statements 1-2 of generatePop -/
def getFinal (c : Cfg) (s : TState α) (e : TEv α) : Nat :=
  let g1 := (s.get + (s.popValid e).toNat) % c.M
  if e.qr then s.getCp else g1

def getCpNext (c : Cfg) (s : TState α) (e : TEv α) : Nat := if e.qc then getFinal c s e else s.getCp

def tinit (c : Cfg) (x : α) : TState α :=
  { put := 0, putCp := 0, get := 0, getCp := 0, full := false, empty := true, af := false, ae := true, peek := x, mem := List.replicate c.N x
    getChain := List.replicate (c.lr - 1) 0, putChain := List.replicate (c.lw - 1) 0 }

def tstep (c : Cfg) (s : TState α) (e : TEv α) : TState α :=
  let pf := putFinal c s e
  let gf := getFinal c s e
  let pcp := putCpNext c s e
  let gcp := getCpNext c s e
  let og := obs s.getChain gcp
  let op := obs s.putChain pcp
  let mem' := if s.pushValid e then s.mem.set (s.put % c.N) e.data else s.mem
  let rd := if c.lw ≤ 1 then mem' else s.mem
  { put := pf, putCp := pcp, get := gf, getCp := gcp
    full := fullCond c pf og
    empty := emptyCond c op gf
    af := decide (ptrSub c c.N (e.afLevel % c.M) ≤ ptrSub c pf og)
    ae := decide (ptrSub c op gf ≤ e.aeLevel % c.M)
    peek := (rd[gf % c.N]?).getD s.peek
    mem := mem'
    getChain := shiftChain s.getChain true true false false gcp
    putChain := shiftChain s.putChain true true false false pcp }

structure TOut (α : Type) where
  full : Bool
  pushValid : Bool
  pushSize : Nat
  af : Bool
  empty : Bool
  popValid : Bool
  popSize : Nat
  ae : Bool
  peek : α

def toutputs (c : Cfg) (s : TState α) (e : TEv α) : TOut α :=
  { full := s.full, pushValid := s.pushValid e
    pushSize := ptrSub c (putFinal c s e) (obs s.getChain (getCpNext c s e)), af := s.af
    empty := s.empty, popValid := s.popValid e
    popSize := ptrSub c (obs s.putChain (putCpNext c s e)) (getFinal c s e), ae := s.ae
    peek := s.peek }

def trun (c : Cfg) (s : TState α) : List (TEv α) → TState α
  | [] => s
  | e :: es => trun c (tstep c s e) es

def ttrace (c : Cfg) (s : TState α) : List (TEv α) → List (TEv α × TOut α)
  | [] => []
  | e :: es => (e, toutputs c s e) :: ttrace c (tstep c s e) es

/-! ## specification: a queue with a tentative suffix (producer) and a tentative prefix (consumer)

* `com`  — every item the producer has committed so far, in order (never shrinks);
* `tent` — items pushed since the last `commitPush` / `rollbackPush`;
* `gc`   — how many items of `com` the consumer has committed;
* `gt`   — how many more it has popped tentatively: its read position is `gc + gt`.

A yield must hand out `com[gc+gt]`.  `rollbackPop` sets `gt := 0` — also when a pop is asserted in the same cycle
(rollback wins: that item is delivered again); `commitPop` sets `gc := gc + gt`.  `rollbackPush` empties `tent`
(also the item pushed in the same cycle), `commitPush(cutoff)` appends `tent` minus its last `cutoff` items to `com`.
Hence: committed items are never lost, duplicated or reordered, whatever is rolled back.  Room is only freed by
committed pops: `|com| + |tent| - gc ≤ N`. -/
structure TSpec (α : Type) where
  com : List α := []
  comAt : List Nat := []     -- for every item of `com`: the index of the cycle in which it was committed
  tent : List α := []
  gc : Nat := 0
  gt : Nat := 0
  now : Nat := 0
  afLvl : Option Nat := none   -- level applied at the last non-reset clock edge (none: flag still holds its reset value)
  aeLvl : Option Nat := none
  sinceFree : Option Nat := none   -- clock edges since room was last freed (a commitPop that committed something); none = never
  req : Nat := 0                   -- requested minimum depth
  lr : Nat := 0

def tcheck [BEq α] (N M lw : Nat) (q : TSpec α) (e : TEv α) (o : TOut α) : List String × TSpec α :=
  -- flags, levels and sizes are checked in every cycle from power-on (nothing is held while the reset is asserted);
  -- occupancy = what blocks the producer, available = what the consumer may still take
  let rd := q.gc + q.gt
  let occ := q.com.length + q.tent.length - q.gc
  let avail := q.com.length - rd
  let vr := if e.rst && (o.pushValid || o.popValid) then ["trans-valid-during-reset"] else []
  let v0 := if (o.pushValid && !e.pushReq) || (o.popValid && !e.popReq) then ["trans-valid-without-request"] else []
  let v1 := if o.pushValid && occ ≥ N then ["trans-accept-when-full"] else []
  let v2 := if o.popValid then
              match q.com[rd]? with
              | none => ["trans-yield-uncommitted-or-none"]
              | some x => if x == o.peek then [] else ["trans-wrong-item"]
            else []
  let v3 := if !o.empty then
              match q.com[rd]? with
              | none => ["trans-exposes-nothing"]
              | some x => if x == o.peek then [] else ["trans-wrong-item-exposed"]
            else []
  let v4 := match q.comAt[rd]? with
            | some t => if o.empty && q.now ≥ t + lw then ["trans-not-exposed"] else []
            | none => []
  let afl := q.afLvl.getD e.afLevel
  -- same known corner as for the plain FIFO (almostFull is inherited): level == depth before the first non-reset edge
  let v6 := if afl ≤ N && !o.af && !(occ + afl < N) then
              (if q.afLvl.isNone && afl == N then ["af-optimistic-level-eq-depth-before-first-push-edge"] else ["trans-af-optimistic"])
            else []
  let ael := q.aeLvl.getD (e.aeLevel % M)
  let v7 := if !o.ae && !(ael < avail) then ["trans-ae-optimistic"] else []
  if e.rst then (vr ++ v3 ++ v6 ++ v7 ++ (if o.popSize > 0 then ["trans-pop-size-optimistic"] else []), { q with afLvl := none, aeLvl := none })
  else
    -- producer side, statement order: push, rollback, commit(cutoff)
    let tent1 := if o.pushValid then q.tent ++ [e.data] else q.tent
    let tent2 := if e.pr then [] else tent1
    let keep := tent2.take (tent2.length - e.cutoff)
    let v5 := if e.pc && e.cutoff > tent2.length then ["trans-cutoff-exceeds-tentative(harness)"] else []
    let com' := if e.pc then q.com ++ keep else q.com
    let comAt' := if e.pc then q.comAt ++ List.replicate keep.length q.now else q.comAt
    let tent' := if e.pc then [] else tent2
    -- consumer side: pop, rollback, commit
    let gt1 := if o.popValid then q.gt + 1 else q.gt
    let gt2 := if e.qr then 0 else gt1
    let gc' := if e.qc then q.gc + gt2 else q.gc
    let gt' := if e.qc then 0 else gt2
    -- size outputs already include this cycle's operations
    let v8 := if o.pushSize < com'.length + tent'.length - gc' then ["trans-push-size-optimistic"] else []
    let v9 := if o.popSize > com'.length - (gc' + gt') then ["trans-pop-size-optimistic"] else []
    let settled := match q.sinceFree with | none => true | some n => n ≥ q.lr + 2
    let v10 := if occ < q.req && settled && (o.full || (e.pushReq && !o.pushValid)) then ["capacity-below-request"] else []
    (v0 ++ v1 ++ v2 ++ v3 ++ v4 ++ v5 ++ v6 ++ v7 ++ v8 ++ v9 ++ v10,
     { com := com', req := q.req, lr := q.lr, sinceFree := (if gc' > q.gc then some 0 else q.sinceFree.map (· + 1)), comAt := comAt', tent := tent', gc := gc', gt := gt', now := q.now + 1
       afLvl := some e.afLevel, aeLvl := some (e.aeLevel % M) })

end Gatery.C15
