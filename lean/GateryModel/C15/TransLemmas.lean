import GateryModel.C15.Trans
import GateryModel.C15.Chains
/-!
# C15 — invariant of the transactional FIFO model and its relation to the tentative-queue specification

Ghost values next to a model state `s : TState α`: unbounded pointers `P` (put), `Pc` (put checkpoint), `G` (get),
`Gc` (get checkpoint), the last observations `oG`, `oP`, the list `hist` of the items at positions `0 … P-1`
(committed prefix of length `Pc`, tentative rest) and unbounded copies of the two register chains.
`gnext` advances the ghosts along one cycle in the statement order of generatePush / generatePop;
`tinv_step` shows the invariant `TInv` is preserved, `specRel_step` that the specification state computed by
`tcheck` from the observable trace stays equal to the ghost view (`com = hist.take Pc`, `tent = hist.drop Pc`,
`gc = Gc`, `gc + gt = G`).
-/
namespace Gatery.C15
variable {α : Type}

structure TGhost (α : Type) where
  P : Nat
  Pc : Nat
  G : Nat
  Gc : Nat
  oG : Nat
  oP : Nat
  hist : List α
  gcs : List Nat
  pcs : List Nat

section gnext
variable (c : Cfg) (s : TState α) (g : TGhost α) (e : TEv α)

def gP1 : Nat := g.P + (s.pushValid e).toNat
def gP3 : Nat :=
  let p2 := if e.pr then g.Pc else gP1 s g e
  if e.pc then p2 - e.cutoff else p2
def gPc' : Nat := if e.pc then gP3 s g e else g.Pc
def gG2 : Nat := if e.qr then g.Gc else g.G + (s.popValid e).toNat
def gGc' : Nat := if e.qc then gG2 s g e else g.Gc
def gHist1 : List α := if s.pushValid e then g.hist ++ [e.data] else g.hist

def gnext : TGhost α :=
  { P := gP3 s g e, Pc := gPc' s g e, G := gG2 s g e, Gc := gGc' s g e
    oG := obs g.gcs (gGc' s g e), oP := obs g.pcs (gPc' s g e)
    hist := (gHist1 s g e).take (gP3 s g e)
    gcs := shiftChain g.gcs true true false false (gGc' s g e)
    pcs := shiftChain g.pcs true true false false (gPc' s g e) }
end gnext

/-- caller obligations for one cycle: reset released; a commit never cuts off more than was pushed since the last commit -/
def TWfEv (s : TState α) (g : TGhost α) (e : TEv α) : Prop :=
  e.rst = false ∧ (e.pc = true → e.cutoff + g.Pc ≤ g.P + (s.pushValid e).toNat)

structure TInv (c : Cfg) (s : TState α) (g : TGhost α) : Prop where
  put_eq : s.put = g.P % c.M
  putCp_eq : s.putCp = g.Pc % c.M
  get_eq : s.get = g.G % c.M
  getCp_eq : s.getCp = g.Gc % c.M
  oG_le : g.oG ≤ g.Gc
  Gc_le : g.Gc ≤ g.G
  G_le : g.G ≤ g.oP
  oP_le : g.oP ≤ g.Pc
  Pc_le : g.Pc ≤ g.P
  P_le : g.P ≤ g.oG + c.N
  full_eq : s.full = decide (g.P = g.oG + c.N)
  empty_eq : s.empty = decide (g.oP = g.G)
  hist_len : g.hist.length = g.P
  mem_len : s.mem.length = c.N
  mem_ok : ∀ i, g.Gc ≤ i → i < g.P → s.mem[i % c.N]? = g.hist[i]?
  peek_ok : g.G < g.oP → some s.peek = g.hist[g.G]?
  gch : s.getChain = g.gcs.map (· % c.M)
  pch : s.putChain = g.pcs.map (· % c.M)
  dg : Desc g.Gc g.gcs g.oG
  dp : Desc g.Pc g.pcs g.oP
  lp : g.pcs.length = c.lw - 1

def tginit (c : Cfg) : TGhost α :=
  { P := 0, Pc := 0, G := 0, Gc := 0, oG := 0, oP := 0, hist := []
    gcs := List.replicate (c.lr - 1) 0, pcs := List.replicate (c.lw - 1) 0 }

theorem tinv_init (c : Cfg) (x : α) : TInv c (tinit c x) (tginit c) := by
  have := c.N_pos
  constructor <;> simp [tinit, tginit, desc_replicate] <;> omega

/-- truncated subtraction of unbounded counters -/
theorem ptrSub_mod (c : Cfg) (a b : Nat) (h : b ≤ a) : ptrSub c (a % c.M) (b % c.M) = (a - b) % c.M := by
  obtain ⟨d, rfl⟩ : ∃ d, a = b + d := ⟨a - b, by omega⟩
  have hM := c.M_pos
  have h1 : (b + d) % c.M = (b + d % c.M) % c.M := (Nat.add_mod_mod b d c.M).symm
  rw [h1, ptrSub_eq c (b + d % c.M) b (by omega) (by have := Nat.mod_lt d hM; omega)]
  simp

theorem obs_map_all (f : Nat → Nat) (l : List Nat) (v : Nat) : obs (l.map f) (f v) = f (obs l v) := by
  cases l with
  | nil => rfl
  | cons x t => exact obs_map f x t _ _

section step
variable (c : Cfg) (s : TState α) (g : TGhost α) (e : TEv α)

theorem push_not_full (hi : TInv c s g) (h : s.pushValid e = true) : g.P ≠ g.oG + c.N := by
  unfold TState.pushValid at h; rw [hi.full_eq] at h
  simp only [Bool.and_eq_true, Bool.not_eq_true', decide_eq_false_iff_not] at h; exact h.2

theorem pop_not_empty (hi : TInv c s g) (h : s.popValid e = true) : g.oP ≠ g.G := by
  unfold TState.popValid at h; rw [hi.empty_eq] at h
  simp only [Bool.and_eq_true, Bool.not_eq_true', decide_eq_false_iff_not] at h; exact h.2

theorem putFinal_eq (hi : TInv c s g) (hw : TWfEv s g e) : putFinal c s e = gP3 s g e % c.M := by
  have h1 : (s.put + (s.pushValid e).toNat) % c.M = gP1 s g e % c.M := by
    unfold gP1; rw [hi.put_eq, Nat.mod_add_mod]
  unfold putFinal gP3
  simp only [h1]
  cases hr : e.pr <;> cases hc : e.pc <;> simp only [Bool.false_eq_true, ↓reduceIte]
  · have := hw.2 hc
    exact ptrSub_mod c _ _ (by unfold gP1; omega)
  · exact hi.putCp_eq
  · -- commit and rollback are exclusive at the circuit (`pc = pushCommit ∧ ¬pushRollback`)
    unfold TEv.pc at hc; unfold TEv.pr at hr; simp [hr] at hc

theorem getFinal_eq (hi : TInv c s g) : getFinal c s e = gG2 s g e % c.M := by
  unfold getFinal gG2
  cases e.qr <;> simp only [Bool.false_eq_true, ↓reduceIte]
  · rw [hi.get_eq, Nat.mod_add_mod]
  · exact hi.getCp_eq

theorem putCpNext_eq (hi : TInv c s g) (hw : TWfEv s g e) : putCpNext c s e = gPc' s g e % c.M := by
  unfold putCpNext gPc'
  cases e.pc <;> simp only [Bool.false_eq_true, ↓reduceIte]
  · exact hi.putCp_eq
  · exact putFinal_eq c s g e hi hw

theorem getCpNext_eq (hi : TInv c s g) : getCpNext c s e = gGc' s g e % c.M := by
  unfold getCpNext gGc'
  cases e.qc <;> simp only [Bool.false_eq_true, ↓reduceIte]
  · exact hi.getCp_eq
  · exact getFinal_eq c s g e hi

/-- the arithmetic facts about one cycle that everything else follows from -/
theorem step_facts (hi : TInv c s g) (hw : TWfEv s g e) :
    g.P ≤ gP1 s g e ∧ gP1 s g e ≤ g.P + 1 ∧ (gP1 s g e = g.P + 1 → g.P < g.oG + c.N) ∧
    gP3 s g e ≤ gP1 s g e ∧ g.Pc ≤ gPc' s g e ∧ gPc' s g e ≤ gP3 s g e ∧
    g.Gc ≤ gGc' s g e ∧ gGc' s g e ≤ gG2 s g e ∧ g.Gc ≤ gG2 s g e ∧ gG2 s g e ≤ g.oP := by
  have hP := hi.P_le; have := hi.oG_le; have := hi.Gc_le; have := hi.G_le; have := hi.oP_le; have := hi.Pc_le
  have hpv : (s.pushValid e).toNat ≤ 1 := Bool.toNat_le _
  have hqv : (s.popValid e).toNat ≤ 1 := Bool.toNat_le _
  have hA : (s.pushValid e).toNat = 1 → g.P < g.oG + c.N := by
    intro h; have := push_not_full c s g e hi (by cases hh : s.pushValid e <;> simp_all); omega
  have hY : (s.popValid e).toNat = 1 → g.G < g.oP := by
    intro h; have := pop_not_empty c s g e hi (by cases hh : s.popValid e <;> simp_all); omega
  have hexcl : e.pc = true → e.pr = false := by
    intro h; unfold TEv.pc at h; unfold TEv.pr; simp at h; exact h.2
  have hexclq : e.qc = true → e.qr = false := by
    intro h; unfold TEv.qc at h; unfold TEv.qr; simp at h; exact h.2
  unfold gPc' gP3 gGc' gG2 gP1
  cases hr : e.pr <;> cases hc : e.pc <;> cases hqr : e.qr <;> cases hqc : e.qc <;>
    simp only [Bool.false_eq_true, ↓reduceIte] <;>
    first
    | (have := hexcl hc; simp_all; done)
    | (have := hexclq hqc; simp_all; done)
    | (have := hw.2; simp only [hc, forall_const] at this; omega)
    | omega

end step

theorem tinv_step (c : Cfg) (s : TState α) (g : TGhost α) (e : TEv α) (hi : TInv c s g) (hw : TWfEv s g e) :
    TInv c (tstep c s e) (gnext s g e) := by
  have hN := c.N_pos
  have hNM := c.N_lt_M
  obtain ⟨f1, f2, f3, f4, f5, f6, f7, f8, f9, f10⟩ := step_facts c s g e hi hw
  have hP := hi.P_le; have h1 := hi.oG_le; have h2 := hi.Gc_le; have h3 := hi.G_le; have h4 := hi.oP_le; have h5 := hi.Pc_le
  -- observations
  have hog_lo : g.oG ≤ obs g.gcs (gGc' s g e) := hi.dg.obs_ge _ (by omega)
  have hog_hi : obs g.gcs (gGc' s g e) ≤ gGc' s g e := by
    cases hgc : g.gcs with
    | nil => simp
    | cons x t => have d := hi.dg; rw [hgc] at d; have := d.obs_le (gGc' s g e); omega
  have hop_lo : g.oP ≤ obs g.pcs (gPc' s g e) := hi.dp.obs_ge _ (by omega)
  have hop_hi : obs g.pcs (gPc' s g e) ≤ gPc' s g e := by
    cases hpc : g.pcs with
    | nil => simp
    | cons x t => have d := hi.dp; rw [hpc] at d; have := d.obs_le (gPc' s g e); omega
  have hogc : obs s.getChain (getCpNext c s e) = obs g.gcs (gGc' s g e) % c.M := by
    rw [hi.gch, getCpNext_eq c s g e hi]; exact obs_map_all (· % c.M) _ _
  have hopc : obs s.putChain (putCpNext c s e) = obs g.pcs (gPc' s g e) % c.M := by
    rw [hi.pch, putCpNext_eq c s g e hi hw]; exact obs_map_all (· % c.M) _ _
  -- memory after the write of this cycle
  have hlen1 : (gHist1 s g e).length = gP1 s g e := by
    unfold gHist1 gP1; cases s.pushValid e <;> simp [hi.hist_len]
  have hmem1 : ∀ i, g.Gc ≤ i → i < gP1 s g e →
      (if s.pushValid e then s.mem.set (s.put % c.N) e.data else s.mem)[i % c.N]? = (gHist1 s g e)[i]? := by
    intro i hi1 hi2
    unfold gHist1
    unfold gP1 at hi2 f3
    cases hv : s.pushValid e
    · simp only [hv, Bool.false_eq_true, ↓reduceIte, Bool.toNat_false, Nat.add_zero] at hi2 ⊢
      exact hi.mem_ok i hi1 hi2
    · simp only [hv, ↓reduceIte, Bool.toNat_true] at hi2 f3 ⊢
      have hlt := f3 trivial
      rw [hi.put_eq, mod_mod_N]
      by_cases hip : i = g.P
      · subst hip
        rw [List.getElem?_set_self (by rw [hi.mem_len]; exact Nat.mod_lt _ hN), ← hi.hist_len]; simp
      · have hlt' : i < g.P := by omega
        have hne : g.P % c.N ≠ i % c.N := by
          have := low_ne_of_lt c.N i (g.P - i) (by omega) (by omega)
          rwa [show i + (g.P - i) = g.P by omega] at this
        rw [List.getElem?_set_ne hne, List.getElem?_append_left (by rw [hi.hist_len]; exact hlt')]
        exact hi.mem_ok i hi1 hlt'
  have hhist' : ∀ i, i < gP3 s g e → ((gHist1 s g e).take (gP3 s g e))[i]? = (gHist1 s g e)[i]? := by
    intro i h; rw [List.getElem?_take]; simp [h]
  constructor
  · exact putFinal_eq c s g e hi hw
  · exact putCpNext_eq c s g e hi hw
  · exact getFinal_eq c s g e hi
  · exact getCpNext_eq c s g e hi
  · exact hog_hi
  · exact f8
  · show gG2 s g e ≤ obs g.pcs (gPc' s g e); omega
  · exact hop_hi
  · exact f6
  · show gP3 s g e ≤ obs g.gcs (gGc' s g e) + c.N; omega
  · show fullCond c (putFinal c s e) (obs s.getChain (getCpNext c s e)) = decide (gP3 s g e = obs g.gcs (gGc' s g e) + c.N)
    rw [putFinal_eq c s g e hi hw, hogc]
    exact fullCond_eq c _ _ (by omega) (by omega)
  · show emptyCond c (obs s.putChain (putCpNext c s e)) (getFinal c s e) = decide (obs g.pcs (gPc' s g e) = gG2 s g e)
    rw [getFinal_eq c s g e hi, hopc]
    exact emptyCond_eq c _ _ (by omega) (by omega)
  · show ((gHist1 s g e).take (gP3 s g e)).length = gP3 s g e
    rw [List.length_take, hlen1]; omega
  · show (if s.pushValid e then s.mem.set (s.put % c.N) e.data else s.mem).length = c.N
    split <;> simp [hi.mem_len]
  · intro i hi1 hi2
    show (if s.pushValid e then s.mem.set (s.put % c.N) e.data else s.mem)[i % c.N]? = ((gHist1 s g e).take (gP3 s g e))[i]?
    rw [hhist' i hi2]
    exact hmem1 i (by show g.Gc ≤ i; have : gGc' s g e ≤ i := hi1; omega) (by have : i < gP3 s g e := hi2; omega)
  · show gG2 s g e < obs g.pcs (gPc' s g e) →
      some (((if c.lw ≤ 1 then (if s.pushValid e then s.mem.set (s.put % c.N) e.data else s.mem) else s.mem)[getFinal c s e % c.N]?).getD s.peek) =
        ((gHist1 s g e).take (gP3 s g e))[gG2 s g e]?
    intro hlt
    rw [getFinal_eq c s g e hi, mod_mod_N, hhist' _ (by omega)]
    have hin : gG2 s g e < (gHist1 s g e).length := by rw [hlen1]; omega
    have hrd : (if c.lw ≤ 1 then (if s.pushValid e then s.mem.set (s.put % c.N) e.data else s.mem) else s.mem)[gG2 s g e % c.N]? =
        (gHist1 s g e)[gG2 s g e]? := by
      by_cases hb : c.lw ≤ 1
      · simp only [hb, ↓reduceIte]
        exact hmem1 _ f9 (by omega)
      · simp only [hb, ↓reduceIte]
        -- the chain is not empty: the pop side only sees checkpoints of earlier cycles
        have hne : g.pcs ≠ [] := by
          intro h0; have := hi.lp; rw [h0] at this; simp at this; omega
        obtain ⟨x, t, hxt⟩ := List.exists_cons_of_ne_nil hne
        have d := hi.dp; rw [hxt] at d
        have hle := d.obs_le (gPc' s g e)
        rw [hxt] at hlt
        have hold := hi.mem_ok (gG2 s g e) f9 (by omega)
        rw [hold]
        unfold gHist1
        cases s.pushValid e
        · simp
        · simp only [↓reduceIte]
          exact (List.getElem?_append_left (by rw [hi.hist_len]; omega)).symm
    rw [hrd, List.getElem?_eq_getElem hin]; simp
  · show shiftChain s.getChain true true false false (getCpNext c s e) = (shiftChain g.gcs true true false false (gGc' s g e)).map (· % c.M)
    rw [shiftChain_map, hi.gch, getCpNext_eq c s g e hi]
  · show shiftChain s.putChain true true false false (putCpNext c s e) = (shiftChain g.pcs true true false false (gPc' s g e)).map (· % c.M)
    rw [shiftChain_map, hi.pch, putCpNext_eq c s g e hi hw]
  · exact hi.dg.shift f7 true true
  · exact hi.dp.shift f5 true true
  · show (shiftChain g.pcs true true false false _).length = _
    rw [shiftChain_length]; exact hi.lp

/-! ### the specification state follows the ghosts -/

/-- state update of the specification for one observed cycle -/
def tspecStep [BEq α] (c : Cfg) (q : TSpec α) (e : TEv α) (o : TOut α) : TSpec α := (tcheck c.N c.M c.lw q e o).2

structure SpecRel (g : TGhost α) (q : TSpec α) : Prop where
  com : q.com = g.hist.take g.Pc
  tent : q.tent = g.hist.drop g.Pc
  gc : q.gc = g.Gc
  rd : q.gc + q.gt = g.G

theorem specRel_init (c : Cfg) : SpecRel (tginit c : TGhost α) {} := by
  constructor <;> simp [tginit]

theorem specRel_step [BEq α] (c : Cfg) (s : TState α) (g : TGhost α) (q : TSpec α) (e : TEv α)
    (hi : TInv c s g) (hw : TWfEv s g e) (hr : SpecRel g q) :
    SpecRel (gnext s g e) (tspecStep c q e (toutputs c s e)) := by
  obtain ⟨f1, f2, f3, f4, f5, f6, f7, f8, f9, f10⟩ := step_facts c s g e hi hw
  have h5 := hi.Pc_le
  have hlenH := hi.hist_len
  have hexcl : e.pc = true → e.pr = false := by
    intro h; unfold TEv.pc at h; unfold TEv.pr; simp at h; exact h.2
  have hexclq : e.qc = true → e.qr = false := by
    intro h; unfold TEv.qc at h; unfold TEv.qr; simp at h; exact h.2
  -- the producer's view after the push of this cycle
  have hlen1 : (gHist1 s g e).length = gP1 s g e := by
    unfold gHist1 gP1; cases s.pushValid e <;> simp [hlenH]
  have htake1 : (gHist1 s g e).take g.Pc = q.com := by
    rw [hr.com]; unfold gHist1
    cases s.pushValid e
    · rfl
    · simp only [↓reduceIte]; exact List.take_append_of_le_length (by omega)
  have hdrop1 : (gHist1 s g e).drop g.Pc = (if s.pushValid e then q.tent ++ [e.data] else q.tent) := by
    rw [hr.tent]; unfold gHist1
    cases s.pushValid e
    · rfl
    · simp only [↓reduceIte]; exact List.drop_append_of_le_length (by omega)
  have hcomlen : q.com.length = g.Pc := by rw [hr.com, List.length_take]; omega
  unfold tspecStep tcheck
  simp only [hw.1, Bool.false_eq_true, ↓reduceIte]
  have hpv : (toutputs c s e).pushValid = s.pushValid e := rfl
  have hqv : (toutputs c s e).popValid = s.popValid e := rfl
  simp only [hpv, hqv]
  constructor
  · -- com
    show (if e.pc then q.com ++ _ else q.com) = ((gHist1 s g e).take (gP3 s g e)).take (gPc' s g e)
    rw [List.take_take]
    cases hc : e.pc
    · have hmin : min (gPc' s g e) (gP3 s g e) = g.Pc := by unfold gPc'; simp [hc]; unfold gPc' at f6; simp [hc] at f6; omega
      simp only [Bool.false_eq_true, ↓reduceIte, hmin]; exact htake1.symm
    · have hpr := hexcl hc
      have hmin : min (gPc' s g e) (gP3 s g e) = gP3 s g e := by unfold gPc'; simp [hc]
      have hP3 : gP3 s g e = gP1 s g e - e.cutoff := by unfold gP3; simp [hc, hpr]
      have hwc := hw.2 hc
      simp only [↓reduceIte, hmin, hpr, Bool.false_eq_true]
      rw [← hdrop1, ← htake1]
      have hsplit : gP3 s g e = g.Pc + (gP3 s g e - g.Pc) := by unfold gPc' at f5; simp [hc] at f5; omega
      conv => rhs; rw [hsplit, List.take_add]
      congr 1
      rw [List.length_drop, hlen1]
      congr 1
      unfold gP1 at hP3 ⊢; omega
  · -- tent
    show (if e.pc then [] else (if e.pr then [] else (if s.pushValid e then q.tent ++ [e.data] else q.tent))) =
      ((gHist1 s g e).take (gP3 s g e)).drop (gPc' s g e)
    cases hc : e.pc
    · simp only [Bool.false_eq_true, ↓reduceIte]
      have hPc' : gPc' s g e = g.Pc := by unfold gPc'; simp [hc]
      rw [hPc']
      cases hpr : e.pr
      · have hP3 : gP3 s g e = gP1 s g e := by unfold gP3; simp [hc, hpr]
        simp only [Bool.false_eq_true, ↓reduceIte]
        rw [hP3, ← hlen1, List.take_length]; exact hdrop1.symm
      · have hP3 : gP3 s g e = g.Pc := by unfold gP3; simp [hc, hpr]
        simp only [↓reduceIte]
        rw [hP3, List.drop_take]; simp
    · simp only [↓reduceIte]
      have hPc' : gPc' s g e = gP3 s g e := by unfold gPc'; simp [hc]
      rw [hPc', List.drop_take]; simp
  · -- gc
    show (if e.qc then q.gc + (if e.qr then 0 else (if s.popValid e then q.gt + 1 else q.gt)) else q.gc) = gGc' s g e
    have hrd := hr.rd; have hgc := hr.gc
    unfold gGc' gG2
    cases hc : e.qc
    · simp [hgc]
    · have := hexclq hc
      simp only [↓reduceIte, this, Bool.false_eq_true]
      cases s.popValid e <;> simp <;> omega
  · -- read position
    show (if e.qc then q.gc + (if e.qr then 0 else (if s.popValid e then q.gt + 1 else q.gt)) else q.gc) +
         (if e.qc then 0 else (if e.qr then 0 else (if s.popValid e then q.gt + 1 else q.gt))) = gG2 s g e
    have hrd := hr.rd; have hgc := hr.gc
    unfold gG2
    cases e.qc <;> cases e.qr <;> cases s.popValid e <;> simp <;> omega

/-! ### runs -/

/-- the specification state after observing the model's own trace -/
def tspecRun [BEq α] (c : Cfg) (s : TState α) (q : TSpec α) : List (TEv α) → TSpec α
  | [] => q
  | e :: es => tspecRun c (tstep c s e) (tspecStep c q e (toutputs c s e)) es

/-- caller obligations along a schedule, phrased with the specification's own bookkeeping: resets released, and a
`commitPush(cutoff)` never cuts off more items than were pushed since the last commit / rollback (this cycle's included) -/
def TOk [BEq α] (c : Cfg) (s : TState α) (q : TSpec α) : List (TEv α) → Prop
  | [] => True
  | e :: es => e.rst = false ∧ (e.pc = true → e.cutoff ≤ q.tent.length + (s.pushValid e).toNat) ∧
      TOk c (tstep c s e) (tspecStep c q e (toutputs c s e)) es

def TOk.dec [BEq α] (c : Cfg) : (s : TState α) → (q : TSpec α) → (es : List (TEv α)) → Decidable (TOk c s q es)
  | _, _, [] => isTrue trivial
  | s, q, e :: es =>
    haveI := TOk.dec c (tstep c s e) (tspecStep c q e (toutputs c s e)) es
    by unfold TOk; infer_instance

instance [BEq α] (c : Cfg) (s : TState α) (q : TSpec α) (es : List (TEv α)) : Decidable (TOk c s q es) := TOk.dec c s q es

theorem trun_inv [BEq α] (c : Cfg) (s : TState α) (g : TGhost α) (q : TSpec α) (es : List (TEv α))
    (hi : TInv c s g) (hr : SpecRel g q) (hok : TOk c s q es) :
    ∃ g', TInv c (trun c s es) g' ∧ SpecRel g' (tspecRun c s q es) := by
  induction es generalizing s g q with
  | nil => exact ⟨g, hi, hr⟩
  | cons e es ih =>
    obtain ⟨h1, h2, h3⟩ := hok
    have hw : TWfEv s g e := by
      refine ⟨h1, fun hc => ?_⟩
      have := h2 hc
      rw [hr.tent, List.length_drop, hi.hist_len] at this
      have := hi.Pc_le
      omega
    exact ih _ _ _ (tinv_step c s g e hi hw) (specRel_step c s g q e hi hw hr) h3

/-- what the invariant and the specification relation say about the next cycle -/
theorem trans_facts (c : Cfg) (s : TState α) (g : TGhost α) (q : TSpec α) (e : TEv α) (hi : TInv c s g) (hr : SpecRel g q) :
    (s.popValid e = true → q.com[q.gc + q.gt]? = some s.peek) ∧
    (s.empty = false → q.com[q.gc + q.gt]? = some s.peek) ∧
    q.gc + q.gt ≤ q.com.length ∧
    (q.com.length ≤ q.gc + q.gt → s.empty = true) ∧
    q.com.length + q.tent.length - q.gc ≤ c.N ∧
    (s.pushValid e = true → q.com.length + q.tent.length - q.gc < c.N) ∧
    (q.com.length + q.tent.length - q.gc = c.N → s.full = true) := by
  have h1 := hi.oG_le; have h2 := hi.Gc_le; have h3 := hi.G_le; have h4 := hi.oP_le; have h5 := hi.Pc_le; have h6 := hi.P_le
  have hN := c.N_pos
  have hcom : q.com.length = g.Pc := by rw [hr.com, List.length_take, hi.hist_len]; omega
  have htent : q.tent.length = g.P - g.Pc := by rw [hr.tent, List.length_drop, hi.hist_len]
  have hrd := hr.rd; have hgc := hr.gc
  have hpeek : g.G < g.oP → q.com[q.gc + q.gt]? = some s.peek := by
    intro hlt
    rw [hrd, hr.com, List.getElem?_take]
    simp only [show g.G < g.Pc by omega, ↓reduceIte]
    exact (hi.peek_ok hlt).symm
  refine ⟨?_, ?_, by omega, ?_, by omega, ?_, ?_⟩
  · intro hv; have := pop_not_empty c s g e hi hv; exact hpeek (by omega)
  · intro he
    have : g.oP ≠ g.G := by have := hi.empty_eq; rw [he] at this; simpa using this.symm
    exact hpeek (by omega)
  · intro h; rw [hi.empty_eq]; simp; omega
  · intro hv; have := push_not_full c s g e hi hv; omega
  · intro h; rw [hi.full_eq]; simp; omega

end Gatery.C15
