import GateryModel.C16.Model
/-!
# C16 — the concrete data-word operations used by the driver: splitting a packed word returns the packed words
-/
namespace Gatery.C16

/-- part `i` of the little-endian concatenation of `w`-bit words is word `i` (truncated to `w` bits): what `extendWidth`
    packs, `reduceWidth` (`source->part(ratio, i)`) takes apart again in the same order -/
theorem partWord_packWords (w : Nat) (l : List Nat) (i : Nat) (h : i < l.length) :
    partWord w i (packWords w l) = l[i] % 2 ^ w := by
  induction l generalizing i with
  | nil => simp at h
  | cons x xs ih =>
    have hpos : 0 < 2 ^ w := Nat.two_pow_pos w
    cases i with
    | zero =>
      simp only [partWord, packWords, Nat.mul_zero, Nat.pow_zero, Nat.div_one, List.getElem_cons_zero]
      rw [Nat.add_mul_mod_self_left]; exact Nat.mod_mod _ _
    | succ i =>
      have hi : i < xs.length := by simpa using h
      simp only [List.getElem_cons_succ]
      rw [← ih i hi]
      simp only [partWord, packWords]
      have e : 2 ^ (w * (i + 1)) = 2 ^ w * 2 ^ (w * i) := by rw [Nat.mul_succ, Nat.pow_add, Nat.mul_comm]
      rw [e, ← Nat.div_div_eq_div_mul, Nat.add_mul_div_left _ _ hpos, Nat.div_eq_of_lt (Nat.mod_lt _ hpos), Nat.zero_add]

end Gatery.C16
