import GateryModel.C16.FifoProof
import GateryModel.C16.Width
/-!
# C16 — derived stages (`regDecouple`, `delay n`) and arbitrary finite chains
-/
namespace Gatery.C16

theorem Good.congr_spec {α β} {S : Stage α β} {T T' : Trans α β} {ok : Env α → Prop}
    (g : Good S T ok) (h : ∀ l, T.run l = T'.run l) : Good S T' ok where
  safe := fun env hl hok t => by rw [← h]; exact g.safe env hl hok t
  law := g.law

theorem run_idT_comp_idT {α} (l : List α) : ((Trans.idT : Trans α α).comp Trans.idT).run l = (Trans.idT : Trans α α).run l := by
  rw [Trans.run_comp, Trans.run_idT, Trans.run_idT]

/-- composition of two 1:1 stages without side conditions is again one -/
theorem good_comp_id {α} {A B : Stage α α} (gA : Good A Trans.idT okTrue) (gB : Good B Trans.idT okTrue) :
    Good (comp A B) Trans.idT okTrue :=
  ((good_comp A B gA gB).congr_spec run_idT_comp_idT).weaken fun _ _ => ⟨trivial, trivial⟩

theorem good_regDecouple {α} (d0 : α) : Good (regDecouple d0) Trans.idT okTrue :=
  good_comp_id (good_regDownstreamBlocking d0) (good_regReady d0)

theorem good_blockingChain {α} (d0 : α) (n : Nat) : Good (blockingChain d0 n) Trans.idT okTrue := by
  induction n with
  | zero => exact good_wire
  | succ n ih => exact good_comp_id (good_regDownstreamBlocking d0) ih

/-- `delay n` for every `n` -/
theorem good_delay {α} (d0 : α) (n : Nat) : Good (delay d0 n) Trans.idT okTrue := by
  cases n with
  | zero => exact good_wire
  | succ n => exact good_comp_id (good_blockingChain d0 n) (good_regDownstream d0)

/-- a chain in which every stage implements its specification under its side condition -/
inductive GoodChain : {α β : Type} → Chain α β → Trans α β → (Env α → Prop) → Prop
  | nil {α : Type} : GoodChain (.nil : Chain α α) Trans.idT okTrue
  | cons {α β γ : Type} {S : Stage α β} {rest : Chain β γ} {T : Trans α β} {U : Trans β γ}
      {ok : Env α → Prop} {okR : Env β → Prop} :
      Good S T ok → GoodChain rest U okR → GoodChain (.cons S rest) (T.comp U) (okComp S rest.toStage ok okR)

/-- **every finite chain inherits the property** (induction over the chain, `good_comp` at every link) -/
theorem GoodChain.good {α β : Type} {ch : Chain α β} {T : Trans α β} {ok : Env α → Prop}
    (h : GoodChain ch T ok) : Good ch.toStage T ok := by
  induction h with
  | nil => exact good_wire
  | cons g _ ih => exact good_comp _ _ g ih

end Gatery.C16
