import GateryModel.C16.Live2
/-!
# C16 — liveness of the stream FIFO model: stored beats become visible after the latency pipe and are delivered;
the FIFO is ready for its producer again and again
-/
namespace Gatery.C16

/-- generic: an output that is valid and keeps the law is eventually taken by a (weakly) fair consumer -/
theorem valid_then_transfer {α β} (S : Stage α β) (env : Env α) (hlaw : S.LawOut env) {b : Bool} (hf : S.FairDown b env)
    (t1 : Nat) (hv : (S.out env t1).valid = true) : ∃ t2, t1 ≤ t2 ∧ S.tout env t2 = true := by
  obtain ⟨t2, h12, hfair⟩ := hf t1
  obtain ⟨d, rfl⟩ := Nat.exists_eq_add_of_le h12
  have key : ∀ d, (∃ t'', t1 ≤ t'' ∧ t'' < t1 + d ∧ S.tout env t'' = true) ∨ (S.out env (t1 + d)).valid = true := by
    intro d
    induction d with
    | zero => exact Or.inr hv
    | succ d ih =>
      rcases ih with ⟨t'', h1, h2, h3⟩ | ih
      · exact Or.inl ⟨t'', h1, by omega, h3⟩
      · cases hr : (env (t1 + d)).rdy
        · exact Or.inr (hlaw (t1 + d) ih hr).1
        · exact Or.inl ⟨t1 + d, by omega, by omega, by simp [Stage.tout, ih, hr]⟩
  rcases key d with ⟨t'', h1, _, h3⟩ | hvd
  · exact ⟨t'', h1, h3⟩
  · refine ⟨t1 + d, h12, ?_⟩
    rcases hfair with hr | ⟨_, hnv⟩
    · simp [Stage.tout, hvd, hr]
    · rw [hvd] at hnv; cases hnv

theorem take_cons_take (n : Nat) (a : Bool) (l : List Bool) : List.take n (a :: List.take n l) = List.take n (a :: l) := by
  cases n with
  | zero => rfl
  | succ n => simp [List.take_succ_cons, List.take_take]

section
variable {α : Type} (d0 : α) (depth lat : Nat) (ft : Bool)

local notation "F" => fifo d0 depth lat ft

/-- the FIFO's state at time `t`, with its record type visible -/
def fifoSt (env : Env α) (t : Nat) : FifoS α := Stage.state F env t

def fifoVout (env : Env α) (t : Nat) : Bool :=
  if ft && (fifoSt d0 depth lat ft env t).emptyR then (env t).inp.valid else !(fifoSt d0 depth lat ft env t).emptyR
def fifoPush (env : Env α) (t : Nat) : Bool :=
  ((env t).inp.valid && !(ft && (fifoSt d0 depth lat ft env t).emptyR && (env t).rdy)) && !(fifoSt d0 depth lat ft env t).fullR
def fifoPop (env : Env α) (t : Nat) : Bool :=
  (fifoVout d0 depth lat ft env t && (env t).rdy) && !(fifoSt d0 depth lat ft env t).emptyR

theorem fifoSt_succ (env : Env α) (t : Nat) :
    fifoSt d0 depth lat ft env (t+1) =
      (let q1 := if fifoPush d0 depth lat ft env t then (fifoSt d0 depth lat ft env t).q ++ [(env t).inp.data] else (fifoSt d0 depth lat ft env t).q
       let q2 := if fifoPop d0 depth lat ft env t then q1.drop 1 else q1
       let pushP := (fifoPush d0 depth lat ft env t :: (fifoSt d0 depth lat ft env t).pushP).take (lat - 1)
       let popP := (fifoPop d0 depth lat ft env t :: (fifoSt d0 depth lat ft env t).popP).take (lat - 1)
       ⟨q2, pushP, popP, q2.length + countT popP == depth, q2.length == countT pushP⟩) := rfl

theorem fifo_out_valid (env : Env α) (t : Nat) : (Stage.out F env t).valid = fifoVout d0 depth lat ft env t := by
  show ((fifo d0 depth lat ft).fwd (fifoSt d0 depth lat ft env t) (env t).ctl (env t).inp).valid = _
  simp only [fifo, fifoVout]
  split <;> rfl

theorem fifo_rin (env : Env α) (t : Nat) : Stage.rin F env t = !(fifoSt d0 depth lat ft env t).fullR := rfl

theorem fifo_inv_at (hok : FifoOk depth lat ft) (env : Env α) (t : Nat) : FifoInv depth lat (fifoSt d0 depth lat ft env t) :=
  (qFifo (d0 := d0) hok).inv_state env t

theorem fifoPop_valid (env : Env α) (t : Nat) (h : fifoPop d0 depth lat ft env t = true) : fifoVout d0 depth lat ft env t = true := by
  simp only [fifoPop, Bool.and_eq_true] at h; exact h.1.1

theorem fifoPop_q (hok : FifoOk depth lat ft) (env : Env α) (t : Nat) (h : fifoPop d0 depth lat ft env t = true) :
    0 < (fifoSt d0 depth lat ft env t).q.length := by
  simp only [fifoPop, Bool.and_eq_true, Bool.not_eq_true'] at h
  obtain ⟨a, tl, hq⟩ := (fifo_inv_at d0 depth lat ft hok env t).nonempty_of_not_empty h.2
  rw [hq]; simp

/-- without a pop, after `j` cycles the push pipe holds the `j` new push bits in front of the old ones, and the queue has
    grown by exactly the new pushes -/
theorem fifo_push_pipe (hok : FifoOk depth lat ft) (env : Env α) (t0 j : Nat) :
    (∃ t'', t0 ≤ t'' ∧ t'' < t0 + j ∧ fifoPop d0 depth lat ft env t'' = true) ∨
    ∃ news : List Bool, news.length = j ∧
      (fifoSt d0 depth lat ft env (t0 + j)).pushP = (news ++ (fifoSt d0 depth lat ft env t0).pushP).take (lat - 1) ∧
      (fifoSt d0 depth lat ft env (t0 + j)).q.length = (fifoSt d0 depth lat ft env t0).q.length + countT news := by
  induction j with
  | zero =>
    refine Or.inr ⟨[], rfl, ?_, by simp [countT]⟩
    have := (fifo_inv_at d0 depth lat ft hok env t0).lp
    simp only [List.nil_append, Nat.add_zero]
    exact (List.take_of_length_le this).symm
  | succ j ih =>
    rcases ih with ⟨t'', h1, h2, h3⟩ | ⟨news, hlen, hp, hq⟩
    · exact Or.inl ⟨t'', h1, by omega, h3⟩
    · cases hpop : fifoPop d0 depth lat ft env (t0 + j)
      · refine Or.inr ⟨fifoPush d0 depth lat ft env (t0 + j) :: news, by simp [hlen], ?_, ?_⟩
        · have := fifoSt_succ d0 depth lat ft env (t0 + j)
          show (fifoSt d0 depth lat ft env (t0 + j + 1)).pushP = _
          rw [this]; simp only [hp, List.cons_append]
          exact take_cons_take _ _ _
        · have := fifoSt_succ d0 depth lat ft env (t0 + j)
          show (fifoSt d0 depth lat ft env (t0 + j + 1)).q.length = _
          rw [this]; simp only [hpop, Bool.false_eq_true, ↓reduceIte, countT_cons]
          cases fifoPush d0 depth lat ft env (t0 + j) <;> simp [hq] <;> omega
      · exact Or.inl ⟨t0 + j, by omega, by omega, hpop⟩

/-- a stored beat becomes visible at the output at the latest `lat - 1` cycles later -/
theorem fifo_visible (hok : FifoOk depth lat ft) (env : Env α) (t0 : Nat) (hq : 0 < (fifoSt d0 depth lat ft env t0).q.length) :
    ∃ t1, t0 ≤ t1 ∧ (Stage.out F env t1).valid = true := by
  rcases fifo_push_pipe d0 depth lat ft hok env t0 (lat - 1) with ⟨t'', h1, _, h3⟩ | ⟨news, hlen, hp, hql⟩
  · exact ⟨t'', h1, by rw [fifo_out_valid]; exact fifoPop_valid d0 depth lat ft env t'' h3⟩
  · refine ⟨t0 + (lat - 1), by omega, ?_⟩
    rw [List.take_left' hlen] at hp
    have hinv := fifo_inv_at d0 depth lat ft hok env (t0 + (lat - 1))
    have he : (fifoSt d0 depth lat ft env (t0 + (lat - 1))).emptyR = false := by
      rw [hinv.e, hp]; simp only [beq_eq_false_iff_ne, ne_eq]; omega
    rw [fifo_out_valid]; simp [fifoVout, he]

theorem fifo_progress (hok : FifoOk depth lat ft) (env : Env α) (hl : Stage.LawIn F env) {b : Bool} (hf : Stage.FairDown F b env)
    (t0 : Nat) (h : (Stage.outs F env t0).length < ((Trans.idT : Trans α α).run (Stage.ins F env t0)).length) :
    ∃ t1, t0 ≤ t1 ∧ (Stage.outs F env t0).length < (Stage.outs F env t1).length := by
  rw [Trans.run_idT] at h
  have hc := congrArg List.length ((qFifo (d0 := d0) hok).conserve env t0)
  simp only [List.length_append] at hc
  have hq : 0 < (fifoSt d0 depth lat ft env t0).q.length := by
    show 0 < ((fifo d0 depth lat ft).state env t0).q.length
    have : (qFifo (d0 := d0) hok).pend ((fifo d0 depth lat ft).state env t0) = ((fifo d0 depth lat ft).state env t0).q := rfl
    rw [this] at hc; omega
  obtain ⟨t1, h01, hv⟩ := fifo_visible d0 depth lat ft hok env t0 hq
  have hlaw := (good_fifo d0 depth lat ft hok).law env hl trivial
  obtain ⟨t2, h12, ht⟩ := valid_then_transfer F env hlaw hf t1 hv
  have h1 := outs_succ_of_tout F env t2 ht
  have h2 := (Stage.outs_mono F env (Nat.le_trans h01 h12)).length_le
  exact ⟨t2 + 1, by omega, by omega⟩

theorem fifo_deliver (hok : FifoOk depth lat ft) (env : Env α) (hl : Stage.LawIn F env) {b : Bool} (hf : Stage.FairDown F b env) :
    ∀ t, ∃ t', t ≤ t' ∧ (Trans.idT : Trans α α).run (Stage.ins F env t) <+: Stage.outs F env t' :=
  deliver_of_progress (good_fifo d0 depth lat ft hok) env hl trivial (fun t0 h => fifo_progress d0 depth lat ft hok env hl hf t0 h)

theorem fifoPush_notFull (env : Env α) (t : Nat) (h : (fifoSt d0 depth lat ft env t).fullR = true) :
    fifoPush d0 depth lat ft env t = false := by
  simp [fifoPush, h]

/-- while the FIFO reports full nothing is pushed: after `j` cycles the pop pipe holds the `j` new pop bits in front of the
    old ones and the queue has shrunk by exactly the new pops -/
theorem fifo_pop_pipe (hok : FifoOk depth lat ft) (env : Env α) (t j : Nat) :
    (∃ t'', t ≤ t'' ∧ t'' ≤ t + j ∧ (fifoSt d0 depth lat ft env t'').fullR = false) ∨
    ∃ news : List Bool, news.length = j ∧
      (fifoSt d0 depth lat ft env (t + j)).popP = (news ++ (fifoSt d0 depth lat ft env t).popP).take (lat - 1) ∧
      (fifoSt d0 depth lat ft env (t + j)).q.length + countT news = (fifoSt d0 depth lat ft env t).q.length := by
  induction j with
  | zero =>
    refine Or.inr ⟨[], rfl, ?_, by simp [countT]⟩
    have := (fifo_inv_at d0 depth lat ft hok env t).lq
    simp only [List.nil_append, Nat.add_zero]
    exact (List.take_of_length_le this).symm
  | succ j ih =>
    rcases ih with ⟨t'', h1, h2, h3⟩ | ⟨news, hlen, hp, hq⟩
    · exact Or.inl ⟨t'', h1, by omega, h3⟩
    · cases hfull : (fifoSt d0 depth lat ft env (t + j)).fullR
      · exact Or.inl ⟨t + j, by omega, by omega, hfull⟩
      · have hpush := fifoPush_notFull d0 depth lat ft env (t + j) hfull
        have hs := fifoSt_succ d0 depth lat ft env (t + j)
        refine Or.inr ⟨fifoPop d0 depth lat ft env (t + j) :: news, by simp [hlen], ?_, ?_⟩
        · show (fifoSt d0 depth lat ft env (t + j + 1)).popP = _
          rw [hs]; simp only [hp, List.cons_append]
          exact take_cons_take _ _ _
        · show (fifoSt d0 depth lat ft env (t + j + 1)).q.length + _ = _
          rw [hs]; simp only [hpush, Bool.false_eq_true, ↓reduceIte, countT_cons]
          cases hpop : fifoPop d0 depth lat ft env (t + j)
          · simp; omega
          · have := fifoPop_q d0 depth lat ft hok env (t + j) hpop
            simp only [↓reduceIte, List.length_drop]; omega

/-- a full FIFO that has popped within the last `lat - 1` cycles stops being full once the pop has travelled through the pipe -/
theorem fifo_unfull_of_credit (hok : FifoOk depth lat ft) (env : Env α) (t : Nat)
    (hu : 0 < countT (fifoSt d0 depth lat ft env t).popP) : ∃ t', t ≤ t' ∧ (fifoSt d0 depth lat ft env t').fullR = false := by
  rcases fifo_pop_pipe d0 depth lat ft hok env t (lat - 1) with ⟨t'', h1, _, h3⟩ | ⟨news, hlen, hp, hq⟩
  · exact ⟨t'', h1, h3⟩
  · refine ⟨t + (lat - 1), by omega, ?_⟩
    rw [List.take_left' hlen] at hp
    have hinv := fifo_inv_at d0 depth lat ft hok env (t + (lat - 1))
    have hcap := (fifo_inv_at d0 depth lat ft hok env t).cap
    rw [hinv.f, hp]; simp only [beq_eq_false_iff_ne, ne_eq]; omega

/-- the FIFO is ready for its producer again and again, whatever the producer does, if its consumer is (weakly) fair -/
theorem fifo_fairUp (hok : FifoOk depth lat ft) (env : Env α) (hl : Stage.LawIn F env) {b : Bool} (hf : Stage.FairDown F b env) :
    Stage.FairUp F true env := by
  have main : ∀ t, ∃ t', t ≤ t' ∧ (fifoSt d0 depth lat ft env t').fullR = false := by
    intro t
    cases hfull : (fifoSt d0 depth lat ft env t).fullR
    · exact ⟨t, Nat.le_refl _, hfull⟩
    · have hinv := fifo_inv_at d0 depth lat ft hok env t
      by_cases hq0 : (fifoSt d0 depth lat ft env t).q.length = 0
      · -- nothing stored but full: all slots are pops still in the pipe
        have hf' := hinv.f; rw [hfull, hq0] at hf'
        have : countT (fifoSt d0 depth lat ft env t).popP = depth := by simpa using hf'.symm
        exact fifo_unfull_of_credit d0 depth lat ft hok env t (by have := hok.1; omega)
      · obtain ⟨t1, h01, hv⟩ := fifo_visible d0 depth lat ft hok env t (by omega)
        have hlaw := (good_fifo d0 depth lat ft hok).law env hl trivial
        obtain ⟨t2, h12, ht⟩ := valid_then_transfer F env hlaw hf t1 hv
        cases hfull2 : (fifoSt d0 depth lat ft env t2).fullR
        · exact ⟨t2, by omega, hfull2⟩
        · have hinv2 := fifo_inv_at d0 depth lat ft hok env t2
          simp only [Stage.tout, fifo_out_valid, Bool.and_eq_true] at ht
          -- the transfer at t2 is a pop
          have hne : (fifoSt d0 depth lat ft env t2).emptyR = false := by
            cases he : (fifoSt d0 depth lat ft env t2).emptyR
            · rfl
            · by_cases hft : ft = true
              · have := (hinv2.ft_empty hok hft he).2.1
                rw [hfull2] at this; cases this
              · have hff : ft = false := by simpa using hft
                subst hff
                have := ht.1; simp [fifoVout, he] at this
          have hpop : fifoPop d0 depth lat ft env t2 = true := by simp [fifoPop, ht.1, ht.2, hne]
          have hpush := fifoPush_notFull d0 depth lat ft env t2 hfull2
          have hs := fifoSt_succ d0 depth lat ft env t2
          have hqpos := fifoPop_q d0 depth lat ft hok env t2 hpop
          cases hfull3 : (fifoSt d0 depth lat ft env (t2 + 1)).fullR
          · exact ⟨t2 + 1, by omega, hfull3⟩
          · by_cases hl1 : lat - 1 = 0
            · -- no pipe: the pop is credited at once
              exfalso
              rw [hs] at hfull3
              simp only [hpush, hpop, hl1, Bool.false_eq_true, ↓reduceIte, List.take_zero, List.length_drop, beq_iff_eq] at hfull3
              have hcap := hinv2.cap
              simp only [countT, List.filter_nil, List.length_nil] at hfull3
              omega
            · have hpp : (fifoSt d0 depth lat ft env (t2 + 1)).popP
                  = (true :: (fifoSt d0 depth lat ft env t2).popP).take (lat - 1) := by rw [hs, hpop]
              have hcredit : 0 < countT (fifoSt d0 depth lat ft env (t2 + 1)).popP := by
                obtain ⟨k, hk⟩ := Nat.exists_eq_succ_of_ne_zero hl1
                have h1 : countT (List.take (lat - 1) (true :: (fifoSt d0 depth lat ft env t2).popP))
                    = 1 + countT (List.take k (fifoSt d0 depth lat ft env t2).popP) := by
                  rw [hk, List.take_succ_cons, countT_cons]; rfl
                rw [hpp, h1]; omega
              obtain ⟨t', h', hfl⟩ := fifo_unfull_of_credit d0 depth lat ft hok env (t2 + 1) hcredit
              exact ⟨t', by omega, hfl⟩
  intro t
  obtain ⟨t', ht, h⟩ := main t
  exact ⟨t', ht, Or.inl (by rw [fifo_rin, h]; rfl)⟩

/-- the stream FIFO delivers every accepted beat under weak fairness of its consumer and is a strongly fair consumer itself -/
theorem live_fifo (hok : FifoOk depth lat ft) : Live (fifo d0 depth lat ft) Trans.idT okTrue false true where
  deliver := fun env hl _ hf => fifo_deliver d0 depth lat ft hok env hl hf
  fairUp := fun env hl _ hf => fifo_fairUp d0 depth lat ft hok env hl hf

end

end Gatery.C16
