import GateryModel.C16.Stages
/-!
# C16 — the stream FIFO stage (abstract queue + the handshake timing of `Fifo.h`) implements the identity specification
-/
namespace Gatery.C16

theorem countT_cons (b : Bool) (l : List Bool) : countT (b :: l) = (if b then 1 else 0) + countT l := by
  cases b <;> simp [countT] <;> omega

theorem countT_take_le (n : Nat) (l : List Bool) : countT (l.take n) ≤ countT l :=
  ((List.take_sublist n l).filter id).length_le

theorem countT_nil_of_length_le_zero (l : List Bool) (h : l.length ≤ 0) : countT l = 0 := by
  have : l = [] := List.length_eq_zero_iff.mp (by omega)
  subst this; rfl

theorem countT_replicate_false (n : Nat) : countT (List.replicate n false) = 0 := by
  simp [countT]

/-- static parameters the stream FIFO is built with: at least one slot; the fall-through variant wraps a latency-1 FIFO
    (streamFifo.h:146: `fifoLatency == 0 ? FifoLatency(1) : fifoLatency`) -/
def FifoOk (depth lat : Nat) (ft : Bool) : Prop := 0 < depth ∧ (ft = true → lat ≤ 1)

structure FifoInv {α : Type} (depth lat : Nat) (s : FifoS α) : Prop where
  e : s.emptyR = (s.q.length == countT s.pushP)
  hid : countT s.pushP ≤ s.q.length
  f : s.fullR = (s.q.length + countT s.popP == depth)
  cap : s.q.length + countT s.popP ≤ depth
  lp : s.pushP.length ≤ lat - 1
  lq : s.popP.length ≤ lat - 1

section
variable {α : Type} {d0 : α} {depth lat : Nat} {ft : Bool}

theorem FifoInv.nonempty_of_not_empty {s : FifoS α} (h : FifoInv depth lat s) (he : s.emptyR = false) :
    ∃ a tl, s.q = a :: tl := by
  have := h.e; rw [he] at this
  have hne : s.q.length ≠ countT s.pushP := by
    intro hc; rw [hc] at this; simp at this
  have := h.hid
  cases hq : s.q with
  | nil => rw [hq] at hne this; simp at hne this; omega
  | cons a tl => exact ⟨a, tl, rfl⟩

theorem FifoInv.ft_empty {s : FifoS α} (hok : FifoOk depth lat ft) (h : FifoInv depth lat s) (hft : ft = true)
    (he : s.emptyR = true) : s.q = [] ∧ s.fullR = false ∧ s.pushP = [] ∧ s.popP = [] := by
  have hl := hok.2 hft
  have hp : s.pushP = [] := List.length_eq_zero_iff.mp (by have := h.lp; omega)
  have hq : s.popP = [] := List.length_eq_zero_iff.mp (by have := h.lq; omega)
  have h1 := h.e; rw [he, hp] at h1
  have hq0 : s.q.length = 0 := by simpa [countT] using h1.symm
  have hqn : s.q = [] := List.length_eq_zero_iff.mp hq0
  refine ⟨hqn, ?_, hp, hq⟩
  have h2 := h.f; rw [hq, hq0] at h2
  rw [h2]; simp [countT]; have := hok.1; omega

theorem fifo_step_inv (s : FifoS α) (c : Ctl) (x : Fwd α) (r : Bool) (h : FifoInv depth lat s) :
    FifoInv depth lat ((fifo d0 depth lat ft).next s c x r) := by
  simp only [fifo]
  generalize hvout : (if (ft && s.emptyR) = true then x.valid else !s.emptyR) = vout
  generalize hpush : ((x.valid && !(ft && s.emptyR && r)) && !s.fullR) = push
  generalize hpop : ((vout && r) && !s.emptyR) = pop
  have hpopE : pop = true → s.emptyR = false := by
    intro hp; rw [hp] at hpop; simp at hpop; exact hpop.2
  have hpushF : push = true → s.fullR = false := by
    intro hp; rw [hp] at hpush; simp at hpush; exact hpush.2
  have hqpos : pop = true → 0 < s.q.length ∧ countT s.pushP < s.q.length := by
    intro hp
    obtain ⟨a, tl, hq⟩ := h.nonempty_of_not_empty (hpopE hp)
    have h1 := h.e; rw [hpopE hp] at h1
    have h2 := h.hid
    constructor
    · rw [hq]; simp
    · have : s.q.length ≠ countT s.pushP := by intro hc; rw [hc] at h1; simp at h1
      omega
  have hroom : push = true → s.q.length + countT s.popP < depth := by
    intro hp
    have h1 := h.f; rw [hpushF hp] at h1
    have h2 := h.cap
    have : s.q.length + countT s.popP ≠ depth := by intro hc; rw [hc] at h1; simp at h1
    omega
  have hc1 := countT_take_le (lat - 1) (push :: s.pushP)
  have hc2 := countT_take_le (lat - 1) (pop :: s.popP)
  rw [countT_cons] at hc1 hc2
  have hh := h.hid
  have hcap := h.cap
  constructor
  · rfl
  · -- hidden beats are stored beats
    show countT (List.take (lat - 1) (push :: s.pushP)) ≤ _
    cases hp : push <;> cases hq : pop <;> simp only [hp, hq] at hc1 hc2 ⊢ <;>
      simp only [Bool.false_eq_true, ↓reduceIte, List.length_append, List.length_cons, List.length_nil, List.length_drop] at hc1 hc2 ⊢
    · omega
    · have := hqpos hq; omega
    · omega
    · have := hqpos hq; omega
  · rfl
  · show _ + countT (List.take (lat - 1) (pop :: s.popP)) ≤ depth
    cases hp : push <;> cases hq : pop <;> simp only [hp, hq] at hc1 hc2 ⊢ <;>
      simp only [Bool.false_eq_true, ↓reduceIte, List.length_append, List.length_cons, List.length_nil, List.length_drop] at hc1 hc2 ⊢
    · omega
    · have := hqpos hq; omega
    · have := hroom hp; omega
    · have := hqpos hq; have := hroom hp; omega
  · simp only [List.length_take]; omega
  · simp only [List.length_take]; omega

theorem fifo_init_inv (hd : 0 < depth) : FifoInv depth lat ((fifo d0 depth lat ft).init) (α := α) := by
  constructor <;> simp [fifo, countT_replicate_false] <;> omega

theorem fifo_offer (hok : FifoOk depth lat ft) (s : FifoS α) (c : Ctl) (x : Fwd α) (h : FifoInv depth lat s) :
    ((fifo d0 depth lat ft).fwd s c x).off <+: s.q ++ x.off := by
  simp only [fifo]
  by_cases hb : (ft && s.emptyR) = true
  · simp only [hb, ↓reduceIte]
    simp only [Bool.and_eq_true] at hb
    rw [(h.ft_empty hok hb.1 hb.2).1]; simp
  · simp only [hb]
    cases he : s.emptyR
    · obtain ⟨a, tl, hq⟩ := h.nonempty_of_not_empty he
      simp [hq, Fwd.off, beatIf]
    · simp [Fwd.off, beatIf]

theorem fifo_move (hok : FifoOk depth lat ft) (s : FifoS α) (c : Ctl) (x : Fwd α) (r : Bool) (h : FifoInv depth lat s) :
    beatIf (((fifo d0 depth lat ft).fwd s c x).valid && r) ((fifo d0 depth lat ft).fwd s c x).data
        ++ ((fifo d0 depth lat ft).next s c x r).q
      = s.q ++ beatIf (x.valid && (fifo d0 depth lat ft).bwd s c x r) x.data := by
  simp only [fifo]
  by_cases hb : (ft && s.emptyR) = true
  · have hb' := hb
    simp only [Bool.and_eq_true] at hb'
    obtain ⟨hq, hf, _, _⟩ := h.ft_empty hok hb'.1 hb'.2
    rcases x with ⟨xv, xd⟩
    simp only [hb, hb'.1, hb'.2, hq, hf, ↓reduceIte]
    cases xv <;> cases r <;> simp [beatIf]
  · have hb2 : (ft && s.emptyR) = false := by simpa using hb
    rcases x with ⟨xv, xd⟩
    simp only [hb2, Bool.false_and, Bool.not_false, Bool.and_true, Bool.false_eq_true, ↓reduceIte]
    cases he : s.emptyR
    · obtain ⟨a, tl, hq⟩ := h.nonempty_of_not_empty he
      cases xv <;> cases r <;> cases s.fullR <;> simp [beatIf, hq]
    · cases xv <;> cases r <;> cases s.fullR <;> simp [beatIf]

theorem fifo_hold (hok : FifoOk depth lat ft) (s : FifoS α) (c : Ctl) (x : Fwd α) (c' : Ctl) (x' : Fwd α)
    (h : FifoInv depth lat s) (hv : ((fifo d0 depth lat ft).fwd s c x).valid = true) :
    ((fifo d0 depth lat ft).fwd ((fifo d0 depth lat ft).next s c x false) c' x').valid = true ∧
    ((fifo d0 depth lat ft).fwd ((fifo d0 depth lat ft).next s c x false) c' x').data = ((fifo d0 depth lat ft).fwd s c x).data := by
  have hn := fifo_step_inv (d0 := d0) (ft := ft) s c x false h
  by_cases hb : (ft && s.emptyR) = true
  · -- fall-through, nothing stored: the offered beat is pushed and becomes the head
    have hb' := hb
    simp only [Bool.and_eq_true] at hb'
    obtain ⟨hq, hf, hp, hpp⟩ := h.ft_empty hok hb'.1 hb'.2
    have hl := hok.2 hb'.1
    have hl0 : lat - 1 = 0 := by omega
    rcases x with ⟨xv, xd⟩
    simp only [fifo, hb, ↓reduceIte] at hv
    subst hv
    simp [fifo, hb'.1, hb'.2, hq, hf, hl0, countT]
  · have hb2 : (ft && s.emptyR) = false := by simpa using hb
    simp only [fifo, hb2, Bool.false_eq_true, ↓reduceIte, Bool.not_eq_true'] at hv
    obtain ⟨a, tl, hq⟩ := h.nonempty_of_not_empty hv
    -- nothing is popped, so the head stays and the visible count stays positive
    have he' : ((fifo d0 depth lat ft).next s c x false).emptyR = false := by
      have h1 := hn.e
      have h2 := h.e; rw [hv] at h2
      have h3 := h.hid
      have hne : s.q.length ≠ countT s.pushP := by intro hc; rw [hc] at h2; simp at h2
      have hc1 := countT_take_le (lat - 1) (((x.valid && !(ft && s.emptyR && false)) && !s.fullR) :: s.pushP)
      rw [countT_cons] at hc1
      rw [h1]
      simp only [fifo, hb2, hv, Bool.false_eq_true, ↓reduceIte, Bool.and_false, Bool.false_and, Bool.not_false, Bool.and_true, beq_eq_false_iff_ne, ne_eq] at hc1 ⊢
      cases hpush : (x.valid && !s.fullR) <;> simp only [hpush, Bool.false_eq_true, ↓reduceIte, List.length_append, List.length_cons, List.length_nil] at hc1 ⊢ <;> omega
    have hq' : ∃ tl', ((fifo d0 depth lat ft).next s c x false).q = a :: tl' := by
      simp only [fifo, hb2, hv, Bool.and_false, Bool.false_and, Bool.false_eq_true, ↓reduceIte]
      cases (x.valid && !false && !s.fullR) <;> simp [hq]
    obtain ⟨tl', hq'⟩ := hq'
    have hfe : (ft && ((fifo d0 depth lat ft).next s c x false).emptyR) = false := by rw [he']; simp
    have hrhs : ((fifo d0 depth lat ft).fwd s c x).data = a := by simp [fifo, hb2, hq]
    rw [hrhs]
    generalize (fifo d0 depth lat ft).next s c x false = s' at he' hq' hfe
    constructor
    · show (if (ft && s'.emptyR) = true then x' else ⟨!s'.emptyR, s'.q.headD d0⟩).valid = true
      rw [hfe]; simp [he']
    · show (if (ft && s'.emptyR) = true then x' else ⟨!s'.emptyR, s'.q.headD d0⟩).data = a
      rw [hfe]; simp [hq']

def qFifo (hok : FifoOk depth lat ft) : QStep (fifo d0 depth lat ft) noStep where
  inv := FifoInv depth lat
  pend := fun s => s.q
  init_inv := fifo_init_inv hok.1
  init_pend := rfl
  step_inv := fun s c x r h => fifo_step_inv s c x r h
  offer := fun s c x h => fifo_offer hok s c x h
  move := fun s c x r h => fifo_move hok s c x r h
  hold := fun s c x r c' x' h _ hv hr _ => by subst hr; exact fifo_hold hok s c x c' x' h hv

end

/-- the stream FIFO (any depth ≥ 1, any latency ≥ 1, with or without the latency-0 bypass) passes on exactly what it accepted -/
theorem good_fifo {α} (d0 : α) (depth lat : Nat) (ft : Bool) (hok : FifoOk depth lat ft) :
    Good (fifo d0 depth lat ft) Trans.idT okTrue :=
  (qFifo hok).good.weaken fun env _ => okOfStep_noStep env

end Gatery.C16
