import GateryModel.C16.Spec
/-!
# C16 — generic lemmas: transducers, traces, queue-like stages, composition
-/
namespace Gatery.C16

/-! ### transducers -/
namespace Trans
variable {α β γ : Type}

theorem runFrom_append (T : Trans α β) (s : T.τ) (l k : List α) :
    T.runFrom s (l ++ k) = T.runFrom s l ++ T.runFrom (T.after s l) k := by
  induction l generalizing s with
  | nil => simp [runFrom, after]
  | cons x xs ih => simp [runFrom, after, ih, List.append_assoc]

theorem after_append (T : Trans α β) (s : T.τ) (l k : List α) :
    T.after s (l ++ k) = T.after (T.after s l) k := by
  induction l generalizing s with
  | nil => simp [after]
  | cons x xs ih => simp [after, ih]

theorem run_append (T : Trans α β) (l k : List α) :
    T.run (l ++ k) = T.run l ++ T.runFrom (T.after T.init l) k := runFrom_append T T.init l k

/-- list specifications are prefix-monotone: more accepted input only ever appends to the prescribed output -/
theorem run_mono (T : Trans α β) {l₁ l₂ : List α} (h : l₁ <+: l₂) : T.run l₁ <+: T.run l₂ := by
  obtain ⟨k, rfl⟩ := h
  rw [run_append]; exact List.prefix_append _ _

theorem run_idT (l : List α) : (idT : Trans α α).run l = l := by
  unfold run
  generalize (idT : Trans α α).init = s
  induction l generalizing s with
  | nil => rfl
  | cons x xs ih => simp [runFrom, idT] at *; exact ih _

theorem run_expandT (g : α → List β) (l : List α) : (expandT g).run l = l.flatMap g := by
  unfold run
  generalize (expandT g).init = s
  induction l generalizing s with
  | nil => rfl
  | cons x xs ih => simp [runFrom, expandT, List.flatMap_cons] at *; exact ih _

theorem runFrom_comp (T : Trans α β) (U : Trans β γ) (s : T.τ) (u : U.τ) (l : List α) :
    (T.comp U).runFrom (s, u) l = U.runFrom u (T.runFrom s l) ∧
    (T.comp U).after (s, u) l = (T.after s l, U.after u (T.runFrom s l)) := by
  induction l generalizing s u with
  | nil => exact ⟨rfl, rfl⟩
  | cons x xs ih =>
    have h := ih (T.step s x).1 (U.after u (T.step s x).2)
    constructor
    · simp only [runFrom, comp] at *
      rw [h.1, runFrom_append]
    · simp only [runFrom, after, comp] at *
      rw [h.2, after_append]

/-- the specification of a composition is the composition of the specifications -/
theorem run_comp (T : Trans α β) (U : Trans β γ) (l : List α) : (T.comp U).run l = U.run (T.run l) :=
  (runFrom_comp T U T.init U.init l).1

/-- `chunkT`: accumulator invariant -/
theorem runFrom_chunkT_partial (r : Nat) (g : List α → α → β) (acc l : List α) (h : acc.length + l.length < r) :
    (chunkT r g).runFrom acc l = [] ∧ (chunkT r g).after acc l = acc ++ l := by
  induction l generalizing acc with
  | nil => exact ⟨rfl, by simp [after]⟩
  | cons x xs ih =>
    have hne : (acc.length + 1 == r) = false := by
      simp only [List.length_cons] at h
      exact beq_false_of_ne (by omega)
    have := ih (acc ++ [x]) (by simp only [List.length_append, List.length_cons, List.length_nil] at *; omega)
    simp only [runFrom, after, chunkT, hne] at *
    simp [this.1, this.2]

/-- a full group of `r` beats produces exactly one output beat and clears the accumulator -/
theorem runFrom_chunkT_group (r : Nat) (g : List α → α → β) (c : List α) (x : α) (h : c.length + 1 = r) :
    (chunkT r g).runFrom [] (c ++ [x]) = [g (c ++ [x]) x] ∧ (chunkT r g).after [] (c ++ [x]) = [] := by
  have hp := runFrom_chunkT_partial r g [] c (by simp; omega)
  rw [runFrom_append, after_append, hp.1, hp.2]
  have hl : (c.length + 1 == r) = true := by simp [h]
  simp [runFrom, after, chunkT, hl]

/-- **Characterisation of the width-extension specification**: the accepted sequence split into groups of `r` beats
    (`gs`, each with its last beat singled out) followed by an incomplete group `tl` yields one output beat per group. -/
theorem run_chunkT_full (r : Nat) (g : List α → α → β) (gs : List (List α × α)) (tl : List α)
    (hg : ∀ p ∈ gs, p.1.length + 1 = r) (ht : tl.length < r) :
    (chunkT r g).run ((gs.map fun p => p.1 ++ [p.2]).flatten ++ tl) = gs.map fun p => g (p.1 ++ [p.2]) p.2 := by
  unfold run
  show (chunkT r g).runFrom [] _ = _
  induction gs with
  | nil =>
    simp only [List.map_nil, List.flatten_nil, List.nil_append]
    exact (runFrom_chunkT_partial r g [] tl (by simpa using ht)).1
  | cons p ps ih =>
    have hp := runFrom_chunkT_group r g p.1 p.2 (hg p (List.mem_cons_self))
    simp only [List.map_cons, List.flatten_cons]
    rw [List.append_assoc, runFrom_append, hp.1, hp.2]
    rw [ih (fun q hq => hg q (List.mem_cons_of_mem _ hq))]
    rfl

end Trans

/-! ### traces -/
namespace Stage
variable {α β : Type} (S : Stage α β) (env : Env α)

theorem ins_prefix_succ (t : Nat) : S.ins env t <+: S.ins env (t+1) := by
  simp only [ins]; exact List.prefix_append _ _

theorem outs_prefix_succ (t : Nat) : S.outs env t <+: S.outs env (t+1) := by
  simp only [outs]; exact List.prefix_append _ _

theorem ins_mono {t t' : Nat} (h : t ≤ t') : S.ins env t <+: S.ins env t' := by
  induction h with
  | refl => exact List.prefix_rfl
  | step _ ih => exact ih.trans (ins_prefix_succ S env _)

theorem outs_mono {t t' : Nat} (h : t ≤ t') : S.outs env t <+: S.outs env t' := by
  induction h with
  | refl => exact List.prefix_rfl
  | step _ ih => exact ih.trans (outs_prefix_succ S env _)

/-- accepted so far plus the offered beat covers what is accepted one cycle later -/
theorem ins_succ_prefix_off (t : Nat) : S.ins env (t+1) <+: S.ins env t ++ (env t).inp.off := by
  simp only [ins, tin, Fwd.off]
  refine (List.prefix_append_right_inj _).2 ?_
  by_cases hv : (env t).inp.valid = true <;> by_cases hr : S.rin env t = true <;> simp [hv, hr, beatIf]

theorem outs_succ_prefix_off (t : Nat) : S.outs env (t+1) <+: S.outs env t ++ (S.out env t).off := by
  simp only [outs, tout, Fwd.off]
  refine (List.prefix_append_right_inj _).2 ?_
  by_cases hv : (S.out env t).valid = true <;> by_cases hr : (env t).rdy = true <;> simp [hv, hr, beatIf]

end Stage

theorem off_length_le {α} (x : Fwd α) : x.off.length ≤ 1 := by
  unfold Fwd.off beatIf; split <;> simp

/-! ### queue-like stages: a generic refinement argument -/

/-- One-step obligations of a 1:1 stage with internal storage `pend` (oldest first):
    what is offered at the output is the head of `pend ++ offered input`, and a clock edge moves beats through
    `pend` exactly as the two handshakes say. `okStep` is the stage's side condition on consecutive control inputs. -/
structure QStep {α : Type} (S : Stage α α) (okStep : Ctl → Fwd α → Bool → Ctl → Prop) where
  inv : S.σ → Prop
  pend : S.σ → List α
  init_inv : inv S.init
  init_pend : pend S.init = []
  step_inv : ∀ s c x r, inv s → inv (S.next s c x r)
  offer : ∀ s c x, inv s → (S.fwd s c x).off <+: pend s ++ x.off
  move : ∀ s c x r, inv s →
    beatIf ((S.fwd s c x).valid && r) (S.fwd s c x).data ++ pend (S.next s c x r)
      = pend s ++ beatIf (x.valid && S.bwd s c x r) x.data
  hold : ∀ s c x r c' x', inv s → okStep c x r c' → (S.fwd s c x).valid = true → r = false →
    (x.valid = true → S.bwd s c x r = false → x'.valid = true ∧ x'.data = x.data) →
    (S.fwd (S.next s c x r) c' x').valid = true ∧ (S.fwd (S.next s c x r) c' x').data = (S.fwd s c x).data

/-- side condition on the environment induced by `okStep` -/
def okOfStep {α : Type} (okStep : Ctl → Fwd α → Bool → Ctl → Prop) : Env α → Prop :=
  fun env => ∀ t, okStep (env t).ctl (env t).inp (env t).rdy (env (t+1)).ctl

namespace QStep
variable {α : Type} {S : Stage α α} {okStep : Ctl → Fwd α → Bool → Ctl → Prop} (Q : QStep S okStep) (env : Env α)
include Q

theorem inv_state (t : Nat) : Q.inv (S.state env t) := by
  induction t with
  | zero => exact Q.init_inv
  | succ t ih => exact Q.step_inv _ _ _ _ ih

/-- conservation: accepted = emitted ++ stored, at every time, for every environment -/
theorem conserve (t : Nat) : S.outs env t ++ Q.pend (S.state env t) = S.ins env t := by
  induction t with
  | zero => simp [Stage.outs, Stage.ins, Stage.state, Q.init_pend]
  | succ t ih =>
    have hm := Q.move (S.state env t) (env t).ctl (env t).inp (env t).rdy (Q.inv_state env t)
    simp only [Stage.outs, Stage.ins, Stage.state, Stage.tout, Stage.tin, Stage.out, Stage.rin] at *
    rw [List.append_assoc, hm, ← List.append_assoc, ih]

theorem safe (t : Nat) : S.outs env t ++ (S.out env t).off <+: S.ins env t ++ (env t).inp.off := by
  rw [← Q.conserve env t, List.append_assoc]
  exact (List.prefix_append_right_inj _).2 (Q.offer _ _ _ (Q.inv_state env t))

theorem law (hl : S.LawIn env) (hok : okOfStep okStep env) : S.LawOut env := by
  intro t hv hr
  have := Q.hold (S.state env t) (env t).ctl (env t).inp (env t).rdy (env (t+1)).ctl (env (t+1)).inp
    (Q.inv_state env t) (hok t) hv hr (fun h1 h2 => hl t h1 h2)
  simpa [Stage.out, Stage.state] using this

theorem good : Good S Trans.idT (okOfStep okStep) where
  safe := fun env _ _ t => by rw [Trans.run_idT]; exact Q.safe env t
  law := fun env hl hok => Q.law env hl hok

end QStep

/-! ### stages without storage of complete output beats (width changers): a second generic refinement argument -/

/-- One-step obligations of a stage against a transducer specification `T`.
    `J s τ x` relates the register state `s`, the specification state `τ` after all accepted beats and the input signals `x`
    of the current cycle; `ahead s x` are the output beats already emitted on account of the beat that is offered but not yet
    accepted (`reduceWidth` takes the parts of a wide beat before it acknowledges it; the input law makes that sound). -/
structure TStep {α β : Type} (S : Stage α β) (T : Trans α β) where
  J : S.σ → T.τ → Fwd α → Prop
  ahead : S.σ → Fwd α → List β
  init_J : ∀ x, J S.init T.init x
  init_ahead : ∀ x, ahead S.init x = []
  step_J : ∀ s τ c x r x', J s τ x →
    (x.valid = true → S.bwd s c x r = false → x'.valid = true ∧ x'.data = x.data) →
    J (S.next s c x r) (if x.valid && S.bwd s c x r then (T.step τ x.data).1 else τ) x'
  move : ∀ s τ c x r x', J s τ x →
    (x.valid = true → S.bwd s c x r = false → x'.valid = true ∧ x'.data = x.data) →
    ahead s x ++ beatIf ((S.fwd s c x).valid && r) (S.fwd s c x).data
      = (if x.valid && S.bwd s c x r then (T.step τ x.data).2 else []) ++ ahead (S.next s c x r) x'
  offer : ∀ s τ c x, J s τ x → ahead s x ++ (S.fwd s c x).off <+: (if x.valid then (T.step τ x.data).2 else [])
  hold : ∀ s τ c x r c' x', J s τ x → (S.fwd s c x).valid = true → r = false →
    (x.valid = true → S.bwd s c x r = false → x'.valid = true ∧ x'.data = x.data) →
    (S.fwd (S.next s c x r) c' x').valid = true ∧ (S.fwd (S.next s c x r) c' x').data = (S.fwd s c x).data

namespace TStep
variable {α β : Type} {S : Stage α β} {T : Trans α β} (P : TStep S T) (env : Env α)
include P

omit P in
theorem run_ins_succ (t : Nat) :
    T.after T.init (S.ins env (t+1)) =
      (if (env t).inp.valid && S.rin env t then (T.step (T.after T.init (S.ins env t)) (env t).inp.data).1
       else T.after T.init (S.ins env t)) ∧
    T.run (S.ins env (t+1)) = T.run (S.ins env t) ++
      (if (env t).inp.valid && S.rin env t then (T.step (T.after T.init (S.ins env t)) (env t).inp.data).2 else []) := by
  simp only [Stage.ins, Stage.tin, Trans.run]
  cases (env t).inp.valid && S.rin env t
  · simp [beatIf]
  · simp [beatIf, Trans.after_append, Trans.runFrom_append, Trans.after, Trans.runFrom]

theorem invariant (hl : S.LawIn env) (t : Nat) :
    P.J (S.state env t) (T.after T.init (S.ins env t)) (env t).inp ∧
    S.outs env t = T.run (S.ins env t) ++ P.ahead (S.state env t) (env t).inp := by
  induction t with
  | zero => exact ⟨P.init_J _, by simp [Stage.outs, Stage.ins, Trans.run, Trans.runFrom, Stage.state, P.init_ahead]⟩
  | succ t ih =>
    have hs := run_ins_succ (S := S) (T := T) env t
    have hlaw : (env t).inp.valid = true → S.bwd (S.state env t) (env t).ctl (env t).inp (env t).rdy = false →
        (env (t+1)).inp.valid = true ∧ (env (t+1)).inp.data = (env t).inp.data := fun h1 h2 => hl t h1 h2
    constructor
    · rw [hs.1]
      exact P.step_J _ _ (env t).ctl _ (env t).rdy _ ih.1 hlaw
    · have hm := P.move _ _ (env t).ctl _ (env t).rdy (env (t+1)).inp ih.1 hlaw
      rw [hs.2]
      simp only [Stage.outs, Stage.tout, Stage.out, Stage.rin, Stage.state] at *
      rw [ih.2, List.append_assoc, hm, List.append_assoc] <;> rfl

theorem good : Good S T okTrue where
  safe := fun env hl _ t => by
    obtain ⟨hJ, ho⟩ := P.invariant env hl t
    have := P.offer _ _ (env t).ctl _ hJ
    rw [ho, Trans.run_append, List.append_assoc]
    refine (List.prefix_append_right_inj _).2 ?_
    refine this.trans ?_
    unfold Fwd.off beatIf
    cases (env t).inp.valid <;> simp [Trans.runFrom]
  law := fun env hl _ => by
    intro t hv hr
    obtain ⟨hJ, _⟩ := P.invariant env hl t
    exact P.hold _ _ (env t).ctl _ (env t).rdy (env (t+1)).ctl (env (t+1)).inp hJ hv hr (fun h1 h2 => hl t h1 h2)

end TStep

/-! ### composition -/
section Comp
variable {α β γ : Type} (A : Stage α β) (B : Stage β γ) (env : Env α)

theorem comp_state (t : Nat) :
    (comp A B).state env t = (A.state (envA A B env) t, B.state (envB A B env) t) := by
  induction t with
  | zero => rfl
  | succ t ih =>
    simp only [Stage.state]
    have h1 : A.state (envA A B env) t = ((comp A B).state env t).1 := by rw [ih]
    have h2 : B.state (envB A B env) t = ((comp A B).state env t).2 := by rw [ih]
    simp only [envA, envB, comp, h1, h2]

theorem comp_stateA (t : Nat) : ((comp A B).state env t).1 = A.state (envA A B env) t := by rw [comp_state]
theorem comp_stateB (t : Nat) : ((comp A B).state env t).2 = B.state (envB A B env) t := by rw [comp_state]

/-- the boundary signals: what `A` emits is what `B` receives, `B`'s input ready is `A`'s output ready -/
theorem envB_inp (t : Nat) : (envB A B env t).inp = A.out (envA A B env) t := by
  show A.fwd ((comp A B).state env t).1 _ _ = A.fwd (A.state (envA A B env) t) _ _
  rw [comp_stateA]; rfl
theorem envA_rdy (t : Nat) : (envA A B env t).rdy = B.rin (envB A B env) t := by
  show B.bwd ((comp A B).state env t).2 _ _ _ = B.bwd (B.state (envB A B env) t) _ _ _
  rw [comp_stateB]; rfl

theorem comp_out (t : Nat) : (comp A B).out env t = B.out (envB A B env) t := by
  show B.fwd ((comp A B).state env t).2 _ _ = B.fwd (B.state (envB A B env) t) _ _
  rw [comp_stateB]; rfl
theorem comp_rin (t : Nat) : (comp A B).rin env t = A.rin (envA A B env) t := by
  exact congrArg (fun s => A.bwd s (env t).ctl (env t).inp (envA A B env t).rdy) (comp_stateA A B env t)

theorem comp_ins (t : Nat) : (comp A B).ins env t = A.ins (envA A B env) t := by
  induction t with
  | zero => rfl
  | succ t ih => simp only [Stage.ins, Stage.tin, comp_rin, ih]; rfl

theorem comp_outs (t : Nat) : (comp A B).outs env t = B.outs (envB A B env) t := by
  induction t with
  | zero => rfl
  | succ t ih => simp only [Stage.outs, Stage.tout, comp_out, ih]; rfl

/-- transfers at the boundary are the same events seen from both sides -/
theorem boundary_transfers (t : Nat) : B.ins (envB A B env) t = A.outs (envA A B env) t := by
  induction t with
  | zero => rfl
  | succ t ih => simp only [Stage.ins, Stage.outs, Stage.tin, Stage.tout, envB_inp, envA_rdy, ih]

theorem comp_lawIn (h : (comp A B).LawIn env) : A.LawIn (envA A B env) := by
  intro t hv hr
  have := h t hv (by simpa [comp_rin] using hr)
  exact this

theorem lawOut_to_lawIn (h : A.LawOut (envA A B env)) : B.LawIn (envB A B env) := by
  intro t hv hr
  have := h t (by simpa [envB_inp] using hv) (by simpa [envA_rdy] using hr)
  simpa [envB_inp] using this

/-- **compose_preserves**: if `A` implements `T` and `B` implements `U` then `A | B` implements `U ∘ T`
    (safety + output law), under the side conditions of both on what each of them sees. -/
theorem good_comp {T : Trans α β} {U : Trans β γ} {okA : Env α → Prop} {okB : Env β → Prop}
    (gA : Good A T okA) (gB : Good B U okB) : Good (comp A B) (T.comp U) (okComp A B okA okB) where
  safe := fun env hl hok t => by
    have hlA := comp_lawIn A B env hl
    have hlB := lawOut_to_lawIn A B env (gA.law _ hlA hok.1)
    have sA := gA.safe _ hlA hok.1 t
    have sB := gB.safe _ hlB hok.2 t
    rw [comp_outs, comp_out, comp_ins, Trans.run_comp]
    rw [boundary_transfers, envB_inp] at sB
    exact sB.trans (Trans.run_mono U sA)
  law := fun env hl hok => by
    have hlA := comp_lawIn A B env hl
    have hlB := lawOut_to_lawIn A B env (gA.law _ hlA hok.1)
    have := gB.law _ hlB hok.2
    intro t hv hr
    have := this t (by simpa [comp_out] using hv) hr
    simpa [comp_out] using this

end Comp

end Gatery.C16
