import GateryModel.C16.Chains
/-!
# C16 — liveness: every accepted beat is eventually emitted under fair readiness; composition
-/
namespace Gatery.C16

theorem Fair.weaken {α} {s s' : Bool} {x : Nat → Fwd α} {r : Nat → Bool} (h : Fair s x r) (hs : s = true ∨ s' = false) :
    Fair s' x r := by
  intro t
  obtain ⟨t', ht, h'⟩ := h t
  refine ⟨t', ht, ?_⟩
  rcases h' with h' | ⟨h1, h2⟩
  · exact Or.inl h'
  · rcases hs with hs | hs
    · rw [hs] at h1; cases h1
    · exact Or.inr ⟨hs, h2⟩

theorem Live.weaken {α β} {S : Stage α β} {T : Trans α β} {ok ok' : Env α → Prop} {dn up dn' up' : Bool}
    (l : Live S T ok dn up) (hok : ∀ env, ok' env → ok env) (hdn : dn' = true ∨ dn = false) (hup : up = true ∨ up' = false) :
    Live S T ok' dn' up' where
  deliver := fun env hl h hf => l.deliver env hl (hok env h) (Fair.weaken hf hdn)
  fairUp := fun env hl h hf => Fair.weaken (l.fairUp env hl (hok env h) (Fair.weaken hf hdn)) hup

theorem Live.congr_spec {α β} {S : Stage α β} {T T' : Trans α β} {ok : Env α → Prop} {dn up : Bool}
    (l : Live S T ok dn up) (h : ∀ l, T.run l = T'.run l) : Live S T' ok dn up where
  deliver := fun env hl hok hf t => by rw [← h]; exact l.deliver env hl hok hf t
  fairUp := l.fairUp

/-- From "whenever something specified is still missing, one more beat eventually comes out" to
    "everything specified for the beats accepted so far eventually is out". -/
theorem deliver_of_progress {α β} {S : Stage α β} {T : Trans α β} {ok : Env α → Prop} (g : Good S T ok)
    (env : Env α) (hl : S.LawIn env) (hok : ok env)
    (prog : ∀ t0, (S.outs env t0).length < (T.run (S.ins env t0)).length →
      ∃ t1, t0 ≤ t1 ∧ (S.outs env t0).length < (S.outs env t1).length) :
    ∀ t, ∃ t', t ≤ t' ∧ T.run (S.ins env t) <+: S.outs env t' := by
  intro t
  have key : ∀ k t0, t ≤ t0 → (T.run (S.ins env t)).length - (S.outs env t0).length ≤ k →
      ∃ t', t0 ≤ t' ∧ (T.run (S.ins env t)).length ≤ (S.outs env t').length := by
    intro k
    induction k with
    | zero => intro t0 _ h; exact ⟨t0, Nat.le_refl _, by omega⟩
    | succ k ih =>
      intro t0 ht0 h
      by_cases hd : (T.run (S.ins env t)).length ≤ (S.outs env t0).length
      · exact ⟨t0, Nat.le_refl _, hd⟩
      · have hm := (Trans.run_mono T (S.ins_mono env ht0)).length_le
        obtain ⟨t1, h01, hlt⟩ := prog t0 (by omega)
        obtain ⟨t', h1', hle⟩ := ih t1 (Nat.le_trans ht0 h01) (by omega)
        exact ⟨t', Nat.le_trans h01 h1', hle⟩
  obtain ⟨t', htt', hle⟩ := key _ t (Nat.le_refl _) (Nat.le_refl _)
  refine ⟨t', htt', ?_⟩
  have s1 := (List.prefix_append _ _).trans (g.safe env hl hok t')
  have s2 : T.run (S.ins env t) <+: T.run (S.ins env t' ++ (env t').inp.off) :=
    Trans.run_mono T ((S.ins_mono env htt').trans (List.prefix_append _ _))
  exact List.prefix_of_prefix_length_le s2 s1 hle

theorem outs_succ_of_tout {α β} (S : Stage α β) (env : Env α) (t : Nat) (h : S.tout env t = true) :
    (S.outs env (t+1)).length = (S.outs env t).length + 1 := by
  simp [Stage.outs, h, beatIf]

/-! ### storage stages whose stored head is always visible at the output -/

theorem QStep.progress {α} {S : Stage α α} {okStep : Ctl → Fwd α → Bool → Ctl → Prop} (Q : QStep S okStep)
    (vis : ∀ s c x, Q.inv s → Q.pend s ≠ [] → (S.fwd s c x).valid = true)
    (env : Env α) {dn : Bool} (hf : S.FairDown dn env) (t0 : Nat)
    (h : (S.outs env t0).length < ((Trans.idT : Trans α α).run (S.ins env t0)).length) :
    ∃ t1, t0 ≤ t1 ∧ (S.outs env t0).length < (S.outs env t1).length := by
  rw [Trans.run_idT] at h
  obtain ⟨t1, h01, hfair⟩ := hf t0
  by_cases hgt : (S.outs env t0).length < (S.outs env t1).length
  · exact ⟨t1, h01, hgt⟩
  · have hle := (S.outs_mono env h01).length_le
    have hin := (S.ins_mono env h01).length_le
    have hc := congrArg List.length (Q.conserve env t1)
    simp only [List.length_append] at hc
    have hp : Q.pend (S.state env t1) ≠ [] := by
      intro he; rw [he] at hc; simp at hc; omega
    have hv : (S.out env t1).valid = true := vis _ _ _ (Q.inv_state env t1) hp
    have hr : (env t1).rdy = true := by
      rcases hfair with hr | ⟨_, hnv⟩
      · exact hr
      · rw [hv] at hnv; cases hnv
    have := outs_succ_of_tout S env t1 (by simp [Stage.tout, hv, hr])
    exact ⟨t1 + 1, Nat.le_succ_of_le h01, by omega⟩

theorem QStep.deliver {α} {S : Stage α α} {okStep : Ctl → Fwd α → Bool → Ctl → Prop} (Q : QStep S okStep)
    (vis : ∀ s c x, Q.inv s → Q.pend s ≠ [] → (S.fwd s c x).valid = true)
    (env : Env α) (hl : S.LawIn env) (hok : okOfStep okStep env) {dn : Bool} (hf : S.FairDown dn env) :
    ∀ t, ∃ t', t ≤ t' ∧ (Trans.idT : Trans α α).run (S.ins env t) <+: S.outs env t' :=
  deliver_of_progress Q.good env hl hok (fun t0 h => Q.progress vis env hf t0 h)

theorem beatIf_ne_nil {α} {b : Bool} {x : α} (h : beatIf b x ≠ []) : b = true := by
  cases b
  · exact absurd rfl h
  · rfl

/-- `regDownstream`: delivers under weak fairness, and is itself unconditionally ready again and again -/
theorem live_regDownstream {α} (d0 : α) : Live (regDownstream d0) Trans.idT okTrue false true where
  deliver := fun env hl _ hf =>
    (qRegDownstream d0).deliver (fun s _ _ _ hp => beatIf_ne_nil hp) env hl (okOfStep_noStep env) hf
  fairUp := fun env _ _ hf t => by
    obtain ⟨t', ht, h⟩ := hf t
    refine ⟨t', ht, Or.inl ?_⟩
    rcases h with h | ⟨_, h⟩
    · simp only [Stage.rin, regDownstream]; simp [h]
    · simp only [Stage.out, regDownstream] at h
      simp only [Stage.rin, regDownstream]; simp [h]

/-- `regDownstreamBlocking` needs an unconditionally ready consumer to stay ready itself (utils.h:34: "valid will not become
    high while ready is low") -/
theorem live_regDownstreamBlocking {α} (d0 : α) : Live (regDownstreamBlocking d0) Trans.idT okTrue true true where
  deliver := fun env hl _ hf =>
    (qRegDownstreamBlocking d0).deliver (fun s _ _ _ hp => beatIf_ne_nil hp) env hl (okOfStep_noStep env) hf
  fairUp := fun env _ _ hf t => by
    obtain ⟨t', ht, h⟩ := hf t
    refine ⟨t', ht, Or.inl ?_⟩
    rcases h with h | ⟨h, _⟩
    · simpa [Stage.rin, regDownstreamBlocking] using h
    · cases h

theorem live_regReady {α} (d0 : α) : Live (regReady d0) Trans.idT okTrue false true where
  deliver := fun env hl _ hf =>
    (qRegReady d0).deliver (fun s _ _ _ hp => by
      have := beatIf_ne_nil hp
      simp [regReady, this]) env hl (okOfStep_noStep env) hf
  fairUp := fun env _ _ hf t => by
    obtain ⟨t', ht, h⟩ := hf t
    rcases h with h | ⟨_, h⟩
    · -- the consumer takes whatever is offered in cycle t': the buffer is free in cycle t'+1
      refine ⟨t' + 1, Nat.le_succ_of_le ht, Or.inl ?_⟩
      simp only [Stage.rin, Stage.state, regReady, h]
      simp
    · refine ⟨t', ht, Or.inl ?_⟩
      have h' : ((regReady d0).fwd ((regReady d0).state env t') (env t').ctl (env t').inp).valid = false := h
      show (regReady d0).bwd ((regReady d0).state env t') (env t').ctl (env t').inp (env t').rdy = true
      generalize (regReady d0).state env t' = s at h' ⊢
      rcases s with ⟨v, d⟩
      cases v <;> simp [regReady] at h' ⊢

theorem live_wire {α} (b : Bool) : Live (wire (α := α)) Trans.idT okTrue b b where
  deliver := fun env hl _ hf =>
    qWire.deliver (fun _ _ _ _ hp => absurd rfl hp) env hl (okOfStep_noStep env) hf
  fairUp := fun env _ _ hf => hf

/-- `stall`: nothing is stored, so delivery is immediate; it is a fair consumer iff "not stalled ∧ consumer ready" recurs -/
theorem live_stall {α} (dn up : Bool) : Live (stall (α := α)) Trans.idT (stallFair up) dn up where
  deliver := fun env _ _ _ t => ⟨t, Nat.le_refl _, by
    rw [Trans.run_idT]
    have := qStall.conserve env t
    simp only [qStall, List.append_nil] at this
    rw [this]; exact List.prefix_rfl⟩
  fairUp := fun env _ hok _ t => by
    obtain ⟨t', ht, h⟩ := hok t
    refine ⟨t', ht, ?_⟩
    rcases h with ⟨h1, h2⟩ | h
    · exact Or.inl (by simp [Stage.rin, stall, h1, h2])
    · exact Or.inr h

/-! ### composition -/
section Comp
variable {α β γ : Type} (A : Stage α β) (B : Stage β γ)

theorem fairUp_to_fairDown (env : Env α) {b : Bool} (h : B.FairUp b (envB A B env)) : A.FairDown b (envA A B env) := by
  intro t
  obtain ⟨t', ht, h'⟩ := h t
  refine ⟨t', ht, ?_⟩
  rcases h' with h' | ⟨h1, h2⟩
  · exact Or.inl (by show (envA A B env t').rdy = true; rw [envA_rdy]; exact h')
  · exact Or.inr ⟨h1, by rw [← envB_inp]; exact h2⟩

/-- side condition of the composed liveness statement -/
def okLiveComp (okA okLA : Env α → Prop) (okLB : Env β → Prop) : Env α → Prop :=
  fun env => okA (envA A B env) ∧ okLA (envA A B env) ∧ okLB (envB A B env)

/-- **compose_live**: `A | B` delivers and is a fair consumer whenever `B` is a fair enough consumer for `A`
    (`upB = true ∨ dnA = false`). -/
theorem live_comp {T : Trans α β} {U : Trans β γ} {okA okLA : Env α → Prop} {okLB : Env β → Prop} {dnA upA dnB upB : Bool}
    (gA : Good A T okA) (lA : Live A T okLA dnA upA) (lB : Live B U okLB dnB upB) (hcompat : upB = true ∨ dnA = false) :
    Live (comp A B) (T.comp U) (okLiveComp A B okA okLA okLB) dnB upA where
  deliver := fun env hl hok hf t => by
    have hlA := comp_lawIn A B env hl
    have hlB := lawOut_to_lawIn A B env (gA.law _ hlA hok.1)
    have hfB : B.FairDown dnB (envB A B env) := by
      intro t; obtain ⟨t', ht, h⟩ := hf t
      rw [comp_out] at h
      exact ⟨t', ht, h⟩
    have hfA : A.FairDown dnA (envA A B env) :=
      Fair.weaken (fairUp_to_fairDown A B env (lB.fairUp _ hlB hok.2.2 hfB)) hcompat
    obtain ⟨t1, h01, d1⟩ := lA.deliver _ hlA hok.2.1 hfA t
    obtain ⟨t2, h12, d2⟩ := lB.deliver _ hlB hok.2.2 hfB t1
    refine ⟨t2, Nat.le_trans h01 h12, ?_⟩
    rw [comp_ins, comp_outs, Trans.run_comp]
    rw [boundary_transfers] at d2
    exact (Trans.run_mono U d1).trans d2
  fairUp := fun env hl hok hf => by
    have hlA := comp_lawIn A B env hl
    have hlB := lawOut_to_lawIn A B env (gA.law _ hlA hok.1)
    have hfB : B.FairDown dnB (envB A B env) := by
      intro t; obtain ⟨t', ht, h⟩ := hf t
      rw [comp_out] at h
      exact ⟨t', ht, h⟩
    have hfA : A.FairDown dnA (envA A B env) :=
      Fair.weaken (fairUp_to_fairDown A B env (lB.fairUp _ hlB hok.2.2 hfB)) hcompat
    have := lA.fairUp _ hlA hok.2.1 hfA
    intro t
    obtain ⟨t', ht, h⟩ := this t
    rw [← comp_rin] at h
    exact ⟨t', ht, h⟩

end Comp

end Gatery.C16
