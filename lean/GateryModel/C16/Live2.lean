import GateryModel.C16.Live
/-!
# C16 — liveness of the width changers, the derived stages and chains
-/
namespace Gatery.C16

/-- stages proved through `TStep` never hold back a complete output beat: everything specified for the accepted beats is already out -/
theorem TStep.deliver_now {α β} {S : Stage α β} {T : Trans α β} (P : TStep S T) (env : Env α) (hl : S.LawIn env) (t : Nat) :
    T.run (S.ins env t) <+: S.outs env t := by
  rw [(P.invariant env hl t).2]; exact List.prefix_append _ _

section Ext
variable {α β δ : Type} (ratio : Nat) (d0 : δ) (dataOf : α → δ) (mk : List δ → α → β)

/-- `extendWidth`: ready = `ready(ret) | !isLast` — as fair towards its producer as its consumer is towards it -/
theorem live_extendWidth (hr : 0 < ratio) (b : Bool) :
    Live (extendWidth ratio d0 dataOf mk) (extSpec ratio dataOf mk) okTrue b b where
  deliver := fun env hl _ _ t => ⟨t, Nat.le_refl _, (tExtendWidth ratio d0 dataOf mk hr).deliver_now env hl t⟩
  fairUp := fun env _ _ hf t => by
    obtain ⟨t', ht, h⟩ := hf t
    refine ⟨t', ht, ?_⟩
    show (extendWidth ratio d0 dataOf mk).bwd ((extendWidth ratio d0 dataOf mk).state env t') (env t').ctl (env t').inp (env t').rdy = true ∨ _
    rcases h with h | ⟨hb, h⟩
    · left; simp [h]
    · have h' : ((extendWidth ratio d0 dataOf mk).fwd ((extendWidth ratio d0 dataOf mk).state env t') (env t').ctl (env t').inp).valid = false := h
      generalize (extendWidth ratio d0 dataOf mk).state env t' = s at h' ⊢
      simp only [Bool.and_eq_false_iff] at h'
      rcases h' with h' | h'
      · left; simp [h']
      · right; exact ⟨hb, h'⟩
end Ext

section Red
variable {α β : Type} (ratio : Nat) (slice : Nat → α → β)

local notation "R" => reduceWidth ratio slice

/-- the part counter of `reduceWidth` at time `t` -/
def redCnt (env : Env α) (t : Nat) : Nat := Stage.state R env t

theorem red_state_succ (env : Env α) (t : Nat) :
    redCnt ratio slice env (t+1) =
      if !(env t).inp.valid then 0
      else if (env t).rdy then (if redCnt ratio slice env t + 1 == ratio then 0 else redCnt ratio slice env t + 1)
      else redCnt ratio slice env t := rfl

theorem red_rin (env : Env α) (t : Nat) :
    Stage.rin R env t = ((env t).rdy && (redCnt ratio slice env t + 1 == ratio)) := rfl

/-- between two times the counter does not fall unless the input was invalid or accepted in between -/
theorem red_cnt_mono (env : Env α) (t d : Nat) :
    (∃ t'', t ≤ t'' ∧ t'' < t + d ∧ ((env t'').inp.valid = false ∨ Stage.rin R env t'' = true)) ∨
    redCnt ratio slice env t ≤ redCnt ratio slice env (t + d) := by
  induction d with
  | zero => right; exact Nat.le_refl _
  | succ d ih =>
    rcases ih with ⟨t'', h1, h2, h3⟩ | ih
    · left; exact ⟨t'', h1, by omega, h3⟩
    · cases hv : (env (t+d)).inp.valid
      · left; exact ⟨t + d, by omega, by omega, Or.inl hv⟩
      · cases hrd : (env (t+d)).rdy
        · right
          have := red_state_succ ratio slice env (t + d)
          simp only [hv, hrd, Bool.not_true, Bool.false_eq_true, ↓reduceIte] at this
          show _ ≤ redCnt ratio slice env (t + d + 1)
          rw [this]; exact ih
        · by_cases hlast : (redCnt ratio slice env (t + d) + 1 == ratio) = true
          · left; exact ⟨t + d, by omega, by omega, Or.inr (by rw [red_rin, hrd, hlast]; rfl)⟩
          · right
            have hlast' : (redCnt ratio slice env (t + d) + 1 == ratio) = false := by simpa using hlast
            have := red_state_succ ratio slice env (t + d)
            simp only [hv, hrd, hlast', Bool.not_true, Bool.false_eq_true, ↓reduceIte] at this
            show _ ≤ redCnt ratio slice env (t + d + 1)
            rw [this]; omega

/-- `reduceWidth`: ready = `ready(out) & isLast` waits for valid, so towards its producer it is only *weakly* fair -/
theorem live_reduceWidth (hr : 0 < ratio) :
    Live (reduceWidth ratio slice) (redSpec ratio slice) okTrue false false where
  deliver := fun env hl _ _ t => ⟨t, Nat.le_refl _, (tReduceWidth ratio slice hr).deliver_now env hl t⟩
  fairUp := fun env hl _ hf => by
    have hlt : ∀ t, redCnt ratio slice env t < ratio := fun t => ((tReduceWidth ratio slice hr).invariant env hl t).1.1
    have key : ∀ m t, ratio - (redCnt ratio slice env t + 1) ≤ m →
        ∃ t', t ≤ t' ∧ (Stage.rin R env t' = true ∨ (env t').inp.valid = false) := by
      intro m
      induction m with
      | zero =>
        intro t hm
        obtain ⟨t1, h01, hfair⟩ := hf t
        obtain ⟨d, rfl⟩ := Nat.exists_eq_add_of_le h01
        rcases red_cnt_mono ratio slice env t d with ⟨t'', h1, _, h3⟩ | hmono
        · exact ⟨t'', h1, h3.symm⟩
        · have hv : (env (t+d)).inp.valid = false ∨ (env (t+d)).rdy = true := by
            rcases hfair with h | ⟨_, h⟩
            · exact Or.inr h
            · exact Or.inl h
          rcases hv with hv | hrd
          · exact ⟨t + d, h01, Or.inr hv⟩
          · refine ⟨t + d, h01, Or.inl ?_⟩
            have := hlt (t + d)
            rw [red_rin, hrd]
            have : (redCnt ratio slice env (t + d) + 1 == ratio) = true := by simp; omega
            rw [this]; rfl
      | succ m ih =>
        intro t hm
        obtain ⟨t1, h01, hfair⟩ := hf t
        obtain ⟨d, rfl⟩ := Nat.exists_eq_add_of_le h01
        rcases red_cnt_mono ratio slice env t d with ⟨t'', h1, _, h3⟩ | hmono
        · exact ⟨t'', h1, h3.symm⟩
        · have hv : (env (t+d)).inp.valid = false ∨ (env (t+d)).rdy = true := by
            rcases hfair with h | ⟨_, h⟩
            · exact Or.inr h
            · exact Or.inl h
          rcases hv with hv | hrd
          · exact ⟨t + d, h01, Or.inr hv⟩
          · cases hvv : (env (t+d)).inp.valid
            · exact ⟨t + d, h01, Or.inr hvv⟩
            · by_cases hlast : (redCnt ratio slice env (t + d) + 1 == ratio) = true
              · exact ⟨t + d, h01, Or.inl (by rw [red_rin, hrd, hlast]; rfl)⟩
              · have hlast' : (redCnt ratio slice env (t + d) + 1 == ratio) = false := by simpa using hlast
                have hne : redCnt ratio slice env (t + d) + 1 ≠ ratio := by simpa using hlast'
                have hs := red_state_succ ratio slice env (t + d)
                simp only [hvv, hrd, hlast', Bool.not_true, Bool.false_eq_true, ↓reduceIte] at hs
                have := hlt (t + d)
                obtain ⟨t', ht', h'⟩ := ih (t + d + 1) (by rw [hs]; omega)
                exact ⟨t', by omega, h'⟩
    intro t
    obtain ⟨t', ht, h⟩ := key _ t (Nat.le_refl _)
    refine ⟨t', ht, ?_⟩
    rcases h with h | h
    · exact Or.inl h
    · exact Or.inr ⟨rfl, h⟩
end Red

/-! ### derived stages -/

theorem okLiveComp_true {α β γ} (A : Stage α β) (B : Stage β γ) (env : Env α) :
    okLiveComp A B okTrue okTrue okTrue env := ⟨trivial, trivial, trivial⟩

/-- composition of two 1:1 stages without side conditions -/
theorem live_comp_id {α} {A B : Stage α α} {dnA upA dnB upB : Bool} (gA : Good A Trans.idT okTrue)
    (lA : Live A Trans.idT okTrue dnA upA) (lB : Live B Trans.idT okTrue dnB upB) (h : upB = true ∨ dnA = false) :
    Live (comp A B) Trans.idT okTrue dnB upA :=
  ((live_comp A B gA lA lB h).congr_spec run_idT_comp_idT).weaken (fun env _ => okLiveComp_true A B env)
    (by cases dnB <;> simp) (by cases upA <;> simp)

/-- `regDecouple` = blocking register, then skid buffer: the skid buffer's unconditional readiness is what the blocking
    register needs (utils.h:750 "we can use blocking reg here since regReady guarantees high ready signal") -/
theorem live_regDecouple {α} (d0 : α) : Live (regDecouple d0) Trans.idT okTrue false true :=
  live_comp_id (good_regDownstreamBlocking d0) (live_regDownstreamBlocking d0) (live_regReady d0) (Or.inl rfl)

theorem live_blockingChain {α} (d0 : α) (n : Nat) : Live (blockingChain d0 n) Trans.idT okTrue true true := by
  induction n with
  | zero => exact live_wire true
  | succ n ih => exact live_comp_id (good_regDownstreamBlocking d0) (live_regDownstreamBlocking d0) ih (Or.inl rfl)

/-- `delay n`, any `n ≥ 1`: the final `regDownstream` shields the blocking registers -/
theorem live_delay {α} (d0 : α) (n : Nat) : Live (delay d0 (n+1)) Trans.idT okTrue false true :=
  live_comp_id (good_blockingChain d0 n) (live_blockingChain d0 n) (live_regDownstream d0) (Or.inl rfl)

/-! ### chains -/

/-- a chain whose every link is live and whose neighbours are compatible (`upB = true ∨ dnA = false`).
    `dn` = fairness needed from the consumer of the chain, `up` = fairness offered to its producer. -/
inductive LiveChain : {α β : Type} → Chain α β → Trans α β → (Env α → Prop) → Bool → Bool → Prop
  | nil {α : Type} (b : Bool) : LiveChain (.nil : Chain α α) Trans.idT okTrue b b
  | cons {α β γ : Type} {S : Stage α β} {rest : Chain β γ} {T : Trans α β} {U : Trans β γ}
      {ok okL : Env α → Prop} {okR : Env β → Prop} {dnA upA dnB upB : Bool} :
      Good S T ok → Live S T okL dnA upA → LiveChain rest U okR dnB upB → (upB = true ∨ dnA = false) →
      LiveChain (.cons S rest) (T.comp U) (okLiveComp S rest.toStage ok okL okR) dnB upA

/-- every compatible finite chain delivers every accepted beat (induction over the chain) -/
theorem LiveChain.live {α β : Type} {ch : Chain α β} {T : Trans α β} {ok : Env α → Prop} {dn up : Bool}
    (h : LiveChain ch T ok dn up) : Live ch.toStage T ok dn up := by
  induction h with
  | nil b => exact live_wire b
  | cons g l _ hc ih => exact live_comp _ _ g l ih hc

end Gatery.C16
