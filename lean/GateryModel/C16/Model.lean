/-!
# C16 — model of the ready/valid stream stages of `scl/stream`

Every stage of `source/gatery/scl/stream/utils.h` / `streamFifo.h` that the property lists is modelled as a Mealy
machine `Stage α β` following the generator code statement by statement (file:line cited at each definition).

Signals of one stream boundary in one clock cycle:
* forward (`downstream(...)` in gatery): `valid` and the payload `data : α` (payload = data word **and** all
  per-beat meta signals: eop, sop, error, txid, empty, ... — they travel in the same `downstream` bundle);
* backward (`upstream(...)`): `ready`.

A stage computes, from its register state and the signals of the current cycle,
* `fwd`  : its output `valid`/payload from its input `valid`/payload   (no stage has a path ready → valid),
* `bwd`  : its input `ready` from its output `ready` (and, for the packet width changers of Packet.h only, from the input
  signals of the cycle: their `ready(source)` looks at `eop(source)`),
* `next` : the register state after the clock edge.
`ctl` is the vector of side inputs of the cycle (the `stallCondition` bits of `strm::stall`); a stage consumes
`nctl` of them, `comp` hands the rest to the following stage.

Core Lean only (the driver links against this file).
-/
namespace Gatery.C16

/-- forward signals of a stream in one cycle -/
structure Fwd (α : Type) where
  valid : Bool
  data : α
  deriving Repr

/-- `[x]` if `b`, else `[]` -/
def beatIf {α} (b : Bool) (x : α) : List α := if b then [x] else []

/-- the beat offered in this cycle, as a list of length ≤ 1 -/
def Fwd.off {α} (x : Fwd α) : List α := beatIf x.valid x.data

abbrev Ctl := Nat → Bool
def Ctl.shift (n : Nat) (c : Ctl) : Ctl := fun i => c (i + n)

structure Stage (α β : Type) where
  σ : Type
  nctl : Nat
  init : σ
  fwd : σ → Ctl → Fwd α → Fwd β
  bwd : σ → Ctl → Fwd α → Bool → Bool
  next : σ → Ctl → Fwd α → Bool → σ

/-- a valid bit register plus a payload register (`valid_reg`/`dsSig`, `valid_reg`/`data_reg`) -/
structure VD (α : Type) where
  v : Bool
  d : α
  deriving Repr

/-- `regDownstreamBlocking` (utils.h:416-433):
    `IF(ready(in)) dsSig = downstream(in); dsSig = reg(dsSig); downstream(ret) = dsSig; upstream(in) = upstream(ret);`
    valid has reset value '0' (line 421), the payload register has none (`d0` = unobservable power-on content). -/
def regDownstreamBlocking {α} (d0 : α) : Stage α α where
  σ := VD α
  nctl := 0
  init := ⟨false, d0⟩
  fwd s _ _ := ⟨s.v, s.d⟩
  bwd _ _ _ r := r
  next s _ x r := if r then ⟨x.valid, x.data⟩ else s

/-- `regDownstream` (utils.h:476-508), branch `has<Ready>()`:
    `IF(ready(in)) { valid_reg = valid(in); dsSig = downstream(in); }` … `ready(in) = ready(ret) | !valid_reg`. -/
def regDownstream {α} (d0 : α) : Stage α α where
  σ := VD α
  nctl := 0
  init := ⟨false, d0⟩
  fwd s _ _ := ⟨s.v, s.d⟩
  bwd s _ _ r := r || !s.v
  next s _ x r := if r || !s.v then ⟨x.valid, x.data⟩ else s

/-- `regReady` — the skid buffer (utils.h:435-474).
    ```
    ready(in) = !valid_reg;
    IF(ready(ret)) valid_reg = '0';
    IF(!valid_reg) { IF(!ready(ret)) valid_reg = valid(in); data_reg = downstream(in); }
    valid_reg = reg(valid_reg, '0'); data_reg = reg(data_reg);
    IF(valid_reg) { downstream(ret) = data_reg; valid(ret) = '1'; }      // else ret <<= in
    ```
    The reads of `valid_reg` before line 463 see the value built up by the two `IF`s (`v1`, `v2` below); the read in
    `ready(in) = !valid_reg` and the final `IF(valid_reg)` see the register output. -/
def regReady {α} (d0 : α) : Stage α α where
  σ := VD α
  nctl := 0
  init := ⟨false, d0⟩
  fwd s _ x := if s.v then ⟨true, s.d⟩ else x
  bwd s _ _ _ := !s.v
  next s _ x r :=
    let v1 := if r then false else s.v
    let v2 := if !v1 then (if !r then x.valid else v1) else v1
    let d2 := if !v1 then x.data else s.d
    ⟨v2, d2⟩

/-- `stall` (utils.h:679-692): `out <<= source; IF(stallCondition) { valid(out) = '0'; ready(source) = '0'; }` -/
def stall {α} : Stage α α where
  σ := Unit
  nctl := 1
  init := ()
  fwd _ c x := ⟨x.valid && !c 0, x.data⟩
  bwd _ c _ r := r && !c 0
  next _ _ _ _ := ()

/-- a plain connection (`delay` with `cycles = 0`, utils.h:515-516) -/
def wire {α} : Stage α α where
  σ := Unit
  nctl := 0
  init := ()
  fwd _ _ x := x
  bwd _ _ _ r := r
  next _ _ _ _ := ()

/-- composition `A | B`: the forward signals of `A` feed `B`, `B`'s input ready is `A`'s output ready. -/
def comp {α β γ} (A : Stage α β) (B : Stage β γ) : Stage α γ where
  σ := A.σ × B.σ
  nctl := A.nctl + B.nctl
  init := (A.init, B.init)
  fwd s c x := B.fwd s.2 (c.shift A.nctl) (A.fwd s.1 c x)
  bwd s c x r := A.bwd s.1 c x (B.bwd s.2 (c.shift A.nctl) (A.fwd s.1 c x) r)
  next s c x r := (A.next s.1 c x (B.bwd s.2 (c.shift A.nctl) (A.fwd s.1 c x) r), B.next s.2 (c.shift A.nctl) (A.fwd s.1 c x) r)

/-- `regDecouple` (utils.h:747-752): `regReady(regDownstreamBlocking(stream))` -/
def regDecouple {α} (d0 : α) : Stage α α := comp (regDownstreamBlocking d0) (regReady d0)

/-- `n` × `regDownstreamBlocking` -/
def blockingChain {α} (d0 : α) : Nat → Stage α α
  | 0 => wire
  | n+1 => comp (regDownstreamBlocking d0) (blockingChain d0 n)

/-- `delay` (utils.h:511-520): `cycles-1` × `regDownstreamBlocking`, then one `regDownstream`; nothing for `cycles = 0`
    (since /repo 553e604 written recursively with a fresh stream object per stage; before that a loop re-assigning one
    stream variable, which rebound `reduceWidth`'s earlier read of `valid(out)` — finding F5). -/
def delay {α} (d0 : α) : Nat → Stage α α
  | 0 => wire
  | n+1 => comp (blockingChain d0 n) (regDownstream d0)

/-! ### stream FIFO (streamFifo.h:117-151 on top of Fifo.h)

The storage (put/get pointers + memory) is abstracted to the list `q` of stored beats — that this abstraction is right is
property C15.  What this model keeps from `Fifo.h` is everything that decides the *handshake timing*:
`generatePush` (Fifo.h:356-383): `put += pushValid; full = reg(put - pushGet == depth)`,
`generatePop`  (Fifo.h:385-410): `get += popValid; peek = reg(mem[get]); empty = reg(popPut == get)`,
`generate`     (Fifo.h:317-330): `pushGet = popGet delayed by latency-1 registers`, `popPut = pushPut delayed by latency-1`.
`pushP`/`popP` are those delay lines, holding the push/pop bits of the last `lat-1` cycles; the number of stored beats the
pop side does not see yet is the number of `true` in `pushP`, the number of free slots the push side does not see yet the
number of `true` in `popP`.
`strm::fifo` (streamFifo.h:117-140): `ready(in) = !full; IF(transfer(in)) push`, `valid(ret) = !empty; IF(transfer(ret)) pop`
(`push`/`pop` are again gated by `!full`/`!empty`, Fifo.h:155,173) and for `fifoLatency == 0` the bypass
`IF(!valid(ret)) { downstream(ret) = downstream(in); IF(ready(ret)) valid(in) = '0'; }` around a latency-1 FIFO. -/

structure FifoS (α : Type) where
  q : List α
  pushP : List Bool
  popP : List Bool
  fullR : Bool
  emptyR : Bool
  deriving Repr

def countT (l : List Bool) : Nat := (l.filter id).length

def fifo {α} (d0 : α) (depth lat : Nat) (ft : Bool) : Stage α α where
  σ := FifoS α
  nctl := 0
  init := ⟨[], List.replicate (lat - 1) false, List.replicate (lat - 1) false, false, true⟩
  fwd s _ x := if ft && s.emptyR then x else ⟨!s.emptyR, s.q.headD d0⟩
  bwd s _ _ _ := !s.fullR
  next s _ x r :=
    let vout := if ft && s.emptyR then x.valid else !s.emptyR
    let vin := x.valid && !(ft && s.emptyR && r)
    let push := vin && !s.fullR
    let pop := (vout && r) && !s.emptyR
    let q1 := if push then s.q ++ [x.data] else s.q
    let q2 := if pop then q1.drop 1 else q1
    let pushP := (push :: s.pushP).take (lat - 1)
    let popP := (pop :: s.popP).take (lat - 1)
    ⟨q2, pushP, popP, q2.length + countT popP == depth, q2.length == countT pushP⟩

/-! ### width changers (utils.h:522-611) -/

structure ExtS (δ : Type) where
  cnt : Nat
  slots : List δ
  deriving Repr

/-- `extendWidth` (utils.h:536-571) with `reset = '0'`.
    `Counter counter{ratio}; IF(transfer(source)) counter.inc();`
    `valid(ret) = counter.isLast() & valid(source); ready(source) = ready(ret) | !counter.isLast();`
    `*ret = makeShiftReg(width, *source, transfer(source))` — `makeShiftReg` (utils.h:522-534) returns the *combinational*
    `newValue = (value >> w) with the new word in the upper w bits`, and registers it when `en`.
    The `ratio·w`-bit shift register is modelled as `ratio` slots of one input word (`dataOf`), oldest first;
    `mk slots x` builds the output beat from the slots and the meta signals of the current input beat `x`
    (`attach(move(source), Valid{…})` keeps all other meta signals of `source`). -/
@[reducible] def extendWidth {α β δ} (ratio : Nat) (d0 : δ) (dataOf : α → δ) (mk : List δ → α → β) : Stage α β where
  σ := ExtS δ
  nctl := 0
  init := ⟨0, List.replicate ratio d0⟩
  fwd s _ x := ⟨(s.cnt + 1 == ratio) && x.valid, mk (s.slots.drop 1 ++ [dataOf x.data]) x.data⟩
  bwd s _ _ r := r || !(s.cnt + 1 == ratio)
  next s _ x r :=
    let last := s.cnt + 1 == ratio
    let t := x.valid && (r || !last)
    if t then ⟨if last then 0 else s.cnt + 1, s.slots.drop 1 ++ [dataOf x.data]⟩ else s

/-- `reduceWidth` (utils.h:573-611) with `reset = '0'`.
    `Counter counter{ratio}; IF(transfer(out)) counter.inc(); IF(!valid(source) | reset) counter.reset();`
    `out <<= source; ready(source) &= counter.isLast(); *out = source->part(ratio, counter.value());`
    `eop(out) &= counter.isLast(); sop(out) &= counter.isFirst();`  — all folded into `slice cnt x`.
    There is no storage: the wide beat stays on the input until its last part has been taken. -/
@[reducible] def reduceWidth {α β} (ratio : Nat) (slice : Nat → α → β) : Stage α β where
  σ := Nat
  nctl := 0
  init := 0
  fwd s _ x := ⟨x.valid, slice s x.data⟩
  bwd s _ _ r := r && (s + 1 == ratio)
  next s _ x r :=
    if !x.valid then 0
    else if r then (if s + 1 == ratio then 0 else s + 1)
    else s

/-! ### packet-aware width changers (Packet.h:517-795) -/

/-- `widthReduce` (Packet.h:762-795) with its per-meta-signal handlers `reduceStreamMeta` (Packet.h:660-760).
    `Counter counter{ratio}; IF(transfer(ret)) counter.inc(); IF(transfer(ret) & transfer(source)) counter.reset();`
    `ready(source) = '0'; IF(beat.isLast() | outEop) ready(source) = ready(out)` (Packet.h:660-667) — the input ready
    depends on the input payload through `outEop`; `valid` passes (Packet.h:669-672).
    `slice i x` = output beat for part `i` of `x` (payload part, byte-enable group, `sop & isFirst`, `eop & isLastBeat`,
    empty…), `fin i x` = `beat.isLast() | outEop`.  Unlike `reduceWidth` of utils.h the counter is not reset while valid is low.
    The auxiliary registers of the meta handlers (`sentBits`, `bytesLeft`, `bitsLeft`) are functions of the counter
    (`(cnt+1)·bitsOut`, `bytesIn − cnt·bytesOut`, …) and are folded into `slice` in closed form. -/
@[reducible] def widthReduceP {α β} (slice : Nat → α → β) (fin : Nat → α → Bool) : Stage α β where
  σ := Nat
  nctl := 0
  init := 0
  fwd s _ x := ⟨x.valid, slice s x.data⟩
  bwd s _ x r := r && fin s x.data
  next s _ x r := if x.valid && r then (if fin s x.data then 0 else s + 1) else s

structure PExtS (δ : Type) where
  cnt : Nat
  slots : List δ
  sopF : Bool
  empR : Nat
  deriving Repr

/-- `widthExtend` (Packet.h:629-657) with `extendStreamMeta` / `extendStreamPayload` (Packet.h:525-627).
    * counter: `IF(transfer(source)) inc; IF(transfer(source) & eop(source)) reset`;
    * `ready(source) = '1'; IF(beat.isLast() | eop(source)) ready(source) = ready(out)`; `valid(out) = valid & (isLast | eop)`;
    * payload and byte enables: `ret = reg(ret); retParts[beat.value()] = in` — a register that is rewritten *every* cycle with
      its own value except part `cnt`, which takes the current input (`slots.set cnt …`); parts above `cnt` keep whatever
      earlier groups left there;
    * sop: output `sopSeen | in.sop`; `ENIF(transfer(inStream)) sopSeen = reg((sopSeen | in.sop) & !(isLast | eop), '0')` — the
      repaired handler (harness/examples/c16_fix_widthextend_sop.diff.txt). Before the repair it was
      `flagInstantSet(in.sop, isLast | eop(inStream))`, i.e. the same update but in *every* cycle, valid/transferred or not
      (Packet.h:566-569, flag.h:59-66), which loses or invents sop — finding, signatures `seq:pext:sop`, `law:pext`, `frame:*`;
    * empty / emptyBits: register `e` (enabled by `transfer(source)`): `e' = (isLast | eop) ? start : e − step`, output `e + in.empty`
      (modulo `emod` = 2^width);  error, txid, eop: from the current beat. -/
@[reducible] def widthExtendP {α β δ} (ratio : Nat) (d0 : δ) (slotOf : α → δ) (isEop isSop : α → Bool) (empOf : α → Nat)
    (start step emod : Nat) (mk : List δ → Bool → Nat → α → β) : Stage α β where
  σ := PExtS δ
  nctl := 0
  init := ⟨0, List.replicate ratio d0, false, start⟩
  fwd s _ x :=
    let fin := (s.cnt + 1 == ratio) || isEop x.data
    ⟨x.valid && fin, mk (s.slots.set s.cnt (slotOf x.data)) (s.sopF || isSop x.data) ((s.empR + empOf x.data) % emod) x.data⟩
  bwd s _ x r := if (s.cnt + 1 == ratio) || isEop x.data then r else true
  next s _ x r :=
    let fin := (s.cnt + 1 == ratio) || isEop x.data
    let t := x.valid && (if fin then r else true)
    ⟨if t then (if fin then 0 else s.cnt + 1) else s.cnt,
     s.slots.set s.cnt (slotOf x.data),
     if t then (s.sopF || isSop x.data) && !fin else s.sopF,
     if t then (if fin then start else (s.empR + emod - step % emod) % emod) else s.empR⟩

/-! ### finite chains -/

inductive Chain : Type → Type → Type 1
  | nil {α} : Chain α α
  | cons {α β γ} : Stage α β → Chain β γ → Chain α γ

def Chain.toStage : {α β : Type} → Chain α β → Stage α β
  | _, _, .nil => wire
  | _, _, .cons S rest => comp S rest.toStage

/-! ### concrete beats (what the harness logs) -/

/-- payload of one beat: data word and the meta signals of `metaSignals.h`. `eop`/`sop` and the byte enables `be` are
    separate because the width changers rewrite them; all other meta signals (error, txid, empty) are carried as one opaque
    word, except `emp` = the `Empty` (bytes) or `EmptyBits` field, which the packet width changers recompute.
    Streams without `ByteEnable` have `be = 0` (width 0), streams without `Empty`/`EmptyBits` have `emp = 0`. -/
structure Beat where
  data : Nat
  eop : Bool
  sop : Bool
  aux : Nat
  be : Nat
  emp : Nat
  deriving Repr, BEq, DecidableEq, Inhabited

def Beat.zero : Beat := ⟨0, false, false, 0, 0, 0⟩

/-- little-endian concatenation of `w`-bit words: first word in the low bits (`makeShiftReg` shifts right, so the oldest
    word ends up lowest) -/
def packWords (w : Nat) : List Nat → Nat
  | [] => 0
  | x :: xs => x % 2 ^ w + 2 ^ w * packWords w xs

/-- `source->part(ratio, i)` / `byteEnable(source)(i * w, w)`: word `i` of width `w` -/
def partWord (w i x : Nat) : Nat := (x / 2 ^ (w * i)) % 2 ^ w

/-- what `extendWidth` keeps per accepted beat in its shift registers (utils.h:559 data, utils.h:561-567 byte enables —
    two `makeShiftReg`s with the same enable `transfer(source)`, modelled as one register of pairs) -/
def extSlot (x : Beat) : Nat × Nat := (x.data, x.be)

/-- output beat of `extendWidth`: data words and byte-enable groups of the slots concatenated in the same order
    (`w` / `bw` = width of one input data word / of one input byte-enable group), other meta signals from the current beat -/
def extMk (w bw : Nat) (slots : List (Nat × Nat)) (x : Beat) : Beat :=
  { x with data := packWords w (slots.map Prod.fst), be := packWords bw (slots.map Prod.snd) }

/-- part `i` of `reduceWidth`: data word `i`, byte-enable group `i` (utils.h:596-602:
    `be = byteEnable(source)(zext(counter.value(), +w) * w.bits(), w)`), eop on the last part, sop on the first -/
def redSlice (ratio w bw : Nat) (i : Nat) (x : Beat) : Beat :=
  { x with data := partWord w i x.data, be := partWord bw i x.be, eop := x.eop && (i + 1 == ratio), sop := x.sop && (i == 0) }

/-- `BitWidth::last(v)` = number of bits needed for the value `v`; `BitWidth::count(n)` = bits needed to count `n` states -/
def bitLen (v : Nat) : Nat := if v = 0 then 0 else Nat.log2 v + 1
def bitCount (n : Nat) : Nat := if n ≤ 1 then 0 else bitLen (n - 1)

/-- empty-signal flavour of a stream: 0 none, 1 `Empty` (bytes), 2 `EmptyBits` -/
def emptyUnit (ek w : Nat) : Nat := if ek = 1 then w / 8 else if ek = 2 then w else 0

/-- `widthReduce` on concrete beats (`w`/`bw` = output data / byte-enable width, `ek` = empty flavour):
    part `i` (Packet.h:675-690), `sop & isFirst` (710-713), `eop & (sentBits >= bitsIn − emptyBits)` with
    `sentBits = (i+1)·w` (692-708), `empty = (bytesLeft − empty).lower(count(bytesOut))` with `bytesLeft = bytesIn − i·bytesOut`
    (715-727; 739-752 the same in bits for `EmptyBits`) -/
def pRedSlice (ratio w bw ek : Nat) (i : Nat) (x : Beat) : Beat :=
  let bitsIn := ratio * w
  let emptyBitsIn := if ek = 1 then x.emp * 8 else if ek = 2 then x.emp else 0
  let lastBeat := decide ((i + 1) * w ≥ bitsIn - emptyBitsIn)
  let uOut := emptyUnit ek w
  let emp := if ek = 0 then x.emp else (ratio * uOut - i * uOut + 2 ^ 64 - x.emp % 2 ^ 64) % 2 ^ bitCount uOut
  { x with data := partWord w i x.data, be := partWord bw i x.be, eop := x.eop && lastBeat, sop := x.sop && (i == 0), emp := emp }

def pRedFin (ratio w bw ek : Nat) (i : Nat) (x : Beat) : Bool := (i + 1 == ratio) || (pRedSlice ratio w bw ek i x).eop

/-- `widthExtend` on concrete beats (`w`/`bw`/`ew` = input data / byte-enable / empty width) -/
def pExtStart (ratio w ek : Nat) : Nat := emptyUnit ek w * (ratio - 1)
def pExtMod (ratio w ek ew : Nat) : Nat := if ek = 0 then 1 else 2 ^ bitLen (pExtStart ratio w ek + (2 ^ ew - 1))
def pExtMk (w bw : Nat) (slots : List (Nat × Nat)) (sop : Bool) (emp : Nat) (x : Beat) : Beat :=
  { x with data := packWords w (slots.map Prod.fst), be := packWords bw (slots.map Prod.snd), sop := sop, emp := emp }

/-- stage descriptions as printed by the harness -/
inductive Desc
  | ds | dsb | rr | dec | stall
  | dly (n : Nat)
  | fifo (depth lat : Nat) (ft : Bool)
  | ext (ratio w bw : Nat)   -- `w` / `bw` = input data / byte-enable width
  | red (ratio w bw : Nat)   -- `w` / `bw` = output data / byte-enable width
  | pext (ratio w bw ek ew : Nat)  -- Packet.h widthExtend; input widths, empty flavour, input empty width
  | pred (ratio w bw ek : Nat)     -- Packet.h widthReduce; output widths, empty flavour
  deriving Repr, BEq

def Desc.stage : Desc → Stage Beat Beat
  | .ds => regDownstream Beat.zero
  | .dsb => regDownstreamBlocking Beat.zero
  | .rr => regReady Beat.zero
  | .dec => regDecouple Beat.zero
  | .stall => Gatery.C16.stall
  | .dly n => delay Beat.zero n
  | .fifo d l ft => Gatery.C16.fifo Beat.zero d l ft
  | .ext r w bw => extendWidth r (0, 0) extSlot (extMk w bw)
  | .red r w bw => reduceWidth r (redSlice r w bw)
  | .pext r w bw ek ew => widthExtendP r (0, 0) extSlot Beat.eop Beat.sop Beat.emp (pExtStart r w ek) (emptyUnit ek w) (pExtMod r w ek ew) (pExtMk w bw)
  | .pred r w bw ek => widthReduceP (pRedSlice r w bw ek) (pRedFin r w bw ek)

def chainOf : List Desc → Chain Beat Beat
  | [] => .nil
  | d :: ds => .cons d.stage (chainOf ds)

end Gatery.C16
