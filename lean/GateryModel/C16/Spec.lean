import GateryModel.C16.Model
/-!
# C16 — specification: traces, transfers, the interface law, list specifications

A stage is run against an *environment* `env : Nat → In α` that fixes, for every clock cycle, the producer's
`valid`/payload, the consumer's `ready` and the side inputs.  Nothing is assumed about the environment except what a
theorem lists explicitly (`LawIn`: the producer keeps `valid` and payload until the transfer).

`ins t` / `outs t` are the lists of beats transferred at the input / output during cycles `0 … t-1`
(`transfer = valid & ready`, metaSignals.h:41).  The list specification of a stage is a function
`List α → List β` given as a sequential transducer (`Trans`), so that it is prefix-monotone by construction and the
driver can evaluate it incrementally; `Trans.run` of the three transducers used is characterised in `Lemmas.lean`
(`run_idT`, `run_expandT`, `run_chunkT_full`).
-/
namespace Gatery.C16

/-- what the outside drives in one cycle -/
structure In (α : Type) where
  ctl : Ctl
  inp : Fwd α
  rdy : Bool

abbrev Env (α : Type) := Nat → In α

namespace Stage
variable {α β : Type} (S : Stage α β) (env : Env α)

/-- register state at the beginning of cycle `t` -/
def state : Nat → S.σ
  | 0 => S.init
  | t+1 => S.next (state t) (env t).ctl (env t).inp (env t).rdy

/-- output valid/payload in cycle `t` -/
def out (t : Nat) : Fwd β := S.fwd (S.state env t) (env t).ctl (env t).inp
/-- input ready in cycle `t` -/
def rin (t : Nat) : Bool := S.bwd (S.state env t) (env t).ctl (env t).inp (env t).rdy
/-- transfer at the input / output in cycle `t` -/
def tin (t : Nat) : Bool := (env t).inp.valid && S.rin env t
def tout (t : Nat) : Bool := (S.out env t).valid && (env t).rdy

/-- beats accepted at the input during cycles `< t` -/
def ins : Nat → List α
  | 0 => []
  | t+1 => ins t ++ beatIf (S.tin env t) (env t).inp.data

/-- beats emitted at the output during cycles `< t` -/
def outs : Nat → List β
  | 0 => []
  | t+1 => outs t ++ beatIf (S.tout env t) (S.out env t).data

end Stage

/-- The interface law of a ready/valid stream: once `valid` is up, `valid` and the payload stay until the transfer. -/
def LawSig {α : Type} (x : Nat → Fwd α) (r : Nat → Bool) : Prop :=
  ∀ t, (x t).valid = true → r t = false → (x (t+1)).valid = true ∧ (x (t+1)).data = (x t).data

/-- the producer obeys the law towards stage `S` -/
def Stage.LawIn {α β} (S : Stage α β) (env : Env α) : Prop := LawSig (fun t => (env t).inp) (S.rin env)
/-- stage `S` obeys the law towards the consumer -/
def Stage.LawOut {α β} (S : Stage α β) (env : Env α) : Prop := LawSig (S.out env) (fun t => (env t).rdy)

/-- fair readiness. `strong = true`: ready infinitely often, unconditionally.
    `strong = false`: ready may wait for valid — infinitely often the stream is *not stuck* (ready, or nothing offered). -/
def Fair {α : Type} (strong : Bool) (x : Nat → Fwd α) (r : Nat → Bool) : Prop :=
  ∀ t, ∃ t', t ≤ t' ∧ (r t' = true ∨ (strong = false ∧ (x t').valid = false))

def Stage.FairDown {α β} (S : Stage α β) (strong : Bool) (env : Env α) : Prop := Fair strong (S.out env) (fun t => (env t).rdy)
def Stage.FairUp {α β} (S : Stage α β) (strong : Bool) (env : Env α) : Prop := Fair strong (fun t => (env t).inp) (S.rin env)

/-! ### list specifications as transducers -/

structure Trans (α β : Type) where
  τ : Type
  init : τ
  step : τ → α → τ × List β

namespace Trans
variable {α β γ : Type}

def runFrom (T : Trans α β) (s : T.τ) : List α → List β
  | [] => []
  | x :: xs => (T.step s x).2 ++ runFrom T (T.step s x).1 xs

def after (T : Trans α β) (s : T.τ) : List α → T.τ
  | [] => s
  | x :: xs => after T (T.step s x).1 xs

/-- the output sequence the specification prescribes for the accepted input sequence `l` -/
def run (T : Trans α β) (l : List α) : List β := T.runFrom T.init l

/-- 1:1 stages: the same beats in the same order -/
@[reducible] def idT : Trans α α := ⟨Unit, (), fun _ x => ((), [x])⟩

/-- width reduction: every beat is replaced by the list `g x` of its parts -/
@[reducible] def expandT (g : α → List β) : Trans α β := ⟨Unit, (), fun _ x => ((), g x)⟩

/-- width extension: every `r` consecutive beats `c` (the last one being `x`) are replaced by the single beat `g c x` -/
@[reducible] def chunkT (r : Nat) (g : List α → α → β) : Trans α β :=
  ⟨List α, [], fun acc x => if acc.length + 1 == r then ([], [g (acc ++ [x]) x]) else (acc ++ [x], [])⟩

@[reducible] def comp (T : Trans α β) (U : Trans β γ) : Trans α γ :=
  ⟨T.τ × U.τ, (T.init, U.init), fun s x =>
    let r := T.step s.1 x
    ((r.1, U.after s.2 r.2), U.runFrom s.2 r.2)⟩

end Trans

/-- parts of a wide beat, first part first -/
def sliceAll {α β} (ratio : Nat) (slice : Nat → α → β) (x : α) : List β := (List.range ratio).map (fun i => slice i x)

/-- list specification of `extendWidth ratio`: beat `k` of the output is built from input beats `k·ratio … k·ratio+ratio-1`
    (data words in that order) and carries the meta signals of the last of them -/
@[reducible] def extSpec {α β δ} (ratio : Nat) (dataOf : α → δ) (mk : List δ → α → β) : Trans α β :=
  Trans.chunkT ratio (fun c x => mk (c.map dataOf) x)

/-- list specification of `reduceWidth ratio` -/
@[reducible] def redSpec {α β} (ratio : Nat) (slice : Nat → α → β) : Trans α β := Trans.expandT (sliceAll ratio slice)

/-- parts `i, i+1, …` of one wide beat up to and including the first final one (at most `fuel` of them) -/
def partsFrom {α β} (slice : Nat → α → β) (fin : Nat → α → Bool) (x : α) : Nat → Nat → List β
  | 0, _ => []
  | fuel+1, i => slice i x :: (if fin i x then [] else partsFrom slice fin x fuel (i+1))

/-- list specification of the packet `widthReduce`: every accepted beat is replaced by its parts up to the one that ends it -/
@[reducible] def pRedSpec {α β} (ratio : Nat) (slice : Nat → α → β) (fin : Nat → α → Bool) : Trans α β :=
  Trans.expandT (fun x => partsFrom slice fin x ratio 0)

/-- list specification of the packet `widthExtend`: accepted beats are collected into groups that end after `ratio` beats or
    at an eop beat; a group gives one output beat: its data/byte-enable words in their slots (slots the group does not reach
    keep the words of earlier groups), sop = some beat of the group had sop, empty = start − (len−1)·step + empty of the
    last beat, every other meta signal from the group's last beat -/
def pExtSpec {α β δ} (ratio : Nat) (d0 : δ) (slotOf : α → δ) (isEop isSop : α → Bool) (empOf : α → Nat)
    (start step emod : Nat) (mk : List δ → Bool → Nat → α → β) : Trans α β :=
  ⟨PExtS δ, ⟨0, List.replicate ratio d0, false, start⟩, fun s x =>
    let fin := (s.cnt + 1 == ratio) || isEop x
    let slots := s.slots.set s.cnt (slotOf x)
    if fin then (⟨0, slots, false, start⟩, [mk slots (s.sopF || isSop x) ((s.empR + empOf x) % emod) x])
    else (⟨s.cnt + 1, slots, s.sopF || isSop x, (s.empR + emod - step % emod) % emod⟩, [])⟩

/-! ### what "the stage preserves the transfer sequence" means -/

/-- environment seen by `A` inside `comp A B` -/
def envA {α β γ} (A : Stage α β) (B : Stage β γ) (env : Env α) : Env α := fun t =>
  ⟨(env t).ctl, (env t).inp, B.bwd ((comp A B).state env t).2 ((env t).ctl.shift A.nctl)
    (A.fwd ((comp A B).state env t).1 (env t).ctl (env t).inp) (env t).rdy⟩
/-- environment seen by `B` inside `comp A B` -/
def envB {α β γ} (A : Stage α β) (B : Stage β γ) (env : Env α) : Env β := fun t =>
  ⟨(env t).ctl.shift A.nctl, A.fwd ((comp A B).state env t).1 (env t).ctl (env t).inp, (env t).rdy⟩

/-- **Safety half.**  `S` implements the list specification `T` for every environment that obeys the law on the input
    and satisfies the side condition `ok` on the control inputs:
    * `safe`: at every time, *everything emitted so far plus the beat currently offered at the output* is a prefix of the
      specified image of *everything accepted so far plus the beat currently offered at the input* — beats come out in
      order, unchanged, at most once, and nothing comes out that was not accepted (or is being offered and, by the law,
      can no longer be withdrawn — `reduceWidth` and the combinational stages hand such a beat on early);
    * `law`: the output obeys the interface law. -/
structure Good {α β : Type} (S : Stage α β) (T : Trans α β) (ok : Env α → Prop) : Prop where
  safe : ∀ env, S.LawIn env → ok env → ∀ t,
    (S.outs env t ++ (S.out env t).off) <+: T.run (S.ins env t ++ (env t).inp.off)
  law : ∀ env, S.LawIn env → ok env → S.LawOut env

/-- **Liveness half.**  Under fair readiness of the consumer (`dn` = strength needed) every accepted beat is eventually
    emitted (so together with `Good.safe`: exactly once), and the stage is itself a fair consumer (`up` = strength provided). -/
structure Live {α β : Type} (S : Stage α β) (T : Trans α β) (ok : Env α → Prop) (dn up : Bool) : Prop where
  deliver : ∀ env, S.LawIn env → ok env → S.FairDown dn env → ∀ t, ∃ t', t ≤ t' ∧ T.run (S.ins env t) <+: S.outs env t'
  fairUp : ∀ env, S.LawIn env → ok env → S.FairDown dn env → S.FairUp up env

/-- no side condition -/
def okTrue {α : Type} : Env α → Prop := fun _ => True

/-- side condition of `comp A B`: `A`'s condition on what `A` sees, `B`'s on what `B` sees -/
def okComp {α β γ} (A : Stage α β) (B : Stage β γ) (okA : Env α → Prop) (okB : Env β → Prop) : Env α → Prop :=
  fun env => okA (envA A B env) ∧ okB (envB A B env)

/-- `stall` keeps the law on its output only if the stall condition does not rise while a beat is offered and not taken. -/
def stallOk {α : Type} : Env α → Prop := fun env =>
  ∀ t, (env t).inp.valid = true → (env t).ctl 0 = false → (env t).rdy = false → (env (t+1)).ctl 0 = false

/-- `stall` is live only if "not stalled" and "consumer ready" coincide again and again. -/
def stallFair {α : Type} (strong : Bool) : Env α → Prop := fun env =>
  ∀ t, ∃ t', t ≤ t' ∧ (((env t').rdy = true ∧ (env t').ctl 0 = false) ∨ (strong = false ∧ (env t').inp.valid = false))

end Gatery.C16
