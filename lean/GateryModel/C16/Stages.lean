import GateryModel.C16.Lemmas
/-!
# C16 — the individual stages implement their list specification (safety + output law)
-/
namespace Gatery.C16

theorem Good.weaken {α β} {S : Stage α β} {T : Trans α β} {ok ok' : Env α → Prop}
    (g : Good S T ok) (h : ∀ env, ok' env → ok env) : Good S T ok' where
  safe := fun env hl hok t => g.safe env hl (h env hok) t
  law := fun env hl hok => g.law env hl (h env hok)

def noStep {α : Type} : Ctl → Fwd α → Bool → Ctl → Prop := fun _ _ _ _ => True

theorem okOfStep_noStep {α : Type} (env : Env α) : okOfStep (noStep (α := α)) env := fun _ => trivial

/-! ### registers -/

def qRegDownstream {α} (d0 : α) : QStep (regDownstream d0) noStep where
  inv := fun _ => True
  pend := fun s => beatIf s.v s.d
  init_inv := trivial
  init_pend := rfl
  step_inv := fun _ _ _ _ _ => trivial
  offer := fun s c x _ => List.prefix_append _ _
  move := fun s c x r _ => by
    rcases s with ⟨v, d⟩; rcases x with ⟨xv, xd⟩
    cases v <;> cases r <;> cases xv <;> simp [regDownstream, beatIf]
  hold := fun s c x r c' x' _ _ hv hr _ => by
    rcases s with ⟨v, d⟩
    simp only [regDownstream] at hv ⊢
    subst hr; subst hv
    simp

def qRegDownstreamBlocking {α} (d0 : α) : QStep (regDownstreamBlocking d0) noStep where
  inv := fun _ => True
  pend := fun s => beatIf s.v s.d
  init_inv := trivial
  init_pend := rfl
  step_inv := fun _ _ _ _ _ => trivial
  offer := fun s c x _ => List.prefix_append _ _
  move := fun s c x r _ => by
    rcases s with ⟨v, d⟩; rcases x with ⟨xv, xd⟩
    cases v <;> cases r <;> cases xv <;> simp [regDownstreamBlocking, beatIf]
  hold := fun s c x r c' x' _ _ hv hr _ => by
    rcases s with ⟨v, d⟩
    simp only [regDownstreamBlocking] at hv ⊢
    subst hr; subst hv
    simp

def qRegReady {α} (d0 : α) : QStep (regReady d0) noStep where
  inv := fun _ => True
  pend := fun s => beatIf s.v s.d
  init_inv := trivial
  init_pend := rfl
  step_inv := fun _ _ _ _ _ => trivial
  offer := fun s c x _ => by
    rcases s with ⟨v, d⟩; rcases x with ⟨xv, xd⟩
    cases v <;> cases xv <;> simp [regReady, beatIf, Fwd.off]
  move := fun s c x r _ => by
    rcases s with ⟨v, d⟩; rcases x with ⟨xv, xd⟩
    cases v <;> cases r <;> cases xv <;> simp [regReady, beatIf]
  hold := fun s c x r c' x' _ _ hv hr _ => by
    rcases s with ⟨v, d⟩; rcases x with ⟨xv, xd⟩
    subst hr
    cases v <;> simp [regReady] at hv ⊢
    subst hv; simp

def stallStep {α : Type} : Ctl → Fwd α → Bool → Ctl → Prop :=
  fun c x r c' => x.valid = true → c 0 = false → r = false → c' 0 = false

theorem okOfStep_stall {α : Type} (env : Env α) : okOfStep (stallStep (α := α)) env ↔ stallOk env := Iff.rfl

def qStall {α} : QStep (stall (α := α)) stallStep where
  inv := fun _ => True
  pend := fun _ => []
  init_inv := trivial
  init_pend := rfl
  step_inv := fun _ _ _ _ _ => trivial
  offer := fun s c x _ => by
    rcases x with ⟨xv, xd⟩
    simp only [stall, Fwd.off]
    generalize c 0 = b
    cases xv <;> cases b <;> simp [beatIf]
  move := fun s c x r _ => by
    rcases x with ⟨xv, xd⟩
    cases xv <;> cases r <;> cases c 0 <;> simp [stall, beatIf]
  hold := fun s c x r c' x' _ hok hv hr hl => by
    simp only [stall, Bool.and_eq_true, Bool.not_eq_true'] at hv ⊢
    have h1 := hl hv.1 (by simp [stall, hr])
    have h2 := hok hv.1 hv.2 hr
    simp [h1.1, h1.2, h2]

def qWire {α} : QStep (wire (α := α)) noStep where
  inv := fun _ => True
  pend := fun _ => []
  init_inv := trivial
  init_pend := rfl
  step_inv := fun _ _ _ _ _ => trivial
  offer := fun s c x _ => by simp [wire]
  move := fun s c x r _ => by
    rcases x with ⟨xv, xd⟩
    cases xv <;> cases r <;> simp [wire, beatIf]
  hold := fun s c x r c' x' _ _ hv hr hl => by
    simp only [wire] at hv ⊢
    exact hl hv (by simp [wire, hr])

theorem good_regDownstream {α} (d0 : α) : Good (regDownstream d0) Trans.idT okTrue :=
  (qRegDownstream d0).good.weaken fun env _ => okOfStep_noStep env
theorem good_regDownstreamBlocking {α} (d0 : α) : Good (regDownstreamBlocking d0) Trans.idT okTrue :=
  (qRegDownstreamBlocking d0).good.weaken fun env _ => okOfStep_noStep env
theorem good_regReady {α} (d0 : α) : Good (regReady d0) Trans.idT okTrue :=
  (qRegReady d0).good.weaken fun env _ => okOfStep_noStep env
theorem good_wire {α} : Good (wire (α := α)) Trans.idT okTrue :=
  qWire.good.weaken fun env _ => okOfStep_noStep env
theorem good_stall {α} : Good (stall (α := α)) Trans.idT stallOk :=
  qStall.good.weaken fun env h => (okOfStep_stall env).2 h

/-- `stall` preserves the transfer sequence for *every* stall pattern (only its output law needs `stallOk`) -/
theorem stall_safe_any {α} (env : Env α) (t : Nat) :
    (stall (α := α)).outs env t ++ ((stall (α := α)).out env t).off <+: (stall (α := α)).ins env t ++ (env t).inp.off :=
  qStall.safe env t

end Gatery.C16
