import GateryModel.C16.Stages
/-!
# C16 — `extendWidth` and `reduceWidth` implement their list specifications
-/
namespace Gatery.C16

theorem map_range_prefix {β} (f : Nat → β) {n m : Nat} (h : n ≤ m) : (List.range n).map f <+: (List.range m).map f := by
  obtain ⟨k, rfl⟩ := Nat.exists_eq_add_of_le h
  rw [List.range_add, List.map_append]; exact List.prefix_append _ _

/-! ### extendWidth -/
section Ext
variable {α β δ : Type} (ratio : Nat) (d0 : δ) (dataOf : α → δ) (mk : List δ → α → β)

/-- counter = length of the incomplete group; the newest `cnt` slots of the shift register hold its data words -/
def ExtJ (s : ExtS δ) (acc : List α) : Prop :=
  s.cnt = acc.length ∧ s.cnt < ratio ∧ s.slots.length = ratio ∧ s.slots.drop (ratio - s.cnt) = acc.map dataOf

def tExtendWidth (hr : 0 < ratio) : TStep (extendWidth ratio d0 dataOf mk) (extSpec ratio dataOf mk) where
  J := fun s acc _ => ExtJ ratio dataOf s acc
  ahead := fun _ _ => []
  init_J := fun _ => ⟨rfl, hr, by simp, by simp⟩
  init_ahead := fun _ => rfl
  step_J := fun s acc c x r x' hJ _ => by
    rcases s with ⟨cnt, slots⟩; rcases x with ⟨xv, xd⟩
    obtain ⟨hc, hlt, hlen, hsl⟩ := hJ
    show ExtJ ratio dataOf _ _
    dsimp only [extendWidth, extSpec, Trans.chunkT] at hc hlt hlen hsl ⊢
    subst hc
    have hlen' : (List.drop 1 slots ++ [dataOf xd]).length = ratio := by
      simp only [List.length_append, List.length_drop, List.length_cons, List.length_nil, hlen]; omega
    by_cases hlast : (acc.length + 1 == ratio) = true
    · have hfull : List.drop (ratio - 0) (List.drop 1 slots ++ [dataOf xd]) = List.map dataOf ([] : List α) := by
        apply List.drop_eq_nil_of_le; omega
      cases xv <;> cases r <;> simp only [hlast, Bool.not_true, Bool.or_false, Bool.or_true, Bool.and_true, Bool.and_false,
        Bool.true_and, Bool.false_and, Bool.false_eq_true, ↓reduceIte]
      · exact ⟨rfl, hlt, hlen, hsl⟩
      · exact ⟨rfl, hlt, hlen, hsl⟩
      · exact ⟨rfl, hlt, hlen, hsl⟩
      · exact ⟨rfl, hr, hlen', hfull⟩
    · have hlast' : (acc.length + 1 == ratio) = false := by simpa using hlast
      have hne : acc.length + 1 ≠ ratio := by simpa using hlast'
      have hsh : List.drop (ratio - (acc.length + 1)) (List.drop 1 slots ++ [dataOf xd]) = List.map dataOf (acc ++ [xd]) := by
        rw [List.drop_append, List.drop_drop, List.map_append, ← hsl]
        have e1 : 1 + (ratio - (acc.length + 1)) = ratio - acc.length := by omega
        have e2 : ratio - (acc.length + 1) - (List.drop 1 slots).length = 0 := by
          simp only [List.length_drop, hlen]; omega
        rw [e1, e2]; rfl
      cases xv <;> simp only [hlast', Bool.not_false, Bool.or_true, Bool.and_true, Bool.true_and, Bool.false_and,
        Bool.false_eq_true, ↓reduceIte]
      · exact ⟨rfl, hlt, hlen, hsl⟩
      · exact ⟨by simp, by show acc.length + 1 < ratio; omega, hlen', hsh⟩
  move := fun s acc c x r x' hJ _ => by
    rcases s with ⟨cnt, slots⟩; rcases x with ⟨xv, xd⟩
    obtain ⟨hc, hlt, hlen, hsl⟩ := hJ
    simp only at hc hlt hlen hsl
    subst hc
    by_cases hlast : (acc.length + 1 == ratio) = true
    · have hd1 : ratio - acc.length = 1 := by simp at hlast; omega
      rw [hd1] at hsl
      cases xv <;> cases r <;> simp [hlast, beatIf, hsl]
    · have hlast' : (acc.length + 1 == ratio) = false := by simpa using hlast
      cases xv <;> cases r <;> simp [hlast', beatIf]
  offer := fun s acc c x hJ => by
    rcases s with ⟨cnt, slots⟩; rcases x with ⟨xv, xd⟩
    obtain ⟨hc, hlt, hlen, hsl⟩ := hJ
    simp only at hc hlt hlen hsl
    subst hc
    by_cases hlast : (acc.length + 1 == ratio) = true
    · have hd1 : ratio - acc.length = 1 := by simp at hlast; omega
      rw [hd1] at hsl
      cases xv <;> simp [hlast, beatIf, Fwd.off, hsl]
    · have hlast' : (acc.length + 1 == ratio) = false := by simpa using hlast
      cases xv <;> simp [hlast', beatIf, Fwd.off]
  hold := fun s acc c x r c' x' hJ hv hr' hl => by
    rcases s with ⟨cnt, slots⟩; rcases x with ⟨xv, xd⟩; rcases x' with ⟨xv', xd'⟩
    simp only [Bool.and_eq_true] at hv
    subst hr'
    have hin := hl hv.2 (by simp [hv.1])
    simp only at hin
    simp [hv.1, hv.2, hin.1, hin.2]

theorem good_extendWidth (hr : 0 < ratio) :
    Good (extendWidth ratio d0 dataOf mk) (extSpec ratio dataOf mk) okTrue :=
  (tExtendWidth ratio d0 dataOf mk hr).good

end Ext

/-! ### reduceWidth -/
section Red
variable {α β : Type} (ratio : Nat) (slice : Nat → α → β)

/-- the counter is the number of parts of the *currently offered* wide beat that are already out;
    it can only be non-zero while that beat is offered (the counter is reset whenever valid is low) -/
def tReduceWidth (hr : 0 < ratio) : TStep (reduceWidth ratio slice) (redSpec ratio slice) where
  J := fun (s : Nat) _ x => s < ratio ∧ (0 < s → x.valid = true)
  ahead := fun (s : Nat) x => (List.range s).map (fun i => slice i x.data)
  init_J := fun _ => ⟨hr, fun h => absurd h (Nat.lt_irrefl 0)⟩
  init_ahead := fun _ => rfl
  step_J := fun (s : Nat) _ c x r x' hJ hl => by
    rcases x with ⟨xv, xd⟩
    obtain ⟨hlt, hvld⟩ := hJ
    simp only at hvld hl ⊢
    cases xv
    · simp only [Bool.not_false, ↓reduceIte]; exact ⟨hr, fun h => absurd h (Nat.lt_irrefl 0)⟩
    · cases r
      · have := hl rfl (by simp)
        simp only [Bool.not_true, Bool.false_eq_true, ↓reduceIte]; exact ⟨hlt, fun _ => this.1⟩
      · by_cases hlast : (s + 1 == ratio) = true
        · simp only [Bool.not_true, Bool.false_eq_true, ↓reduceIte, hlast]; exact ⟨hr, fun h => absurd h (Nat.lt_irrefl 0)⟩
        · have hlast' : (s + 1 == ratio) = false := by simpa using hlast
          have hne : s + 1 ≠ ratio := by simpa using hlast'
          have := hl rfl (by simp [hlast'])
          simp only [Bool.not_true, Bool.false_eq_true, ↓reduceIte, hlast']
          exact ⟨by omega, fun _ => this.1⟩
  move := fun (s : Nat) _ c x r x' hJ hl => by
    rcases x with ⟨xv, xd⟩
    obtain ⟨hlt, hvld⟩ := hJ
    simp only at hvld hl ⊢
    cases xv
    · have hs0 : s = 0 := by
        cases s with
        | zero => rfl
        | succ n => exact absurd (hvld (Nat.succ_pos n)) (by simp)
      subst hs0; simp [beatIf]
    · cases r
      · have := hl rfl (by simp)
        simp [beatIf, this.2]
      · by_cases hlast : (s + 1 == ratio) = true
        · have : ratio = s + 1 := by simp at hlast; omega
          simp [hlast, beatIf, sliceAll, this, List.range_succ]
        · have hlast' : (s + 1 == ratio) = false := by simpa using hlast
          have := hl rfl (by simp [hlast'])
          simp [hlast', beatIf, List.range_succ, this.2]
  offer := fun (s : Nat) _ c x hJ => by
    rcases x with ⟨xv, xd⟩
    obtain ⟨hlt, hvld⟩ := hJ
    simp only at hvld ⊢
    cases xv
    · have hs0 : s = 0 := by
        cases s with
        | zero => rfl
        | succ n => exact absurd (hvld (Nat.succ_pos n)) (by simp)
      subst hs0; simp [Fwd.off, beatIf]
    · simp only [Fwd.off, beatIf, ↓reduceIte, sliceAll]
      have := map_range_prefix (fun i => slice i xd) (Nat.succ_le_of_lt hlt)
      rwa [List.range_succ, List.map_append] at this
  hold := fun (s : Nat) _ c x r c' x' hJ hv hr' hl => by
    rcases x with ⟨xv, xd⟩; rcases x' with ⟨xv', xd'⟩
    simp only at hv
    subst hr'; subst hv
    have hin := hl rfl (by simp)
    simp only at hin
    simp [hin.1, hin.2]

theorem good_reduceWidth (hr : 0 < ratio) :
    Good (reduceWidth ratio slice) (redSpec ratio slice) okTrue :=
  (tReduceWidth ratio slice hr).good

end Red

end Gatery.C16
