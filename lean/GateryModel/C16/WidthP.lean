import GateryModel.C16.Width
/-!
# C16 — the packet-aware `widthReduce` (Packet.h) implements its list specification
-/
namespace Gatery.C16

section PRed
variable {α β : Type} (slice : Nat → α → β) (fin : Nat → α → Bool)

/-- the first `s` parts are not final: the parts of `x` are those `s` parts, part `s`, and — unless part `s` is final — the rest -/
theorem partsFrom_split (x : α) (s : Nat) : ∀ (fuel i : Nat), (∀ j, j < s → fin (i + j) x = false) → s < fuel →
    partsFrom slice fin x fuel i = (List.range s).map (fun j => slice (i + j) x) ++
      slice (i + s) x :: (if fin (i + s) x then [] else partsFrom slice fin x (fuel - s - 1) (i + s + 1)) := by
  induction s with
  | zero =>
    intro fuel i _ hf
    obtain ⟨f, rfl⟩ := Nat.exists_eq_succ_of_ne_zero (Nat.pos_iff_ne_zero.mp hf)
    simp [partsFrom]
  | succ s ih =>
    intro fuel i hnf hf
    obtain ⟨f, rfl⟩ := Nat.exists_eq_succ_of_ne_zero (Nat.pos_iff_ne_zero.mp (Nat.lt_of_le_of_lt (Nat.zero_le _) hf))
    have h0 : fin i x = false := by simpa using hnf 0 (Nat.succ_pos s)
    have ih' := ih f (i + 1) (fun j hj => by have := hnf (j + 1) (by omega); rwa [show i + (j + 1) = i + 1 + j by omega] at this) (by omega)
    simp only [partsFrom, h0, Bool.false_eq_true, ↓reduceIte]
    rw [ih', List.range_succ_eq_map, List.map_cons, List.map_map]
    simp only [Nat.add_zero, List.cons_append, Function.comp_def]
    have e1 : i + 1 + s = i + (s + 1) := by omega
    have e2 : f - s - 1 = f + 1 - (s + 1) - 1 := by omega
    have e3 : ∀ j, i + 1 + j = i + (j + 1) := fun j => by omega
    simp only [e1, e2, e3]

def tWidthReduceP (ratio : Nat) (hr : 0 < ratio) (hlast : ∀ x, fin (ratio - 1) x = true) :
    TStep (widthReduceP slice fin) (pRedSpec ratio slice fin) where
  J := fun (s : Nat) _ x => s < ratio ∧ (0 < s → x.valid = true) ∧ (∀ j, j < s → fin j x.data = false)
  ahead := fun (s : Nat) x => (List.range s).map (fun j => slice j x.data)
  init_J := fun _ => ⟨hr, fun h => absurd h (Nat.lt_irrefl 0), fun j hj => absurd hj (Nat.not_lt_zero j)⟩
  init_ahead := fun _ => rfl
  step_J := fun (s : Nat) _ c x r x' hJ hl => by
    rcases x with ⟨xv, xd⟩
    obtain ⟨hlt, hvld, hnf⟩ := hJ
    simp only at hvld hl hnf ⊢
    have triv : 0 < ratio ∧ ((0:Nat) < 0 → x'.valid = true) ∧ ∀ j, j < 0 → fin j x'.data = false :=
      ⟨hr, fun h => absurd h (Nat.lt_irrefl 0), fun j hj => absurd hj (Nat.not_lt_zero j)⟩
    cases xv
    · have hs0 : s = 0 := by
        cases s with
        | zero => rfl
        | succ n => exact absurd (hvld (Nat.succ_pos n)) (by simp)
      subst hs0; simpa using triv
    · cases r
      · have h2 := hl rfl (by simp)
        simp only [Bool.and_false, Bool.false_eq_true, ↓reduceIte]
        exact ⟨hlt, fun _ => h2.1, fun j hj => by rw [h2.2]; exact hnf j hj⟩
      · cases hf : fin s xd
        · have h2 := hl rfl (by simp [hf])
          have hne : s ≠ ratio - 1 := fun h => by rw [h, hlast] at hf; cases hf
          simp only [Bool.and_self, ↓reduceIte, hf, Bool.false_eq_true]
          refine ⟨by omega, fun _ => h2.1, fun j hj => ?_⟩
          rw [h2.2]
          rcases Nat.lt_succ_iff_lt_or_eq.mp hj with h | h
          · exact hnf j h
          · rw [h]; exact hf
        · simpa [hf] using triv
  move := fun (s : Nat) _ c x r x' hJ hl => by
    rcases x with ⟨xv, xd⟩
    obtain ⟨hlt, hvld, hnf⟩ := hJ
    simp only at hvld hl hnf ⊢
    cases xv
    · have hs0 : s = 0 := by
        cases s with
        | zero => rfl
        | succ n => exact absurd (hvld (Nat.succ_pos n)) (by simp)
      subst hs0; simp [beatIf]
    · cases r
      · have h2 := hl rfl (by simp)
        simp [beatIf, h2.2]
      · cases hf : fin s xd
        · have h2 := hl rfl (by simp [hf])
          simp [hf, beatIf, List.range_succ, h2.2]
        · have hsp := partsFrom_split slice fin xd s ratio 0 (by simpa using hnf) hlt
          simp only [Nat.zero_add, hf, ↓reduceIte] at hsp
          have hstep : ∀ τ, ((pRedSpec ratio slice fin).step τ xd).2 = partsFrom slice fin xd ratio 0 := fun _ => rfl
          simp [hf, beatIf, hstep, hsp]
  offer := fun (s : Nat) _ c x hJ => by
    rcases x with ⟨xv, xd⟩
    obtain ⟨hlt, hvld, hnf⟩ := hJ
    simp only at hvld hnf ⊢
    cases xv
    · have hs0 : s = 0 := by
        cases s with
        | zero => rfl
        | succ n => exact absurd (hvld (Nat.succ_pos n)) (by simp)
      subst hs0; simp [Fwd.off, beatIf]
    · have hsp := partsFrom_split slice fin xd s ratio 0 (by simpa using hnf) hlt
      simp only [Nat.zero_add] at hsp
      have hstep : ∀ τ, ((pRedSpec ratio slice fin).step τ xd).2 = partsFrom slice fin xd ratio 0 := fun _ => rfl
      simp only [Fwd.off, beatIf, ↓reduceIte, hstep, hsp]
      refine (List.prefix_append_right_inj _).2 ?_
      simp
  hold := fun (s : Nat) _ c x r c' x' hJ hv hr' hl => by
    rcases x with ⟨xv, xd⟩; rcases x' with ⟨xv', xd'⟩
    simp only at hv
    subst hr'; subst hv
    have hin := hl rfl (by simp)
    simp only at hin
    simp [hin.1, hin.2]

/-- Packet.h `widthReduce` for every slice function whose last part is always final -/
theorem good_widthReduceP (ratio : Nat) (hr : 0 < ratio) (hlast : ∀ x, fin (ratio - 1) x = true) :
    Good (widthReduceP slice fin) (pRedSpec ratio slice fin) okTrue :=
  (tWidthReduceP slice fin ratio hr hlast).good

end PRed

/-- the concrete `pRedFin` ends every wide beat at the latest with its last part -/
theorem pRedFin_last (ratio w bw ek : Nat) (hr : 0 < ratio) (x : Beat) : pRedFin ratio w bw ek (ratio - 1) x = true := by
  simp [pRedFin]; left; omega

end Gatery.C16

namespace Gatery.C16

/-! ### the packet-aware `widthExtend` (Packet.h, with the repaired sop handler) -/
section PExt
variable {α β δ : Type} (ratio : Nat) (d0 : δ) (slotOf : α → δ) (isEop isSop : α → Bool) (empOf : α → Nat)
  (start step emod : Nat) (mk : List δ → Bool → Nat → α → β)

/-- the registers agree with the specification's state after the accepted beats, except for the slot the counter points
    at: the stage rewrites that slot in every cycle with whatever is at its input -/
def PExtJ (s τ : PExtS δ) : Prop :=
  s.cnt = τ.cnt ∧ s.sopF = τ.sopF ∧ s.empR = τ.empR ∧ ∀ d, s.slots.set s.cnt d = τ.slots.set s.cnt d

def tWidthExtendP : TStep (widthExtendP ratio d0 slotOf isEop isSop empOf start step emod mk)
    (pExtSpec ratio d0 slotOf isEop isSop empOf start step emod mk) where
  J := fun s τ _ => PExtJ s τ
  ahead := fun _ _ => []
  init_J := fun _ => ⟨rfl, rfl, rfl, fun _ => rfl⟩
  init_ahead := fun _ => rfl
  step_J := fun s τ c x r x' hJ _ => by
    rcases s with ⟨cnt, slots, sopF, empR⟩; rcases τ with ⟨cnt', slots', sopF', empR'⟩; rcases x with ⟨xv, xd⟩
    obtain ⟨h1, h2, h3, h4⟩ := hJ
    simp only at h1 h2 h3 h4
    subst h1; subst h2; subst h3
    show PExtJ _ _
    dsimp only [widthExtendP, pExtSpec]
    have hs := h4 (slotOf xd)
    rcases Bool.eq_false_or_eq_true ((cnt + 1 == ratio) || isEop xd) with hfin | hfin <;> cases xv <;> cases r <;>
      simp only [hfin, Bool.true_and, Bool.false_and, Bool.false_eq_true, ↓reduceIte, Bool.not_true, Bool.not_false, Bool.and_true, Bool.and_false] <;>
      refine ⟨rfl, rfl, rfl, fun d => ?_⟩ <;> simp only [List.set_set, hs, h4]
  move := fun s τ c x r x' hJ _ => by
    rcases s with ⟨cnt, slots, sopF, empR⟩; rcases τ with ⟨cnt', slots', sopF', empR'⟩; rcases x with ⟨xv, xd⟩
    obtain ⟨h1, h2, h3, h4⟩ := hJ
    simp only at h1 h2 h3 h4
    subst h1; subst h2; subst h3
    dsimp only [widthExtendP, pExtSpec]
    have hs := h4 (slotOf xd)
    rcases Bool.eq_false_or_eq_true ((cnt + 1 == ratio) || isEop xd) with hfin | hfin <;> cases xv <;> cases r <;> simp [hfin, beatIf, hs]
  offer := fun s τ c x hJ => by
    rcases s with ⟨cnt, slots, sopF, empR⟩; rcases τ with ⟨cnt', slots', sopF', empR'⟩; rcases x with ⟨xv, xd⟩
    obtain ⟨h1, h2, h3, h4⟩ := hJ
    simp only at h1 h2 h3 h4
    subst h1; subst h2; subst h3
    dsimp only [widthExtendP, pExtSpec]
    have hs := h4 (slotOf xd)
    rcases Bool.eq_false_or_eq_true ((cnt + 1 == ratio) || isEop xd) with hfin | hfin <;> cases xv <;> simp [hfin, beatIf, Fwd.off, hs]
  hold := fun s τ c x r c' x' hJ hv hr' hl => by
    rcases s with ⟨cnt, slots, sopF, empR⟩; rcases x with ⟨xv, xd⟩; rcases x' with ⟨xv', xd'⟩
    dsimp only [widthExtendP] at hv hl ⊢
    simp only [Bool.and_eq_true] at hv
    subst hr'
    have hin := hl hv.1 (by simp [hv.2])
    obtain ⟨h1, h2⟩ := hin
    have h1' : xv' = true := h1
    have h2' : xd' = xd := h2
    subst h1'; subst h2'
    simp [hv.1, hv.2, List.set_set]

/-- Packet.h `widthExtend` (repaired sop handler) implements its list specification for every ratio, slot content, eop/sop
    predicate and empty arithmetic: groups end after `ratio` beats or at eop, the wide beat carries sop iff a beat of its
    group does, and the output keeps the interface law (in particular sop is stable while the wide beat is offered) -/
theorem good_widthExtendP :
    Good (widthExtendP ratio d0 slotOf isEop isSop empOf start step emod mk)
      (pExtSpec ratio d0 slotOf isEop isSop empOf start step emod mk) okTrue :=
  (tWidthExtendP ratio d0 slotOf isEop isSop empOf start step emod mk).good

end PExt

end Gatery.C16

namespace Gatery.C16

/-! ### packet framing: sop exactly on the first beat after an eop -/

/-- `framedFrom inPkt l`: every beat of `l` carries sop iff it is the first of a packet (`inPkt` = the beat before was no eop) -/
def framedFrom : Bool → List Beat → Bool
  | _, [] => true
  | inPkt, b :: t => (b.sop == !inPkt) && framedFrom (!b.eop) t

section
variable (ratio w bw ek ew : Nat)

local notation "PX" => pExtSpec ratio ((0 : Nat), (0 : Nat)) extSlot Beat.eop Beat.sop Beat.emp (pExtStart ratio w ek) (emptyUnit ek w) (pExtMod ratio w ek ew) (pExtMk w bw)

/-- **widthExtend keeps packets framed**: if the accepted narrow beats are framed, so are the wide beats the specification
    prescribes (and by `widthExtend_preserves` the wide beats the stage emits are exactly those). Invariant: at a group
    boundary input and output are in the same framing state; inside a group the input is inside a packet and the
    collected sop flag says whether the output still owes a sop. -/
theorem pExt_framed_aux (l : List Beat) : ∀ (s : PExtS (Nat × Nat)) (p q : Bool),
    ((s.cnt = 0 ∧ q = p ∧ s.sopF = false) ∨ (0 < s.cnt ∧ p = true ∧ s.sopF = !q)) →
    framedFrom p l = true → framedFrom q (Trans.runFrom PX s l) = true := by
  induction l with
  | nil => intro s p q _ _; rfl
  | cons x t ih =>
    intro s p q hinv hf
    simp only [framedFrom, Bool.and_eq_true, beq_iff_eq] at hf
    obtain ⟨hsop, ht⟩ := hf
    simp only [Trans.runFrom]
    rcases Bool.eq_false_or_eq_true ((s.cnt + 1 == ratio) || x.eop) with hfin | hfin
    · -- the group ends with `x`
      have hstep : (PX).step s x = (⟨0, s.slots.set s.cnt (extSlot x), false, pExtStart ratio w ek⟩,
          [pExtMk w bw (s.slots.set s.cnt (extSlot x)) (s.sopF || x.sop) ((s.empR + x.emp) % pExtMod ratio w ek ew) x]) := by
        simp only [pExtSpec, hfin, ↓reduceIte]
      rw [hstep]
      simp only [List.singleton_append, framedFrom, Bool.and_eq_true, beq_iff_eq]
      refine ⟨?_, ih _ (!x.eop) (!x.eop) (Or.inl ⟨rfl, rfl, rfl⟩) (by simpa [pExtMk] using ht)⟩
      show (s.sopF || x.sop) = !q
      rcases hinv with ⟨_, hq, hs⟩ | ⟨_, hp, hs⟩
      · rw [hs, hsop, hq]; simp
      · rw [hs, hsop, hp]; simp
    · have hfin' : ((s.cnt + 1 == ratio) || x.eop) = false := hfin
      have heop : x.eop = false := by
        cases h : x.eop
        · rfl
        · rw [h] at hfin'; simp at hfin'
      have hstep : (PX).step s x = (⟨s.cnt + 1, s.slots.set s.cnt (extSlot x), s.sopF || x.sop,
          (s.empR + pExtMod ratio w ek ew - emptyUnit ek w % pExtMod ratio w ek ew) % pExtMod ratio w ek ew⟩, []) := by
        simp only [pExtSpec, hfin', Bool.false_eq_true, ↓reduceIte]
      rw [hstep]
      simp only [List.nil_append]
      refine ih _ (!x.eop) q (Or.inr ⟨Nat.succ_pos _, by simp [heop], ?_⟩) ht
      show (s.sopF || x.sop) = !q
      rcases hinv with ⟨_, hq, hs⟩ | ⟨_, hp, hs⟩
      · rw [hs, hsop, hq]; simp
      · rw [hs, hsop, hp]; simp

theorem pExt_framed (l : List Beat) (h : framedFrom false l = true) : framedFrom false (Trans.run PX l) = true :=
  pExt_framed_aux ratio w bw ek ew l _ false false (Or.inl ⟨rfl, rfl, rfl⟩) h

end

end Gatery.C16
