import GateryModel.C16.Width
/-!
# C16 — the packet-aware `widthReduce` (Packet.h) implements its list specification
-/
namespace Gatery.C16

section PRed
variable {α β : Type} (slice : Nat → α → β) (fin : Nat → α → Bool)

/-- the first `s` parts are not final: the parts of `x` are those `s` parts, part `s`, and — unless part `s` is final — the rest -/
theorem partsFrom_split (x : α) (s : Nat) : ∀ (fuel i : Nat), (∀ j, j < s → fin (i + j) x = false) → s < fuel →
    partsFrom slice fin x fuel i = (List.range s).map (fun j => slice (i + j) x) ++
      slice (i + s) x :: (if fin (i + s) x then [] else partsFrom slice fin x (fuel - s - 1) (i + s + 1)) := by
  induction s with
  | zero =>
    intro fuel i _ hf
    obtain ⟨f, rfl⟩ := Nat.exists_eq_succ_of_ne_zero (Nat.pos_iff_ne_zero.mp hf)
    simp [partsFrom]
  | succ s ih =>
    intro fuel i hnf hf
    obtain ⟨f, rfl⟩ := Nat.exists_eq_succ_of_ne_zero (Nat.pos_iff_ne_zero.mp (Nat.lt_of_le_of_lt (Nat.zero_le _) hf))
    have h0 : fin i x = false := by simpa using hnf 0 (Nat.succ_pos s)
    have ih' := ih f (i + 1) (fun j hj => by have := hnf (j + 1) (by omega); rwa [show i + (j + 1) = i + 1 + j by omega] at this) (by omega)
    simp only [partsFrom, h0, Bool.false_eq_true, ↓reduceIte]
    rw [ih', List.range_succ_eq_map, List.map_cons, List.map_map]
    simp only [Nat.add_zero, List.cons_append, Function.comp_def]
    have e1 : i + 1 + s = i + (s + 1) := by omega
    have e2 : f - s - 1 = f + 1 - (s + 1) - 1 := by omega
    have e3 : ∀ j, i + 1 + j = i + (j + 1) := fun j => by omega
    simp only [e1, e2, e3]

def tWidthReduceP (ratio : Nat) (hr : 0 < ratio) (hlast : ∀ x, fin (ratio - 1) x = true) :
    TStep (widthReduceP slice fin) (pRedSpec ratio slice fin) where
  J := fun (s : Nat) _ x => s < ratio ∧ (0 < s → x.valid = true) ∧ (∀ j, j < s → fin j x.data = false)
  ahead := fun (s : Nat) x => (List.range s).map (fun j => slice j x.data)
  init_J := fun _ => ⟨hr, fun h => absurd h (Nat.lt_irrefl 0), fun j hj => absurd hj (Nat.not_lt_zero j)⟩
  init_ahead := fun _ => rfl
  step_J := fun (s : Nat) _ c x r x' hJ hl => by
    rcases x with ⟨xv, xd⟩
    obtain ⟨hlt, hvld, hnf⟩ := hJ
    simp only at hvld hl hnf ⊢
    have triv : 0 < ratio ∧ ((0:Nat) < 0 → x'.valid = true) ∧ ∀ j, j < 0 → fin j x'.data = false :=
      ⟨hr, fun h => absurd h (Nat.lt_irrefl 0), fun j hj => absurd hj (Nat.not_lt_zero j)⟩
    cases xv
    · have hs0 : s = 0 := by
        cases s with
        | zero => rfl
        | succ n => exact absurd (hvld (Nat.succ_pos n)) (by simp)
      subst hs0; simpa using triv
    · cases r
      · have h2 := hl rfl (by simp)
        simp only [Bool.and_false, Bool.false_eq_true, ↓reduceIte]
        exact ⟨hlt, fun _ => h2.1, fun j hj => by rw [h2.2]; exact hnf j hj⟩
      · cases hf : fin s xd
        · have h2 := hl rfl (by simp [hf])
          have hne : s ≠ ratio - 1 := fun h => by rw [h, hlast] at hf; cases hf
          simp only [Bool.and_self, ↓reduceIte, hf, Bool.false_eq_true]
          refine ⟨by omega, fun _ => h2.1, fun j hj => ?_⟩
          rw [h2.2]
          rcases Nat.lt_succ_iff_lt_or_eq.mp hj with h | h
          · exact hnf j h
          · rw [h]; exact hf
        · simpa [hf] using triv
  move := fun (s : Nat) _ c x r x' hJ hl => by
    rcases x with ⟨xv, xd⟩
    obtain ⟨hlt, hvld, hnf⟩ := hJ
    simp only at hvld hl hnf ⊢
    cases xv
    · have hs0 : s = 0 := by
        cases s with
        | zero => rfl
        | succ n => exact absurd (hvld (Nat.succ_pos n)) (by simp)
      subst hs0; simp [beatIf]
    · cases r
      · have h2 := hl rfl (by simp)
        simp [beatIf, h2.2]
      · cases hf : fin s xd
        · have h2 := hl rfl (by simp [hf])
          simp [hf, beatIf, List.range_succ, h2.2]
        · have hsp := partsFrom_split slice fin xd s ratio 0 (by simpa using hnf) hlt
          simp only [Nat.zero_add, hf, ↓reduceIte] at hsp
          have hstep : ∀ τ, ((pRedSpec ratio slice fin).step τ xd).2 = partsFrom slice fin xd ratio 0 := fun _ => rfl
          simp [hf, beatIf, hstep, hsp]
  offer := fun (s : Nat) _ c x hJ => by
    rcases x with ⟨xv, xd⟩
    obtain ⟨hlt, hvld, hnf⟩ := hJ
    simp only at hvld hnf ⊢
    cases xv
    · have hs0 : s = 0 := by
        cases s with
        | zero => rfl
        | succ n => exact absurd (hvld (Nat.succ_pos n)) (by simp)
      subst hs0; simp [Fwd.off, beatIf]
    · have hsp := partsFrom_split slice fin xd s ratio 0 (by simpa using hnf) hlt
      simp only [Nat.zero_add] at hsp
      have hstep : ∀ τ, ((pRedSpec ratio slice fin).step τ xd).2 = partsFrom slice fin xd ratio 0 := fun _ => rfl
      simp only [Fwd.off, beatIf, ↓reduceIte, hstep, hsp]
      refine (List.prefix_append_right_inj _).2 ?_
      simp
  hold := fun (s : Nat) _ c x r c' x' hJ hv hr' hl => by
    rcases x with ⟨xv, xd⟩; rcases x' with ⟨xv', xd'⟩
    simp only at hv
    subst hr'; subst hv
    have hin := hl rfl (by simp)
    simp only at hin
    simp [hin.1, hin.2]

/-- Packet.h `widthReduce` for every slice function whose last part is always final -/
theorem good_widthReduceP (ratio : Nat) (hr : 0 < ratio) (hlast : ∀ x, fin (ratio - 1) x = true) :
    Good (widthReduceP slice fin) (pRedSpec ratio slice fin) okTrue :=
  (tWidthReduceP slice fin ratio hr hlast).good

end PRed

/-- the concrete `pRedFin` ends every wide beat at the latest with its last part -/
theorem pRedFin_last (ratio w bw ek : Nat) (hr : 0 < ratio) (x : Beat) : pRedFin ratio w bw ek (ratio - 1) x = true := by
  simp [pRedFin]; left; omega

end Gatery.C16
