import GateryModel.C17.Model
/-!
# C17 — the generators as they were before the fixes ff2206d, 7605865, 5569e92, b9353d8 (gatery up to 553e604)

Kept only for the *historical witness theorems* in `Properties/C17.lean`: these definitions are NOT the model of the current
code and are not used by the driver.  Each one differs from its counterpart in `Model.lean` exactly by the repaired line.
-/
namespace Gatery.C17.Historic
open Gatery.C17

/-- before ff2206d: `lt(l, r) = (l - r).sign()` in `w` bits (frontend/SignalCompareOp.cpp:40-45) -/
def subSign (w x y : Nat) : Bool := ((x + 2 ^ w - y) % 2 ^ w).testBit (w - 1)
def minS (w a b : Nat) : Nat := if subSign w b a then b else a
def maxS (w a b : Nat) : Nat := if subSign w a b then b else a

/-- before 7605865: `UInt candidate = 1 << i` is an `int` shift, negative for `i = 31`: the generator threw for widths ≥ 32 -/
def biggestPowerOfTwo (w v : Nat) : Option Nat := if w ≥ 32 then none else some (bptGo v w 0)

/-- before 5569e92: `IF(inc) IF(!isLast) inc(); IF(dec) IF(!isFirst) dec();` — gated independently -/
def counterUpDownStep (w resetValue v : Nat) (inc dec reset : Bool) : CounterOut :=
  let e := endM1 w (2 ^ w)
  counterStep (counterCfgOfWidth w false) v ⟨inc && !(v == e), dec && !(v == 0), reset, resetValue % 2 ^ w, e⟩

/-- before b9353d8: the chunks were passed to the recursion unpadded, a short last chunk had fewer register levels -/
def peTreeReg (bps : Nat) : (fuel : Nat) → (hist : Nat → List Bool) → (t : Nat) → Option PEOut
  | 0, _, _ => none
  | fuel+1, hist, t =>
    let n := (hist t).length
    let stepBits := 2 ^ bps
    let per := nextPow2 ((n + stepBits - 1) / stepBits)
    if per ≤ 1 then some (priorityEncoder (hist t))
    else
      let m := (chunks per n (hist t)).length
      match mapOpt (fun i => peTreeReg bps fuel (fun s => (chunks per n (hist s)).getD i []) (t - 1)) (List.range m) with
      | none => none
      | some lower => some (treeCombine bps per lower)

end Gatery.C17.Historic
