import GateryModel.C17.LemmasGray
/-!
Helper lemmas for C17: long division (loop invariant), carry-save adders, counters.
-/
namespace Gatery.C17
open Spec

/-! ### long division -/

/-- what one loop iteration does, in arithmetic terms, when the partial remainder satisfies the invariant
`rem < d · 2^(j+1)`: compare with `d · 2^j`, subtract if not smaller, record the quotient bit -/
theorem divStep_eq (dw d j q rem : Nat) (hd : d < 2 ^ dw) (hrem : rem < d * 2 ^ (j + 1)) :
    divStep dw d j (q, rem) = if d * 2 ^ j ≤ rem then (q ||| 2 ^ j, rem - d * 2 ^ j) else (q, rem) := by
  have hP : 0 < 2 ^ j := Nat.two_pow_pos j
  have hS : 2 ^ (dw + 1) = 2 * 2 ^ dw := by rw [Nat.pow_succ]; omega
  have hPS : 2 ^ (j + (dw + 1)) = 2 ^ j * 2 ^ (dw + 1) := Nat.pow_add ..
  have hj1 : 2 ^ (j + 1) = 2 * 2 ^ j := by rw [Nat.pow_succ]; omega
  -- split rem at bit j
  have hsplit : rem = 2 ^ j * (rem / 2 ^ j) + rem % 2 ^ j := (Nat.div_add_mod rem (2 ^ j)).symm
  have hb : rem % 2 ^ j < 2 ^ j := Nat.mod_lt _ hP
  -- the part above the working slice is empty
  have hdP : d * 2 ^ (j + 1) ≤ 2 ^ dw * 2 ^ (j + 1) := Nat.mul_le_mul_right _ (Nat.le_of_lt hd)
  have hremlt : rem < 2 ^ (j + (dw + 1)) := by
    rw [hPS, hS]; rw [hj1] at hdP hrem
    have : 2 ^ dw * (2 * 2 ^ j) = 2 ^ j * (2 * 2 ^ dw) := by ac_rfl
    omega
  have hhigh : rem >>> (j + (dw + 1)) = 0 := Nat.shiftRight_eq_zero _ _ hremlt
  have ha : rem / 2 ^ j < 2 ^ (dw + 1) := by
    rw [Nat.div_lt_iff_lt_mul hP, Nat.mul_comm, ← hPS]; exact hremlt
  -- comparison of the slice with d is the comparison of rem with d·2^j
  have hcmp : d ≤ rem / 2 ^ j ↔ d * 2 ^ j ≤ rem := Nat.le_div_iff_mul_le hP
  simp only [divStep, Nat.shiftRight_eq_div_pow, Nat.mod_eq_of_lt ha, hhigh,
    Nat.zero_mul, Nat.add_zero, ge_iff_le]
  by_cases hc : d * 2 ^ j ≤ rem
  · have hc' : d ≤ rem / 2 ^ j := hcmp.mpr hc
    simp only [hc, hc', decide_true, if_true]
    have hdlt : d < 2 ^ (dw + 1) := by omega
    have e1 : (rem / 2 ^ j + 2 ^ (dw + 1) - d) % 2 ^ (dw + 1) = rem / 2 ^ j - d := by
      rw [show rem / 2 ^ j + 2 ^ (dw + 1) - d = (rem / 2 ^ j - d) + 2 ^ (dw + 1) by omega, Nat.add_mod_right,
        Nat.mod_eq_of_lt (by omega)]
    rw [e1, Nat.sub_mul]
    congr 1
    have hmul : rem / 2 ^ j * 2 ^ j = 2 ^ j * (rem / 2 ^ j) := Nat.mul_comm ..
    have hle : d * 2 ^ j ≤ rem / 2 ^ j * 2 ^ j := Nat.mul_le_mul_right _ hc'
    omega
  · have hc' : ¬ d ≤ rem / 2 ^ j := fun h => hc (hcmp.mp h)
    simp only [hc, hc', decide_false, Bool.false_eq_true, if_false]
    congr 1
    have hmul : rem / 2 ^ j * 2 ^ j = 2 ^ j * (rem / 2 ^ j) := Nat.mul_comm ..
    omega

/-- loop invariant: with `i` iterations to go, `n = q·d + rem`, `rem < d·2^i`, and `q` has no bits below `i` -/
theorem divLoop_inv (dw d n : Nat) (hd : d < 2 ^ dw) (hd0 : 0 < d) (i q' rem : Nat)
    (hn : n = (2 ^ i * q') * d + rem) (hrem : rem < d * 2 ^ i) :
    ∃ qf rf, divLoop dw d i (2 ^ i * q', rem) = (qf, rf) ∧ n = qf * d + rf ∧ rf < d := by
  induction i generalizing q' rem with
  | zero =>
    refine ⟨2 ^ 0 * q', rem, rfl, hn, by simpa using hrem⟩
  | succ i ih =>
    rw [divLoop, divStep_eq dw d i _ rem hd hrem]
    have hi1 : 2 ^ (i + 1) = 2 ^ i * 2 := Nat.pow_succ ..
    by_cases hc : d * 2 ^ i ≤ rem
    · rw [if_pos hc]
      have hor : 2 ^ (i + 1) * q' ||| 2 ^ i = 2 ^ i * (2 * q' + 1) := by
        rw [← Nat.two_pow_add_eq_or_of_lt (by rw [hi1]; have := Nat.two_pow_pos i; omega), hi1, Nat.mul_add, Nat.mul_one,
          Nat.mul_assoc]
      rw [hor]
      apply ih
      · rw [hn, hi1, Nat.mul_add, Nat.mul_one, Nat.add_mul, Nat.mul_assoc (2 ^ i) 2 q', Nat.mul_comm (2 ^ i) d]
        omega
      · rw [hi1, ← Nat.mul_assoc] at hrem; omega
    · rw [if_neg hc]
      have e : 2 ^ (i + 1) * q' = 2 ^ i * (2 * q') := by rw [hi1, Nat.mul_assoc]
      rw [e]
      apply ih
      · rw [hn, e]
      · omega

theorem longDivision_eq (nw dw n d : Nat) (hn : n < 2 ^ nw) (hd : d < 2 ^ dw) (hd0 : 0 < d) :
    longDivision nw dw n d = (n / d, n % d) := by
  unfold longDivision
  have hrem : n < d * 2 ^ nw := by
    have : 1 * 2 ^ nw ≤ d * 2 ^ nw := Nat.mul_le_mul_right _ hd0
    omega
  obtain ⟨qf, rf, he, hq, hr⟩ := divLoop_inv dw d n hd hd0 nw 0 n (by simp) hrem
  rw [Nat.mul_zero] at he
  rw [he]
  have := (Nat.div_mod_unique hd0 (a := n) (d := qf) (c := rf)).mpr ⟨by rw [hq, Nat.mul_comm]; omega, hr⟩
  rw [this.1, this.2]

/-- division by zero: every quotient bit is set (math_test.cpp expects the full mask) -/
theorem divLoop_zero (dw i q rem : Nat) (hq : q % 2 ^ i = 0) :
    (divLoop dw 0 i (q, rem)).1 = q + (2 ^ i - 1) := by
  induction i generalizing q rem with
  | zero => simp [divLoop]
  | succ i ih =>
    rw [divLoop]
    have hstep : (divStep dw 0 i (q, rem)).1 = q ||| 2 ^ i := by simp [divStep]
    have hi1 : 2 ^ (i + 1) = 2 ^ i * 2 := Nat.pow_succ ..
    have hP := Nat.two_pow_pos i
    obtain ⟨k, hk⟩ : ∃ k, q = 2 ^ (i + 1) * k := ⟨q / 2 ^ (i + 1), by have := Nat.div_add_mod q (2 ^ (i + 1)); omega⟩
    have hor : q ||| 2 ^ i = q + 2 ^ i := by
      rw [hk, ← Nat.two_pow_add_eq_or_of_lt (by omega)]
    have hmod : (q + 2 ^ i) % 2 ^ i = 0 := by
      rw [hk, hi1, Nat.mul_assoc, Nat.add_mod, Nat.mul_mod_right, Nat.mod_self]; simp
    have := ih (q ||| 2 ^ i) (divStep dw 0 i (q, rem)).2 (by rw [hor]; exact hmod)
    rw [show divStep dw 0 i (q, rem) = ((divStep dw 0 i (q, rem)).1, (divStep dw 0 i (q, rem)).2) from rfl, hstep, this, hor]
    omega

theorem longDivision_zero (nw dw n : Nat) : (longDivision nw dw n 0).1 = 2 ^ nw - 1 := by
  unfold longDivision
  rw [divLoop_zero _ _ _ _ (Nat.zero_mod _)]
  omega

/-! ### signed long division -/

theorem toInt_neg_of {w r : Nat} (hw : 0 < w) (hr : r ≤ 2 ^ (w - 1)) : toInt w ((2 ^ w - 1 - r + 1) % 2 ^ w) = -(r : Int) := by
  have hp : 2 ^ w = 2 * 2 ^ (w - 1) := by
    rw [← Nat.pow_succ']; congr 1; omega
  have hP := Nat.two_pow_pos (w - 1)
  by_cases h0 : r = 0
  · subst h0
    have : (2 ^ w - 1 - 0 + 1) % 2 ^ w = 0 := by
      rw [show 2 ^ w - 1 - 0 + 1 = 2 ^ w by omega, Nat.mod_self]
    rw [this]
    simp [toInt]
  · have e : (2 ^ w - 1 - r + 1) % 2 ^ w = 2 ^ w - r := by
      rw [show 2 ^ w - 1 - r + 1 = 2 ^ w - r by omega, Nat.mod_eq_of_lt (by omega)]
    rw [e, toInt_of_lt hw (by omega), if_pos (by omega)]
    omega

theorem longDivisionS_eq (nw dw n d : Nat) (hw : 0 < nw) (hn : n < 2 ^ nw) (hd : d < 2 ^ dw) (hd0 : 0 < d) :
    toInt nw (longDivisionS nw dw n d) = Int.tdiv (toInt nw n) d := by
  have hp : 2 ^ nw = 2 * 2 ^ (nw - 1) := by
    rw [← Nat.pow_succ']; congr 1; omega
  have hP := Nat.two_pow_pos (nw - 1)
  unfold longDivisionS
  have hne : nw ≠ 0 := by omega
  simp only [hne, ne_eq, not_false_eq_true, true_and]
  rw [testBit_top hw hn]
  by_cases hs : 2 ^ (nw - 1) ≤ n
  · simp only [hs, decide_true, if_true]
    have emag : (2 ^ nw - 1 - n + 1) % 2 ^ nw = 2 ^ nw - n := by
      rw [show 2 ^ nw - 1 - n + 1 = 2 ^ nw - n by omega, Nat.mod_eq_of_lt (by omega)]
    rw [emag, longDivision_eq nw dw _ d (by omega) hd hd0]
    have hq : (2 ^ nw - n) / d ≤ 2 ^ (nw - 1) := Nat.le_trans (Nat.div_le_self _ _) (by omega)
    rw [toInt_neg_of hw hq, toInt_of_lt hw hn, if_pos hs]
    have : ((n : Int) - ((2 ^ nw : Nat) : Int)) = -(((2 ^ nw - n : Nat)) : Int) := by omega
    rw [this, Int.neg_tdiv, Int.ofNat_tdiv]
  · simp only [hs, decide_false, Bool.false_eq_true, if_false]
    rw [longDivision_eq nw dw n d hn hd hd0]
    have hq : n / d < 2 ^ (nw - 1) := Nat.lt_of_le_of_lt (Nat.div_le_self _ _) (by omega)
    rw [toInt_of_lt hw (by omega), if_neg (by omega), toInt_of_lt hw hn, if_neg hs, Int.ofNat_tdiv]

/-! ### carry-save addition -/

theorem bit_full_adder (a b c : Nat) (ha : a < 2) (hb : b < 2) (hc : c < 2) :
    (a ^^^ b ^^^ c) + 2 * ((a &&& c) ||| (a &&& b) ||| (c &&& b)) = a + b + c := by
  have : a = 0 ∨ a = 1 := by omega
  have : b = 0 ∨ b = 1 := by omega
  have : c = 0 ∨ c = 1 := by omega
  rcases ‹a = 0 ∨ a = 1› with rfl | rfl <;> rcases ‹b = 0 ∨ b = 1› with rfl | rfl <;> rcases ‹c = 0 ∨ c = 1› with rfl | rfl <;> decide

theorem addCarrySave_sum (a b c : Nat) :
    (addCarrySave a b c).1 + 2 * (addCarrySave a b c).2 = a + b + c := by
  unfold addCarrySave
  simp only
  induction a using Nat.strongRecOn generalizing b c with
  | _ a ih =>
    by_cases h0 : a = 0 ∧ b = 0 ∧ c = 0
    · obtain ⟨rfl, rfl, rfl⟩ := h0; decide
    · -- split every word into its lowest bit and the rest
      have hs : (a ^^^ b ^^^ c) = 2 * ((a ^^^ b ^^^ c) / 2) + (a ^^^ b ^^^ c) % 2 := by omega
      have ht : ((a &&& c) ||| (a &&& b) ||| (c &&& b)) = 2 * (((a &&& c) ||| (a &&& b) ||| (c &&& b)) / 2) + ((a &&& c) ||| (a &&& b) ||| (c &&& b)) % 2 := by omega
      have hs2 : (a ^^^ b ^^^ c) / 2 = a / 2 ^^^ b / 2 ^^^ c / 2 := by rw [Nat.xor_div_two, Nat.xor_div_two]
      have ht2 : ((a &&& c) ||| (a &&& b) ||| (c &&& b)) / 2 = ((a / 2 &&& c / 2) ||| (a / 2 &&& b / 2) ||| (c / 2 &&& b / 2)) := by
        rw [Nat.or_div_two, Nat.or_div_two, Nat.and_div_two, Nat.and_div_two, Nat.and_div_two]
      have hs1 : (a ^^^ b ^^^ c) % 2 = (a % 2 ^^^ b % 2 ^^^ c % 2) := by
        have h1 := @Nat.xor_mod_two_pow (a ^^^ b) c 1
        have h2 := @Nat.xor_mod_two_pow a b 1
        simp only [Nat.pow_one] at h1 h2
        rw [h1, h2]
      have ht1 : ((a &&& c) ||| (a &&& b) ||| (c &&& b)) % 2 = ((a % 2 &&& c % 2) ||| (a % 2 &&& b % 2) ||| (c % 2 &&& b % 2)) := by
        have h1 := @Nat.or_mod_two_pow ((a &&& c) ||| (a &&& b)) (c &&& b) 1
        have h2 := @Nat.or_mod_two_pow (a &&& c) (a &&& b) 1
        have h3 := @Nat.and_mod_two_pow a c 1
        have h4 := @Nat.and_mod_two_pow a b 1
        have h5 := @Nat.and_mod_two_pow c b 1
        simp only [Nat.pow_one] at *
        rw [h1, h2, h3, h4, h5]
      have hbit := bit_full_adder (a % 2) (b % 2) (c % 2) (Nat.mod_lt _ (by omega)) (Nat.mod_lt _ (by omega)) (Nat.mod_lt _ (by omega))
      -- the higher parts: by induction if a shrinks, otherwise a = 0 and we recurse on a/2 = 0 … use symmetry-free argument:
      have hrec : (a / 2 ^^^ b / 2 ^^^ c / 2) + 2 * ((a / 2 &&& c / 2) ||| (a / 2 &&& b / 2) ||| (c / 2 &&& b / 2)) = a / 2 + b / 2 + c / 2 := by
        by_cases ha : a = 0
        · subst ha
          -- with a = 0 the adder degenerates: sum = b ^^^ c, carry = c &&& b
          have key : ∀ (n b c : Nat), b + c ≤ n → (b ^^^ c) + 2 * (c &&& b) = b + c := by
            intro n
            induction n with
            | zero => intro b c h; have : b = 0 := by omega
                      have : c = 0 := by omega
                      subst_vars; decide
            | succ n ihn =>
              intro b c h
              by_cases hz : b = 0 ∧ c = 0
              · obtain ⟨rfl, rfl⟩ := hz; decide
              · have e1 : (b ^^^ c) = 2 * ((b ^^^ c) / 2) + (b ^^^ c) % 2 := by omega
                have e2 : (c &&& b) = 2 * ((c &&& b) / 2) + (c &&& b) % 2 := by omega
                have e3 : (b ^^^ c) / 2 = b / 2 ^^^ c / 2 := Nat.xor_div_two
                have e4 : (c &&& b) / 2 = c / 2 &&& b / 2 := Nat.and_div_two
                have e5 : (b ^^^ c) % 2 = (b % 2 ^^^ c % 2) := by
                  have := @Nat.xor_mod_two_pow b c 1; simpa using this
                have e6 : (c &&& b) % 2 = (c % 2 &&& b % 2) := by
                  have := @Nat.and_mod_two_pow c b 1; simpa using this
                have hb := bit_full_adder 0 (b % 2) (c % 2) (by omega) (Nat.mod_lt _ (by omega)) (Nat.mod_lt _ (by omega))
                simp only [Nat.zero_xor, Nat.zero_and, Nat.zero_or, Nat.zero_add] at hb
                have := ihn (b / 2) (c / 2) (by omega)
                omega
          have := key (b / 2 + c / 2) (b / 2) (c / 2) (Nat.le_refl _)
          simpa using this
        · exact ih (a / 2) (by omega) (b / 2) (c / 2)
      omega

theorem sumL_foldl (l : List Nat) (s : Nat) : l.foldl (· + ·) s = s + l.foldl (· + ·) 0 := by
  induction l generalizing s with
  | nil => simp
  | cons a t ih => simp only [List.foldl_cons]; rw [ih (s + a), ih (0 + a)]; omega

/-- invariant of `CarrySafeAdder`: once two operands are in, `sum + carry ≡ Σ operands (mod 2^w)` -/
theorem csa_add_inv (w : Nat) (s : CSAState) (b tot : Nat) (hc : 2 ≤ s.count) (h : (s.sum + s.carry) % 2 ^ w = tot % 2 ^ w) :
    2 ≤ (s.add w b).count ∧ ((s.add w b).sum + (s.add w b).carry) % 2 ^ w = (tot + b) % 2 ^ w := by
  unfold CSAState.add
  rw [if_neg (by omega), if_neg (by omega)]
  have key := addCarrySave_sum s.sum s.carry b
  simp only
  refine ⟨by omega, ?_⟩
  rw [Nat.shiftLeft_eq, Nat.pow_one, Nat.add_mod_mod]
  rw [show (addCarrySave s.sum s.carry b).1 + (addCarrySave s.sum s.carry b).2 * 2 = s.sum + s.carry + b by omega]
  rw [Nat.add_mod, h, ← Nat.add_mod]

/-! ### counters -/

/-- `endM1 w E = E - 1` for a legal end value -/
theorem endM1_eq (w E : Nat) (h1 : 1 ≤ E) (h2 : E ≤ 2 ^ w) : endM1 w E = E - 1 := by
  unfold endM1
  by_cases h : E = 2 ^ w
  · subst h
    rw [show 2 ^ w + 2 ^ w - 1 = (2 ^ w - 1) + 2 ^ w by omega, Nat.add_mod_right, Nat.mod_eq_of_lt (by omega)]
  · rw [show E + 2 ^ w - 1 = (E - 1) + 2 ^ w by omega, Nat.add_mod_right, Nat.mod_eq_of_lt (by omega)]

theorem two_pow_ge_four {w : Nat} (h : 2 ≤ w) : 4 ≤ 2 ^ w := by
  calc 4 = 2 ^ 2 := rfl
    _ ≤ 2 ^ w := Nat.pow_le_pow_right (by omega) h

/-- one clock cycle of a counter with overflow checks (non-power-of-two `end`, `Counter(BitWidth)`, `Counter(UInt end)`)
is one step of the modulo-`E` counter -/
theorem counterStep_checked (w E v lv : Nat) (inc dec load : Bool) (hw : 0 < w) (h1 : 1 ≤ E) (h2 : E ≤ 2 ^ w) (hv : v < E) :
    (counterStep ⟨w, true, false⟩ v ⟨inc, dec, load, lv, E - 1⟩).next = wrapStep E v inc dec load lv := by
  have hM : 2 ≤ 2 ^ w := by
    calc 2 = 2 ^ 1 := rfl
      _ ≤ 2 ^ w := Nat.pow_le_pow_right (by omega) hw
  have hw1 : w = 1 → 2 ^ w = 2 := by intro h; subst h; rfl
  have hw2 : 2 ≤ w → 4 ≤ 2 ^ w := two_pow_ge_four
  unfold counterStep wrapStep
  simp only [show w ≠ 0 by omega, if_false, Bool.false_eq_true]
  generalize 2 ^ w = M at *
  cases load
  · cases inc <;> cases dec <;> simp only [Bool.and_true, Bool.and_false, Bool.not_true, Bool.not_false, Bool.false_eq_true,
      if_false, if_true, Nat.zero_or, Nat.add_zero]
    · -- idle
      rw [Nat.mod_eq_of_lt (by omega)]
      have : ¬ (0 = M - 1) := by omega
      simp [this]
    · -- decrement
      have hd1 : (M - 1 == 1) = decide (M = 2) := by
        by_cases h : M = 2 <;> simp [h] <;> omega
      simp only [beq_self_eq_true, Bool.true_and, hd1]
      by_cases hz : v = 0
      · subst hz
        have : (0 + E - 1) % E = E - 1 := by
          rw [show 0 + E - 1 = E - 1 by omega, Nat.mod_eq_of_lt (by omega)]
        simp [this]
      · have e1 : (v + (M - 1)) % M = v - 1 := by
          rw [show v + (M - 1) = (v - 1) + M by omega, Nat.add_mod_right, Nat.mod_eq_of_lt (by omega)]
        have e2 : (v + E - 1) % E = v - 1 := by
          rw [show v + E - 1 = (v - 1) + E by omega, Nat.add_mod_right, Nat.mod_eq_of_lt (by omega)]
        have hvz : (v == 0) = false := by simpa using hz
        simp only [e1, e2, hvz, Bool.false_eq_true, if_false, Bool.and_false]
        by_cases hM2 : M = 2
        · have : v = 1 := by omega
          subst this
          simp [hM2]
        · simp [hM2]
    · -- increment
      have hd1 : (1 == M - 1) = decide (M = 2) := by
        by_cases h : M = 2 <;> simp [h] <;> omega
      simp only [beq_self_eq_true, Bool.true_and, hd1]
      by_cases hl : v = E - 1
      · have e2 : (v + 1) % E = 0 := by
          rw [show v + 1 = E by omega, Nat.mod_self]
        have hl' : (v == E - 1) = true := by simpa using hl
        simp only [hl', if_true, e2]
        by_cases hM2 : M = 2
        · by_cases hz : v = 0
          · simp [hM2, hz]; omega
          · simp [hM2, hz]
        · simp [hM2]
      · have e1 : (v + 1) % M = v + 1 := Nat.mod_eq_of_lt (by omega)
        have e2 : (v + 1) % E = v + 1 := Nat.mod_eq_of_lt (by omega)
        have hl' : (v == E - 1) = false := by simpa using hl
        simp only [hl', Bool.false_eq_true, if_false, e1, e2]
        by_cases hM2 : M = 2
        · by_cases hz : v = 0
          · simp [hM2, hz]; omega
          · simp [hM2, hz]
        · simp [hM2]
    · -- both
      rw [Nat.mod_eq_of_lt (by omega)]
      have : ¬ (0 = M - 1) := by omega
      simp [this]
  · simp

/-- power-of-two `end` (`Counter(size_t end)` with `isPow2(end)`): no overflow checks, the natural wrap is the modulo-`2^w` step -/
theorem counterStep_unchecked (w v lv em1 : Nat) (inc dec load : Bool) (hw : 0 < w) (hv : v < 2 ^ w) :
    (counterStep ⟨w, false, false⟩ v ⟨inc, dec, load, lv, em1⟩).next = wrapStep (2 ^ w) v inc dec load lv := by
  have hM : 2 ≤ 2 ^ w := by
    calc 2 = 2 ^ 1 := rfl
      _ ≤ 2 ^ w := Nat.pow_le_pow_right (by omega) hw
  unfold counterStep wrapStep
  simp only [show w ≠ 0 by omega, if_false, Bool.false_eq_true]
  generalize 2 ^ w = M at *
  cases load
  · cases inc <;> cases dec <;> simp only [Bool.and_true, Bool.and_false, Bool.not_true, Bool.not_false, Bool.false_eq_true,
      if_false, if_true, Nat.zero_or, Nat.add_zero]
    · exact Nat.mod_eq_of_lt hv
    · congr 1; omega
    · exact Nat.mod_eq_of_lt hv
  · simp

/-- a counter on which `inc()`/`dec()` are never called counts up every cycle -/
theorem counterStep_auto (w E v lv : Nat) (chk : Bool) (hw : 0 < w) (h1 : 1 ≤ E) (h2 : E ≤ 2 ^ w) (hchk : chk = false → E = 2 ^ w) (hv : v < E) :
    (counterStep ⟨w, chk, true⟩ v ⟨false, false, false, lv, E - 1⟩).next = (v + 1) % E := by
  have hM : 2 ≤ 2 ^ w := by
    calc 2 = 2 ^ 1 := rfl
      _ ≤ 2 ^ w := Nat.pow_le_pow_right (by omega) hw
  unfold counterStep
  simp only [show w ≠ 0 by omega, if_false, if_true, Bool.false_eq_true, Bool.and_false, Bool.false_and, Bool.not_false]
  generalize 2 ^ w = M at *
  cases chk
  · simp [hchk rfl]
  · simp only [if_true, beq_self_eq_true, Bool.true_and]
    by_cases hl : v = E - 1
    · have e2 : (v + 1) % E = 0 := by rw [show v + 1 = E by omega, Nat.mod_self]
      have hl' : (v == E - 1) = true := by simpa using hl
      simp only [hl', if_true, e2]
      by_cases hM2 : (1 == M - 1) = true
      · by_cases hz : v = 0
        · simp [hM2, hz]; omega
        · simp [hM2, hz]
      · simp [hM2]
    · have e1 : (v + 1) % M = v + 1 := Nat.mod_eq_of_lt (by omega)
      have e2 : (v + 1) % E = v + 1 := Nat.mod_eq_of_lt (by omega)
      have hl' : (v == E - 1) = false := by simpa using hl
      simp only [hl', Bool.false_eq_true, if_false, e1, e2]
      by_cases hM2 : (1 == M - 1) = true
      · by_cases hz : v = 0
        · have : M = 2 := by have := (beq_iff_eq).mp hM2; omega
          simp [hM2, hz]; omega
        · simp [hM2, hz]
      · simp [hM2]

/-- free-running counter with a load request -/
theorem counterStep_auto_load (w E v lv : Nat) (chk load : Bool) (hw : 0 < w) (h1 : 1 ≤ E) (h2 : E ≤ 2 ^ w)
    (hchk : chk = false → E = 2 ^ w) (hv : v < E) :
    (counterStep ⟨w, chk, true⟩ v ⟨false, false, load, lv, E - 1⟩).next = wrapStep E v true false load lv := by
  cases load
  · have := counterStep_auto w E v lv chk hw h1 h2 hchk hv
    simpa [wrapStep] using this
  · simp [counterStep, wrapStep]

theorem wrapStep_lt (E v lv : Nat) (inc dec load : Bool) (h1 : 1 ≤ E) (hv : v < E) (hl : load = true → lv < E) :
    wrapStep E v inc dec load lv < E := by
  unfold wrapStep
  cases load
  · simp only [Bool.false_eq_true, if_false]
    split
    · exact Nat.mod_lt _ (by omega)
    · split
      · exact Nat.mod_lt _ (by omega)
      · exact hv
  · simpa using hl rfl

theorem counterRun_checked (w E : Nat) (hw : 0 < w) (h1 : 1 ≤ E) (h2 : E ≤ 2 ^ w) (ops : List CounterOp) (v : Nat) (hv : v < E)
    (hl : ∀ o ∈ ops, o.load = true → o.lv < E) :
    counterRun ⟨w, true, false⟩ (E - 1) v ops = wrapRun E v ops ∧ wrapRun E v ops < E := by
  induction ops generalizing v with
  | nil => exact ⟨rfl, hv⟩
  | cons o t ih =>
    unfold counterRun wrapRun
    simp only [List.foldl_cons]
    rw [counterStep_checked w E v o.lv o.inc o.dec o.load hw h1 h2 hv]
    exact ih _ (wrapStep_lt E v o.lv o.inc o.dec o.load h1 hv (hl o (by simp))) (fun o' ho' => hl o' (by simp [ho']))

theorem counterRun_unchecked (w : Nat) (hw : 0 < w) (em1 : Nat) (ops : List CounterOp) (v : Nat) (hv : v < 2 ^ w)
    (hl : ∀ o ∈ ops, o.load = true → o.lv < 2 ^ w) :
    counterRun ⟨w, false, false⟩ em1 v ops = wrapRun (2 ^ w) v ops ∧ wrapRun (2 ^ w) v ops < 2 ^ w := by
  induction ops generalizing v with
  | nil => exact ⟨rfl, hv⟩
  | cons o t ih =>
    unfold counterRun wrapRun
    simp only [List.foldl_cons]
    rw [counterStep_unchecked w v o.lv em1 o.inc o.dec o.load hw hv]
    exact ih _ (wrapStep_lt (2 ^ w) v o.lv o.inc o.dec o.load (Nat.two_pow_pos w) hv (hl o (by simp)))
      (fun o' ho' => hl o' (by simp [ho']))

/-- one cycle of any `Counter` instance, by usage pattern: the circuit step is the API definition -/
theorem counterApi_step (w E rv v : Nat) (chk : Bool) (u : CounterUse) (resetLast : Bool) (c : CounterCalls)
    (hw : 0 < w) (h1 : 1 ≤ E) (h2 : E ≤ 2 ^ w) (hchk : chk = false → E = 2 ^ w) (hv : v < E) :
    (counterStep ⟨w, chk, u.autoInc⟩ v (callsToIn u resetLast rv (E - 1) c)).next = apiStep E rv u resetLast v c := by
  unfold callsToIn apiStep CounterUse.autoInc
  cases hi : u.inc <;> cases hd : u.dec <;> simp only [Bool.false_and, Bool.true_and, Bool.or_false, Bool.or_true, Bool.not_false,
    Bool.not_true, Bool.and_self, Bool.and_false, Bool.false_or, Bool.or_self]
  · exact counterStep_auto_load w E v _ chk _ hw h1 h2 hchk hv
  all_goals
    cases chk
    · rw [hchk rfl]; exact counterStep_unchecked w v _ _ _ _ _ hw (by rw [← hchk rfl]; exact hv)
    · exact counterStep_checked w E v _ _ _ _ hw h1 h2 hv

theorem apiStep_lt (E rv v : Nat) (u : CounterUse) (resetLast : Bool) (c : CounterCalls) (h1 : 1 ≤ E) (hv : v < E) (hrv : rv < E)
    (hlv : c.lv < E) : apiStep E rv u resetLast v c < E := by
  unfold apiStep
  apply wrapStep_lt E v _ _ _ _ h1 hv
  intro _
  (repeat' split) <;> assumption

theorem counterApiRun_eq (w E rv : Nat) (chk : Bool) (u : CounterUse) (resetLast : Bool)
    (hw : 0 < w) (h1 : 1 ≤ E) (h2 : E ≤ 2 ^ w) (hchk : chk = false → E = 2 ^ w) (hrv : rv < E)
    (hist : List CounterCalls) (v : Nat) (hv : v < E) (hl : ∀ c ∈ hist, c.lv < E) :
    counterApiRun w chk u resetLast rv (E - 1) v hist = apiRun E rv u resetLast v hist ∧ apiRun E rv u resetLast v hist < E := by
  induction hist generalizing v with
  | nil => exact ⟨rfl, hv⟩
  | cons c t ih =>
    unfold counterApiRun apiRun
    simp only [List.foldl_cons]
    rw [counterApi_step w E rv v chk u resetLast c hw h1 h2 hchk hv]
    exact ih _ (apiStep_lt E rv v u resetLast c h1 hv hrv (hl c (by simp))) (fun c' hc' => hl c' (by simp [hc']))

/-- number of cycles with a net increment / decrement -/
def ups (ops : List CounterOp) : Nat := (ops.filter fun o => o.inc && !o.dec).length
def downs (ops : List CounterOp) : Nat := (ops.filter fun o => o.dec && !o.inc).length

/-- closed form of a load-free history: `(v₀ + #up - #down) mod E` (written with `+ (E-1)` for every decrement) -/
theorem wrapRun_closed (E : Nat) (h1 : 1 ≤ E) (ops : List CounterOp) (v : Nat) (hl : ∀ o ∈ ops, o.load = false) :
    wrapRun E v ops % E = (v + ups ops + downs ops * (E - 1)) % E := by
  induction ops generalizing v with
  | nil => simp [wrapRun, ups, downs]
  | cons o t ih =>
    have hlo : o.load = false := hl o (by simp)
    have ht : ∀ o ∈ t, o.load = false := fun o' ho' => hl o' (by simp [ho'])
    have hstep : wrapRun E v (o :: t) = wrapRun E (wrapStep E v o.inc o.dec o.load o.lv) t := by
      simp [wrapRun]
    rw [hstep, ih _ ht]
    unfold wrapStep
    simp only [hlo, Bool.false_eq_true, if_false]
    cases hi : o.inc <;> cases hd : o.dec <;> simp only [ups, downs, List.filter_cons, hi, hd, Bool.and_true, Bool.and_false,
      Bool.not_true, Bool.not_false, Bool.false_eq_true, if_false, if_true, List.length_cons, Bool.and_self]
    · rw [Nat.add_assoc, Nat.mod_add_mod, Nat.succ_mul]
      congr 1; omega
    · rw [Nat.add_assoc, Nat.mod_add_mod]
      congr 1; omega

/-! ### counterUpDown -/

theorem counterUpDownStep_eq (w rv v : Nat) (inc dec reset : Bool) (hw : 0 < w) (hv : v < 2 ^ w) :
    (counterUpDownStep w rv v inc dec reset).next =
      wrapStep (2 ^ w) v (inc && !dec && !(v == 2 ^ w - 1)) (dec && !inc && !(v == 0)) reset (rv % 2 ^ w) := by
  unfold counterUpDownStep counterCfgOfWidth
  have hp := Nat.two_pow_pos w
  rw [endM1_eq w (2 ^ w) (by omega) (Nat.le_refl _)]
  exact counterStep_checked w (2 ^ w) v _ _ _ _ hw (by omega) (Nat.le_refl _) hv

theorem clampStep_nat (mx v rv : Nat) (inc dec : Bool) (hv : v ≤ mx) :
    clampStep mx v inc dec false rv =
      if inc && !dec then (if v < mx then v + 1 else mx) else if dec && !inc then v - 1 else v := by
  unfold clampStep
  cases inc <;> cases dec <;> simp only [Bool.false_eq_true, if_false, if_true, Bool.and_true, Bool.and_false, Bool.not_true,
    Bool.not_false, Bool.and_self] <;> (repeat' split) <;> omega

/-- `counterUpDown` is the saturating counter: the net change `inc - dec` is applied and clamped to `[0, 2^w - 1]` -/
theorem counterUpDownStep_clamp (w rv v : Nat) (inc dec reset : Bool) (hw : 0 < w) (hv : v < 2 ^ w) :
    (counterUpDownStep w rv v inc dec reset).next = clampStep (2 ^ w - 1) v inc dec reset (rv % 2 ^ w) := by
  rw [counterUpDownStep_eq w rv v inc dec reset hw hv]
  have hM : 2 ≤ 2 ^ w := by
    calc 2 = 2 ^ 1 := rfl
      _ ≤ 2 ^ w := Nat.pow_le_pow_right (by omega) hw
  cases reset
  · rw [clampStep_nat _ _ _ _ _ (by omega)]
    unfold wrapStep
    generalize 2 ^ w = M at *
    simp only [Bool.false_eq_true, if_false]
    have e1 : v ≠ 0 → (v + M - 1) % M = v - 1 := by
      intro h; rw [show v + M - 1 = (v - 1) + M by omega, Nat.add_mod_right, Nat.mod_eq_of_lt (by omega)]
    have e2 : v ≠ M - 1 → (v + 1) % M = v + 1 := by
      intro h; exact Nat.mod_eq_of_lt (by omega)
    by_cases h0 : v = 0
    · have h0' : (v == 0) = true := by simpa using h0
      have hm : (v == M - 1) = false := by simp; omega
      cases inc <;> cases dec <;>
        simp only [hm, h0', Bool.false_eq_true, if_false, if_true, Bool.and_true, Bool.and_false, Bool.not_true, Bool.not_false,
          Bool.and_self] <;> (repeat' split) <;> omega
    · have h0' : (v == 0) = false := by simpa using h0
      by_cases hmx : v = M - 1
      · have hm : (v == M - 1) = true := by simpa using hmx
        cases inc <;> cases dec <;>
          simp only [hm, h0', Bool.false_eq_true, if_false, if_true, Bool.and_true, Bool.and_false, Bool.not_true, Bool.not_false,
            Bool.and_self] <;> (repeat' split) <;> omega
      · have hm : (v == M - 1) = false := by simpa using hmx
        cases inc <;> cases dec <;>
          simp only [hm, h0', Bool.false_eq_true, if_false, if_true, Bool.and_true, Bool.and_false, Bool.not_true, Bool.not_false,
            Bool.and_self] <;> (repeat' split) <;> omega
  · simp [wrapStep, clampStep]

theorem clampStep_le (mx v rv : Nat) (inc dec reset : Bool) (hv : v ≤ mx) (hr : rv ≤ mx) : clampStep mx v inc dec reset rv ≤ mx := by
  cases reset
  · rw [clampStep_nat _ _ _ _ _ hv]; (repeat' split) <;> omega
  · simpa [clampStep] using hr

theorem counterUpDownRun_eq (w rv : Nat) (hw : 0 < w) (ops : List (Bool × Bool × Bool)) (v : Nat) (hv : v < 2 ^ w) :
    counterUpDownRun w rv v ops = clampRun (2 ^ w - 1) (rv % 2 ^ w) v ops := by
  induction ops generalizing v with
  | nil => rfl
  | cons o t ih =>
    unfold counterUpDownRun clampRun
    simp only [List.foldl_cons]
    rw [counterUpDownStep_clamp w rv v o.1 o.2.1 o.2.2 hw hv]
    have hp := Nat.two_pow_pos w
    have hr : rv % 2 ^ w < 2 ^ w := Nat.mod_lt _ hp
    have := clampStep_le (2 ^ w - 1) v (rv % 2 ^ w) o.1 o.2.1 o.2.2 (by omega) (by omega)
    exact ih _ (by omega)

/-! ### CarrySafeAdder over a list of operands -/

theorem csa_fold_inv (w : Nat) (rest : List Nat) (s : CSAState) (tot : Nat) (hc : 2 ≤ s.count)
    (h : (s.sum + s.carry) % 2 ^ w = tot % 2 ^ w) :
    2 ≤ (rest.foldl (CSAState.add w) s).count ∧
    ((rest.foldl (CSAState.add w) s).sum + (rest.foldl (CSAState.add w) s).carry) % 2 ^ w = (tot + rest.foldl (· + ·) 0) % 2 ^ w := by
  induction rest generalizing s tot with
  | nil => exact ⟨hc, by simpa using h⟩
  | cons b t ih =>
    simp only [List.foldl_cons]
    obtain ⟨hc', h'⟩ := csa_add_inv w s b tot hc h
    obtain ⟨hc2, h2⟩ := ih _ _ hc' h'
    refine ⟨hc2, ?_⟩
    rw [h2, sumL_foldl t (0 + b)]
    congr 1; omega

theorem csaAddAll_total (w : Nat) (ops : List Nat) (hops : ∀ o ∈ ops, o < 2 ^ w) :
    (csaAddAll w ops).total w = ops.foldl (· + ·) 0 % 2 ^ w := by
  unfold csaAddAll
  match ops, hops with
  | [], _ => simp [CSAState.total]
  | [a], h =>
    have ha : a < 2 ^ w := h a (by simp)
    simp [CSAState.add, CSAState.total, Nat.mod_eq_of_lt ha]
  | a :: b :: rest, _ =>
    have hs : (List.foldl (CSAState.add w) {} [a, b]) = ⟨2, a, b⟩ := by simp [CSAState.add]
    have e : List.foldl (CSAState.add w) {} (a :: b :: rest) = List.foldl (CSAState.add w) ⟨2, a, b⟩ rest := by
      rw [← hs]; simp
    rw [e]
    obtain ⟨hc, h⟩ := csa_fold_inv w rest ⟨2, a, b⟩ (a + b) (by simp) rfl
    unfold CSAState.total
    rw [if_neg (by omega), h]
    simp only [List.foldl_cons]
    rw [sumL_foldl rest (0 + a + b)]
    congr 1; omega

end Gatery.C17
