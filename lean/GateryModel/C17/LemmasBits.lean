import GateryModel.C17.Spec
/-!
Helper lemmas for C17: width helpers, bitcount, one-hot coding, flat priority encoder, count-leading-zeros, thermometric code.
-/
namespace Gatery.C17
open Spec

/-! ### widths -/

theorem le_two_pow_log2C {v : Nat} (h : 0 < v) : v ≤ 2 ^ log2C v := by
  unfold log2C
  split
  · omega
  · have := @Nat.lt_log2_self (v - 1)
    omega

theorem lt_two_pow_bwLast (n : Nat) : n < 2 ^ bwLast n := by
  have := @le_two_pow_log2C (n + 1) (by omega)
  unfold bwLast; omega

theorem log2C_two_pow {k : Nat} (hk : 1 ≤ k) : log2C (2 ^ k) = k := by
  unfold log2C
  have h2 : 2 ≤ 2 ^ k := by
    calc 2 = 2 ^ 1 := rfl
      _ ≤ 2 ^ k := Nat.pow_le_pow_right (by omega) hk
  rw [if_neg (by omega)]
  have hne : 2 ^ k - 1 ≠ 0 := by omega
  have : (2 ^ k - 1).log2 = k - 1 := by
    rw [Nat.log2_eq_iff hne]
    have : 2 ^ k = 2 * 2 ^ (k - 1) := by
      rw [← Nat.pow_succ']; congr 1; omega
    constructor
    · omega
    · rw [show k - 1 + 1 = k by omega]; omega
  omega

/-- `2^(log2C v)` is below `2 v` -/
theorem two_pow_log2C_lt {v : Nat} (h : 2 ≤ v) : 2 ^ log2C v < 2 * v := by
  unfold log2C
  rw [if_neg (by omega)]
  have hne : v - 1 ≠ 0 := by omega
  have := Nat.log2_self_le hne
  rw [Nat.pow_succ]
  omega

/-! ### bit lists -/

theorem toNat_lt (l : List Bool) : toNat l < 2 ^ l.length := by
  induction l with
  | nil => simp [toNat]
  | cons b t ih =>
    simp only [toNat, List.length_cons, Nat.pow_succ]
    cases b <;> simp <;> omega

theorem length_ofNat (w v : Nat) : (ofNat w v).length = w := by
  induction w generalizing v with
  | zero => rfl
  | succ w ih => simp [ofNat, ih]

theorem toNat_ofNat (w v : Nat) : toNat (ofNat w v) = v % 2 ^ w := by
  induction w generalizing v with
  | zero => simp [ofNat, toNat, Nat.mod_one]
  | succ w ih =>
    simp only [ofNat, toNat, ih]
    have h1 : v % 2 ^ (w + 1) = v % 2 + 2 * (v / 2 % 2 ^ w) := by
      rw [Nat.pow_succ, Nat.mul_comm, Nat.mod_mul]
    rw [h1]
    rcases Nat.mod_two_eq_zero_or_one v with h | h <;> simp [h]

/-! ### bitcount -/

theorem foldl_add_mod (M : Nat) (bits : List Bool) (s : Nat) (h : s + bits.count true < M) :
    bits.foldl (fun s b => (s + b.toNat) % M) s = s + bits.count true := by
  induction bits generalizing s with
  | nil => simp
  | cons b t ih =>
    cases b
    · simp only [List.foldl_cons, Bool.toNat_false, Nat.add_zero]
      have h' : s + t.count true < M := by simpa using h
      rw [Nat.mod_eq_of_lt (by omega), ih s h']
      simp
    · simp only [List.foldl_cons, Bool.toNat_true]
      have h' : s + 1 + t.count true < M := by simp at h; omega
      rw [Nat.mod_eq_of_lt (by omega), ih (s + 1) h']
      simp; omega

theorem bitcount_eq (bits : List Bool) : bitcount bits = popcount bits := by
  unfold bitcount popcount bitcountW
  have h1 := lt_two_pow_bwLast bits.length
  have h2 : bits.count true ≤ bits.length := List.count_le_length
  rw [foldl_add_mod _ _ _ (by omega)]
  simp

/-! ### encoder ∘ decoder -/

theorem encGo_allFalse (l : List Bool) (i ret : Nat) (h : ∀ b ∈ l, b = false) : encGo l i ret = ret := by
  induction l generalizing i ret with
  | nil => rfl
  | cons b t ih =>
    have hb : b = false := h b (by simp)
    subst hb
    simp only [encGo]
    rw [ih]
    · simp
    · intro b hb; exact h b (by simp [hb])

/-- the one-hot word of length `n` with bit `k` set, as the generator's `setBit` writes it, starting at index `s` -/
theorem encGo_oneHot (n s k ret : Nat) :
    encGo ((List.range' s n).map fun i => k == i) s ret = if s ≤ k ∧ k < s + n then ret ||| k else ret := by
  induction n generalizing s ret with
  | zero =>
    simp only [List.range'_zero, List.map_nil, encGo, Nat.add_zero]
    rw [if_neg (by omega)]
  | succ n ih =>
    rw [List.range'_succ, List.map_cons, encGo, ih]
    by_cases hk : k = s
    · subst hk
      simp only [BEq.rfl, if_true]
      rw [if_neg (by omega), if_pos (by omega)]
    · have : (k == s) = false := by simpa using hk
      simp only [this]
      have e : (s + 1 ≤ k ∧ k < s + 1 + n) ↔ (s ≤ k ∧ k < s + (n + 1)) := by omega
      simp [e]

theorem encGo_decoder (w v : Nat) (hv : v < 2 ^ w) : encGo (decoder w v) 0 0 = v := by
  unfold decoder
  rw [List.range_eq_range', encGo_oneHot]
  simp [hv]

/-! ### scans from the top: the lowest index wins -/

/-- least `i < k` with `f i ≠ none` -/
def firstSome {α : Type} (f : Nat → Option α) : Nat → Option α
  | 0 => none
  | k+1 => match firstSome f k with
    | some x => some x
    | none => f k

theorem scanDown_eq {α : Type} (f : Nat → Option α) (k : Nat) (r : Option α) :
    scanDown f k r = match firstSome f k with | some x => some x | none => r := by
  induction k generalizing r with
  | zero => rfl
  | succ k ih =>
    rw [scanDown, ih, firstSome]
    cases firstSome f k <;> cases f k <;> rfl

theorem firstSome_succ' {α : Type} (f : Nat → Option α) (n : Nat) :
    firstSome f (n + 1) = match f 0 with | some x => some x | none => firstSome (fun i => f (i + 1)) n := by
  induction n with
  | zero => simp [firstSome]; cases f 0 <;> rfl
  | succ n ih =>
    rw [firstSome, ih]
    cases h0 : f 0 with
    | some x => rfl
    | none =>
      simp only [firstSome]

theorem firstSome_lowestSet (bits : List Bool) (off : Nat) :
    firstSome (fun i => if bits.getD i false then some (i + off) else none) bits.length
      = (lowestSet bits).map (· + off) := by
  induction bits generalizing off with
  | nil => rfl
  | cons b t ih =>
    rw [List.length_cons, firstSome_succ']
    cases b
    · simp only [List.getD_cons_zero, Bool.false_eq_true, if_false, lowestSet]
      have := ih (off + 1)
      simp only [List.getD_cons_succ]
      have e : (fun i => if t.getD i false = true then some (i + 1 + off) else none)
             = (fun i => if t.getD i false = true then some (i + (off + 1)) else none) := by
        funext i; simp [Nat.add_assoc, Nat.add_comm 1 off]
      rw [e, this]
      cases lowestSet t <;> simp [Nat.add_assoc, Nat.add_comm 1 off]
    · simp [lowestSet]

theorem priorityEncoder_v (bits : List Bool) (h : bits ≠ []) : (priorityEncoder bits).v = lowestSet bits := by
  unfold priorityEncoder
  have : bits.isEmpty = false := by cases bits <;> simp_all
  simp only [this, Bool.false_eq_true, if_false]
  rw [scanDown_eq]
  have := firstSome_lowestSet bits 0
  simp only [Nat.add_zero] at this
  rw [this]
  cases lowestSet bits <;> simp

theorem lowestSet_isSome (bits : List Bool) : (lowestSet bits).isSome = bits.any id := by
  induction bits with
  | nil => rfl
  | cons b t ih => cases b <;> simp [lowestSet, ← ih]

theorem priorityEncoder_valid (bits : List Bool) : (priorityEncoder bits).valid = (lowestSet bits).isSome := by
  unfold priorityEncoder
  cases bits with
  | nil => rfl
  | cons b t => simp [lowestSet_isSome]

/-- `lowestSet` really is the lowest set index -/
theorem lowestSet_some {bits : List Bool} {i : Nat} (h : lowestSet bits = some i) :
    bits.getD i false = true ∧ ∀ j, j < i → bits.getD j false = false := by
  induction bits generalizing i with
  | nil => simp [lowestSet] at h
  | cons b t ih =>
    cases b
    · simp only [lowestSet, Option.map_eq_some_iff] at h
      obtain ⟨k, hk, rfl⟩ := h
      have := ih hk
      refine ⟨by simpa using this.1, ?_⟩
      intro j hj
      cases j with
      | zero => rfl
      | succ j => simpa using this.2 j (by omega)
    · simp only [lowestSet, Option.some.injEq] at h
      subst h
      simp

theorem lowestSet_none {bits : List Bool} (h : lowestSet bits = none) : ∀ j, bits.getD j false = false := by
  induction bits with
  | nil => simp
  | cons b t ih =>
    cases b
    · simp only [lowestSet, Option.map_eq_none_iff] at h
      intro j
      cases j with
      | zero => rfl
      | succ j => simpa using ih h j
    · simp [lowestSet] at h

theorem lowestSet_lt {bits : List Bool} {i : Nat} (h : lowestSet bits = some i) : i < bits.length := by
  have := (lowestSet_some h).1
  by_cases hi : i < bits.length
  · exact hi
  · simp [List.getD, List.getElem?_eq_none (Nat.le_of_not_lt hi)] at this

/-! ### count leading zeros -/

theorem clzGo_eq (n : Nat) (l : List Bool) (i ret : Nat) :
    clzGo n l i ret = match highestSet l with | some j => n - (i + j) - 1 | none => ret := by
  induction l generalizing i ret with
  | nil => rfl
  | cons b t ih =>
    rw [clzGo, ih, highestSet]
    cases highestSet t with
    | some j => simp [Nat.add_assoc, Nat.add_comm 1 j]
    | none => cases b <;> simp

theorem countLeadingZeros_eq (bits : List Bool) : (countLeadingZeros bits).v = some (Spec.clz bits) := by
  unfold countLeadingZeros Spec.clz
  rw [clzGo_eq]
  cases highestSet bits <;> simp
  omega

/-- `highestSet` really is the highest set index -/
theorem highestSet_some {bits : List Bool} {j : Nat} (h : highestSet bits = some j) :
    bits.getD j false = true ∧ ∀ k, j < k → bits.getD k false = false := by
  induction bits generalizing j with
  | nil => simp [highestSet] at h
  | cons b t ih =>
    rw [highestSet] at h
    cases ht : highestSet t with
    | some j' =>
      rw [ht] at h
      simp only [Option.some.injEq] at h
      subst h
      have := ih ht
      refine ⟨by simpa using this.1, ?_⟩
      intro k hk
      cases k with
      | zero => omega
      | succ k => simpa using this.2 k (by omega)
    | none =>
      rw [ht] at h
      cases b
      · simp at h
      · simp only [if_true, Option.some.injEq] at h
        subst h
        refine ⟨rfl, ?_⟩
        intro k hk
        cases k with
        | zero => omega
        | succ k =>
          have : ∀ (l : List Bool), highestSet l = none → ∀ m, l.getD m false = false := by
            intro l
            induction l with
            | nil => simp
            | cons c u ihu =>
              intro hn m
              rw [highestSet] at hn
              cases hu : highestSet u with
              | some x => rw [hu] at hn; simp at hn
              | none =>
                rw [hu] at hn
                cases c
                · cases m with
                  | zero => rfl
                  | succ m => simpa using ihu hu m
                · simp at hn
          simpa using this t ht k

theorem highestSet_none {bits : List Bool} (h : highestSet bits = none) : ∀ m, bits.getD m false = false := by
  induction bits with
  | nil => simp
  | cons c u ihu =>
    intro m
    rw [highestSet] at h
    cases hu : highestSet u with
    | some x => rw [hu] at h; simp at h
    | none =>
      rw [hu] at h
      cases c
      · cases m with
        | zero => rfl
        | succ m => simpa using ihu hu m
      · simp at h

theorem highestSet_lt {bits : List Bool} {j : Nat} (h : highestSet bits = some j) : j < bits.length := by
  have := (highestSet_some h).1
  by_cases hi : j < bits.length
  · exact hi
  · simp [List.getD, List.getElem?_eq_none (Nat.le_of_not_lt hi)] at this

/-! ### thermometric code -/

theorem count_map_range_lt (n v : Nat) :
    ((List.range n).map fun i => decide (v > i)).count true = min v n := by
  induction n with
  | zero => simp
  | succ n ih =>
    rw [List.range_succ, List.map_append, List.count_append, ih]
    by_cases h : v > n
    · simp [h]; omega
    · simp [h]; omega

theorem uintToThermometric_eq (w v : Nat) (hv : v < 2 ^ w) :
    uintToThermometric w v = List.replicate v true ++ List.replicate (2 ^ w - 1 - v) false := by
  unfold uintToThermometric
  apply List.ext_getElem
  · simp; omega
  · intro i h1 h2
    simp only [List.getElem_map, List.getElem_range]
    by_cases hi : i < v
    · rw [List.getElem_append_left (by simpa using hi)]
      simp [hi]
    · rw [List.getElem_append_right (by simpa using hi)]
      simp [hi]

theorem thermometric_roundtrip (w v : Nat) (hv : v < 2 ^ w) :
    thermometricToUInt (uintToThermometric w v) = v := by
  unfold thermometricToUInt
  rw [bitcount_eq, popcount]
  unfold uintToThermometric
  rw [count_map_range_lt]
  omega

end Gatery.C17
