import GateryModel.C17.Spec
/-!
Helper lemmas for C17: the bit-serial CRC loop computes a remainder of polynomial division over GF(2).
-/
namespace Gatery.C17
open Spec

theorem xor_cancel_left (a b : Nat) : a ^^^ (a ^^^ b) = b := by
  rw [← Nat.xor_assoc, Nat.xor_self, Nat.zero_xor]

theorem two_pow_xor_eq_add {n b : Nat} (hb : b < 2 ^ n) : 2 ^ n ^^^ b = 2 ^ n + b := by
  have h := Nat.two_pow_add_eq_or_of_lt hb 1
  rw [Nat.mul_one] at h
  rw [h]
  apply Nat.eq_of_testBit_eq
  intro i
  rw [Nat.testBit_xor, Nat.testBit_or, Nat.testBit_two_pow]
  by_cases hi : n = i
  · subst hi; simp [Nat.testBit_lt_two_pow hb]
  · simp [hi]

/-- the defining recurrence of the carry-less product in the multiplier's binary digits -/
theorem clmul_bit (q p : Nat) (b : Bool) : clmul (2 * q + b.toNat) p = (if b then p else 0) ^^^ 2 * clmul q p := by
  by_cases h0 : 2 * q + b.toNat = 0
  · have hq : q = 0 := by omega
    have hb : b = false := by cases b <;> simp_all
    subst hq hb
    simp [clmul]
  · obtain ⟨m, hm⟩ : ∃ m, 2 * q + b.toNat = m + 1 := ⟨2 * q + b.toNat - 1, by omega⟩
    rw [hm, clmul, ← hm]
    have h1 : (2 * q + b.toNat) / 2 = q := by cases b <;> simp <;> omega
    have h2 : ((2 * q + b.toNat) % 2 = 1) = (b = true) := by cases b <;> simp <;> omega
    rw [h1]
    simp only [h2]

theorem clmul_zero (p : Nat) : clmul 0 p = 0 := by simp [clmul]

theorem clmul_shiftLeft (q p k : Nat) : clmul q (p <<< k) = (clmul q p) <<< k := by
  induction q using Nat.strongRecOn with
  | _ q ih =>
    by_cases h0 : q = 0
    · subst h0; simp [clmul_zero]
    · have hq : q = 2 * (q / 2) + (decide (q % 2 = 1)).toNat := by
        rcases Nat.mod_two_eq_zero_or_one q with h | h <;> simp [h] <;> omega
      rw [hq, clmul_bit, clmul_bit, ih (q / 2) (by omega), Nat.shiftLeft_xor_distrib]
      congr 1
      · split <;> simp
      · rw [Nat.shiftLeft_eq, Nat.shiftLeft_eq, Nat.mul_assoc]

theorem iter_succ' {α : Type} (f : α → α) (k : Nat) (a : α) : iter f (k + 1) a = f (iter f k a) := by
  induction k generalizing a with
  | zero => rfl
  | succ k ih => rw [iter, ih (f a)]; rfl

/-- dropping the top bit of a `W+1`-bit word whose top bit is set = xor with `2^W` -/
theorem mod_two_pow_of_testBit {x W : Nat} (hx : x < 2 ^ (W + 1)) (hb : x.testBit W = true) : x % 2 ^ W = x ^^^ 2 ^ W := by
  apply Nat.eq_of_testBit_eq
  intro i
  rw [Nat.testBit_mod_two_pow, Nat.testBit_xor, Nat.testBit_two_pow]
  by_cases h1 : i < W
  · have : W ≠ i := by omega
    simp [h1, this]
  · by_cases h2 : i = W
    · subst h2; simp [hb]
    · have : x < 2 ^ i := Nat.lt_of_lt_of_le hx (Nat.pow_le_pow_right (by omega) (by omega))
      have hw : W ≠ i := by omega
      simp [h1, Nat.testBit_lt_two_pow this, hw]

/-- one LFSR step: shift left and cancel the coefficient of `x^W` with the monic polynomial `2^W ^^^ pl` -/
theorem crcStep_eq (W pw poly r : Nat) (hW : 0 < W) (hr : r < 2 ^ W) (hpl : poly <<< (W - pw) < 2 ^ W) :
    crcStep W pw poly r = (r <<< 1) ^^^ (if r.testBit (W - 1) then 2 ^ W ^^^ (poly <<< (W - pw)) else 0)
    ∧ crcStep W pw poly r < 2 ^ W := by
  unfold crcStep
  have h2 : r <<< 1 = 2 * r := by rw [Nat.shiftLeft_eq]; omega
  have hlt : r <<< 1 < 2 ^ (W + 1) := by rw [h2, Nat.pow_succ]; omega
  have htb : (r <<< 1).testBit W = r.testBit (W - 1) := by
    rw [Nat.testBit_shiftLeft]; simp [show W ≥ 1 by omega]
  by_cases hb : r.testBit (W - 1) = true
  · simp only [hb, if_true]
    have hm := mod_two_pow_of_testBit hlt (by rw [htb]; exact hb)
    constructor
    · rw [hm, Nat.xor_assoc]
    · exact Nat.xor_lt_two_pow (Nat.mod_lt _ (Nat.two_pow_pos W)) hpl
  · have hb' : r.testBit (W - 1) = false := by simpa using hb
    simp only [hb', Bool.false_eq_true, if_false, Nat.xor_zero]
    have hlt2 : r <<< 1 < 2 ^ W := by
      have hp : 2 ^ W = 2 * 2 ^ (W - 1) := by
        rw [← Nat.pow_succ']; congr 1; omega
      have : r < 2 ^ (W - 1) := by
        apply Nat.lt_of_not_le
        intro hle
        have hdiv : r / 2 ^ (W - 1) = 1 := Nat.div_eq_of_lt_le (by omega) (by omega)
        have : r.testBit (W - 1) = true := by rw [Nat.testBit_eq_decide_div_mod_eq, hdiv]; rfl
        rw [hb'] at this; cases this
      omega
    rw [Nat.mod_eq_of_lt hlt2]
    exact ⟨rfl, hlt2⟩

/-- loop invariant: after `k` steps the state `S` satisfies `r·x^k = q·P + S` for some quotient `q` -/
theorem crc_loop_inv (W pw poly : Nat) (hW : 0 < W) (hpl : poly <<< (W - pw) < 2 ^ W) (k r : Nat) (hr : r < 2 ^ W) :
    iter (crcStep W pw poly) k r < 2 ^ W ∧
    ∃ q, r <<< k = clmul q (2 ^ W ^^^ (poly <<< (W - pw))) ^^^ iter (crcStep W pw poly) k r := by
  induction k with
  | zero => exact ⟨hr, 0, by simp [clmul_zero, iter]⟩
  | succ k ih =>
    obtain ⟨hS, q, hq⟩ := ih
    rw [iter_succ']
    obtain ⟨hstep, hlt⟩ := crcStep_eq W pw poly _ hW hS hpl
    refine ⟨hlt, 2 * q + ((iter (crcStep W pw poly) k r).testBit (W - 1)).toNat, ?_⟩
    rw [clmul_bit, hstep, Nat.shiftLeft_add, hq, Nat.shiftLeft_xor_distrib]
    generalize iter (crcStep W pw poly) k r = S
    generalize clmul q (2 ^ W ^^^ poly <<< (W - pw)) = C
    generalize (2 ^ W ^^^ poly <<< (W - pw)) = P
    have : C <<< 1 = 2 * C := by rw [Nat.shiftLeft_eq]; omega
    rw [this]
    cases S.testBit (W - 1)
    · simp
    · simp only [if_true]
      -- 2C ^^^ S<<<1 = (P ^^^ 2C) ^^^ (S<<<1 ^^^ P)
      apply Nat.eq_of_testBit_eq
      intro i
      simp only [Nat.testBit_xor]
      cases (2 * C).testBit i <;> cases (S <<< 1).testBit i <;> cases P.testBit i <;> rfl

theorem shiftLeft_lt {x a b : Nat} (hx : x < 2 ^ a) : x <<< b < 2 ^ (a + b) := by
  rw [Nat.shiftLeft_eq, Nat.pow_add]
  exact Nat.mul_lt_mul_of_lt_of_le hx (Nat.le_refl _) (Nat.two_pow_pos b)

/-- **CRC = polynomial remainder.**  With the usual parameters (`polynomial` as wide as `remainder`), the circuit's result `r`
satisfies `rem·x^dw + data·x^n = q·(x^n + poly) + r` over GF(2) for some `q`, and `deg r < n`. -/
theorem crc_is_remainder (n dw rem data poly : Nat) (hn : 0 < n) (hdw : 0 < dw)
    (hrem : rem < 2 ^ n) (hdata : data < 2 ^ dw) (hpoly : poly < 2 ^ n) :
    ∃ r, crc n dw n rem data poly = some r ∧ r < 2 ^ n ∧
      ∃ q, (rem <<< dw) ^^^ (data <<< n) = clmul q (2 ^ n + poly) ^^^ r := by
  unfold crc
  have hWpos : 0 < max n dw := by omega
  rw [if_neg (by omega)]
  by_cases hc : dw ≤ n
  · -- the data word is not wider than the remainder: W = n
    have hW : max n dw = n := by omega
    simp only [hW, Nat.sub_self, Nat.shiftLeft_zero, Nat.lt_irrefl, if_false]
    have hr1 : rem ^^^ data <<< (n - dw) < 2 ^ n := by
      apply Nat.xor_lt_two_pow hrem
      have := @shiftLeft_lt data dw (n - dw) hdata
      rwa [show dw + (n - dw) = n by omega] at this
    obtain ⟨hS, q, hq⟩ := crc_loop_inv n n poly hn (by simpa using hpoly) dw _ hr1
    simp only [Nat.sub_self, Nat.shiftLeft_zero] at hS hq
    refine ⟨_, rfl, hS, q, ?_⟩
    rw [← two_pow_xor_eq_add hpoly, ← hq, Nat.shiftLeft_xor_distrib, ← Nat.shiftLeft_add]
    congr 2; omega
  · -- wider data word: W = dw, the remainder sits in the upper n bits
    have hW : max n dw = dw := by omega
    simp only [hW, Nat.sub_self, Nat.shiftLeft_zero, show dw > n by omega, if_true]
    have hplt : poly <<< (dw - n) < 2 ^ dw := by
      have := @shiftLeft_lt poly n (dw - n) hpoly
      rwa [show n + (dw - n) = dw by omega] at this
    have hr1 : rem <<< (dw - n) ^^^ data < 2 ^ dw := by
      apply Nat.xor_lt_two_pow _ hdata
      have := @shiftLeft_lt rem n (dw - n) hrem
      rwa [show n + (dw - n) = dw by omega] at this
    obtain ⟨hS, q, hq⟩ := crc_loop_inv dw n poly (by omega) hplt dw _ hr1
    generalize iter (crcStep dw n poly) dw (rem <<< (dw - n) ^^^ data) = S at hS hq ⊢
    refine ⟨_, rfl, ?_, q, ?_⟩
    · rw [Nat.shiftRight_eq_div_pow, Nat.div_lt_iff_lt_mul (Nat.two_pow_pos _), ← Nat.pow_add]
      rwa [show n + (dw - n) = dw by omega]
    · -- everything is a multiple of x^(dw-n): divide it out
      have hP : 2 ^ dw ^^^ poly <<< (dw - n) = (2 ^ n + poly) <<< (dw - n) := by
        rw [← two_pow_xor_eq_add hpoly, Nat.shiftLeft_xor_distrib]
        congr 1
        rw [Nat.shiftLeft_eq, ← Nat.pow_add]; congr 1; omega
      rw [hP, clmul_shiftLeft] at hq
      have hA : (rem <<< (dw - n) ^^^ data) <<< dw = (rem <<< dw ^^^ data <<< n) <<< (dw - n) := by
        rw [Nat.shiftLeft_xor_distrib, Nat.shiftLeft_xor_distrib, ← Nat.shiftLeft_add, ← Nat.shiftLeft_add, ← Nat.shiftLeft_add]
        congr 2 <;> omega
      rw [hA] at hq
      -- S = (A ^^^ C) <<< (dw-n)
      have hSeq : S = ((rem <<< dw ^^^ data <<< n) ^^^ clmul q (2 ^ n + poly)) <<< (dw - n) := by
        rw [Nat.shiftLeft_xor_distrib, hq, Nat.xor_comm (clmul q (2 ^ n + poly) <<< (dw - n)) S, Nat.xor_assoc, Nat.xor_self,
          Nat.xor_zero]
      rw [hSeq, Nat.shiftLeft_shiftRight, Nat.xor_comm (rem <<< dw ^^^ data <<< n), xor_cancel_left]

end Gatery.C17
