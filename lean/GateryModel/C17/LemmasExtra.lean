import GateryModel.C17.LemmasGray
import GateryModel.C17.LemmasCrc
/-!
Helper lemmas for C17 that connect the executable definitions used by the driver (`reflectedGray`, `pmod`) with the theorems:
`grayEncode` is the binary-reflected Gray code; polynomial remainders are unique and `crc = pmod`.
-/
namespace Gatery.C17
open Spec

/-! ### x ^ (x >> 1) is the reflected Gray code -/

theorem grayEncode_reflect (w y : Nat) (hy : y < 2 ^ w) : grayEncode (2 ^ (w + 1) - 1 - y) = 2 ^ w + grayEncode y := by
  have hg : grayEncode y < 2 ^ w := grayEncode_lt w y hy
  rw [← two_pow_xor_eq_add hg]
  have hy' : y < 2 ^ (w + 1) := by rw [Nat.pow_succ]; omega
  have e : 2 ^ (w + 1) - 1 - y = 2 ^ (w + 1) - (y + 1) := by omega
  apply Nat.eq_of_testBit_eq
  intro i
  rw [Nat.testBit_xor, testBit_grayEncode, testBit_grayEncode, e, Nat.testBit_two_pow_sub_succ hy', Nat.testBit_two_pow_sub_succ hy',
    Nat.testBit_two_pow]
  by_cases h1 : i < w
  · have : w ≠ i := by omega
    simp [this, show i < w + 1 by omega, show i + 1 < w + 1 by omega] <;>
      (cases y.testBit i <;> cases y.testBit (i + 1) <;> rfl)
  · by_cases h2 : i = w
    · subst h2
      have hb : y.testBit i = false := Nat.testBit_lt_two_pow hy
      have hb1 : y.testBit (i + 1) = false := Nat.testBit_lt_two_pow hy'
      simp [hb, hb1]
    · have hw : w ≠ i := by omega
      have hb : y.testBit i = false := Nat.testBit_lt_two_pow (Nat.lt_of_lt_of_le hy (Nat.pow_le_pow_right (by omega) (by omega)))
      have hb1 : y.testBit (i + 1) = false :=
        Nat.testBit_lt_two_pow (Nat.lt_of_lt_of_le hy (Nat.pow_le_pow_right (by omega) (by omega)))
      simp [hw, hb, hb1, show ¬ i < w + 1 by omega, show ¬ i + 1 < w + 1 by omega]

theorem grayEncode_eq_reflected (w x : Nat) (hx : x < 2 ^ w) : grayEncode x = reflectedGray w x := by
  induction w generalizing x with
  | zero =>
    have : x = 0 := by simpa using hx
    subst this; rfl
  | succ w ih =>
    rw [reflectedGray]
    by_cases h : x < 2 ^ w
    · rw [if_pos h]; exact ih x h
    · rw [if_neg h]
      have hp : 2 ^ (w + 1) = 2 * 2 ^ w := by rw [Nat.pow_succ]; omega
      have hy : 2 ^ (w + 1) - 1 - x < 2 ^ w := by omega
      rw [← ih _ hy, ← grayEncode_reflect w _ hy]
      congr 1; omega

/-! ### uniqueness of polynomial remainders, `crc = pmod` -/

theorem xor_eq_zero {a b : Nat} (h : a ^^^ b = 0) : a = b := by
  have := xor_cancel_left a b
  rw [h, Nat.xor_zero] at this
  exact this

/-- the carry-less product is additive in the multiplier -/
theorem clmul_xor (q q' p : Nat) : clmul (q ^^^ q') p = clmul q p ^^^ clmul q' p := by
  induction q using Nat.strongRecOn generalizing q' with
  | _ q ih =>
    by_cases h0 : q = 0
    · subst h0; simp [clmul_zero]
    · have hq : q = 2 * (q / 2) + (decide (q % 2 = 1)).toNat := by
        rcases Nat.mod_two_eq_zero_or_one q with h | h <;> simp [h] <;> omega
      have hq' : q' = 2 * (q' / 2) + (decide (q' % 2 = 1)).toNat := by
        rcases Nat.mod_two_eq_zero_or_one q' with h | h <;> simp [h] <;> omega
      have hx : q ^^^ q' = 2 * ((q / 2) ^^^ (q' / 2)) + (decide (q % 2 = 1) ^^ decide (q' % 2 = 1)).toNat := by
        have hd : (q ^^^ q') / 2 = q / 2 ^^^ q' / 2 := Nat.xor_div_two
        have hm : (q ^^^ q') % 2 = (q % 2 ^^^ q' % 2) := by
          have := @Nat.xor_mod_two_pow q q' 1; simpa using this
        have hb : (decide (q % 2 = 1) ^^ decide (q' % 2 = 1)).toNat = (q ^^^ q') % 2 := by
          rw [hm]
          rcases Nat.mod_two_eq_zero_or_one q with h | h <;> rcases Nat.mod_two_eq_zero_or_one q' with h' | h' <;>
            rw [h, h'] <;> decide
        rw [← hd, hb]; omega
      rw [hx, clmul_bit]
      conv => rhs; rw [hq, hq', clmul_bit, clmul_bit]
      rw [ih (q / 2) (by omega)]
      generalize clmul (q / 2) p = A
      generalize clmul (q' / 2) p = B
      have h2 : 2 * (A ^^^ B) = 2 * A ^^^ 2 * B := by
        have := @Nat.shiftLeft_xor_distrib 1 A B
        simpa [Nat.shiftLeft_eq, Nat.mul_comm] using this
      rw [h2]
      apply Nat.eq_of_testBit_eq
      intro i
      simp only [Nat.testBit_xor]
      cases decide (q % 2 = 1) <;> cases decide (q' % 2 = 1) <;> simp <;>
        cases (2 * A).testBit i <;> cases (2 * B).testBit i <;> cases p.testBit i <;> rfl

theorem xor_ge_of_ge_of_lt {X Y m : Nat} (hX : 2 ^ m ≤ X) (hY : Y < 2 ^ m) : 2 ^ m ≤ X ^^^ Y := by
  apply Nat.le_of_not_lt
  intro hlt
  have h1 : (X ^^^ Y) >>> m = 0 := Nat.shiftRight_eq_zero _ _ hlt
  rw [Nat.shiftRight_xor_distrib, Nat.shiftRight_eq_zero Y m hY, Nat.xor_zero, Nat.shiftRight_eq_div_pow] at h1
  have := (Nat.div_eq_zero_iff_lt (Nat.two_pow_pos m)).mp h1
  omega

/-- a non-zero multiple of a monic polynomial of degree `n` has degree at least `n` -/
theorem clmul_ge (n P q : Nat) (hP1 : 2 ^ n ≤ P) (hP2 : P < 2 ^ (n + 1)) (hq : q ≠ 0) : 2 ^ n ≤ clmul q P := by
  induction q using Nat.strongRecOn with
  | _ q ih =>
    have hqd : q = 2 * (q / 2) + (decide (q % 2 = 1)).toNat := by
      rcases Nat.mod_two_eq_zero_or_one q with h | h <;> simp [h] <;> omega
    rw [hqd, clmul_bit]
    by_cases ha : q / 2 = 0
    · have : q % 2 = 1 := by omega
      simp [ha, this, clmul_zero]; exact hP1
    · have hC := ih (q / 2) (by omega) ha
      have h2C : 2 ^ (n + 1) ≤ 2 * clmul (q / 2) P := by rw [Nat.pow_succ]; omega
      have hb : (if decide (q % 2 = 1) = true then P else 0) < 2 ^ (n + 1) := by
        split
        · exact hP2
        · exact Nat.two_pow_pos _
      rw [Nat.xor_comm]
      have := xor_ge_of_ge_of_lt h2C hb
      have hp : 2 ^ (n + 1) = 2 * 2 ^ n := by rw [Nat.pow_succ]; omega
      omega

/-- **remainders are unique**: `q·P + r = q'·P + r'` with `deg r, deg r' < n = deg P` forces `r = r'` -/
theorem remainder_unique (n P q q' r r' : Nat) (hP1 : 2 ^ n ≤ P) (hP2 : P < 2 ^ (n + 1)) (hr : r < 2 ^ n) (hr' : r' < 2 ^ n)
    (h : clmul q P ^^^ r = clmul q' P ^^^ r') : r = r' := by
  have hx : clmul (q ^^^ q') P = r ^^^ r' := by
    rw [clmul_xor]
    apply Nat.eq_of_testBit_eq
    intro i
    have := congrArg (fun z => z.testBit i) h
    simp only [Nat.testBit_xor] at this ⊢
    revert this
    cases (clmul q P).testBit i <;> cases (clmul q' P).testBit i <;> cases r.testBit i <;> cases r'.testBit i <;> simp
  have hlt : r ^^^ r' < 2 ^ n := Nat.xor_lt_two_pow hr hr'
  by_cases hq : q ^^^ q' = 0
  · rw [hq, clmul_zero] at hx
    exact xor_eq_zero hx.symm
  · have := clmul_ge n P _ hP1 hP2 hq
    omega

theorem clmul_two_pow (k p : Nat) : clmul (2 ^ k) p = p <<< k := by
  induction k with
  | zero =>
    have := clmul_bit 0 p true
    simp [clmul_zero] at this
    simpa using this
  | succ k ih =>
    have := clmul_bit (2 ^ k) p false
    simp only [Bool.toNat_false, Nat.add_zero, Bool.false_eq_true, if_false, Nat.zero_xor] at this
    rw [Nat.pow_succ, Nat.mul_comm, this, ih, Nat.shiftLeft_succ]

/-- the top-down reduction `pmodGo` computes a remainder -/
theorem pmodGo_spec (n P : Nat) (hP1 : 2 ^ n ≤ P) (hP2 : P < 2 ^ (n + 1)) (k a : Nat) (ha : a < 2 ^ (n + k)) :
    pmodGo n P k a < 2 ^ n ∧ ∃ q, a = clmul q P ^^^ pmodGo n P k a := by
  induction k generalizing a with
  | zero => exact ⟨by simpa [pmodGo] using ha, 0, by simp [pmodGo, clmul_zero]⟩
  | succ k ih =>
    rw [pmodGo]
    by_cases hb : a.testBit (n + k) = true
    · simp only [hb, if_true]
      -- cancelling the top coefficient lowers the degree
      have hPk : (P <<< k).testBit (n + k) = true := by
        rw [Nat.testBit_shiftLeft]
        have : P.testBit n = true := by
          rw [Nat.testBit_eq_decide_div_mod_eq, Nat.div_eq_of_lt_le (k := 1) (by omega) (by rw [Nat.pow_succ] at hP2; omega)]
          rfl
        simp [this]
      have hPlt : P <<< k < 2 ^ (n + 1 + k) := shiftLeft_lt hP2
      have ha' : a ^^^ P <<< k < 2 ^ (n + k) := by
        apply Nat.lt_pow_two_of_testBit
        intro i hi
        rw [Nat.testBit_xor]
        by_cases hik : i = n + k
        · subst hik; simp [hb, hPk]
        · have h1 : a.testBit i = false :=
            Nat.testBit_lt_two_pow (Nat.lt_of_lt_of_le ha (Nat.pow_le_pow_right (by omega) (by omega)))
          have h2 : (P <<< k).testBit i = false :=
            Nat.testBit_lt_two_pow (Nat.lt_of_lt_of_le hPlt (Nat.pow_le_pow_right (by omega) (by omega)))
          simp [h1, h2]
      obtain ⟨hlt, q, hq⟩ := ih _ ha'
      refine ⟨hlt, q ^^^ 2 ^ k, ?_⟩
      rw [clmul_xor, clmul_two_pow]
      have : a = (a ^^^ P <<< k) ^^^ P <<< k := by
        rw [Nat.xor_assoc, Nat.xor_self, Nat.xor_zero]
      conv => lhs; rw [this, hq]
      apply Nat.eq_of_testBit_eq
      intro i
      simp only [Nat.testBit_xor]
      cases (clmul q P).testBit i <;> cases (pmodGo n P k (a ^^^ P <<< k)).testBit i <;> cases (P <<< k).testBit i <;> rfl
    · have hb' : a.testBit (n + k) = false := by simpa using hb
      simp only [hb', Bool.false_eq_true, if_false]
      have ha' : a < 2 ^ (n + k) := by
        apply Nat.lt_pow_two_of_testBit
        intro i hi
        by_cases hik : i = n + k
        · subst hik; exact hb'
        · exact Nat.testBit_lt_two_pow (Nat.lt_of_lt_of_le ha (Nat.pow_le_pow_right (by omega) (by omega)))
      exact ih a ha'

theorem pmod_spec (n poly a : Nat) (hpoly : poly < 2 ^ n) :
    pmod n poly a < 2 ^ n ∧ ∃ q, a = clmul q (2 ^ n + poly) ^^^ pmod n poly a := by
  unfold pmod
  apply pmodGo_spec n (2 ^ n + poly) (by omega) (by rw [Nat.pow_succ]; omega)
  have h1 : a < 2 ^ (a.log2 + 1) := Nat.lt_log2_self
  exact Nat.lt_of_lt_of_le h1 (Nat.pow_le_pow_right (by omega) (by omega))

/-- the circuit's CRC is *the* remainder: it equals the executable polynomial-division definition -/
theorem crc_eq_pmod (n dw rem data poly : Nat) (hn : 0 < n) (hdw : 0 < dw)
    (hrem : rem < 2 ^ n) (hdata : data < 2 ^ dw) (hpoly : poly < 2 ^ n) :
    crc n dw n rem data poly = some (pmod n poly ((rem <<< dw) ^^^ (data <<< n))) := by
  obtain ⟨r, hr, hlt, q, hq⟩ := crc_is_remainder n dw rem data poly hn hdw hrem hdata hpoly
  obtain ⟨hlt', q', hq'⟩ := pmod_spec n poly ((rem <<< dw) ^^^ (data <<< n)) hpoly
  rw [hr]
  congr 1
  exact remainder_unique n (2 ^ n + poly) q q' _ _ (by omega) (by rw [Nat.pow_succ]; omega) hlt hlt' (by rw [← hq, ← hq'])

end Gatery.C17
