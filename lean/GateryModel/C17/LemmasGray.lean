import GateryModel.C17.Spec
/-!
Helper lemmas for C17: Gray code, biggestPowerOfTwo, min/max.
-/
namespace Gatery.C17
open Spec

/-! ### Gray code -/

theorem testBit_grayEncode (x i : Nat) : (grayEncode x).testBit i = (x.testBit i ^^ x.testBit (i + 1)) := by
  unfold grayEncode
  rw [Nat.testBit_xor, Nat.testBit_shiftRight, Nat.add_comm 1 i]

/-- invariant of the decode loop: the bits `≥ i` of `ret` are already those of `x`, the others are still 0 -/
theorem grayDecodeGo_inv (w x : Nat) (hx : x < 2 ^ w) (i ret : Nat) (hi : i < w)
    (hret : ∀ j, ret.testBit j = (decide (i ≤ j ∧ j < w) && x.testBit j)) :
    grayDecodeGo (grayEncode x) i ret = x := by
  induction i generalizing ret with
  | zero =>
    simp only [grayDecodeGo]
    apply Nat.eq_of_testBit_eq
    intro j
    rw [hret j]
    by_cases hj : j < w
    · simp [hj]
    · have : x < 2 ^ j := Nat.lt_of_lt_of_le hx (Nat.pow_le_pow_right (by omega) (by omega))
      simp [hj, Nat.testBit_lt_two_pow this]
  | succ i ih =>
    rw [grayDecodeGo]
    apply ih _ (by omega)
    intro j
    have h1 : ret.testBit (i + 1) = x.testBit (i + 1) := by
      rw [hret]; simp [hi]
    rw [h1, testBit_grayEncode]
    have hx' : (x.testBit (i + 1) ^^ (x.testBit i ^^ x.testBit (i + 1))) = x.testBit i := by
      cases x.testBit (i + 1) <;> cases x.testBit i <;> rfl
    rw [hx']
    by_cases hb : x.testBit i = true
    · simp only [hb, if_true, Nat.testBit_or, Nat.testBit_two_pow, hret j]
      by_cases hji : i = j
      · subst hji; simp [hb]; omega
      · have e : (i ≤ j ∧ j < w) ↔ (i + 1 ≤ j ∧ j < w) := by omega
        simp [hji, e]
    · have hb' : x.testBit i = false := by simpa using hb
      simp only [hb', Bool.false_eq_true, if_false, hret j]
      by_cases hji : i = j
      · subst hji; simp [hb']
      · have e : (i ≤ j ∧ j < w) ↔ (i + 1 ≤ j ∧ j < w) := by omega
        simp [e]

theorem grayDecode_grayEncode (w x : Nat) (hw : 0 < w) (hx : x < 2 ^ w) : grayDecode w (grayEncode x) = some x := by
  unfold grayDecode
  rw [if_neg (by omega)]
  congr 1
  apply grayDecodeGo_inv w x hx (w - 1) _ (by omega)
  intro j
  have hm : (grayEncode x).testBit (w - 1) = x.testBit (w - 1) := by
    rw [testBit_grayEncode]
    have : x.testBit (w - 1 + 1) = false := by
      rw [show w - 1 + 1 = w by omega]; exact Nat.testBit_lt_two_pow hx
    simp [this]
  rw [hm]
  by_cases hb : x.testBit (w - 1) = true
  · simp only [hb, if_true, Nat.testBit_two_pow]
    by_cases hj : w - 1 = j
    · subst hj; simp [hb]; omega
    · simp [hj]
      intro h1 h2; omega
  · have hb' : x.testBit (w - 1) = false := by simpa using hb
    simp only [hb', Bool.false_eq_true, if_false, Nat.zero_testBit]
    by_cases hj : w - 1 = j
    · subst hj; simp [hb']
    · simp
      intro h1 h2; omega

/-- `x` and `x+1` differ exactly in a block of low bits -/
theorem xor_succ_eq (x : Nat) : ∃ k, x ^^^ (x + 1) = 2 ^ (k + 1) - 1 := by
  induction x using Nat.strongRecOn with
  | _ x ih =>
    have hd : (x ^^^ (x + 1)) / 2 = x / 2 ^^^ (x + 1) / 2 := Nat.xor_div_two
    have hm : (x ^^^ (x + 1)) % 2 = 1 := by
      rw [Nat.xor_mod_two_eq_one]; omega
    rcases Nat.mod_two_eq_zero_or_one x with h | h
    · refine ⟨0, ?_⟩
      have : (x + 1) / 2 = x / 2 := by omega
      rw [this, Nat.xor_self] at hd
      simp; omega
    · obtain ⟨k, hk⟩ := ih (x / 2) (by omega)
      refine ⟨k + 1, ?_⟩
      have : (x + 1) / 2 = x / 2 + 1 := by omega
      rw [this, hk] at hd
      have hp : 2 ^ (k + 1 + 1) = 2 * 2 ^ (k + 1) := by rw [Nat.pow_succ]; omega
      have hpos : 0 < 2 ^ (k + 1) := Nat.two_pow_pos _
      omega

theorem grayEncode_block (k : Nat) : grayEncode (2 ^ (k + 1) - 1) = 2 ^ k := by
  apply Nat.eq_of_testBit_eq
  intro i
  rw [testBit_grayEncode, Nat.testBit_two_pow_sub_one, Nat.testBit_two_pow_sub_one, Nat.testBit_two_pow]
  by_cases h : i = k
  · subst h; simp
  · by_cases h2 : i < k
    · have : k ≠ i := by omega
      simp [this]; omega
    · have : k ≠ i := by omega
      simp [this]; omega

theorem grayEncode_xor (a b : Nat) : grayEncode a ^^^ grayEncode b = grayEncode (a ^^^ b) := by
  apply Nat.eq_of_testBit_eq
  intro i
  simp only [Nat.testBit_xor, testBit_grayEncode]
  cases a.testBit i <;> cases b.testBit i <;> cases a.testBit (i + 1) <;> cases b.testBit (i + 1) <;> rfl

theorem gray_adjacent (x : Nat) : ∃ k, grayEncode x ^^^ grayEncode (x + 1) = 2 ^ k := by
  obtain ⟨k, hk⟩ := xor_succ_eq x
  exact ⟨k, by rw [grayEncode_xor, hk, grayEncode_block]⟩

/-- the flipped position lies inside the word when `x + 1` still fits -/
theorem gray_adjacent_lt (w x : Nat) (h : x + 1 < 2 ^ w) : ∃ k, k < w ∧ grayEncode x ^^^ grayEncode (x + 1) = 2 ^ k := by
  obtain ⟨k, hk⟩ := xor_succ_eq x
  refine ⟨k, ?_, by rw [grayEncode_xor, hk, grayEncode_block]⟩
  have hx : x < 2 ^ w := by omega
  have : x ^^^ (x + 1) < 2 ^ w := Nat.xor_lt_two_pow hx h
  rw [hk] at this
  have hlt : 2 ^ k < 2 ^ w := by
    have : 2 ^ (k + 1) = 2 * 2 ^ k := by rw [Nat.pow_succ]; omega
    have := Nat.two_pow_pos k
    omega
  exact (Nat.pow_lt_pow_iff_right (by omega)).mp hlt

theorem grayEncode_lt (w x : Nat) (hx : x < 2 ^ w) : grayEncode x < 2 ^ w := by
  unfold grayEncode
  apply Nat.xor_lt_two_pow hx
  rw [Nat.shiftRight_eq_div_pow]
  exact Nat.lt_of_le_of_lt (Nat.div_le_self _ _) hx

/-- two words differing by `2^k` with `k < w` differ in exactly one of their `w` bit positions -/
theorem hamming_of_xor_eq_two_pow (w a b k : Nat) (hk : k < w) (h : a ^^^ b = 2 ^ k) : hamming w a b = 1 := by
  unfold hamming
  have hbit : ∀ i, (a.testBit i != b.testBit i) = decide (k = i) := by
    intro i
    have := congrArg (fun n => n.testBit i) h
    simp only [Nat.testBit_xor, Nat.testBit_two_pow] at this
    rw [← this]
  simp only [hbit]
  have : ∀ n, ((List.range n).filter fun i => decide (k = i)).length = if k < n then 1 else 0 := by
    intro n
    induction n with
    | zero => simp
    | succ n ih =>
      rw [List.range_succ, List.filter_append, List.length_append, ih]
      by_cases h1 : k < n
      · have : k ≠ n := by omega
        simp [h1, this] <;> omega
      · by_cases h2 : k = n
        · subst h2; simp
        · simp [h1, h2] <;> omega
  rw [this, if_pos hk]

/-! ### biggestPowerOfTwo -/

theorem mod_two_pow_succ_testBit (v k : Nat) :
    v % 2 ^ (k + 1) = v % 2 ^ k + (if v.testBit k then 2 ^ k else 0) := by
  rw [Nat.pow_succ, Nat.mod_mul, Nat.testBit_eq_decide_div_mod_eq]
  rcases Nat.mod_two_eq_zero_or_one (v / 2 ^ k) with h | h <;> simp [h]

theorem bptGo_eq (v k : Nat) : bptGo v k 0 = Spec.biggestPowerOfTwo (v % 2 ^ k) := by
  induction k with
  | zero => simp [bptGo, Spec.biggestPowerOfTwo, Nat.mod_one]
  | succ k ih =>
    simp only [bptGo]
    rw [mod_two_pow_succ_testBit]
    by_cases hb : v.testBit k = true
    · simp only [hb, if_true]
      unfold Spec.biggestPowerOfTwo
      have hlt : v % 2 ^ k < 2 ^ k := Nat.mod_lt _ (Nat.two_pow_pos k)
      have hne : v % 2 ^ k + 2 ^ k ≠ 0 := by have := Nat.two_pow_pos k; omega
      rw [if_neg hne]
      congr 1
      symm
      rw [Nat.log2_eq_iff hne]
      constructor
      · omega
      · rw [Nat.pow_succ]; omega
    · have hb' : v.testBit k = false := by simpa using hb
      simp [hb', ih]

theorem biggestPowerOfTwo_eq (w v : Nat) (hv : v < 2 ^ w) :
    biggestPowerOfTwo w v = Spec.biggestPowerOfTwo v := by
  unfold biggestPowerOfTwo
  rw [bptGo_eq, Nat.mod_eq_of_lt hv]

/-! ### min / max -/

theorem minU_eq (a b : Nat) : minU a b = min a b := by unfold minU; split <;> omega
theorem maxU_eq (a b : Nat) : maxU a b = max a b := by unfold maxU; split <;> omega

theorem testBit_top {w v : Nat} (hw : 0 < w) (hv : v < 2 ^ w) : v.testBit (w - 1) = decide (2 ^ (w - 1) ≤ v) := by
  have hp : 2 ^ w = 2 * 2 ^ (w - 1) := by
    rw [← Nat.pow_succ']; congr 1; omega
  rw [Nat.testBit_eq_decide_div_mod_eq]
  by_cases h : 2 ^ (w - 1) ≤ v
  · have : v / 2 ^ (w - 1) = 1 := Nat.div_eq_of_lt_le (by omega) (by omega)
    simp [this, h]
  · have : v / 2 ^ (w - 1) = 0 := by rw [Nat.div_eq_zero_iff_lt (Nat.two_pow_pos _)]; omega
    simp [this, h]

theorem toInt_of_lt {w v : Nat} (hw : 0 < w) (hv : v < 2 ^ w) :
    toInt w v = if 2 ^ (w - 1) ≤ v then (v : Int) - (2 ^ w : Nat) else v := by
  unfold toInt
  rw [testBit_top hw hv]
  have : w ≠ 0 := by omega
  simp [this]

/-- the frontend's signed comparison (subtract the sign-extended operands in `w+1` bits, take the sign) is `<` on the integers -/
theorem ltS_eq (w x y : Nat) (hw : 0 < w) (hx : x < 2 ^ w) (hy : y < 2 ^ w) :
    ltS w x y = decide (toInt w x < toInt w y) := by
  unfold ltS sext1
  have hp : 2 ^ w = 2 * 2 ^ (w - 1) := by
    rw [← Nat.pow_succ']; congr 1; omega
  have hp1 : 2 ^ (w + 1) = 2 * 2 ^ w := by rw [Nat.pow_succ]; omega
  have hlt : (((if w ≠ 0 ∧ x.testBit (w - 1) = true then x + 2 ^ w else x) + 2 ^ (w + 1) -
      (if w ≠ 0 ∧ y.testBit (w - 1) = true then y + 2 ^ w else y)) % 2 ^ (w + 1)) < 2 ^ (w + 1) :=
    Nat.mod_lt _ (Nat.two_pow_pos _)
  have htop := testBit_top (w := w + 1) (by omega) hlt
  rw [Nat.add_sub_cancel] at htop
  rw [htop, toInt_of_lt hw hx, toInt_of_lt hw hy, testBit_top hw hx, testBit_top hw hy]
  have hne : w ≠ 0 := by omega
  simp only [hne, ne_eq, not_false_eq_true, true_and, decide_eq_true_eq]
  have hP := Nat.two_pow_pos (w - 1)
  rw [hp1]
  generalize 2 ^ (w - 1) = P at *
  generalize 2 ^ w = M at *
  subst hp
  clear hlt htop
  have key : ∀ (X Y : Nat), X < 4 * P → Y < 4 * P →
      (2 * P ≤ (X + 2 * (2 * P) - Y) % (2 * (2 * P)) ↔ (Y ≤ X ∧ 2 * P ≤ X - Y) ∨ (X < Y ∧ Y - X ≤ 2 * P)) := by
    intro X Y hX hY
    by_cases h : Y ≤ X
    · rw [show X + 2 * (2 * P) - Y = (X - Y) + 2 * (2 * P) by omega, Nat.add_mod_right, Nat.mod_eq_of_lt (by omega)]
      omega
    · rw [Nat.mod_eq_of_lt (by omega)]
      omega
  by_cases h1 : P ≤ x <;> by_cases h2 : P ≤ y <;> simp only [h1, h2, if_true, if_false, decide_eq_decide] <;>
    rw [key _ _ (by omega) (by omega)] <;> omega

end Gatery.C17
