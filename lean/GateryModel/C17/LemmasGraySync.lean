import GateryModel.C17.LemmasGray
/-!
Helper lemmas for C17: `synchronizeGrayCode` — while the chain holds its reset values the output is the reset value; an input
that is held long enough appears at the output.
-/
namespace Gatery.C17

theorem getElem?_shift {α : Type} (src : α) (l : List α) (i : Nat) (hi : i + 1 < l.length) :
    (src :: l.dropLast)[i + 1]? = l[i]? := by
  rw [List.getElem?_cons_succ, List.getElem?_dropLast]
  simp; omega

theorem length_shift {α : Type} (src : α) (l : List α) (h : 0 < l.length) : (src :: l.dropLast).length = l.length := by
  simp; omega

theorem graySyncStep_length (c : GraySync) (s : GraySyncState) (a b : Bool) (inp : Nat) (h : 0 < s.stages.length) :
    (graySyncStep c s a b inp).stages.length = s.stages.length := by
  unfold graySyncStep
  cases b
  · simp
  · simp only [if_true]; exact length_shift _ _ h

/-- number of instants at which the output-domain chain latches -/
def countB (es : List (Bool × Bool × Nat)) : Nat := (es.filter fun e => e.2.1).length

/-- after `k` latches of the chain the stages `k, k+1, …` still hold what they held (the value `g` everywhere) -/
theorem graySync_suffix (c : GraySync) (g : Option Nat) (es : List (Bool × Bool × Nat)) (s : GraySyncState) (k : Nat)
    (hn : 0 < s.stages.length) (hs : ∀ i, k ≤ i → i < s.stages.length → s.stages[i]? = some g) :
    (graySyncRun c s es).stages.length = s.stages.length ∧
    ∀ i, k + countB es ≤ i → i < s.stages.length → (graySyncRun c s es).stages[i]? = some g := by
  induction es generalizing s k with
  | nil => exact ⟨rfl, by simpa [countB, graySyncRun] using hs⟩
  | cons e t ih =>
    have hlen := graySyncStep_length c s e.1 e.2.1 e.2.2 hn
    have hrun : graySyncRun c s (e :: t) = graySyncRun c (graySyncStep c s e.1 e.2.1 e.2.2) t := by simp [graySyncRun]
    rw [hrun]
    by_cases hb : e.2.1 = false
    · -- the chain does not move
      have hst : (graySyncStep c s e.1 e.2.1 e.2.2).stages = s.stages := by simp [graySyncStep, hb]
      have := ih (graySyncStep c s e.1 e.2.1 e.2.2) k (by rw [hlen]; exact hn) (by rw [hst]; exact hs)
      rw [hlen] at this
      have hc : countB (e :: t) = countB t := by simp [countB, hb]
      rw [hc]; exact this
    · have hb : e.2.1 = true := by simpa using hb
      have hst : (graySyncStep c s e.1 e.2.1 e.2.2).stages =
          (if c.inStage then s.inReg else some (grayEncode e.2.2)) :: s.stages.dropLast := by simp [graySyncStep, hb]
      have hs' : ∀ i, k + 1 ≤ i → i < (graySyncStep c s e.1 e.2.1 e.2.2).stages.length →
          (graySyncStep c s e.1 e.2.1 e.2.2).stages[i]? = some g := by
        intro i hki hi
        rw [hlen] at hi
        obtain ⟨j, rfl⟩ : ∃ j, i = j + 1 := ⟨i - 1, by omega⟩
        rw [hst, getElem?_shift _ _ _ hi]
        exact hs j (by omega) (by omega)
      have := ih (graySyncStep c s e.1 e.2.1 e.2.2) (k + 1) (by rw [hlen]; exact hn) hs'
      rw [hlen] at this
      have hc : countB (e :: t) = countB t + 1 := by simp [countB, hb]
      rw [hc]
      refine ⟨this.1, fun i hi1 hi2 => this.2 i (by omega) hi2⟩

theorem getLast?_eq_getElem? {α : Type} (l : List α) : l.getLast? = l[l.length - 1]? := by
  rw [List.getLast?_eq_getElem?]

/-- **reset phase**: with the reset overload, as long as the chain has latched fewer than `outStages` times (whatever the input
did, whatever the input-side register did), the output is `reset` -/
theorem graySync_reset_phase (w n r : Nat) (inStage : Bool) (hw : 0 < w) (hr : r < 2 ^ w) (hn : 0 < n)
    (es : List (Bool × Bool × Nat)) (hes : countB es < n) :
    graySyncOut ⟨w, n, inStage, some r⟩ (graySyncRun ⟨w, n, inStage, some r⟩ (graySyncInit ⟨w, n, inStage, some r⟩) es) = some r := by
  have hinit : ∀ i, 0 ≤ i → i < (graySyncInit ⟨w, n, inStage, some r⟩).stages.length →
      (graySyncInit ⟨w, n, inStage, some r⟩).stages[i]? = some (some (grayEncode r)) := by
    intro i _ hi
    simp only [graySyncInit, List.length_replicate] at hi
    simp [graySyncInit, hi]
  have hlen0 : (graySyncInit ⟨w, n, inStage, some r⟩).stages.length = n := by simp [graySyncInit]
  obtain ⟨hlen, hsuf⟩ := graySync_suffix ⟨w, n, inStage, some r⟩ (some (grayEncode r)) es _ 0 (by rw [hlen0]; exact hn) hinit
  rw [hlen0] at hlen hsuf
  unfold graySyncOut
  rw [getLast?_eq_getElem?, hlen, hsuf (n - 1) (by omega) (by omega)]
  exact grayDecode_grayEncode w r hw hr

/-- after `k` latches with the source holding `g`, the first `k` stages hold `g` -/
theorem graySync_prefix (c : GraySync) (x : Nat) (es : List (Bool × Bool × Nat)) (s : GraySyncState) (k : Nat)
    (hn : 0 < s.stages.length) (hx : ∀ e ∈ es, e.2.2 = x) (hin : c.inStage = true → s.inReg = some (grayEncode x))
    (hs : ∀ i, i < k → i < s.stages.length → s.stages[i]? = some (some (grayEncode x))) :
    (graySyncRun c s es).stages.length = s.stages.length ∧
    ∀ i, i < k + countB es → i < s.stages.length → (graySyncRun c s es).stages[i]? = some (some (grayEncode x)) := by
  induction es generalizing s k with
  | nil => exact ⟨rfl, by simpa [countB, graySyncRun] using hs⟩
  | cons e t ih =>
    have hlen := graySyncStep_length c s e.1 e.2.1 e.2.2 hn
    have hrun : graySyncRun c s (e :: t) = graySyncRun c (graySyncStep c s e.1 e.2.1 e.2.2) t := by simp [graySyncRun]
    have hex : e.2.2 = x := hx e (by simp)
    have ht : ∀ e' ∈ t, e'.2.2 = x := fun e' he' => hx e' (by simp [he'])
    have hin' : c.inStage = true → (graySyncStep c s e.1 e.2.1 e.2.2).inReg = some (grayEncode x) := by
      intro h
      simp only [graySyncStep]
      split
      · rw [hex]
      · exact hin h
    rw [hrun]
    by_cases hb : e.2.1 = false
    · have hst : (graySyncStep c s e.1 e.2.1 e.2.2).stages = s.stages := by simp [graySyncStep, hb]
      have := ih (graySyncStep c s e.1 e.2.1 e.2.2) k (by rw [hlen]; exact hn) ht hin' (by rw [hst]; exact hs)
      rw [hlen] at this
      have hc : countB (e :: t) = countB t := by simp [countB, hb]
      rw [hc]; exact this
    · have hb : e.2.1 = true := by simpa using hb
      have hsrc : (if c.inStage then s.inReg else some (grayEncode e.2.2)) = some (grayEncode x) := by
        cases hi : c.inStage
        · simp [hex]
        · simp [hin hi]
      have hst : (graySyncStep c s e.1 e.2.1 e.2.2).stages = some (grayEncode x) :: s.stages.dropLast := by
        simp only [graySyncStep, hb, if_true, hsrc]
      have hs' : ∀ i, i < k + 1 → i < (graySyncStep c s e.1 e.2.1 e.2.2).stages.length →
          (graySyncStep c s e.1 e.2.1 e.2.2).stages[i]? = some (some (grayEncode x)) := by
        intro i hki hi
        rw [hlen] at hi
        rw [hst]
        cases i with
        | zero => simp
        | succ j =>
          rw [getElem?_shift _ _ _ hi]
          exact hs j (by omega) (by omega)
      have := ih (graySyncStep c s e.1 e.2.1 e.2.2) (k + 1) (by rw [hlen]; exact hn) ht hin' hs'
      rw [hlen] at this
      have hc : countB (e :: t) = countB t + 1 := by simp [countB, hb]
      rw [hc]
      refine ⟨this.1, fun i hi1 hi2 => this.2 i (by omega) hi2⟩

/-- **settling**: once the input-side register holds the (held) input `x` — or there is none —, `outStages` latches of the chain
bring `x` to the output -/
theorem graySync_settles (c : GraySync) (x : Nat) (hw : 0 < c.w) (hx : x < 2 ^ c.w) (s : GraySyncState)
    (hlen : s.stages.length = c.outStages) (hn : 0 < c.outStages)
    (hin : c.inStage = true → s.inReg = some (grayEncode x))
    (es : List (Bool × Bool × Nat)) (hes : ∀ e ∈ es, e.2.2 = x) (hcnt : c.outStages ≤ countB es) :
    graySyncOut c (graySyncRun c s es) = some x := by
  obtain ⟨hl, hp⟩ := graySync_prefix c x es s 0 (by omega) hes hin (by intro i hi; omega)
  unfold graySyncOut
  rw [getLast?_eq_getElem?, hl, hp (s.stages.length - 1) (by omega) (by omega)]
  exact grayDecode_grayEncode c.w x hw hx

end Gatery.C17
