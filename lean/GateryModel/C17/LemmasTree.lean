import GateryModel.C17.LemmasBits
/-!
Helper lemmas for C17: the chunked, recursive `priorityEncoderTree` returns what the flat `priorityEncoder` returns,
for every branching parameter `bps ≥ 1`.
-/
namespace Gatery.C17
open Spec

/-- first chunk result that is valid, with its index (list version of the select loop) -/
def firstValid : List (Option Nat × Bool) → Nat → Option (Nat × Option Nat)
  | [], _ => none
  | (v, ok) :: t, i => if ok then some (i, v) else firstValid t (i + 1)

theorem firstSome_firstValid (lower : List PEOut) (off : Nat) (F : Nat → Option (Nat × Option Nat))
    (hF : ∀ i, F i = match lower[i]? with
                     | some o => if o.valid then some (i + off, o.v) else none
                     | none => none) :
    firstSome F lower.length = firstValid (lower.map fun o => (o.v, o.valid)) off := by
  induction lower generalizing off F with
  | nil => rfl
  | cons o t ih =>
    rw [List.length_cons, firstSome_succ', hF 0]
    simp only [List.getElem?_cons_zero, List.map_cons, firstValid, Nat.zero_add]
    cases hv : o.valid
    · simp only [Bool.false_eq_true, if_false]
      apply ih (off + 1)
      intro i
      rw [hF (i + 1)]
      simp only [List.getElem?_cons_succ, Nat.add_assoc, Nat.add_comm 1 off]
    · simp

theorem lowestSet_append (a b : List Bool) :
    lowestSet (a ++ b) = match lowestSet a with | some p => some p | none => (lowestSet b).map (· + a.length) := by
  induction a with
  | nil => simp [lowestSet]
  | cons x t ih =>
    cases x
    · simp only [List.cons_append, lowestSet, ih, List.length_cons]
      cases lowestSet t with
      | some p => rfl
      | none => cases lowestSet b <;> simp [Nat.add_assoc]
    · simp [lowestSet]

theorem chunks_mem (per : Nat) (hper : 1 ≤ per) (fuel : Nat) (l c : List Bool) (h : c ∈ chunks per fuel l) :
    c ≠ [] ∧ c.length ≤ per := by
  induction fuel generalizing l with
  | zero => simp [chunks] at h
  | succ fuel ih =>
    rw [chunks] at h
    split at h
    · simp at h
    · rename_i hne
      rcases List.mem_cons.mp h with rfl | h
      · constructor
        · cases l with
          | nil => simp at hne
          | cons a t =>
            obtain ⟨k, rfl⟩ : ∃ k, per = k + 1 := ⟨per - 1, by omega⟩
            simp
        · simp [List.length_take]; omega
      · exact ih _ h

/-- the select loop over correct chunk results finds the globally lowest set bit: chunk index = `p / per`, offset = `p % per` -/
theorem firstValid_chunks (per : Nat) (hper : 1 ≤ per) (fuel : Nat) (l : List Bool) (off : Nat) (hl : l.length ≤ fuel) :
    firstValid ((chunks per fuel l).map fun c => (lowestSet c, (lowestSet c).isSome)) off
      = (lowestSet l).map fun p => (off + p / per, some (p % per)) := by
  induction fuel generalizing l off with
  | zero =>
    have : l = [] := List.eq_nil_of_length_eq_zero (by omega)
    subst this; rfl
  | succ fuel ih =>
    rw [chunks]
    cases hl0 : l.isEmpty with
    | true =>
      have : l = [] := by simpa using hl0
      subst this; rfl
    | false =>
      simp only [Bool.false_eq_true, if_false, List.map_cons, firstValid]
      have hsplit : l = l.take per ++ l.drop per := (List.take_append_drop per l).symm
      have hls : lowestSet l = match lowestSet (l.take per) with
          | some p => some p | none => (lowestSet (l.drop per)).map (· + (l.take per).length) := by
        conv => lhs; rw [hsplit]
        exact lowestSet_append _ _
      have hne : l ≠ [] := by simpa using hl0
      have hlen : 0 < l.length := List.length_pos_iff.mpr hne
      have hdrop : (l.drop per).length ≤ fuel := by simp [List.length_drop]; omega
      cases hc : lowestSet (l.take per) with
      | some p =>
        have hp : p < per := by
          have := lowestSet_lt hc
          simp [List.length_take] at this; omega
        simp only [Option.isSome_some, if_true]
        rw [hls, hc]
        simp [Nat.div_eq_of_lt hp, Nat.mod_eq_of_lt hp]
      | none =>
        simp only [Option.isSome_none, Bool.false_eq_true, if_false]
        rw [ih _ _ hdrop, hls, hc]
        cases hd : lowestSet (l.drop per) with
        | none => rfl
        | some p =>
          -- the rest is non-empty, so the first chunk is full
          have hpl := lowestSet_lt hd
          have hfull : (l.take per).length = per := by
            simp [List.length_drop] at hpl
            simp [List.length_take]; omega
          simp only [Option.map_some, hfull]
          have h1 : (p + per) / per = p / per + 1 := Nat.add_div_right _ (by omega)
          have h2 : (p + per) % per = p % per := Nat.add_mod_right _ _
          rw [h1, h2]
          congr 2; omega

theorem mapOpt_some {α : Type} (f : α → Option PEOut) (g : α → Option Nat) (h : α → Bool) (cs : List α)
    (hf : ∀ c ∈ cs, ∃ w, f c = some ⟨w, g c, h c⟩) :
    ∃ lower, mapOpt f cs = some lower ∧ (lower.map fun o => (o.v, o.valid)) = cs.map fun c => (g c, h c) := by
  induction cs with
  | nil => exact ⟨[], rfl, rfl⟩
  | cons c t ih =>
    obtain ⟨w, hw⟩ := hf c (by simp)
    obtain ⟨lower, hl, hm⟩ := ih (fun c hc => hf c (by simp [hc]))
    refine ⟨⟨w, g c, h c⟩ :: lower, ?_, ?_⟩
    · simp [mapOpt, hw, hl]
    · simp [hm]

/-- `ceil(n / S) ≥ 2` ⇒ the chunk size `nextPow2(ceil(n/S))` is smaller than `n` (this is why the recursion terminates) -/
theorem per_lt (n S : Nat) (hS : 2 ≤ S) (hx : 2 ≤ (n + S - 1) / S) : 2 ^ log2C ((n + S - 1) / S) < n := by
  have hn : 1 ≤ n := by
    apply Nat.succ_le_of_lt
    apply Nat.pos_of_ne_zero
    intro h0; subst h0
    have : (0 + S - 1) / S = 0 := by rw [Nat.div_eq_zero_iff_lt (by omega)]; omega
    omega
  have hx1 : (n + S - 1) / S - 1 = (n - 1) / S := by
    rw [show n + S - 1 = (n - 1) + S by omega, Nat.add_div_right _ (by omega)]; exact Nat.add_sub_cancel ..
  generalize (n + S - 1) / S = x at *
  unfold log2C
  rw [if_neg (by omega)]
  have hne : x - 1 ≠ 0 := by omega
  have h1 := Nat.log2_self_le hne
  have h2 : (n - 1) / S ≤ (n - 1) / 2 := Nat.div_le_div_left hS (by omega)
  rw [Nat.pow_succ]
  omega

theorem le_mul_ceil (n S : Nat) (hS : 0 < S) : n ≤ S * ((n + S - 1) / S) := by
  have := Nat.div_add_mod (n + S - 1) S
  have := Nat.mod_lt (n + S - 1) hS
  omega

/-- the facts about the chunk size that both tree variants need: `per = nextPow2(ceil(n/S)) ≥ 2` is a power of two below `n`,
at least `ceil(n/S)`, and `BitWidth::count(per)` is its exponent -/
theorem per_facts (n S x : Nat) (hS : 2 ≤ S) (hxdef : (n + S - 1) / S = x) (hper : ¬ nextPow2 x ≤ 1) :
    2 ≤ nextPow2 x ∧ nextPow2 x < n ∧ x ≤ nextPow2 x ∧ 2 ^ bwCount (nextPow2 x) = nextPow2 x := by
  have hx0 : x ≠ 0 := by
    intro h; subst h; simp [nextPow2] at hper
  have hnp : nextPow2 x = 2 ^ log2C x := by simp [nextPow2, hx0]
  have hx2 : 2 ≤ x := by
    apply Nat.le_of_not_lt
    intro h
    have : x = 1 := by omega
    subst this
    simp [nextPow2, log2C] at hper
  have hk : 1 ≤ log2C x := by
    unfold log2C; rw [if_neg (by omega)]; omega
  have hperlt : nextPow2 x < n := by
    have := per_lt n S hS (by rw [hxdef]; exact hx2)
    rw [hxdef] at this; rw [hnp]; exact this
  have hxper : x ≤ nextPow2 x := by rw [hnp]; exact le_two_pow_log2C (by omega)
  refine ⟨by omega, hperlt, hxper, ?_⟩
  unfold bwCount
  rw [if_neg (by omega), hnp, log2C_two_pow hk]

/-- one tree level is right if the level below is: when the chunk results are the lowest set bit of each chunk, the select loop
and `cat(highSelect, lowSelect)` yield the lowest set bit of the whole word -/
theorem treeCombine_flat (bps S x per : Nat) (bits : List Bool) (lower : List PEOut)
    (hSdef : 2 ^ bps = S) (hS : 2 ≤ S) (hxdef : (bits.length + S - 1) / S = x)
    (hper2 : 2 ≤ per) (hxper : x ≤ per) (hlowW : 2 ^ bwCount per = per)
    (hm : (lower.map fun o => (o.v, o.valid)) = (chunks per bits.length bits).map fun c => (lowestSet c, (lowestSet c).isSome)) :
    ∃ w, treeCombine bps per lower = ⟨w, lowestSet bits, (lowestSet bits).isSome⟩ := by
  simp only [treeCombine]
  rw [scanDown_eq]
  rw [firstSome_firstValid lower 0 (treeSelF lower) (fun i => by simp only [treeSelF, Nat.add_zero]; rfl), hm,
    firstValid_chunks per (by omega) _ _ _ (Nat.le_refl _)]
  cases hp : lowestSet bits with
  | none => exact ⟨_, rfl⟩
  | some p =>
    have hplt := lowestSet_lt hp
    have hdiv : p / per < S := by
      rw [Nat.div_lt_iff_lt_mul (by omega)]
      have h1 := le_mul_ceil bits.length S (by omega)
      rw [hxdef] at h1
      have h2 : S * x ≤ S * per := Nat.mul_le_mul_left _ hxper
      omega
    have hval : p / per % S * 2 ^ bwCount per + p % per % 2 ^ bwCount per = p := by
      rw [hlowW, Nat.mod_eq_of_lt hdiv, Nat.mod_mod, Nat.mul_comm, Nat.div_add_mod]
    simp only [Option.map_some, Nat.zero_add, Option.isSome_some, hSdef, hval]
    exact ⟨_, rfl⟩

theorem peTree_eq_flat (bps : Nat) (hb : 1 ≤ bps) (fuel : Nat) (bits : List Bool) (hf : bits.length < fuel) :
    ∃ w, peTree bps fuel bits = some ⟨w, (priorityEncoder bits).v, (priorityEncoder bits).valid⟩ := by
  induction fuel generalizing bits with
  | zero => omega
  | succ fuel ih =>
    rw [peTree]
    have hS : 2 ≤ 2 ^ bps := by
      calc 2 = 2 ^ 1 := rfl
        _ ≤ 2 ^ bps := Nat.pow_le_pow_right (by omega) hb
    generalize hSdef : 2 ^ bps = S at *
    generalize hxdef : (bits.length + S - 1) / S = x
    by_cases hper : nextPow2 x ≤ 1
    · rw [if_pos hper]; exact ⟨_, rfl⟩
    · rw [if_neg hper]
      obtain ⟨hper2, hperlt, hxper, hlowW⟩ := per_facts bits.length S x hS hxdef hper
      generalize nextPow2 x = per at *
      have hne : bits ≠ [] := by
        intro h; subst h; simp at hperlt
      -- the lower level, by induction
      have hlower : ∀ c ∈ chunks per bits.length bits, ∃ w, peTree bps fuel c = some ⟨w, lowestSet c, (lowestSet c).isSome⟩ := by
        intro c hc
        obtain ⟨hcne, hclen⟩ := chunks_mem per (by omega) _ _ _ hc
        obtain ⟨w, hw⟩ := ih c (by omega)
        exact ⟨w, by rw [hw, priorityEncoder_v c hcne, priorityEncoder_valid]⟩
      obtain ⟨lower, hl, hm⟩ := mapOpt_some _ _ _ _ hlower
      rw [hl, priorityEncoder_v bits hne, priorityEncoder_valid]
      obtain ⟨w, hw⟩ := treeCombine_flat bps S x per bits lower hSdef hS hxdef hper2 hxper hlowW hm
      exact ⟨w, by simp only [hw]⟩

end Gatery.C17
