import GateryModel.C17.LemmasTree
/-!
Helper lemmas for C17: the registered `priorityEncoderTree(registerStep = true)` is the combinational tree delayed by
`L` cycles, provided all paths through the tree carry the same number `L` of registers (balanced chunking).
-/
namespace Gatery.C17
open Spec

theorem mapOpt_congr {α β : Type} (f g : α → Option β) (l : List α) (h : ∀ a ∈ l, f a = g a) : mapOpt f l = mapOpt g l := by
  induction l with
  | nil => rfl
  | cons a t ih =>
    simp only [mapOpt, h a (by simp)]
    rw [ih (fun b hb => h b (by simp [hb]))]

theorem mapOpt_map {α β γ : Type} (f : β → Option γ) (g : α → β) (l : List α) : mapOpt f (l.map g) = mapOpt (fun a => f (g a)) l := by
  induction l with
  | nil => rfl
  | cons a t ih => simp only [List.map_cons, mapOpt, ih]

theorem mapOpt_range_getD {β : Type} (f : List Bool → Option β) (l : List (List Bool)) :
    mapOpt (fun i => f (l.getD i [])) (List.range l.length) = mapOpt f l := by
  induction l with
  | nil => rfl
  | cons a t ih =>
    rw [List.length_cons, List.range_succ_eq_map, mapOpt, mapOpt_map]
    simp only [List.getD_cons_zero, List.getD_cons_succ, mapOpt]
    rw [ih]

theorem chunks_length_congr (per fuel : Nat) (l1 l2 : List Bool) (h : l1.length = l2.length) :
    (chunks per fuel l1).length = (chunks per fuel l2).length := by
  induction fuel generalizing l1 l2 with
  | zero => rfl
  | succ fuel ih =>
    rw [chunks, chunks]
    have he : l1.isEmpty = l2.isEmpty := by
      cases l1 <;> cases l2 <;> simp_all
    rw [he]
    split
    · rfl
    · simp only [List.length_cons]
      rw [ih (l1.drop per) (l2.drop per) (by simp [List.length_drop, h])]

/-- the `i`-th chunk has `min per (n - i·per)` bits, and exists only while `i·per < n` -/
theorem chunks_getD_length (per : Nat) (hper : 1 ≤ per) (fuel : Nat) (l : List Bool) (hl : l.length ≤ fuel) (i : Nat)
    (hi : i < (chunks per fuel l).length) :
    ((chunks per fuel l).getD i []).length = min per (l.length - i * per) ∧ i * per < l.length := by
  induction fuel generalizing l i with
  | zero => simp [chunks] at hi
  | succ fuel ih =>
    rw [chunks] at hi ⊢
    cases he : l.isEmpty with
    | true => simp [he] at hi
    | false =>
      simp only [he, Bool.false_eq_true, if_false] at hi ⊢
      have hne : l ≠ [] := by simpa using he
      have hlen : 0 < l.length := List.length_pos_iff.mpr hne
      cases i with
      | zero => simp [List.length_take]; omega
      | succ i =>
        simp only [List.getD_cons_succ]
        have hd : (l.drop per).length ≤ fuel := by simp [List.length_drop]; omega
        have := ih (l.drop per) hd i (by simpa using hi)
        simp only [List.length_drop] at this
        rw [this.1, Nat.succ_mul]
        constructor
        · congr 1; omega
        · omega

theorem peTreeDepth_le (bps fuel n : Nat) : peTreeDepth bps false fuel n ≤ peTreeDepth bps true fuel n := by
  induction fuel generalizing n with
  | zero => simp [peTreeDepth]
  | succ fuel ih =>
    simp only [peTreeDepth]
    split
    · exact Nat.le_refl _
    · split
      · have := ih (nextPow2 ((n + 2 ^ bps - 1) / 2 ^ bps)); omega
      · have h1 := ih (nextPow2 ((n + 2 ^ bps - 1) / 2 ^ bps))
        have h2 := ih (n % nextPow2 ((n + 2 ^ bps - 1) / 2 ^ bps))
        simp only [Bool.false_eq_true, if_false, if_true]
        omega

/-- **balanced pipelining**: if the longest and the shortest register path both have `L` registers, then from cycle `L` on
the registered tree outputs what the combinational tree computes from the input `L` cycles earlier -/
theorem peTreeReg_balanced (bps : Nat) (hb : 1 ≤ bps) (fuel : Nat) :
    ∀ (n L : Nat) (hist : Nat → List Bool) (t : Nat), (∀ s, (hist s).length = n) → n < fuel →
      peTreeDepth bps true fuel n = L → peTreeDepth bps false fuel n = L → L ≤ t →
      peTreeReg bps fuel hist t = peTree bps fuel (hist (t - L)) := by
  induction fuel with
  | zero => intro n L hist t _ hn; omega
  | succ fuel ih =>
    intro n L hist t hlen hn hmax hmin hLt
    rw [peTreeReg, peTree]
    simp only [peTreeDepth] at hmax hmin
    rw [hlen t, hlen (t - L)]
    have hS : 2 ≤ 2 ^ bps := by
      calc 2 = 2 ^ 1 := rfl
        _ ≤ 2 ^ bps := Nat.pow_le_pow_right (by omega) hb
    generalize hSdef : 2 ^ bps = S at *
    generalize hxdef : (n + S - 1) / S = x at *
    by_cases hper : nextPow2 x ≤ 1
    · rw [if_pos hper] at hmax
      rw [if_pos hper, if_pos hper]
      subst hmax
      simp
    · rw [if_neg hper] at hmax hmin
      rw [if_neg hper, if_neg hper]
      have hx0 : x ≠ 0 := by
        intro h; subst h; simp [nextPow2] at hper
      have hnp : nextPow2 x = 2 ^ log2C x := by simp [nextPow2, hx0]
      have hx2 : 2 ≤ x := by
        apply Nat.le_of_not_lt
        intro h
        have : x = 1 := by omega
        subst this
        simp [nextPow2, log2C] at hper
      have hperlt : nextPow2 x < n := by
        have := per_lt n S hS (by rw [hxdef]; exact hx2)
        rw [hxdef] at this; rw [hnp]; exact this
      generalize hperdef : nextPow2 x = per at *
      have hper1 : 1 ≤ per := by omega
      -- all chunk depths are L - 1
      have hfm := peTreeDepth_le bps fuel per
      have hlm := peTreeDepth_le bps fuel (n % per)
      have hL1 : 1 ≤ L := by
        split at hmax <;> omega
      have hfull : peTreeDepth bps true fuel per = L - 1 ∧ peTreeDepth bps false fuel per = L - 1 := by
        split at hmax
        · rename_i h0; rw [if_pos h0] at hmin; omega
        · rename_i h0; rw [if_neg h0] at hmin
          simp only [if_true, Bool.false_eq_true, if_false] at hmax hmin
          omega
      have hlast : n % per ≠ 0 → peTreeDepth bps true fuel (n % per) = L - 1 ∧ peTreeDepth bps false fuel (n % per) = L - 1 := by
        intro h0
        rw [if_neg h0] at hmax hmin
        simp only [if_true, Bool.false_eq_true, if_false] at hmax hmin
        omega
      -- chunk counts agree over time
      have hcnt : ∀ s, (chunks per n (hist s)).length = (chunks per n (hist (t - L))).length :=
        fun s => chunks_length_congr per n _ _ (by rw [hlen, hlen])
      have hmap : mapOpt (fun i => peTreeReg bps fuel (fun s => (chunks per n (hist s)).getD i []) (t - 1))
            (List.range (chunks per n (hist t)).length)
          = mapOpt (peTree bps fuel) (chunks per n (hist (t - L))) := by
        rw [hcnt t, ← mapOpt_range_getD (peTree bps fuel)]
        apply mapOpt_congr
        intro i hi
        have hi' : i < (chunks per n (hist (t - L))).length := by simpa using hi
        -- the i-th chunk stream has constant length ni
        have hci : ∀ s, ((chunks per n (hist s)).getD i []).length = min per (n - i * per) ∧ i * per < n := by
          intro s
          have := chunks_getD_length per hper1 n (hist s) (by rw [hlen]; exact Nat.le_refl _) i (by rw [hcnt s]; exact hi')
          rw [hlen] at this; exact this
        have hin : i * per < n := (hci 0).2
        have hdepth : peTreeDepth bps true fuel (min per (n - i * per)) = L - 1 ∧
            peTreeDepth bps false fuel (min per (n - i * per)) = L - 1 := by
          by_cases hfullc : per ≤ n - i * per
          · rw [Nat.min_eq_left hfullc]; exact hfull
          · have hrest : n - i * per = n % per := by
              have hc : per * i = i * per := Nat.mul_comm ..
              have := (Nat.div_mod_unique (by omega : 0 < per) (a := n) (d := i) (c := n - i * per)).mpr
                ⟨by omega, by omega⟩
              exact this.2.symm
            rw [Nat.min_eq_right (by omega), hrest]
            exact hlast (by omega)
        have := ih (min per (n - i * per)) (L - 1) (fun s => (chunks per n (hist s)).getD i []) (t - 1)
          (fun s => (hci s).1) (by have := Nat.min_le_left per (n - i * per); omega) hdepth.1 hdepth.2 (by omega)
        rw [this, show t - 1 - (L - 1) = t - L by omega]
      simp only
      rw [hmap]

end Gatery.C17
