import GateryModel.C17.LemmasTree
/-!
Helper lemmas for C17: the registered `priorityEncoderTree(registerStep = true)` (chunks zero-extended to equal size, one register
per level) outputs in cycle `t` the flat priority encoding of the input of cycle `t - L`, `L` = number of levels — for every
input width and every `bps ≥ 1`.
-/
namespace Gatery.C17
open Spec

theorem chunks_length_congr (per fuel : Nat) (l1 l2 : List Bool) (h : l1.length = l2.length) :
    (chunks per fuel l1).length = (chunks per fuel l2).length := by
  induction fuel generalizing l1 l2 with
  | zero => rfl
  | succ fuel ih =>
    rw [chunks, chunks]
    have he : l1.isEmpty = l2.isEmpty := by
      cases l1 <;> cases l2 <;> simp_all
    rw [he]
    split
    · rfl
    · simp only [List.length_cons]
      rw [ih (l1.drop per) (l2.drop per) (by simp [List.length_drop, h])]

theorem map_range_getD {β : Type} (F : List Bool → β) (l : List (List Bool)) :
    (List.range l.length).map (fun i => F (l.getD i [])) = l.map F := by
  induction l with
  | nil => rfl
  | cons a t ih =>
    rw [List.length_cons, List.range_succ_eq_map, List.map_cons, List.map_map]
    simp only [List.getD_cons_zero, List.map_cons]
    congr 1

theorem chunks_getD_le (per : Nat) (hper : 1 ≤ per) (fuel : Nat) (l : List Bool) (i : Nat) :
    ((chunks per fuel l).getD i []).length ≤ per := by
  by_cases hi : i < (chunks per fuel l).length
  · have hmem : (chunks per fuel l).getD i [] ∈ chunks per fuel l := by
      simp only [List.getD, List.getElem?_eq_getElem hi, Option.getD_some]; exact List.getElem_mem hi
    exact (chunks_mem per hper fuel l _ hmem).2
  · simp [List.getD, List.getElem?_eq_none (Nat.le_of_not_lt hi)]

theorem padTo_length (per : Nat) (l : List Bool) (h : l.length ≤ per) : (padTo per l).length = per := by
  simp [padTo]; omega

theorem lowestSet_replicate_false (k : Nat) : lowestSet (List.replicate k false) = none := by
  induction k with
  | zero => rfl
  | succ k ih => simp [List.replicate_succ, lowestSet, ih]

/-- zero-extension does not change the lowest set bit -/
theorem lowestSet_padTo (per : Nat) (l : List Bool) : lowestSet (padTo per l) = lowestSet l := by
  unfold padTo
  rw [lowestSet_append, lowestSet_replicate_false]
  cases lowestSet l <;> rfl

theorem peTreeReg_eq_flat (bps : Nat) (hb : 1 ≤ bps) (fuel : Nat) :
    ∀ (n : Nat) (hist : Nat → List Bool) (t : Nat), (∀ s, (hist s).length = n) → n < fuel → peTreeRegDepth bps fuel n ≤ t →
      ∃ w, peTreeReg bps fuel hist t = some ⟨w, (priorityEncoder (hist (t - peTreeRegDepth bps fuel n))).v,
                                               (priorityEncoder (hist (t - peTreeRegDepth bps fuel n))).valid⟩ := by
  induction fuel with
  | zero => intro n hist t _ hn; omega
  | succ fuel ih =>
    intro n hist t hlen hn hLt
    rw [peTreeReg]
    simp only [peTreeRegDepth] at hLt ⊢
    rw [hlen t]
    have hS : 2 ≤ 2 ^ bps := by
      calc 2 = 2 ^ 1 := rfl
        _ ≤ 2 ^ bps := Nat.pow_le_pow_right (by omega) hb
    generalize hSdef : 2 ^ bps = S at *
    generalize hxdef : (n + S - 1) / S = x at *
    by_cases hper : nextPow2 x ≤ 1
    · rw [if_pos hper] at hLt ⊢
      rw [if_pos hper]
      exact ⟨_, rfl⟩
    · rw [if_neg hper] at hLt ⊢
      rw [if_neg hper]
      obtain ⟨hper2, hperlt, hxper, hlowW⟩ := per_facts n S x hS hxdef hper
      generalize nextPow2 x = per at *
      generalize hLdef : peTreeRegDepth bps fuel per = L1 at *
      -- the input word that reaches the output now
      have ht : t - (1 + L1) = t - 1 - L1 := by omega
      rw [ht]
      have hsrc : (hist (t - 1 - L1)).length = n := hlen _
      have hne : hist (t - 1 - L1) ≠ [] := by
        intro h; rw [h] at hsrc; simp at hsrc; omega
      have hcnt : (chunks per n (hist t)).length = (chunks per n (hist (t - 1 - L1))).length :=
        chunks_length_congr per n _ _ (by rw [hlen, hlen])
      -- the lower level, by induction: every padded chunk stream has `per` bits
      have hlower : ∀ i ∈ List.range (chunks per n (hist t)).length,
          ∃ w, peTreeReg bps fuel (fun s => padTo per ((chunks per n (hist s)).getD i [])) (t - 1)
            = some ⟨w, lowestSet ((chunks per n (hist (t - 1 - L1))).getD i []),
                       (lowestSet ((chunks per n (hist (t - 1 - L1))).getD i [])).isSome⟩ := by
        intro i hi
        have hi' : i < (chunks per n (hist (t - 1 - L1))).length := by rw [← hcnt]; simpa using hi
        have hl : ∀ s, (padTo per ((chunks per n (hist s)).getD i [])).length = per :=
          fun s => padTo_length per _ (chunks_getD_le per (by omega) n (hist s) i)
        obtain ⟨w, hw⟩ := ih per (fun s => padTo per ((chunks per n (hist s)).getD i [])) (t - 1) hl (by omega)
          (by rw [hLdef]; omega)
        rw [hLdef] at hw
        refine ⟨w, ?_⟩
        rw [hw]
        have hpne : padTo per ((chunks per n (hist (t - 1 - L1))).getD i []) ≠ [] := by
          intro h
          have := hl (t - 1 - L1)
          rw [h] at this; simp at this; omega
        simp only [priorityEncoder_v _ hpne, priorityEncoder_valid, lowestSet_padTo]
      obtain ⟨lower, hl, hm⟩ := mapOpt_some _ _ _ _ hlower
      rw [hl]
      rw [hcnt, map_range_getD (fun c => (lowestSet c, (lowestSet c).isSome))] at hm
      rw [priorityEncoder_v _ hne, priorityEncoder_valid]
      have hm' : (lower.map fun o => (o.v, o.valid)) =
          (chunks per (hist (t - 1 - L1)).length (hist (t - 1 - L1))).map fun c => (lowestSet c, (lowestSet c).isSome) := by
        rw [hsrc]; exact hm
      obtain ⟨w, hw⟩ := treeCombine_flat bps S x per (hist (t - 1 - L1)) lower hSdef hS (by rw [hsrc]; exact hxdef) hper2 hxper hlowW hm'
      exact ⟨w, by simp only [hw]⟩

end Gatery.C17
